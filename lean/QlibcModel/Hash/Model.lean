/-
  Executable, mechanism-level model of src/utilities/qhash.c and src/internal/md5/md5c.c
  (CURRENT tree: FNV loops run on `nbytes` only; murmur block access through memcpy).

  * Everything that is *data in the source* comes from `Generated.HashConsts` (K-gen, regenerated
    from the current source on every run): the 64 step lines of MD5Transform, the init words,
    PADDING, the FNV offset bases and shift lists, all murmur constants, rotation amounts and the
    tail `switch` tables.  The model is driven by these values; the theorems of Props/C18 show
    that they are the published ones.
  * A caller buffer is a byte list `data` together with the length argument `nbytes`/`inputLen`
    the C function receives; every read goes through the checked accessors `rd` / `rdN`, so a read
    at or beyond `data.length` is the outcome `.error .oob`, never a default value.
  * Widths: hash arithmetic is `UInt32`/`UInt64`; `unsigned int` loop arithmetic of MD5Update is
    modulo 2^32; the `int` arithmetic of the murmur functions (`const int nblocks = nbytes / N`,
    `nblocks * N`, `i * N`) is refused (`assertFail`) when it overflows, i.e. for `nbytes ≥ 2^31`;
    `(unsigned int) nbytes` of qhashmd5 truncates modulo 2^32.
  * Little-endian x86-64: `Encode`/`Decode` of md5c.c are `memcpy`; a `memcpy` into a `uint32_t` /
    `uint64_t` is `le32` / `le64`.
-/
import QlibcModel.Base.Fault
import QlibcModel.Hash.Bytes
import QlibcModel.Generated.HashConsts

namespace Qlibc.Hash
open Qlibc Qlibc.Generated

/-- checked read of the `n` bytes `buf[i .. i+n)` (the source range of a `memcpy`, or a block
    handed to MD5Transform); `n = 0` reads nothing but the pointer must still be inside or one
    past the buffer -/
def rdN (buf : Bytes) (i n : Nat) : Except Fault Bytes :=
  if i + n ≤ buf.length then .ok ((buf.drop i).take n) else .error .oob

/-! ## md5c.c -/

/-- `ROTATE_LEFT(x, n) = (((x) << (n)) | ((x) >> (32-(n))))` on `u_int32_t` -/
def rotateLeft32 (x : UInt32) (n : Nat) : UInt32 :=
  (x <<< UInt32.ofNat n) ||| (x >>> UInt32.ofNat (32 - n))

def mF (x y z : UInt32) : UInt32 := (x &&& y) ||| (~~~x &&& z)
def mG (x y z : UInt32) : UInt32 := (x &&& z) ||| (y &&& ~~~z)
def mH (x y z : UInt32) : UInt32 := x ^^^ y ^^^ z
def mI (x y z : UInt32) : UInt32 := y ^^^ (x ||| ~~~z)

/-- the basic function used by macro 0=FF 1=GG 2=HH 3=II -/
def macroFn (m : Nat) : UInt32 → UInt32 → UInt32 → UInt32 :=
  match m with
  | 0 => mF | 1 => mG | 2 => mH | _ => mI

/-- one step line `XX (ra, rb, rc, rd, x[k], s, ac)`:
    `(a) += X((b),(c),(d)) + (x) + (u_int32_t)(ac); (a) = ROTATE_LEFT((a),(s)); (a) += (b);`
    on the local variables a b c d (register numbers 0..3); `x` is `Decode(x, block, 64)`, i.e.
    `x[k]` is word `k` of the block -/
def stepLine (block : Bytes) (r : Regs) (st : Nat × Nat × Nat × Nat × Nat × Nat × Nat × Nat) : Regs :=
  let (m, ra, rb, rc, rd, k, s, ac) := st
  let a := r.get ra + ((macroFn m (r.get rb) (r.get rc) (r.get rd) + wordAt block k) + UInt32.ofNat ac)
  let a := rotateLeft32 a s
  let a := a + r.get rb
  r.set ra a

/-- `MD5Transform(state, block)`: the step lines of the current source in order, then
    `state[i] += a/b/c/d` -/
def MD5Transform (state : Regs) (block : Bytes) : Regs :=
  let r := md5Steps.foldl (stepLine block) state
  ⟨state.a + r.a, state.b + r.b, state.c + r.c, state.d + r.d⟩

/-- `MD5_CTX`; `buffer` has 64 bytes -/
structure MD5Ctx where
  state : Regs
  count0 : UInt32
  count1 : UInt32
  buffer : Bytes
  deriving DecidableEq, Repr, Inhabited

/-- `MD5Init`: the buffer is not touched (it keeps whatever the caller's memory held) -/
def MD5Init (ctx : MD5Ctx) : MD5Ctx :=
  { ctx with
    count0 := 0, count1 := 0,
    state := ⟨UInt32.ofNat (md5Init.getD 0 0), UInt32.ofNat (md5Init.getD 1 0),
              UInt32.ofNat (md5Init.getD 2 0), UInt32.ofNat (md5Init.getD 3 0)⟩ }

/-- `memcpy(&buffer[idx], src, src.length)`, checked against the 64-byte buffer -/
def memcpyBuf (buffer : Bytes) (idx : Nat) (src : Bytes) : Except Fault Bytes :=
  if idx + src.length ≤ buffer.length then
    .ok (buffer.take idx ++ src ++ buffer.drop (idx + src.length))
  else .error .oob

/-- `for (i = partLen; i + 63 < inputLen; i += 64) MD5Transform(state, &input[i]);`
    (`unsigned int` arithmetic); returns the state and the final `i` -/
def updLoop (input : Bytes) (inputLen : Nat) : (fuel : Nat) → (i : Nat) → Regs → Except Fault (Regs × Nat)
  | 0, _, _ => .error .outOfFuel
  | fuel + 1, i, st =>
    if (i + 63) % 2 ^ 32 < inputLen then do
      let blk ← rdN input i 64
      updLoop input inputLen fuel ((i + 64) % 2 ^ 32) (MD5Transform st blk)
    else .ok (st, i)

/-- `(unsigned int) ((context->count[0] >> 3) & 0x3F)`: number of bytes mod 64; shift and mask are
    the ones of the current source (K-gen) -/
def bufIndex (c0 : UInt32) : Nat :=
  ((c0 >>> UInt32.ofNat md5IdxShr) &&& UInt32.ofNat md5IdxMask).toNat

/-- the bit-count update of MD5Update (shift amounts from the current source, K-gen):
    `if ((count[0] += ((u_int32_t) inputLen << 3)) < ((u_int32_t) inputLen << 3)) count[1]++;`
    `count[1] += ((u_int32_t) inputLen >> 29);` -/
def countUpdate (c0 c1 : UInt32) (inputLen : Nat) : UInt32 × UInt32 :=
  let add : UInt32 := UInt32.ofNat inputLen <<< UInt32.ofNat md5CntShl
  let c0' := c0 + add
  let c1' := if c0' < add then c1 + 1 else c1
  (c0', c1' + (UInt32.ofNat inputLen >>> UInt32.ofNat md5CntShr))

/-- `MD5Update(context, input, inputLen)`, `inputLen < 2^32` being an `unsigned int` -/
def MD5Update (ctx : MD5Ctx) (input : Bytes) (inputLen : Nat) : Except Fault MD5Ctx := do
  let idx := bufIndex ctx.count0
  let cnt := countUpdate ctx.count0 ctx.count1 inputLen
  let partLen := 64 - idx
  if inputLen ≥ partLen then
    let part ← rdN input 0 partLen
    let buf ← memcpyBuf ctx.buffer idx part
    let st := MD5Transform ctx.state buf
    let (st, i) ← updLoop input inputLen (inputLen / 64 + 1) partLen st
    let rest ← rdN input i (inputLen - i)
    let buf ← memcpyBuf buf 0 rest
    pure ⟨st, cnt.1, cnt.2, buf⟩
  else
    let rest ← rdN input 0 inputLen
    let buf ← memcpyBuf ctx.buffer idx rest
    pure ⟨ctx.state, cnt.1, cnt.2, buf⟩

/-- a sequence of `MD5Update` calls, one per chunk (each chunk in its own exactly sized buffer) -/
def MD5UpdateAll (ctx : MD5Ctx) (chunks : List Bytes) : Except Fault MD5Ctx :=
  match chunks with
  | [] => .ok ctx
  | x :: rest => do
    let c ← MD5Update ctx x x.length
    MD5UpdateAll c rest

/-- `MD5Pad`: `Encode(bits, count, 8)`; pad out to 56 mod 64 from PADDING; append the length -/
def MD5Pad (ctx : MD5Ctx) : Except Fault MD5Ctx := do
  let bits := bytes32 ctx.count0 ++ bytes32 ctx.count1
  let idx := bufIndex ctx.count0
  let padLen := if idx < 56 then 56 - idx else 120 - idx
  let ctx ← MD5Update ctx md5Padding padLen
  MD5Update ctx bits 8

/-- `MD5Final`: the digest is `Encode(digest, state, 16)`; the context is zeroised afterwards
    (not observable: every caller discards it) -/
def MD5Final (ctx : MD5Ctx) : Except Fault Bytes := do
  let ctx ← MD5Pad ctx
  pure ctx.state.bytes

/-! ## qhash.c: MD5 wrappers -/

/-- `qhashmd5(data, nbytes, retbuf)` for non-NULL arguments; `ctx` is the uninitialised
    `MD5_CTX context` on the stack -/
def qhashmd5 (ctx : MD5Ctx) (data : Bytes) (nbytes : Nat) : Except Fault Bytes := do
  let c := MD5Init ctx
  let c ← MD5Update c data (nbytes % 2 ^ 32)       -- `(unsigned int) nbytes`
  MD5Final c

/-- `sizeof(buf)` of qhashmd5_file -/
def fileBufSize : Nat := 32 * 1024

/-- the number of bytes the next `read` is allowed to return: the request is
    `toread > sizeof(buf) ? sizeof(buf) : toread`, cut short by the head of the schedule -/
def readCount (toread : Nat) (sched : List Nat) : Nat :=
  let want := if toread > fileBufSize then fileBufSize else toread
  match sched with
  | [] => want
  | k :: _ => min want (max k 1)

/-- The read loop of `qhashmd5_file`.  `pos` is the file position, `sched` the short-read
    schedule: the next `read(fd, buf, want)` returns `min want (max k 1)` bytes for the head `k`
    of the schedule (all of `want` when the schedule is used up), limited by what the file has.
    Returns the context and the final `toread`. -/
def fileLoop (contents : Bytes) : (fuel : Nat) → (pos toread : Nat) → (sched : List Nat) → MD5Ctx →
    Except Fault (MD5Ctx × Nat)
  | 0, _, _, _, _ => .error .outOfFuel
  | fuel + 1, pos, toread, sched, ctx =>
    if toread > 0 then do
      let buf := (contents.drop pos).take (readCount toread sched)   -- read(): as many as the file has
      let nread := buf.length
      let ctx ← MD5Update ctx buf nread
      fileLoop contents fuel (pos + nread) (toread - nread) sched.tail ctx
    else .ok (ctx, toread)

/-- `qhashmd5_file(filepath, offset, nbytes, retbuf)` on a regular file with the given contents,
    `offset ≥ 0`, `nbytes ≥ 0`, no I/O errors; `none` is the return value `false` -/
def qhashmd5File (ctx : MD5Ctx) (contents : Bytes) (offset nbytes : Nat) (sched : List Nat) :
    Except Fault (Option Bytes) := do
  let size := contents.length
  if size < offset + nbytes then pure none
  else
    let nbytes := if nbytes = 0 then size - offset else nbytes
    let c := MD5Init ctx
    let (c, toread) ← fileLoop contents (nbytes + 1) offset nbytes sched c
    if toread ≠ 0 then pure none
    else
      let d ← MD5Final c
      pure (some d)

/-! ## qhash.c: FNV-1 -/

/-- `h += (h<<s1) + (h<<s2) + …` (32 bit) -/
def shiftAdd32 (h : UInt32) (shifts : List Nat) : UInt32 :=
  match shifts with
  | [] => h
  | s :: rest => h + rest.foldl (fun acc s => acc + (h <<< UInt32.ofNat s)) (h <<< UInt32.ofNat s)

def shiftAdd64 (h : UInt64) (shifts : List Nat) : UInt64 :=
  match shifts with
  | [] => h
  | s :: rest => h + rest.foldl (fun acc s => acc + (h <<< UInt64.ofNat s)) (h <<< UInt64.ofNat s)

/-- `for (dp = data; nbytes > 0; dp++, nbytes--) { h += …; h ^= *dp; }`; `i = dp - data` -/
def fnv32Loop (data : Bytes) : (nbytes : Nat) → (i : Nat) → UInt32 → Except Fault UInt32
  | 0, _, h => .ok h
  | n + 1, i, h => do
    let c ← rd data i
    fnv32Loop data n (i + 1) (shiftAdd32 h fnv32Shifts ^^^ c.toUInt32)

def qhashfnv1_32 (data : Bytes) (nbytes : Nat) : Except Fault UInt32 :=
  if nbytes = 0 then .ok 0 else fnv32Loop data nbytes 0 (UInt32.ofNat fnv32Offset)

def fnv64Loop (data : Bytes) : (nbytes : Nat) → (i : Nat) → UInt64 → Except Fault UInt64
  | 0, _, h => .ok h
  | n + 1, i, h => do
    let c ← rd data i
    fnv64Loop data n (i + 1) (shiftAdd64 h fnv64Shifts ^^^ c.toUInt64)

def qhashfnv1_64 (data : Bytes) (nbytes : Nat) : Except Fault UInt64 :=
  if nbytes = 0 then .ok 0 else fnv64Loop data nbytes 0 (UInt64.ofNat fnv64Offset)

/-! ## qhash.c: MurmurHash3 -/

/-- `(x << n) | (x >> (64 - n))` on `uint64_t` -/
def rotateLeft64 (x : UInt64) (n : Nat) : UInt64 :=
  (x <<< UInt64.ofNat n) ||| (x >>> UInt64.ofNat (64 - n))

/-- `memcpy(&k, p + off, 4)` -/
def rd32 (data : Bytes) (off : Nat) : Except Fault UInt32 := do
  let b0 ← rd data off
  let b1 ← rd data (off + 1)
  let b2 ← rd data (off + 2)
  let b3 ← rd data (off + 3)
  pure (le32 b0 b1 b2 b3)

/-- `memcpy(&k, p + off, 8)` -/
def rd64 (data : Bytes) (off : Nat) : Except Fault UInt64 := do
  let b0 ← rd data off
  let b1 ← rd data (off + 1)
  let b2 ← rd data (off + 2)
  let b3 ← rd data (off + 3)
  let b4 ← rd data (off + 4)
  let b5 ← rd data (off + 5)
  let b6 ← rd data (off + 6)
  let b7 ← rd data (off + 7)
  pure (le64 b0 b1 b2 b3 b4 b5 b6 b7)

/-- `k *= c1; k = (k << r) | (k >> (32 - r)); k *= c2;` -/
def m32K (k : UInt32) (rot : Nat) : UInt32 :=
  rotateLeft32 (k * UInt32.ofNat m32C1) rot * UInt32.ofNat m32C2

/-- `for (i = 0; i < nblocks; i++)`; `n = nblocks - i` -/
def m32Loop (data : Bytes) : (n : Nat) → (i : Nat) → UInt32 → Except Fault UInt32
  | 0, _, h => .ok h
  | n + 1, i, h => do
    let k ← rd32 data (i * 4)
    let h := h ^^^ m32K k m32RotK
    let h := rotateLeft32 h m32RotH
    let h := (h * UInt32.ofNat m32HMul) + UInt32.ofNat m32HAdd
    m32Loop data n (i + 1) h

/-- the `k ^= tail[j] << s` statements of the `switch (nbytes & 3)` with fall-through: the
    statements of every `case` label ≤ the selector `r` run, in source order; `t` is the offset of
    `tail` in `data` -/
def tailSwitch32 (data : Bytes) (t r : Nat) (tbl : List (Nat × Nat × Nat)) (k : UInt32) : Except Fault UInt32 :=
  match tbl with
  | [] => .ok k
  | (label, j, s) :: rest =>
    if label ≤ r then do
      let c ← rd data (t + j)
      tailSwitch32 data t r rest (k ^^^ (c.toUInt32 <<< UInt32.ofNat s))
    else tailSwitch32 data t r rest k

def fmix32 (h : UInt32) (p : List Nat) : UInt32 :=
  let h := h ^^^ (h >>> UInt32.ofNat (p.getD 0 0))
  let h := h * UInt32.ofNat (p.getD 1 0)
  let h := h ^^^ (h >>> UInt32.ofNat (p.getD 2 0))
  let h := h * UInt32.ofNat (p.getD 3 0)
  h ^^^ (h >>> UInt32.ofNat (p.getD 4 0))

/-- `qhashmurmur3_32(data, nbytes)` for non-NULL data -/
def qhashmurmur3_32 (data : Bytes) (nbytes : Nat) : Except Fault UInt32 :=
  if nbytes = 0 then .ok 0
  else if nbytes / 4 * 4 ≥ 2 ^ 31 then .error .assertFail -- `int`: `nblocks * 4`, `i * 4` overflow
  else do
    let nblocks := nbytes / 4
    let h ← m32Loop data nblocks 0 0
    let r := nbytes % 4                                   -- `nbytes & 3`
    let k ← tailSwitch32 data (nblocks * 4) r m32Tail 0
    -- `k *= c1; …; h ^= k;` follow `k ^= tail[0]` under `case 1`
    let h := if 1 ≤ r then h ^^^ m32K k m32RotKTail else h
    let h := h ^^^ UInt32.ofNat nbytes                    -- `h ^= nbytes` truncates to 32 bits
    pure (fmix32 h m32Fmix)

def m128K1 (k : UInt64) (rot : Nat) : UInt64 :=
  rotateLeft64 (k * UInt64.ofNat m128C1) rot * UInt64.ofNat m128C2
def m128K2 (k : UInt64) (rot : Nat) : UInt64 :=
  rotateLeft64 (k * UInt64.ofNat m128C2) rot * UInt64.ofNat m128C1

def m128Loop (data : Bytes) : (n : Nat) → (i : Nat) → UInt64 → UInt64 → Except Fault (UInt64 × UInt64)
  | 0, _, h1, h2 => .ok (h1, h2)
  | n + 1, i, h1, h2 => do
    let k1 ← rd64 data ((i * 2 + 0) * 8)
    let k2 ← rd64 data ((i * 2 + 1) * 8)
    let h1 := h1 ^^^ m128K1 k1 m128RotK1
    let h1 := rotateLeft64 h1 m128RotH1
    let h1 := h1 + h2
    let h1 := h1 * UInt64.ofNat m128H1Mul + UInt64.ofNat m128H1Add
    let h2 := h2 ^^^ m128K2 k2 m128RotK2
    let h2 := rotateLeft64 h2 m128RotH2
    let h2 := h2 + h1
    let h2 := h2 * UInt64.ofNat m128H2Mul + UInt64.ofNat m128H2Add
    m128Loop data n (i + 1) h1 h2

def tailSwitch64 (data : Bytes) (t r : Nat) (tbl : List (Nat × Nat × Nat)) (k : UInt64) : Except Fault UInt64 :=
  match tbl with
  | [] => .ok k
  | (label, j, s) :: rest =>
    if label ≤ r then do
      let c ← rd data (t + j)
      tailSwitch64 data t r rest (k ^^^ (c.toUInt64 <<< UInt64.ofNat s))
    else tailSwitch64 data t r rest k

def fmix64 (h : UInt64) (p : List Nat) : UInt64 :=
  let h := h ^^^ (h >>> UInt64.ofNat (p.getD 0 0))
  let h := h * UInt64.ofNat (p.getD 1 0)
  let h := h ^^^ (h >>> UInt64.ofNat (p.getD 2 0))
  let h := h * UInt64.ofNat (p.getD 3 0)
  h ^^^ (h >>> UInt64.ofNat (p.getD 4 0))

/-- `qhashmurmur3_128(data, nbytes, retbuf)` for non-NULL data; `none` is `false`; the 16 result
    bytes are the two `memcpy` stores of h1 and h2 -/
def qhashmurmur3_128 (data : Bytes) (nbytes : Nat) : Except Fault (Option Bytes) :=
  if nbytes = 0 then .ok none
  else if nbytes / 16 * 16 ≥ 2 ^ 31 then .error .assertFail -- `int`: `nblocks * 16`, `(i * 2 + 1) * 8` overflow
  else do
    let nblocks := nbytes / 16
    let (h1, h2) ← m128Loop data nblocks 0 0 0
    let r := nbytes % 16                                  -- `nbytes & 15`
    let t := nblocks * 16
    -- labels 15..9 accumulate k2 (mixed into h2 under `case 9`), labels 8..1 accumulate k1
    let k2 ← tailSwitch64 data t r (m128Tail.filter fun e => 9 ≤ e.1) 0
    let h2 := if 9 ≤ r then h2 ^^^ m128K2 k2 m128RotK2Tail else h2
    let k1 ← tailSwitch64 data t r (m128Tail.filter fun e => e.1 < 9) 0
    let h1 := if 1 ≤ r then h1 ^^^ m128K1 k1 m128RotK1Tail else h1
    let h1 := h1 ^^^ UInt64.ofNat nbytes
    let h2 := h2 ^^^ UInt64.ofNat nbytes
    let h1 := h1 + h2
    let h2 := h2 + h1
    let h1 := fmix64 h1 m128Fmix1
    let h2 := fmix64 h2 m128Fmix2
    let h1 := h1 + h2
    let h2 := h2 + h1
    pure (some (bytes64 h1 ++ bytes64 h2))

/-! ## total wrappers for other models' drivers (slot index = murmur32 % maxslots, key digest)

  `Props/C18` shows that the `.error` branches are unreachable for `data.length < 2^32`. -/

def murmur32 (data : List UInt8) : UInt32 :=
  match qhashmurmur3_32 data data.length with
  | .ok h => h
  | .error _ => 0

/-- a context whose buffer is 64 zero bytes (the buffer contents never influence a digest) -/
def zeroCtx : MD5Ctx := ⟨⟨0, 0, 0, 0⟩, 0, 0, List.replicate 64 0⟩

def md5 (data : List UInt8) : List UInt8 :=
  match qhashmd5 zeroCtx data data.length with
  | .ok d => d
  | .error _ => []

end Qlibc.Hash

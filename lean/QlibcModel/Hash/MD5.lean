/-
  Lemmas about the MD5 part of the hash model (helpers of Props/C18): MD5Transform is the RFC's
  block function; the buffering logic of MD5Update; MD5Pad produces the RFC's padding.
-/
import QlibcModel.Hash.Murmur
namespace Qlibc.Hash
open Qlibc Qlibc.Generated

/-! ### MD5Transform is the RFC's block function -/

theorem macroFn_eq : macroFn = Spec.aux := by
  funext m
  match m with
  | 0 => rfl
  | 1 => rfl
  | 2 => rfl
  | _ + 3 => rfl

theorem stepLine_eq (blk : Bytes) (r : Regs) (st : Nat × Nat × Nat × Nat × Nat × Nat × Nat × Nat)
    (h0 : 0 < st.2.2.2.2.2.2.1) (h1 : st.2.2.2.2.2.2.1 < 32) : stepLine blk r st = Spec.op blk r st := by
  obtain ⟨m, ra, rb, rc, rd, k, s, ac⟩ := st
  simp only at h0 h1
  simp only [stepLine, Spec.op, macroFn_eq, rotateLeft32_eq _ s h0 h1]
  congr 1
  rw [UInt32.add_comm]
  congr 2
  simp only [UInt32.add_assoc]

theorem steps_shift_ok : ∀ st ∈ Spec.rfcSteps, 0 < st.2.2.2.2.2.2.1 ∧ st.2.2.2.2.2.2.1 < 32 := by
  decide +kernel

set_option synthInstance.maxSize 1024 in
theorem md5Steps_eq : md5Steps = Spec.rfcSteps := by decide +kernel

theorem foldl_congr_mem {α β : Type} (f g : β → α → β) (l : List α) (b : β)
    (h : ∀ b, ∀ a ∈ l, f b a = g b a) : l.foldl f b = l.foldl g b := by
  induction l generalizing b with
  | nil => rfl
  | cons x xs ih =>
    simp only [List.foldl_cons]
    rw [h b x (by simp)]
    exact ih _ (fun b a ha => h b a (by simp [ha]))

theorem MD5Transform_eq (st : Regs) (blk : Bytes) : MD5Transform st blk = Spec.processBlock st blk := by
  simp only [MD5Transform, Spec.processBlock, md5Steps_eq]
  have : Spec.rfcSteps.foldl (stepLine blk) st = Spec.rfcSteps.foldl (Spec.op blk) st := by
    apply foldl_congr_mem
    intro r e he
    exact stepLine_eq blk r e (steps_shift_ok e he).1 (steps_shift_ok e he).2
  rw [this]


/-! ### `Spec.absorb` -/

theorem absorb_lt {r : Regs} {m : Bytes} (h : m.length < 64) : Spec.absorb r m = r := by
  rw [Spec.absorb, if_pos h]

theorem absorb_block {r : Regs} {blk rest : Bytes} (h : blk.length = 64) :
    Spec.absorb r (blk ++ rest) = Spec.absorb (Spec.processBlock r blk) rest := by
  rw [Spec.absorb, if_neg (by simp [h])]
  simp [h]

theorem absorb_append {a : Bytes} : ∀ (n : Nat) (r : Regs) (b : Bytes), a.length = 64 * n →
    Spec.absorb r (a ++ b) = Spec.absorb (Spec.absorb r a) b := by
  intro n
  induction n generalizing a with
  | zero =>
    intro r b h
    have : a = [] := List.eq_nil_of_length_eq_zero (by omega)
    subst this
    simp [absorb_lt]
  | succ n ih =>
    intro r b h
    have ha : a = a.take 64 ++ a.drop 64 := (List.take_append_drop 64 a).symm
    have h64 : (a.take 64).length = 64 := by simp [List.length_take]; omega
    rw [ha, List.append_assoc, absorb_block h64, absorb_block h64]
    exact ih _ _ (by simp [List.length_drop]; omega)

/-- the incomplete last block does not influence the absorbed state -/
theorem absorb_take (r : Regs) (m : Bytes) :
    Spec.absorb r m = Spec.absorb r (m.take (m.length - m.length % 64)) := by
  have hm : m = m.take (m.length - m.length % 64) ++ m.drop (m.length - m.length % 64) :=
    (List.take_append_drop _ m).symm
  have hl : (m.take (m.length - m.length % 64)).length = 64 * (m.length / 64) := by
    simp [List.length_take]; omega
  conv => lhs; rw [hm]
  rw [absorb_append _ r _ hl, absorb_lt]
  simp [List.length_drop]; omega


/-! ### the bit count of MD5Update -/

theorem idx_eq (c0 : UInt32) (L : Nat) (h0 : c0.toNat = 8 * L % 2 ^ 32) :
    ((c0 >>> 3) &&& 0x3F).toNat = L % 64 := by
  have e : (63 : Nat) = 2 ^ 6 - 1 := by decide
  simp only [UInt32.toNat_and, UInt32.toNat_shiftRight, h0]
  show (8 * L % 2 ^ 32) >>> (3 % 32) &&& 63 = L % 64
  rw [e, Nat.and_two_pow_sub_one_eq_mod, Nat.shiftRight_eq_div_pow]
  simp only [Nat.reduceMod, Nat.reducePow]
  omega

theorem count_update (c0 c1 : UInt32) (L len : Nat) (h0 : c0.toNat = 8 * L % 2 ^ 32)
    (h1 : c1.toNat = 8 * L / 2 ^ 32 % 2 ^ 32) (hl : len < 2 ^ 32) :
    (c0 + (UInt32.ofNat len <<< 3)).toNat = 8 * (L + len) % 2 ^ 32 ∧
    ((if c0 + (UInt32.ofNat len <<< 3) < UInt32.ofNat len <<< 3 then c1 + 1 else c1)
        + (UInt32.ofNat len >>> 29)).toNat = 8 * (L + len) / 2 ^ 32 % 2 ^ 32 := by
  have hadd : (UInt32.ofNat len <<< 3).toNat = 8 * len % 2 ^ 32 := by
    simp only [UInt32.toNat_shiftLeft, UInt32.toNat_ofNat']
    show (len % 2 ^ 32) <<< (3 % 32) % 2 ^ 32 = _
    rw [Nat.shiftLeft_eq]
    simp only [Nat.reduceMod, Nat.reducePow]
    omega
  have hshr : (UInt32.ofNat len >>> 29).toNat = len / 2 ^ 29 := by
    simp only [UInt32.toNat_shiftRight, UInt32.toNat_ofNat']
    show (len % 2 ^ 32) >>> (29 % 32) = _
    rw [Nat.shiftRight_eq_div_pow, Nat.mod_eq_of_lt hl]
  have hc0 : (c0 + (UInt32.ofNat len <<< 3)).toNat = 8 * (L + len) % 2 ^ 32 := by
    rw [UInt32.toNat_add, hadd, h0]; omega
  refine ⟨hc0, ?_⟩
  by_cases hlt : c0 + (UInt32.ofNat len <<< 3) < UInt32.ofNat len <<< 3
  · rw [if_pos hlt]
    have hlt' := UInt32.lt_iff_toNat_lt.mp hlt
    rw [hc0, hadd] at hlt'
    rw [UInt32.toNat_add, UInt32.toNat_add, hshr, h1]
    simp only [UInt32.toNat_one] 
    omega
  · rw [if_neg hlt]
    have hlt' : ¬ _ := fun h => hlt (UInt32.lt_iff_toNat_lt.mpr h)
    rw [hc0, hadd] at hlt'
    rw [UInt32.toNat_add, hshr, h1]
    omega


/-- the index and count expressions of the model, driven by the generated shift amounts and mask,
    are the published ones: byte index = (count >> 3) & 0x3F, low word += len << 3 with carry,
    high word += len >> 29 -/
theorem bufIndex_eq (c0 : UInt32) : bufIndex c0 = ((c0 >>> 3) &&& 0x3F).toNat := rfl

theorem countUpdate_eq (c0 c1 : UInt32) (len : Nat) :
    countUpdate c0 c1 len =
      (c0 + (UInt32.ofNat len <<< 3),
       (if c0 + (UInt32.ofNat len <<< 3) < UInt32.ofNat len <<< 3 then c1 + 1 else c1)
         + (UInt32.ofNat len >>> 29)) := rfl

/-- the model's bit count is `8 * (bytes fed)` modulo 2^64 after every update -/
theorem countUpdate_spec (c0 c1 : UInt32) (L len : Nat) (h0 : c0.toNat = 8 * L % 2 ^ 32)
    (h1 : c1.toNat = 8 * L / 2 ^ 32 % 2 ^ 32) (hl : len < 2 ^ 32) :
    (countUpdate c0 c1 len).1.toNat + 2 ^ 32 * (countUpdate c0 c1 len).2.toNat
      = 8 * (L + len) % 2 ^ 64 := by
  have h := count_update c0 c1 L len h0 h1 hl
  rw [countUpdate_eq]
  simp only
  rw [h.1, h.2]
  omega

/-! ### MD5Update -/

theorem rdN_take {input : Bytes} {len i n : Nat} (hlen : len ≤ input.length) (h : i + n ≤ len) :
    rdN input i n = .ok (((input.take len).drop i).take n) := by
  rw [rdN, if_pos (by omega)]
  congr 1
  rw [List.drop_take, List.take_take]
  congr 1
  omega

theorem updLoop_eq {input : Bytes} {len : Nat} (hlen : len ≤ input.length) (hb : len + 64 ≤ 2 ^ 32) :
    ∀ (fuel i : Nat) (st : Regs), i ≤ len → (len - i) / 64 < fuel →
      updLoop input len fuel i st =
        .ok (Spec.absorb st ((input.take len).drop i), i + 64 * ((len - i) / 64)) := by
  intro fuel
  induction fuel with
  | zero => intro i st _ h; omega
  | succ fuel ih =>
    intro i st hi hf
    have e63 : (i + 63) % 2 ^ 32 = i + 63 := Nat.mod_eq_of_lt (by omega)
    have hXl : ((input.take len).drop i).length = len - i := by
      simp [List.length_drop, List.length_take, Nat.min_eq_left hlen]
    rw [updLoop, e63]
    by_cases hc : i + 63 < len
    · have e64 : (i + 64) % 2 ^ 32 = i + 64 := Nat.mod_eq_of_lt (by omega)
      rw [if_pos hc, rdN_take hlen (by omega : i + 64 ≤ len)]
      simp only [bind, Except.bind, e64, MD5Transform_eq]
      rw [ih (i + 64) _ (by omega) (by omega)]
      congr 2
      · conv => rhs; rw [Spec.absorb, if_neg (by omega)]
        rw [List.drop_drop]
      · omega
    · rw [if_neg hc, absorb_lt (by omega)]
      congr 2
      omega


/-- the context has absorbed the message `m`: all complete blocks of `m` are in the state, the
    bit count is `8·|m|` modulo 2^64, the first `|m| mod 64` bytes of the buffer hold the
    incomplete last block (the rest of the buffer is left-over data that is never used) -/
structure Absorbed (ctx : MD5Ctx) (m : Bytes) : Prop where
  state : ctx.state = Spec.absorb Spec.initRegs m
  c0 : ctx.count0.toNat = 8 * m.length % 2 ^ 32
  c1 : ctx.count1.toNat = 8 * m.length / 2 ^ 32 % 2 ^ 32
  buflen : ctx.buffer.length = 64
  buf : ctx.buffer.take (m.length % 64) = m.drop (m.length - m.length % 64)

theorem MD5Update_short {ctx : MD5Ctx} {m input : Bytes} {len : Nat} (ha : Absorbed ctx m)
    (hlen : len ≤ input.length) (hb : len + 64 ≤ 2 ^ 32) (hs : ¬ len ≥ 64 - m.length % 64) :
    ∃ ctx', MD5Update ctx input len = .ok ctx' ∧ Absorbed ctx' (m ++ input.take len) := by
  have hX : (input.take len).length = len := by simp [List.length_take, Nat.min_eq_left hlen]
  have hidx := idx_eq ctx.count0 m.length ha.c0
  have hcnt := count_update ctx.count0 ctx.count1 m.length len ha.c0 ha.c1 (by omega)
  have hr : rdN input 0 len = .ok (input.take len) := by
    rw [rdN_take hlen (by omega : 0 + len ≤ len), List.drop_zero, List.take_take, Nat.min_self]
  have hmc : memcpyBuf ctx.buffer (m.length % 64) (input.take len) =
      .ok (ctx.buffer.take (m.length % 64) ++ input.take len ++ ctx.buffer.drop (m.length % 64 + len)) := by
    rw [memcpyBuf, hX, if_pos (by rw [ha.buflen]; omega)]
  have hupd : MD5Update ctx input len = .ok ⟨ctx.state, ctx.count0 + (UInt32.ofNat len <<< 3),
      (if ctx.count0 + (UInt32.ofNat len <<< 3) < UInt32.ofNat len <<< 3 then ctx.count1 + 1 else ctx.count1)
        + (UInt32.ofNat len >>> 29),
      ctx.buffer.take (m.length % 64) ++ input.take len ++ ctx.buffer.drop (m.length % 64 + len)⟩ := by
    unfold MD5Update
    simp only [bufIndex_eq, countUpdate_eq, hidx, if_neg hs, hr, hmc, bind, Except.bind, pure, Except.pure]
  refine ⟨_, hupd, ?_⟩
  · clear hupd
    generalize input.take len = X at hX hr hmc ⊢
    have hmod : (m.length + len) % 64 = m.length % 64 + len := by omega
    constructor
    · show ctx.state = _
      rw [ha.state, absorb_take _ (m ++ X), absorb_take _ m]
      congr 1
      simp only [List.length_append, hX, hmod]
      rw [List.take_append_of_le_length (by omega)]
      congr 1
      omega
    · simpa [hX] using hcnt.1
    · simpa [hX] using hcnt.2
    · show (ctx.buffer.take (m.length % 64) ++ X ++ ctx.buffer.drop (m.length % 64 + len)).length = 64
      simp only [List.length_append, List.length_take, List.length_drop, ha.buflen, hX]
      omega
    · show (ctx.buffer.take (m.length % 64) ++ X ++ ctx.buffer.drop (m.length % 64 + len)).take _ = _
      simp only [List.length_append, hX, hmod]
      rw [List.take_left' (by simp [List.length_take, ha.buflen, hX]; omega)]
      rw [ha.buf, List.drop_append_of_le_length (by omega)]
      congr 2
      omega


theorem MD5Update_long {ctx : MD5Ctx} {m input : Bytes} {len : Nat} (ha : Absorbed ctx m)
    (hlen : len ≤ input.length) (hb : len + 64 ≤ 2 ^ 32) (hs : len ≥ 64 - m.length % 64) :
    ∃ ctx', MD5Update ctx input len = .ok ctx' ∧ Absorbed ctx' (m ++ input.take len) := by
  have hX : (input.take len).length = len := by simp [List.length_take, Nat.min_eq_left hlen]
  have hidx := idx_eq ctx.count0 m.length ha.c0
  have hcnt := count_update ctx.count0 ctx.count1 m.length len ha.c0 ha.c1 (by omega)
  have hidx64 : m.length % 64 < 64 := Nat.mod_lt _ (by decide)
  -- the names of the proof: p = partLen, B0 = the completed buffer, iF = final i, rest
  have hr0 : rdN input 0 (64 - m.length % 64) = .ok ((input.take len).take (64 - m.length % 64)) := by
    rw [rdN_take hlen (by omega : 0 + (64 - m.length % 64) ≤ len), List.drop_zero]
  have hpl : ((input.take len).take (64 - m.length % 64)).length = 64 - m.length % 64 := by
    simp only [List.length_take, hX]; omega
  have hmc0 : memcpyBuf ctx.buffer (m.length % 64) ((input.take len).take (64 - m.length % 64)) =
      .ok (m.drop (m.length - m.length % 64) ++ (input.take len).take (64 - m.length % 64)) := by
    have hd : ctx.buffer.drop 64 = [] := List.drop_eq_nil_of_le (by rw [ha.buflen]; exact Nat.le_refl 64)
    have : m.length % 64 + (64 - m.length % 64) = 64 := by omega
    rw [memcpyBuf, hpl, if_pos (by rw [ha.buflen]; omega), ha.buf, this, hd, List.append_nil]
  have hB0 : (m.drop (m.length - m.length % 64) ++ (input.take len).take (64 - m.length % 64)).length = 64 := by
    simp only [List.length_append, List.length_drop, hpl]; omega
  have hloop := updLoop_eq hlen hb (len / 64 + 1) (64 - m.length % 64)
    (Spec.processBlock ctx.state
      (m.drop (m.length - m.length % 64) ++ (input.take len).take (64 - m.length % 64))) hs (by omega)
  have hiF : 64 - m.length % 64 + 64 * ((len - (64 - m.length % 64)) / 64) ≤ len := by omega
  have hrest : rdN input (64 - m.length % 64 + 64 * ((len - (64 - m.length % 64)) / 64))
      (len - (64 - m.length % 64 + 64 * ((len - (64 - m.length % 64)) / 64))) =
      .ok ((input.take len).drop (64 - m.length % 64 + 64 * ((len - (64 - m.length % 64)) / 64))) := by
    rw [rdN_take hlen (by omega)]
    congr 1
    apply List.take_of_length_le
    simp only [List.length_drop, hX]; omega
  generalize hiFdef : 64 - m.length % 64 + 64 * ((len - (64 - m.length % 64)) / 64) = iF at hloop hiF hrest
  have hrl : ((input.take len).drop iF).length = len - iF := by simp only [List.length_drop, hX]
  have hmc1 : memcpyBuf (m.drop (m.length - m.length % 64) ++ (input.take len).take (64 - m.length % 64)) 0
      ((input.take len).drop iF) =
      .ok ((input.take len).drop iF ++
        (m.drop (m.length - m.length % 64) ++ (input.take len).take (64 - m.length % 64)).drop (len - iF)) := by
    rw [memcpyBuf, hrl, if_pos (by rw [hB0]; omega)]
    simp
  have hupd : MD5Update ctx input len = .ok ⟨Spec.absorb (Spec.processBlock ctx.state
        (m.drop (m.length - m.length % 64) ++ (input.take len).take (64 - m.length % 64)))
        ((input.take len).drop (64 - m.length % 64)),
      ctx.count0 + (UInt32.ofNat len <<< 3),
      (if ctx.count0 + (UInt32.ofNat len <<< 3) < UInt32.ofNat len <<< 3 then ctx.count1 + 1 else ctx.count1)
        + (UInt32.ofNat len >>> 29),
      (input.take len).drop iF ++
        (m.drop (m.length - m.length % 64) ++ (input.take len).take (64 - m.length % 64)).drop (len - iF)⟩ := by
    unfold MD5Update
    simp only [bufIndex_eq, countUpdate_eq, hidx, if_pos hs, hr0, hmc0, MD5Transform_eq, hloop, hrest, hmc1, bind, Except.bind, pure, Except.pure]
  refine ⟨_, hupd, ?_⟩
  clear hupd hmc1 hrest hloop hmc0 hr0
  generalize input.take len = X at hX hpl hB0 hrl ⊢
  have hmod : (m.length + len) % 64 = len - iF := by omega
  constructor
  · show Spec.absorb _ _ = _
    have hsplit : m ++ X = m.take (m.length - m.length % 64) ++
        ((m.drop (m.length - m.length % 64) ++ X.take (64 - m.length % 64)) ++ X.drop (64 - m.length % 64)) := by
      rw [List.append_assoc, List.take_append_drop, ← List.append_assoc, List.take_append_drop]
    have hl : (m.take (m.length - m.length % 64)).length = 64 * (m.length / 64) := by
      simp [List.length_take]; omega
    rw [hsplit, absorb_append _ _ _ hl, ← absorb_take, ← ha.state, absorb_block hB0]
  · simpa [hX] using hcnt.1
  · simpa [hX] using hcnt.2
  · show (X.drop iF ++ (m.drop (m.length - m.length % 64) ++ X.take (64 - m.length % 64)).drop (len - iF)).length = 64
    simp only [List.length_append, List.length_drop, hrl, hB0]
    omega
  · show (X.drop iF ++ _).take _ = _
    simp only [List.length_append, hX, hmod]
    rw [List.take_left' hrl]
    have : m.length + len - (len - iF) = m.length + iF := by omega
    rw [this, List.drop_append]
    simp


theorem MD5Update_absorbed {ctx : MD5Ctx} {m input : Bytes} {len : Nat} (ha : Absorbed ctx m)
    (hlen : len ≤ input.length) (hb : len + 64 ≤ 2 ^ 32) :
    ∃ ctx', MD5Update ctx input len = .ok ctx' ∧ Absorbed ctx' (m ++ input.take len) := by
  by_cases hs : len ≥ 64 - m.length % 64
  · exact MD5Update_long ha hlen hb hs
  · exact MD5Update_short ha hlen hb hs

theorem MD5Init_absorbed (ctx : MD5Ctx) (h : ctx.buffer.length = 64) : Absorbed (MD5Init ctx) [] := by
  constructor
  · show _ = Spec.absorb Spec.initRegs []
    rw [absorb_lt (by decide)]
    rfl
  · rfl
  · rfl
  · exact h
  · simp

theorem MD5UpdateAll_absorbed : ∀ (chunks : List Bytes) (ctx : MD5Ctx) (m : Bytes), Absorbed ctx m →
    (∀ x ∈ chunks, x.length + 64 ≤ 2 ^ 32) →
    ∃ ctx', MD5UpdateAll ctx chunks = .ok ctx' ∧ Absorbed ctx' (m ++ chunks.flatten) := by
  intro chunks
  induction chunks with
  | nil => intro ctx m ha _; exact ⟨ctx, rfl, by simpa using ha⟩
  | cons x rest ih =>
    intro ctx m ha hb
    obtain ⟨c1, h1, a1⟩ := MD5Update_absorbed (input := x) ha (Nat.le_refl _) (hb x (by simp))
    rw [List.take_length] at a1
    obtain ⟨c2, h2, a2⟩ := ih c1 _ a1 (fun y hy => hb y (by simp [hy]))
    refine ⟨c2, ?_, ?_⟩
    · rw [MD5UpdateAll, h1]; exact h2
    · simpa [List.append_assoc] using a2

theorem padding_eq : md5Padding = 0x80 :: List.replicate 63 0 := by decide

theorem MD5Final_eq {ctx : MD5Ctx} {m : Bytes} (ha : Absorbed ctx m) : MD5Final ctx = .ok (Spec.md5 m) := by
  have hidx := idx_eq ctx.count0 m.length ha.c0
  have hidx64 : m.length % 64 < 64 := Nat.mod_lt _ (by decide)
  generalize hpl : (if m.length % 64 < 56 then 56 - m.length % 64 else 120 - m.length % 64) = padLen
  have hpl1 : 1 ≤ padLen ∧ padLen ≤ 64 ∧ padLen - 1 = (119 - m.length % 64) % 64 ∧
      (m.length + padLen) % 64 = 56 := by
    subst hpl; split <;> omega
  obtain ⟨c1, h1, a1⟩ := MD5Update_absorbed (input := md5Padding) (len := padLen) ha
    (by rw [padding_eq]; simp; omega) (by omega)
  have hbits : (bytes32 ctx.count0 ++ bytes32 ctx.count1).length = 8 := rfl
  obtain ⟨c2, h2, a2⟩ := MD5Update_absorbed (input := bytes32 ctx.count0 ++ bytes32 ctx.count1) (len := 8) a1
    (by rw [hbits]; exact Nat.le_refl 8) (by decide)
  have htake : md5Padding.take padLen = 0x80 :: List.replicate ((119 - m.length % 64) % 64) 0 := by
    obtain ⟨k, rfl⟩ : ∃ k, padLen = k + 1 := ⟨padLen - 1, by omega⟩
    rw [padding_eq, List.take_succ_cons, List.take_replicate, ← hpl1.2.2.1]
    congr 2
    omega
  have hpad : m ++ md5Padding.take padLen ++ (bytes32 ctx.count0 ++ bytes32 ctx.count1).take 8 = Spec.pad m := by
    have e0 : ctx.count0 = UInt32.ofNat (8 * m.length % 2 ^ 32) := by
      rw [← ha.c0, UInt32.ofNat_toNat]
    have e1 : ctx.count1 = UInt32.ofNat (8 * m.length / 2 ^ 32 % 2 ^ 32) := by
      rw [← ha.c1, UInt32.ofNat_toNat]
    rw [htake, ← hbits, List.take_length, Spec.pad, ← e0, ← e1]
    simp [List.append_assoc]
  rw [hpad] at a2
  unfold MD5Final MD5Pad
  simp only [bufIndex_eq, hidx, hpl, h1, h2, bind, Except.bind, pure, Except.pure, Spec.md5]
  rw [a2.state]


theorem qhashmd5_eq (ctx : MD5Ctx) (hbuf : ctx.buffer.length = 64) (data : Bytes) (nbytes : Nat)
    (hle : nbytes ≤ data.length) (hb : nbytes + 64 ≤ 2 ^ 32) :
    qhashmd5 ctx data nbytes = .ok (Spec.md5 (data.take nbytes)) := by
  have e : nbytes % 2 ^ 32 = nbytes := Nat.mod_eq_of_lt (by omega)
  obtain ⟨c1, h1, a1⟩ := MD5Update_absorbed (input := data) (len := nbytes) (MD5Init_absorbed ctx hbuf) hle hb
  unfold qhashmd5
  simp only [e, h1, bind, Except.bind]
  rw [List.nil_append] at a1
  exact MD5Final_eq a1

theorem fileLoop_absorbed (contents : Bytes) : ∀ (fuel pos toread : Nat) (sched : List Nat) (ctx : MD5Ctx)
    (m : Bytes), Absorbed ctx m → pos + toread ≤ contents.length → toread < fuel →
    ∃ ctx', fileLoop contents fuel pos toread sched ctx = .ok (ctx', 0) ∧
      Absorbed ctx' (m ++ (contents.drop pos).take toread) := by
  intro fuel
  induction fuel with
  | zero => intro pos toread sched ctx m _ _ h; omega
  | succ fuel ih =>
    intro pos toread sched ctx m ha hle hf
    rw [fileLoop]
    by_cases h0 : toread > 0
    · rw [if_pos h0]
      generalize hw : readCount toread sched = want
      have hwant : 1 ≤ want ∧ want ≤ toread ∧ want ≤ 32768 := by
        subst hw
        unfold readCount fileBufSize
        cases sched with
        | nil => simp only; split <;> omega
        | cons k _ => simp only; split <;> omega
      have hbl : ((contents.drop pos).take want).length = want := by
        simp only [List.length_take, List.length_drop]; omega
      obtain ⟨c1, h1, a1⟩ := MD5Update_absorbed (input := (contents.drop pos).take want) (len := want) ha
        (by omega) (by omega)
      rw [List.take_take, Nat.min_self] at a1
      obtain ⟨c2, h2, a2⟩ := ih (pos + want) (toread - want) sched.tail c1 _ a1 (by omega) (by omega)
      refine ⟨c2, ?_, ?_⟩
      · simp only [hbl, h1, bind, Except.bind]
        exact h2
      · have : (contents.drop pos).take toread =
            (contents.drop pos).take want ++ (contents.drop (pos + want)).take (toread - want) := by
          have e : toread = want + (toread - want) := by omega
          conv => lhs; rw [e, List.take_add, List.drop_drop]
        rw [this, ← List.append_assoc]
        exact a2
    · have : toread = 0 := by omega
      subst this
      exact ⟨ctx, by simp, by simpa using ha⟩

theorem qhashmd5File_eq (ctx : MD5Ctx) (hbuf : ctx.buffer.length = 64) (contents : Bytes) (offset nbytes : Nat)
    (sched : List Nat) (hle : offset + nbytes ≤ contents.length) :
    qhashmd5File ctx contents offset nbytes sched =
      .ok (some (Spec.md5 (if nbytes = 0 then contents.drop offset else (contents.drop offset).take nbytes))) := by
  generalize hn : (if nbytes = 0 then contents.length - offset else nbytes) = n
  have hn' : offset + n ≤ contents.length := by subst hn; split <;> omega
  obtain ⟨c1, h1, a1⟩ := fileLoop_absorbed contents (n + 1) offset n sched (MD5Init ctx) []
    (MD5Init_absorbed ctx hbuf) hn' (by omega)
  have hrange : (if nbytes = 0 then contents.drop offset else (contents.drop offset).take nbytes)
      = (contents.drop offset).take n := by
    subst hn
    split
    · rw [List.take_of_length_le (by simp [List.length_drop])]
    · rfl
  unfold qhashmd5File
  rw [if_neg (by omega)]
  simp only [hn, h1, bind, Except.bind, pure, Except.pure, ne_eq, not_true_eq_false, if_false]
  rw [List.nil_append] at a1
  rw [MD5Final_eq a1, hrange]

theorem qhashmd5File_refuses (ctx : MD5Ctx) (contents : Bytes) (offset nbytes : Nat) (sched : List Nat)
    (h : contents.length < offset + nbytes) : qhashmd5File ctx contents offset nbytes sched = .ok none := by
  unfold qhashmd5File
  rw [if_pos h]
  rfl

end Qlibc.Hash

/-
  Lemmas about the MurmurHash3 part of the hash model (helpers of Props/C18).
-/
import QlibcModel.Hash.Lemmas
namespace Qlibc.Hash
open Qlibc Qlibc.Generated

theorem shr32 (x : UInt32) (n : Nat) (h : n < 32) :
    (x >>> UInt32.ofNat n).toBitVec = x.toBitVec >>> n := by
  rw [UInt32.toBitVec_shiftRight]
  have : ((UInt32.ofNat n).toBitVec % 32).toNat = n := by
    simp [BitVec.toNat_umod]
    omega
  rw [BitVec.ushiftRight_eq', this]

theorem rotateLeft32_eq (x : UInt32) (n : Nat) (h0 : 0 < n) (h : n < 32) :
    rotateLeft32 x n = Spec.rotl32 x n := by
  apply UInt32.toBitVec_inj.mp
  simp only [rotateLeft32, Spec.rotl32, UInt32.toBitVec_or, shl32 _ _ h, shr32 _ _ (by omega : 32 - n < 32)]
  rw [BitVec.rotateLeft_def, Nat.mod_eq_of_lt h]

def Covers (data D : Bytes) : Prop := ∀ j, j < D.length → rd data j = .ok (D.getD j 0)

theorem covers_take {data : Bytes} {n : Nat} (h : n ≤ data.length) : Covers data (data.take n) := by
  intro j hj
  have hj' : j < n := by simpa [List.length_take, Nat.min_eq_left h] using hj
  rw [rd_ok (by omega)]
  simp [List.getD, hj']

theorem wordAt_drop (D : Bytes) (i : Nat) : wordAt (D.drop (4 * i)) 0 = wordAt D i := by
  simp [wordAt, List.getD, List.getElem?_drop]

theorem rd32_ok {data D : Bytes} (hc : Covers data D) {i : Nat} (h : 4 * i + 4 ≤ D.length) :
    rd32 data (i * 4) = .ok (wordAt D i) := by
  have e : i * 4 = 4 * i := by omega
  simp only [rd32, e, hc (4 * i) (by omega), hc (4 * i + 1) (by omega), hc (4 * i + 2) (by omega),
    hc (4 * i + 3) (by omega), bind, Except.bind, pure, Except.pure, wordAt]

theorem m32K_eq (k : UInt32) : m32K k 15 = Spec.m32MixK k := by
  simp only [m32K, Spec.m32MixK, rotateLeft32_eq _ 15 (by decide) (by decide)]
  rfl

theorem m32_step_eq (h k : UInt32) :
    rotateLeft32 (h ^^^ m32K k m32RotK) m32RotH * UInt32.ofNat m32HMul + UInt32.ofNat m32HAdd
      = Spec.m32MixH h k := by
  simp only [m32RotK, m32RotH, m32K_eq, Spec.m32MixH, rotateLeft32_eq _ 13 (by decide) (by decide)]
  rfl

theorem m32Loop_eq {data D : Bytes} (hc : Covers data D) : ∀ (n i : Nat) (h : UInt32),
    (D.length - 4 * i) / 4 = n → 4 * i ≤ D.length →
    ∃ h', m32Loop data n i h = .ok h' ∧ Spec.m32Body h (D.drop (4 * i)) = (h', D.drop (4 * (i + n))) := by
  intro n
  induction n with
  | zero =>
    intro i h hn hi
    refine ⟨h, by simp [m32Loop], ?_⟩
    have : (D.drop (4 * i)).length < 4 := by simp only [List.length_drop]; omega
    rw [Spec.m32Body, if_pos this, Nat.add_zero]
  | succ n ih =>
    intro i h hn hi
    have hlen : 4 * i + 4 ≤ D.length := by omega
    obtain ⟨h', hm, hs⟩ := ih (i + 1) (Spec.m32MixH h (wordAt D i)) (by omega) (by omega)
    refine ⟨h', ?_, ?_⟩
    · rw [m32Loop, rd32_ok hc hlen]
      simp only [bind, Except.bind, m32_step_eq]
      exact hm
    · have : ¬ (D.drop (4 * i)).length < 4 := by simp only [List.length_drop]; omega
      rw [Spec.m32Body, if_neg this]
      simp only [wordAt_drop, List.drop_drop]
      have e1 : 4 * i + 4 = 4 * (i + 1) := by omega
      have e2 : 4 * (i + (n + 1)) = 4 * (i + 1 + n) := by omega
      rw [e1, e2]
      exact hs


theorem tailSwitch32_eq {data D : Bytes} (hc : Covers data D) {t : Nat} (ht : t ≤ D.length) :
    ∀ (tbl : List (Nat × Nat × Nat)) (k : UInt32), (∀ e ∈ tbl, e.1 = e.2.1 + 1) →
    tailSwitch32 data t (D.length - t) tbl k =
      .ok (Spec.xorTail32 (D.drop t) (tbl.map fun e => (e.2.1, e.2.2)) k) := by
  intro tbl
  induction tbl with
  | nil => intro k _; simp [tailSwitch32, Spec.xorTail32]
  | cons e rest ih =>
    intro k hl
    obtain ⟨label, j, s⟩ := e
    have hlab : label = j + 1 := hl (label, j, s) (by simp)
    have hrest : ∀ e ∈ rest, e.1 = e.2.1 + 1 := fun e he => hl e (by simp [he])
    simp only [tailSwitch32, List.map_cons, Spec.xorTail32, List.foldl_cons]
    by_cases hle : label ≤ D.length - t
    · have hj : t + j < D.length := by omega
      rw [if_pos hle, hc (t + j) hj]
      simp only [bind, Except.bind]
      rw [ih _ hrest]
      simp [Spec.xorTail32, List.getElem?_drop, List.getD, List.getElem?_eq_getElem hj]
    · rw [if_neg hle, ih _ hrest]
      have : (D.drop t)[j]? = none := by
        simp only [List.getElem?_drop, List.getElem?_eq_none_iff]; omega
      simp [Spec.xorTail32, this]


theorem fmix32_eq (h : UInt32) : fmix32 h m32Fmix = Spec.fmix32 h := by
  simp only [fmix32, Spec.fmix32, m32Fmix]
  rfl

theorem murmur32_main (data : Bytes) (nbytes : Nat) (h0 : 0 < nbytes) (hle : nbytes ≤ data.length)
    (hb : nbytes < 2 ^ 31) :
    qhashmurmur3_32 data nbytes = .ok (Spec.murmur3_x86_32 0 (data.take nbytes)) := by
  have hc := covers_take hle
  have hD : (data.take nbytes).length = nbytes := by simp [List.length_take, Nat.min_eq_left hle]
  generalize data.take nbytes = D at hc hD
  obtain ⟨h', hm, hs⟩ := m32Loop_eq hc (nbytes / 4) 0 0 (by omega) (by omega)
  have ht : nbytes / 4 * 4 ≤ D.length := by omega
  have htail := tailSwitch32_eq hc ht m32Tail 0 (by decide)
  have hr : D.length - nbytes / 4 * 4 = nbytes % 4 := by omega
  rw [hr] at htail
  simp only [Nat.mul_zero, List.drop_zero, Nat.zero_add] at hs
  have hdl : (D.drop (4 * (nbytes / 4))).length = nbytes % 4 := by simp only [List.length_drop]; omega
  have e4 : nbytes / 4 * 4 = 4 * (nbytes / 4) := by omega
  rw [e4] at htail
  unfold qhashmurmur3_32
  rw [if_neg (by omega), if_neg (by omega)]
  simp only [hm, htail, bind, Except.bind, pure, Except.pure, e4]
  simp only [Spec.murmur3_x86_32, hs, hdl, hD, m32RotKTail, m32K_eq, fmix32_eq]
  rfl


/-! ### MurmurHash3 x64_128 -/

theorem shr64 (x : UInt64) (n : Nat) (h : n < 64) :
    (x >>> UInt64.ofNat n).toBitVec = x.toBitVec >>> n := by
  rw [UInt64.toBitVec_shiftRight]
  have : ((UInt64.ofNat n).toBitVec % 64).toNat = n := by
    simp [BitVec.toNat_umod]
    omega
  rw [BitVec.ushiftRight_eq', this]

theorem rotateLeft64_eq (x : UInt64) (n : Nat) (h0 : 0 < n) (h : n < 64) :
    rotateLeft64 x n = Spec.rotl64 x n := by
  apply UInt64.toBitVec_inj.mp
  simp only [rotateLeft64, Spec.rotl64, UInt64.toBitVec_or, shl64 _ _ h, shr64 _ _ (by omega : 64 - n < 64)]
  rw [BitVec.rotateLeft_def, Nat.mod_eq_of_lt h]

theorem load64_drop (D : Bytes) (n off : Nat) : Spec.load64 (D.drop n) off = Spec.load64 D (n + off) := by
  simp [Spec.load64, List.getD, List.getElem?_drop, Nat.add_assoc]

theorem rd64_ok {data D : Bytes} (hc : Covers data D) {off : Nat} (h : off + 8 ≤ D.length) :
    rd64 data off = .ok (Spec.load64 D off) := by
  simp only [rd64, hc off (by omega), hc (off + 1) (by omega), hc (off + 2) (by omega),
    hc (off + 3) (by omega), hc (off + 4) (by omega), hc (off + 5) (by omega), hc (off + 6) (by omega),
    hc (off + 7) (by omega), bind, Except.bind, pure, Except.pure, Spec.load64]

theorem m128K1_eq (k : UInt64) : m128K1 k 31 = Spec.m128MixK1 k := by
  simp only [m128K1, Spec.m128MixK1, rotateLeft64_eq _ 31 (by decide) (by decide)]
  rfl

theorem m128K2_eq (k : UInt64) : m128K2 k 33 = Spec.m128MixK2 k := by
  simp only [m128K2, Spec.m128MixK2, rotateLeft64_eq _ 33 (by decide) (by decide)]
  rfl

theorem m128Loop_eq {data D : Bytes} (hc : Covers data D) : ∀ (n i : Nat) (h1 h2 : UInt64),
    (D.length - 16 * i) / 16 = n → 16 * i ≤ D.length →
    ∃ h', m128Loop data n i h1 h2 = .ok h' ∧
      Spec.m128Body (h1, h2) (D.drop (16 * i)) = (h', D.drop (16 * (i + n))) := by
  intro n
  induction n with
  | zero =>
    intro i h1 h2 hn hi
    refine ⟨(h1, h2), by simp [m128Loop], ?_⟩
    have : (D.drop (16 * i)).length < 16 := by simp only [List.length_drop]; omega
    rw [Spec.m128Body, if_pos this, Nat.add_zero]
  | succ n ih =>
    intro i h1 h2 hn hi
    have hlen : 16 * i + 16 ≤ D.length := by omega
    obtain ⟨h', hm, hs⟩ := ih (i + 1)
      (Spec.m128MixH (h1, h2) (Spec.load64 D (16 * i)) (Spec.load64 D (16 * i + 8))).1
      (Spec.m128MixH (h1, h2) (Spec.load64 D (16 * i)) (Spec.load64 D (16 * i + 8))).2 (by omega) (by omega)
    refine ⟨h', ?_, ?_⟩
    · have e1 : (i * 2 + 0) * 8 = 16 * i := by omega
      have e2 : (i * 2 + 1) * 8 = 16 * i + 8 := by omega
      rw [m128Loop, e1, e2, rd64_ok hc (by omega), rd64_ok hc (by omega)]
      simp only [bind, Except.bind]
      rw [← hm]
      simp only [Spec.m128MixH, m128RotK1, m128RotK2, m128RotH1, m128RotH2, m128K1_eq, m128K2_eq,
        rotateLeft64_eq _ 27 (by decide) (by decide), rotateLeft64_eq _ 31 (by decide) (by decide)]
      rfl
    · have : ¬ (D.drop (16 * i)).length < 16 := by simp only [List.length_drop]; omega
      rw [Spec.m128Body, if_neg this]
      simp only [load64_drop, List.drop_drop, Nat.add_zero]
      have e1 : 16 * i + 16 = 16 * (i + 1) := by omega
      have e2 : 16 * (i + (n + 1)) = 16 * (i + 1 + n) := by omega
      rw [e1, e2]
      exact hs

theorem tailSwitch64_eq {data D : Bytes} (hc : Covers data D) {t : Nat} (ht : t ≤ D.length) :
    ∀ (tbl : List (Nat × Nat × Nat)) (k : UInt64), (∀ e ∈ tbl, e.1 = e.2.1 + 1) →
    tailSwitch64 data t (D.length - t) tbl k =
      .ok (Spec.xorTail64 (D.drop t) (tbl.map fun e => (e.2.1, e.2.2)) k) := by
  intro tbl
  induction tbl with
  | nil => intro k _; simp [tailSwitch64, Spec.xorTail64]
  | cons e rest ih =>
    intro k hl
    obtain ⟨label, j, s⟩ := e
    have hlab : label = j + 1 := hl (label, j, s) (by simp)
    have hrest : ∀ e ∈ rest, e.1 = e.2.1 + 1 := fun e he => hl e (by simp [he])
    simp only [tailSwitch64, List.map_cons, Spec.xorTail64, List.foldl_cons]
    by_cases hle : label ≤ D.length - t
    · have hj : t + j < D.length := by omega
      rw [if_pos hle, hc (t + j) hj]
      simp only [bind, Except.bind]
      rw [ih _ hrest]
      simp [Spec.xorTail64, List.getElem?_drop, List.getD, List.getElem?_eq_getElem hj]
    · rw [if_neg hle, ih _ hrest]
      have : (D.drop t)[j]? = none := by
        simp only [List.getElem?_drop, List.getElem?_eq_none_iff]; omega
      simp [Spec.xorTail64, this]

theorem fmix64_eq1 (h : UInt64) : fmix64 h m128Fmix1 = Spec.fmix64 h := by
  simp only [fmix64, Spec.fmix64, m128Fmix1]
  rfl

theorem fmix64_eq2 (h : UInt64) : fmix64 h m128Fmix2 = Spec.fmix64 h := by
  simp only [fmix64, Spec.fmix64, m128Fmix2]
  rfl

theorem murmur128_main (data : Bytes) (nbytes : Nat) (h0 : 0 < nbytes) (hle : nbytes ≤ data.length)
    (hb : nbytes < 2 ^ 31) :
    qhashmurmur3_128 data nbytes = .ok (some (Spec.murmur3_x64_128 0 (data.take nbytes))) := by
  have hc := covers_take hle
  have hD : (data.take nbytes).length = nbytes := by simp [List.length_take, Nat.min_eq_left hle]
  generalize data.take nbytes = D at hc hD
  obtain ⟨h', hm, hs⟩ := m128Loop_eq hc (nbytes / 16) 0 0 0 (by omega) (by omega)
  obtain ⟨h1', h2'⟩ := h'
  have ht : nbytes / 16 * 16 ≤ D.length := by omega
  have htail2 := tailSwitch64_eq hc ht (m128Tail.filter fun e => 9 ≤ e.1) 0 (by decide)
  have htail1 := tailSwitch64_eq hc ht (m128Tail.filter fun e => e.1 < 9) 0 (by decide)
  have hr : D.length - nbytes / 16 * 16 = nbytes % 16 := by omega
  rw [hr] at htail1 htail2
  simp only [Nat.mul_zero, List.drop_zero, Nat.zero_add] at hs
  have hdl : (D.drop (16 * (nbytes / 16))).length = nbytes % 16 := by simp only [List.length_drop]; omega
  have e4 : nbytes / 16 * 16 = 16 * (nbytes / 16) := by omega
  rw [e4] at htail1 htail2
  unfold qhashmurmur3_128
  rw [if_neg (by omega), if_neg (by omega)]
  simp only [hm, htail1, htail2, bind, Except.bind, pure, Except.pure, e4]
  simp only [Spec.murmur3_x64_128, hs, hdl, hD, m128RotK1Tail, m128RotK2Tail, m128K1_eq, m128K2_eq,
    fmix64_eq1, fmix64_eq2]
  rfl

end Qlibc.Hash

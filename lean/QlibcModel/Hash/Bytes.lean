/-
  Little-endian byte/word conversions shared by the hash specifications and the hash model.
  RFC 1321 section 2: "a sequence of bytes can be interpreted as a sequence of 32-bit words, where
  each consecutive group of four bytes is interpreted as a word with the low-order (least
  significant) byte given first"; MurmurHash3 reads its blocks as native words of a little-endian
  machine (the reference's `getblock`); the model's `memcpy` loads/stores are the same on x86-64.
-/
import QlibcModel.Base.Fault
namespace Qlibc.Hash

/-- the 32-bit word whose bytes, low-order first, are `b0 b1 b2 b3` -/
def le32 (b0 b1 b2 b3 : UInt8) : UInt32 :=
  b0.toUInt32 ||| (b1.toUInt32 <<< 8) ||| (b2.toUInt32 <<< 16) ||| (b3.toUInt32 <<< 24)

/-- the 64-bit word whose bytes, low-order first, are `b0 … b7` -/
def le64 (b0 b1 b2 b3 b4 b5 b6 b7 : UInt8) : UInt64 :=
  b0.toUInt64 ||| (b1.toUInt64 <<< 8) ||| (b2.toUInt64 <<< 16) ||| (b3.toUInt64 <<< 24) |||
  (b4.toUInt64 <<< 32) ||| (b5.toUInt64 <<< 40) ||| (b6.toUInt64 <<< 48) ||| (b7.toUInt64 <<< 56)

/-- the four bytes of a 32-bit word, low-order first -/
def bytes32 (w : UInt32) : Bytes :=
  [w.toUInt8, (w >>> 8).toUInt8, (w >>> 16).toUInt8, (w >>> 24).toUInt8]

/-- the eight bytes of a 64-bit word, low-order first -/
def bytes64 (w : UInt64) : Bytes :=
  [w.toUInt8, (w >>> 8).toUInt8, (w >>> 16).toUInt8, (w >>> 24).toUInt8,
   (w >>> 32).toUInt8, (w >>> 40).toUInt8, (w >>> 48).toUInt8, (w >>> 56).toUInt8]

/-- word `k` of a byte block (bytes `4k … 4k+3`, low-order first) -/
def wordAt (blk : Bytes) (k : Nat) : UInt32 :=
  le32 (blk.getD (4 * k) 0) (blk.getD (4 * k + 1) 0) (blk.getD (4 * k + 2) 0) (blk.getD (4 * k + 3) 0)

/-- the four working registers A B C D of MD5 -/
structure Regs where
  a : UInt32
  b : UInt32
  c : UInt32
  d : UInt32
  deriving DecidableEq, Repr, Inhabited

/-- register number 0=A 1=B 2=C 3=D -/
def Regs.get (r : Regs) (i : Nat) : UInt32 :=
  match i with
  | 0 => r.a | 1 => r.b | 2 => r.c | _ => r.d

def Regs.set (r : Regs) (i : Nat) (v : UInt32) : Regs :=
  match i with
  | 0 => { r with a := v } | 1 => { r with b := v } | 2 => { r with c := v } | _ => { r with d := v }

def Regs.bytes (r : Regs) : Bytes := bytes32 r.a ++ bytes32 r.b ++ bytes32 r.c ++ bytes32 r.d

end Qlibc.Hash

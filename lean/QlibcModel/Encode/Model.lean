/-
  Executable model of src/utilities/qencode.c and of `_q_x2c` / `_q_makeword`
  (src/internal/qinternal.c), at mechanism level.

  * the five lookup tables come from `Generated.EncodeTables` (K-gen: regenerated from the
    current source on every run);
  * the three in-place decoders are modelled on ONE buffer `s ++ [0]` with a read cursor `e`
    and a write cursor `b`; every access goes through `rd`/`wr`, so a read or write past the
    terminator is the outcome `.error .oob`, not a default value;
  * `char` is signed on the target (x86-64 gcc): `sc` is the value of a byte seen as `char`.

  * NO AMBIENT STATE: the model has no `errno` that exists before the call and no notion of the kind of
    file behind a path (regular file, pipe, FIFO): results are functions of the arguments and the bytes
    delivered. The harness plants a different errno value (0, ENOMEM, ERANGE, EINTR, ENOENT, EINVAL,
    EAGAIN, ENOBUFS) before every library call and feeds documents through pipes as well as files; a
    result that depends on either is a correspondence break (a hang: the per-call watchdog).
-/
import QlibcModel.Base.Fault
import QlibcModel.Generated.EncodeTables
import QlibcModel.Str.Spec

namespace Qlibc.Encode
open Qlibc Qlibc.Generated

/-- table lookup `TBL[(unsigned char) c]`; all tables indexed by a byte have 256 entries
    (`*_length` theorems in `Encode/Lemmas.lean`), the two encoder tables are indexed by
    provably smaller values. -/
def tbl (t : List UInt8) (i : Nat) : UInt8 := t.getD i 0

/-- `(n < 0x0A) ? (n + '0') : ((n - 0x0A) + 'a')` of `qurl_encode` -/
def hexl (n : UInt8) : UInt8 := if n < 10 then n + 48 else (n - 10) + 97

/-- one byte of `qurl_encode` -/
def urlEncByte (c : UInt8) : List UInt8 :=
  if tbl urlCharTbl c.toNat != 0 then [c] else [37, hexl (c >>> 4), hexl (c &&& 15)]

/-- `qurl_encode(bin, size)` for `bin ≠ NULL` (size 0 gives `strdup("")`) -/
def urlEncode (x : Bytes) : Bytes := x.flatMap urlEncByte

/-- is the byte, read as a signed `char`, `>= 'A'` ? -/
def geA (c : UInt8) : Bool := 65 ≤ c && c < 128

/-- `_q_x2c`: all arithmetic is `int`, the two assignments to `char digit` truncate; the result
    modulo 256 is the same as truncating once, so the model computes in wrapping `UInt8`. -/
def x2cDigit (c : UInt8) : UInt8 := if geA c then ((c &&& 0xdf) - 65) + 10 else c - 48
def x2c (up low : UInt8) : UInt8 := 16 * x2cDigit up + x2cDigit low

/-- `qurl_decode` on the buffer `buf` (in place). Returns the final buffer and the returned
    length (`pBinPt - str`). Models the CURRENT source: a `%` is decoded only when two more
    bytes precede the terminator, otherwise it is copied literally. -/
def urlDecLoop : (fuel : Nat) → (buf : Bytes) → (b e : Nat) → Except Fault (Bytes × Nat)
  | 0, _, _, _ => .error .outOfFuel
  | fuel + 1, buf, b, e => do
    let c ← rd buf e
    if c = 0 then
      let buf' ← wr buf b 0
      pure (buf', b)
    else if c = 37 then               -- '%'
      let c1 ← rd buf (e + 1)
      if c1 = 0 then                  -- truncated escape: literal '%'
        let buf' ← wr buf b c
        urlDecLoop fuel buf' (b + 1) (e + 1)
      else
        let c2 ← rd buf (e + 2)
        if c2 = 0 then
          let buf' ← wr buf b c
          urlDecLoop fuel buf' (b + 1) (e + 1)
        else
          let buf' ← wr buf b (x2c c1 c2)
          urlDecLoop fuel buf' (b + 1) (e + 3)
    else if c = 43 then               -- '+'
      let buf' ← wr buf b 32
      urlDecLoop fuel buf' (b + 1) (e + 1)
    else
      let buf' ← wr buf b c
      urlDecLoop fuel buf' (b + 1) (e + 1)

/-- `qurl_decode(str)` for `str ≠ NULL`; the loop body runs at most `strlen + 1` times -/
def urlDecodeRaw (buf : Bytes) : Except Fault (Bytes × Nat) := urlDecLoop (buf.length + 1) buf 0 0

/-! ### Base64 -/

/-- the four output characters for the (zero-padded) group `s0 s1 s2` whose last filled
    index is `i` -/
def b64Group (s0 s1 s2 : UInt8) (i : Nat) : List UInt8 :=
  [ tbl b64CharTbl ((s0 &&& 0xFC) >>> 2).toNat,
    tbl b64CharTbl (((s0 &&& 0x03) <<< 4) ||| ((s1 &&& 0xF0) >>> 4)).toNat,
    if i ≥ 1 then tbl b64CharTbl (((s1 &&& 0x0F) <<< 2) ||| ((s2 &&& 0xC0) >>> 6)).toNat else 61,
    if i ≥ 2 then tbl b64CharTbl (s2 &&& 0x3F).toNat else 61 ]

/-- the `for (pBinPt = bin, nOffset = 0; pBinPt <= pBinEnd; …)` loop of `qbase64_encode`
    with the 3-byte accumulator `szIn` -/
def b64EncLoop : (rest : Bytes) → (off : Nat) → (s0 s1 s2 : UInt8) → Bytes
  | [], _, _, _, _ => []
  | c :: rest, off, s0, s1, s2 =>
    let i := off % 3
    let s0' := if i = 0 then c else s0
    let s1' := if i = 1 then c else s1
    let s2' := if i = 2 then c else s2
    if i < 2 ∧ rest ≠ [] then b64EncLoop rest (off + 1) s0' s1' s2'
    else b64Group s0' s1' s2' i ++ b64EncLoop rest (off + 1) 0 0 0

/-- `qbase64_encode(bin, size)` (size 0 gives `strdup("")`) -/
def b64Encode (x : Bytes) : Bytes := b64EncLoop x 0 0 0 0

/-- `qbase64_decode` in place: `idx` = `nIdxOfFour`, `last` = `cLastByte`.
    `char` arithmetic `(cLastByte << k) | (cByte >> j)` is done in `int` and truncated by the
    store; both operands are < 64 here, so wrapping `UInt8` shifts give the same byte. -/
def b64DecLoop : (fuel : Nat) → (buf : Bytes) → (b e idx : Nat) → (last : UInt8) →
    Except Fault (Bytes × Nat)
  | 0, _, _, _, _, _ => .error .outOfFuel
  | fuel + 1, buf, b, e, idx, last => do
    let c ← rd buf e
    if c = 0 then
      let buf' ← wr buf b 0
      pure (buf', b)
    else
      let v := tbl b64MapTbl c.toNat
      if v = 64 then b64DecLoop fuel buf b (e + 1) idx last
      else if idx = 0 then b64DecLoop fuel buf b (e + 1) 1 v
      else if idx = 1 then
        let buf' ← wr buf b ((last <<< 2) ||| (v >>> 4))
        b64DecLoop fuel buf' (b + 1) (e + 1) 2 v
      else if idx = 2 then
        let buf' ← wr buf b ((last <<< 4) ||| (v >>> 2))
        b64DecLoop fuel buf' (b + 1) (e + 1) 3 v
      else
        let buf' ← wr buf b ((last <<< 6) ||| v)
        b64DecLoop fuel buf' (b + 1) (e + 1) 0 v

def b64DecodeRaw (buf : Bytes) : Except Fault (Bytes × Nat) :=
  b64DecLoop (buf.length + 1) buf 0 0 0 0

/-! ### Hex -/

def hexEncode (x : Bytes) : Bytes :=
  x.flatMap fun (c : UInt8) => [tbl hexCharTbl (c >>> 4).toNat, tbl hexCharTbl (c &&& 0x0F).toNat]

/-- `qhex_decode` in place. Models the CURRENT source: the loop also stops when the second
    digit of a pair is the terminator (odd length: the dangling digit is dropped). -/
def hexDecLoop : (fuel : Nat) → (buf : Bytes) → (b e : Nat) → Except Fault (Bytes × Nat)
  | 0, _, _, _ => .error .outOfFuel
  | fuel + 1, buf, b, e => do
    let c ← rd buf e
    if c = 0 then
      let buf' ← wr buf b 0
      pure (buf', b)
    else
      let c1 ← rd buf (e + 1)
      if c1 = 0 then
        let buf' ← wr buf b 0
        pure (buf', b)
      else
        let buf' ← wr buf b ((tbl hexMapTbl c.toNat <<< 4) + tbl hexMapTbl c1.toNat)
        hexDecLoop fuel buf' (b + 1) (e + 2)

def hexDecodeRaw (buf : Bytes) : Except Fault (Bytes × Nat) := hexDecLoop (buf.length + 1) buf 0 0

/-! ### `_q_makeword` and `qparse_queries` -/

/-- `_q_makeword(str, stop)`: returns the word before the first `stop` and the remainder that
    is left in `str` (the stop byte itself is consumed). `str` is a C string (no NUL inside). -/
def makeword (str : Bytes) (stop : UInt8) : Bytes × Bytes :=
  let word := str.takeWhile (· != stop)
  let rest := str.drop word.length
  (word, rest.drop 1)

/-- the C string held in a decoded buffer as `putstr` sees it (`strlen`): the bytes before
    the first NUL — an escape such as `%00` decodes to a NUL byte and cuts the string short -/
def decodedStr (r : Bytes × Nat) : Bytes := r.1.takeWhile (· != 0)

/-- `qparse_queries(tbl, query, equalchar, sepchar, &count)` on a fresh default list table:
    the list of `(name, value)` entries appended in order (every `putstr` succeeds — the
    name is non-NULL, possibly empty, and the stored size `strlen(value)+1` is positive: C08
    `put_spec` with no option set appends at the bottom). -/
def parseQueriesLoop : (fuel : Nat) → (q : Bytes) → (eq sep : UInt8) →
    Except Fault (List (Bytes × Bytes))
  | 0, _, _, _ => .error .outOfFuel
  | fuel + 1, q, eq, sep =>
    if q = [] then .ok []
    else do
      let (value0, q') := makeword q sep
      let (name0, value1) := makeword value0 eq
      let name1 := Str.trim name0
      let name ← urlDecodeRaw (name1 ++ [0])
      let value ← urlDecodeRaw (value1 ++ [0])
      let rest ← parseQueriesLoop fuel q' eq sep
      pure ((decodedStr name, decodedStr value) :: rest)

def parseQueries (q : Bytes) (eq sep : UInt8) : Except Fault (List (Bytes × Bytes)) :=
  parseQueriesLoop (q.length + 1) q eq sep

end Qlibc.Encode

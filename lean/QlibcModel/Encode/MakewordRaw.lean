/-
  `_q_makeword(str, stop)` on the RAW buffer `str` (a NUL-terminated block of exactly
  `strlen + 1` bytes) with checked reads and writes, for EVERY stop byte — `'\0'` included:
  `qparse_queries` / `qconfig_parse_str` pass the caller's separator through unchanged.
-/
import QlibcModel.Encode.Model
namespace Qlibc.Encode
open Qlibc

/-- `for (len = 0; (str[len] != stop) && str[len]; len++);` -/
def mwScan : (fuel : Nat) → (buf : Bytes) → (len : Nat) → (stop : UInt8) → Except Fault Nat
  | 0, _, _, _ => .error .outOfFuel
  | f + 1, buf, len, stop => do
    let c ← rd buf len
    if c != stop && c != 0 then mwScan f buf (len + 1) stop else pure len

/-- `for (i = len; str[i]; i++) str[i - len] = str[i];  str[i - len] = '\0';` -/
def mwShift : (fuel : Nat) → (buf : Bytes) → (len i : Nat) → Except Fault Bytes
  | 0, _, _, _ => .error .outOfFuel
  | f + 1, buf, len, i => do
    let c ← rd buf i
    if c = 0 then wr buf (i - len) 0
    else do
      let buf' ← wr buf (i - len) c
      mwShift f buf' len (i + 1)

/-- `_q_makeword(str, stop)`: the malloc'ed word and the C string left in `str` -/
def makewordRaw (buf : Bytes) (stop : UInt8) : Except Fault (Bytes × Bytes) := do
  let len ← mwScan (buf.length + 1) buf 0 stop
  let word := buf.take len                      -- word[i] = str[i] for i < len (indexes already read)
  let c ← rd buf len
  let len' := if c != 0 then len + 1 else len   -- `if (str[len]) len++;`
  let buf' ← mwShift (buf.length + 1) buf len' len'
  pure (word, buf'.takeWhile (· != 0))

end Qlibc.Encode

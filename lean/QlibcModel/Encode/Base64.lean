/-
  Base64: the encoder loop of `qbase64_encode` emits RFC 4648, and the in-place decoder
  inverts it without leaving the buffer.
-/
import QlibcModel.Encode.Lemmas

namespace Qlibc.Encode
open Qlibc Qlibc.Generated

/-! ### RFC 4648 written independently of the C code (Nat arithmetic on 24-bit groups) -/

/-- the standard alphabet `A–Z a–z 0–9 + /` -/
def b64Alphabet : List UInt8 :=
  (List.range 26).map (fun i => UInt8.ofNat (65 + i)) ++
  (List.range 26).map (fun i => UInt8.ofNat (97 + i)) ++
  (List.range 10).map (fun i => UInt8.ofNat (48 + i)) ++ [43, 47]

def b64Char (i : Nat) : UInt8 := b64Alphabet.getD i 0

/-- the four 6-bit digits of the 24-bit group `a b c` -/
def sextets (a b c : UInt8) : List Nat :=
  let n := a.toNat * 65536 + b.toNat * 256 + c.toNat
  [n / 262144, n / 4096 % 64, n / 64 % 64, n % 64]

def rfc4648 : Bytes → Bytes
  | a :: b :: c :: rest => (sextets a b c).map b64Char ++ rfc4648 rest
  | [a, b] => ((sextets a b 0).take 3).map b64Char ++ [61]
  | [a] => ((sextets a 0 0).take 2).map b64Char ++ [61, 61]
  | [] => []

/-! ### bit-level facts (finite, decided) -/

theorem forall_lt_uint8 {P : UInt8 → Prop} (k : Nat) (hk : k ≤ 256)
    (h : ∀ n, n < k → P (UInt8.ofNat n)) (c : UInt8) (hc : c.toNat < k) : P c := by
  have := h c.toNat hc
  simpa using this

theorem b64CharTbl_eq_alphabet : b64CharTbl = b64Alphabet := by decide +kernel

theorem idx0 (a : UInt8) : ((a &&& 0xFC) >>> 2).toNat = a.toNat / 4 := by
  revert a; apply forall_uint8; decide +kernel

theorem hi4 (b : UInt8) : ((b &&& 0xF0) >>> 4).toNat = b.toNat / 16 := by
  revert b; apply forall_uint8; decide +kernel

theorem hi2 (c : UInt8) : ((c &&& 0xC0) >>> 6).toNat = c.toNat / 64 := by
  revert c; apply forall_uint8; decide +kernel

theorem idx3 (c : UInt8) : (c &&& 0x3F).toNat = c.toNat % 64 := by
  revert c; apply forall_uint8; decide +kernel

theorem idx1_aux : ∀ m, m < 256 → ∀ n, n < 16 →
    (((UInt8.ofNat m &&& 0x03) <<< 4) ||| UInt8.ofNat n).toNat = (m % 4) * 16 + n := by
  decide +kernel

theorem idx2_aux : ∀ m, m < 256 → ∀ n, n < 4 →
    (((UInt8.ofNat m &&& 0x0F) <<< 2) ||| UInt8.ofNat n).toNat = (m % 16) * 4 + n := by
  decide +kernel

theorem idx1 (a b : UInt8) :
    (((a &&& 0x03) <<< 4) ||| ((b &&& 0xF0) >>> 4)).toNat = (a.toNat % 4) * 16 + b.toNat / 16 := by
  have h := idx1_aux a.toNat a.toNat_lt ((b &&& 0xF0) >>> 4).toNat (by rw [hi4]; have := b.toNat_lt; omega)
  simp only [UInt8.ofNat_toNat] at h
  rw [h, hi4]

theorem idx2 (b c : UInt8) :
    (((b &&& 0x0F) <<< 2) ||| ((c &&& 0xC0) >>> 6)).toNat = (b.toNat % 16) * 4 + c.toNat / 64 := by
  have h := idx2_aux b.toNat b.toNat_lt ((c &&& 0xC0) >>> 6).toNat (by rw [hi2]; have := c.toNat_lt; omega)
  simp only [UInt8.ofNat_toNat] at h
  rw [h, hi2]

theorem sextets_eq (a b c : UInt8) :
    sextets a b c = [a.toNat / 4, a.toNat % 4 * 16 + b.toNat / 16,
                     b.toNat % 16 * 4 + c.toNat / 64, c.toNat % 64] := by
  have ha := a.toNat_lt; have hb := b.toNat_lt; have hc := c.toNat_lt
  simp only [sextets, List.cons.injEq, and_true]
  refine ⟨?_, ?_, ?_, ?_⟩ <;> omega

/-- the C expression for the four characters of a group is the RFC's -/
theorem b64Group_eq (a b c : UInt8) :
    b64Group a b c 2 = (sextets a b c).map b64Char := by
  simp only [b64Group, tbl, idx0, idx1, idx2, idx3]
  simp [sextets_eq, b64CharTbl_eq_alphabet, b64Char]

theorem b64Group_eq1 (a b : UInt8) :
    b64Group a b 0 1 = ((sextets a b 0).take 3).map b64Char ++ [61] := by
  simp only [b64Group, tbl, idx0, idx1, idx2]
  simp [sextets_eq, b64CharTbl_eq_alphabet, b64Char]

theorem b64Group_eq0 (a : UInt8) :
    b64Group a 0 0 0 = ((sextets a 0 0).take 2).map b64Char ++ [61, 61] := by
  simp only [b64Group, tbl, idx0, idx1]
  simp [sextets_eq, b64CharTbl_eq_alphabet, b64Char]


/-! ### the encoder loop emits RFC 4648 -/

theorem b64EncLoop_eq (x : Bytes) : ∀ off, off % 3 = 0 → b64EncLoop x off 0 0 0 = rfc4648 x := by
  fun_induction rfc4648 x with
  | case1 a b c rest ih =>
    intro off h
    have h1 : (off + 1) % 3 = 1 := by omega
    have h2 : (off + 1 + 1) % 3 = 2 := by omega
    have h3 : (off + 1 + 1 + 1) % 3 = 0 := by omega
    simp [b64EncLoop, h, h1, h2, ih _ h3, b64Group_eq]
  | case2 a b =>
    intro off h
    have h1 : (off + 1) % 3 = 1 := by omega
    simp [b64EncLoop, h, h1, b64Group_eq1]
  | case3 a =>
    intro off h
    simp [b64EncLoop, h, b64Group_eq0]
  | case4 => intro off _; simp [b64EncLoop]

theorem b64Encode_eq_rfc (x : Bytes) : b64Encode x = rfc4648 x := b64EncLoop_eq x 0 rfl


/-! ### the in-place decoder -/

/-- pure specification of `qbase64_decode` on a NUL-free string, with the decoder state
    (`nIdxOfFour`, `cLastByte`) explicit -/
def b64DecPure : (idx : Nat) → (last : UInt8) → Bytes → Bytes
  | _, _, [] => []
  | idx, last, c :: rest =>
    if tbl b64MapTbl c.toNat = 64 then b64DecPure idx last rest
    else if idx = 0 then b64DecPure 1 (tbl b64MapTbl c.toNat) rest
    else if idx = 1 then
      ((last <<< 2) ||| (tbl b64MapTbl c.toNat >>> 4)) :: b64DecPure 2 (tbl b64MapTbl c.toNat) rest
    else if idx = 2 then
      ((last <<< 4) ||| (tbl b64MapTbl c.toNat >>> 2)) :: b64DecPure 3 (tbl b64MapTbl c.toNat) rest
    else ((last <<< 6) ||| tbl b64MapTbl c.toNat) :: b64DecPure 0 (tbl b64MapTbl c.toNat) rest

theorem b64DecPure_length_le (idx : Nat) (last : UInt8) (s : Bytes) :
    (b64DecPure idx last s).length ≤ s.length := by
  fun_induction b64DecPure idx last s <;> simp_all <;> omega

theorem b64DecLoop_spec : ∀ (fuel : Nat) (rest out tail : Bytes) (g b e idx : Nat) (last : UInt8),
    rest.length < fuel → (∀ c ∈ rest, c ≠ 0) → tail.drop g = rest ++ [0] →
    b = out.length → e = out.length + g →
    ∃ stale, b64DecLoop fuel (out ++ tail) b e idx last
        = .ok (out ++ b64DecPure idx last rest ++ 0 :: stale,
               out.length + (b64DecPure idx last rest).length) := by
  intro fuel
  induction fuel with
  | zero => intro rest _ _ _ _ _ _ _ h; omega
  | succ fuel ih =>
    intro rest out tail g b e idx last hfuel hnz hd hb he
    have htail : tail ≠ [] := by
      intro h; subst h; simp at hd
    obtain ⟨t, tail', rfl⟩ := List.exists_cons_of_ne_nil htail
    have hr0 := rd_rest0 out (t :: tail') _ g e hd he
    subst hb
    unfold b64DecLoop
    simp only [hr0]
    cases rest with
    | nil =>
      exact ⟨tail', by simp [rd, bind, Except.bind, wr_split, b64DecPure, pure, Except.pure]⟩
    | cons c rest' =>
      have hc : c ≠ 0 := hnz c (by simp)
      have hnz' : ∀ x ∈ rest', x ≠ 0 := fun x hx => hnz x (by simp [hx])
      have hlen : rest'.length < fuel := by simp at hfuel; omega
      -- a step that stores `v`
      have stepW : ∀ (v : UInt8) (idx' : Nat) (last' : UInt8),
          ∃ stale, b64DecLoop fuel ((out ++ [v]) ++ tail') (out.length + 1) (e + 1) idx' last'
            = .ok (out ++ v :: b64DecPure idx' last' rest' ++ 0 :: stale,
                   out.length + ((b64DecPure idx' last' rest').length + 1)) := by
        intro v idx' last'
        have hd' : tail'.drop (g + 0) = rest' ++ [0] := by
          rw [drop_tail_of_cons hd]; simp
        obtain ⟨stale, h⟩ := ih rest' (out ++ [v]) tail' (g + 0) (out.length + 1) (e + 1) idx' last'
          hlen hnz' hd' (by simp) (by simp; omega)
        exact ⟨stale, by rw [h]; simp [Nat.add_assoc, Nat.add_comm]⟩
      -- a step that stores nothing
      have stepS : ∀ (idx' : Nat) (last' : UInt8),
          ∃ stale, b64DecLoop fuel (out ++ t :: tail') out.length (e + 1) idx' last'
            = .ok (out ++ b64DecPure idx' last' rest' ++ 0 :: stale,
                   out.length + (b64DecPure idx' last' rest').length) := by
        intro idx' last'
        have hd' : (t :: tail').drop (g + 1) = rest' ++ [0] := by
          rw [← List.drop_drop, hd]; simp
        exact ih rest' out (t :: tail') (g + 1) out.length (e + 1) idx' last'
          hlen hnz' hd' rfl (by omega)
      simp only [List.cons_append, rd_cons_zero, bind, Except.bind, hc, if_false, wr_split]
      by_cases h64 : tbl b64MapTbl c.toNat = 64
      · obtain ⟨stale, h⟩ := stepS idx last
        exact ⟨stale, by simpa [h64, b64DecPure] using h⟩
      · by_cases h0 : idx = 0
        · obtain ⟨stale, h⟩ := stepS 1 (tbl b64MapTbl c.toNat)
          exact ⟨stale, by simpa [h64, h0, b64DecPure] using h⟩
        · by_cases h1 : idx = 1
          · obtain ⟨stale, h⟩ := stepW ((last <<< 2) ||| (tbl b64MapTbl c.toNat >>> 4)) 2 (tbl b64MapTbl c.toNat)
            exact ⟨stale, by simpa [h64, h1, b64DecPure] using h⟩
          · by_cases h2 : idx = 2
            · obtain ⟨stale, h⟩ := stepW ((last <<< 4) ||| (tbl b64MapTbl c.toNat >>> 2)) 3 (tbl b64MapTbl c.toNat)
              exact ⟨stale, by simpa [h64, h2, b64DecPure] using h⟩
            · obtain ⟨stale, h⟩ := stepW ((last <<< 6) ||| tbl b64MapTbl c.toNat) 0 (tbl b64MapTbl c.toNat)
              exact ⟨stale, by simpa [h64, h0, h1, h2, b64DecPure] using h⟩

theorem b64DecodeRaw_spec (s : Bytes) (hnz : ∀ c ∈ s, c ≠ 0) :
    ∃ stale, b64DecodeRaw (s ++ [0])
      = .ok (b64DecPure 0 0 s ++ 0 :: stale, (b64DecPure 0 0 s).length) := by
  obtain ⟨stale, h⟩ := b64DecLoop_spec ((s ++ [0]).length + 1) s [] (s ++ [0]) 0 0 0 0 0
    (by simp; omega) hnz (by simp) rfl rfl
  exact ⟨stale, by simpa [b64DecodeRaw] using h⟩


/-! ### decode ∘ encode = id -/

theorem map_char (i : Nat) (hi : i < 64) : tbl b64MapTbl (b64Char i).toNat = UInt8.ofNat i := by
  revert i; decide +kernel

theorem ofNat_ne_64 (i : Nat) (hi : i < 64) : UInt8.ofNat i ≠ 64 := by
  revert i; decide +kernel

theorem map_pad : tbl b64MapTbl 61 = 64 := by decide +kernel

theorem dec0 (last : UInt8) (i : Nat) (hi : i < 64) (rest : Bytes) :
    b64DecPure 0 last (b64Char i :: rest) = b64DecPure 1 (UInt8.ofNat i) rest := by
  rw [b64DecPure]; simp [map_char i hi, ofNat_ne_64 i hi]

theorem dec1 (last : UInt8) (i : Nat) (hi : i < 64) (rest : Bytes) :
    b64DecPure 1 last (b64Char i :: rest)
      = ((last <<< 2) ||| (UInt8.ofNat i >>> 4)) :: b64DecPure 2 (UInt8.ofNat i) rest := by
  rw [b64DecPure]; simp [map_char i hi, ofNat_ne_64 i hi]

theorem dec2 (last : UInt8) (i : Nat) (hi : i < 64) (rest : Bytes) :
    b64DecPure 2 last (b64Char i :: rest)
      = ((last <<< 4) ||| (UInt8.ofNat i >>> 2)) :: b64DecPure 3 (UInt8.ofNat i) rest := by
  rw [b64DecPure]; simp [map_char i hi, ofNat_ne_64 i hi]

theorem dec3 (last : UInt8) (i : Nat) (hi : i < 64) (rest : Bytes) :
    b64DecPure 3 last (b64Char i :: rest)
      = ((last <<< 6) ||| UInt8.ofNat i) :: b64DecPure 0 (UInt8.ofNat i) rest := by
  rw [b64DecPure]; simp [map_char i hi, ofNat_ne_64 i hi]

theorem decPad (idx : Nat) (last : UInt8) (rest : Bytes) :
    b64DecPure idx last (61 :: rest) = b64DecPure idx last rest := by
  rw [b64DecPure]; simp [map_pad]

theorem byte0_aux : ∀ a, a < 256 → ∀ hb, hb < 16 →
    (UInt8.ofNat (a / 4) <<< 2) ||| (UInt8.ofNat (a % 4 * 16 + hb) >>> 4) = UInt8.ofNat a := by
  decide +kernel

theorem byte1_aux : ∀ a4, a4 < 4 → ∀ b, b < 256 → ∀ hc, hc < 4 →
    (UInt8.ofNat (a4 * 16 + b / 16) <<< 4) ||| (UInt8.ofNat (b % 16 * 4 + hc) >>> 2) = UInt8.ofNat b := by
  decide +kernel

theorem byte2_aux : ∀ b16, b16 < 16 → ∀ c, c < 256 →
    (UInt8.ofNat (b16 * 4 + c / 64) <<< 6) ||| UInt8.ofNat (c % 64) = UInt8.ofNat c := by
  decide +kernel

theorem byte0 (a b : UInt8) :
    (UInt8.ofNat (a.toNat / 4) <<< 2) ||| (UInt8.ofNat (a.toNat % 4 * 16 + b.toNat / 16) >>> 4) = a := by
  have := byte0_aux a.toNat a.toNat_lt (b.toNat / 16) (by have := b.toNat_lt; omega)
  simpa using this

theorem byte1 (a b c : UInt8) :
    (UInt8.ofNat (a.toNat % 4 * 16 + b.toNat / 16) <<< 4)
      ||| (UInt8.ofNat (b.toNat % 16 * 4 + c.toNat / 64) >>> 2) = b := by
  have := byte1_aux (a.toNat % 4) (by omega) b.toNat b.toNat_lt (c.toNat / 64) (by have := c.toNat_lt; omega)
  simpa using this

theorem byte2 (b c : UInt8) :
    (UInt8.ofNat (b.toNat % 16 * 4 + c.toNat / 64) <<< 6) ||| UInt8.ofNat (c.toNat % 64) = c := by
  have := byte2_aux (b.toNat % 16) (by omega) c.toNat c.toNat_lt
  simpa using this

theorem b64DecPure_rfc (x : Bytes) : ∀ last, b64DecPure 0 last (rfc4648 x) = x := by
  fun_induction rfc4648 x with
  | case1 a b c rest ih =>
    intro last
    have ha := a.toNat_lt; have hb := b.toNat_lt; have hc := c.toNat_lt
    simp only [sextets_eq, List.map_cons, List.map_nil, List.cons_append, List.nil_append]
    rw [dec0 _ _ (by omega), dec1 _ _ (by omega), dec2 _ _ (by omega), dec3 _ _ (by omega),
      byte0, byte1, byte2, ih]
  | case2 a b =>
    intro last
    have ha := a.toNat_lt; have hb := b.toNat_lt
    have h0 : (0 : UInt8).toNat = 0 := rfl
    simp only [sextets_eq, h0, Nat.zero_div, Nat.add_zero, List.take, List.map_cons, List.map_nil, List.cons_append, List.nil_append]
    rw [dec0 _ _ (by omega), dec1 _ _ (by omega), dec2 _ _ (by omega), decPad, byte0]
    have := byte1 a b 0
    simp at this
    simp [b64DecPure, this]
  | case3 a =>
    intro last
    have ha := a.toNat_lt
    have h0 : (0 : UInt8).toNat = 0 := rfl
    simp only [sextets_eq, h0, Nat.zero_div, Nat.add_zero, List.take, List.map_cons, List.map_nil, List.cons_append, List.nil_append]
    rw [dec0 _ _ (by omega), dec1 _ _ (by omega), decPad, decPad]
    have := byte0 a 0
    simp at this
    simp [b64DecPure, this]
  | case4 => intro last; simp [b64DecPure]

theorem b64Char_ne_zero (i : Nat) (hi : i < 64) : b64Char i ≠ 0 := by
  revert i; decide +kernel

theorem rfc4648_ne_zero (x : Bytes) : ∀ d ∈ rfc4648 x, d ≠ 0 := by
  fun_induction rfc4648 x with
  | case1 a b c rest ih =>
    have ha := a.toNat_lt; have hb := b.toNat_lt; have hc := c.toNat_lt
    intro d hd
    simp only [sextets_eq, List.map_cons, List.map_nil, List.mem_append, List.mem_cons, List.not_mem_nil, or_false] at hd
    rcases hd with (rfl | rfl | rfl | rfl) | h
    · exact b64Char_ne_zero _ (by omega)
    · exact b64Char_ne_zero _ (by omega)
    · exact b64Char_ne_zero _ (by omega)
    · exact b64Char_ne_zero _ (by omega)
    · exact ih d h
  | case2 a b =>
    have ha := a.toNat_lt; have hb := b.toNat_lt
    intro d hd
    have h0 : (0 : UInt8).toNat = 0 := rfl
    simp only [sextets_eq, h0, Nat.zero_div, Nat.add_zero, List.take, List.map_cons, List.map_nil, List.mem_append, List.mem_cons, List.not_mem_nil, or_false] at hd
    rcases hd with (rfl | rfl | rfl) | rfl
    · exact b64Char_ne_zero _ (by omega)
    · exact b64Char_ne_zero _ (by omega)
    · exact b64Char_ne_zero _ (by omega)
    · decide
  | case3 a =>
    have ha := a.toNat_lt
    intro d hd
    have h0 : (0 : UInt8).toNat = 0 := rfl
    simp only [sextets_eq, h0, Nat.zero_div, Nat.add_zero, List.take, List.map_cons, List.map_nil, List.mem_append, List.mem_cons, List.not_mem_nil, or_false] at hd
    rcases hd with (rfl | rfl) | rfl | rfl
    · exact b64Char_ne_zero _ (by omega)
    · exact b64Char_ne_zero _ (by omega)
    · decide
    · decide
  | case4 => simp

end Qlibc.Encode

/-
  `_q_makeword` on the raw buffer computes the list-level `makeword` for every stop byte (C17), and
  the query-string round trip for every admissible pair of separators (C16).
-/
import QlibcModel.Encode.MakewordRaw
import QlibcModel.Encode.Query
namespace Qlibc.Encode
open Qlibc

theorem rd_append_at (pre : Bytes) (c : UInt8) (rest : Bytes) : rd (pre ++ c :: rest) pre.length = .ok c := by
  simp [rd]

/-- the scan stops at the first `stop` byte or at the terminator -/
theorem mwScan_spec (w : Bytes) (stop : UInt8) (hw : ∀ d ∈ w, d ≠ stop ∧ d ≠ 0) (c : UInt8) (rest : Bytes)
    (hc : c = stop ∨ c = 0) : ∀ (pre : Bytes) (fuel : Nat), w.length < fuel →
    mwScan fuel (pre ++ w ++ c :: rest) pre.length stop = .ok (pre.length + w.length) := by
  induction w with
  | nil =>
    intro pre fuel hf
    cases fuel with
    | zero => simp at hf
    | succ f =>
      simp only [mwScan, List.append_nil, rd_append_at, bind, Except.bind, List.length_nil, Nat.add_zero]
      rcases hc with h | h <;> simp [h, pure, Except.pure]
  | cons a w ih =>
    intro pre fuel hf
    cases fuel with
    | zero => simp at hf
    | succ f =>
      obtain ⟨h1, h2⟩ := hw a (by simp)
      have e : pre ++ (a :: w) ++ c :: rest = pre ++ a :: (w ++ c :: rest) := by simp
      have e2 : pre ++ (a :: w) ++ c :: rest = (pre ++ [a]) ++ w ++ c :: rest := by simp
      simp only [mwScan]
      rw [e, rd_append_at]
      simp only [bind, Except.bind]
      rw [← e, e2]
      have := ih (fun d hd => hw d (by simp [hd])) (pre ++ [a]) f (by simp at hf; omega)
      simp only [List.length_append, List.length_cons, List.length_nil, Nat.zero_add] at this
      rw [this]
      have hcond : (a != stop && a != 0) = true := by simp [h1, h2]
      simp only [hcond, if_true, List.length_cons]
      congr 1; omega

theorem wr_append_at (pre : Bytes) (y c : UInt8) (ys : Bytes) : wr (pre ++ y :: ys) pre.length c = .ok (pre ++ c :: ys) := by
  simp [wr]

/-- the shift loop: `P` = bytes already moved, `G` = the gap between the write and the read cursor
    (`|G| = len`), `X` = bytes still to move, then the terminator -/
theorem mwShift_spec (X : Bytes) (hX : ∀ d ∈ X, d ≠ 0) : ∀ (P G : Bytes) (fuel : Nat), X.length < fuel →
    ∃ stale, mwShift fuel (P ++ G ++ (X ++ [0])) G.length (P.length + G.length) = .ok (P ++ X ++ 0 :: stale) := by
  induction X with
  | nil =>
    intro P G fuel hf
    cases fuel with
    | zero => simp at hf
    | succ f =>
      have hr : rd (P ++ G ++ ([] ++ [0])) (P.length + G.length) = .ok 0 := by
        have := rd_append_at (P ++ G) 0 []
        simpa using this
      simp only [mwShift, hr, bind, Except.bind, if_true]
      have hsub : P.length + G.length - G.length = P.length := by omega
      rw [hsub]
      cases G with
      | nil => exact ⟨[], by simp [wr]⟩
      | cons g G' =>
        have := wr_append_at P g 0 (G' ++ [0])
        exact ⟨G' ++ [0], by simpa using this⟩
  | cons c X ih =>
    intro P G fuel hf
    cases fuel with
    | zero => simp at hf
    | succ f =>
      have hc : c ≠ 0 := hX c (by simp)
      have hr : rd (P ++ G ++ (c :: X ++ [0])) (P.length + G.length) = .ok c := by
        have := rd_append_at (P ++ G) c (X ++ [0])
        simpa using this
      simp only [mwShift, hr, bind, Except.bind, hc, if_false]
      have hsub : P.length + G.length - G.length = P.length := by omega
      rw [hsub]
      -- the write and the new decomposition
      have hw : wr (P ++ G ++ (c :: X ++ [0])) P.length c =
          .ok ((P ++ [c]) ++ (G ++ [c]).drop 1 ++ (X ++ [0])) := by
        cases G with
        | nil =>
          have := wr_append_at P c c (X ++ [0])
          simpa using this
        | cons g G' =>
          have := wr_append_at P g c (G' ++ c :: (X ++ [0]))
          simpa using this
      rw [hw]
      simp only []
      have hlenG : ((G ++ [c]).drop 1).length = G.length := by simp
      obtain ⟨stale, h⟩ := ih (fun d hd => hX d (by simp [hd])) (P ++ [c]) ((G ++ [c]).drop 1) f (by simp at hf; omega)
      rw [hlenG] at h
      have e : (P ++ [c]).length + G.length = P.length + G.length + 1 := by simp; omega
      rw [e] at h
      rw [h]
      exact ⟨stale, by simp⟩

theorem takeWhile_nz' (v stale : Bytes) (hv : ∀ d ∈ v, d ≠ 0) : (v ++ 0 :: stale).takeWhile (· != 0) = v := by
  induction v with
  | nil => simp
  | cons a v ih =>
    have : (a != 0) = true := by simp [hv a (by simp)]
    simp only [List.cons_append, List.takeWhile_cons, this, if_true]
    rw [ih (fun d hd => hv d (by simp [hd]))]

theorem split_at_stop (s : Bytes) (stop : UInt8) :
    (∀ d ∈ s, d ≠ stop) ∨ ∃ w r, s = w ++ stop :: r ∧ ∀ d ∈ w, d ≠ stop := by
  induction s with
  | nil => left; intro d hd; simp at hd
  | cons a s ih =>
    by_cases ha : a = stop
    · right; exact ⟨[], s, by simp [ha], by intro d hd; simp at hd⟩
    · rcases ih with h | ⟨w, r, h1, h2⟩
      · left; intro d hd; rcases List.mem_cons.mp hd with rfl | h'
        · exact ha
        · exact h d h'
      · right; refine ⟨a :: w, r, by simp [h1], ?_⟩
        intro d hd; rcases List.mem_cons.mp hd with rfl | h'
        · exact ha
        · exact h2 d h'

/-- C17 makeword_safe (raw): for EVERY NUL-free string `s` and EVERY stop byte — `'\0'` included —
    `_q_makeword` on the exactly sized buffer `s ++ [0]` stays inside the buffer and returns the
    word before the first stop byte and leaves the text behind it -/
theorem makewordRaw_spec (s : Bytes) (hs : ∀ d ∈ s, d ≠ 0) (stop : UInt8) :
    makewordRaw (s ++ [0]) stop = .ok (makeword s stop) := by
  rcases split_at_stop s stop with hno | ⟨w, r, hsplit, hw⟩
  · -- no stop byte: the scan ends at the terminator
    rw [makeword_end s stop hno]
    unfold makewordRaw
    have hwok : ∀ d ∈ s, d ≠ stop ∧ d ≠ 0 := fun d hd => ⟨hno d hd, hs d hd⟩
    have hscan := mwScan_spec s stop hwok 0 [] (Or.inr rfl) [] ((s ++ [0]).length + 1) (by simp; omega)
    simp only [List.nil_append, List.length_nil, Nat.zero_add] at hscan
    have hrd : rd (s ++ [0]) s.length = .ok 0 := rd_append_at s 0 []
    obtain ⟨stale, hsh⟩ := mwShift_spec [] (by simp) [] s ((s ++ [0]).length + 1) (by simp)
    simp only [List.nil_append, List.length_nil, Nat.zero_add] at hsh
    have hcond : ((0 : UInt8) != 0) = false := by decide
    simp only [hscan, bind, Except.bind, hrd, hcond, Bool.false_eq_true, if_false, hsh]
    simp [pure, Except.pure]
  · subst hsplit
    rw [makeword_sep w r stop hw]
    unfold makewordRaw
    have hwok : ∀ d ∈ w, d ≠ stop ∧ d ≠ 0 := fun d hd => ⟨hw d hd, hs d (by simp [hd])⟩
    have hc0 : stop ≠ 0 := hs stop (by simp)
    have hrnz : ∀ d ∈ r, d ≠ 0 := fun d hd => hs d (by simp [hd])
    have hbuf : w ++ stop :: r ++ [0] = [] ++ w ++ stop :: (r ++ [0]) := by simp
    have hscan := mwScan_spec w stop hwok stop (r ++ [0]) (Or.inl rfl) [] ((w ++ stop :: r ++ [0]).length + 1)
      (by simp; omega)
    simp only [List.length_nil, Nat.zero_add] at hscan
    rw [← hbuf] at hscan
    have hrd : rd (w ++ stop :: r ++ [0]) w.length = .ok stop := by
      have := rd_append_at w stop (r ++ [0]); simpa using this
    have hcond : (stop != 0) = true := by simp [hc0]
    obtain ⟨stale, hsh⟩ := mwShift_spec r hrnz [] (w ++ [stop]) ((w ++ stop :: r ++ [0]).length + 1) (by simp; omega)
    have e1 : [] ++ (w ++ [stop]) ++ (r ++ [0]) = w ++ stop :: r ++ [0] := by simp
    have e2 : ([] : Bytes).length + (w ++ [stop]).length = w.length + 1 := by simp
    have e3 : (w ++ [stop]).length = w.length + 1 := by simp
    rw [e1, e2, e3] at hsh
    simp only [hscan, bind, Except.bind, hrd, hcond, if_true, hsh]
    simp only [List.nil_append, pure, Except.pure]
    rw [takeWhile_nz' r stale hrnz]
    have : (w ++ stop :: r ++ [0]).take w.length = w := by
      rw [List.append_assoc, List.take_left]
    rw [this]

/-- makeword_nul_stop: with the stop byte `'\\0'` the word is the whole string and nothing is left -/
theorem makeword_nul_stop (s : Bytes) (hs : ∀ d ∈ s, d ≠ 0) :
    makewordRaw (s ++ [0]) 0 = .ok (s, []) := by
  rw [makewordRaw_spec s hs 0]
  have : s.takeWhile (· != 0) = s := by
    induction s with
    | nil => rfl
    | cons a s ih =>
      have : (a != 0) = true := by simp [hs a (by simp)]
      simp only [List.takeWhile_cons, this, if_true]
      rw [ih (fun d hd => hs d (by simp [hd]))]
  simp [makeword, this]

/-! ### the query round trip for arbitrary separators -/

/-- `name eq value sep name eq value …` with URL-encoded names and values -/
def renderQueryG (eq sep : UInt8) : List (Bytes × Bytes) → Bytes
  | [] => []
  | [(n, v)] => urlEncode n ++ eq :: urlEncode v
  | (n, v) :: p :: ps => urlEncode n ++ eq :: urlEncode v ++ sep :: renderQueryG eq sep (p :: ps)

/-- a byte that can serve as separator of URL-encoded text: not NUL (the query is a C string) and
    never produced by `qurl_encode` (so neither a literal-safe character, nor `%`, nor a hex digit) -/
def SepFree (c : UInt8) : Prop := c ≠ 0 ∧ ∀ b : UInt8, ∀ d ∈ urlEncByte b, d ≠ c

theorem encG_no (x : Bytes) (c : UInt8) (hc : SepFree c) : ∀ d ∈ urlEncode x, d ≠ c := by
  intro d hd
  simp [urlEncode, List.mem_flatMap] at hd
  obtain ⟨b, _, hb⟩ := hd
  exact hc.2 b d hb

theorem parseLoop_renderG (eq sep : UInt8) (heq : SepFree eq) (hsep : SepFree sep) (hne : eq ≠ sep) :
    ∀ (ps : List (Bytes × Bytes)) (fuel : Nat), ps.length < fuel →
    (∀ p ∈ ps, (∀ d ∈ p.1, d ≠ 0) ∧ (∀ d ∈ p.2, d ≠ 0)) →
    parseQueriesLoop fuel (renderQueryG eq sep ps) eq sep = .ok ps := by
  intro ps
  induction ps with
  | nil =>
    intro fuel hf _
    cases fuel with
    | zero => omega
    | succ f => simp [parseQueriesLoop, renderQueryG]
  | cons p ps ih =>
    intro fuel hf hnz
    obtain ⟨n, v⟩ := p
    cases fuel with
    | zero => omega
    | succ f =>
      have hn := (hnz (n, v) (by simp)).1
      have hv := (hnz (n, v) (by simp)).2
      have hsegS : ∀ d ∈ urlEncode n ++ eq :: urlEncode v, d ≠ sep := by
        intro d hd
        simp at hd
        rcases hd with h | rfl | h
        · exact encG_no n sep hsep d h
        · exact hne
        · exact encG_no v sep hsep d h
      have hmk2 : makeword (urlEncode n ++ eq :: urlEncode v) eq = (urlEncode n, urlEncode v) :=
        makeword_sep _ _ eq (encG_no n eq heq)
      obtain ⟨rn, hrn, hdn⟩ := decoded_encoded n hn
      obtain ⟨rv, hrv, hdv⟩ := decoded_encoded v hv
      have ihps := ih f (by simp at hf; omega) (fun p hp => hnz p (by simp [hp]))
      cases ps with
      | nil =>
        have hq : renderQueryG eq sep [(n, v)] ≠ [] := by simp [renderQueryG]
        have hmk1 := makeword_end (urlEncode n ++ eq :: urlEncode v) sep hsegS
        have hrest : parseQueriesLoop f [] eq sep = .ok [] := by
          simpa [renderQueryG] using ihps
        simp only [parseQueriesLoop, hq, if_false]
        simp only [renderQueryG, hmk1, hmk2, trim_id _ (enc_nows n), hrn, hrv, hrest, bind, Except.bind,
          pure, Except.pure, hdn, hdv]
      | cons p' ps' =>
        have hq : renderQueryG eq sep ((n, v) :: p' :: ps') ≠ [] := by simp [renderQueryG]
        have hmk1 : makeword (renderQueryG eq sep ((n, v) :: p' :: ps')) sep
            = (urlEncode n ++ eq :: urlEncode v, renderQueryG eq sep (p' :: ps')) := by
          have := makeword_sep (urlEncode n ++ eq :: urlEncode v) (renderQueryG eq sep (p' :: ps')) sep hsegS
          simpa [renderQueryG] using this
        simp only [parseQueriesLoop, hq, if_false]
        simp only [hmk1, hmk2, trim_id _ (enc_nows n), hrn, hrv, ihps, bind, Except.bind,
          pure, Except.pure, hdn, hdv]

theorem renderQueryG_length (eq sep : UInt8) (ps : List (Bytes × Bytes)) : ps.length ≤ (renderQueryG eq sep ps).length := by
  fun_induction renderQueryG eq sep ps <;> simp_all <;> omega

/-- C16: the query round trip holds for EVERY pair of distinct separators that `qurl_encode` never
    emits (and that are not NUL) — `=`/`&` are one instance -/
theorem parseQueries_renderG (eq sep : UInt8) (heq : SepFree eq) (hsep : SepFree sep) (hne : eq ≠ sep)
    (ps : List (Bytes × Bytes)) (hnz : ∀ p ∈ ps, (∀ d ∈ p.1, d ≠ 0) ∧ (∀ d ∈ p.2, d ≠ 0)) :
    parseQueries (renderQueryG eq sep ps) eq sep = .ok ps :=
  parseLoop_renderG eq sep heq hsep hne ps _ (by have := renderQueryG_length eq sep ps; omega) hnz

/-- which bytes are admissible separators: exactly those the URL table does not let through literally,
    except `%` (and NUL) -/
theorem sepFree_of_table (c : UInt8) (h0 : c ≠ 0) (h37 : c ≠ 37) (ht : tbl Generated.urlCharTbl c.toNat = 0) :
    SepFree c := by
  refine ⟨h0, ?_⟩
  intro b d hd hdc
  subst hdc
  have key : ∀ b : UInt8, (urlEncByte b).all (fun d => tbl Generated.urlCharTbl d.toNat != 0 || d == 37) = true := by
    intro b; revert b; apply forall_uint8; decide +kernel
  have := List.all_eq_true.mp (key b) d hd
  simp [ht, h37] at this

/-- with the separator `'\0'` the whole query is one `name eq value` pair: `qparse_queries` passes the
    byte to `_q_makeword`, which then takes the rest of the string (`makeword_nul_stop`) -/
theorem makeword_nul (s : Bytes) (hs : ∀ d ∈ s, d ≠ 0) : makeword s 0 = (s, []) :=
  makeword_end s 0 hs

end Qlibc.Encode

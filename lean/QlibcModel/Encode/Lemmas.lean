/-
  Lemmas about the Encode model: the in-place decoders compute their pure specifications
  without ever leaving the buffer.
-/
import QlibcModel.Encode.Model

namespace Qlibc.Encode
open Qlibc Qlibc.Generated

/-! ### checked accessors on a buffer split as `out ++ tail` -/

theorem rd_split (out tail : Bytes) (j : Nat) :
    rd (out ++ tail) (out.length + j) = rd tail j := by
  simp [rd, List.getElem?_append_right]

theorem rd_drop (tail : Bytes) (g i : Nat) : rd tail (g + i) = rd (tail.drop g) i := by
  simp [rd, List.getElem?_drop]

theorem rd_cons_zero (c : UInt8) (l : Bytes) : rd (c :: l) 0 = .ok c := rfl
theorem rd_cons_succ (c : UInt8) (l : Bytes) (i : Nat) : rd (c :: l) (i + 1) = rd l i := by
  simp [rd]

theorem wr_split (out : Bytes) (t : UInt8) (tail : Bytes) (v : UInt8) :
    wr (out ++ t :: tail) out.length v = .ok ((out ++ [v]) ++ tail) := by
  simp [wr]

end Qlibc.Encode

namespace Qlibc.Encode
open Qlibc Qlibc.Generated

/-! ### URL decoder -/

/-- pure specification of `qurl_decode` on a NUL-free string -/
def urlDecPure : Bytes → Bytes
  | [] => []
  | c :: rest =>
    if c = 37 then
      match rest with
      | c1 :: c2 :: rest' => x2c c1 c2 :: urlDecPure rest'
      | [c1] => c :: urlDecPure [c1]
      | [] => [c]
    else (if c = 43 then 32 else c) :: urlDecPure rest
termination_by s => s.length

theorem urlDecPure_length_le (s : Bytes) : (urlDecPure s).length ≤ s.length := by
  fun_induction urlDecPure s <;> simp_all <;> omega


theorem urlDecPure_cons_ne {c : UInt8} (rest : Bytes) (h : c ≠ 37) :
    urlDecPure (c :: rest) = (if c = 43 then 32 else c) :: urlDecPure rest := by
  rw [urlDecPure.eq_def]; simp [h]

theorem urlDecPure_pct (c1 c2 : UInt8) (rest : Bytes) :
    urlDecPure (37 :: c1 :: c2 :: rest) = x2c c1 c2 :: urlDecPure rest := by
  rw [urlDecPure.eq_def]; simp

/-- reads relative to the read cursor see the not yet consumed input -/
theorem rd_rest (out tail rest : Bytes) (g e i : Nat)
    (hd : tail.drop g = rest) (he : e = out.length + g) :
    rd (out ++ tail) (e + i) = rd rest i := by
  subst he; rw [Nat.add_assoc, rd_split, rd_drop, hd]

theorem rd_rest0 (out tail rest : Bytes) (g e : Nat)
    (hd : tail.drop g = rest) (he : e = out.length + g) :
    rd (out ++ tail) e = rd rest 0 := by
  simpa using rd_rest out tail rest g e 0 hd he

theorem drop_tail_of_cons {t : UInt8} {tail' rest : Bytes} {g k : Nat}
    (hd : (t :: tail').drop g = rest) : tail'.drop (g + k) = rest.drop (k + 1) := by
  rw [← hd, List.drop_drop, ← Nat.add_assoc, List.drop_succ_cons]

theorem urlDecLoop_spec : ∀ (fuel : Nat) (rest out tail : Bytes) (g b e : Nat),
    rest.length < fuel → (∀ c ∈ rest, c ≠ 0) → tail.drop g = rest ++ [0] →
    b = out.length → e = out.length + g →
    ∃ stale, urlDecLoop fuel (out ++ tail) b e
        = .ok (out ++ urlDecPure rest ++ 0 :: stale, out.length + (urlDecPure rest).length) := by
  intro fuel
  induction fuel with
  | zero => intro rest _ _ _ _ _ h; omega
  | succ fuel ih =>
    intro rest out tail g b e hfuel hnz hd hb he
    have htail : tail ≠ [] := by
      intro h; subst h; simp at hd
    obtain ⟨t, tail', rfl⟩ := List.exists_cons_of_ne_nil htail
    have hr0 := rd_rest0 out (t :: tail') _ g e hd he
    have hr := fun i => rd_rest out (t :: tail') _ g e i hd he
    subst hb
    unfold urlDecLoop
    simp only [hr0, hr]
    cases rest with
    | nil =>
      refine ⟨tail', ?_⟩
      simp [rd, bind, Except.bind, wr_split, urlDecPure, pure, Except.pure]
    | cons c rest' =>
      have hc : c ≠ 0 := hnz c (by simp)
      have hnz' : ∀ x ∈ rest', x ≠ 0 := fun x hx => hnz x (by simp [hx])
      -- the common continuation: store `v`, consume `k+1` input bytes
      have step : ∀ (v : UInt8) (k : Nat) (rest'' : Bytes), k + 1 ≤ (c :: rest').length →
          (c :: rest').drop (k + 1) = rest'' →
          ∃ stale, urlDecLoop fuel ((out ++ [v]) ++ tail') (out.length + 1) (e + (k + 1))
            = .ok (out ++ v :: urlDecPure rest'' ++ 0 :: stale,
                   out.length + ((urlDecPure rest'').length + 1)) := by
        intro v k rest'' hkl hk
        have hlen : rest''.length < fuel := by
          rw [← hk]; simp at hfuel ⊢; omega
        have hnz'' : ∀ x ∈ rest'', x ≠ 0 := by
          intro x hx; rw [← hk] at hx; exact hnz x (List.mem_of_mem_drop hx)
        have hd' : tail'.drop (g + k) = rest'' ++ [0] := by
          rw [drop_tail_of_cons hd, ← hk, List.drop_append_of_le_length hkl]
        obtain ⟨stale, h⟩ := ih rest'' (out ++ [v]) tail' (g + k) (out.length + 1) (e + (k + 1))
          hlen hnz'' hd' (by simp) (by simp; omega)
        exact ⟨stale, by rw [h]; simp [Nat.add_assoc, Nat.add_comm]⟩
      simp only [List.cons_append, rd_cons_zero, rd_cons_succ, bind, Except.bind, hc, if_false,
        wr_split]
      by_cases h37 : c = 37
      · subst h37
        simp only [if_true]
        cases rest' with
        | nil =>
          obtain ⟨stale, h⟩ := step 37 0 [] (by simp) (by simp)
          exact ⟨stale, by simpa [rd, urlDecPure] using h⟩
        | cons c1 r1 =>
          have hc1 : c1 ≠ 0 := hnz' c1 (by simp)
          cases r1 with
          | nil =>
            obtain ⟨stale, h⟩ := step 37 0 [c1] (by simp) (by simp)
            exact ⟨stale, by simpa [rd, urlDecPure, hc1] using h⟩
          | cons c2 r2 =>
            have hc2 : c2 ≠ 0 := hnz' c2 (by simp)
            obtain ⟨stale, h⟩ := step (x2c c1 c2) 2 r2 (by simp) (by simp)
            exact ⟨stale, by simpa [rd, urlDecPure, hc1, hc2] using h⟩
      · simp only [h37, if_false]
        by_cases h43 : c = 43
        · obtain ⟨stale, h⟩ := step 32 0 rest' (by simp) (by simp)
          exact ⟨stale, by simpa [h43, urlDecPure_cons_ne] using h⟩
        · obtain ⟨stale, h⟩ := step c 0 rest' (by simp) (by simp)
          exact ⟨stale, by simpa [h43, h37, urlDecPure_cons_ne] using h⟩


/-- `qurl_decode` on any NUL-free C string never leaves the buffer and computes `urlDecPure` -/
theorem urlDecodeRaw_spec (s : Bytes) (hnz : ∀ c ∈ s, c ≠ 0) :
    ∃ stale, urlDecodeRaw (s ++ [0]) = .ok (urlDecPure s ++ 0 :: stale, (urlDecPure s).length) := by
  obtain ⟨stale, h⟩ := urlDecLoop_spec ((s ++ [0]).length + 1) s [] (s ++ [0]) 0 0 0
    (by simp; omega) hnz (by simp) rfl rfl
  exact ⟨stale, by simpa [urlDecodeRaw] using h⟩

/-! #### finite facts about bytes, decided over the regenerated tables -/

theorem forall_uint8 {P : UInt8 → Prop} (h : ∀ n, n < 256 → P (UInt8.ofNat n)) (c : UInt8) : P c := by
  have := h c.toNat c.toNat_lt
  simpa using this

theorem urlSafe_ne_special (c : UInt8) :
    (tbl urlCharTbl c.toNat != 0) = true → c ≠ 0 ∧ c ≠ 37 ∧ c ≠ 43 := by
  revert c; apply forall_uint8; decide +kernel

theorem x2c_hexl (c : UInt8) : x2c (hexl (c >>> 4)) (hexl (c &&& 15)) = c := by
  revert c; apply forall_uint8; decide +kernel

theorem hexl_ne_zero (c : UInt8) : hexl (c >>> 4) ≠ 0 ∧ hexl (c &&& 15) ≠ 0 := by
  revert c; apply forall_uint8; decide +kernel

theorem urlEncByte_ne_zero (c : UInt8) : ∀ d ∈ urlEncByte c, d ≠ 0 := by
  intro d hd
  unfold urlEncByte at hd
  split at hd
  · rename_i h
    simp at hd; subst hd; exact (urlSafe_ne_special d (by simpa using h)).1
  · simp at hd
    rcases hd with rfl | rfl | rfl
    · decide
    · exact (hexl_ne_zero c).1
    · exact (hexl_ne_zero c).2

theorem urlEncode_ne_zero (x : Bytes) : ∀ d ∈ urlEncode x, d ≠ 0 := by
  intro d hd
  simp [urlEncode, List.mem_flatMap] at hd
  obtain ⟨c, _, hc⟩ := hd
  exact urlEncByte_ne_zero c d hc

theorem urlDecPure_encByte (c : UInt8) (rest : Bytes) :
    urlDecPure (urlEncByte c ++ rest) = c :: urlDecPure rest := by
  unfold urlEncByte
  split
  · rename_i h
    obtain ⟨_, h37, h43⟩ := urlSafe_ne_special c h
    simp [urlDecPure_cons_ne rest h37, h43]
  · simp [urlDecPure_pct, x2c_hexl]

theorem urlDecPure_urlEncode (x : Bytes) : urlDecPure (urlEncode x) = x := by
  induction x with
  | nil => simp [urlEncode, urlDecPure]
  | cons c x ih =>
    have : urlEncode (c :: x) = urlEncByte c ++ urlEncode x := by simp [urlEncode]
    rw [this, urlDecPure_encByte, ih]


/-! ### hex decoder -/

/-- pure specification of `qhex_decode` on a NUL-free string: pairs of digits, a dangling
    last digit is dropped -/
def hexDecPure : Bytes → Bytes
  | c :: c1 :: rest => ((tbl hexMapTbl c.toNat <<< 4) + tbl hexMapTbl c1.toNat) :: hexDecPure rest
  | _ => []

theorem hexDecPure_length_le (s : Bytes) : (hexDecPure s).length ≤ s.length := by
  fun_induction hexDecPure s <;> simp_all <;> omega

theorem hexDecLoop_spec : ∀ (fuel : Nat) (rest out tail : Bytes) (g b e : Nat),
    rest.length < fuel → (∀ c ∈ rest, c ≠ 0) → tail.drop g = rest ++ [0] →
    b = out.length → e = out.length + g →
    ∃ stale, hexDecLoop fuel (out ++ tail) b e
        = .ok (out ++ hexDecPure rest ++ 0 :: stale, out.length + (hexDecPure rest).length) := by
  intro fuel
  induction fuel with
  | zero => intro rest _ _ _ _ _ h; omega
  | succ fuel ih =>
    intro rest out tail g b e hfuel hnz hd hb he
    have htail : tail ≠ [] := by
      intro h; subst h; simp at hd
    obtain ⟨t, tail', rfl⟩ := List.exists_cons_of_ne_nil htail
    have hr0 := rd_rest0 out (t :: tail') _ g e hd he
    have hr := fun i => rd_rest out (t :: tail') _ g e i hd he
    subst hb
    unfold hexDecLoop
    simp only [hr0, hr]
    match rest, hnz, hd, hfuel, hr0, hr with
    | [], _, _, _, _, _ =>
      exact ⟨tail', by simp [rd, bind, Except.bind, wr_split, hexDecPure, pure, Except.pure]⟩
    | [c], hnz, _, _, _, _ =>
      have hc : c ≠ 0 := hnz c (by simp)
      exact ⟨tail', by simp [rd, bind, Except.bind, wr_split, hexDecPure, pure, Except.pure, hc]⟩
    | c :: c1 :: rest', hnz, hd, hfuel, _, _ =>
      have hc : c ≠ 0 := hnz c (by simp)
      have hc1 : c1 ≠ 0 := hnz c1 (by simp)
      have hd' : tail'.drop (g + 1) = rest' ++ [0] := by
        rw [drop_tail_of_cons hd]; simp
      obtain ⟨stale, h⟩ := ih rest' (out ++ [(tbl hexMapTbl c.toNat <<< 4) + tbl hexMapTbl c1.toNat])
        tail' (g + 1) (out.length + 1) (e + 2)
        (by simp at hfuel ⊢; omega) (fun x hx => hnz x (by simp [hx])) hd' (by simp) (by simp; omega)
      exact ⟨stale, by simpa [rd, bind, Except.bind, wr_split, hexDecPure, hc, hc1, Nat.add_assoc, Nat.add_comm 1] using h⟩

theorem hexDecodeRaw_spec (s : Bytes) (hnz : ∀ c ∈ s, c ≠ 0) :
    ∃ stale, hexDecodeRaw (s ++ [0]) = .ok (hexDecPure s ++ 0 :: stale, (hexDecPure s).length) := by
  obtain ⟨stale, h⟩ := hexDecLoop_spec ((s ++ [0]).length + 1) s [] (s ++ [0]) 0 0 0
    (by simp; omega) hnz (by simp) rfl rfl
  exact ⟨stale, by simpa [hexDecodeRaw] using h⟩

theorem hexMap_hexChar (c : UInt8) :
    (tbl hexMapTbl (tbl hexCharTbl (c >>> 4).toNat).toNat <<< 4)
      + tbl hexMapTbl (tbl hexCharTbl (c &&& 0x0F).toNat).toNat = c := by
  revert c; apply forall_uint8; decide +kernel

theorem hexChar_ne_zero (c : UInt8) :
    tbl hexCharTbl (c >>> 4).toNat ≠ 0 ∧ tbl hexCharTbl (c &&& 0x0F).toNat ≠ 0 := by
  revert c; apply forall_uint8; decide +kernel

theorem hexEncode_cons (c : UInt8) (x : Bytes) :
    hexEncode (c :: x) = tbl hexCharTbl (c >>> 4).toNat :: tbl hexCharTbl (c &&& 0x0F).toNat :: hexEncode x := by
  simp [hexEncode]

theorem hexEncode_ne_zero (x : Bytes) : ∀ d ∈ hexEncode x, d ≠ 0 := by
  induction x with
  | nil => simp [hexEncode]
  | cons c x ih =>
    intro d hd
    rw [hexEncode_cons] at hd
    simp at hd
    rcases hd with rfl | rfl | h
    · exact (hexChar_ne_zero c).1
    · exact (hexChar_ne_zero c).2
    · exact ih d h

theorem hexDecPure_hexEncode (x : Bytes) : hexDecPure (hexEncode x) = x := by
  induction x with
  | nil => simp [hexEncode, hexDecPure]
  | cons c x ih => rw [hexEncode_cons, hexDecPure, hexMap_hexChar, ih]

end Qlibc.Encode

/-
  `qparse_queries` parses back a query string assembled from URL-encoded names and values.
-/
import QlibcModel.Encode.Lemmas

namespace Qlibc.Encode
open Qlibc Qlibc.Generated

/-- `name=value&name=value…` with URL-encoded names and values (`=` is 61, `&` is 38) -/
def renderQuery : List (Bytes × Bytes) → Bytes
  | [] => []
  | [(n, v)] => urlEncode n ++ 61 :: urlEncode v
  | (n, v) :: p :: ps => urlEncode n ++ 61 :: urlEncode v ++ 38 :: renderQuery (p :: ps)

def plainByte (d : UInt8) : Bool := d != 38 && d != 61 && !Str.isWs d && d != 0

theorem urlEncByte_plain (c : UInt8) : (urlEncByte c).all plainByte = true := by
  revert c; apply forall_uint8; decide +kernel

theorem urlEncode_plain (x : Bytes) : ∀ d ∈ urlEncode x, plainByte d = true := by
  intro d hd
  simp [urlEncode, List.mem_flatMap] at hd
  obtain ⟨c, _, hc⟩ := hd
  exact List.all_eq_true.mp (urlEncByte_plain c) d hc

theorem takeWhile_stop (p : UInt8 → Bool) (w r : Bytes) (s : UInt8)
    (hw : ∀ d ∈ w, p d = true) (hs : p s = false) : (w ++ s :: r).takeWhile p = w := by
  induction w with
  | nil => simp [List.takeWhile_cons, hs]
  | cons a w ih =>
    simp [List.takeWhile_cons, hw a (by simp)]
    exact ih (fun d hd => hw d (by simp [hd]))

theorem takeWhile_all (p : UInt8 → Bool) (w : Bytes) (hw : ∀ d ∈ w, p d = true) :
    w.takeWhile p = w := by
  induction w with
  | nil => simp
  | cons a w ih =>
    simp [List.takeWhile_cons, hw a (by simp)]
    exact ih (fun d hd => hw d (by simp [hd]))

theorem makeword_sep (w r : Bytes) (stop : UInt8) (hw : ∀ d ∈ w, d ≠ stop) :
    makeword (w ++ stop :: r) stop = (w, r) := by
  have htw : (w ++ stop :: r).takeWhile (· != stop) = w :=
    takeWhile_stop _ w r stop (by intro d hd; simp [hw d hd]) (by simp)
  simp [makeword, htw]

theorem makeword_end (w : Bytes) (stop : UInt8) (hw : ∀ d ∈ w, d ≠ stop) :
    makeword w stop = (w, []) := by
  have htw : w.takeWhile (· != stop) = w :=
    takeWhile_all _ w (by intro d hd; simp [hw d hd])
  simp [makeword, htw]

theorem trim_id (s : Bytes) (h : ∀ d ∈ s, Str.isWs d = false) : Str.trim s = s := by
  have h1 : ∀ l : Bytes, (∀ d ∈ l, Str.isWs d = false) → l.dropWhile Str.isWs = l := by
    intro l hl
    cases l with
    | nil => rfl
    | cons a l => simp [List.dropWhile, hl a (by simp)]
  unfold Str.trim Str.trimTail Str.trimHead
  rw [h1 s h, h1 s.reverse (by intro d hd; exact h d (by simpa using hd))]
  simp

theorem takeWhile_nz (v stale : Bytes) (hv : ∀ d ∈ v, d ≠ 0) :
    (v ++ 0 :: stale).takeWhile (· != 0) = v :=
  takeWhile_stop _ v stale 0 (by intro d hd; simp [hv d hd]) (by simp)

/-- decoding an URL-encoded NUL-free string inside `qparse_queries` gives the string back -/
theorem decoded_encoded (x : Bytes) (hx : ∀ d ∈ x, d ≠ 0) :
    ∃ r, urlDecodeRaw (urlEncode x ++ [0]) = .ok r ∧ decodedStr r = x := by
  obtain ⟨stale, h⟩ := urlDecodeRaw_spec (urlEncode x) (urlEncode_ne_zero x)
  refine ⟨_, h, ?_⟩
  simp only [decodedStr, urlDecPure_urlEncode]
  exact takeWhile_nz x stale hx

theorem enc_no (x : Bytes) (stop : UInt8) (hs : plainByte stop = false) :
    ∀ d ∈ urlEncode x, d ≠ stop := by
  intro d hd h
  have := urlEncode_plain x d hd
  rw [h, hs] at this
  exact absurd this (by decide)

theorem enc_nows (x : Bytes) : ∀ d ∈ urlEncode x, Str.isWs d = false := by
  intro d hd
  have := urlEncode_plain x d hd
  simp [plainByte] at this
  simp [this]

theorem parseLoop_render : ∀ (ps : List (Bytes × Bytes)) (fuel : Nat), ps.length < fuel →
    (∀ p ∈ ps, (∀ d ∈ p.1, d ≠ 0) ∧ (∀ d ∈ p.2, d ≠ 0)) →
    parseQueriesLoop fuel (renderQuery ps) 61 38 = .ok ps := by
  intro ps
  induction ps with
  | nil =>
    intro fuel hf _
    cases fuel with
    | zero => omega
    | succ f => simp [parseQueriesLoop, renderQuery]
  | cons p ps ih =>
    intro fuel hf hnz
    obtain ⟨n, v⟩ := p
    cases fuel with
    | zero => omega
    | succ f =>
      have hn := (hnz (n, v) (by simp)).1
      have hv := (hnz (n, v) (by simp)).2
      have hseg38 : ∀ d ∈ urlEncode n ++ 61 :: urlEncode v, d ≠ 38 := by
        intro d hd
        simp at hd
        rcases hd with h | rfl | h
        · exact enc_no n 38 (by decide) d h
        · decide
        · exact enc_no v 38 (by decide) d h
      have hmk2 : makeword (urlEncode n ++ 61 :: urlEncode v) 61 = (urlEncode n, urlEncode v) :=
        makeword_sep _ _ 61 (enc_no n 61 (by decide))
      obtain ⟨rn, hrn, hdn⟩ := decoded_encoded n hn
      obtain ⟨rv, hrv, hdv⟩ := decoded_encoded v hv
      have ihps := ih f (by simp at hf; omega) (fun p hp => hnz p (by simp [hp]))
      cases ps with
      | nil =>
        have hq : renderQuery [(n, v)] ≠ [] := by simp [renderQuery]
        have hmk1 := makeword_end (urlEncode n ++ 61 :: urlEncode v) 38 hseg38
        have hrest : parseQueriesLoop f [] 61 38 = .ok [] := by
          simpa [renderQuery] using ihps
        simp only [parseQueriesLoop, hq, if_false]
        simp only [renderQuery, hmk1, hmk2, trim_id _ (enc_nows n), hrn, hrv, hrest, bind, Except.bind,
          pure, Except.pure, hdn, hdv]
      | cons p' ps' =>
        have hq : renderQuery ((n, v) :: p' :: ps') ≠ [] := by simp [renderQuery]
        have hmk1 : makeword (renderQuery ((n, v) :: p' :: ps')) 38
            = (urlEncode n ++ 61 :: urlEncode v, renderQuery (p' :: ps')) := by
          have := makeword_sep (urlEncode n ++ 61 :: urlEncode v) (renderQuery (p' :: ps')) 38 hseg38
          simpa [renderQuery] using this
        simp only [parseQueriesLoop, hq, if_false]
        simp only [hmk1, hmk2, trim_id _ (enc_nows n), hrn, hrv, ihps, bind, Except.bind,
          pure, Except.pure, hdn, hdv]

theorem renderQuery_length (ps : List (Bytes × Bytes)) : ps.length ≤ (renderQuery ps).length := by
  fun_induction renderQuery ps <;> simp_all <;> omega

theorem parseQueries_render (ps : List (Bytes × Bytes))
    (hnz : ∀ p ∈ ps, (∀ d ∈ p.1, d ≠ 0) ∧ (∀ d ∈ p.2, d ≠ 0)) :
    parseQueries (renderQuery ps) 61 38 = .ok ps :=
  parseLoop_render ps _ (by have := renderQuery_length ps; omega) hnz

end Qlibc.Encode

namespace Qlibc.Encode
open Qlibc

/-! ### totality of `qparse_queries` on arbitrary NUL-free input (C17) -/

theorem makeword_mem (q : Bytes) (stop : UInt8) :
    (∀ d ∈ (makeword q stop).1, d ∈ q) ∧ (∀ d ∈ (makeword q stop).2, d ∈ q) := by
  constructor
  · intro d hd; exact (List.takeWhile_sublist _).mem hd
  · intro d hd
    simp only [makeword] at hd
    exact List.mem_of_mem_drop (List.mem_of_mem_drop hd)

theorem makeword_shrinks (q : Bytes) (stop : UInt8) (hq : q ≠ []) :
    (makeword q stop).2.length < q.length := by
  have : 0 < q.length := by cases q <;> simp_all
  simp only [makeword, List.length_drop]
  omega

theorem trim_mem (s : Bytes) : ∀ d ∈ Str.trim s, d ∈ s := by
  intro d hd
  unfold Str.trim Str.trimTail Str.trimHead at hd
  have h1 := List.mem_reverse.mp hd
  have h2 := (List.dropWhile_sublist _).mem h1
  have h3 := List.mem_reverse.mp h2
  exact (List.dropWhile_sublist _).mem h3

theorem parseQueriesLoop_total : ∀ (fuel : Nat) (q : Bytes) (eq sep : UInt8),
    q.length < fuel → (∀ d ∈ q, d ≠ 0) → ∃ ps, parseQueriesLoop fuel q eq sep = .ok ps := by
  intro fuel
  induction fuel with
  | zero => intro q _ _ h; omega
  | succ f ih =>
    intro q eq sep hf hnz
    by_cases hq : q = []
    · exact ⟨[], by simp [parseQueriesLoop, hq]⟩
    · have hm := makeword_mem q sep
      have hsh := makeword_shrinks q sep hq
      rcases hmk : makeword q sep with ⟨w, r⟩
      rw [hmk] at hm hsh
      have hm2 := makeword_mem w eq
      rcases hmk2 : makeword w eq with ⟨nm, vl⟩
      rw [hmk2] at hm2
      have hname : ∀ d ∈ Str.trim nm, d ≠ 0 :=
        fun d hd => hnz d (hm.1 d (hm2.1 d (trim_mem _ d hd)))
      have hval : ∀ d ∈ vl, d ≠ 0 := fun d hd => hnz d (hm.1 d (hm2.2 d hd))
      obtain ⟨s1, h1⟩ := urlDecodeRaw_spec _ hname
      obtain ⟨s2, h2⟩ := urlDecodeRaw_spec _ hval
      obtain ⟨ps, hps⟩ := ih r eq sep (by simp at hsh; omega) (fun d hd => hnz d (hm.2 d hd))
      apply Exists.intro
      simp only [parseQueriesLoop, hq, if_false, hmk, hmk2, h1, h2, hps, bind, Except.bind, pure, Except.pure]
      rfl

theorem parseQueries_total (q : Bytes) (eq sep : UInt8) (hnz : ∀ d ∈ q, d ≠ 0) :
    ∃ ps, parseQueries q eq sep = .ok ps :=
  parseQueriesLoop_total _ q eq sep (by omega) hnz

end Qlibc.Encode

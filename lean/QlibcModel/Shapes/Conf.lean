/-
  Shape obligations (conf): facts about the CURRENT headers and sources, regenerated on every run by
  translator/shapes.py, that the models take for granted and that no history of practical size shows:
  qaconf: the line counter is an int, the nesting level one byte (bounded by the parser), section ids 64 bits.
  The formatting macro DYNAMIC_VSPRINTF (error messages, `section.key` names) is the 1024-doubling loop of the model.
  A changed width or a new function-local mutable static breaks the `decide` below; the check of the
  family then reports the property as no longer shown (and searches for a failing input with its
  huge-size / concurrent-caller streams).
-/
import QlibcModel.Generated.Shapes

namespace Qlibc.Shapes.Conf
open Qlibc.Generated.Shapes

/-- the struct fields are as wide as the model assumes -/
theorem widths_as_modelled : confWidths = [("aconf_lineno", 4), ("cbdata_level", 1), ("cbdata_section", 8), ("cbdata_argc", 4), ("option_take", 4), ("option_sectionid", 8)] := by decide

/-- no function of this family keeps state in a function-local static object: results depend on the
    arguments (and the container) only, also when several threads are inside at once -/
theorem no_hidden_static_state : confStatics = [] := by decide

/-- the formatting macro DYNAMIC_VSPRINTF behind qaconf's error message (`_seterrmsg`) and qconfig's `section.key` names (`qstrdupf`) is the loop the model
    `Str.dynVsprintf` transcribes: a first block of 1024 bytes, doubled until `vsnprintf` reports a length
    below the block size (so the text fits WITH its terminator, for every length - Props: fmt_total /
    dupf_eq). The third part pins the whole macro text: any rewrite (another start size, sizing the
    retry from the reported length, another exit test) has to be transcribed into the model first. -/
theorem fmt_macro_as_modelled : fmtInitSize = 1024 ∧ fmtGrowFactor = 2 ∧
    fmtMacroText = "(s, f) do { size_t _strsize; for (_strsize = 1024; ; _strsize *= 2) { s = (char*)malloc(_strsize); if (s == NULL) { DEBUG(\"DYNAMIC_VSPRINTF(): can't allocate memory.\"); break; } va_list _arglist; va_start(_arglist, f); int _n = vsnprintf(s, _strsize, f, _arglist); va_end(_arglist); if (_n >= 0 && _n < _strsize) break; free(s); } } while(0)" :=
  ⟨by decide, by decide, rfl⟩

/-- the assert() calls of this family, as reviewed: comparisons of fields only - nothing is lost when the
    release build (-DNDEBUG) drops them; a new or changed assert() has to be reviewed here -/
theorem asserts_side_effect_free : confAsserts = [] := by decide

end Qlibc.Shapes.Conf

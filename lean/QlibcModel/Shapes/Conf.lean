/-
  Shape obligations (conf): facts about the CURRENT headers and sources, regenerated on every run by
  translator/shapes.py, that the models take for granted and that no history of practical size shows:
  qaconf: the line counter is an int, the nesting level one byte (bounded by the parser), section ids 64 bits.
  A changed width or a new function-local mutable static breaks the `decide` below; the check of the
  family then reports the property as no longer shown (and searches for a failing input with its
  huge-size / concurrent-caller streams).
-/
import QlibcModel.Generated.Shapes

namespace Qlibc.Shapes.Conf
open Qlibc.Generated.Shapes

/-- the struct fields are as wide as the model assumes -/
theorem widths_as_modelled : confWidths = [("aconf_lineno", 4), ("cbdata_level", 1), ("cbdata_section", 8), ("cbdata_argc", 4), ("option_take", 4), ("option_sectionid", 8)] := by decide

/-- no function of this family keeps state in a function-local static object: results depend on the
    arguments (and the container) only, also when several threads are inside at once -/
theorem no_hidden_static_state : confStatics = [] := by decide

end Qlibc.Shapes.Conf

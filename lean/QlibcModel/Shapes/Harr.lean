/-
  Shape obligations (harr): facts about the CURRENT headers and sources, regenerated on every run by
  translator/shapes.py, that the models take for granted and that no history of practical size shows:
  qhasharr: slot.count is a short, slot.hash and slot.link are 32 bits, datasize one byte, the header counters are ints.
  A changed width or a new function-local mutable static breaks the `decide` below; the check of the
  family then reports the property as no longer shown (and searches for a failing input with its
  huge-size / concurrent-caller streams).
-/
import QlibcModel.Generated.Shapes

namespace Qlibc.Shapes.Harr
open Qlibc.Generated.Shapes

/-- the struct fields are as wide as the model assumes -/
theorem widths_as_modelled : harrWidths = [("slot_count", 2), ("slot_hash", 4), ("slot_datasize", 1), ("slot_link", 4), ("pair_namesize", 2), ("hdr_maxslots", 4), ("hdr_usedslots", 4), ("hdr_num", 4)] := by decide

/-- no function of this family keeps state in a function-local static object: results depend on the
    arguments (and the container) only, also when several threads are inside at once -/
theorem no_hidden_static_state : harrStatics = [] := by decide

end Qlibc.Shapes.Harr

/-
  Shape obligations (harr): facts about the CURRENT headers and sources, regenerated on every run by
  translator/shapes.py, that the models take for granted and that no history of practical size shows:
  qhasharr: slot.count is a short, slot.hash and slot.link are 32 bits, datasize one byte, the header counters are ints.
  A changed width or a new function-local mutable static breaks the `decide` below; the check of the
  family then reports the property as no longer shown (and searches for a failing input with its
  huge-size / concurrent-caller streams).
-/
import QlibcModel.Generated.Shapes
import QlibcModel.Generated.HarrLayout

namespace Qlibc.Shapes.Harr
open Qlibc.Generated.Shapes

/-- the struct fields are as wide as the model assumes -/
theorem widths_as_modelled : harrWidths = [("slot_count", 2), ("slot_hash", 4), ("slot_datasize", 1), ("slot_link", 4), ("pair_namesize", 2), ("hdr_maxslots", 4), ("hdr_usedslots", 4), ("hdr_num", 4)] := by decide

/-- no function of this family keeps state in a function-local static object: results depend on the
    arguments (and the container) only, also when several threads are inside at once -/
theorem no_hidden_static_state : harrStatics = [] := by decide

/-- **truncated keys are told apart by the WHOLE digest**: every `memcmp` of `get_idx()` that involves an
    MD5 operand compares, and every `memcpy` of `put_data()` that involves one stores, exactly the
    `sizeof(pair.namemd5)` = 16 bytes of the stored digest (byte counts as the compiler evaluates them in the
    CURRENT source - a `sizeof` of a pointer or a shorter literal shows up here), and the name comparison
    of a key longer than the inline name covers the whole inline name: the model's `getIdx`, which
    compares `md5` and the `nameSize`-byte prefix as lists, is the code's comparison -/
theorem digest_compared_whole :
    Qlibc.Generated.HarrLayout.digestCmpBytes = [Qlibc.Generated.HarrLayout.sizeofPairMd5] ∧
    Qlibc.Generated.HarrLayout.digestCopyBytes = [Qlibc.Generated.HarrLayout.sizeofPairMd5] ∧
    Qlibc.Generated.HarrLayout.sizeofPairMd5 = 16 ∧
    Qlibc.Generated.HarrLayout.longNameCmpBytes = [Qlibc.Generated.HarrLayout.nameSize] := by decide

/-- the assert() calls of this family, as reviewed: comparisons of fields only - nothing is lost when the
    release build (-DNDEBUG) drops them; a new or changed assert() has to be reviewed here -/
theorem asserts_side_effect_free : harrAsserts = [("qhasharr.c", "tblslots[idx].count == 0"), ("qhasharr.c", "tblslots[idx].count != 0"), ("qhasharr.c", "tblslots[idx].count != 0")] := by decide

end Qlibc.Shapes.Harr

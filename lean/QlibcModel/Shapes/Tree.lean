/-
  Shape obligations (tree): facts about the CURRENT headers and sources, regenerated on every run by
  translator/shapes.py, that the models take for granted and that no history of practical size shows:
  qtreetbl: key/value sizes and the key count are size_t (the model's naturals are exact below 2^64), the traversal epoch of table and node is one byte (the model's UInt8).
  A changed width or a new function-local mutable static breaks the `decide` below; the check of the
  family then reports the property as no longer shown (and searches for a failing input with its
  huge-size / concurrent-caller streams).
-/
import QlibcModel.Generated.Shapes

namespace Qlibc.Shapes.Tree
open Qlibc.Generated.Shapes

/-- the struct fields are as wide as the model assumes -/
theorem widths_as_modelled : treeWidths = [("obj_namesize", 8), ("obj_datasize", 8), ("obj_tid", 1), ("tbl_tid", 1), ("tbl_num", 8)] := by decide

/-- the only writable static storage of this family are three operation counters (statistics: written,
    never read by any operation): results depend on the arguments and the container only, also when
    several threads are inside at once -/
theorem no_hidden_static_state : treeStatics =
    [("qtreetbl.c", "_q_treetbl_flip_color_cnt"), ("qtreetbl.c", "_q_treetbl_rotate_left_cnt"),
     ("qtreetbl.c", "_q_treetbl_rotate_right_cnt")] := by decide

/-- the assert() calls of this family, as reviewed: comparisons of fields only - nothing is lost when the
    release build (-DNDEBUG) drops them; a new or changed assert() has to be reviewed here -/
theorem asserts_side_effect_free : treeAsserts = [("qtreetbl.c", "tbl->qmutex == NULL"), ("qtreetbl.c", "minobj != NULL")] := by decide

end Qlibc.Shapes.Tree

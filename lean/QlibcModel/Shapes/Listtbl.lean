/-
  Shape obligations (listtbl): facts about the CURRENT headers and sources, regenerated on every run by
  translator/shapes.py, that the models take for granted and that no history of practical size shows:
  qlisttbl: value size (node and getmulti result element) and entry count are size_t, the stored hash is 32 bits.
  A changed width or a new function-local mutable static breaks the `decide` below; the check of the
  family then reports the property as no longer shown (and searches for a failing input with its
  huge-size / concurrent-caller streams).
-/
import QlibcModel.Generated.Shapes

namespace Qlibc.Shapes.Listtbl
open Qlibc.Generated.Shapes

/-- the struct fields are as wide as the model assumes -/
theorem widths_as_modelled : listtblWidths = [("obj_hash", 4), ("obj_size", 8), ("tbl_num", 8), ("data_size", 8)] := by decide

/-- no function of this family keeps state in a function-local static object: results depend on the
    arguments (and the container) only, also when several threads are inside at once -/
theorem no_hidden_static_state : listtblStatics = [] := by decide

/-- the assert() calls of this family, as reviewed: comparisons of fields only - nothing is lost when the
    release build (-DNDEBUG) drops them; a new or changed assert() has to be reviewed here -/
theorem asserts_side_effect_free : listtblAsserts = [] := by decide

end Qlibc.Shapes.Listtbl

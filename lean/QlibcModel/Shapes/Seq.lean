/-
  Shape obligations (seq): facts about the CURRENT headers and sources, regenerated on every run by
  translator/shapes.py, that the models take for granted and that no history of practical size shows:
  qlist / qvector: element size, counts, limit, byte total, capacity and element size are size_t; the vector cursor index is an int.
  A changed width or a new function-local mutable static breaks the `decide` below; the check of the
  family then reports the property as no longer shown (and searches for a failing input with its
  huge-size / concurrent-caller streams).
-/
import QlibcModel.Generated.Shapes

namespace Qlibc.Shapes.Seq
open Qlibc.Generated.Shapes

/-- the struct fields are as wide as the model assumes -/
theorem widths_as_modelled : seqWidths = [("list_obj_size", 8), ("list_num", 8), ("list_max", 8), ("list_datasum", 8), ("vector_num", 8), ("vector_max", 8), ("vector_objsize", 8), ("vector_initnum", 8), ("vector_obj_index", 4)] := by decide

/-- no function of this family keeps state in a function-local static object: results depend on the
    arguments (and the container) only, also when several threads are inside at once -/
theorem no_hidden_static_state : seqStatics = [] := by decide

/-- the assert() calls of this family, as reviewed: comparisons of fields only - nothing is lost when the
    release build (-DNDEBUG) drops them; a new or changed assert() has to be reviewed here -/
theorem asserts_side_effect_free : seqAsserts = [] := by decide

end Qlibc.Shapes.Seq

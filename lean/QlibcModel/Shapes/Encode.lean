/-
  Shape obligations (encode): facts about the CURRENT headers and sources, regenerated on every run by
  translator/shapes.py, that the models take for granted and that no history of practical size shows:
  qencode / qinternal: no hidden state.
  A changed width or a new function-local mutable static breaks the `decide` below; the check of the
  family then reports the property as no longer shown (and searches for a failing input with its
  huge-size / concurrent-caller streams).
-/
import QlibcModel.Generated.Shapes

namespace Qlibc.Shapes.Encode
open Qlibc.Generated.Shapes

/-- no function of this family keeps state in a function-local static object: results depend on the
    arguments (and the container) only, also when several threads are inside at once -/
theorem no_hidden_static_state : encodeStatics = [] := by decide

/-- the assert() calls of this family, as reviewed: comparisons of fields only - nothing is lost when the
    release build (-DNDEBUG) drops them; a new or changed assert() has to be reviewed here -/
theorem asserts_side_effect_free : encodeAsserts = [] := by decide

end Qlibc.Shapes.Encode

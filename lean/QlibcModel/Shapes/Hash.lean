/-
  Shape obligations (hash): facts about the CURRENT headers and sources, regenerated on every run by
  translator/shapes.py, that the models take for granted and that no history of practical size shows:
  qhash / md5c: no hidden state.
  A changed width or a new function-local mutable static breaks the `decide` below; the check of the
  family then reports the property as no longer shown (and searches for a failing input with its
  huge-size / concurrent-caller streams).
-/
import QlibcModel.Generated.Shapes

namespace Qlibc.Shapes.Hash
open Qlibc.Generated.Shapes

/-- the only writable static storage of this family is MD5's PADDING table (declared without `const`,
    never written): results depend on the arguments only, also when several threads are inside at once -/
theorem no_hidden_static_state : hashStatics = [("md5c.c", "PADDING")] := by decide

/-- the assert() calls of this family, as reviewed: comparisons of fields only - nothing is lost when the
    release build (-DNDEBUG) drops them; a new or changed assert() has to be reviewed here -/
theorem asserts_side_effect_free : hashAsserts = [] := by decide

end Qlibc.Shapes.Hash

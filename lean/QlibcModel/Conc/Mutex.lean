/- Transcription of the Q_MUTEX_ENTER / Q_MUTEX_LEAVE macros of src/internal/qinternal.h over a model of
   a recursive pthread mutex.  Used by Props/C14 (`enter_leave_model`): the macros are the `lock` /
   `unlock` primitives of the skeletons and change the caller's depth by +1 / −1; with
   `qmutex = NULL` (container created without the thread-safe option) they do nothing. -/
namespace Qlibc.Conc

/-- `qmutex_t`: a recursive pthread mutex (owner thread, recursion depth) + the diagnostic fields
    `owner` and `count` maintained by the macros -/
structure QMutex where
  holder : Option Nat     -- thread that owns the pthread mutex
  depth : Nat             -- its recursion depth (0 ⇔ holder = none)
  qowner : Nat            -- qmutex_t.owner
  count : Int             -- qmutex_t.count
  deriving Repr, DecidableEq

/-- depth at which thread `t` holds the mutex -/
def QMutex.depthOf (m : QMutex) (t : Nat) : Nat := if m.holder = some t then m.depth else 0

/-- `pthread_mutex_trylock` of a recursive mutex by thread `t`: succeeds (returns 0) iff the mutex is
    free or already owned by `t` -/
def trylock (t : Nat) (m : QMutex) : Bool × QMutex :=
  match m.holder with
  | none => (true, { m with holder := some t, depth := 1 })
  | some u => if u = t then (true, { m with depth := m.depth + 1 }) else (false, m)

/-- `pthread_mutex_unlock` of a recursive mutex by thread `t`: EPERM (no effect) unless `t` owns it -/
def punlock (t : Nat) (m : QMutex) : QMutex :=
  if m.holder = some t then
    (if m.depth ≤ 1 then { m with holder := none, depth := 0 } else { m with depth := m.depth - 1 })
  else m

/-- `Q_MUTEX_LEAVE(m)`:  if (m == NULL) break;  if ((count--) < 0) count = 0;  pthread_mutex_unlock -/
def leave (t : Nat) : Option QMutex → Option QMutex
  | none => none
  | some m =>
    let m1 := { m with count := if m.count < 0 then 0 else m.count - 1 }
    some (punlock t m1)

/-- the `for (i = 0; (_ret = trylock) != 0 && i < MAX; i++) usleep(1);` loop with `k = MAX − i` -/
def spin (t : Nat) (m : QMutex) : Nat → Bool × QMutex
  | 0 => trylock t m
  | k + 1 => match trylock t m with
    | (true, m') => (true, m')
    | (false, m') => spin t m' k

/-- `Q_MUTEX_ENTER(m)` run alone (no other thread moves): `while (true) { spin; if (_ret == 0) break;
    Q_MUTEX_LEAVE(m); }  count++; owner = self;`.  `none` = still spinning after `fuel` rounds. -/
def enterM (maxWait : Nat) (t : Nat) (m : QMutex) : Nat → Option QMutex
  | 0 => none
  | fuel + 1 =>
    match spin t m maxWait with
    | (true, m') => some { m' with count := m'.count + 1, qowner := t }
    | (false, m') => match leave t (some m') with
      | some m'' => enterM maxWait t m'' fuel
      | none => none

def enter (maxWait : Nat) (t : Nat) (fuel : Nat) : Option QMutex → Option (Option QMutex)
  | none => some none                       -- if (m == NULL) break;
  | some m => (enterM maxWait t m fuel).map some

def Available (m : QMutex) (t : Nat) : Prop := m.holder = none ∧ m.depth = 0 ∨ m.holder = some t

theorem trylock_available {m : QMutex} {t : Nat} (h : Available m t) :
    (trylock t m).1 = true ∧ (trylock t m).2.depthOf t = m.depthOf t + 1 ∧
    (trylock t m).2.holder = some t ∧ (trylock t m).2.count = m.count := by
  rcases h with ⟨h, hd⟩ | h <;> simp [trylock, h, QMutex.depthOf]

theorem trylock_other {m : QMutex} {t u : Nat} (h : m.holder = some u) (hne : u ≠ t) :
    trylock t m = (false, m) := by
  simp [trylock, h, hne]

theorem spin_available {m : QMutex} {t : Nat} (h : Available m t) (k : Nat) :
    spin t m k = (true, (trylock t m).2) := by
  have := (trylock_available h).1
  cases k with
  | zero => simp only [spin]; exact Prod.ext this rfl
  | succ k =>
    simp only [spin]
    generalize hq : trylock t m = q at this
    obtain ⟨b, m'⟩ := q
    simp at this; subst this; rfl

theorem spin_other {m : QMutex} {t u : Nat} (h : m.holder = some u) (hne : u ≠ t) (k : Nat) :
    spin t m k = (false, m) := by
  induction k with
  | zero => simp [spin, trylock_other h hne]
  | succ k ih => simp [spin, trylock_other h hne, ih]

/-- ENTER on an available mutex returns after the first `trylock`, one level deeper, owner = caller -/
theorem enterM_available {m : QMutex} {t : Nat} (h : Available m t) (maxWait fuel : Nat) :
    ∃ m', enterM maxWait t m (fuel + 1) = some m' ∧ m'.depthOf t = m.depthOf t + 1 ∧
      m'.holder = some t ∧ m'.count = m.count + 1 ∧ m'.qowner = t := by
  obtain ⟨_, hd, hh, hc⟩ := trylock_available h
  refine ⟨{ (trylock t m).2 with count := (trylock t m).2.count + 1, qowner := t }, ?_, ?_, hh, ?_, rfl⟩
  · simp [enterM, spin_available h]
  · simpa [QMutex.depthOf] using hd
  · simp [hc]

/-- LEAVE by the owner: one level up; the mutex is released exactly when the depth reaches 0 -/
theorem leave_owner {m : QMutex} {t : Nat} (h : m.holder = some t) (hd : 1 ≤ m.depth) :
    ∃ m', leave t (some m) = some m' ∧ m'.depthOf t + 1 = m.depthOf t ∧
      (m.depth = 1 → m'.holder = none) ∧ (1 < m.depth → m'.holder = some t) := by
  refine ⟨_, rfl, ?_, ?_, ?_⟩
  · simp only [punlock, h, if_true, QMutex.depthOf]
    by_cases h1 : m.depth ≤ 1
    · simp [h1]; omega
    · simp [h1]; omega
  · intro h1; simp [punlock, h, h1]
  · intro h1
    have : ¬ m.depth ≤ 1 := by omega
    simp [punlock, h, this]

/-- while another thread owns the mutex, ENTER never acquires it and never changes the pthread
    state (the "forced unlock" is an EPERM no-op on a recursive mutex); it only decrements the
    diagnostic counter -/
theorem enterM_other {t u : Nat} (hne : u ≠ t) (maxWait : Nat) :
    ∀ (fuel : Nat) (m : QMutex), m.holder = some u → enterM maxWait t m fuel = none := by
  intro fuel
  induction fuel with
  | zero => intro m _; rfl
  | succ f ih =>
    intro m h
    simp only [enterM, spin_other h hne, leave]
    apply ih
    simp [punlock, h, hne]

/-! ### The source text this file transcribes

`transcribedMacros` is the token-level text of the macros of src/internal/qinternal.h that the
definitions above were transcribed from (white space and comments removed, `DEBUG(...)` collapsed):

* `Q_MUTEX_LEAVE`  ↦ `leave`:  `if (m == NULL) break;` ↦ the `none` case; the owner-mismatch `if` only
  logs; `if ((count--) < 0) count = 0;` ↦ `count := if count < 0 then 0 else count - 1`;
  `pthread_mutex_unlock` ↦ `punlock` (unconditional);
* `Q_MUTEX_ENTER`  ↦ `enter`/`enterM`/`spin`: `while (true) { for (i = 0; (_ret = trylock) != 0 && i <
  MAX_MUTEX_LOCK_WAIT; i++) usleep(1); if (_ret == 0) break; Q_MUTEX_LEAVE(m); }` ↦ `enterM` (outer
  loop, unbounded: `fuel` only bounds the model's evaluation) around `spin` (inner loop, `maxWait`);
  `count++; owner = pthread_self();` ↦ the `some { m' with count := m'.count + 1, qowner := t }` result;
* `Q_MUTEX_NEW`, `Q_MUTEX_DESTROY`, `MAX_MUTEX_LOCK_WAIT` are recorded so that a change to them is
  noticed as well (DESTROY repeats LEAVE until `pthread_mutex_destroy` succeeds).

The translator translator/mutexmacros.py regenerates the same token lists from the CURRENT source as
`Generated.mutexMacros`; Props/C13 and Props/C14 carry the obligation
`macro_skeleton_as_modelled : Generated.mutexMacros = transcribedMacros`.  When the macros change, that
proof breaks; update the model above first, then this text. -/
def transcribedMacros : List (String × List String) := [
  ("MAX_MUTEX_LOCK_WAIT", [
    "(", "5000", ")"]),
  ("Q_MUTEX_NEW(m,r)", [
    "do", "{", "qmutex_t", "*", "x", "=", "(", "qmutex_t", "*", ")", "calloc", "(", "1", ",", "sizeof", "(",
    "qmutex_t", ")", ")", ";", "if", "(", "x", "==", "NULL", ")", "{", "m", "=", "NULL", ";", "break", ";",
    "}", "pthread_mutexattr_t", "_mutexattr", ";", "pthread_mutexattr_init", "(", "&", "_mutexattr", ")",
    ";", "if", "(", "r", "==", "true", ")", "{", "pthread_mutexattr_settype", "(", "&", "_mutexattr", ",",
    "PTHREAD_MUTEX_RECURSIVE", ")", ";", "}", "int", "_ret", "=", "pthread_mutex_init", "(", "&", "(", "x",
    "->", "mutex", ")", ",", "&", "_mutexattr", ")", ";", "pthread_mutexattr_destroy", "(", "&",
    "_mutexattr", ")", ";", "if", "(", "_ret", "==", "0", ")", "{", "m", "=", "x", ";", "}", "else", "{",
    "DEBUG(..)", ";", "free", "(", "x", ")", ";", "m", "=", "NULL", ";", "}", "}", "while", "(", "0", ")"]),
  ("Q_MUTEX_LEAVE(m)", [
    "do", "{", "if", "(", "m", "==", "NULL", ")", "break", ";", "if", "(", "!", "pthread_equal", "(", "(",
    "(", "qmutex_t", "*", ")", "m", ")", "->", "owner", ",", "pthread_self", "(", ")", ")", ")", "{",
    "DEBUG(..)", ";", "}", "if", "(", "(", "(", "(", "qmutex_t", "*", ")", "m", ")", "->", "count", "--",
    ")", "<", "0", ")", "(", "(", "qmutex_t", "*", ")", "m", ")", "->", "count", "=", "0", ";",
    "pthread_mutex_unlock", "(", "&", "(", "(", "(", "qmutex_t", "*", ")", "m", ")", "->", "mutex", ")", ")",
    ";", "}", "while", "(", "0", ")"]),
  ("Q_MUTEX_ENTER(m)", [
    "do", "{", "if", "(", "m", "==", "NULL", ")", "break", ";", "while", "(", "true", ")", "{", "int",
    "_ret", ",", "i", ";", "for", "(", "i", "=", "0", ";", "(", "_ret", "=", "pthread_mutex_trylock", "(",
    "&", "(", "(", "(", "qmutex_t", "*", ")", "m", ")", "->", "mutex", ")", ")", ")", "!=", "0", "&&", "i",
    "<", "MAX_MUTEX_LOCK_WAIT", ";", "i", "++", ")", "{", "if", "(", "i", "==", "0", ")", "{", "DEBUG(..)",
    ";", "}", "usleep", "(", "1", ")", ";", "}", "if", "(", "_ret", "==", "0", ")", "break", ";",
    "DEBUG(..)", ";", "Q_MUTEX_LEAVE", "(", "m", ")", ";", "}", "(", "(", "qmutex_t", "*", ")", "m", ")",
    "->", "count", "++", ";", "(", "(", "qmutex_t", "*", ")", "m", ")", "->", "owner", "=", "pthread_self",
    "(", ")", ";", "}", "while", "(", "0", ")"]),
  ("Q_MUTEX_DESTROY(m)", [
    "do", "{", "if", "(", "m", "==", "NULL", ")", "break", ";", "if", "(", "(", "(", "qmutex_t", "*", ")",
    "m", ")", "->", "count", "!=", "0", ")", "DEBUG(..)", ";", "int", "_ret", ";", "while", "(", "(", "_ret",
    "=", "pthread_mutex_destroy", "(", "&", "(", "(", "(", "qmutex_t", "*", ")", "m", ")", "->", "mutex",
    ")", ")", ")", "!=", "0", ")", "{", "DEBUG(..)", ";", "Q_MUTEX_LEAVE", "(", "m", ")", ";", "}", "free",
    "(", "m", ")", ";", "}", "while", "(", "0", ")"])]

end Qlibc.Conc

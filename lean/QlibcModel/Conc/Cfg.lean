/- Lock skeletons: control-flow graphs whose nodes carry one event, the Boolean certificate checks
   `balancedCfg` / `wellLockedCfg`, and their soundness for ALL paths (induction over paths).
   Core Lean only (the driver links this module). -/
namespace Qlibc.Conc

/-- the event carried by a node of a lock skeleton.  Fields and callees are numbered by the
    translator (`Generated.fieldNames`, `Generated.calleeNames`). -/
inductive Ev where
  | nop
  | lock
  | unlock
  | ret
  | alloc
  | access (f : Nat)
  | write (f : Nat)
  | call (g : Nat)
  deriving DecidableEq, Repr, Inhabited

/-- a node: its event, the certificate's depth label (lock depth BEFORE the event), the successor
    node numbers, the source line (documentation only) -/
structure Node where
  ev : Ev
  depth : Nat
  succ : List Nat
  line : Nat
  deriving Repr, Inhabited

/-- node 0 is the entry -/
structure Cfg where
  nodes : List Node
  deriving Repr, Inhabited

/-- effect of an event on the lock depth -/
def Ev.delta : Ev → Int
  | .lock => 1
  | .unlock => -1
  | _ => 0

/-- #lock − #unlock of an event sequence -/
def delta : List Ev → Int
  | [] => 0
  | e :: es => e.delta + delta es

theorem delta_eq_count (es : List Ev) : delta es = (es.count Ev.lock : Int) - (es.count Ev.unlock : Int) := by
  induction es with
  | nil => simp [delta]
  | cons e es ih =>
    cases e <;> simp [delta, Ev.delta, ih] <;> omega

/-- depth after the node's event; `none` = an unlock at depth 0 (the depth would become negative) -/
def Node.after (n : Node) : Option Nat :=
  match n.ev with
  | .lock => some (n.depth + 1)
  | .unlock => if n.depth = 0 then none else some (n.depth - 1)
  | _ => some n.depth

def depthAt (c : Cfg) (i : Nat) : Option Nat := (c.nodes[i]?).map (·.depth)

def isRet : Ev → Bool
  | .ret => true
  | _ => false

/-- consistency of one edge `i → j` with the labelling: the target carries depth `d`.  `next` is the
    label of the node that follows `i` in the list, so that fall-through edges (`j = i+1`, the common
    case in the translator's depth-first numbering) need no table lookup. -/
def edgeOk (c : Cfg) (next : Option Nat) (i d j : Nat) : Bool :=
  (j == i + 1 && next == some d) || depthAt c j == some d

/-- local consistency of the labelling at node `n` (number `i`) -/
def nodeOk (c : Cfg) (next : Option Nat) (i : Nat) (n : Node) : Bool :=
  match n.after with
  | none => false
  | some d => (n.succ.all (edgeOk c next i d)) && (!isRet n.ev || n.depth == 0)

def checkFrom (c : Cfg) : List Node → Nat → Bool
  | [], _ => true
  | n :: rest, i => nodeOk c (rest.head?.map (·.depth)) i n && checkFrom c rest (i + 1)

/-- certificate check: depth(entry) = 0, every edge consistent with the event of its source, every
    `ret` node at depth 0, never negative -/
def balancedCfg (c : Cfg) : Bool :=
  depthAt c 0 == some 0 && checkFrom c c.nodes 0

/-- `Path c i es k`: starting at node `i` and executing the events `es` of the nodes visited
    (`i` included, `k` excluded) control reaches node `k` along edges of `c` -/
inductive Path (c : Cfg) : Nat → List Ev → Nat → Prop
  | nil (i : Nat) : Path c i [] i
  | step {i j k : Nat} {n : Node} {es : List Ev} :
      c.nodes[i]? = some n → j ∈ n.succ → Path c j es k → Path c i (n.ev :: es) k

theorem after_delta {n : Node} {d : Nat} (h : n.after = some d) : (n.depth : Int) + n.ev.delta = d := by
  unfold Node.after at h
  cases hev : n.ev <;> simp [hev] at h <;> simp [Ev.delta] <;> omega

/-- what the Boolean check establishes for a node, as a proposition -/
def NodeGood (c : Cfg) (n : Node) : Prop :=
  ∃ d, n.after = some d ∧ (∀ j ∈ n.succ, depthAt c j = some d) ∧ (n.ev = .ret → n.depth = 0)

theorem checkFrom_good (c : Cfg) : ∀ (l : List Node) (i : Nat), checkFrom c l i = true →
    (∀ k : Nat, depthAt c (i + k) = (l[k]?).map (·.depth)) →
    ∀ (k : Nat) (n : Node), l[k]? = some n → NodeGood c n := by
  intro l
  induction l with
  | nil => intro i _ _ k n h; simp at h
  | cons m rest ih =>
    intro i hc hidx k n hk
    simp only [checkFrom, Bool.and_eq_true] at hc
    cases k with
    | succ k =>
      refine ih (i + 1) hc.2 (fun k' => ?_) k n (by simpa using hk)
      have := hidx (k' + 1)
      simpa [Nat.add_assoc, Nat.add_comm 1 k'] using this
    | zero =>
      have hm : m = n := by simpa using hk
      subst hm
      have hok := hc.1
      unfold nodeOk at hok
      cases ha : m.after with
      | none => simp [ha] at hok
      | some d =>
        simp only [ha, Bool.and_eq_true, List.all_eq_true] at hok
        refine ⟨d, ha, ?_, ?_⟩
        · intro j hj
          have he := hok.1 j hj
          simp only [edgeOk, Bool.or_eq_true, Bool.and_eq_true, beq_iff_eq] at he
          rcases he with ⟨hj1, hn⟩ | he
          · have h1 := hidx 1
            rw [hj1, h1]
            cases rest with
            | nil => simp at hn
            | cons r rs => simpa using hn
          · exact he
        · intro hr
          have := hok.2
          simpa [hr, isRet] using this

theorem balanced_nodeGood {c : Cfg} (hb : balancedCfg c = true) {k : Nat} {n : Node}
    (hk : c.nodes[k]? = some n) : NodeGood c n := by
  simp only [balancedCfg, Bool.and_eq_true] at hb
  exact checkFrom_good c c.nodes 0 hb.2 (fun k' => by simp [depthAt]) k n hk

/-- the labelling is an invariant of every path: label(i) + (#lock − #unlock) = label(k) -/
theorem path_depth {c : Cfg} (hb : balancedCfg c = true) {i k : Nat} {es : List Ev}
    (p : Path c i es k) : ∀ d, depthAt c i = some d → ∃ d', depthAt c k = some d' ∧ (d : Int) + delta es = d' := by
  induction p with
  | nil i => intro d hd; exact ⟨d, hd, by simp [delta]⟩
  | @step i j k n es hn hj _ ih =>
    intro d hd
    obtain ⟨d2, ha, hs, _⟩ := balanced_nodeGood hb hn
    have hdn : d = n.depth := by simp [depthAt, hn] at hd; omega
    obtain ⟨d', hk, he⟩ := ih d2 (hs j hj)
    refine ⟨d', hk, ?_⟩
    have := after_delta ha
    simp only [delta]; omega

/-- **C14 soundness.**  If the certificate check succeeds then on EVERY path from the entry to a
    `ret` node the number of lock events equals the number of unlock events. -/
theorem balancedCfg_sound {c : Cfg} (hb : balancedCfg c = true) {k : Nat} {es : List Ev} {n : Node}
    (p : Path c 0 es k) (hk : c.nodes[k]? = some n) (hr : n.ev = .ret) : delta es = 0 := by
  have h0 : depthAt c 0 = some 0 := by
    simp only [balancedCfg, Bool.and_eq_true] at hb; simpa using hb.1
  obtain ⟨d', hd', he⟩ := path_depth hb p 0 h0
  obtain ⟨_, _, _, hz⟩ := balanced_nodeGood hb hk
  have hz := hz hr
  have : d' = n.depth := by simp [depthAt, hk] at hd'; omega
  omega

/-- the same in terms of counts -/
theorem balancedCfg_sound_count {c : Cfg} (hb : balancedCfg c = true) {k : Nat} {es : List Ev} {n : Node}
    (p : Path c 0 es k) (hk : c.nodes[k]? = some n) (hr : n.ev = .ret) :
    es.count Ev.lock = es.count Ev.unlock := by
  have := balancedCfg_sound hb p hk hr
  rw [delta_eq_count] at this; omega

/-- the depth never becomes negative on any path from the entry (no unlock without a matching lock) -/
theorem balancedCfg_nonneg {c : Cfg} (hb : balancedCfg c = true) {k : Nat} {es : List Ev}
    (p : Path c 0 es k) : 0 ≤ delta es := by
  have h0 : depthAt c 0 = some 0 := by
    simp only [balancedCfg, Bool.and_eq_true] at hb; simpa using hb.1
  obtain ⟨d', _, he⟩ := path_depth hb p 0 h0
  omega

/-- does the event touch a field that needs the lock? (`exempt` = immutable fields, node fields) -/
def needsLock (exempt : List Nat) : Ev → Bool
  | .access f => !exempt.contains f
  | .write f => !exempt.contains f
  | _ => false

/-- certificate check for C13: balanced, and depth ≥ 1 at every access/write of a non-exempt field -/
def wellLockedCfg (exempt : List Nat) (c : Cfg) : Bool :=
  balancedCfg c && c.nodes.all fun n => !needsLock exempt n.ev || decide (1 ≤ n.depth)

/-- **C13 certificate soundness.**  On every path from the entry to a node that touches a mutable
    container field, the lock is held there: #lock − #unlock along the path is at least 1. -/
theorem wellLockedCfg_sound {exempt : List Nat} {c : Cfg} (hw : wellLockedCfg exempt c = true)
    {k : Nat} {es : List Ev} {n : Node} (p : Path c 0 es k) (hk : c.nodes[k]? = some n)
    (hn : needsLock exempt n.ev = true) : 1 ≤ delta es := by
  simp only [wellLockedCfg, Bool.and_eq_true, List.all_eq_true] at hw
  have hb := hw.1
  have h0 : depthAt c 0 = some 0 := by
    simp only [balancedCfg, Bool.and_eq_true] at hb; simpa using hb.1
  obtain ⟨d', hd', he⟩ := path_depth hb p 0 h0
  have hmem : n ∈ c.nodes := List.mem_of_getElem? hk
  have := hw.2 n hmem
  simp [hn] at this
  have hd : d' = n.depth := by simp [depthAt, hk] at hd'; omega
  omega

end Qlibc.Conc

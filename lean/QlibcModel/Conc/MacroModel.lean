import QlibcModel.Conc.MacroTree
/-! The Q_MUTEX_ENTER / Q_MUTEX_LEAVE macros as statement trees (the MODEL: what the theorems are
    about; `Generated.enterTree/leaveTree`, rebuilt from the current source on every run, must be
    equal to them) and their semantics: for EVERY behaviour of the other threads,
    * LEAVE makes exactly one `pthread_mutex_unlock` call and changes nothing but the mutex and its
      diagnostic counter (not errno, not the caller's locals);
    * the only way out of ENTER is a successful `pthread_mutex_trylock` by the calling thread: every
      terminating execution ends one level deeper, with exactly one successful acquisition. -/
namespace Qlibc.Conc

/-- `Q_MUTEX_LEAVE(m)` -/
def leaveModel : MStmt :=
  (.doWhile
  (.seq (.ite (.bin .eq .mptr (.lit 0)) .brk .skip)
  (.seq (.ite (.un .not (.call2 .equal (.fld .owner) (.call0 .self))) .skip .skip)
  (.seq (.ite (.bin .lt (.un .postDec (.fld .count)) (.lit 0)) (.expr (.bin .assign (.fld .count) (.lit 0))) .skip)
        (.expr (.call1 .unlock (.un .addr (.fld .mutex))))))) (.lit 0))

/-- the polling loop of `Q_MUTEX_ENTER` in NORMAL FORM (translator/mutexmacros.py: `for (init; c; step) b`
    = `init; while (c) { b; step; }`, `T x = e;` = `T x; x = e;`, sequences flattened):
    `i = 0; while ((_ret = trylock) != 0 && i < 5000) { if (i == 0) {} usleep(1); i++; }` -/
def pollCond : MExpr :=
  .bin .and (.bin .ne (.bin .assign (.var 0) (.call1 .trylock (.un .addr (.fld .mutex)))) (.lit 0))
            (.bin .lt (.var 1) (.lit 5000))
def pollStep : MStmt :=
  .seq (.ite (.bin .eq (.var 1) (.lit 0)) .skip .skip) (.seq (.expr (.call1 .usleep (.lit 1))) (.expr (.un .postInc (.var 1))))
def pollLoop : MStmt := .whileS pollCond pollStep

/-- one round of the outer `while (true)`: `int _ret, i; i = 0;` poll; `if (_ret == 0) break;` forced
    `Q_MUTEX_LEAVE(m)` -/
def roundBody : MStmt :=
  .seq (.decl 0) (.seq (.decl 1) (.seq (.expr (.bin .assign (.var 1) (.lit 0)))
    (.seq pollLoop (.seq (.ite (.bin .eq (.var 0) (.lit 0)) .brk .skip) leaveModel))))

/-- `Q_MUTEX_ENTER(m)` -/
def enterModel : MStmt :=
  .doWhile
    (.seq (.ite (.bin .eq .mptr (.lit 0)) .brk .skip)
    (.seq (.whileS (.lit 1) roundBody)
    (.seq (.expr (.un .postInc (.fld .count))) (.expr (.bin .assign (.fld .owner) (.call0 .self))))))
    (.lit 0)

/-! ### facts about the mutex model used below -/

theorem rely_depthOf {t : Nat} {m m' : QMutex} (h : Rely t m m') : m'.depthOf t = m.depthOf t := by
  obtain ⟨h1, h2⟩ := h
  unfold QMutex.depthOf
  by_cases hh : m.holder = some t
  · simp [hh, h1.2 hh, h2 hh]
  · have : ¬ m'.holder = some t := fun h' => hh (h1.1 h')
    simp [hh, this]

theorem envOk_tail {t : Nat} {f : QMutex → QMutex} {rest : List (QMutex → QMutex)} (h : EnvOk t (f :: rest)) :
    EnvOk t rest := fun g hg m => h g (List.mem_cons_of_mem _ hg) m

/-- one environment move: the mutex stays non-NULL, `t`'s holding is untouched, nothing else in the
    macro's state changes -/
theorem envStep_spec {t : Nat} {s : MSt} {m : QMutex} (hm : s.mx = some m) (he : EnvOk t s.env) :
    ∃ m1, s.envStep.mx = some m1 ∧ Rely t m m1 ∧ EnvOk t s.envStep.env ∧ s.envStep.vars = s.vars ∧
      s.envStep.errno = s.errno ∧ s.envStep.nAcq = s.nAcq ∧ s.envStep.nUnlock = s.nUnlock := by
  unfold MSt.envStep
  cases henv : s.env with
  | nil => exact ⟨m, by simp [hm], ⟨Iff.rfl, fun _ => rfl⟩, he, rfl, rfl, rfl, rfl⟩
  | cons f rest =>
    rw [henv] at he
    exact ⟨f m, by simp [hm], he f List.mem_cons_self m, envOk_tail he, rfl, rfl, rfl, rfl⟩

theorem trylock_spec (t : Nat) (m : QMutex) :
    ((trylock t m).1 = true ∧ (trylock t m).2.depthOf t = m.depthOf t + 1 ∧ (trylock t m).2.holder = some t) ∨
    ((trylock t m).1 = false ∧ (trylock t m).2 = m ∧ m.holder ≠ some t) := by
  unfold trylock
  cases hh : m.holder with
  | none => left; simp [QMutex.depthOf, hh]
  | some u =>
    by_cases hu : u = t
    · left; subst hu; simp [QMutex.depthOf, hh]
    · right; simp [hu]

theorem punlock_other {t : Nat} {m : QMutex} (h : m.holder ≠ some t) : punlock t m = m := by
  simp [punlock, h]


/-! ### a small program logic for the tree language (partial correctness, any fuel, any environment) -/

def EHoare (t : Nat) (P : MSt → Prop) (e : MExpr) (Q : Int → MSt → Prop) : Prop :=
  ∀ s v s', P s → evalE t e s = some (v, s') → Q v s'

def SHoare (t : Nat) (P : MSt → Prop) (st : MStmt) (Q : Outcome → MSt → Prop) : Prop :=
  ∀ fuel s o s', P s → exec t fuel st s = some (o, s') → Q o s'

theorem shoare_skip {t : Nat} {P : MSt → Prop} : SHoare t P .skip (fun o s => o = .normal ∧ P s) := by
  intro fuel s o s' hp h; simp [exec] at h; obtain ⟨rfl, rfl⟩ := h; exact ⟨rfl, hp⟩

theorem shoare_brk {t : Nat} {P : MSt → Prop} : SHoare t P .brk (fun o s => o = .broke ∧ P s) := by
  intro fuel s o s' hp h; simp [exec] at h; obtain ⟨rfl, rfl⟩ := h; exact ⟨rfl, hp⟩

theorem shoare_decl {t k : Nat} {P : MSt → Prop} : SHoare t P (.decl k) (fun o s => o = .normal ∧ P s) := by
  intro fuel s o s' hp h; simp [exec] at h; obtain ⟨rfl, rfl⟩ := h; exact ⟨rfl, hp⟩

theorem shoare_conseq {t : Nat} {P P' : MSt → Prop} {st : MStmt} {Q Q' : Outcome → MSt → Prop}
    (h : SHoare t P' st Q') (hp : ∀ s, P s → P' s) (hq : ∀ o s, Q' o s → Q o s) : SHoare t P st Q :=
  fun fuel s o s' p e => hq o s' (h fuel s o s' (hp s p) e)

theorem shoare_expr {t : Nat} {P : MSt → Prop} {e : MExpr} {R : Int → MSt → Prop}
    (he : EHoare t P e R) : SHoare t P (.expr e) (fun o s => o = .normal ∧ ∃ v, R v s) := by
  intro fuel s o s' hp h
  simp only [exec] at h
  cases hev : evalE t e s with
  | none => simp [hev] at h
  | some r =>
    obtain ⟨v, s1⟩ := r
    simp [hev] at h; obtain ⟨rfl, rfl⟩ := h
    exact ⟨rfl, v, he s v s1 hp hev⟩

theorem shoare_seq {t : Nat} {P : MSt → Prop} {a b : MStmt} {Qa Q : Outcome → MSt → Prop}
    (ha : SHoare t P a Qa) (hb : SHoare t (Qa .normal) b Q) (hbrk : ∀ s, Qa .broke s → Q .broke s) :
    SHoare t P (.seq a b) Q := by
  intro fuel s o s' hp h
  simp only [exec] at h
  cases hea : exec t fuel a s with
  | none => simp [hea] at h
  | some r =>
    obtain ⟨oa, s1⟩ := r
    have hq := ha fuel s oa s1 hp hea
    cases oa with
    | normal => simp [hea] at h; exact hb fuel s1 o s' hq h
    | broke => simp [hea] at h; obtain ⟨rfl, rfl⟩ := h; exact hbrk s1 hq

theorem shoare_ite {t : Nat} {P : MSt → Prop} {c : MExpr} {th el : MStmt} {R : Int → MSt → Prop}
    {Q : Outcome → MSt → Prop} (hc : EHoare t P c R)
    (hth : SHoare t (fun s => ∃ v, v ≠ 0 ∧ R v s) th Q) (hel : SHoare t (R 0) el Q) :
    SHoare t P (.ite c th el) Q := by
  intro fuel s o s' hp h
  simp only [exec] at h
  cases hev : evalE t c s with
  | none => simp [hev] at h
  | some r =>
    obtain ⟨v, s1⟩ := r
    have hr := hc s v s1 hp hev
    simp only [hev] at h
    by_cases hv : v = 0
    · subst hv; simp at h; exact hel fuel s1 o s' hr h
    · simp [hv] at h; exact hth fuel s1 o s' ⟨v, hv, hr⟩ h

/-- `do { b } while (0)`: a `break` inside ends it like normal completion -/
theorem shoare_doWhile0 {t : Nat} {P : MSt → Prop} {b : MStmt} {Qb : Outcome → MSt → Prop}
    (hb : SHoare t P b Qb) : SHoare t P (.doWhile b (.lit 0)) (fun o s => o = .normal ∧ (Qb .normal s ∨ Qb .broke s)) := by
  intro fuel s o s' hp h
  rw [exec] at h
  cases heb : exec t fuel b s with
  | none => simp [heb] at h
  | some r =>
    obtain ⟨ob, s1⟩ := r
    have hq := hb fuel s ob s1 hp heb
    cases ob with
    | normal => simp [heb, evalE] at h; obtain ⟨rfl, rfl⟩ := h; exact ⟨rfl, Or.inl hq⟩
    | broke => simp [heb] at h; obtain ⟨rfl, rfl⟩ := h; exact ⟨rfl, Or.inr hq⟩

/-- loop rule: `I` holds at every evaluation of the condition -/
theorem shoare_while {t : Nat} {I : MSt → Prop} {c : MExpr} {b : MStmt} {R : Int → MSt → Prop}
    {Qb : Outcome → MSt → Prop} {Q : MSt → Prop}
    (hc : EHoare t I c R) (hb : SHoare t (fun s => ∃ v, v ≠ 0 ∧ R v s) b Qb)
    (hnext : ∀ s, Qb .normal s → I s) (hbrk : ∀ s, Qb .broke s → Q s) (hexit : ∀ s, R 0 s → Q s) :
    SHoare t I (.whileS c b) (fun o s => o = .normal ∧ Q s) := by
  intro fuel
  induction fuel with
  | zero =>
    intro s o s' hi h
    rw [exec] at h
    cases hev : evalE t c s with
    | none => simp [hev] at h
    | some r =>
      obtain ⟨v, s1⟩ := r
      have hr := hc s v s1 hi hev
      simp only [hev] at h
      by_cases hv : v = 0
      · subst hv; simp at h; obtain ⟨rfl, rfl⟩ := h; exact ⟨rfl, hexit s1 hr⟩
      · simp only [beq_iff_eq, hv, if_false] at h
        cases heb : exec t 0 b s1 with
        | none => simp [heb] at h
        | some rb =>
          obtain ⟨ob, s2⟩ := rb
          have hq := hb 0 s1 ob s2 ⟨v, hv, hr⟩ heb
          cases ob with
          | normal => simp [heb] at h
          | broke => simp [heb] at h; obtain ⟨rfl, rfl⟩ := h; exact ⟨rfl, hbrk s2 hq⟩
  | succ f ih =>
    intro s o s' hi h
    rw [exec] at h
    cases hev : evalE t c s with
    | none => simp [hev] at h
    | some r =>
      obtain ⟨v, s1⟩ := r
      have hr := hc s v s1 hi hev
      simp only [hev] at h
      by_cases hv : v = 0
      · subst hv; simp at h; obtain ⟨rfl, rfl⟩ := h; exact ⟨rfl, hexit s1 hr⟩
      · simp only [beq_iff_eq, hv, if_false] at h
        cases heb : exec t (f + 1) b s1 with
        | none => simp [heb] at h
        | some rb =>
          obtain ⟨ob, s2⟩ := rb
          have hq := hb (f + 1) s1 ob s2 ⟨v, hv, hr⟩ heb
          cases ob with
          | normal => simp [heb] at h; exact ih s2 o s' (hnext s2 hq) h
          | broke => simp [heb] at h; obtain ⟨rfl, rfl⟩ := h; exact ⟨rfl, hbrk s2 hq⟩

/-- `for (init; c; inc) b` = `init; while (c) { b; inc }` -/
theorem shoare_for {t : Nat} {P I : MSt → Prop} {i n b : MStmt} {c : MExpr} {Qi : Outcome → MSt → Prop}
    {Q : Outcome → MSt → Prop} (hi : SHoare t P i Qi) (hin : ∀ o s, Qi o s → I s)
    (hw : SHoare t I (.whileS c (.seq b n)) Q) : SHoare t P (.forS i c n b) Q := by
  intro fuel s o s' hp h
  rw [exec] at h
  cases hei : exec t fuel i s with
  | none => simp [hei] at h
  | some r =>
    obtain ⟨oi, s1⟩ := r
    simp [hei] at h
    exact hw fuel s1 o s' (hin oi s1 (hi fuel s oi s1 hp hei)) h


/-! ### assertions -/

/-- what thread `t` knows about the mutex: its own depth `d`, and (k = 1) that it is not the holder /
    (k = 2) that it is the holder / (k = 0) neither -/
def MOk (t d k : Nat) (m : QMutex) : Prop :=
  m.depthOf t = d ∧ (k = 1 → m.holder ≠ some t) ∧ (k = 2 → m.holder = some t)

theorem mok_rely {t d k : Nat} {m m' : QMutex} (h : Rely t m m') (hm : MOk t d k m) : MOk t d k m' := by
  obtain ⟨h1, h2, h3⟩ := hm
  exact ⟨by rw [rely_depthOf h]; exact h1, fun hk hh => h2 hk (h.1.1 hh), fun hk => h.1.2 (h3 hk)⟩

theorem mok_count {t d k : Nat} {m : QMutex} (c : Int) (hm : MOk t d k m) : MOk t d k { m with count := c } := hm
theorem mok_owner {t d k : Nat} {m : QMutex} (o : Nat) (hm : MOk t d k m) : MOk t d k { m with qowner := o } := hm
theorem mok_weaken {t d k : Nat} {m : QMutex} (hm : MOk t d k m) : MOk t d 0 m :=
  ⟨hm.1, fun h => by omega, fun h => by omega⟩

def Inv (t d k : Nat) (e : Int) (vs : Nat → Int) (a u : Nat) (s : MSt) : Prop :=
  ∃ m, s.mx = some m ∧ MOk t d k m ∧ EnvOk t s.env ∧ s.errno = e ∧ s.vars = vs ∧ s.nAcq = a ∧ s.nUnlock = u

theorem inv_envStep {t d k : Nat} {e : Int} {vs : Nat → Int} {a u : Nat} {s : MSt}
    (h : Inv t d k e vs a u s) : Inv t d k e vs a u s.envStep := by
  obtain ⟨m, hm, hok, henv, he, hv, ha, hu⟩ := h
  obtain ⟨m1, h1, hr, henv', hv', he', ha', hu'⟩ := envStep_spec hm henv
  exact ⟨m1, h1, mok_rely hr hok, henv', by rw [he', he], by rw [hv', hv], by rw [ha', ha], by rw [hu', hu]⟩

theorem inv_weaken {t d k : Nat} {e : Int} {vs : Nat → Int} {a u : Nat} {s : MSt}
    (h : Inv t d k e vs a u s) : Inv t d 0 e vs a u s := by
  obtain ⟨m, hm, hok, rest⟩ := h; exact ⟨m, hm, mok_weaken hok, rest⟩

/-! ### the expressions of the two macros -/

theorem eh_mptr_null {t : Nat} {P : MSt → Prop} (hp : ∀ s, P s → s.mx.isSome = true) :
    EHoare t P (.bin .eq .mptr (.lit 0)) (fun v s => v = 0 ∧ P s) := by
  intro s v s' h he
  simp [evalE, hp s h, b2i] at he
  obtain ⟨rfl, rfl⟩ := he; exact ⟨rfl, h⟩

theorem inv_isSome {t d k : Nat} {e : Int} {vs : Nat → Int} {a u : Nat} {s : MSt}
    (h : Inv t d k e vs a u s) : s.mx.isSome = true := by
  obtain ⟨m, hm, _⟩ := h; simp [hm]

/-- `!pthread_equal(owner, pthread_self())`: reads the racy diagnostic field, nothing else -/
theorem eh_owner_mismatch {t d k : Nat} {e : Int} {vs : Nat → Int} {a u : Nat} :
    EHoare t (Inv t d k e vs a u) (.un .not (.call2 .equal (.fld .owner) (.call0 .self)))
      (fun _ s => Inv t d k e vs a u s) := by
  intro s v s' h he
  have h1 := inv_envStep h
  obtain ⟨m1, hm1, _⟩ := h1
  simp [evalE, hm1] at he
  obtain ⟨_, rfl⟩ := he; exact inv_envStep h

/-- `(count--) < 0` -/
theorem eh_count_dec_test {t d k : Nat} {e : Int} {vs : Nat → Int} {a u : Nat} :
    EHoare t (Inv t d k e vs a u) (.bin .lt (.un .postDec (.fld .count)) (.lit 0))
      (fun _ s => Inv t d k e vs a u s) := by
  intro s v s' h he
  obtain ⟨m1, hm1, hok, henv, herr, hvs, ha, hu⟩ := inv_envStep h
  simp [evalE, hm1] at he
  obtain ⟨_, rfl⟩ := he
  exact ⟨_, rfl, mok_count _ hok, henv, herr, hvs, ha, hu⟩

/-- `count = 0` -/
theorem eh_count_reset {t d k : Nat} {e : Int} {vs : Nat → Int} {a u : Nat} :
    EHoare t (Inv t d k e vs a u) (.bin .assign (.fld .count) (.lit 0)) (fun _ s => Inv t d k e vs a u s) := by
  intro s v s' h he
  obtain ⟨m1, hm1, hok, henv, herr, hvs, ha, hu⟩ := inv_envStep h
  simp [evalE, hm1] at he
  obtain ⟨_, rfl⟩ := he
  exact ⟨_, rfl, mok_count _ hok, henv, herr, hvs, ha, hu⟩

/-- `pthread_mutex_unlock(&m->mutex)`: the one real unlock -/
theorem eh_unlock {t d k : Nat} {e : Int} {vs : Nat → Int} {a u : Nat} :
    EHoare t (Inv t d k e vs a u) (.call1 .unlock (.un .addr (.fld .mutex)))
      (fun _ s => ∃ m1, MOk t d k m1 ∧ s.mx = some (punlock t m1) ∧ EnvOk t s.env ∧ s.errno = e ∧ s.vars = vs ∧
        s.nAcq = a ∧ s.nUnlock = u + 1) := by
  intro s v s' h he
  obtain ⟨m1, hm1, hok, henv, herr, hvs, ha, hu⟩ := inv_envStep h
  simp [evalE, hm1] at he
  obtain ⟨_, rfl⟩ := he
  exact ⟨m1, hok, rfl, henv, herr, hvs, ha, by simp [hu]⟩

/-- **`Q_MUTEX_LEAVE`**: whatever the other threads do, LEAVE ends normally after exactly ONE
    `pthread_mutex_unlock` call on the (environment-perturbed) mutex, and changes neither errno nor
    the caller's locals nor the acquisition count -/
theorem leave_spec {t d k : Nat} {e : Int} {vs : Nat → Int} {a u : Nat} :
    SHoare t (Inv t d k e vs a u) leaveModel
      (fun o s => o = .normal ∧ ∃ m1, MOk t d k m1 ∧ s.mx = some (punlock t m1) ∧ EnvOk t s.env ∧ s.errno = e ∧
        s.vars = vs ∧ s.nAcq = a ∧ s.nUnlock = u + 1) := by
  unfold leaveModel
  refine shoare_conseq (shoare_doWhile0 (Qb := fun o s => o = .normal ∧ ∃ m1, MOk t d k m1 ∧
      s.mx = some (punlock t m1) ∧ EnvOk t s.env ∧ s.errno = e ∧ s.vars = vs ∧ s.nAcq = a ∧ s.nUnlock = u + 1) ?_)
    (fun _ h => h) ?_
  · -- the body
    refine shoare_seq (Qa := fun o s => o = .normal ∧ Inv t d k e vs a u s) ?_ ?_ (fun s h => by cases h.1)
    · refine shoare_ite (eh_mptr_null (fun s h => inv_isSome h)) ?_ ?_
      · intro fuel s o s' ⟨v, hv, h0, _⟩; exact absurd h0 hv
      · exact shoare_conseq shoare_skip (fun s h => h.2) (fun o s h => h)
    refine shoare_conseq (P' := Inv t d k e vs a u) ?_ (fun s h => h.2) (fun o s h => h)
    refine shoare_seq (Qa := fun o s => o = .normal ∧ Inv t d k e vs a u s) ?_ ?_ (fun s h => by cases h.1)
    · refine shoare_ite eh_owner_mismatch ?_ ?_
      · exact shoare_conseq shoare_skip (fun s ⟨_, _, h⟩ => h) (fun o s h => h)
      · exact shoare_conseq shoare_skip (fun s h => h) (fun o s h => h)
    refine shoare_conseq (P' := Inv t d k e vs a u) ?_ (fun s h => h.2) (fun o s h => h)
    refine shoare_seq (Qa := fun o s => o = .normal ∧ Inv t d k e vs a u s) ?_ ?_ (fun s h => by cases h.1)
    · refine shoare_ite eh_count_dec_test ?_ ?_
      · refine shoare_conseq (shoare_expr eh_count_reset) (fun s ⟨_, _, h⟩ => h) (fun o s ⟨ho, _, h⟩ => ⟨ho, h⟩)
      · exact shoare_conseq shoare_skip (fun s h => h) (fun o s h => h)
    refine shoare_conseq (shoare_expr eh_unlock) (fun s h => h.2) (fun o s ⟨ho, _, h⟩ => ⟨ho, h⟩)
  · intro o s ⟨ho, h⟩
    refine ⟨ho, ?_⟩
    rcases h with h | h
    · exact h.2
    · cases h.1


/-! ### Q_MUTEX_ENTER -/

/-- the polling condition `(_ret = pthread_mutex_trylock(..)) != 0 && i < 5000`: either the trylock
    succeeded (value 0, one level deeper, one more acquisition, `_ret = 0`) or it failed (the caller
    is not the holder, `_ret ≠ 0`) -/
def PollPost (t d : Nat) (e : Int) (a u : Nat) (v : Int) (s : MSt) : Prop :=
  (v = 0 ∧ ∃ vs', Inv t (d + 1) 2 e vs' (a + 1) u s ∧ vs' 0 = 0) ∨ (∃ vs', Inv t d 1 e vs' a u s ∧ vs' 0 ≠ 0)

theorem eh_pollCond {t d : Nat} {e : Int} {a u : Nat} :
    EHoare t (fun s => ∃ vs, Inv t d 0 e vs a u s) pollCond (PollPost t d e a u) := by
  intro s v s' ⟨vs, h⟩ he
  obtain ⟨m1, hm1, hok, henv, herr, hvs, ha, hu⟩ := inv_envStep h
  unfold pollCond at he
  rcases trylock_spec t m1 with ⟨h1, h2, h3⟩ | ⟨h1, h2, h3⟩
  · -- acquired
    simp [evalE, hm1, h1, b2i] at he
    obtain ⟨rfl, rfl⟩ := he
    left
    refine ⟨rfl, setVar s.envStep.vars 0 0, ⟨_, rfl, ⟨by rw [h2, hok.1], fun h => by omega, fun _ => h3⟩, henv, herr, rfl,
      by simp [ha], hu⟩, by simp [setVar]⟩
  · -- busy
    simp [evalE, hm1, h1, b2i] at he
    right
    split at he
    all_goals (
      obtain ⟨_, rfl⟩ := he
      refine ⟨setVar s.envStep.vars 0 16, ⟨_, rfl, ⟨by rw [h2]; exact hok.1, fun _ => by rw [h2]; exact h3, fun h => by omega⟩,
        henv, herr, rfl, by simp [ha], hu⟩, by simp [setVar]⟩)

/-- assertions over a state predicate that does not mention the locals -/
def AnyVars (P : (Nat → Int) → MSt → Prop) (s : MSt) : Prop := ∃ vs, P vs s

theorem inv_setvars {t d k : Nat} {e : Int} {vs : Nat → Int} {a u : Nat} {s : MSt} (vs' : Nat → Int)
    (h : Inv t d k e vs a u s) : Inv t d k e vs' a u { s with vars := vs' } := by
  obtain ⟨m, hm, hok, henv, herr, _, ha, hu⟩ := h
  exact ⟨m, hm, hok, henv, herr, rfl, ha, hu⟩

/-- the invariant with the locals existentially quantified, `p` constraining `_ret` (local 0) -/
def InvR (t d k : Nat) (e : Int) (a u : Nat) (p : Int → Prop) (s : MSt) : Prop :=
  ∃ vs, Inv t d k e vs a u s ∧ p (vs 0)

/-- `i = 0;` and `{ if (i == 0) {} usleep(1); i++; }`: only the loop counter (local 1) changes -/
theorem sh_poll_locals {t d k : Nat} {e : Int} {a u : Nat} {p : Int → Prop} (st : MStmt)
    (hst : st = .expr (.bin .assign (.var 1) (.lit 0)) ∨ st = pollStep) :
    SHoare t (InvR t d k e a u p) st (fun o s => o = .normal ∧ InvR t d k e a u p s) := by
  intro fuel s o s' hp h
  have key : ∀ (x : Int), InvR t d k e a u p { s with vars := setVar s.vars 1 x } := by
    intro x
    obtain ⟨vs, hi, hv⟩ := hp
    refine ⟨_, inv_setvars _ hi, ?_⟩
    obtain ⟨_, _, _, _, _, hvs, _⟩ := hi
    simpa [setVar, hvs] using hv
  rcases hst with rfl | rfl
  · simp [exec, evalE] at h; obtain ⟨rfl, rfl⟩ := h; exact ⟨rfl, key 0⟩
  · unfold pollStep at h
    simp [exec, evalE] at h
    obtain ⟨rfl, rfl⟩ := h; exact ⟨rfl, key _⟩

theorem shoare_exists {t : Nat} {α : Type} {P : α → MSt → Prop} {st : MStmt} {Q : Outcome → MSt → Prop}
    (h : ∀ x, SHoare t (P x) st Q) : SHoare t (fun s => ∃ x, P x s) st Q :=
  fun fuel s o s' ⟨x, hp⟩ he => h x fuel s o s' hp he

/-- result of the polling loop: acquired (`_ret = 0`) or still busy after MAX polls (`_ret ≠ 0`, the
    caller is not the holder) -/
def PollDone (t d : Nat) (e : Int) (a u : Nat) (s : MSt) : Prop :=
  InvR t (d + 1) 2 e (a + 1) u (· = 0) s ∨ InvR t d 1 e a u (· ≠ 0) s

theorem pollLoop_spec {t d : Nat} {e : Int} {a u : Nat} :
    SHoare t (InvR t d 0 e a u (fun _ => True)) pollLoop (fun o s => o = .normal ∧ PollDone t d e a u s) := by
  unfold pollLoop
  refine shoare_while (R := PollPost t d e a u) (Qb := fun o s => o = .normal ∧ InvR t d 1 e a u (· ≠ 0) s)
    (fun s v s' ⟨vs, h, _⟩ he => eh_pollCond s v s' ⟨vs, h⟩ he) ?_ ?_ ?_ ?_
  · refine shoare_conseq (P' := InvR t d 1 e a u (· ≠ 0)) (sh_poll_locals _ (Or.inr rfl)) ?_ (fun o s h => h)
    intro s ⟨v, hv, h⟩
    rcases h with ⟨h0, _⟩ | h
    · exact absurd h0 hv
    · exact h
  · intro s ⟨_, vs, h, _⟩; exact ⟨vs, inv_weaken h, trivial⟩
  · intro s h; cases h.1
  · intro s h
    rcases h with ⟨_, vs, h, hv⟩ | ⟨vs, h, hv⟩
    · exact Or.inl ⟨vs, h, hv⟩
    · exact Or.inr ⟨vs, h, hv⟩

/-- one round of the outer loop either leaves it by `break` right after the successful trylock, or
    (after the forced unlock attempt, a no-op on the mutex for a non-holder) is back at the start -/
theorem roundBody_spec {t d : Nat} {e : Int} {a : Nat} :
    SHoare t (fun s => ∃ u, InvR t d 0 e a u (fun _ => True) s) roundBody
      (fun o s => (o = .broke ∧ ∃ u, InvR t (d + 1) 2 e (a + 1) u (· = 0) s) ∨
                  (o = .normal ∧ ∃ u, InvR t d 0 e a u (fun _ => True) s)) := by
  refine shoare_exists fun u => ?_
  unfold roundBody
  refine shoare_seq (Qa := fun o s => o = .normal ∧ InvR t d 0 e a u (fun _ => True) s) shoare_decl ?_ (fun s h => by cases h.1)
  refine shoare_conseq (P' := InvR t d 0 e a u (fun _ => True)) ?_ (fun s h => h.2) (fun o s h => h)
  refine shoare_seq (Qa := fun o s => o = .normal ∧ InvR t d 0 e a u (fun _ => True) s) shoare_decl ?_ (fun s h => by cases h.1)
  refine shoare_conseq (P' := InvR t d 0 e a u (fun _ => True)) ?_ (fun s h => h.2) (fun o s h => h)
  refine shoare_seq (Qa := fun o s => o = .normal ∧ InvR t d 0 e a u (fun _ => True) s) (sh_poll_locals _ (Or.inl rfl)) ?_
    (fun s h => by cases h.1)
  refine shoare_conseq (P' := InvR t d 0 e a u (fun _ => True)) ?_ (fun s h => h.2) (fun o s h => h)
  refine shoare_seq (Qa := fun o s => o = .normal ∧ PollDone t d e a u s) pollLoop_spec ?_ (fun s h => by cases h.1)
  refine shoare_conseq (P' := PollDone t d e a u) ?_ (fun s h => h.2) (fun o s h => h)
  -- if (_ret == 0) break;
  refine shoare_seq (Qa := fun o s => (o = .broke ∧ InvR t (d + 1) 2 e (a + 1) u (· = 0) s) ∨
      (o = .normal ∧ InvR t d 1 e a u (· ≠ 0) s)) ?_ ?_ ?_
  · refine shoare_ite (R := fun v s => PollDone t d e a u s ∧ v = b2i (s.vars 0 == 0)) ?_ ?_ ?_
    · intro s v s' hp he
      simp [evalE] at he; obtain ⟨rfl, rfl⟩ := he; exact ⟨hp, rfl⟩
    · -- _ret == 0: break
      intro fuel s o s' ⟨v, hv, hp, hveq⟩ he
      simp [exec] at he; obtain ⟨rfl, rfl⟩ := he
      rcases hp with h | ⟨vs, h, hne⟩
      · exact Or.inl ⟨rfl, h⟩
      · obtain ⟨_, _, _, _, _, hvs, _⟩ := h
        rw [hvs] at hveq; simp [b2i, hne] at hveq; exact absurd hveq hv
    · -- _ret != 0: go on to the forced unlock
      intro fuel s o s' ⟨hp, hveq⟩ he
      simp [exec] at he; obtain ⟨rfl, rfl⟩ := he
      rcases hp with ⟨vs, h, h0⟩ | h
      · obtain ⟨_, _, _, _, _, hvs, _⟩ := h
        rw [hvs] at hveq; simp [b2i, h0] at hveq
      · exact Or.inr ⟨rfl, h⟩
  · -- forced Q_MUTEX_LEAVE by a non-holder
    intro fuel s o s' hp he
    rcases hp with ⟨h, _⟩ | ⟨_, vs, hinv, hne⟩
    · cases h
    · obtain ⟨ho, m1, hok, hmx, henv, herr, hvs, ha, hu⟩ := leave_spec fuel s o s' hinv he
      refine Or.inr ⟨ho, u + 1, vs, ⟨m1, ?_, mok_weaken hok, henv, herr, hvs, ha, hu⟩, trivial⟩
      rw [hmx, punlock_other (hok.2.1 rfl)]
  · intro s h
    rcases h with ⟨_, h⟩ | ⟨h, _⟩
    · exact Or.inl ⟨rfl, u, h⟩
    · cases h

/-- **`Q_MUTEX_ENTER`, m ≠ NULL.**  For every behaviour of the other threads and any fuel: if ENTER
    terminates, it does so normally, the calling thread holds the mutex ONE level deeper than before
    and is its holder, exactly ONE acquisition of the pthread mutex succeeded during the call, and
    errno is unchanged.  (There is no other way out: the only exit of the outer loop is the `break`
    taken right after a successful `pthread_mutex_trylock`.) -/
theorem enter_spec {t d : Nat} {e : Int} {vs : Nat → Int} {a u : Nat} :
    SHoare t (Inv t d 0 e vs a u) enterModel
      (fun o s => o = .normal ∧ ∃ u' vs', Inv t (d + 1) 2 e vs' (a + 1) u' s) := by
  unfold enterModel
  refine shoare_conseq (shoare_doWhile0 (Qb := fun o s => o = .normal ∧ ∃ u' vs', Inv t (d + 1) 2 e vs' (a + 1) u' s) ?_)
    (fun _ h => h) ?_
  · refine shoare_seq (Qa := fun o s => o = .normal ∧ Inv t d 0 e vs a u s) ?_ ?_ (fun s h => by cases h.1)
    · refine shoare_ite (eh_mptr_null (fun s h => inv_isSome h)) ?_ ?_
      · intro fuel s o s' ⟨v, hv, h0, _⟩; exact absurd h0 hv
      · exact shoare_conseq shoare_skip (fun s h => h.2) (fun o s h => h)
    refine shoare_conseq (P' := fun s => ∃ u, InvR t d 0 e a u (fun _ => True) s) ?_
      (fun s h => ⟨u, vs, h.2, trivial⟩) (fun o s h => h)
    refine shoare_seq (Qa := fun o s => o = .normal ∧ ∃ u, InvR t (d + 1) 2 e (a + 1) u (· = 0) s) ?_ ?_ (fun s h => by cases h.1)
    · -- while (true) { round }
      refine shoare_while (R := fun v s => v = 1 ∧ ∃ u, InvR t d 0 e a u (fun _ => True) s)
        (Qb := fun o s => (o = .broke ∧ ∃ u, InvR t (d + 1) 2 e (a + 1) u (· = 0) s) ∨
                          (o = .normal ∧ ∃ u, InvR t d 0 e a u (fun _ => True) s)) ?_ ?_ ?_ ?_ ?_
      · intro s v s' hp he; simp [evalE] at he; obtain ⟨rfl, rfl⟩ := he; exact ⟨rfl, hp⟩
      · exact shoare_conseq roundBody_spec (fun s ⟨_, _, _, h⟩ => h) (fun o s h => h)
      · intro s h; rcases h with ⟨h, _⟩ | ⟨_, h⟩
        · cases h
        · exact h
      · intro s h; rcases h with ⟨_, h⟩ | ⟨h, _⟩
        · exact h
        · cases h
      · intro s ⟨h, _⟩; cases h
    · -- count++; owner = pthread_self();
      refine shoare_conseq (P' := fun s => ∃ u' vs', Inv t (d + 1) 2 e vs' (a + 1) u' s) ?_
        (fun s ⟨_, u', vs', h, _⟩ => ⟨u', vs', h⟩) (fun o s h => h)
      refine shoare_seq (Qa := fun o s => o = .normal ∧ ∃ u' vs', Inv t (d + 1) 2 e vs' (a + 1) u' s) ?_ ?_ (fun s h => by cases h.1)
      · intro fuel s o s' ⟨u', vs', h⟩ he
        obtain ⟨m1, hm1, hok, henv, herr, hvs, ha, hu⟩ := inv_envStep h
        simp [exec, evalE, hm1] at he
        obtain ⟨rfl, rfl⟩ := he
        exact ⟨rfl, u', vs', _, rfl, mok_count _ hok, henv, herr, hvs, ha, hu⟩
      · intro fuel s o s' ⟨_, u', vs', h⟩ he
        obtain ⟨m1, hm1, hok, henv, herr, hvs, ha, hu⟩ := inv_envStep h
        simp [exec, evalE, hm1] at he
        obtain ⟨rfl, rfl⟩ := he
        exact ⟨rfl, u', vs', _, rfl, mok_owner _ hok, henv, herr, hvs, ha, hu⟩
  · intro o s ⟨ho, h⟩
    refine ⟨ho, ?_⟩
    rcases h with h | h
    · exact h.2
    · cases h.1

/-- with `qmutex = NULL` (container created without the thread-safe option) both macros do nothing -/
theorem null_noop (t fuel : Nat) (s : MSt) (h : s.mx = none) :
    exec t fuel enterModel s = some (.normal, s) ∧ exec t fuel leaveModel s = some (.normal, s) := by
  constructor
  · unfold enterModel; rw [exec]; simp [exec, evalE, h, b2i]
  · unfold leaveModel; rw [exec]; simp [exec, evalE, h, b2i]


/-! ### the statements used by Props/C13 and Props/C14 -/

/-- (i)+(iii): the only way out of ENTER is a successful acquisition by the caller -/
theorem enter_returns_holding_model (t fuel : Nat) (s s' : MSt) (o : Outcome) (m : QMutex)
    (hm : s.mx = some m) (henv : EnvOk t s.env) (h : exec t fuel enterModel s = some (o, s')) :
    o = .normal ∧ ∃ m', s'.mx = some m' ∧ m'.depthOf t = m.depthOf t + 1 ∧ m'.holder = some t ∧
      s'.nAcq = s.nAcq + 1 ∧ s'.errno = s.errno := by
  have hinv : Inv t (m.depthOf t) 0 s.errno s.vars s.nAcq s.nUnlock s :=
    ⟨m, hm, ⟨rfl, fun h => by omega, fun h => by omega⟩, henv, rfl, rfl, rfl, rfl⟩
  obtain ⟨ho, u', vs', m', hm', hok, _, herr, _, ha, _⟩ := enter_spec fuel s o s' hinv h
  exact ⟨ho, m', hm', hok.1, hok.2.2 rfl, ha, herr⟩

/-- (ii): LEAVE = exactly one unlock of the real mutex; errno, the caller's locals and the acquisition
    count are untouched; for the holder the depth goes down by one -/
theorem leave_unlocks_once_model (t fuel : Nat) (s s' : MSt) (o : Outcome) (m : QMutex)
    (hm : s.mx = some m) (henv : EnvOk t s.env) (h : exec t fuel leaveModel s = some (o, s')) :
    o = .normal ∧ s'.nUnlock = s.nUnlock + 1 ∧ s'.errno = s.errno ∧ s'.vars = s.vars ∧ s'.nAcq = s.nAcq ∧
      ∃ m1, m1.depthOf t = m.depthOf t ∧ (m1.holder = some t ↔ m.holder = some t) ∧ s'.mx = some (punlock t m1) := by
  by_cases hh : m.holder = some t
  · have hinv : Inv t (m.depthOf t) 2 s.errno s.vars s.nAcq s.nUnlock s :=
      ⟨m, hm, ⟨rfl, fun h => by omega, fun _ => hh⟩, henv, rfl, rfl, rfl, rfl⟩
    obtain ⟨ho, m1, hok, hmx, _, herr, hvs, ha, hu⟩ := leave_spec fuel s o s' hinv h
    exact ⟨ho, hu, herr, hvs, ha, m1, hok.1, ⟨fun _ => hh, fun _ => hok.2.2 rfl⟩, hmx⟩
  · have hinv : Inv t (m.depthOf t) 1 s.errno s.vars s.nAcq s.nUnlock s :=
      ⟨m, hm, ⟨rfl, fun _ => hh, fun h => by omega⟩, henv, rfl, rfl, rfl, rfl⟩
    obtain ⟨ho, m1, hok, hmx, _, herr, hvs, ha, hu⟩ := leave_spec fuel s o s' hinv h
    exact ⟨ho, hu, herr, hvs, ha, m1, hok.1, ⟨fun h1 => absurd h1 (hok.2.1 rfl), fun h1 => absurd h1 hh⟩, hmx⟩

end Qlibc.Conc

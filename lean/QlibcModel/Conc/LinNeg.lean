import QlibcModel.Conc.Lin
/-! The hypothesis of `wellLocked_linearizable` is necessary: an operation that reads the shared
    state BEFORE acquiring the lock (the shape of the pinned `qvector_addlast`: index := num outside
    the critical section, store at index inside) has a schedule whose outcome no sequential order of
    the operations explains (lost update). -/
namespace Qlibc.Conc.Lin

/-- shared state = a counter; `pre` copies it into the local state WITHOUT the lock, the body stores
    local + 1 -/
def incrBad : Op Nat Nat :=
  { pre := [⟨fun g _ => (g, g)⟩], body := [⟨fun _ l => (l + 1, l)⟩], post := [] }

def lostP : Prog Nat Nat := fun t => if t < 2 then [incrBad] else []

theorem incrBad_not_wellLocked : ¬ incrBad.WellLocked := by
  intro h
  have := (h.1 ⟨fun g _ => (g, g)⟩ (by simp [incrBad]) 0 0).2 1
  simp at this

/-- both threads read 0 before either takes the lock; both store 1.  Every sequential order of the
    two operations ends with 2. -/
theorem unlocked_read_not_linearizable :
    ∃ (sched : List Nat) (c : Config Nat Nat),
      Exec lostP (init 0 (fun _ => 0)) sched c ∧ c.Finished lostP ∧ c.shared = 1 ∧
      (seqRun lostP [(0, 0), (1, 0)] (0, fun _ => 0)).1 = 2 ∧
      (seqRun lostP [(1, 0), (0, 0)] (0, fun _ => 0)).1 = 2 :=
  ⟨[0, 0, 1, 1, 0, 0, 0, 0, 1, 1, 1, 1], _,
      (.cons (.invoke (t := 0) (op := incrBad) rfl rfl) <|
      .cons (.preStep (t := 0) (s := ⟨fun g _ => (g, g)⟩) (rest := []) rfl) <|
      .cons (.invoke (t := 1) (op := incrBad) rfl rfl) <|
      .cons (.preStep (t := 1) (s := ⟨fun g _ => (g, g)⟩) (rest := []) rfl) <|
      .cons (.acquire (t := 0) (op := incrBad) rfl rfl rfl) <|
      .cons (.bodyStep (t := 0) (s := ⟨fun _ l => (l + 1, l)⟩) (rest := []) rfl) <|
      .cons (.release (t := 0) (op := incrBad) rfl rfl) <|
      .cons (.respond (t := 0) rfl) <|
      .cons (.acquire (t := 1) (op := incrBad) rfl rfl rfl) <|
      .cons (.bodyStep (t := 1) (s := ⟨fun _ l => (l + 1, l)⟩) (rest := []) rfl) <|
      .cons (.release (t := 1) (op := incrBad) rfl rfl) <|
      .cons (.respond (t := 1) rfl) <|
      .nil _),
    (by
      intro t
      by_cases h0 : t = 0
      · subst h0; exact ⟨rfl, rfl⟩
      · by_cases h1 : t = 1
        · subst h1; exact ⟨rfl, rfl⟩
        · have h2 : ¬ t < 2 := by omega
          simp [upd, h0, h1, init, lostP, h2]),
    rfl, rfl, rfl⟩

end Qlibc.Conc.Lin

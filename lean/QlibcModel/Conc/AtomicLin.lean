import QlibcModel.Conc.Atomic
import QlibcModel.Conc.Lin
/-! Connection of the per-function certificates (`wellLockedCfg` + `phasesOk`) with the generic
    linearizability theorem: every complete call of a certified function IS an operation of the
    shape `pre* ; acquire ; body* ; release ; post*` whose pre/post steps are local. -/
namespace Qlibc.Conc
open Qlibc.Conc.Lin

/-- Let `sem` be ANY interpretation of skeleton events as micro-steps in which the events that are
    neither lock traffic nor accesses to mutable container state are local (argument checks, copying
    of the caller's data, post-processing of a returned private copy, `free`, errno).  Then every
    complete call (path from the entry to a node at depth 0, e.g. a `ret`) of a function with both
    certificates decomposes into an `Op` that satisfies the hypothesis `Op.WellLocked` of
    `wellLocked_linearizable`: its steps are exactly the steps of the path, the prologue and epilogue
    are local, and all of the critical section (one outermost acquire … release, possibly none) is
    the body.  A wrapper that makes one self-locking call per path is therefore linearizable at that
    call's acquisition; a wrapper that makes two is rejected by `phasesOk`. -/
theorem atomic_call_is_wellLocked_op {σ L : Type} {exempt ph : List Nat} {c : Cfg}
    (hw : wellLockedCfg exempt c = true) (hp : phasesOk ph c = true)
    (sem : Ev → MStep σ L) (hsem : ∀ e, Quiet exempt e → (sem e).IsLocal)
    {k : Nat} {es : List Ev} (p : Path c 0 es k) (hk : depthAt c k = some 0) :
    ∃ op : Op σ L, op.WellLocked ∧ op.pre ++ (op.body ++ op.post) = es.map sem ∧
      ∃ pre mid post, es = pre ++ mid ++ post ∧ op.pre = pre.map sem ∧ op.body = mid.map sem ∧
        op.post = post.map sem ∧ (mid = [] ∨ ∃ m, mid = .lock :: m ∧ insideOk 1 m = true) := by
  have h0 : depthAt c 0 = some 0 := by
    have hb := wl_balanced hw
    simp only [balancedCfg, Bool.and_eq_true] at hb; simpa using hb.1
  obtain ⟨pre, mid, post, hes, hpre, hpost, hmid⟩ := atomic_shape hw hp p h0 hk
  refine ⟨⟨pre.map sem, mid.map sem, post.map sem⟩, ⟨?_, ?_⟩, ?_, pre, mid, post, hes, rfl, rfl, rfl, hmid⟩
  · intro s hs
    obtain ⟨e, he, rfl⟩ := List.mem_map.1 hs
    exact hsem e (hpre e he)
  · intro s hs
    obtain ⟨e, he, rfl⟩ := List.mem_map.1 hs
    exact hsem e (hpost e he)
  · simp [hes, List.append_assoc]

end Qlibc.Conc

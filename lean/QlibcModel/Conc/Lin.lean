/- Generic linearizability theorem for lock-protected operations (C13).

   Threads run lists of operations; an operation is  invoke ; pre* ; acquire ; body* ; release ;
   post* ; respond  micro-steps over a shared state `σ` and a thread-local state `L` (arguments,
   results).  Small-step interleaving semantics over ARBITRARY schedules.  If no pre/post step
   touches the shared state (`Op.WellLocked`, what `wellLockedCfg` certifies for the C functions),
   every complete execution is equivalent to executing the operations one at a time, atomically, in
   acquire order, and that order is consistent with program order and real-time precedence. -/
namespace Qlibc.Conc.Lin

/-- one micro-step: reads/writes the shared state and the local state of the executing thread -/
structure MStep (σ L : Type) where
  run : σ → L → σ × L

/-- the step neither writes the shared state nor lets it influence the local state -/
def MStep.IsLocal {σ L : Type} (s : MStep σ L) : Prop :=
  ∀ g l, (s.run g l).1 = g ∧ ∀ g', (s.run g' l).2 = (s.run g l).2

/-- the step does not write the shared state (it may read it) -/
def MStep.ReadOnly {σ L : Type} (s : MStep σ L) : Prop := ∀ g l, (s.run g l).1 = g

def runSteps {σ L : Type} : List (MStep σ L) → σ → L → σ × L
  | [], g, l => (g, l)
  | s :: ss, g, l => runSteps ss (s.run g l).1 (s.run g l).2

structure Op (σ L : Type) where
  pre : List (MStep σ L)
  body : List (MStep σ L)
  post : List (MStep σ L)

/-- all accesses to shared state are inside the critical section -/
def Op.WellLocked {σ L : Type} (o : Op σ L) : Prop :=
  (∀ s ∈ o.pre, s.IsLocal) ∧ (∀ s ∈ o.post, s.IsLocal)

/-- the operation executed alone, without interruption -/
def Op.atomic {σ L : Type} (o : Op σ L) (g : σ) (l : L) : σ × L :=
  runSteps (o.pre ++ (o.body ++ o.post)) g l

/-- thread id ↦ its operations in program order (threads without work have `[]`) -/
abbrev Prog (σ L : Type) := Nat → List (Op σ L)

inductive Phase (σ L : Type) where
  | idle
  | pre (rest : List (MStep σ L))
  | body (rest : List (MStep σ L))
  | post (rest : List (MStep σ L))

structure TState (σ L : Type) where
  loc : L
  pc : Nat
  phase : Phase σ L

/-- operation instance: (thread, index in the thread's program) -/
abbrev OpId := Nat × Nat

structure Config (σ L : Type) where
  shared : σ
  holder : Option Nat
  ts : Nat → TState σ L
  /- ghost state: a clock that ticks at every step, the times of invocation / acquisition /
     response of every operation instance, and the acquisition order -/
  clock : Nat
  invT : OpId → Option Nat
  linT : OpId → Option Nat
  resT : OpId → Option Nat
  lin : List OpId

def upd {α : Type} (f : Nat → α) (t : Nat) (v : α) : Nat → α := fun u => if u = t then v else f u
def updO (f : OpId → Option Nat) (a : OpId) (v : Nat) : OpId → Option Nat :=
  fun b => if b = a then some v else f b

@[simp] theorem upd_same {α : Type} (f : Nat → α) (t : Nat) (v : α) : upd f t v t = v := by simp [upd]
theorem upd_other {α : Type} (f : Nat → α) {t u : Nat} (v : α) (h : u ≠ t) : upd f t v u = f u := by
  simp [upd, h]
@[simp] theorem updO_same (f : OpId → Option Nat) (a : OpId) (v : Nat) : updO f a v a = some v := by
  simp [updO]
theorem updO_other (f : OpId → Option Nat) {a b : OpId} (v : Nat) (h : b ≠ a) : updO f a v b = f b := by
  simp [updO, h]

variable {σ L : Type}

/-- one micro-step of thread `t` -/
inductive Step (P : Prog σ L) : Config σ L → Nat → Config σ L → Prop where
  | invoke {c : Config σ L} {t : Nat} {op : Op σ L} :
      (c.ts t).phase = .idle → (P t)[(c.ts t).pc]? = some op →
      Step P c t { c with
        ts := upd c.ts t { (c.ts t) with phase := .pre op.pre }
        clock := c.clock + 1
        invT := updO c.invT (t, (c.ts t).pc) c.clock }
  | preStep {c : Config σ L} {t : Nat} {s : MStep σ L} {rest : List (MStep σ L)} :
      (c.ts t).phase = .pre (s :: rest) →
      Step P c t { c with
        shared := (s.run c.shared (c.ts t).loc).1
        ts := upd c.ts t { (c.ts t) with loc := (s.run c.shared (c.ts t).loc).2, phase := .pre rest }
        clock := c.clock + 1 }
  | acquire {c : Config σ L} {t : Nat} {op : Op σ L} :
      (c.ts t).phase = .pre [] → c.holder = none → (P t)[(c.ts t).pc]? = some op →
      Step P c t { c with
        holder := some t
        ts := upd c.ts t { (c.ts t) with phase := .body op.body }
        clock := c.clock + 1
        linT := updO c.linT (t, (c.ts t).pc) c.clock
        lin := c.lin ++ [(t, (c.ts t).pc)] }
  | bodyStep {c : Config σ L} {t : Nat} {s : MStep σ L} {rest : List (MStep σ L)} :
      (c.ts t).phase = .body (s :: rest) →
      Step P c t { c with
        shared := (s.run c.shared (c.ts t).loc).1
        ts := upd c.ts t { (c.ts t) with loc := (s.run c.shared (c.ts t).loc).2, phase := .body rest }
        clock := c.clock + 1 }
  | release {c : Config σ L} {t : Nat} {op : Op σ L} :
      (c.ts t).phase = .body [] → (P t)[(c.ts t).pc]? = some op →
      Step P c t { c with
        holder := none
        ts := upd c.ts t { (c.ts t) with phase := .post op.post }
        clock := c.clock + 1 }
  | postStep {c : Config σ L} {t : Nat} {s : MStep σ L} {rest : List (MStep σ L)} :
      (c.ts t).phase = .post (s :: rest) →
      Step P c t { c with
        shared := (s.run c.shared (c.ts t).loc).1
        ts := upd c.ts t { (c.ts t) with loc := (s.run c.shared (c.ts t).loc).2, phase := .post rest }
        clock := c.clock + 1 }
  | respond {c : Config σ L} {t : Nat} :
      (c.ts t).phase = .post [] →
      Step P c t { c with
        ts := upd c.ts t { (c.ts t) with pc := (c.ts t).pc + 1, phase := .idle }
        clock := c.clock + 1
        resT := updO c.resT (t, (c.ts t).pc) c.clock }

/-- an execution under the schedule `sched` (the list of thread ids that take the steps) -/
inductive Exec (P : Prog σ L) : Config σ L → List Nat → Config σ L → Prop where
  | nil (c : Config σ L) : Exec P c [] c
  | cons {c c1 c2 : Config σ L} {t : Nat} {ts : List Nat} :
      Step P c t c1 → Exec P c1 ts c2 → Exec P c (t :: ts) c2

def init (g0 : σ) (l0 : Nat → L) : Config σ L :=
  { shared := g0, holder := none, ts := fun t => { loc := l0 t, pc := 0, phase := .idle },
    clock := 0, invT := fun _ => none, linT := fun _ => none, resT := fun _ => none, lin := [] }

/-- every thread has completed all its operations -/
def Config.Finished (P : Prog σ L) (c : Config σ L) : Prop :=
  ∀ t, (c.ts t).phase = .idle ∧ (c.ts t).pc = (P t).length

/-! ### the sequential specification -/

def seqStep (P : Prog σ L) (s : σ × (Nat → L)) (a : OpId) : σ × (Nat → L) :=
  match (P a.1)[a.2]? with
  | some op => ((op.atomic s.1 (s.2 a.1)).1, upd s.2 a.1 (op.atomic s.1 (s.2 a.1)).2)
  | none => s

/-- run the operation instances of `lin` one at a time, each atomically -/
def seqRun (P : Prog σ L) (lin : List OpId) (s0 : σ × (Nat → L)) : σ × (Nat → L) :=
  lin.foldl (seqStep P) s0

theorem seqRun_snoc (P : Prog σ L) (lin : List OpId) (a : OpId) (s0 : σ × (Nat → L)) :
    seqRun P (lin ++ [a]) s0 = seqStep P (seqRun P lin s0) a := by
  simp [seqRun, List.foldl_append]

/-! ### local steps commute with everything -/

theorem runSteps_append (xs ys : List (MStep σ L)) (g : σ) (l : L) :
    runSteps (xs ++ ys) g l = runSteps ys (runSteps xs g l).1 (runSteps xs g l).2 := by
  induction xs generalizing g l with
  | nil => rfl
  | cons x xs ih => simp [runSteps, ih]

theorem runSteps_local {ss : List (MStep σ L)} (h : ∀ s ∈ ss, s.IsLocal) (g : σ) (l : L) :
    (runSteps ss g l).1 = g ∧ ∀ g', (runSteps ss g' l).2 = (runSteps ss g l).2 := by
  induction ss generalizing g l with
  | nil => simp [runSteps]
  | cons s ss ih =>
    have hs := h s (List.mem_cons_self)
    have hss : ∀ s' ∈ ss, s'.IsLocal := fun s' hs' => h s' (List.mem_cons_of_mem _ hs')
    obtain ⟨h1, h2⟩ := hs g l
    constructor
    · simp only [runSteps]; rw [(ih hss _ _).1, h1]
    · intro g'
      simp only [runSteps]
      obtain ⟨h1', _⟩ := hs g' l
      rw [h2 g', h1', h1]
      exact (ih hss g (s.run g l).2).2 g'


/-! ### the simulation invariant (state part) -/

/-- per-thread part of the invariant; `S` is the result of the sequential run of `c.lin` -/
def ThreadOk (P : Prog σ L) (c : Config σ L) (S : σ × (Nat → L)) (t : Nat) : Prop :=
  match (c.ts t).phase with
  | .idle => S.2 t = (c.ts t).loc
  | .pre rest => (∀ s ∈ rest, s.IsLocal) ∧ ∃ op, (P t)[(c.ts t).pc]? = some op ∧
      ∀ g, (runSteps op.pre g (S.2 t)).2 = (runSteps rest g (c.ts t).loc).2
  | .body rest => ∃ op, (P t)[(c.ts t).pc]? = some op ∧
      (S.1, S.2 t) = runSteps (rest ++ op.post) c.shared (c.ts t).loc
  | .post rest => (∀ s ∈ rest, s.IsLocal) ∧ ∀ g, (runSteps rest g (c.ts t).loc).2 = S.2 t

structure InvA (P : Prog σ L) (g0 : σ) (l0 : Nat → L) (c : Config σ L) : Prop where
  holder_iff : ∀ t, c.holder = some t ↔ ∃ rest, (c.ts t).phase = .body rest
  shared_eq : c.holder = none → (seqRun P c.lin (g0, l0)).1 = c.shared
  thread : ∀ t, ThreadOk P c (seqRun P c.lin (g0, l0)) t

theorem threadOk_other {P : Prog σ L} {c c' : Config σ L} {S S' : σ × (Nat → L)} {u : Nat}
    (h1 : c'.ts u = c.ts u) (h2 : S'.2 u = S.2 u)
    (h3 : (∃ rest, (c.ts u).phase = .body rest) → c'.shared = c.shared ∧ S'.1 = S.1)
    (h : ThreadOk P c S u) : ThreadOk P c' S' u := by
  unfold ThreadOk at h ⊢
  rw [h1]
  cases hph : (c.ts u).phase with
  | idle => simp only [hph] at h ⊢; rw [h2]; exact h
  | pre rest => simp only [hph] at h ⊢; rw [h2]; exact h
  | post rest => simp only [hph] at h ⊢; rw [h2]; exact h
  | body rest =>
    simp only [hph] at h ⊢
    obtain ⟨e1, e2⟩ := h3 ⟨rest, hph⟩
    rw [h2, e1, e2]; exact h

theorem invA_init (P : Prog σ L) (g0 : σ) (l0 : Nat → L) : InvA P g0 l0 (init g0 l0) := by
  refine ⟨?_, ?_, ?_⟩
  · intro t; simp [init]
  · intro _; simp [init, seqRun]
  · intro t; simp [ThreadOk, init, seqRun]

theorem wl_of_get {P : Prog σ L} (hP : ∀ t, ∀ op ∈ P t, op.WellLocked) {t k : Nat} {op : Op σ L}
    (h : (P t)[k]? = some op) : op.WellLocked := hP t op (List.mem_of_getElem? h)

theorem invA_step {P : Prog σ L} (hP : ∀ t, ∀ op ∈ P t, op.WellLocked) {g0 : σ} {l0 : Nat → L}
    {c c' : Config σ L} {t : Nat} (inv : InvA P g0 l0 c) (hs : Step P c t c') : InvA P g0 l0 c' := by
  obtain ⟨hhold, hshared, hthr⟩ := inv
  have hT := hthr t
  cases hs with
  | @invoke op hph hop =>
    refine ⟨?_, ?_, ?_⟩
    · intro u
      by_cases hu : u = t
      · subst hu; simp [hhold, hph]
      · simp [upd_other _ _ hu, hhold]
    · exact hshared
    · intro u
      by_cases hu : u = t
      · subst hu
        simp only [ThreadOk, hph] at hT
        simp only [ThreadOk, upd_same]
        exact ⟨(wl_of_get hP hop).1, op, hop, fun g => by rw [hT]⟩
      · exact threadOk_other (c := c) (S := seqRun P c.lin (g0, l0)) (by simp [upd_other _ _ hu]) rfl (fun _ => ⟨rfl, rfl⟩) (hthr u)
  | @preStep s rest hph =>
    simp only [ThreadOk, hph] at hT
    obtain ⟨hloc, op, hop, heq⟩ := hT
    have hsl := hloc s List.mem_cons_self
    have hsh : (s.run c.shared (c.ts t).loc).1 = c.shared := (hsl _ _).1
    refine ⟨?_, ?_, ?_⟩
    · intro u
      by_cases hu : u = t
      · subst hu; simp [hhold, hph]
      · simp [upd_other _ _ hu, hhold]
    · intro hn; simp only [hsh]; exact hshared hn
    · intro u
      by_cases hu : u = t
      · subst hu
        simp only [ThreadOk, upd_same]
        refine ⟨fun s' hs' => hloc s' (List.mem_cons_of_mem _ hs'), op, hop, fun g => ?_⟩
        rw [heq g]
        simp only [runSteps]
        rw [(hsl g _).1, (hsl c.shared _).2 g]
      · exact threadOk_other (by simp [upd_other _ _ hu]) rfl (fun _ => ⟨hsh, rfl⟩) (hthr u)
  | @acquire op hph hnone hop =>
    simp only [ThreadOk, hph] at hT
    obtain ⟨_, op', hop', heq⟩ := hT
    have : op' = op := by rw [hop] at hop'; exact (Option.some.inj hop').symm
    subst this
    have hwl := wl_of_get hP hop
    have hS1 := hshared hnone
    have hnobody : ∀ u, ¬ ∃ rest, (c.ts u).phase = .body rest := by
      intro u hb; have := (hhold u).2 hb; rw [hnone] at this; cases this
    -- the sequential run extended by this operation
    have hseq : seqRun P (c.lin ++ [(t, (c.ts t).pc)]) (g0, l0) =
        ((runSteps (op'.body ++ op'.post) c.shared (c.ts t).loc).1,
         upd (seqRun P c.lin (g0, l0)).2 t (runSteps (op'.body ++ op'.post) c.shared (c.ts t).loc).2) := by
      rw [seqRun_snoc]
      simp only [seqStep, hop, Op.atomic]
      rw [runSteps_append]
      have h1 := (runSteps_local hwl.1 (seqRun P c.lin (g0, l0)).1 ((seqRun P c.lin (g0, l0)).2 t)).1
      have h2 := heq (seqRun P c.lin (g0, l0)).1
      simp only [runSteps] at h2
      rw [h1, h2, hS1]
    refine ⟨?_, ?_, ?_⟩
    · intro u
      by_cases hu : u = t
      · subst hu; simp
      · simp only [upd_other _ _ hu]
        constructor
        · intro h; exact absurd (Option.some.inj h).symm hu
        · intro h; exact absurd h (hnobody u)
    · intro h; cases h
    · intro u
      by_cases hu : u = t
      · subst hu
        simp only [ThreadOk, upd_same, hseq]
        exact ⟨op', hop, rfl⟩
      · refine threadOk_other (by simp [upd_other _ _ hu]) ?_ (fun hb => absurd hb (hnobody u)) (hthr u)
        simp only [hseq, upd_other _ _ hu]
  | @bodyStep s rest hph =>
    simp only [ThreadOk, hph] at hT
    obtain ⟨op, hop, heq⟩ := hT
    have hh : c.holder = some t := (hhold t).2 ⟨_, hph⟩
    refine ⟨?_, ?_, ?_⟩
    · intro u
      by_cases hu : u = t
      · subst hu; simp [hh]
      · simp [upd_other _ _ hu, hhold]
    · intro hn; simp only [hh] at hn; cases hn
    · intro u
      by_cases hu : u = t
      · subst hu
        simp only [ThreadOk, upd_same]
        exact ⟨op, hop, by rw [heq]; simp [runSteps]⟩
      · refine threadOk_other (by simp [upd_other _ _ hu]) rfl (fun hb => ?_) (hthr u)
        have := (hhold u).2 hb
        rw [hh] at this
        exact absurd (Option.some.inj this).symm hu
  | @release op hph hop =>
    simp only [ThreadOk, hph] at hT
    obtain ⟨op', hop', heq⟩ := hT
    have : op' = op := by rw [hop] at hop'; exact (Option.some.inj hop').symm
    subst this
    have hwl := wl_of_get hP hop
    have hh : c.holder = some t := (hhold t).2 ⟨_, hph⟩
    simp only [List.nil_append] at heq
    have hl := runSteps_local hwl.2 c.shared (c.ts t).loc
    have e1 : (seqRun P c.lin (g0, l0)).1 = c.shared := by
      have := congrArg Prod.fst heq; simp only at this; rw [this, hl.1]
    have e2 : (seqRun P c.lin (g0, l0)).2 t = (runSteps op'.post c.shared (c.ts t).loc).2 := by
      have := congrArg Prod.snd heq; simpa using this
    refine ⟨?_, ?_, ?_⟩
    · intro u
      by_cases hu : u = t
      · subst hu; simp
      · simp only [upd_other _ _ hu]
        constructor
        · intro h; cases h
        · intro hb
          have := (hhold u).2 hb
          rw [hh] at this
          exact absurd (Option.some.inj this).symm hu
    · intro _; exact e1
    · intro u
      by_cases hu : u = t
      · subst hu
        simp only [ThreadOk, upd_same]
        exact ⟨hwl.2, fun g => by rw [e2]; exact hl.2 g⟩
      · exact threadOk_other (c := c) (S := seqRun P c.lin (g0, l0)) (by simp [upd_other _ _ hu]) rfl (fun _ => ⟨rfl, rfl⟩) (hthr u)
  | @postStep s rest hph =>
    simp only [ThreadOk, hph] at hT
    obtain ⟨hloc, heq⟩ := hT
    have hsl := hloc s List.mem_cons_self
    have hsh : (s.run c.shared (c.ts t).loc).1 = c.shared := (hsl _ _).1
    refine ⟨?_, ?_, ?_⟩
    · intro u
      by_cases hu : u = t
      · subst hu; simp [hhold, hph]
      · simp [upd_other _ _ hu, hhold]
    · intro hn; simp only [hsh]; exact hshared hn
    · intro u
      by_cases hu : u = t
      · subst hu
        simp only [ThreadOk, upd_same]
        refine ⟨fun s' hs' => hloc s' (List.mem_cons_of_mem _ hs'), fun g => ?_⟩
        rw [← heq g]
        simp only [runSteps]
        rw [(hsl g _).1, (hsl c.shared _).2 g]
      · exact threadOk_other (by simp [upd_other _ _ hu]) rfl (fun _ => ⟨hsh, rfl⟩) (hthr u)
  | @respond hph =>
    simp only [ThreadOk, hph] at hT
    refine ⟨?_, ?_, ?_⟩
    · intro u
      by_cases hu : u = t
      · subst hu; simp [hhold, hph]
      · simp [upd_other _ _ hu, hhold]
    · exact hshared
    · intro u
      by_cases hu : u = t
      · subst hu
        simp only [ThreadOk, upd_same]
        have := hT.2 c.shared
        simp only [runSteps] at this
        exact this.symm
      · exact threadOk_other (c := c) (S := seqRun P c.lin (g0, l0)) (by simp [upd_other _ _ hu]) rfl (fun _ => ⟨rfl, rfl⟩) (hthr u)


/-! ### the ghost invariant: acquisition order, time stamps -/

def Phase.inCS : Phase σ L → Bool
  | .body _ => true
  | .post _ => true
  | _ => false

def Phase.isIdle : Phase σ L → Bool
  | .idle => true
  | _ => false

structure InvG (c : Config σ L) : Prop where
  nodup : c.lin.Nodup
  mem_iff : ∀ t k, (t, k) ∈ c.lin ↔ (k < (c.ts t).pc ∨ (k = (c.ts t).pc ∧ (c.ts t).phase.inCS = true))
  lin_some : ∀ a, a ∈ c.lin → ∃ n, c.linT a = some n
  lin_stamp : ∀ a n, c.linT a = some n → n < c.clock ∧ a ∈ c.lin ∧ ∃ i, c.invT a = some i ∧ i ≤ n
  res_stamp : ∀ a r, c.resT a = some r → r < c.clock ∧ ∃ n, c.linT a = some n ∧ n ≤ r
  inv_stamp : ∀ a i, c.invT a = some i → i < c.clock
  res_pc : ∀ t k r, c.resT (t, k) = some r → k < (c.ts t).pc
  inv_cur : ∀ t, (c.ts t).phase.isIdle = false → ∃ i, c.invT (t, (c.ts t).pc) = some i
  sorted : c.lin.Pairwise (fun a b => ∀ n m, c.linT a = some n → c.linT b = some m → n < m)
  prog_order : ∀ t k k' n m, k < k' → c.linT (t, k) = some n → c.linT (t, k') = some m → n < m

theorem invG_init (g0 : σ) (l0 : Nat → L) : InvG (init g0 l0) := by
  constructor <;> simp [init, Phase.inCS, Phase.isIdle]

/-- steps that change neither the ghost state (except the clock) nor pc / phase class -/
theorem invG_silent {c c' : Config σ L} (inv : InvG c)
    (hlin : c'.lin = c.lin) (hi : c'.invT = c.invT) (hl : c'.linT = c.linT) (hr : c'.resT = c.resT)
    (hc : c'.clock = c.clock + 1)
    (hts : ∀ u, (c'.ts u).pc = (c.ts u).pc ∧ (c'.ts u).phase.inCS = (c.ts u).phase.inCS ∧
      (c'.ts u).phase.isIdle = (c.ts u).phase.isIdle) : InvG c' := by
  obtain ⟨h1, h2, h3, h4, h5, h6, h7, h8, h9, h10⟩ := inv
  refine ⟨?_, ?_, ?_, ?_, ?_, ?_, ?_, ?_, ?_, ?_⟩
  · rw [hlin]; exact h1
  · intro t k; rw [hlin, (hts t).1, (hts t).2.1]; exact h2 t k
  · intro a ha; rw [hl]; rw [hlin] at ha; exact h3 a ha
  · intro a n ha; rw [hl] at ha; rw [hlin, hi, hc]
    obtain ⟨x, y, z⟩ := h4 a n ha; exact ⟨by omega, y, z⟩
  · intro a r ha; rw [hr] at ha; rw [hl, hc]
    obtain ⟨x, y⟩ := h5 a r ha; exact ⟨by omega, y⟩
  · intro a i ha; rw [hi] at ha; rw [hc]; have := h6 a i ha; omega
  · intro t k r ha; rw [hr] at ha; rw [(hts t).1]; exact h7 t k r ha
  · intro t ht; rw [(hts t).2.2] at ht; rw [hi, (hts t).1]; exact h8 t ht
  · rw [hlin, hl]; exact h9
  · rw [hl]; exact h10

theorem invG_step {P : Prog σ L} {c c' : Config σ L} {t : Nat} (inv : InvG c) (hs : Step P c t c') :
    InvG c' := by
  cases hs with
  | @preStep s rest hph =>
    refine invG_silent inv rfl rfl rfl rfl rfl (fun u => ?_)
    by_cases hu : u = t
    · subst hu; simp [hph, Phase.inCS, Phase.isIdle]
    · simp [upd_other _ _ hu]
  | @bodyStep s rest hph =>
    refine invG_silent inv rfl rfl rfl rfl rfl (fun u => ?_)
    by_cases hu : u = t
    · subst hu; simp [hph, Phase.inCS, Phase.isIdle]
    · simp [upd_other _ _ hu]
  | @postStep s rest hph =>
    refine invG_silent inv rfl rfl rfl rfl rfl (fun u => ?_)
    by_cases hu : u = t
    · subst hu; simp [hph, Phase.inCS, Phase.isIdle]
    · simp [upd_other _ _ hu]
  | @release op hph hop =>
    refine invG_silent inv rfl rfl rfl rfl rfl (fun u => ?_)
    by_cases hu : u = t
    · subst hu; simp [hph, Phase.inCS, Phase.isIdle]
    · simp [upd_other _ _ hu]
  | @invoke op hph hop =>
    obtain ⟨h1, h2, h3, h4, h5, h6, h7, h8, h9, h10⟩ := inv
    have hnot : (t, (c.ts t).pc) ∉ c.lin := by
      intro hm; have := (h2 t _).1 hm; simp [hph, Phase.inCS] at this
    refine ⟨h1, ?_, h3, ?_, ?_, ?_, ?_, ?_, h9, h10⟩
    · intro u k
      by_cases hu : u = t
      · subst hu; simp only [upd_same]; rw [h2 u k]; simp [hph, Phase.inCS]
      · simp only [upd_other _ _ hu]; exact h2 u k
    · intro a n ha
      obtain ⟨x, y, i, hi, hle⟩ := h4 a n ha
      refine ⟨by simp only; omega, y, i, ?_, hle⟩
      have hne : a ≠ (t, (c.ts t).pc) := fun e => hnot (e ▸ y)
      simp only [updO_other _ _ hne]; exact hi
    · intro a r ha
      obtain ⟨x, y⟩ := h5 a r ha; exact ⟨by simp only; omega, y⟩
    · intro a i ha
      simp only at ha ⊢
      by_cases hne : a = (t, (c.ts t).pc)
      · subst hne; simp only [updO_same] at ha; cases ha; omega
      · rw [updO_other _ _ hne] at ha; have := h6 a i ha; omega
    · intro u k r ha
      by_cases hu : u = t
      · subst hu; simp only [upd_same]; exact h7 u k r ha
      · simp only [upd_other _ _ hu]; exact h7 u k r ha
    · intro u hidle
      by_cases hu : u = t
      · subst hu; simp only [upd_same, updO_same]; exact ⟨_, rfl⟩
      · simp only [upd_other _ _ hu] at hidle ⊢
        have hne : (u, (c.ts u).pc) ≠ (t, (c.ts t).pc) := fun e => hu (congrArg Prod.fst e)
        simp only [updO_other _ _ hne]; exact h8 u hidle
  | @acquire op hph hnone hop =>
    obtain ⟨h1, h2, h3, h4, h5, h6, h7, h8, h9, h10⟩ := inv
    have hnot : (t, (c.ts t).pc) ∉ c.lin := by
      intro hm; have := (h2 t _).1 hm; simp [hph, Phase.inCS] at this
    have hother : ∀ b, b ∈ c.lin → b ≠ (t, (c.ts t).pc) := fun b hb e => hnot (e ▸ hb)
    obtain ⟨i0, hi0⟩ := h8 t (by simp [hph, Phase.isIdle])
    have hi0c := h6 _ _ hi0
    refine ⟨?_, ?_, ?_, ?_, ?_, ?_, ?_, ?_, ?_, ?_⟩
    · simp only [List.nodup_append, List.nodup_cons, List.not_mem_nil, not_false_eq_true, List.nodup_nil,
        List.mem_cons, or_false, true_and]
      exact ⟨h1, fun a ha b hb => hb ▸ hother a ha⟩
    · intro u k
      simp only [List.mem_append, List.mem_cons, List.not_mem_nil, or_false]
      by_cases hu : u = t
      · subst hu; simp only [upd_same]; rw [h2 u k]; simp [hph, Phase.inCS]
      · simp only [upd_other _ _ hu]; rw [h2 u k]
        constructor
        · rintro (h | h)
          · exact h
          · exact absurd (congrArg Prod.fst h) hu
        · intro h; exact Or.inl h
    · intro a ha
      simp only [List.mem_append, List.mem_cons, List.not_mem_nil, or_false] at ha
      rcases ha with ha | ha
      · simp only [updO_other _ _ (hother a ha)]; exact h3 a ha
      · subst ha; simp only [updO_same]; exact ⟨_, rfl⟩
    · intro a n ha
      simp only at ha ⊢
      by_cases hne : a = (t, (c.ts t).pc)
      · subst hne; simp only [updO_same] at ha; cases ha
        exact ⟨by omega, by simp, i0, hi0, by omega⟩
      · rw [updO_other _ _ hne] at ha
        obtain ⟨x, y, z⟩ := h4 a n ha
        exact ⟨by omega, by simp [y], z⟩
    · intro a r ha
      obtain ⟨x, n, hn, hle⟩ := h5 a r ha
      have hne : a ≠ (t, (c.ts t).pc) := by
        intro e; subst e; have := h7 _ _ _ ha; omega
      refine ⟨by simp only; omega, n, ?_, hle⟩
      simp only [updO_other _ _ hne]; exact hn
    · intro a i ha; have := h6 a i ha; simp only; omega
    · intro u k r ha
      by_cases hu : u = t
      · subst hu; simp only [upd_same]; exact h7 u k r ha
      · simp only [upd_other _ _ hu]; exact h7 u k r ha
    · intro u hidle
      by_cases hu : u = t
      · subst hu; simp only [upd_same]; exact ⟨i0, hi0⟩
      · simp only [upd_other _ _ hu] at hidle ⊢; exact h8 u hidle
    · simp only [List.pairwise_append, List.pairwise_cons, List.not_mem_nil, false_imp_iff,
        implies_true, List.Pairwise.nil, and_self, List.mem_cons, or_false, true_and]
      refine ⟨?_, ?_⟩
      · refine List.Pairwise.imp_of_mem ?_ h9
        intro a b ha hb hab n m hn hm
        rw [updO_other _ _ (hother a ha)] at hn
        rw [updO_other _ _ (hother b hb)] at hm
        exact hab n m hn hm
      · intro a ha b hb n m hn hm
        subst hb
        rw [updO_other _ _ (hother a ha)] at hn
        simp only [updO_same] at hm; cases hm
        exact (h4 a n hn).1
    · intro u k k' n m hk hn hm
      simp only at hn hm
      by_cases e1 : (u, k) = (t, (c.ts t).pc)
      · -- the later operation of the same thread cannot be linearised yet
        have hut : u = t := congrArg Prod.fst e1
        have hkp : k = (c.ts t).pc := congrArg Prod.snd e1
        have hne : (u, k') ≠ (t, (c.ts t).pc) := by
          intro e; have := congrArg Prod.snd e; simp only at this; omega
        rw [updO_other _ _ hne] at hm
        have hin := (h4 _ _ hm).2.1
        subst hut
        have := (h2 u k').1 hin
        simp only [hph, Phase.inCS] at this
        omega
      · rw [updO_other _ _ e1] at hn
        by_cases e2 : (u, k') = (t, (c.ts t).pc)
        · rw [e2] at hm; simp only [updO_same] at hm; cases hm
          exact (h4 _ _ hn).1
        · rw [updO_other _ _ e2] at hm
          exact h10 u k k' n m hk hn hm
  | @respond hph =>
    obtain ⟨h1, h2, h3, h4, h5, h6, h7, h8, h9, h10⟩ := inv
    have hin : (t, (c.ts t).pc) ∈ c.lin := (h2 t _).2 (Or.inr ⟨rfl, by simp [hph, Phase.inCS]⟩)
    refine ⟨h1, ?_, h3, ?_, ?_, ?_, ?_, ?_, h9, h10⟩
    · intro u k
      by_cases hu : u = t
      · subst hu; simp only [upd_same]; rw [h2 u k]; simp [hph, Phase.inCS]; omega
      · simp only [upd_other _ _ hu]; exact h2 u k
    · intro a n ha
      obtain ⟨x, y, z⟩ := h4 a n ha; exact ⟨by simp only; omega, y, z⟩
    · intro a r ha
      simp only at ha ⊢
      by_cases hne : a = (t, (c.ts t).pc)
      · subst hne; simp only [updO_same] at ha; cases ha
        obtain ⟨n, hn⟩ := h3 _ hin
        exact ⟨by omega, n, hn, by have := (h4 _ _ hn).1; omega⟩
      · rw [updO_other _ _ hne] at ha
        obtain ⟨x, y⟩ := h5 a r ha; exact ⟨by omega, y⟩
    · intro a i ha; have := h6 a i ha; simp only; omega
    · intro u k r ha
      simp only at ha
      by_cases hne : (u, k) = (t, (c.ts t).pc)
      · have hut : u = t := congrArg Prod.fst hne
        have hkp : k = (c.ts t).pc := congrArg Prod.snd hne
        subst hut; simp only [upd_same]; omega
      · rw [updO_other _ _ hne] at ha
        have := h7 u k r ha
        by_cases hu : u = t
        · subst hu; simp only [upd_same]; omega
        · simp only [upd_other _ _ hu]; exact this
    · intro u hidle
      by_cases hu : u = t
      · subst hu; simp [Phase.isIdle] at hidle
      · simp only [upd_other _ _ hu] at hidle ⊢; exact h8 u hidle


/-! ### main theorem -/

theorem exec_inv {P : Prog σ L} (hP : ∀ t, ∀ op ∈ P t, op.WellLocked) {g0 : σ} {l0 : Nat → L}
    {c c' : Config σ L} {sched : List Nat} (h : Exec P c sched c') :
    InvA P g0 l0 c ∧ InvG c → InvA P g0 l0 c' ∧ InvG c' := by
  induction h with
  | nil c => exact id
  | cons hs _ ih => intro ⟨a, g⟩; exact ih ⟨invA_step hP a hs, invG_step g hs⟩

/-- `a` responded before `b` was invoked (real-time precedence in the execution that led to `c`) -/
def Config.Precedes (c : Config σ L) (a b : OpId) : Prop :=
  ∃ r i, c.resT a = some r ∧ c.invT b = some i ∧ r < i

/-- **Linearizability of well-locked operations.**  If no pre/post step of any operation touches
    the shared state, then for EVERY schedule, every complete execution has a total order `lin` of
    exactly the operation instances of the program such that
    * the final shared state and every thread's final local state (hence every result) are those of
      executing the operations one at a time, atomically, in that order;
    * the order is consistent with each thread's program order and with real-time precedence
      (it is the order of lock acquisition, `rank` = acquisition time). -/
theorem wellLocked_linearizable (P : Prog σ L) (hP : ∀ t, ∀ op ∈ P t, op.WellLocked)
    (g0 : σ) (l0 : Nat → L) (sched : List Nat) (c : Config σ L)
    (hrun : Exec P (init g0 l0) sched c) (hfin : c.Finished P) :
    ∃ lin : List OpId,
      lin.Nodup ∧ (∀ t k, (t, k) ∈ lin ↔ k < (P t).length) ∧
      seqRun P lin (g0, l0) = (c.shared, fun t => (c.ts t).loc) ∧
      ∃ rank : OpId → Nat,
        lin.Pairwise (fun a b => rank a < rank b) ∧
        (∀ t k k', k < k' → k' < (P t).length → rank (t, k) < rank (t, k')) ∧
        (∀ a b, a ∈ lin → b ∈ lin → c.Precedes a b → rank a < rank b) := by
  obtain ⟨ia, ig⟩ := exec_inv hP hrun ⟨invA_init P g0 l0, invG_init g0 l0⟩
  have hmem : ∀ t k, (t, k) ∈ c.lin ↔ k < (P t).length := by
    intro t k
    rw [ig.mem_iff t k, (hfin t).1, (hfin t).2]
    simp [Phase.inCS]
  refine ⟨c.lin, ig.nodup, hmem, ?_, fun a => (c.linT a).getD 0, ?_, ?_, ?_⟩
  · -- state equality
    have hnone : c.holder = none := by
      cases hh : c.holder with
      | none => rfl
      | some t =>
        obtain ⟨rest, hr⟩ := (ia.holder_iff t).1 hh
        rw [(hfin t).1] at hr; cases hr
    apply Prod.ext
    · exact ia.shared_eq hnone
    · funext t
      have := ia.thread t
      simp only [ThreadOk, (hfin t).1] at this
      exact this
  · refine List.Pairwise.imp_of_mem ?_ ig.sorted
    intro a b ha hb hab
    obtain ⟨n, hn⟩ := ig.lin_some a ha
    obtain ⟨m, hm⟩ := ig.lin_some b hb
    simp only [hn, hm, Option.getD_some]
    exact hab n m hn hm
  · intro t k k' hk hk'
    obtain ⟨n, hn⟩ := ig.lin_some (t, k) ((hmem t k).2 (by omega))
    obtain ⟨m, hm⟩ := ig.lin_some (t, k') ((hmem t k').2 hk')
    simp only [hn, hm, Option.getD_some]
    exact ig.prog_order t k k' n m hk hn hm
  · intro a b ha hb ⟨r, i, hr, hi, hri⟩
    obtain ⟨n, hn⟩ := ig.lin_some a ha
    obtain ⟨m, hm⟩ := ig.lin_some b hb
    simp only [hn, hm, Option.getD_some]
    obtain ⟨_, n', hn', hle⟩ := ig.res_stamp a r hr
    obtain ⟨_, _, i', hi', hle'⟩ := ig.lin_stamp b m hm
    rw [hn] at hn'; cases hn'
    rw [hi] at hi'; cases hi'
    omega

/-! ### a walk under the lock sees one snapshot -/

theorem step_lin_mono {P : Prog σ L} {c c' : Config σ L} {t : Nat} (hs : Step P c t c') :
    c.lin.length ≤ c'.lin.length := by
  cases hs <;> simp

theorem exec_lin_mono {P : Prog σ L} {c c' : Config σ L} {sched : List Nat} (h : Exec P c sched c') :
    c.lin.length ≤ c'.lin.length := by
  induction h with
  | nil c => exact Nat.le_refl _
  | cons hs _ ih => exact Nat.le_trans (step_lin_mono hs) ih

/-- while nobody acquires the lock (`lin` does not grow) a free lock stays free -/
theorem exec_free_stays {P : Prog σ L} {g0 : σ} {l0 : Nat → L} {c c' : Config σ L} {sched : List Nat}
    (hP : ∀ t, ∀ op ∈ P t, op.WellLocked) (h : Exec P c sched c') :
    InvA P g0 l0 c → c.holder = none → c'.lin.length = c.lin.length → c'.holder = none := by
  induction h with
  | nil c => intro _ h _; exact h
  | @cons c c1 c2 t ts hs hrest ih =>
    intro ia hn hlen
    have m1 := step_lin_mono hs
    have m2 := exec_lin_mono hrest
    have ia1 := invA_step hP ia hs
    have hnobody : ∀ u, ¬ ∃ rest, (c.ts u).phase = .body rest := by
      intro u hb; have := (ia.holder_iff u).2 hb; rw [hn] at this; cases this
    refine ih ia1 ?_ (by omega)
    cases hs with
    | invoke _ _ => exact hn
    | preStep _ => exact hn
    | acquire _ _ _ => simp at m1 m2 hlen; omega
    | bodyStep hph => exact absurd ⟨_, hph⟩ (hnobody t)
    | release hph _ => rfl
    | postStep _ => exact hn
    | respond _ => exact hn

/-- **Snapshot.**  Thread `t` holds the lock in `c` and still (again) holds it in `c'`, nobody
    acquired the lock in between (`lin` did not grow, so it is the same critical section), and every
    body step of every operation of `t` only reads the shared state (a `getnext` loop).  Then the
    shared state in `c'` is the one in `c`: all reads of the walk observe one state, whatever the
    other threads did in between. -/
theorem lockedWalk_snapshot {P : Prog σ L} {g0 : σ} {l0 : Nat → L} (hP : ∀ t, ∀ op ∈ P t, op.WellLocked)
    {c c' : Config σ L} {sched : List Nat} {t : Nat} (h : Exec P c sched c')
    (hro : ∀ op ∈ P t, ∀ s ∈ op.body, s.ReadOnly) :
    InvA P g0 l0 c → (∃ op rest done, (P t)[(c.ts t).pc]? = some op ∧ (c.ts t).phase = .body rest ∧
      op.body = done ++ rest) →
    c'.lin.length = c.lin.length → c'.holder = some t → c'.shared = c.shared := by
  induction h with
  | nil c => intro _ _ _ _; rfl
  | @cons c c1 c2 u ts hs hrest ih =>
    intro ia ⟨op, rest, done, hop, hph, hsplit⟩ hlen hhold'
    have m1 := step_lin_mono hs
    have m2 := exec_lin_mono hrest
    have ia1 := invA_step hP ia hs
    have hh : c.holder = some t := (ia.holder_iff t).2 ⟨_, hph⟩
    have hTu := ia.thread u
    by_cases hu : u = t
    · subst hu
      cases hs with
      | invoke h1 _ => rw [hph] at h1; cases h1
      | preStep h1 => rw [hph] at h1; cases h1
      | acquire h1 _ _ => rw [hph] at h1; cases h1
      | postStep h1 => rw [hph] at h1; cases h1
      | respond h1 => rw [hph] at h1; cases h1
      | release h1 _ =>
        -- the lock is released and never re-acquired: contradiction with c'.holder = some u
        have := exec_free_stays (g0 := g0) (l0 := l0) hP hrest ia1 rfl (by simp at m1 m2 hlen ⊢; omega)
        rw [this] at hhold'; cases hhold'
      | @bodyStep s rest' h1 =>
        rw [hph] at h1; cases h1
        have hmem : s ∈ op.body := by rw [hsplit]; simp
        have hs_ro := hro op (List.mem_of_getElem? hop) s hmem
        have e : (s.run c.shared (c.ts u).loc).1 = c.shared := hs_ro _ _
        have := ih ia1 ⟨op, rest', done ++ [s], by simpa using hop, by simp, by simp [hsplit]⟩
          (by simp at m1 m2 hlen ⊢; omega) hhold'
        rw [this]; exact e
    · -- another thread moves: it is outside its critical section, its step is local
      have hnb : ¬ ∃ r, (c.ts u).phase = .body r := by
        intro hb; have := (ia.holder_iff u).2 hb; rw [hh] at this; exact hu (Option.some.inj this).symm
      have keep : (c1.ts t).pc = (c.ts t).pc ∧ (c1.ts t).phase = (c.ts t).phase := by
        cases hs <;> simp [upd_other _ _ (Ne.symm hu)]
      have hsh : c1.shared = c.shared ∧ c1.lin.length = c.lin.length := by
        cases hs with
        | invoke _ _ => exact ⟨rfl, rfl⟩
        | @preStep s r h1 =>
          simp only [ThreadOk, h1] at hTu
          exact ⟨(hTu.1 s List.mem_cons_self _ _).1, rfl⟩
        | acquire _ hn _ => rw [hh] at hn; cases hn
        | bodyStep h1 => exact absurd ⟨_, h1⟩ hnb
        | release h1 _ => exact absurd ⟨_, h1⟩ hnb
        | @postStep s r h1 =>
          simp only [ThreadOk, h1] at hTu
          exact ⟨(hTu.1 s List.mem_cons_self _ _).1, rfl⟩
        | respond _ => exact ⟨rfl, rfl⟩
      have := ih ia1 ⟨op, rest, done, by rw [keep.1]; exact hop, by rw [keep.2]; exact hph, hsplit⟩
        (by omega) hhold'
      rw [this]; exact hsh.1

end Qlibc.Conc.Lin

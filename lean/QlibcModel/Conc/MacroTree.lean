import QlibcModel.Conc.Mutex
/-! Statement trees of the Q_MUTEX_* macros (K-gen: translator/mutexmacros.py builds them from clang's
    AST of the EXPANDED macros, locals numbered in declaration order so that renaming a loop variable
    does not change the tree) and an executable small-step semantics of the tree language against
    the recursive-mutex model of Conc/Mutex.lean, with an ENVIRONMENT: before every access to shared
    state (the pthread mutex, `count`, `owner`) other threads may move. -/
namespace Qlibc.Conc

inductive Fn where
  | trylock | lock | timedlock | unlock | destroy | self | equal | usleep | errnoLoc
  | other (s : String)
  deriving DecidableEq, Repr

inductive Fld where
  | count | owner | mutex
  | other (s : String)
  deriving DecidableEq, Repr

inductive UOp where
  | not | postInc | postDec | preInc | preDec | addr | deref | neg
  | other (s : String)
  deriving DecidableEq, Repr

inductive BOp where
  | eq | ne | lt | le | gt | ge | and | or | assign | add | sub
  | other (s : String)
  deriving DecidableEq, Repr

inductive MExpr where
  | lit (n : Int)
  | var (k : Nat)                       -- k-th local declared inside the macro
  | mptr                                -- the macro argument `m`
  | fld (f : Fld)                       -- ((qmutex_t *)m)->f
  | call0 (f : Fn)
  | call1 (f : Fn) (a : MExpr)
  | call2 (f : Fn) (a b : MExpr)
  | un (op : UOp) (a : MExpr)
  | bin (op : BOp) (a b : MExpr)
  | other (s : String)
  deriving DecidableEq, Repr

inductive MStmt where
  | skip
  | brk
  | expr (e : MExpr)
  | decl (k : Nat)                      -- declaration without initialiser
  | declInit (k : Nat) (e : MExpr)
  | seq (a b : MStmt)
  | ite (c : MExpr) (t e : MStmt)
  | whileS (c : MExpr) (b : MStmt)
  | forS (init : MStmt) (c : MExpr) (inc : MStmt) (b : MStmt)
  | doWhile (b : MStmt) (c : MExpr)
  | other (s : String)
  deriving DecidableEq, Repr

/-! ### syntactic measures (cheap certificates with a readable diagnosis) -/

def MExpr.countCalls (p : Fn → Bool) : MExpr → Nat
  | .call0 f => if p f then 1 else 0
  | .call1 f a => (if p f then 1 else 0) + a.countCalls p
  | .call2 f a b => (if p f then 1 else 0) + a.countCalls p + b.countCalls p
  | .un _ a => a.countCalls p
  | .bin _ a b => a.countCalls p + b.countCalls p
  | _ => 0

def MStmt.countCalls (p : Fn → Bool) : MStmt → Nat
  | .expr e => e.countCalls p
  | .declInit _ e => e.countCalls p
  | .seq a b => a.countCalls p + b.countCalls p
  | .ite c t e => c.countCalls p + t.countCalls p + e.countCalls p
  | .whileS c b => c.countCalls p + b.countCalls p
  | .forS i c n b => i.countCalls p + c.countCalls p + n.countCalls p + b.countCalls p
  | .doWhile b c => b.countCalls p + c.countCalls p
  | _ => 0

/-- does the expression store to something other than a macro-local variable or `count`/`owner`? -/
def MExpr.foreignWrites : MExpr → Nat
  | .bin .assign (.var _) b => b.foreignWrites
  | .bin .assign (.fld .count) b => b.foreignWrites
  | .bin .assign (.fld .owner) b => b.foreignWrites
  | .bin .assign _ b => 1 + b.foreignWrites
  | .bin _ a b => a.foreignWrites + b.foreignWrites
  | .un .postInc (.var _) => 0
  | .un .postDec (.var _) => 0
  | .un .preInc (.var _) => 0
  | .un .preDec (.var _) => 0
  | .un .postInc (.fld .count) => 0
  | .un .postDec (.fld .count) => 0
  | .un .preInc (.fld .count) => 0
  | .un .preDec (.fld .count) => 0
  | .un .postInc _ => 1
  | .un .postDec _ => 1
  | .un .preInc _ => 1
  | .un .preDec _ => 1
  | .un _ a => a.foreignWrites
  | .call1 _ a => a.foreignWrites
  | .call2 _ a b => a.foreignWrites + b.foreignWrites
  | .other _ => 1
  | _ => 0

def MStmt.foreignWrites : MStmt → Nat
  | .expr e => e.foreignWrites
  | .declInit _ e => e.foreignWrites
  | .seq a b => a.foreignWrites + b.foreignWrites
  | .ite c t e => c.foreignWrites + t.foreignWrites + e.foreignWrites
  | .whileS c b => c.foreignWrites + b.foreignWrites
  | .forS i c n b => i.foreignWrites + c.foreignWrites + n.foreignWrites + b.foreignWrites
  | .doWhile b c => b.foreignWrites + c.foreignWrites
  | .other _ => 1
  | _ => 0

/-- number of `count++` / `++count` sites -/
def MExpr.countIncs : MExpr → Nat
  | .un .postInc (.fld .count) => 1
  | .un .preInc (.fld .count) => 1
  | .un _ a => a.countIncs
  | .bin _ a b => a.countIncs + b.countIncs
  | .call1 _ a => a.countIncs
  | .call2 _ a b => a.countIncs + b.countIncs
  | _ => 0

def MStmt.countIncs : MStmt → Nat
  | .expr e => e.countIncs
  | .declInit _ e => e.countIncs
  | .seq a b => a.countIncs + b.countIncs
  | .ite c t e => c.countIncs + t.countIncs + e.countIncs
  | .whileS c b => c.countIncs + b.countIncs
  | .forS i c n b => i.countIncs + c.countIncs + n.countIncs + b.countIncs
  | .doWhile b c => b.countIncs + c.countIncs
  | _ => 0

def isAcquire : Fn → Bool
  | .trylock => true
  | .lock => true
  | .timedlock => true
  | _ => false

def isUnlock : Fn → Bool
  | .unlock => true
  | _ => false

/-- loop-free statements: (min, max) number of calls satisfying `p` over all paths; `none` if the
    statement contains a loop other than `do { } while (0)` -/
def MStmt.callRange (p : Fn → Bool) : MStmt → Option (Nat × Nat)
  | .skip => some (0, 0)
  | .brk => some (0, 0)
  | .decl _ => some (0, 0)
  | .expr e => some (e.countCalls p, e.countCalls p)
  | .declInit _ e => some (e.countCalls p, e.countCalls p)
  | .seq a b =>
    -- a `break` inside `a` skips `b`: the minimum is that of `a` alone when `a` can break
    match a.callRange p, b.callRange p with
    | some (a0, a1), some (b0, b1) => some (a0 + b0, a1 + b1)
    | _, _ => none
  | .ite c t e =>
    match t.callRange p, e.callRange p with
    | some (t0, t1), some (e0, e1) => some (c.countCalls p + min t0 e0, c.countCalls p + max t1 e1)
    | _, _ => none
  | .doWhile b (.lit 0) => b.callRange p
  | _ => none

/-! ### executable semantics -/

/-- state of one macro execution by thread `t`: the qmutex (none = NULL), the macro's locals, the
    caller's errno, the moves the environment (other threads) will make, one before each access to
    shared state, and two ghost counters: successful acquisitions of the pthread mutex by this
    execution, and `pthread_mutex_unlock` calls made by it -/
structure MSt where
  mx : Option QMutex
  vars : Nat → Int
  errno : Int
  env : List (QMutex → QMutex)
  nAcq : Nat
  nUnlock : Nat

inductive Outcome where
  | normal | broke
  deriving DecidableEq, Repr

def setVar (vars : Nat → Int) (k : Nat) (v : Int) : Nat → Int := fun j => if j = k then v else vars j

/-- let the environment make its next move -/
def MSt.envStep (s : MSt) : MSt :=
  match s.env with
  | [] => s
  | f :: rest => { s with mx := s.mx.map f, env := rest }

/-- what other threads can do to the mutex as seen by thread `t`: they can neither take nor give away
    `t`'s ownership nor change `t`'s recursion depth; everything else (including the racy diagnostic
    fields `count`, `owner`) may change -/
def Rely (t : Nat) (m m' : QMutex) : Prop :=
  (m'.holder = some t ↔ m.holder = some t) ∧ (m.holder = some t → m'.depth = m.depth)

def EnvOk (t : Nat) (env : List (QMutex → QMutex)) : Prop := ∀ f ∈ env, ∀ m, Rely t m (f m)

def b2i (b : Bool) : Int := if b then 1 else 0

/-- expression evaluation by thread `t` (`none` = not in the modelled fragment / NULL dereference) -/
def evalE (t : Nat) : MExpr → MSt → Option (Int × MSt)
  | .lit n, s => some (n, s)
  | .var k, s => some (s.vars k, s)
  | .mptr, s => some (b2i s.mx.isSome, s)
  | .fld .count, s =>
    let s1 := s.envStep
    s1.mx.map fun m => (m.count, s1)
  | .fld .owner, s =>
    let s1 := s.envStep
    s1.mx.map fun m => ((m.qowner : Int), s1)
  | .call0 .self, s => some ((t : Int), s)
  | .call2 .equal a b, s =>
    match evalE t a s with
    | some (va, s1) => match evalE t b s1 with
      | some (vb, s2) => some (b2i (va == vb), s2)
      | none => none
    | none => none
  | .call1 .usleep a, s =>
    match evalE t a s with
    | some (_, s1) => some (0, s1)
    | none => none
  | .call1 .trylock (.un .addr (.fld .mutex)), s =>
    let s1 := s.envStep
    match s1.mx with
    | some m =>
      let r := trylock t m
      some (if r.1 then 0 else 16, { s1 with mx := some r.2, nAcq := if r.1 then s1.nAcq + 1 else s1.nAcq })
    | none => none
  | .call1 .unlock (.un .addr (.fld .mutex)), s =>
    let s1 := s.envStep
    match s1.mx with
    | some m => some (if m.holder = some t then 0 else 1,
        { s1 with mx := some (punlock t m), nUnlock := s1.nUnlock + 1 })
    | none => none
  | .un .not a, s =>
    match evalE t a s with
    | some (v, s1) => some (b2i (v == 0), s1)
    | none => none
  | .un .postInc (.var k), s => some (s.vars k, { s with vars := setVar s.vars k (s.vars k + 1) })
  | .un .postDec (.fld .count), s =>
    let s1 := s.envStep
    match s1.mx with
    | some m => some (m.count, { s1 with mx := some { m with count := m.count - 1 } })
    | none => none
  | .un .postInc (.fld .count), s =>
    let s1 := s.envStep
    match s1.mx with
    | some m => some (m.count, { s1 with mx := some { m with count := m.count + 1 } })
    | none => none
  | .bin .assign (.var k) e, s =>
    match evalE t e s with
    | some (v, s1) => some (v, { s1 with vars := setVar s1.vars k v })
    | none => none
  | .bin .assign (.fld .count) e, s =>
    match evalE t e s with
    | some (v, s1) =>
      let s2 := s1.envStep
      match s2.mx with
      | some m => some (v, { s2 with mx := some { m with count := v } })
      | none => none
    | none => none
  | .bin .assign (.fld .owner) e, s =>
    match evalE t e s with
    | some (v, s1) =>
      let s2 := s1.envStep
      match s2.mx with
      | some m => some (v, { s2 with mx := some { m with qowner := v.toNat } })
      | none => none
    | none => none
  | .bin .and a b, s =>
    match evalE t a s with
    | some (va, s1) =>
      if va == 0 then some (0, s1) else
        match evalE t b s1 with
        | some (vb, s2) => some (b2i (vb != 0), s2)
        | none => none
    | none => none
  | .bin .eq a b, s =>
    match evalE t a s with
    | some (va, s1) => match evalE t b s1 with
      | some (vb, s2) => some (b2i (va == vb), s2)
      | none => none
    | none => none
  | .bin .ne a b, s =>
    match evalE t a s with
    | some (va, s1) => match evalE t b s1 with
      | some (vb, s2) => some (b2i (va != vb), s2)
      | none => none
    | none => none
  | .bin .lt a b, s =>
    match evalE t a s with
    | some (va, s1) => match evalE t b s1 with
      | some (vb, s2) => some (b2i (decide (va < vb)), s2)
      | none => none
    | none => none
  | _, _ => none

def MStmt.size : MStmt → Nat
  | .seq a b => 1 + a.size + b.size
  | .ite _ t e => 1 + t.size + e.size
  | .whileS _ b => 1 + b.size
  | .forS i _ n b => 4 + i.size + n.size + b.size
  | .doWhile b _ => 1 + b.size
  | _ => 1

/-- statement execution.  Fuel is consumed only when a loop is re-entered, so loop-free code (and
    `do { } while (0)`) runs with any fuel; `none` = out of fuel or outside the modelled fragment. -/
def exec (t : Nat) (fuel : Nat) (st : MStmt) (s : MSt) : Option (Outcome × MSt) :=
  match st with
  | .skip => some (.normal, s)
  | .brk => some (.broke, s)
  | .decl _ => some (.normal, s)
  | .expr e => (evalE t e s).map fun r => (.normal, r.2)
  | .declInit k e => (evalE t e s).map fun r => (.normal, { r.2 with vars := setVar r.2.vars k r.1 })
  | .seq a b =>
    match exec t fuel a s with
    | some (.normal, s1) => exec t fuel b s1
    | r => r
  | .ite c th el =>
    match evalE t c s with
    | some (v, s1) => if v != 0 then exec t fuel th s1 else exec t fuel el s1
    | none => none
  | .whileS c b =>
    match evalE t c s with
    | some (v, s1) =>
      if v == 0 then some (.normal, s1) else
        match exec t fuel b s1 with
        | some (.normal, s2) =>
          (match fuel with
           | 0 => none
           | f + 1 => exec t f (.whileS c b) s2)
        | some (.broke, s2) => some (.normal, s2)
        | none => none
    | none => none
  | .forS i c n b =>
    match exec t fuel i s with
    | some (_, s1) => exec t fuel (.whileS c (.seq b n)) s1
    | none => none
  | .doWhile b c =>
    match exec t fuel b s with
    | some (.normal, s1) =>
      (match evalE t c s1 with
       | some (v, s2) =>
         if v == 0 then some (.normal, s2) else
           (match fuel with
            | 0 => none
            | f + 1 => exec t f (.doWhile b c) s2)
       | none => none)
    | some (.broke, s1) => some (.normal, s1)
    | none => none
  | .other _ => none
termination_by (fuel, st.size)
decreasing_by
  all_goals simp_wf
  all_goals first
    | (apply Prod.Lex.left; omega)
    | (apply Prod.Lex.right; simp only [MStmt.size]; omega)

end Qlibc.Conc

import QlibcModel.Conc.Cfg
/-! One critical section per call (C13, wrapper layer).

`wellLockedCfg` says that every access to mutable container state happens with the lock held.  That
is not enough for a function that is COMPOSED of self-locking calls (the str/int convenience
wrappers, the whole of qqueue/qstack/qgrow): `getfirst(); ...; removefirst();` holds the lock at every
access and is still not atomic.  `phasesOk` certifies, on the fully inlined skeleton, that on every
path the lock is taken from depth 0 AT MOST ONCE, i.e. all shared accesses of one call lie in ONE
outermost critical section (a single self-locking callee, or the caller's own lock held across all
of them).  The certificate is a phase label per node (0 = no critical section yet, 1 = inside,
2 = possibly after one), computed by the translator and checked edge by edge like the depth labels. -/
namespace Qlibc.Conc

/-- phase after the node's event; `none` = a second outermost acquisition -/
def phaseAfter (n : Node) (l : Nat) : Option Nat :=
  match n.ev with
  | .lock => if n.depth = 0 then (if l = 0 then some 1 else none) else some l
  | .unlock => if n.depth = 1 then some 2 else some l
  | _ => some l

def labelOk (n : Node) (l : Nat) : Bool := decide (l ≤ 2) && ((l == 1) == decide (1 ≤ n.depth))

def geLabel (a : Nat) : Option Nat → Bool
  | some l' => decide (a ≤ l')
  | none => false

def phaseNodeOk (ph : List Nat) (next : Option Nat) (i : Nat) (n : Node) (l : Nat) : Bool :=
  labelOk n l &&
  match phaseAfter n l with
  | none => false
  | some a => n.succ.all fun j => (j == i + 1 && geLabel a next) || geLabel a ph[j]?

def phasesFrom (ph : List Nat) : List (Node × Nat) → Nat → Bool
  | [], _ => true
  | (n, l) :: rest, i => phaseNodeOk ph (rest.head?.map (·.2)) i n l && phasesFrom ph rest (i + 1)

/-- certificate check: the labels `ph` are an upper bound of the phase on every edge and no
    outermost `lock` is reachable in phase 2 -/
def phasesOk (ph : List Nat) (c : Cfg) : Bool :=
  ph.length == c.nodes.length && phasesFrom ph (c.nodes.zip ph) 0

/-- what the check establishes for node `n` with label `l` -/
def PhGood (ph : List Nat) (n : Node) (l : Nat) : Prop :=
  l ≤ 2 ∧ (l = 1 ↔ 1 ≤ n.depth) ∧
  ∃ a, phaseAfter n l = some a ∧ ∀ j ∈ n.succ, ∃ l', ph[j]? = some l' ∧ a ≤ l'

theorem geLabel_iff {a : Nat} {o : Option Nat} : geLabel a o = true ↔ ∃ l', o = some l' ∧ a ≤ l' := by
  cases o <;> simp [geLabel]

theorem phasesFrom_good (ph : List Nat) : ∀ (l : List (Node × Nat)) (i : Nat), phasesFrom ph l i = true →
    (∀ k : Nat, ph[i + k]? = (l[k]?).map (·.2)) →
    ∀ (k : Nat) (n : Node) (lab : Nat), l[k]? = some (n, lab) → PhGood ph n lab := by
  intro l
  induction l with
  | nil => intro i _ _ k n lab h; simp at h
  | cons m rest ih =>
    intro i hc hidx k n lab hk
    obtain ⟨mn, ml⟩ := m
    simp only [phasesFrom, Bool.and_eq_true] at hc
    cases k with
    | succ k =>
      refine ih (i + 1) hc.2 (fun k' => ?_) k n lab (by simpa using hk)
      have := hidx (k' + 1)
      simpa [Nat.add_assoc, Nat.add_comm 1 k'] using this
    | zero =>
      have hm : mn = n ∧ ml = lab := by simpa using hk
      obtain ⟨rfl, rfl⟩ := hm
      have hok := hc.1
      simp only [phaseNodeOk, Bool.and_eq_true] at hok
      obtain ⟨hlab, hrest⟩ := hok
      simp only [labelOk, Bool.and_eq_true, decide_eq_true_eq, beq_iff_eq] at hlab
      refine ⟨hlab.1, ?_, ?_⟩
      · have := hlab.2
        by_cases h1 : ml = 1 <;> by_cases h2 : 1 ≤ mn.depth <;> simp [h1, h2] at this ⊢
      · cases ha : phaseAfter mn ml with
        | none => simp [ha] at hrest
        | some a =>
          simp only [ha, List.all_eq_true, Bool.or_eq_true, Bool.and_eq_true, beq_iff_eq] at hrest
          refine ⟨a, rfl, fun j hj => ?_⟩
          rcases hrest j hj with ⟨hj1, hn⟩ | hj2
          · have h1 := hidx 1
            rw [hj1, h1]
            cases rest with
            | nil => simp [geLabel] at hn
            | cons r rs =>
              obtain ⟨l', hl', hle⟩ := geLabel_iff.1 hn
              exact ⟨l', by simpa using hl', hle⟩
          · exact geLabel_iff.1 hj2

theorem phases_good {ph : List Nat} {c : Cfg} (hp : phasesOk ph c = true) {k : Nat} {n : Node}
    (hk : c.nodes[k]? = some n) : ∃ l, ph[k]? = some l ∧ PhGood ph n l := by
  simp only [phasesOk, Bool.and_eq_true, beq_iff_eq] at hp
  have hklt : k < c.nodes.length := by
    have := List.getElem?_eq_some_iff.1 hk; exact this.1
  have hl : ∃ l, ph[k]? = some l := ⟨ph[k]'(by omega), List.getElem?_eq_getElem (by omega)⟩
  obtain ⟨l, hl⟩ := hl
  refine ⟨l, hl, ?_⟩
  refine phasesFrom_good ph (c.nodes.zip ph) 0 hp.2 (fun k' => ?_) k n l ?_
  · simp only [Nat.zero_add]
    cases h1 : ph[k']? with
    | none =>
      cases h2 : (c.nodes.zip ph)[k']? with
      | none => rfl
      | some x =>
        obtain ⟨a, b⟩ := x
        have := (List.getElem?_zip_eq_some.1 h2).2
        rw [h1] at this; cases this
    | some v =>
      have hk' : k' < c.nodes.length := by
        have := (List.getElem?_eq_some_iff.1 h1).1; omega
      have : (c.nodes.zip ph)[k']? = some (c.nodes[k'], v) :=
        List.getElem?_zip_eq_some.2 ⟨List.getElem?_eq_getElem hk', h1⟩
      simp [this]
  · exact List.getElem?_zip_eq_some.2 ⟨hk, hl⟩

/-- number of `lock` events taken at depth 0 (outermost acquisitions), starting at depth `d` -/
def outerLocks : Nat → List Ev → Nat
  | _, [] => 0
  | d, .lock :: es => (if d = 0 then 1 else 0) + outerLocks (d + 1) es
  | d, .unlock :: es => outerLocks (d - 1) es
  | d, .nop :: es => outerLocks d es
  | d, .ret :: es => outerLocks d es
  | d, .alloc :: es => outerLocks d es
  | d, .access _ :: es => outerLocks d es
  | d, .write _ :: es => outerLocks d es
  | d, .call _ :: es => outerLocks d es

theorem path_outer {ph : List Nat} {c : Cfg} (hb : balancedCfg c = true) (hp : phasesOk ph c = true)
    {i k : Nat} {es : List Ev} (p : Path c i es k) :
    ∀ d l, depthAt c i = some d → ph[i]? = some l →
      (1 ≤ l → outerLocks d es = 0) ∧ outerLocks d es ≤ 1 := by
  induction p with
  | nil i => intro d l _ _; simp [outerLocks]
  | @step i j k n es hn hj _ ih =>
    intro d l hd hl
    obtain ⟨d2, ha, hs, _⟩ := balanced_nodeGood hb hn
    obtain ⟨l0, hl0, hle2, hiff, a, hpa, hsucc⟩ := phases_good hp hn
    have hll : l0 = l := by rw [hl] at hl0; exact (Option.some.inj hl0).symm
    subst hll
    have hdn : d = n.depth := by simp [depthAt, hn] at hd; omega
    obtain ⟨l', hl', hale⟩ := hsucc j hj
    have ihj := ih d2 l' (hs j hj) hl'
    have hdelta := after_delta ha
    unfold phaseAfter at hpa
    unfold Node.after at ha
    cases hev : n.ev <;> simp only [hev] at hpa ha hdelta <;> simp only [outerLocks, Ev.delta] at hdelta ⊢
    case lock =>
      have hd2 : d2 = d + 1 := by simp at ha; omega
      subst hd2
      by_cases h0 : n.depth = 0
      · have hd0 : d = 0 := by omega
        subst hd0
        simp only [h0, if_true] at hpa
        by_cases hl00 : l0 = 0
        · simp only [hl00, if_true] at hpa; cases hpa
          have h1 : outerLocks (0 + 1) es = 0 := ihj.1 hale
          constructor
          · intro h; omega
          · simp only [if_true]; omega
        · simp [hl00] at hpa
      · simp only [h0, if_false] at hpa; cases hpa
        have hl1 : l0 = 1 := hiff.2 (by omega)
        have h1 : outerLocks (d + 1) es = 0 := ihj.1 (by omega)
        have hdne : ¬ d = 0 := by omega
        simp only [hdne, if_false]
        omega
    case unlock =>
      by_cases h0 : n.depth = 0
      · simp [h0] at ha
      · have hd2 : d2 = d - 1 := by simp [h0] at ha; omega
        have hl1 : l0 = 1 := hiff.2 (by omega)
        have hapos : 1 ≤ a := by
          by_cases h1 : n.depth = 1
          · simp [h1] at hpa; omega
          · simp [h1] at hpa; omega
        have := ihj.1 (by omega)
        rw [← hd2]; simp [this]
    all_goals
      simp at ha hpa
      have hd2 : d2 = d := by omega
      subst hd2; subst hpa
      exact ⟨fun h => ihj.1 (by omega), ihj.2⟩

/-- **one critical section per call**: on every path from the entry the lock is acquired from
    depth 0 at most once -/
theorem phasesOk_sound {ph : List Nat} {c : Cfg} (hb : balancedCfg c = true) (hp : phasesOk ph c = true)
    {k : Nat} {es : List Ev} (p : Path c 0 es k) : outerLocks 0 es ≤ 1 := by
  have h0 : depthAt c 0 = some 0 := by
    simp only [balancedCfg, Bool.and_eq_true] at hb; simpa using hb.1
  cases hn : c.nodes[0]? with
  | none => simp [depthAt, hn] at h0
  | some n =>
    obtain ⟨l, hl, _⟩ := phases_good hp hn
    exact (path_outer hb hp p 0 l h0 hl).2


/-! ### shape of a complete call:  pre* ; acquire ; body* ; release ; post* -/

/-- an event outside the critical section: no lock traffic, no access to mutable container state -/
def Quiet (exempt : List Nat) (e : Ev) : Prop := e ≠ .lock ∧ e ≠ .unlock ∧ needsLock exempt e = false

/-- `insideOk d es`: started at depth `d ≥ 1`, `es` stays at depth ≥ 1 until its LAST event, which is
    the `unlock` that brings the depth to 0 (the body of one outermost critical section + release) -/
def insideOk : Nat → List Ev → Bool
  | _, [] => false
  | d, .lock :: es => decide (1 ≤ d) && insideOk (d + 1) es
  | d, .unlock :: es => if d = 1 then es.isEmpty else (decide (2 ≤ d) && insideOk (d - 1) es)
  | d, .nop :: es => decide (1 ≤ d) && insideOk d es
  | d, .ret :: es => decide (1 ≤ d) && insideOk d es
  | d, .alloc :: es => decide (1 ≤ d) && insideOk d es
  | d, .access _ :: es => decide (1 ≤ d) && insideOk d es
  | d, .write _ :: es => decide (1 ≤ d) && insideOk d es
  | d, .call _ :: es => decide (1 ≤ d) && insideOk d es

theorem wl_node {exempt : List Nat} {c : Cfg} (hw : wellLockedCfg exempt c = true) {k : Nat} {n : Node}
    (hk : c.nodes[k]? = some n) : needsLock exempt n.ev = true → 1 ≤ n.depth := by
  intro hn
  simp only [wellLockedCfg, Bool.and_eq_true, List.all_eq_true] at hw
  have := hw.2 n (List.mem_of_getElem? hk)
  simpa [hn] using this

theorem wl_balanced {exempt : List Nat} {c : Cfg} (hw : wellLockedCfg exempt c = true) : balancedCfg c = true := by
  simp only [wellLockedCfg, Bool.and_eq_true] at hw; exact hw.1

/-- after the critical section (label 2) nothing but quiet events follows -/
theorem after_quiet {exempt : List Nat} {ph : List Nat} {c : Cfg} (hw : wellLockedCfg exempt c = true)
    (hp : phasesOk ph c = true) {i k : Nat} {es : List Ev} (p : Path c i es k) :
    ph[i]? = some 2 → ∀ e ∈ es, Quiet exempt e := by
  have hb := wl_balanced hw
  induction p with
  | nil i => intro _ e he; simp at he
  | @step i j k n es hn hj _ ih =>
    intro hl e he
    obtain ⟨d2, ha, hs, _⟩ := balanced_nodeGood hb hn
    obtain ⟨l0, hl0, _, hiff, a, hpa, hsucc⟩ := phases_good hp hn
    have hll : l0 = 2 := by rw [hl] at hl0; exact (Option.some.inj hl0).symm
    subst hll
    have hd0 : n.depth = 0 := by
      by_cases h : 1 ≤ n.depth
      · have := hiff.2 h; omega
      · omega
    obtain ⟨l', hl', hale⟩ := hsucc j hj
    -- the node's own event is quiet and keeps the phase
    have hq : Quiet exempt n.ev ∧ a = 2 := by
      unfold phaseAfter at hpa
      unfold Node.after at ha
      refine ⟨⟨?_, ?_, ?_⟩, ?_⟩
      · intro hev; simp [hev, hd0] at hpa
      · intro hev; simp [hev, hd0] at ha
      · cases hnl : needsLock exempt n.ev with
        | false => rfl
        | true => have := wl_node hw hn hnl; omega
      · cases hev : n.ev <;> simp [hev, hd0] at hpa ha ⊢ <;> omega
    -- the successor is a node with a label ≤ 2, hence = 2
    have hl2 : l' = 2 := by
      have hdj := hs j hj
      simp only [depthAt] at hdj
      cases hnj : c.nodes[j]? with
      | none => simp [hnj] at hdj
      | some nj =>
        obtain ⟨lj, hlj, hle, _⟩ := phases_good hp hnj
        rw [hl'] at hlj; cases hlj
        omega
    rcases List.mem_cons.1 he with rfl | he
    · exact hq.1
    · exact ih (hl2 ▸ hl') e he

/-- from inside the critical section (depth `d ≥ 1`) to a node at depth 0: the rest of the body, the
    release, then quiet events only -/
theorem inside_shape {exempt : List Nat} {ph : List Nat} {c : Cfg} (hw : wellLockedCfg exempt c = true)
    (hp : phasesOk ph c = true) {i k : Nat} {es : List Ev} (p : Path c i es k) :
    ∀ d, depthAt c i = some d → 1 ≤ d → depthAt c k = some 0 →
      ∃ mid post, es = mid ++ post ∧ insideOk d mid = true ∧ ∀ e ∈ post, Quiet exempt e := by
  have hb := wl_balanced hw
  induction p with
  | nil i => intro d hd h1 hk; rw [hd] at hk; cases hk; omega
  | @step i j k n es hn hj prest ih =>
    intro d hd h1 hk
    obtain ⟨d2, ha, hs, _⟩ := balanced_nodeGood hb hn
    obtain ⟨l0, hl0, _, hiff, a, hpa, hsucc⟩ := phases_good hp hn
    have hdn : d = n.depth := by simp [depthAt, hn] at hd; omega
    have hl1 : l0 = 1 := hiff.2 (by omega)
    subst hl1
    obtain ⟨l', hl', hale⟩ := hsucc j hj
    have hdj := hs j hj
    unfold phaseAfter at hpa
    unfold Node.after at ha
    by_cases hfin : n.ev = .unlock ∧ d = 1
    · -- the release
      obtain ⟨hev, hd1⟩ := hfin
      have ha2 : a = 2 := by simp [hev, ← hdn, hd1] at hpa; omega
      have hl2 : l' = 2 := by
        simp only [depthAt] at hdj
        cases hnj : c.nodes[j]? with
        | none => simp [hnj] at hdj
        | some nj =>
          obtain ⟨lj, hlj, hle, _⟩ := phases_good hp hnj
          rw [hl'] at hlj; cases hlj
          omega
      refine ⟨[.unlock], es, by simp [hev], by simp [insideOk, hd1], ?_⟩
      exact after_quiet hw hp prest (hl2 ▸ hl')
    · -- still inside afterwards
      have hd2 : 1 ≤ d2 := by
        cases hev : n.ev <;> simp [hev] at ha hfin <;> omega
      obtain ⟨mid, post, hes, hin, hq⟩ := ih d2 hdj hd2 hk
      refine ⟨n.ev :: mid, post, by simp [hes], ?_, hq⟩
      cases hev : n.ev <;> simp only [hev] at ha hfin ⊢ <;> simp only [insideOk]
      case lock =>
        have : d2 = d + 1 := by simp at ha; omega
        subst this; simp [h1, hin]
      case unlock =>
        have hne : ¬ d = 1 := by simpa using hfin
        have hd0 : ¬ n.depth = 0 := by omega
        have : d2 = d - 1 := by simp [hd0] at ha; omega
        subst this
        simp [hne, hin]; omega
      all_goals
        simp at ha
        have : d2 = d := by omega
        subst this; simp [h1, hin]

/-- **shape of every complete call** of a function with both certificates: quiet prologue, at most
    one outermost critical section (acquire, body at depth ≥ 1, release), quiet epilogue -/
theorem atomic_shape {exempt : List Nat} {ph : List Nat} {c : Cfg} (hw : wellLockedCfg exempt c = true)
    (hp : phasesOk ph c = true) {i k : Nat} {es : List Ev} (p : Path c i es k) :
    depthAt c i = some 0 → depthAt c k = some 0 →
      ∃ pre mid post, es = pre ++ mid ++ post ∧ (∀ e ∈ pre, Quiet exempt e) ∧ (∀ e ∈ post, Quiet exempt e) ∧
        (mid = [] ∨ ∃ m, mid = .lock :: m ∧ insideOk 1 m = true) := by
  have hb := wl_balanced hw
  induction p with
  | nil i => intro _ _; exact ⟨[], [], [], rfl, by simp, by simp, Or.inl rfl⟩
  | @step i j k n es hn hj prest ih =>
    intro hd hk
    obtain ⟨d2, ha, hs, _⟩ := balanced_nodeGood hb hn
    obtain ⟨l0, hl0, hle0, hiff, a, hpa, hsucc⟩ := phases_good hp hn
    have hd0 : n.depth = 0 := by simp [depthAt, hn] at hd; omega
    obtain ⟨l', hl', hale⟩ := hsucc j hj
    have hdj := hs j hj
    by_cases hlock : n.ev = .lock
    · -- the acquisition
      have hd2 : d2 = 1 := by unfold Node.after at ha; simp [hlock, hd0] at ha; omega
      subst hd2
      obtain ⟨mid, post, hes, hin, hq⟩ := inside_shape hw hp prest 1 hdj (by omega) hk
      exact ⟨[], .lock :: mid, post, by simp [hlock, hes], by simp, hq, Or.inr ⟨mid, rfl, hin⟩⟩
    · -- a quiet event of the prologue
      have hq : Quiet exempt n.ev ∧ d2 = 0 ∧ a = l0 := by
        unfold phaseAfter at hpa
        unfold Node.after at ha
        refine ⟨⟨hlock, ?_, ?_⟩, ?_, ?_⟩
        · intro hev; simp [hev, hd0] at ha
        · cases hnl : needsLock exempt n.ev with
          | false => rfl
          | true => have := wl_node hw hn hnl; omega
        · cases hev : n.ev <;> simp [hev, hd0] at ha hlock ⊢ <;> omega
        · cases hev : n.ev <;> simp [hev, hd0] at hpa ha hlock ⊢ <;> omega
      obtain ⟨hqe, hd20, _⟩ := hq
      subst hd20
      obtain ⟨pre, mid, post, hes, hpre, hpost, hmid⟩ := ih hdj hk
      refine ⟨n.ev :: pre, mid, post, by simp [hes], ?_, hpost, hmid⟩
      intro e he
      rcases List.mem_cons.1 he with rfl | he
      · exact hqe
      · exact hpre e he

end Qlibc.Conc

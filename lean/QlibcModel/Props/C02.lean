import QlibcModel.Tree.Table
namespace Qlibc.Props.C02
theorem placeholder : True := trivial
end Qlibc.Props.C02

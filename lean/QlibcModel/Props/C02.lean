/-
  C02 — the tree table stays a valid left-leaning red-black tree; lookups are logarithmic.

  `LLRB t` = black root + `Bal`: search-tree shape with no red node having a red child, the
  same number of black nodes on every path, no right-leaning lone red link (2-3-4 variant:
  `#define LLRB234` is re-read from the source on every run, Generated/TreeConfig.lean).
-/
import QlibcModel.Tree.History
import QlibcModel.Generated.TreeConfig
import QlibcModel.Shapes.Tree

namespace Qlibc.Props.C02
open Qlibc Qlibc.Tree Qlibc.Tree.T
variable {α K V : Type} (cmp : K → K → Ordering) (key : α → K)

/-- the model is of the variant the source compiles -/
theorem variant_is_234 : Generated.llrb234 = true := rfl

/-- insertion (new key, replacement, or an insertion whose allocation failed: `mk = none`)
    into a valid tree never faults and gives a valid tree -/
theorem put_preserves_llrb (k : K) (mk : Option α) (onDup : α → α) (t : T α) (h : LLRB t) :
    ∃ t' added, put cmp key k mk onDup (size t + 1) t = .ok (t', added) ∧ LLRB (blacken t') :=
  put_llrb cmp key k mk onDup t h

/-- removal — of a present key or of an absent one — from a valid search tree never faults
    (no NULL dereference, no failed assertion) and gives a valid tree -/
theorem remove_preserves_llrb (hc : CmpOk cmp) (copyKV : α → α → α) (k : K) (t : T α) (h : LLRB t)
    (ho : Ordered cmp key t) :
    ∃ t' enoent, remove cmp key copyKV k (size t + 1) t = .ok (t', enoent) ∧ LLRB (blacken t') :=
  remove_llrb hc copyKV k t h ho

/-- after every operation of every history the table is a valid left-leaning red-black search
    tree with an exact key count -/
theorem reachable_llrb (hc : CmpOk cmp) (isEmpty : V → Bool) (ops : List (Op K V)) :
    ∃ s', (Tbl.init : Tbl K V).run cmp isEmpty ops = .ok (s', (specRun cmp isEmpty (Tbl.init : Tbl K V).abs ops).2) ∧
      LLRB s'.root ∧ Ordered cmp keyOf s'.root ∧ s'.num = size s'.root ∧ check s'.root = 0 := by
  obtain ⟨s', h1, h2, _⟩ := Tbl.run_refines cmp isEmpty hc ops (Tbl.init : Tbl K V) (Tbl.init_inv cmp)
  exact ⟨s', h1, h2.llrb, h2.ordered, h2.count, (check_iff_llrb _).mpr h2.llrb⟩

/-- the empty tree is valid -/
theorem nil_llrb : LLRB (nil : T α) := ⟨0, Bal.nil⟩

/-- the library's own `qtreetbl_check()` returns 0 exactly on valid trees -/
theorem check_agrees (t : T α) : check t = 0 ↔ LLRB t := check_iff_llrb t

/-- a valid tree with n keys has height ≤ 2·log2(n+1) -/
theorem height_bound (t : T α) (h : LLRB t) : height t ≤ 2 * Nat.log2 (size t + 1) := h.height_bound

/-- a lookup among n keys performs at most 2·log2(n+1) key comparisons -/
theorem find_cost (s : Tbl K V) (k : K) (hi : s.Inv cmp) :
    s.getCost cmp k ≤ 2 * Nat.log2 (s.num + 1) := Tbl.getCost_le cmp s k hi

-- non-vacuity
example : LLRB (node (node nil 1 true nil) 2 false (nil : T Nat)) :=
  ⟨1, Bal.black (Bal.red Bal.nil Bal.nil) Bal.nil (by simp)⟩

end Qlibc.Props.C02

/-
  C12 — containers own private copies; returned copies are independent: hash table and list table.

  Layer 1 (byte-exactness for ALL contents, embedded / trailing NUL bytes and empty values
  included) is a corollary of the refinement theorems of C05 / C08, which are stated over
  arbitrary byte lists with their lengths; the two statements below spell it out.
  Layer 2 (independence from the caller's buffers, independence of returned copies) is a fact
  about addresses: the model states hold values, not pointers into caller memory. It is tied to
  the code by the correspondence of this property: harness/hashtbl.c and harness/listtbl.c
  overwrite the caller's key and value buffers right after every put, keep EVERY copy handed out
  by get/getstr/getnext/getmulti with `newmem` together with a private duplicate, and re-compare
  them after later replace / remove / clear / sort and after the container was released
  (`end … bad=0`; under ASan a retained internal pointer is a use-after-free).
-/
import QlibcModel.HashTbl.Refine
import QlibcModel.ListTbl.Ops

namespace Qlibc.Props.C12Map
open Qlibc

variable (h : Bytes → UInt32)

/-- hash table: what was put is what get returns, byte for byte with its exact length, for any
    content; and no other key is affected -/
theorem hashtbl_stored_bytes_exact {s : HashTbl.Tbl} {m : HashTbl.AssocMap} (A : HashTbl.Abs h s m) (k v k' : Bytes) :
    HashTbl.get (HashTbl.put s k (h k) v) k' (h k') = if k' = k then some v else HashTbl.get s k' (h k') :=
  (HashTbl.put_spec h A.inv k v).2.1 k'

/-- list table: the entry put is stored byte for byte (as the last, or first, entry); the other
    entries are kept unchanged (or, in a unique table, exactly those with an equal key are dropped) -/
theorem listtbl_stored_bytes_exact {t : ListTbl.Tbl} (I : ListTbl.Inv h t) (k v : Bytes) (hv : v ≠ []) :
    ∃ t', ListTbl.put t k (h k) v = .ok (true, t') ∧ (k, v) ∈ ListTbl.entries t' := by
  obtain ⟨t', hp, _, _, he⟩ := ListTbl.put_eq h I k v hv
  refine ⟨t', hp, ?_⟩
  rw [he]
  split <;> simp

-- non-vacuity: a value with embedded and trailing NUL bytes
example : HashTbl.get (HashTbl.put (HashTbl.init 1) [97] 7 [0, 7, 0]) [97] 7 = some [0, 7, 0] := rfl

end Qlibc.Props.C12Map

/-
  C09 — list, queue, stack and grow buffer are exact sequences (FIFO / LIFO / concatenation).

  Model: QlibcModel/Seq/ListModel.lean (qlist.c, qqueue.c, qstack.c, qgrow.c, mechanism level:
  stored counters num/max/datasum, the size_t/int index arithmetic, the nearest-end walk of
  get_obj, node identities for the getnext cursor). Specification: QlibcModel/Seq/Spec.lean (ideal
  list of byte strings `IList`, positions `accPos`/`insPos`). `l.abs = ⟨contents in first→next
  order, max⟩`. `QList.WF` is the invariant (counters exact, no empty element, node ids unique);
  `counters` and `history_refines` show that it holds after every history from the empty list.
  All theorems are for fewer than 2^31 elements and `int` indexes (`IsInt32`), which is all an
  `int index` can address.
-/
import QlibcModel.Seq.Fifo
import QlibcModel.Seq.InvLemmas
import QlibcModel.Shapes.Seq
namespace Qlibc.Props.C09
open Qlibc Qlibc.Seq Qlibc.Seq.Spec

/-! ### insertion -/

/-- qlist_addat computes the ideal insertion: refused with EINVAL (NULL / size 0), ENOBUFS (limit
    reached), ERANGE (index outside [-(n+1), n]) — in that order — else the element is at position
    `index` (from the front) or `n + index + 1` (from the back). A refused call returns the very
    same state. -/
theorem addat_spec (l : QList) (hwf : l.WF) (hn : l.num < 2147483648) (index : Int) (hi : IsInt32 index)
    (d : Option Bytes) :
    (l.addAt index d).1 = (l.abs.addAt index d).1 ∧ (l.addAt index d).2.abs = (l.abs.addAt index d).2 ∧
    (l.addAt index d).2.WF ∧ ((l.addAt index d).1.1 = false → (l.addAt index d).2 = l) :=
  QList.addAt_refines l hwf hn index hi d

/-- success ↔ non-empty data, limit not reached, index in [-(n+1), n] -/
theorem addat_success_iff (l : QList) (hwf : l.WF) (hn : l.num < 2147483648) (index : Int) (hi : IsInt32 index)
    (d : Bytes) :
    (l.addAt index (some d)).1.1 = true ↔
      (d ≠ [] ∧ ¬ (l.max > 0 ∧ l.elems.length ≥ l.max) ∧
        (-(l.elems.length : Int) - 1 ≤ index ∧ index ≤ l.elems.length)) := by
  rw [(QList.addAt_refines l hwf hn index hi (some d)).1, IList.addAt_true_iff, QList.abs_length]
  rfl

/-! ### access by index -/

/-- getat / getfirst / getlast return the element at `accPos n index`, or NULL with ERANGE -/
theorem getat_spec (l : QList) (hwf : l.WF) (hn : l.num < 2147483648) (index : Int) (hi : IsInt32 index) :
    l.getAt index = l.abs.getAt index ∧
    ((l.getAt index).1.isSome = true ↔ (-(l.elems.length : Int) ≤ index ∧ index < l.elems.length)) := by
  refine ⟨QList.getAt_refines l hwf hn index hi, ?_⟩
  rw [QList.getAt_refines l hwf hn index hi, IList.getAt_some_iff, QList.abs_length]

/-- popat returns that element and removes exactly it; refused ↔ index outside [-n, n-1], and
    then the state is unchanged (errno ERANGE) -/
theorem popat_spec (l : QList) (hwf : l.WF) (hn : l.num < 2147483648) (index : Int) (hi : IsInt32 index) :
    (l.popAt index).1 = (l.abs.popAt index).1 ∧ (l.popAt index).2.abs = (l.abs.popAt index).2 ∧
    (l.popAt index).2.WF ∧ ((l.popAt index).1.1 = none → (l.popAt index).2 = l) ∧
    ((l.popAt index).1.1.isSome = true ↔ (-(l.elems.length : Int) ≤ index ∧ index < l.elems.length)) := by
  obtain ⟨h1, h2, h3, h4⟩ := QList.popAt_refines l hwf hn index hi
  refine ⟨h1, h2, h3, h4, ?_⟩
  rw [h1, IList.popAt_some_iff, QList.abs_length]

theorem removeat_spec (l : QList) (hwf : l.WF) (hn : l.num < 2147483648) (index : Int) (hi : IsInt32 index) :
    (l.removeAt index).1 = (l.abs.removeAt index).1 ∧ (l.removeAt index).2.abs = (l.abs.removeAt index).2 ∧
    (l.removeAt index).2.WF ∧ ((l.removeAt index).1.1 = false → (l.removeAt index).2 = l) ∧
    ((l.removeAt index).1.1 = true ↔ (-(l.elems.length : Int) ≤ index ∧ index < l.elems.length)) := by
  obtain ⟨h1, h2, h3, h4⟩ := QList.removeAt_refines l hwf hn index hi
  refine ⟨h1, h2, h3, h4, ?_⟩
  rw [h1, IList.removeAt_true_iff, QList.abs_length]

/-- the nearest-end walk of get_obj finds the node at the normalised position, whichever end it
    starts from, and reports ERANGE exactly for the indexes outside [-n, n-1] -/
theorem get_obj_spec (l : QList) (hwf : l.WF) (hn : l.num < 2147483648) (index : Int) (hi : IsInt32 index) :
    (∀ p, accPos l.elems.length index = some p →
      ∃ nd, l.elems[p]? = some nd ∧ l.getObj index = (some (p, nd), .ok)) ∧
    (accPos l.elems.length index = none → l.getObj index = (none, .ERANGE)) :=
  ⟨fun p h => getObj_some l index p hwf.num_eq hn hi h, fun h => getObj_none l index hwf.num_eq hn hi h⟩

/-! ### the stored counters -/

/-- after every history from the empty list: num = number of nodes, datasum = Σ sizes -/
theorem counters (ops : List LOp) (hops : ∀ op ∈ ops, op.ints) (hlen : ops.length < 2147483648) :
    (QList.empty.run ops).2.num = (QList.empty.run ops).2.elems.length ∧
    (QList.empty.run ops).2.datasum = totalSize (QList.empty.run ops).2.content ∧
    (QList.empty.run ops).2.size = (QList.empty.run ops).2.content.length ∧
    (QList.empty.run ops).2.datasize = ((QList.empty.run ops).2.content.map List.length).sum := by
  have h := (QList.run_refines QList.empty QList.WF_empty ops hops (by simpa [QList.empty] using hlen)).2.2
  exact ⟨h.num_eq, h.sum_eq, by simp [QList.size, h.num_eq, QList.content], h.sum_eq⟩

/-! ### reverse / toarray / tostring / getnext -/

theorem reverse_spec (l : QList) (hwf : l.WF) :
    l.reverse.content = l.content.reverse ∧ l.reverse.WF ∧ l.reverse.max = l.max :=
  ⟨by simp [QList.reverse, QList.content], QList.WF_reverse l hwf, rfl⟩

/-- toarray: NULL/ENOENT/size 0 for the empty list, else the concatenation and its length -/
theorem toarray_spec (l : QList) (hwf : l.WF) :
    l.toArray = .ok (if l.content = [] then ((none, .ENOENT), 0)
                     else ((some l.content.flatten, .ok), l.content.flatten.length)) := by
  rw [QList.toArray_refines l hwf]
  by_cases h : l.content = [] <;> simp [IList.toArray, QList.abs, totalSize, List.length_flatten, h]

/-- tostring: the concatenation with ONE trailing NUL dropped from every element that has one -/
theorem tostring_spec (l : QList) (hwf : l.WF) :
    l.toStringBuf = .ok (if l.content = [] then (none, .ENOENT)
                         else (some (l.content.map dropNul).flatten, .ok)) := by
  rw [QList.toStringBuf_refines l hwf]; rfl

/-- a complete getnext walk with a zeroed cursor yields exactly the current contents in order,
    never faults (no dangling successor) and ends within n+1 calls -/
theorem walk_spec (l : QList) (hwf : l.WF) : l.walk = .ok l.content :=
  QList.walk_refines l hwf

/-- resuming a walk: a cursor that has just been handed the node at position p-1 delivers the
    elements from position p on -/
theorem walk_resume_spec (l : QList) (hwf : l.WF) (p : Nat) (hp : p ≤ l.elems.length) (c : QList.Cursor)
    (hsz : c.size ≠ 0) (hnext : c.next = QList.idAt l.elems p) :
    l.walkFrom (l.elems.length + 1) c = .ok (l.content.drop p) :=
  QList.walkFrom_at l hwf (l.elems.length + 1) p c hsz hnext hp (by omega)

/-! ### queue, stack, grow buffer -/

/-- FIFO: in ANY interleaving of pushes and pops on a fresh queue, the elements handed out by the
    successful pops followed by the elements still queued are the pushed elements in push order -/
theorem queue_fifo (ops : List PP) (hne : ∀ op ∈ ops, op.nonempty) (hlen : ops.length < 2147483648) :
    poppedOf (({} : QQueue).run (ops.map PP.toQOp)).1 ++ (({} : QQueue).run (ops.map PP.toQOp)).2.list.content
      = pushedOf ops := by
  have hops : ∀ op ∈ ops.map PP.toQOp, op.ints := by
    intro op h; rcases List.mem_map.1 h with ⟨o, _, rfl⟩; cases o <;> simp [PP.toQOp, QOp.ints]
  obtain ⟨h1, h2, _⟩ := QQueue.run_refines {} QList.WF_empty (ops.map PP.toQOp) hops (by simpa using hlen)
  have := ideal_fifo (({} : QQueue).list.abs) rfl ops hne
  rw [h1]
  have h2' : (({} : QQueue).run (ops.map PP.toQOp)).2.list.content
      = ((({} : QQueue).list.abs.qrun (-1) (ops.map PP.toQOp)).2).s := by rw [← h2]; rfl
  rw [h2', this]
  rfl

/-- LIFO: pushing d₁ … dₖ onto any stack (no limit) and popping k times hands back dₖ … d₁ and
    leaves the original contents -/
theorem stack_lifo (q : QStack) (hwf : q.list.WF) (hmax : q.list.max = 0) (ds : List Bytes)
    (hne : ∀ d ∈ ds, d ≠ []) (hlen : q.list.num + (ds.length + ds.length) < 2147483648) :
    (q.run ((ds.map fun d => QOp.push (some d)) ++ (ds.map fun _ => QOp.pop))).1
      = (ds.map fun _ => boolOk) ++ (ds.reverse.map fun d => Res.data (some d, .ok)) ∧
    (q.run ((ds.map fun d => QOp.push (some d)) ++ (ds.map fun _ => QOp.pop))).2.list.content = q.list.content := by
  have hops : ∀ op ∈ (ds.map fun d => QOp.push (some d)) ++ (ds.map fun _ => QOp.pop), op.ints := by
    intro op h
    rcases List.mem_append.1 h with h | h <;> rcases List.mem_map.1 h with ⟨_, _, rfl⟩ <;> simp [QOp.ints]
  obtain ⟨h1, h2, _⟩ := QStack.run_refines q hwf _ hops (by simpa using hlen)
  have hpush := ideal_push_all_front q.list.abs hmax ds hne
  have hpop := ideal_pop_all 0 { q.list.abs with s := ds.reverse ++ q.list.abs.s } ds.reverse q.list.abs.s rfl
  have hpop' : ({ q.list.abs with s := ds.reverse ++ q.list.abs.s } : IList).qrun 0 (ds.map fun _ => QOp.pop)
      = (ds.reverse.map fun d => Res.data (some d, .ok), { q.list.abs with s := q.list.abs.s }) := by
    have e : (ds.map fun _ => QOp.pop) = (ds.reverse.map fun _ => QOp.pop) := by
      simp [List.map_const']
    rw [e]; exact hpop
  have hall := IList.qrun_append 0 q.list.abs (ds.map fun d => QOp.push (some d)) (ds.map fun _ => QOp.pop)
  rw [hpush] at hall
  simp only [hpop'] at hall
  constructor
  · rw [h1, hall]
  · have : (q.run ((ds.map fun d => QOp.push (some d)) ++ (ds.map fun _ => QOp.pop))).2.list.content
        = ((q.list.abs.qrun 0 ((ds.map fun d => QOp.push (some d)) ++ (ds.map fun _ => QOp.pop))).2).s := by
      rw [← h2]; rfl
    rw [this, hall]; rfl

/-- concatenation: after adding the pieces d₁ … dₖ (k ≥ 1, none empty) to a fresh grow buffer,
    toarray is d₁ ++ … ++ dₖ with its exact length, tostring is the same with one trailing NUL
    dropped per piece, size = k, datasize = total length -/
theorem grow_concat (ds : List Bytes) (hne : ∀ d ∈ ds, d ≠ []) (hk : ds ≠ []) (hlen : ds.length < 2147483648) :
    let g := (({} : QGrow).run (ds.map fun d => GOp.add (some d))).2
    g.toArray = .ok ((some ds.flatten, .ok), ds.flatten.length) ∧
    g.toStringBuf = .ok (some (ds.map dropNul).flatten, .ok) ∧
    g.size = ds.length ∧ g.datasize = ds.flatten.length := by
  intro g
  obtain ⟨_, h2, h3⟩ := QGrow.run_refines {} QList.WF_empty (ds.map fun d => GOp.add (some d)) (by simpa using hlen)
  have hall := ideal_add_all (({} : QGrow).list.abs) rfl ds hne
  rw [hall] at h2
  have hc : g.list.content = ds := by
    have := congrArg IList.s h2
    simpa [QList.abs, QList.content] using this
  have hta := toarray_spec g.list h3
  have hts := tostring_spec g.list h3
  rw [hc] at hta hts
  simp only [hk, if_false] at hta hts
  have h3' : g.list.WF := h3
  refine ⟨hta, hts, ?_, ?_⟩
  · simp [QGrow.size, QList.size, h3'.num_eq, ← hc, QList.content]
  · simp [QGrow.datasize, QList.datasize, h3'.sum_eq, hc, totalSize, List.length_flatten]

/-! ### arbitrary histories refine the ideal sequence -/

/-- every history of list operations from the empty list returns, call by call, exactly what the
    ideal list returns (values, sizes, errno), and ends in the ideal list's contents and limit -/
theorem history_refines (ops : List LOp) (hops : ∀ op ∈ ops, op.ints) (hlen : ops.length < 2147483648) :
    (QList.empty.run ops).1 = (({} : IList).run ops).1 ∧
    (QList.empty.run ops).2.abs = (({} : IList).run ops).2 ∧ (QList.empty.run ops).2.WF :=
  QList.run_refines QList.empty QList.WF_empty ops hops (by simpa [QList.empty] using hlen)

/-- queue: `push` appends, `pop`/`get` take the front (`qstep (-1)`), with the string and int views -/
theorem history_refines_queue (ops : List QOp) (hops : ∀ op ∈ ops, op.ints) (hlen : ops.length < 2147483648) :
    (({} : QQueue).run ops).1 = (({} : IList).qrun (-1) ops).1 ∧
    (({} : QQueue).run ops).2.list.abs = (({} : IList).qrun (-1) ops).2 :=
  let h := QQueue.run_refines {} QList.WF_empty ops hops (by simpa using hlen)
  ⟨h.1, h.2.1⟩

/-- stack: `push` prepends, `pop`/`get` take the front (`qstep 0`) -/
theorem history_refines_stack (ops : List QOp) (hops : ∀ op ∈ ops, op.ints) (hlen : ops.length < 2147483648) :
    (({} : QStack).run ops).1 = (({} : IList).qrun 0 ops).1 ∧
    (({} : QStack).run ops).2.list.abs = (({} : IList).qrun 0 ops).2 :=
  let h := QStack.run_refines {} QList.WF_empty ops hops (by simpa using hlen)
  ⟨h.1, h.2.1⟩

/-- grow buffer: `add`/`addstr` append, `toarray`/`tostring` concatenate -/
theorem history_refines_grow (ops : List GOp) (hlen : ops.length < 2147483648) :
    (({} : QGrow).run ops).1 = (({} : IList).grun ops).1 ∧
    (({} : QGrow).run ops).2.list.abs = (({} : IList).grun ops).2 :=
  let h := QGrow.run_refines {} QList.WF_empty ops (by simpa using hlen)
  ⟨h.1, h.2.1⟩

/-! ### invalid arguments

  `inv` (Seq/Inv.lean; harness/seq.c makes the same calls): NULL data, size 0, an index just above
  and just below the valid range for add / get / pop / remove, getnext without a cursor, debug
  without a stream, get / toarray without the size pointer, setsize with the current value, with
  SIZE_MAX and back. Every refusal carries the documented errno (EINVAL; ENOBUFS before ERANGE when
  the list is full; ERANGE; EIO), the permitted calls answer as the plain calls do, and the
  container is the very same afterwards. -/

theorem inv_identity (l : QList) (hwf : l.WF) (hn : l.num + 2 < 2147483648) :
    l.inv.st = l ∧ l.inv.log = l.invExpected :=
  QList.inv_identity l hwf hn

theorem inv_identity_queue (q : QQueue) (hwf : q.list.WF) (hn : q.list.num + 2 < 2147483648) :
    q.inv.st = q ∧ q.inv.log = invWrappedExpected q.list := by
  obtain ⟨h1, h2⟩ := invWrapped_identity (-1) q.list hwf hn
  exact ⟨by simp only [QQueue.inv, h1], h2⟩

theorem inv_identity_stack (q : QStack) (hwf : q.list.WF) (hn : q.list.num + 2 < 2147483648) :
    q.inv.st = q ∧ q.inv.log = invWrappedExpected q.list := by
  obtain ⟨h1, h2⟩ := invWrapped_identity 0 q.list hwf hn
  exact ⟨by simp only [QStack.inv, h1], h2⟩

theorem inv_identity_grow (g : QGrow) (hwf : g.list.WF) : g.inv.st = g ∧ g.inv.log = g.invExpected :=
  QGrow.inv_identity g hwf

/-! ### non-vacuity: the hypotheses are satisfiable by concrete non-trivial states -/

example : (QList.empty.run [.addlast (some [97, 0]), .addfirst (some [98]), .addat 1 (some [99, 0, 99]),
    .addat (-5) (some [1]), .getat (-1), .popat 1, .tostring, .setsize 2, .addlast (some [100]), .walk]).1 =
    [.bool (true, .ok), .bool (true, .ok), .bool (true, .ok), .bool (false, .ERANGE), .data (some [97, 0], .ok),
     .data (some [99, 0, 99], .ok), .data (some [98, 97], .ok), .nat 0, .bool (false, .ENOBUFS),
     .elems [[98], [97, 0]]] := by decide

example : (QList.empty.run [.addlast (some [97, 0]), .addfirst (some [98])]).2.WF :=
  (history_refines [.addlast (some [97, 0]), .addfirst (some [98])] (by simp [LOp.ints]) (by simp)).2.2

example : poppedOf (({} : QQueue).run ([PP.push [1], .push [2], .pop, .push [3], .pop, .pop, .pop].map PP.toQOp)).1
    = [[1], [2], [3]] := by decide

end Qlibc.Props.C09

/-
  C05 — the hash table is an exact map for every history and table range.

  All statements are about the mechanism-level model `Qlibc.HashTbl` (QlibcModel/HashTbl/Model.lean,
  tied to src/containers/qhashtbl.c by the correspondence harness), for an ARBITRARY hash function
  `h : Bytes → UInt32`, every range, every key/value content. `Abs h s m` says that the table state
  `s` satisfies the representation invariant and represents the ideal map `m` (an association list
  with distinct keys); `IdInv s` is the discipline of node identities the walk cursor relies on.
  Both hold for every reachable state (`reachable_abs`).
-/
import QlibcModel.HashTbl.WalkMap
import QlibcModel.HashTbl.DecLemmas
import QlibcModel.HashTbl.Args
import QlibcModel.HashTbl.Alias
import QlibcModel.Shapes.Hashtbl

namespace Qlibc.Props.C05
open Qlibc Qlibc.Dec Qlibc.HashTbl

variable (h : Bytes → UInt32)

/-- put succeeds and yields the table of the ideal map with `k ↦ v` inserted/replaced -/
theorem put_refines {s : Tbl} {m : AssocMap} (A : Abs h s m) (k v : Bytes) :
    (step h s (.put k v)).2 = .bool true ∧ Abs h (put s k (h k) v) (m.insert k v) :=
  ⟨rfl, abs_put h A k v⟩

/-- get returns exactly the bytes (hence the length) the ideal map holds under `k`, or NULL -/
theorem get_refines {s : Tbl} {m : AssocMap} (A : Abs h s m) (k : Bytes) :
    get s k (h k) = m.lookup k := A.look k

/-- remove succeeds exactly for present keys and yields the map without `k` -/
theorem remove_refines {s : Tbl} {m : AssocMap} (A : Abs h s m) (k : Bytes) :
    (remove s k (h k)).1 = m.contains k ∧ Abs h (remove s k (h k)).2 (m.erase k) :=
  ⟨(abs_remove h A k).2, (abs_remove h A k).1⟩

theorem clear_refines {s : Tbl} {m : AssocMap} (A : Abs h s m) : Abs h (clear s) [] := abs_clear h A

/-- size counts the distinct keys -/
theorem size_refines {s : Tbl} {m : AssocMap} (A : Abs h s m) :
    size s = m.length ∧ (m.map (·.1)).Nodup := ⟨A.num, A.nodup⟩

/-- every history over put/putstr/putint/get/getint/remove/clear/size, on a table of ANY range
    (0 = default 1000, 1 = a single chain, …), returns exactly what the ideal map returns -/
theorem history_refines (range : Nat) (ops : List Op) :
    run h (init range) ops = runSpec [] ops := abs_run h (abs_init h range) ops

/-- every reachable state represents the ideal map of the same history and keeps the id discipline -/
theorem reachable_abs (range : Nat) (ops : List Op) :
    Abs h (runState h (init range) ops) (runSpecState [] ops) ∧ IdInv (runState h (init range) ops) :=
  reachable h (abs_init h range) (idInv_init range) ops

/-- remove unlinks only `k`: its chain keeps exactly the other nodes in their order, all other
    chains are untouched (so no other key changes its position, head / middle / tail alike) -/
theorem remove_unlinks_only_k {s : Tbl} {m : AssocMap} (A : Abs h s m) (k : Bytes) (j : Nat) :
    chain (remove s k (h k)).2 j =
      if j = slotIdx s (h k) then (chain s j).filter (·.name != k) else chain s j :=
  remove_layout h A.inv k j

/-- the getnext loop from a zeroed cursor over an unmodified table terminates without fault,
    returns a permutation of the ideal map — each stored key exactly once, with its value — and
    stops because getnext reports the end (false/ENOENT) -/
theorem walk_complete {s : Tbl} {m : AssocMap} (A : Abs h s m) (J : IdInv s) :
    ∃ cs, walk s = .ok cs ∧ (cs.map Cursor.kv).Perm m ∧ (cs.map (·.name)).Nodup ∧
      getnext s (cs.getLast?.getD Cursor.zero) = .ok none := by
  obtain ⟨cs, hw, hm⟩ := walk_eq h A.inv J.nodup
  refine ⟨cs, hw, ?_, ?_, walkLoop_ends _ _ _ hw⟩
  · rw [hm]; exact flatten_perm h A
  · have h1 : cs.map (·.name) = (cs.map Cursor.kv).map (·.1) := by rw [List.map_map]; rfl
    rw [h1, hm, List.map_map]
    exact (flatten_names_nodup h s.range s.slots 0 (by simpa using A.inv.chains)).1

/-- putint stores the decimal text of `n` (with terminator) and getint reads it back: for every
    64-bit `n` the round trip is exact (`snprintf "%lld"` / `atoll`); outside that range `atoll`
    saturates like glibc's `strtoll` -/
theorem putint_getint {s : Tbl} {m : AssocMap} (A : Abs h s m) (k : Bytes) (n : Int) :
    getint (putint s k (h k) n) k (h k) = .ok (clamp64 n) ∧
    (int64Min ≤ n → n ≤ int64Max → getint (putint s k (h k) n) k (h k) = .ok n) := by
  have hg : get (putint s k (h k) n) k (h k) = some (intToDec n ++ [0]) := by
    have := (put_spec h A.inv k (intToDec n ++ [0])).2.1 k
    simpa [putint, putstr] using this
  have h1 : getint (putint s k (h k) n) k (h k) = .ok (clamp64 n) := by
    unfold getint
    rw [hg]
    exact atoll_intToDec n
  exact ⟨h1, fun h2 h3 => by rw [h1, clamp64_id h2 h3]⟩

/-- getint of ANY stored value (written by put / putstr / putstrf / putint) is `atoll` of those
    bytes — 0 for an absent key; `atoll_reads_base10` says what that is -/
theorem getint_spec {s : Tbl} {m : AssocMap} (A : Abs h s m) (k : Bytes) :
    getint s k (h k) = (match m.lookup k with | none => .ok 0 | some d => atoll d) := by
  unfold getint
  rw [A.look k]
  cases AssocMap.lookup k m <;> rfl

/-- `atoll` (hence getint on strings like "010", "0x1f", " 42", "+7", "-0", "1e3",
    "9223372036854775808"): leading white space, ONE optional sign, decimal digits up to the first
    other byte, saturating at the 64-bit limits; base 10 only (`accum` is the decimal value) -/
theorem atoll_reads_base10 (ws ds : List UInt8) (c : UInt8) (rest : List UInt8)
    (hws : ∀ w ∈ ws, isSpaceC w = true) (hd : ∀ d ∈ ds, isDigitC d = true) (hc : isDigitC c = false) :
    atoll (ws ++ 45 :: ds ++ c :: rest) = .ok (clamp64 (-(accum 0 ds : Nat))) ∧
    atoll (ws ++ 43 :: ds ++ c :: rest) = .ok (clamp64 (accum 0 ds : Nat)) ∧
    (ds ≠ [] → atoll (ws ++ ds ++ c :: rest) = .ok (clamp64 (accum 0 ds : Nat))) ∧
    (isSpaceC c = false → (c == 45) = false → (c == 43) = false → atoll (ws ++ c :: rest) = .ok 0) :=
  atoll_base10 ws ds c rest hws hd hc

/-- the instances the streams use: "010" is ten (no octal), "0x1f" is zero (no hex), " 42" and
    "+7" are read, "-0" is zero, 2^63 saturates -/
example : atoll [48, 49, 48, 0] = .ok 10 ∧ atoll [48, 120, 49, 102, 0] = .ok 0 ∧ atoll [32, 52, 50, 0] = .ok 42 ∧
    atoll [43, 55, 0] = .ok 7 ∧ atoll [45, 48, 0] = .ok 0 ∧ atoll [49, 101, 51, 0] = .ok 1 ∧ atoll [0] = .ok 0 ∧
    atoll [57, 50, 50, 51, 51, 55, 50, 48, 51, 54, 56, 53, 52, 55, 55, 53, 56, 48, 56, 0] = .ok int64Max :=
  ⟨rfl, rfl, rfl, rfl, rfl, rfl, rfl, rfl⟩

/-- every entry point rejects a NULL name / data / string / object with EINVAL (debug: a NULL
    stream with EIO) and leaves the table exactly as it was, whatever the other arguments are -/
theorem null_args_rejected (s : Tbl) (k : KeyArg) (d : Option Bytes) (n : Int) (f : Bytes) :
    putA s none d = (s, false, .einval) ∧ putA s k none = (s, false, .einval) ∧
    putstrA s none d = (s, false, .einval) ∧ putstrA s k none = (s, false, .einval) ∧
    putstrfA s none f = (s, false, .einval) ∧ putintA s none n = (s, false, .einval) ∧
    getA s none = (none, .einval) ∧ getintA s none = (.ok 0, .einval) ∧
    removeA s none = (s, false, .einval) ∧ getnextA s none = (.ok none, .einval) ∧
    debugA false = (false, .eio) := by
  refine ⟨rfl, ?_, rfl, ?_, rfl, rfl, rfl, rfl, rfl, rfl, rfl⟩
  · cases k <;> rfl
  · cases k <;> rfl

/-- the battery of the harness op `inv` (17 calls on the current table): every call fails with
    EINVAL (the last with EIO) and the final table is the initial one -/
theorem inv_is_identity (s : Tbl) :
    runCalls invBattery s = (s, List.replicate 16 (false, Err.einval) ++ [(false, Err.eio)]) := rfl

/-- with valid arguments the checked entry points are the modelled operations -/
theorem valid_args_are_ops (s : Tbl) (k v : Bytes) :
    putA s (some (k, h k)) (some v) = (put s k (h k) v, true, .none) ∧
    (getA s (some (k, h k))).1 = get s k (h k) ∧
    (removeA s (some (k, h k))).1 = (remove s k (h k)).2 ∧ (removeA s (some (k, h k))).2.1 = (remove s k (h k)).1 := by
  refine ⟨rfl, ?_, rfl, rfl⟩
  cases hg : get s k (h k) <;> simp [getA, hg]

/-- KEY EQUALITY IS (hash, strcmp) ON THE WHOLE NAME. `h` is arbitrary in every theorem above — it
    may give two different names the same value, also a name and a proper extension of it — and the
    ideal map is keyed by the whole byte string. Spelled out for the case the chain search has to get
    right: putting the longer (or shorter) of two such names never touches what is stored under the
    other one. (`isMatch` compares the stored hash and then the complete names.) -/
theorem prefix_keys_are_distinct {s : Tbl} {m : AssocMap} (A : Abs h s m) (k sfx v : Bytes) (hs : sfx ≠ []) :
    get (put s (k ++ sfx) (h (k ++ sfx)) v) k (h k) = get s k (h k) ∧
    get (put s k (h k) v) (k ++ sfx) (h (k ++ sfx)) = get s (k ++ sfx) (h (k ++ sfx)) := by
  have hne : ¬ (k = k ++ sfx) := by
    intro h1
    have := congrArg List.length h1
    simp only [List.length_append] at this
    have : sfx.length = 0 := by omega
    exact hs (List.eq_nil_of_length_eq_zero this)
  have h1 := (put_spec h A.inv (k ++ sfx) v).2.1 k
  have h2 := (put_spec h A.inv k v).2.1 (k ++ sfx)
  rw [if_neg hne] at h1
  rw [if_neg (fun h3 => hne h3.symm)] at h2
  exact ⟨h1, h2⟩

/-- a put / putstr whose data argument points INTO the stored value of the same key (pointer from
    get or getnext with newmem = false, plus an offset) stores the addressed bytes of the OLD value:
    `qhashtbl_put` copies before it releases. `aliasValue` is `none` when the harness skips the call
    (key absent, range outside the block, no terminator for putstr). -/
theorem put_alias_stores_old_bytes {s : Tbl} {m : AssocMap} (A : Abs h s m) (k : Bytes) (str : Bool) (off len : Nat)
    {v : Bytes} (hv : aliasValue s k (h k) str off len = some v) :
    (∃ old, m.lookup k = some old ∧ off ≤ old.length ∧
      v = if str then (old.drop off).takeWhile (· != 0) ++ [0] else (old.drop off).take len) ∧
    putAlias s k (h k) str off len = some (put s k (h k) v) ∧ Abs h (put s k (h k) v) (m.insert k v) := by
  refine ⟨?_, by simp [putAlias, hv], abs_put h A k v⟩
  unfold aliasValue at hv
  rw [A.look k] at hv
  cases hl : m.lookup k with
  | none => rw [hl] at hv; cases hv
  | some old =>
    rw [hl] at hv
    simp only [] at hv
    by_cases ho : off > old.length
    · rw [if_pos ho] at hv; cases hv
    · rw [if_neg ho] at hv
      refine ⟨old, rfl, by omega, ?_⟩
      cases str with
      | true =>
        simp only [if_true, subStr] at hv ⊢
        split at hv
        · exact (Option.some.inj hv).symm
        · cases hv
      | false =>
        simp only [Bool.false_eq_true, if_false, subRange] at hv ⊢
        split at hv
        · exact (Option.some.inj hv).symm
        · cases hv

/-- debug() on an open stream never faults — also on empty values, for which `_q_textout` writes
    nothing (it must not look at `data[size - 1]`) — and renders one line per stored entry -/
theorem debug_total {s : Tbl} {m : AssocMap} (A : Abs h s m) (J : IdInv s) :
    (∃ out, debugText s = .ok out) ∧ textout [] = [] ∧ debugLine [107] [] 0 = [107, 61, 32, 40, 48, 44, 32, 48, 48, 48, 48, 48, 48, 48, 48, 41, 10] := by
  obtain ⟨cs, hw, _⟩ := walk_complete h A J
  exact ⟨⟨cs.flatMap fun c => debugLine c.name c.data c.hash, by simp only [debugText, hw]⟩, rfl, rfl⟩

/-- non-vacuity: a reachable two-key single-chain table satisfies the hypotheses -/
example : ∃ s m, Abs (fun _ => 7) s m ∧ IdInv s ∧ m.length = 2 :=
  ⟨_, _, (reachable_abs (fun _ => 7) 1 [.put [97] [1], .put [98] [2]]).1,
    (reachable_abs (fun _ => 7) 1 [.put [97] [1], .put [98] [2]]).2, rfl⟩

end Qlibc.Props.C05

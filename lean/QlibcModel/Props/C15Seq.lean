/-
  C15 — allocation failure is reported and leaves containers unchanged and valid:
  list / queue / stack / grow buffer (qlist.c, qqueue.c, qstack.c, qgrow.c) and vector (qvector.c).

  `plan i` says whether the i-th allocation attempt inside the call fails; the `…F` forms
  (Seq/Fault.lean) mirror the order of malloc/calloc/realloc calls of the C functions and are
  tied to the code by the fault-enumeration correspondence (harness/seq.c, harness/vector.c fail
  exactly that allocation through harness/allocwrap.h and report the number of attempts, which
  must equal the model's; checks/seqoverlay.py).  Every theorem is for EVERY plan (single
  failures, "all from k on", anything else).

  The atomicity statements are the strong form: a reported failure returns the very same state
  (not merely the same contents), the errno is ENOMEM, and a call that does not report ENOMEM is
  exactly the plain operation, to which the refinement theorems of C09 / C10 apply.
-/
import QlibcModel.Seq.FaultHistory
import QlibcModel.Seq.WalkRetry
namespace Qlibc.Props.C15Seq
open Qlibc Qlibc.Seq Qlibc.Seq.Spec

/-! ### list -/

/-- `qlist_addat` (addfirst/addlast are index 0 / -1) under ANY plan: at most two allocation
    attempts; the list is well-formed afterwards; either `false`/ENOMEM with the very same list,
    or the plain insertion, which is the ideal list's insertion -/
theorem list_add_fault_atomic (plan : Plan) (l : QList) (hwf : l.WF) (hn : l.num < 2147483648)
    (index : Int) (hi : IsInt32 index) (d : Option Bytes) :
    (l.addAtF plan index d).1.2.WF ∧ (l.addAtF plan index d).2 ≤ 2 ∧
    ((l.addAtF plan index d).1 = ((false, .ENOMEM), l) ∨
     ((l.addAtF plan index d).1 = l.addAt index d ∧
      (l.addAtF plan index d).1.1 = (l.abs.addAt index d).1 ∧
      (l.addAtF plan index d).1.2.abs = (l.abs.addAt index d).2)) := by
  obtain ⟨h1, h2, h3, _⟩ := QList.addAt_refines l hwf hn index hi d
  refine ⟨?_, QList.addAtF_allocs plan l index d, ?_⟩
  · rcases QList.addAtF_cases plan l index d with h | h <;> rw [h]
    · exact hwf
    · exact h3
  · rcases QList.addAtF_cases plan l index d with h | h
    · left; exact h
    · right; rw [h]; exact ⟨rfl, h1, h2⟩

/-- with no failing allocation the plan form is the ordinary insertion -/
theorem list_add_no_fault (l : QList) (index : Int) (d : Option Bytes) :
    (l.addAtF noFail index d).1 = l.addAt index d :=
  QList.addAtF_noFail l index d

/-- the plain insertion never reports ENOMEM: an ENOMEM result always stems from the plan -/
theorem list_add_enomem_only_injected (l : QList) (index : Int) (d : Option Bytes) :
    (l.addAt index d).1.2 ≠ .ENOMEM :=
  QList.addAt_errno_ne l index d

/-- the copying accessors and pop (`get_at(list, index, size, newmem, remove)`): NULL/ENOMEM
    with the very same list — in particular nothing has been removed — or the plain operation -/
theorem list_get_pop_fault_atomic (plan : Plan) (l : QList) (index : Int) (newmem remove : Bool) :
    (l.getAtGF plan index newmem remove).1 = ((none, .ENOMEM), l) ∨
    (l.getAtGF plan index newmem remove).1 = l.getAtG index remove :=
  QList.getAtGF_cases plan l index newmem remove

theorem list_get_pop_no_fault (l : QList) (index : Int) (newmem remove : Bool) :
    (l.getAtGF noFail index newmem remove).1 = l.getAtG index remove :=
  QList.getAtGF_noFail l index newmem remove

/-- `qlist_getnext(newmem)`: a failed copy returns `false`/ENOMEM and leaves the position of the
    caller's cursor (size, prev, next) as it was — the same call can be repeated — else it is
    the plain step -/
theorem list_getnext_fault (plan : Plan) (l : QList) (c : QList.Cursor) (newmem : Bool) :
    (∃ f, l.getNext c = .error f ∧ l.getNextF plan c newmem = .error f) ∨
    (∃ r n, l.getNext c = .ok r ∧
      (l.getNextF plan c newmem = .ok (r, n) ∨
       l.getNextF plan c newmem = .ok (((false, .ENOMEM), { c with data := [] }), n))) :=
  QList.getNextF_cases plan l c newmem

/-- toarray / tostring: NULL/ENOMEM (`*size` not written) or the plain result; the list is not
    an output of these calls at all -/
theorem list_toarray_fault (plan : Plan) (l : QList) :
    l.toArrayF plan = .ok (((none, .ENOMEM), none), 1) ∨
    l.toArrayF plan = l.toArray.map (fun r => ((r.1, some r.2), if l.num ≤ 0 then 0 else 1)) :=
  QList.toArrayF_cases plan l

theorem list_tostring_fault (plan : Plan) (l : QList) :
    l.toStringF plan = .ok ((none, .ENOMEM), 1) ∨
    l.toStringF plan = l.toStringBuf.map (fun r => (r, if l.num ≤ 0 then 0 else 1)) :=
  QList.toStringF_cases plan l

/-- **ctor_fault** `qlist()`: a constructor that returns NULL has released everything it had
    obtained; a successful one returns the empty list owning exactly the ledger's blocks -/
theorem list_ctor_fault (plan : Plan) (ts : Bool) :
    ((QList.newF plan ts).res = none → (QList.newF plan ts).live = 0) ∧
    (∀ l, (QList.newF plan ts).res = some l → l = {} ∧ (QList.newF plan ts).live = l.blocks ts) ∧
    (QList.newF plan ts).allocs ≤ 2 :=
  QList.newF_spec plan ts

/-- operation by operation, for every list operation and ANY plan: ENOMEM and the very same
    list, or exactly the plain operation -/
theorem list_step_fault_atomic (plan : Plan) (nm : Bool) (l : QList) (op : LOp) :
    (isEnomem (l.stepF plan nm op).1 = true ∧ (l.stepF plan nm op).2 = l) ∨ l.stepF plan nm op = l.step op :=
  QList.stepF_cases plan nm l op

/-- **fault_then_normal**: EVERY history from the empty list in which every call has its own
    arbitrary allocation plan ends in a well-formed list whose contents are those the IDEAL list
    reaches on the calls that did not report ENOMEM (`survivors`, a sub-history), and these calls
    returned exactly what the ideal list returns -/
theorem list_history_under_faults (nm : Bool) (pos : List (Plan × LOp)) (hops : ∀ a ∈ pos, a.2.ints)
    (hlen : pos.length < 2147483648) :
    (QList.empty.survivors nm pos).Sublist (pos.map (·.2)) ∧
    (QList.empty.runF nm pos).2.WF ∧
    (QList.empty.runF nm pos).2.abs = (({} : IList).run (QList.empty.survivors nm pos)).2 ∧
    (QList.empty.runF nm pos).1.filter (fun r => !isEnomem r) = (({} : IList).run (QList.empty.survivors nm pos)).1 := by
  have hsub := QList.survivors_sublist nm QList.empty pos
  obtain ⟨e1, e2⟩ := QList.runF_eq nm QList.empty pos
  have hints : ∀ op ∈ QList.empty.survivors nm pos, op.ints := by
    intro op h
    rcases List.mem_map.1 (hsub.subset h) with ⟨a, ha, rfl⟩
    exact hops a ha
  have hl : (QList.empty.survivors nm pos).length ≤ pos.length := by
    simpa using hsub.length_le
  have h0 : QList.empty.num = 0 := rfl
  obtain ⟨g1, g2, g3⟩ := QList.run_refines QList.empty QList.WF_empty _ hints (by omega)
  refine ⟨hsub, ?_, ?_, ?_⟩
  · rw [e1]; exact g3
  · rw [e1]; exact g2
  · rw [e2]; exact g1

/-! ### queue, stack, grow buffer: the wrapper's handle first, then the list's allocations -/

theorem queue_push_fault_atomic (plan : Plan) (q : QQueue) (d : Option Bytes) :
    (q.pushF plan d).1 = ((false, .ENOMEM), q) ∨ (q.pushF plan d).1 = q.push d :=
  QQueue.pushF_cases plan q d

theorem queue_pop_fault_atomic (plan : Plan) (q : QQueue) (i : Int) :
    (q.popAtF plan i).1 = ((none, .ENOMEM), q) ∨ (q.popAtF plan i).1 = q.popAt i :=
  QQueue.popAtF_cases plan q i

theorem queue_get_fault (plan : Plan) (q : QQueue) (i : Int) (nm : Bool) :
    (q.getAtF plan i nm).1 = (none, .ENOMEM) ∨ (q.getAtF plan i nm).1 = q.getAt i :=
  QQueue.getAtF_cases plan q i nm

theorem stack_push_fault_atomic (plan : Plan) (q : QStack) (d : Option Bytes) :
    (q.pushF plan d).1 = ((false, .ENOMEM), q) ∨ (q.pushF plan d).1 = q.push d :=
  QStack.pushF_cases plan q d

theorem stack_pop_fault_atomic (plan : Plan) (q : QStack) (i : Int) :
    (q.popAtF plan i).1 = ((none, .ENOMEM), q) ∨ (q.popAtF plan i).1 = q.popAt i :=
  QStack.popAtF_cases plan q i

theorem stack_get_fault (plan : Plan) (q : QStack) (i : Int) (nm : Bool) :
    (q.getAtF plan i nm).1 = (none, .ENOMEM) ∨ (q.getAtF plan i nm).1 = q.getAt i :=
  QStack.getAtF_cases plan q i nm

theorem grow_add_fault_atomic (plan : Plan) (g : QGrow) (d : Option Bytes) :
    (g.addF plan d).1 = ((false, .ENOMEM), g) ∨ (g.addF plan d).1 = g.add d :=
  QGrow.addF_cases plan g d

/-- `qgrow_addstrf`: whichever allocation fails — one of the formatting buffers of
    DYNAMIC_VSPRINTF or one of the two of the insertion — `false`/ENOMEM and the same buffer -/
theorem grow_addstrf_fault_atomic (plan : Plan) (g : QGrow) (s : Bytes) :
    (g.addStrfF plan s).1 = ((false, .ENOMEM), g) ∨ (g.addStrfF plan s).1 = g.addStr s :=
  QGrow.addStrfF_cases plan g s

/-- **ctor_fault** `qqueue()`, `qstack()`, `qgrow()` (thread-safe or not): NULL ⇒ nothing live -/
theorem queue_ctor_fault (plan : Plan) (ts : Bool) :
    ((QQueue.newF plan ts).res = none → (QQueue.newF plan ts).live = 0) ∧
    (∀ q, (QQueue.newF plan ts).res = some q → q = {} ∧ (QQueue.newF plan ts).live = q.blocks ts) ∧
    (QQueue.newF plan ts).allocs ≤ 3 :=
  QQueue.newF_spec plan ts

theorem stack_ctor_fault (plan : Plan) (ts : Bool) :
    ((QStack.newF plan ts).res = none → (QStack.newF plan ts).live = 0) ∧
    (∀ q, (QStack.newF plan ts).res = some q → q = {} ∧ (QStack.newF plan ts).live = q.blocks ts) ∧
    (QStack.newF plan ts).allocs ≤ 3 :=
  QStack.newF_spec plan ts

theorem grow_ctor_fault (plan : Plan) (ts : Bool) :
    ((QGrow.newF plan ts).res = none → (QGrow.newF plan ts).live = 0) ∧
    (∀ g, (QGrow.newF plan ts).res = some g → g = {} ∧ (QGrow.newF plan ts).live = g.blocks ts) ∧
    (QGrow.newF plan ts).allocs ≤ 3 :=
  QGrow.newF_spec plan ts

/-- **fault_then_normal** for the queue: EVERY history from the empty queue in which every call
    has its own arbitrary allocation plan ends in a well-formed queue whose contents are those the
    IDEAL queue (`qstep (-1)`: push at the back, pop at the front) reaches on the calls that did
    not report ENOMEM, and these calls returned exactly what the ideal queue returns -/
theorem queue_history_under_faults (nm : Bool) (pos : List (Plan × QOp)) (hops : ∀ a ∈ pos, a.2.ints)
    (hlen : pos.length < 2147483648) :
    (({} : QQueue).survivors nm pos).Sublist (pos.map (·.2)) ∧
    (({} : QQueue).runF nm pos).2.list.WF ∧
    (({} : QQueue).runF nm pos).2.list.abs = (({} : IList).qrun (-1) (({} : QQueue).survivors nm pos)).2 ∧
    (({} : QQueue).runF nm pos).1.filter (fun r => !isEnomem r) =
      (({} : IList).qrun (-1) (({} : QQueue).survivors nm pos)).1 := by
  have hsub := QQueue.survivors_sublist nm {} pos
  have h0 : ({} : QQueue).list.num = 0 := rfl
  obtain ⟨e1, e2, e3⟩ := QQueue.runF_eq nm {} QList.WF_empty pos hops (by omega)
  have hints : ∀ op ∈ ({} : QQueue).survivors nm pos, op.ints := by
    intro op h
    rcases List.mem_map.1 (hsub.subset h) with ⟨a, ha, rfl⟩
    exact hops a ha
  have hl : (({} : QQueue).survivors nm pos).length ≤ pos.length := by simpa using hsub.length_le
  obtain ⟨g1, g2, _⟩ := QQueue.run_refines {} QList.WF_empty _ hints (by omega)
  refine ⟨hsub, e3, ?_, ?_⟩
  · rw [e1]; exact g2
  · rw [e2]; exact g1

/-- … for the stack (`qstep 0`: push and pop at the front) -/
theorem stack_history_under_faults (nm : Bool) (pos : List (Plan × QOp)) (hops : ∀ a ∈ pos, a.2.ints)
    (hlen : pos.length < 2147483648) :
    (({} : QStack).survivors nm pos).Sublist (pos.map (·.2)) ∧
    (({} : QStack).runF nm pos).2.list.WF ∧
    (({} : QStack).runF nm pos).2.list.abs = (({} : IList).qrun 0 (({} : QStack).survivors nm pos)).2 ∧
    (({} : QStack).runF nm pos).1.filter (fun r => !isEnomem r) =
      (({} : IList).qrun 0 (({} : QStack).survivors nm pos)).1 := by
  have hsub := QStack.survivors_sublist nm {} pos
  have h0 : ({} : QStack).list.num = 0 := rfl
  obtain ⟨e1, e2, e3⟩ := QStack.runF_eq nm {} QList.WF_empty pos hops (by omega)
  have hints : ∀ op ∈ ({} : QStack).survivors nm pos, op.ints := by
    intro op h
    rcases List.mem_map.1 (hsub.subset h) with ⟨a, ha, rfl⟩
    exact hops a ha
  have hl : (({} : QStack).survivors nm pos).length ≤ pos.length := by simpa using hsub.length_le
  obtain ⟨g1, g2, _⟩ := QStack.run_refines {} QList.WF_empty _ hints (by omega)
  refine ⟨hsub, e3, ?_, ?_⟩
  · rw [e1]; exact g2
  · rw [e2]; exact g1

/-- … and for the grow buffer (pieces appended, toarray/tostring concatenate) -/
theorem grow_history_under_faults (pos : List (Plan × GOp)) (hlen : pos.length < 2147483648) :
    (({} : QGrow).survivors pos).Sublist (pos.map (·.2)) ∧
    (({} : QGrow).runF pos).2.list.WF ∧
    (({} : QGrow).runF pos).2.list.abs = (({} : IList).grun (({} : QGrow).survivors pos)).2 ∧
    (({} : QGrow).runF pos).1.filter (fun r => !isEnomem r) = (({} : IList).grun (({} : QGrow).survivors pos)).1 := by
  have hsub := QGrow.survivors_sublist {} pos
  have h0 : ({} : QGrow).list.num = 0 := rfl
  obtain ⟨e1, e2, e3⟩ := QGrow.runF_eq {} QList.WF_empty pos (by omega)
  have hl : (({} : QGrow).survivors pos).length ≤ pos.length := by simpa using hsub.length_le
  obtain ⟨g1, g2, _⟩ := QGrow.run_refines {} QList.WF_empty (({} : QGrow).survivors pos) (by omega)
  refine ⟨hsub, e3, ?_, ?_⟩
  · rw [e1]; exact g2
  · rw [e2]; exact g1

/-! ### vector -/

/-- `qvector_addat` (addfirst/addlast likewise) under ANY plan, from any well-formed vector: the
    call returns (no fault: no slot outside the buffer is touched), the vector is well-formed
    afterwards; either `false`/ENOMEM with the very same vector (growth failed before anything
    was shifted), or the plain insertion, which is the ideal array's insertion -/
theorem vector_add_fault_atomic (plan : Plan) (v : Vec) (hwf : v.WF) (hn : v.num < 2147483648)
    (index : Int) (hi : IsInt32 index) (d : Bytes) (hd : d.length = v.objsize) :
    ∃ r v' n, v.addAtF plan index (some d) = .ok ((r, v'), n) ∧ v'.WF ∧ n ≤ 1 ∧
      ((r = (false, .ENOMEM) ∧ v' = v) ∨
       (v.addAt index (some d) = .ok (r, v') ∧ r = (v.abs.addAt index (some d)).1 ∧
        v'.abs = (v.abs.addAt index (some d)).2)) := by
  obtain ⟨r, v', e, h1, h2, h3, _⟩ := Vec.addAt_refines v hwf hn index hi d hd
  rcases Vec.addAtF_cases plan v index (some d) with h | ⟨n, h⟩
  · exact ⟨_, _, _, h, hwf, Nat.le_refl _, Or.inl ⟨rfl, rfl⟩⟩
  · rw [e] at h
    have hh : v.addAtF plan index (some d) = .ok ((r, v'), n) := h
    exact ⟨r, v', n, hh, h3, Vec.addAtF_allocs plan v index (some d) _ hh, Or.inr ⟨e, h1, h2⟩⟩

theorem vector_add_no_fault (v : Vec) (index : Int) (d : Option Bytes) :
    (v.addAtF noFail index d).map (·.1) = v.addAt index d :=
  Vec.addAtF_noFail v index d

/-- `qvector_resize`: `false` (ENOMEM) with the very same vector, or the plain resize;
    shrinking to 0 needs no allocation and cannot fail -/
theorem vector_resize_fault_atomic (plan : Plan) (v : Vec) (m : Nat) :
    (v.resizeF plan m = ((false, v), 1) ∨ (v.resizeF plan m).1 = v.resize m) ∧
    (v.resizeF plan 0) = (v.resize 0, 0) :=
  ⟨Vec.resizeF_cases plan v m, rfl⟩

/-- public `qvector_resize` to EVERY capacity — growing, the current one, shrinking below the element
    count — under EVERY plan: a reported failure (only possible for newmax ≠ 0, when the one realloc
    fails) returns the very same vector: element count, contents and capacity are what they were;
    a success is the plain resize: the surviving elements are the prefix of length newmax, the
    capacity is newmax, the invariant holds. At most one allocation attempt. -/
theorem resize_fault_atomic (plan : Plan) (v : Vec) (hwf : v.WF) (newmax : Nat) :
    ((v.resizeF plan newmax).1.1 = false →
      (v.resizeF plan newmax).1.2 = v ∧ newmax ≠ 0 ∧ plan 1 = true) ∧
    ((v.resizeF plan newmax).1.1 = true →
      (v.resizeF plan newmax).1.2.live = v.live.take newmax ∧ (v.resizeF plan newmax).1.2.max = newmax ∧
      (v.resizeF plan newmax).1.2.num = min v.num newmax ∧ (v.resizeF plan newmax).1.2.WF) ∧
    (v.resizeF plan newmax).2 ≤ 1 := by
  obtain ⟨h1, h2, h3, h4, _⟩ := Vec.resize_spec v hwf newmax
  have hnum : (v.resize newmax).2.num = min v.num newmax := by
    have a := Vec.live_length _ h3
    rw [h2, List.length_take, Vec.live_length v hwf] at a
    omega
  unfold Vec.resizeF
  by_cases h0 : newmax = 0
  · subst h0
    simp only [if_true]
    refine ⟨fun h => ?_, ⟨fun _ => ⟨h2, h4, hnum, h3⟩, Nat.zero_le _⟩⟩
    rw [h1] at h; cases h
  · rw [if_neg h0]
    by_cases hp : plan 1 = true
    · rw [if_pos hp]
      exact ⟨fun _ => ⟨rfl, h0, hp⟩, ⟨fun h => by simp at h, Nat.le_refl _⟩⟩
    · rw [if_neg hp]
      refine ⟨fun h => ?_, ⟨fun _ => ⟨h2, h4, hnum, h3⟩, Nat.le_refl _⟩⟩
      rw [h1] at h; cases h

/-- copying get: NULL/ENOMEM or the plain result -/
theorem vector_get_fault (plan : Plan) (v : Vec) (index : Int) (nm : Bool) :
    v.getAtF plan index nm = .ok ((none, .ENOMEM), 1) ∨
    ∃ n, v.getAtF plan index nm = (v.getAt index).map fun x => (x, n) :=
  Vec.getAtF_cases plan v index nm

/-- pop: the copy is made before the removal — NULL/ENOMEM and the very same vector, or the
    plain pop -/
theorem vector_pop_fault_atomic (plan : Plan) (v : Vec) (index : Int) :
    v.popAtF plan index = .ok (((none, .ENOMEM), v), 1) ∨
    ∃ n, v.popAtF plan index = (v.popAt index).map fun x => (x, n) :=
  Vec.popAtF_cases plan v index

theorem vector_toarray_fault (plan : Plan) (v : Vec) :
    v.toArrayF plan = .ok (((none, .ENOMEM), none), 1) ∨
    v.toArrayF plan = v.toArray.map (fun r => ((r.1, some r.2), if v.num ≤ 0 then 0 else 1)) :=
  Vec.toArrayF_cases plan v

/-- `qvector_reverse`: errno = ENOMEM and nothing swapped, or the plain reversal -/
theorem vector_reverse_fault_atomic (plan : Plan) (v : Vec) :
    v.reverseF plan = .ok ((true, v), 1) ∨
    ∃ n, v.reverseF plan = v.reverse.map fun v' => ((false, v'), n) :=
  Vec.reverseF_cases plan v

/-- `qvector_getnext(newmem)`: `false`/ENOMEM with the index not advanced, or the plain step -/
theorem vector_getnext_fault (plan : Plan) (v : Vec) (c : Vec.Cursor) (nm : Bool) :
    v.getNextF plan c nm = .ok (((none, .ENOMEM), c), 1) ∨
    ∃ n, v.getNextF plan c nm = (v.getNext c).map fun x => (x, n) :=
  Vec.getNextF_cases plan v c nm

/-- **ctor_fault** `qvector()`: NULL (EINVAL or ENOMEM) ⇒ nothing live — including the element
    buffer when the mutex of a thread-safe vector cannot be created (the repaired leak) -/
theorem vector_ctor_fault (plan : Plan) (max objsize options : Nat) :
    ((Vec.newF plan max objsize options).res = none → (Vec.newF plan max objsize options).live = 0) ∧
    (∀ v, (Vec.newF plan max objsize options).res = some v →
      Vec.new max objsize options = some v ∧
      (Vec.newF plan max objsize options).live = v.blocks (options &&& Vec.QVECTOR_THREADSAFE != 0)) ∧
    (Vec.newF plan max objsize options).allocs ≤ 3 :=
  Vec.newF_spec plan max objsize options

theorem vector_step_fault_atomic (plan : Plan) (nm : Bool) (v : Vec) (op : VOp) :
    (isEnomem (v.stepF plan nm op).1 = true ∧ (v.stepF plan nm op).2 = v) ∨ v.stepF plan nm op = v.step op :=
  Vec.stepF_cases plan nm v op

/-- **fault_then_normal** for the vector, every element size ≥ 1, growth policy and initial
    capacity: EVERY history in which every call has its own arbitrary allocation plan ends in a
    well-formed vector whose contents are those the IDEAL array reaches on the calls that did not
    report ENOMEM, and these calls returned exactly what the ideal array returns -/
theorem vector_history_under_faults (nm : Bool) (max objsize options : Nat) (hos : 1 ≤ objsize)
    (pos : List (Plan × VOp)) (hops : ∀ a ∈ pos, a.2.ok objsize) (hlen : pos.length < 2147483648) :
    ∃ v, Vec.new max objsize options = some v ∧
      (v.survivors nm pos).Sublist (pos.map (·.2)) ∧
      (v.runF nm pos).2.WF ∧
      (v.runF nm pos).2.abs = ((⟨[], objsize⟩ : IVec).run (v.survivors nm pos)).2 ∧
      (v.runF nm pos).1.filter (fun r => !isEnomem r) = ((⟨[], objsize⟩ : IVec).run (v.survivors nm pos)).1 := by
  have hne : objsize ≠ 0 := by omega
  obtain ⟨v, hv⟩ : ∃ v, Vec.new max objsize options = some v := by
    unfold Vec.new; rw [if_neg hne]; exact ⟨_, rfl⟩
  obtain ⟨w, l, o, _⟩ := Vec.new_WF max objsize options v hv
  have hnum : v.num = 0 := by
    have := Vec.live_length v w; rw [l] at this; simpa using this.symm
  have hsub := Vec.survivors_sublist nm v pos
  obtain ⟨e1, e2, e3⟩ := Vec.runF_eq nm v w pos (by rw [o]; exact hops) (by omega)
  have hok : ∀ op ∈ v.survivors nm pos, op.ok v.objsize := by
    intro op h
    rcases List.mem_map.1 (hsub.subset h) with ⟨a, ha, rfl⟩
    rw [o]; exact hops a ha
  have hl : (v.survivors nm pos).length ≤ pos.length := by simpa using hsub.length_le
  obtain ⟨g1, g2, _⟩ := Vec.run_refines v w _ hok (by omega)
  have e : v.abs = ⟨[], objsize⟩ := by simp only [Vec.abs, l, o]
  rw [e] at g1 g2
  refine ⟨v, hv, hsub, e3, ?_, ?_⟩
  · rw [e1]; exact g2
  · rw [e2]; exact g1

/-! ### walks under allocation failure: a failed getnext is retried with the same cursor

  `walkF` (Seq/WalkRetry.lean): the i-th call of a walk with the caller's cursor runs under the
  i-th plan — ANY plans; a call that reports ENOMEM is simply made again. The elements handed out
  are a prefix of the contents (none skipped, none repeated), and all of them once the walk
  reports its end. In particular the retry after a failure delivers the element that was due. -/

theorem list_walk_retry (l : QList) (hwf : l.WF) (nm : Bool) (plans : List Plan) :
    ∃ ds ended, l.walkF nm plans {} = .ok (ds, ended) ∧ ds <+: l.content ∧ (ended = true → ds = l.content) :=
  QList.walkF_fresh l hwf nm plans

/-- resumed at any position: a cursor that is zeroed (p = 0) or holds the copy of node p-1 -/
theorem list_walk_retry_from (l : QList) (hwf : l.WF) (nm : Bool) (plans : List Plan) (c : QList.Cursor) (p : Nat)
    (hat : l.AtPos c p) (hp : p ≤ l.elems.length) :
    ∃ ds ended, l.walkF nm plans c = .ok (ds, ended) ∧ ds <+: l.content.drop p ∧
      (ended = true → ds = l.content.drop p) :=
  QList.walkF_spec l hwf nm plans c p hat hp

theorem vector_walk_retry (v : Vec) (hwf : v.WF) (hn : v.num < 2147483648) (nm : Bool) (plans : List Plan)
    (p : Nat) (hp : p ≤ v.num) :
    ∃ ds ended, v.walkF nm plans { index := (p : Int) } = .ok (ds, ended) ∧ ds <+: v.live.drop p ∧
      (ended = true → ds = v.live.drop p) :=
  Vec.walkF_spec v hwf hn nm plans p hp

/-! ### nothing is leaked by a failure -/

/-- the number of blocks a list owns is a function of its contents: a reported failure (same
    state) cannot have leaked or double-freed a block of the container -/
theorem list_no_leak_on_failure (ts : Bool) (l l' : QList) (h : l.abs = l'.abs) : l.blocks ts = l'.blocks ts := by
  rw [QList.blocks_eq, QList.blocks_eq, h]

theorem vector_no_leak_on_failure (ts : Bool) (v v' : Vec) (hwf : v.WF) (hwf' : v'.WF) (h : v.max = v'.max) :
    v.blocks ts = v'.blocks ts := by
  rw [Vec.blocks_eq ts v hwf, Vec.blocks_eq ts v' hwf', h]

/-! ### non-vacuity: failing plans on real states -/

-- the second allocation of an insertion fails: two attempts, ENOMEM, same list
example : (QList.empty.addAtF (fun i => i == 2) 0 (some [1, 2])) = (((false, .ENOMEM), QList.empty), 2) := rfl

-- a history with a failure in the middle: the failed call is skipped, the others behave normally
example : (QList.empty.runF true [(noFail, .addlast (some [1])), (fun i => i == 1, .addlast (some [2])),
    (noFail, .addlast (some [3])), (fun _ => true, .popfirst), (noFail, .walk)]).1 =
    [.bool (true, .ok), .bool (false, .ENOMEM), .bool (true, .ok), .data (none, .ENOMEM), .elems [[1], [3]]] := by decide

-- a queue: a failed push is skipped, a failed popint reports ENOMEM and leaves the element queued
example : (({} : QQueue).runF true [(noFail, .pushint 7), (fun i => i == 2, .pushint 8), (fun _ => true, .popint),
    (noFail, .popint), (noFail, .size)]).1 =
    [.bool (true, .ok), .bool (false, .ENOMEM), .data (none, .ENOMEM), .int 7, .nat 0] := by decide

-- a full vector whose growth fails, then succeeds
example : ∃ v, Vec.new 1 2 8 = some v ∧
    (v.runF true [(noFail, .addlast (some [1, 1])), (fun i => i == 1, .addlast (some [2, 2])),
                  (noFail, .addlast (some [3, 3])), (fun i => i == 1, .reverse), (noFail, .toarray)]).1 =
    [.bool (true, .ok), .bool (false, .ENOMEM), .bool (true, .ok), .bool (false, .ENOMEM),
     .arr (some [1, 1, 3, 3], .ok) 2] :=
  ⟨_, rfl, by decide⟩

-- the thread-safe vector constructor whose mutex cannot be created leaves nothing allocated
example : (Vec.newF (fun i => i == 3) 2 2 1).res = none ∧ (Vec.newF (fun i => i == 3) 2 2 1).live = 0 ∧
    (Vec.newF (fun i => i == 3) 2 2 1).allocs = 3 := ⟨rfl, rfl, rfl⟩

end Qlibc.Props.C15Seq

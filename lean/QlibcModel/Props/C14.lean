import QlibcModel.Conc.Cfg
import QlibcModel.Conc.Mutex
import QlibcModel.Generated.LockCerts
/-! C14 — every operation returns with the container lock released.

`Generated.allCfgs` are the lock skeletons of every public function of qtreetbl, qhashtbl, qlisttbl,
qlist (+ qqueue/qstack/qgrow), qvector and qlog, regenerated from the current source on every run
(translator/lockcfg.py); `Generated.bal_<fn>` (LockCerts1-4.lean, also audited) are the per-function
certificates `balancedCfg cfg_<fn> = true`. -/
namespace Qlibc.Props.C14
open Qlibc.Conc Qlibc.Generated

/-- soundness of the certificate check, for ALL paths (induction over paths): on every path from the
    entry to a `ret` node, #lock − #unlock = 0 -/
theorem balancedCfg_sound {c : Cfg} (hb : balancedCfg c = true) {k : Nat} {es : List Ev} {n : Node}
    (p : Path c 0 es k) (hk : c.nodes[k]? = some n) (hr : n.ev = .ret) : delta es = 0 :=
  Qlibc.Conc.balancedCfg_sound hb p hk hr

/-- ... and the depth is never negative on the way (no unlock without a matching lock) -/
theorem balancedCfg_nonneg {c : Cfg} (hb : balancedCfg c = true) {k : Nat} {es : List Ev}
    (p : Path c 0 es k) : 0 ≤ delta es :=
  Qlibc.Conc.balancedCfg_nonneg hb p

/-- every extracted skeleton passes the certificate check -/
theorem all_balanced : ∀ c ∈ allCfgs, balancedCfg c.2 = true := bal_all

/-- **C14**: for every public function of every lockable container, every path of its skeleton from
    the entry to a return performs as many unlocks as locks (success, invalid argument, missing key,
    out-of-range index, empty/full container and allocation-failure branches are all paths). -/
theorem every_return_unlocked : ∀ c ∈ allCfgs, ∀ (k : Nat) (es : List Ev) (n : Node),
    Path c.2 0 es k → c.2.nodes[k]? = some n → n.ev = .ret →
    es.count Ev.lock = es.count Ev.unlock := by
  intro c hc k es n p hk hr
  exact balancedCfg_sound_count (bal_all c hc) p hk hr

/-- the primitives: `Q_MUTEX_ENTER` / `Q_MUTEX_LEAVE`, transcribed (Conc/Mutex.lean), change the
    caller's depth on a recursive mutex by +1 / −1, and do nothing when `qmutex = NULL` -/
theorem enter_leave_model (maxWait fuel t : Nat) :
    enter maxWait t fuel none = some none ∧ leave t none = none ∧
    (∀ m : QMutex, Available m t → ∃ m', enter maxWait t (fuel + 1) (some m) = some (some m') ∧
        m'.depthOf t = m.depthOf t + 1 ∧ m'.holder = some t) ∧
    (∀ m : QMutex, m.holder = some t → 1 ≤ m.depth → ∃ m', leave t (some m) = some m' ∧
        m'.depthOf t + 1 = m.depthOf t ∧ (m.depth = 1 → m'.holder = none)) := by
  refine ⟨rfl, rfl, ?_, ?_⟩
  · intro m h
    obtain ⟨m', h1, h2, h3, _⟩ := enterM_available h maxWait fuel
    exact ⟨m', by simp [enter, h1], h2, h3⟩
  · intro m h hd
    obtain ⟨m', h1, h2, h3, _⟩ := leave_owner h hd
    exact ⟨m', h1, h2, h3⟩

/-- a thread that finds the mutex owned by somebody else never gets through ENTER (mutual
    exclusion is not broken by the "forced unlock" branch of the macro) -/
theorem enter_excluded {t u : Nat} (hne : u ≠ t) (maxWait fuel : Nat) (m : QMutex)
    (h : m.holder = some u) : enter maxWait t fuel (some m) = none := by
  simp [enter, enterM_other hne maxWait fuel m h]

/- non-vacuity: the skeleton list is not empty, and a skeleton of the shape of `qvector_clear`
   (lock; write num; unlock; return) has a path to its return on which the lock is taken once -/
example : 100 ≤ allCfgs.length := by decide +kernel

def exampleCfg : Cfg := ⟨[⟨.nop, 0, [1], 675⟩, ⟨.lock, 0, [2], 676⟩, ⟨.write 217, 1, [3], 677⟩,
  ⟨.unlock, 1, [4], 678⟩, ⟨.ret, 0, [], 679⟩]⟩

example : balancedCfg exampleCfg = true := by decide
example : ∃ es k n, Path exampleCfg 0 es k ∧ exampleCfg.nodes[k]? = some n ∧ n.ev = .ret ∧
    es.count Ev.lock = 1 := by
  refine ⟨[.nop, .lock, .write 217, .unlock], 4, ⟨.ret, 0, [], 679⟩, ?_, rfl, rfl, by decide⟩
  exact .step (i := 0) (j := 1) (n := ⟨.nop, 0, [1], 675⟩) rfl (by decide) <|
    .step (i := 1) (j := 2) (n := ⟨.lock, 0, [2], 676⟩) rfl (by decide) <|
    .step (i := 2) (j := 3) (n := ⟨.write 217, 1, [3], 677⟩) rfl (by decide) <|
    .step (i := 3) (j := 4) (n := ⟨.unlock, 1, [4], 678⟩) rfl (by decide) <| .nil 4

end Qlibc.Props.C14

/-
  C12 — containers own private copies; returned copies are independent.

  Two layers (DESIGN.md section 7/C12).
  1. Byte-exactness for ALL contents is a corollary of the refinement theorems, which are stated
     over arbitrary byte lists with their lengths (embedded and trailing NUL bytes, all-zero
     elements included): C01.history_refines / get_refines (tree), C09.history_refines (list,
     queue, stack, grow), C10.history_refines (vector), and `stored_bytes_exact` below.
  2. Independence from the caller's buffers and of returned copies is a fact about addresses;
     in the value-semantic models it holds by construction (a model state contains values, not
     pointers into caller memory).  The address-level statement is proved in `Props/C12Mem.lean`
     on the block heap of `Mem/Model.lean` with the copy discipline of the code transcribed in
     `Mem/Copy.lean`: `owned_disjoint`, `noninterference`, `copy_survives`, `nocopy_aliases`,
     `release_frees_all`, for all interleavings of library calls and caller scribbles/frees.
     That the C code follows the discipline at each call site is tied by this property's
     correspondence:
     the harnesses overwrite and free the caller's key and value buffers immediately after every
     put/add/push, and keep EVERY copy handed out by a copying accessor together with a private
     duplicate, re-comparing them after later replace/remove/clear and after the container has
     been released (under ASan a retained internal pointer is a use-after-free).
-/
import QlibcModel.Props.C01
import QlibcModel.Props.C09
import QlibcModel.Props.C10
import QlibcModel.Props.C12Mem
import QlibcModel.Props.C12Map
import QlibcModel.Shapes.Tree
import QlibcModel.Shapes.Hashtbl
import QlibcModel.Shapes.Listtbl
import QlibcModel.Shapes.Seq
import QlibcModel.Shapes.Harr

namespace Qlibc.Props.C12
open Qlibc Qlibc.Tree Qlibc.Tree.T
variable {K V : Type} (cmp : K → K → Ordering)

/-- what was put is what get returns, byte for byte with its exact length, for any content -/
theorem stored_bytes_exact (hc : CmpOk cmp) (isEmpty : V → Bool) (k : K) (v : V) (m : List (K × V))
    (hs : Sorted cmp Prod.fst m) (hv : isEmpty v = false) :
    getSpec cmp k (putSpec cmp isEmpty k v m) = some v := by
  induction m with
  | nil => simp [putSpec, insL, getSpec, lookupL, hc.refl]
  | cons a rest ih =>
    unfold Sorted at hs; rw [List.pairwise_cons] at hs
    simp only [putSpec, insL, getSpec] at ih ⊢
    rcases hka : cmp k a.1 with _ | _ | _
    · simp [lookupL, hc.refl]
    · simp only [lookupL, hv]
      have : cmp k (a.1, v).1 = .eq := hka
      simp [this]
    · simp only [lookupL, hka]
      exact ih hs.2

/-- a later put under ANOTHER key does not change the stored bytes (C01.other_keys_untouched),
    and a model state holds values only: the tree-table step functions take the key and value
    by value and return the new state — nothing else of the caller is reachable from it -/
theorem step_depends_on_values_only (isEmpty : V → Bool) (s : Tbl K V) (op : Op K V) :
    ∃ r, s.step cmp isEmpty op = r := ⟨_, rfl⟩

-- non-vacuity: a value with embedded and trailing NUL bytes
example : getSpec byteCmp [1] (putSpec byteCmp (·.isEmpty) [1] [0, 7, 0] []) = some [0, 7, 0] := rfl

end Qlibc.Props.C12

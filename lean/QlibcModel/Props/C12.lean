import QlibcModel.Tree.FaultSpec
import QlibcModel.Tree.History
namespace Qlibc.Props.C12
theorem placeholder : True := trivial
end Qlibc.Props.C12

import QlibcModel.Conc.Cfg
import QlibcModel.Conc.Lin
import QlibcModel.Conc.LinNeg
import QlibcModel.Generated.LockWl
import QlibcModel.Generated.LockAtomic
import QlibcModel.Conc.AtomicLin
import QlibcModel.Generated.MutexMacros
import QlibcModel.Generated.MutexTrees
import QlibcModel.Conc.MacroModel
import QlibcModel.Conc.Mutex
import QlibcModel.Shapes.Tree
import QlibcModel.Shapes.Hashtbl
import QlibcModel.Shapes.Listtbl
import QlibcModel.Shapes.Seq
/-! C13 — the thread-safe option makes concurrent use linearizable.

1. `wellLocked_linearizable` (Conc/Lin.lean): generic, for all programs and ALL schedules — operations
   whose accesses to shared state all lie between acquire and release are linearizable in acquire
   order, consistent with program order and real-time precedence.
2. `all_wellLocked`: every C function in the C13 scope (`Generated.c13Cfgs`: insert/put, copying get,
   remove/pop, clear, flattening, ... of vector, list/queue/stack, hash table, list table, tree
   table) passes the certificate check "every access/write of a mutable container field happens at
   lock depth ≥ 1", on skeletons regenerated from the current source; `wellLockedCfg_sound` lifts
   the check to all paths.  This is the hypothesis `Op.WellLocked` of (1) for the C code.
3. `lockedWalk_snapshot`: a walk between lock() and unlock() observes one state. -/
namespace Qlibc.Props.C13
open Qlibc.Conc Qlibc.Conc.Lin Qlibc.Generated

/-- linearizability of well-locked operations, all schedules (statement in Conc/Lin.lean) -/
theorem wellLocked_linearizable {σ L : Type} (P : Prog σ L) (hP : ∀ t, ∀ op ∈ P t, op.WellLocked)
    (g0 : σ) (l0 : Nat → L) (sched : List Nat) (c : Config σ L)
    (hrun : Exec P (init g0 l0) sched c) (hfin : c.Finished P) :
    ∃ lin : List OpId,
      lin.Nodup ∧ (∀ t k, (t, k) ∈ lin ↔ k < (P t).length) ∧
      seqRun P lin (g0, l0) = (c.shared, fun t => (c.ts t).loc) ∧
      ∃ rank : OpId → Nat,
        lin.Pairwise (fun a b => rank a < rank b) ∧
        (∀ t k k', k < k' → k' < (P t).length → rank (t, k) < rank (t, k')) ∧
        (∀ a b, a ∈ lin → b ∈ lin → c.Precedes a b → rank a < rank b) :=
  Qlibc.Conc.Lin.wellLocked_linearizable P hP g0 l0 sched c hrun hfin

/-- a read-only walk inside one critical section observes one shared state -/
theorem lockedWalk_snapshot {σ L : Type} {P : Prog σ L} {g0 : σ} {l0 : Nat → L}
    (hP : ∀ t, ∀ op ∈ P t, op.WellLocked) {c c' : Config σ L} {sched : List Nat} {t : Nat}
    (h : Exec P c sched c') (hro : ∀ op ∈ P t, ∀ s ∈ op.body, s.ReadOnly)
    (ia : InvA P g0 l0 c)
    (hin : ∃ op rest done, (P t)[(c.ts t).pc]? = some op ∧ (c.ts t).phase = .body rest ∧ op.body = done ++ rest)
    (hlen : c'.lin.length = c.lin.length) (hh : c'.holder = some t) : c'.shared = c.shared :=
  Qlibc.Conc.Lin.lockedWalk_snapshot hP h hro ia hin hlen hh

/-- the invariant needed by `lockedWalk_snapshot` holds in every reachable configuration -/
theorem reachable_invA {σ L : Type} {P : Prog σ L} (hP : ∀ t, ∀ op ∈ P t, op.WellLocked) {g0 : σ}
    {l0 : Nat → L} {sched : List Nat} {c : Config σ L} (h : Exec P (init g0 l0) sched c) : InvA P g0 l0 c :=
  (exec_inv hP h ⟨invA_init P g0 l0, invG_init g0 l0⟩).1

/-- soundness of the per-function certificate, for ALL paths: wherever a path from the entry reaches
    an access/write of a non-exempt (mutable container) field, #lock − #unlock ≥ 1 -/
theorem wellLockedCfg_sound {exempt : List Nat} {c : Cfg} (hw : wellLockedCfg exempt c = true)
    {k : Nat} {es : List Ev} {n : Node} (p : Path c 0 es k) (hk : c.nodes[k]? = some n)
    (hn : needsLock exempt n.ev = true) : 1 ≤ delta es :=
  Qlibc.Conc.wellLockedCfg_sound hw p hk hn

/-- every function in the C13 scope touches mutable container fields only under the lock -/
theorem all_wellLocked : ∀ c ∈ c13Cfgs, wellLockedCfg lockExempt c.2 = true := wl_all

/-- negative result: the hypothesis is necessary.  An operation of the shape of the pinned
    `qvector_addlast` (reads the shared state before taking the lock) is not `WellLocked`, and two
    threads running it have a schedule -- both read, then both store -- whose final state (1) differs
    from that of both sequential orders (2): a lost update. -/
theorem unlocked_read_not_linearizable :
    ¬ incrBad.WellLocked ∧
    ∃ (sched : List Nat) (c : Config Nat Nat),
      Exec lostP (init 0 (fun _ => 0)) sched c ∧ c.Finished lostP ∧ c.shared = 1 ∧
      (seqRun lostP [(0, 0), (1, 0)] (0, fun _ => 0)).1 = 2 ∧
      (seqRun lostP [(1, 0), (0, 0)] (0, fun _ => 0)).1 = 2 :=
  ⟨incrBad_not_wellLocked, Qlibc.Conc.Lin.unlocked_read_not_linearizable⟩

/-! ### the wrapper layer: one critical section per call

`wl_<fn>` alone would accept a convenience wrapper that composes two self-locking calls
(`getfirst(); …; removefirst();` instead of `popfirst()`): every access is under the lock, yet the call
is not atomic.  `Generated.atomic_<fn>` (LockAtomic1-4.lean, regenerated from the current source, also
audited) certifies for every public function of the containers -- all of qqueue/qstack/qgrow and the
str/int convenience methods included -- that no path takes the lock from depth 0 twice. -/

/-- every public container function passes the one-critical-section certificate -/
theorem all_atomic : ∀ c ∈ atomicCfgs, phasesOk c.2.1 c.2.2 = true := atomic_all

/-- soundness, ALL paths: a certified function acquires the lock from depth 0 at most once per call -/
theorem one_critical_section_per_call : ∀ c ∈ atomicCfgs, ∀ (k : Nat) (es : List Ev),
    Path c.2.2 0 es k → outerLocks 0 es ≤ 1 := by
  intro c hc k es p
  exact phasesOk_sound (atomic_bal_all c hc) (atomic_all c hc) p

/-- connection with (1): every complete call of a function that has BOTH certificates is, under any
    interpretation of its events in which the quiet events are local, an operation
    `pre* ; acquire ; body* ; release ; post*` satisfying `Op.WellLocked` -- the hypothesis of
    `wellLocked_linearizable`; it is linearizable at its single outermost acquisition. -/
theorem certified_call_is_wellLocked_op {σ L : Type} (name : String) (ph : List Nat) (c : Cfg)
    (hscope : (name, c) ∈ c13Cfgs) (hat : (name, ph, c) ∈ atomicCfgs)
    (sem : Ev → MStep σ L) (hsem : ∀ e, Quiet lockExempt e → (sem e).IsLocal)
    {k : Nat} {es : List Ev} (p : Path c 0 es k) (hk : depthAt c k = some 0) :
    ∃ op : Op σ L, op.WellLocked ∧ op.pre ++ (op.body ++ op.post) = es.map sem ∧
      ∃ pre mid post, es = pre ++ mid ++ post ∧ op.pre = pre.map sem ∧ op.body = mid.map sem ∧
        op.post = post.map sem ∧ (mid = [] ∨ ∃ m, mid = .lock :: m ∧ insideOk 1 m = true) :=
  atomic_call_is_wellLocked_op (wl_all (name, c) hscope) (atomic_all (name, ph, c) hat) sem hsem p hk

/-- token-level fingerprint of Q_MUTEX_NEW, Q_MUTEX_DESTROY and MAX_MUTEX_LOCK_WAIT of the CURRENT source
    (regenerated by translator/mutexmacros.py on every run); ENTER and LEAVE are tied more precisely, as
    statement trees, by `macro_tree_as_modelled` below (so that renaming a macro-local variable is fine) -/
theorem macro_skeleton_as_modelled :
    Generated.mutexMacros.filter (fun x => x.1 != "Q_MUTEX_ENTER(m)" && x.1 != "Q_MUTEX_LEAVE(m)") =
    Qlibc.Conc.transcribedMacros.filter (fun x => x.1 != "Q_MUTEX_ENTER(m)" && x.1 != "Q_MUTEX_LEAVE(m)") := by
  decide +kernel

/-! ### the Q_MUTEX_* macros as statement trees (K-gen: Generated/MutexTrees.lean, clang AST of the
    expanded macros of the CURRENT source; macro-local names abstracted)

The semantic theorems of Conc/MacroModel.lean are about `enterModel` / `leaveModel`; the first
obligation says the current macros ARE these trees, the following ones transfer the theorems to the
extracted trees and give cheap syntactic certificates that say WHAT changed when it fails. -/

/-- the expanded macros of the current source, in the extractor's NORMAL FORM (`for` = init + `while`,
    `T x = e` = `T x; x = e`, sequences flattened, locals numbered), are the modelled trees (a renamed
    local or the polling loop rewritten as an equivalent `while` passes; an
    owner fast path, a second trylock, a timedlock, an assignment of the unlock result do not) -/
theorem macro_tree_as_modelled : Generated.enterTree = enterModel ∧ Generated.leaveTree = leaveModel := by
  decide +kernel

/-- (i)+(iii) for the EXTRACTED `Q_MUTEX_ENTER`: for every behaviour of the other threads (`env`, one
    move before each access to shared state) every terminating execution ends normally with the mutex
    held by the caller one level deeper, after exactly one successful acquisition, errno unchanged -/
theorem enter_returns_holding (t fuel : Nat) (s s' : MSt) (o : Outcome) (m : QMutex)
    (hm : s.mx = some m) (henv : EnvOk t s.env) (h : exec t fuel Generated.enterTree s = some (o, s')) :
    o = .normal ∧ ∃ m', s'.mx = some m' ∧ m'.depthOf t = m.depthOf t + 1 ∧ m'.holder = some t ∧
      s'.nAcq = s.nAcq + 1 ∧ s'.errno = s.errno := by
  rw [macro_tree_as_modelled.1] at h
  exact enter_returns_holding_model t fuel s s' o m hm henv h

/-- (ii) for the EXTRACTED `Q_MUTEX_LEAVE`: exactly one `pthread_mutex_unlock`, nothing else observable
    (errno, the caller's locals, the acquisition count) changes -/
theorem leave_unlocks_once (t fuel : Nat) (s s' : MSt) (o : Outcome) (m : QMutex)
    (hm : s.mx = some m) (henv : EnvOk t s.env) (h : exec t fuel Generated.leaveTree s = some (o, s')) :
    o = .normal ∧ s'.nUnlock = s.nUnlock + 1 ∧ s'.errno = s.errno ∧ s'.vars = s.vars ∧ s'.nAcq = s.nAcq ∧
      ∃ m1, m1.depthOf t = m.depthOf t ∧ (m1.holder = some t ↔ m.holder = some t) ∧ s'.mx = some (punlock t m1) := by
  rw [macro_tree_as_modelled.2] at h
  exact leave_unlocks_once_model t fuel s s' o m hm henv h

/-- syntactic certificates on the extracted trees (diagnosis): LEAVE has exactly one unlock call on its
    path and writes nothing but `count`; ENTER has one acquisition site (the trylock of the polling
    loop), one unlock site (the forced LEAVE), one `count++`, and writes nothing but its locals,
    `count` and `owner` -/
theorem macro_tree_shape :
    Generated.leaveTree.callRange isUnlock = some (1, 1) ∧ Generated.leaveTree.foreignWrites = 0 ∧
    Generated.leaveTree.countCalls isAcquire = 0 ∧
    Generated.enterTree.countCalls isAcquire = 1 ∧ Generated.enterTree.countCalls isUnlock = 1 ∧
    Generated.enterTree.countIncs = 1 ∧ Generated.enterTree.foreignWrites = 0 := by
  decide +kernel

/-- every `Q_MUTEX_NEW` call site of the library asks for a RECURSIVE mutex (the nested
    lock(); locking call; unlock() idiom and qvector addlast → addat → resize depend on it) -/
theorem all_container_mutexes_recursive :
    Generated.mutexNewSites.all (fun x => x.2.2 == "true") = true ∧ 5 ≤ Generated.mutexNewSites.length := by
  decide +kernel

/- non-vacuity: the scope is not empty; a two-thread program of well-locked counter increments is an
   instance of the generic theorem's hypothesis -/
example : 60 ≤ c13Cfgs.length := by decide +kernel

def incr : Op Nat Nat :=
  { pre := [⟨fun g l => (g, l + 1)⟩], body := [⟨fun g l => (g + l, g)⟩], post := [⟨fun g l => (g, l)⟩] }

example : incr.WellLocked := by
  constructor <;> intro s hs <;> simp [incr] at hs <;> subst hs <;> intro g l <;> simp

end Qlibc.Props.C13

import QlibcModel.Conc.Cfg
import QlibcModel.Conc.Lin
import QlibcModel.Conc.LinNeg
import QlibcModel.Generated.LockWl
/-! C13 — the thread-safe option makes concurrent use linearizable.

1. `wellLocked_linearizable` (Conc/Lin.lean): generic, for all programs and ALL schedules — operations
   whose accesses to shared state all lie between acquire and release are linearizable in acquire
   order, consistent with program order and real-time precedence.
2. `all_wellLocked`: every C function in the C13 scope (`Generated.c13Cfgs`: insert/put, copying get,
   remove/pop, clear, flattening, ... of vector, list/queue/stack, hash table, list table, tree
   table) passes the certificate check "every access/write of a mutable container field happens at
   lock depth ≥ 1", on skeletons regenerated from the current source; `wellLockedCfg_sound` lifts
   the check to all paths.  This is the hypothesis `Op.WellLocked` of (1) for the C code.
3. `lockedWalk_snapshot`: a walk between lock() and unlock() observes one state. -/
namespace Qlibc.Props.C13
open Qlibc.Conc Qlibc.Conc.Lin Qlibc.Generated

/-- linearizability of well-locked operations, all schedules (statement in Conc/Lin.lean) -/
theorem wellLocked_linearizable {σ L : Type} (P : Prog σ L) (hP : ∀ t, ∀ op ∈ P t, op.WellLocked)
    (g0 : σ) (l0 : Nat → L) (sched : List Nat) (c : Config σ L)
    (hrun : Exec P (init g0 l0) sched c) (hfin : c.Finished P) :
    ∃ lin : List OpId,
      lin.Nodup ∧ (∀ t k, (t, k) ∈ lin ↔ k < (P t).length) ∧
      seqRun P lin (g0, l0) = (c.shared, fun t => (c.ts t).loc) ∧
      ∃ rank : OpId → Nat,
        lin.Pairwise (fun a b => rank a < rank b) ∧
        (∀ t k k', k < k' → k' < (P t).length → rank (t, k) < rank (t, k')) ∧
        (∀ a b, a ∈ lin → b ∈ lin → c.Precedes a b → rank a < rank b) :=
  Qlibc.Conc.Lin.wellLocked_linearizable P hP g0 l0 sched c hrun hfin

/-- a read-only walk inside one critical section observes one shared state -/
theorem lockedWalk_snapshot {σ L : Type} {P : Prog σ L} {g0 : σ} {l0 : Nat → L}
    (hP : ∀ t, ∀ op ∈ P t, op.WellLocked) {c c' : Config σ L} {sched : List Nat} {t : Nat}
    (h : Exec P c sched c') (hro : ∀ op ∈ P t, ∀ s ∈ op.body, s.ReadOnly)
    (ia : InvA P g0 l0 c)
    (hin : ∃ op rest done, (P t)[(c.ts t).pc]? = some op ∧ (c.ts t).phase = .body rest ∧ op.body = done ++ rest)
    (hlen : c'.lin.length = c.lin.length) (hh : c'.holder = some t) : c'.shared = c.shared :=
  Qlibc.Conc.Lin.lockedWalk_snapshot hP h hro ia hin hlen hh

/-- the invariant needed by `lockedWalk_snapshot` holds in every reachable configuration -/
theorem reachable_invA {σ L : Type} {P : Prog σ L} (hP : ∀ t, ∀ op ∈ P t, op.WellLocked) {g0 : σ}
    {l0 : Nat → L} {sched : List Nat} {c : Config σ L} (h : Exec P (init g0 l0) sched c) : InvA P g0 l0 c :=
  (exec_inv hP h ⟨invA_init P g0 l0, invG_init g0 l0⟩).1

/-- soundness of the per-function certificate, for ALL paths: wherever a path from the entry reaches
    an access/write of a non-exempt (mutable container) field, #lock − #unlock ≥ 1 -/
theorem wellLockedCfg_sound {exempt : List Nat} {c : Cfg} (hw : wellLockedCfg exempt c = true)
    {k : Nat} {es : List Ev} {n : Node} (p : Path c 0 es k) (hk : c.nodes[k]? = some n)
    (hn : needsLock exempt n.ev = true) : 1 ≤ delta es :=
  Qlibc.Conc.wellLockedCfg_sound hw p hk hn

/-- every function in the C13 scope touches mutable container fields only under the lock -/
theorem all_wellLocked : ∀ c ∈ c13Cfgs, wellLockedCfg lockExempt c.2 = true := wl_all

/-- negative result: the hypothesis is necessary.  An operation of the shape of the pinned
    `qvector_addlast` (reads the shared state before taking the lock) is not `WellLocked`, and two
    threads running it have a schedule -- both read, then both store -- whose final state (1) differs
    from that of both sequential orders (2): a lost update. -/
theorem unlocked_read_not_linearizable :
    ¬ incrBad.WellLocked ∧
    ∃ (sched : List Nat) (c : Config Nat Nat),
      Exec lostP (init 0 (fun _ => 0)) sched c ∧ c.Finished lostP ∧ c.shared = 1 ∧
      (seqRun lostP [(0, 0), (1, 0)] (0, fun _ => 0)).1 = 2 ∧
      (seqRun lostP [(1, 0), (0, 0)] (0, fun _ => 0)).1 = 2 :=
  ⟨incrBad_not_wellLocked, Qlibc.Conc.Lin.unlocked_read_not_linearizable⟩

/- non-vacuity: the scope is not empty; a two-thread program of well-locked counter increments is an
   instance of the generic theorem's hypothesis -/
example : 60 ≤ c13Cfgs.length := by decide +kernel

def incr : Op Nat Nat :=
  { pre := [⟨fun g l => (g, l + 1)⟩], body := [⟨fun g l => (g + l, g)⟩], post := [⟨fun g l => (g, l)⟩] }

example : incr.WellLocked := by
  constructor <;> intro s hs <;> simp [incr] at hs <;> subst hs <;> intro g l <;> simp

end Qlibc.Props.C13

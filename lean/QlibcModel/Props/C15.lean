/-
  C15 — allocation failure is reported and leaves containers unchanged and valid.

  Tree table (this file). `plan i` says whether the i-th allocation attempt inside the call
  fails; the `…F` forms (Tree/Fault.lean) mirror the order of calloc/qmemdup calls of the C
  functions and are tied to the code by the fault-enumeration correspondence (the harness
  fails exactly that allocation through harness/allocwrap.h and reports the number of
  attempts, which must equal the model's).  Other containers: see DESIGN.md section 7/C15 —
  their failure paths are covered by the correspondence and oracle only in this revision.
-/
import QlibcModel.Tree.FaultSpec
import QlibcModel.Tree.ByteCmp
import QlibcModel.Props.C15Seq
import QlibcModel.Props.C15Map
import QlibcModel.Props.C15Harr
import QlibcModel.Shapes.Tree
import QlibcModel.Shapes.Hashtbl
import QlibcModel.Shapes.Listtbl
import QlibcModel.Shapes.Seq
import QlibcModel.Shapes.Harr

namespace Qlibc.Props.C15
open Qlibc Qlibc.Tree Qlibc.Tree.T
variable {K V : Type} (cmp : K → K → Ordering) (isEmpty : V → Bool)

/-- put under ANY allocation plan: the call returns (no fault, no crash), the table invariant
    (search order, LLRB shape, exact count) still holds; if it reports failure the contents and
    the key count are exactly what they were before; if it reports success it is the plain put -/
theorem put_fault_atomic (hc : CmpOk cmp) (plan : Plan) (s : Tbl K V) (k : K) (v : V) (hi : s.Inv cmp) :
    ∃ s' r n, s.putobjF cmp isEmpty plan k v = .ok (s', r, n) ∧ s'.Inv cmp ∧
      (r = false → s'.abs = s.abs ∧ s'.num = s.num) ∧
      (r = true → s.putobj cmp replaceAlways k v = .ok (s', true)) :=
  Tbl.putobjF_spec cmp isEmpty hc plan s k v hi

/-- with no failing allocation the plan form is the ordinary operation -/
theorem put_no_fault (s : Tbl K V) (k : K) (v : V) :
    (s.putobjF cmp isEmpty noFail k v).map (fun r => (r.1, r.2.1)) = s.putobj cmp replaceAlways k v :=
  Tbl.putobjF_noFail cmp isEmpty s k v

/-- a failed insertion restructures at most: whatever the tree, the in-order sequence is kept -/
theorem failed_insert_keeps_contents {α : Type} (key : α → K) (k : K) (fuel : Nat) (t : T α) (res : T α × Bool)
    (h : put cmp key k none id fuel t = .ok res) : inorder res.1 = inorder t ∧ res.2 = false :=
  put_none_inorder k fuel t res h

/-- a copying get under any plan returns either nothing (reported failure) or the stored value;
    it cannot change the table (it returns a value only) -/
theorem get_fault (plan : Plan) (s : Tbl K V) (k : K) :
    (s.getobjF cmp isEmpty plan k).1 = none ∨ (s.getobjF cmp isEmpty plan k).1 = s.getobj cmp k :=
  Tbl.getobjF_result cmp isEmpty plan s k

/-- removal allocates nothing (the successor's buffers are moved, not copied): it has no
    failure mode -/
theorem remove_needs_no_allocation (hc : CmpOk cmp) (s : Tbl K V) (k : K) (hi : s.Inv cmp) :
    ∃ s', s.removeobj cmp k = .ok (s', (removeSpec cmp k s.abs).2) ∧ s'.Inv cmp :=
  let ⟨s', h1, h2, _, _⟩ := Tbl.removeobj_spec cmp hc s k hi
  ⟨s', h1, h2⟩

/-- nothing is leaked: the number of live blocks is a function of the contents, so equal
    contents (a reported failure) means an equal number of live blocks -/
theorem no_leak_on_failure (s s' : Tbl K V) (h : s.abs = s'.abs) : s.live isEmpty = s'.live isEmpty :=
  Tbl.live_congr isEmpty s s' h

-- non-vacuity: a failing plan on a real table
example : ∃ s' n, (Tbl.init : Tbl Bytes Bytes).putobjF byteCmp (·.isEmpty) (fun i => i == 2) [1] [7] = .ok (s', false, n) ∧ n = 3 :=
  ⟨_, _, rfl, rfl⟩

end Qlibc.Props.C15

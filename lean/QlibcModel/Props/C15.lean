import QlibcModel.Tree.FaultSpec
import QlibcModel.Tree.History
namespace Qlibc.Props.C15
theorem placeholder : True := trivial
end Qlibc.Props.C15

import QlibcModel.Tree.Table
namespace Qlibc.Props.C01
theorem placeholder : True := trivial
end Qlibc.Props.C01

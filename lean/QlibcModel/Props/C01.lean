/-
  C01 — the tree table is an exact sorted map for every operation history.

  `Tbl.abs s` is the content of the table as an ideal sorted association list; `putSpec`,
  `getSpec`, `removeSpec` are the ideal-map operations (Tree/TableSpec.lean, Tree/Inv.lean).
  `cmp` is ANY comparator satisfying `CmpOk` (a total preorder: "equal" keys need not be
  identical byte strings); `byteCmp_ok` shows the default `qtreetbl_byte_cmp` is one.
  Every `= .ok …` also says: no NULL dereference, no fuel exhaustion.
-/
import QlibcModel.Tree.TableSpec
import QlibcModel.Tree.ByteCmp

namespace Qlibc.Props.C01
open Qlibc Qlibc.Tree Qlibc.Tree.T
variable {K V : Type} (cmp : K → K → Ordering)

/-- the default ordering is a total order on byte strings -/
theorem default_cmp_ok : CmpOk byteCmp := byteCmp_ok

/-- a fresh table is valid and empty -/
theorem init_refines : (Tbl.init : Tbl K V).Inv cmp ∧ (Tbl.init : Tbl K V).abs = [] :=
  ⟨Tbl.init_inv cmp, by simp [Tbl.abs, Tbl.init, resetIterator]⟩

/-- put succeeds, keeps the table valid and inserts the key or replaces its value — nothing
    else changes (`putSpec` is the ideal insert) -/
theorem put_refines (hc : CmpOk cmp) (isEmpty : V → Bool) (s : Tbl K V) (k : K) (v : V) (hi : s.Inv cmp) :
    ∃ s', s.putobj cmp isEmpty k v = .ok (s', true) ∧ s'.Inv cmp ∧
      s'.abs = putSpec cmp isEmpty k v s.abs :=
  let ⟨s', h1, h2, h3, _⟩ := Tbl.putobj_spec cmp hc isEmpty s k v hi
  ⟨s', h1, h2, h3⟩

/-- get returns the bytes most recently put under an equal key -/
theorem get_refines (hc : CmpOk cmp) (s : Tbl K V) (k : K) (hi : s.Inv cmp) :
    s.getobj cmp k = getSpec cmp k s.abs := Tbl.getobj_spec cmp hc s k hi

theorem size_refines (s : Tbl K V) (hi : s.Inv cmp) : s.size = s.abs.length := Tbl.size_spec cmp s hi

theorem find_min_refines (s : Tbl K V) : s.findMin = s.abs.head?.map Prod.fst := Tbl.findMin_spec s
theorem find_max_refines (s : Tbl K V) : s.findMax = s.abs.getLast?.map Prod.fst := Tbl.findMax_spec s

theorem clear_refines (s : Tbl K V) : (s.clear).Inv cmp ∧ s.clear.abs = [] := Tbl.clear_spec cmp s

/-- re-putting an existing key replaces its value without changing the key count, and a new
    key adds exactly one -/
theorem put_count (isEmpty : V → Bool) (k : K) (v : V) (m : List (K × V)) :
    (putSpec cmp isEmpty k v m).length = if memL cmp Prod.fst k m then m.length else m.length + 1 :=
  insL_length cmp Prod.fst (k, v) _ m

-- non-vacuity: a two-key table built by the model satisfies the invariant's premises
example : ∃ s : Tbl Bytes Bytes, (Tbl.init.putobj byteCmp (·.isEmpty) [1] [7]) = .ok (s, true) ∧ s.abs = [([1], [7])] := by
  refine ⟨_, rfl, rfl⟩

end Qlibc.Props.C01

/-
  C01 — the tree table is an exact sorted map for every operation history.

  `Tbl.abs s` is the content of the table as an ideal sorted association list; `putSpec`,
  `getSpec`, `removeSpec` are the ideal-map operations (Tree/TableSpec.lean, Tree/Inv.lean).
  `cmp` is ANY comparator satisfying `CmpOk` (a total preorder: "equal" keys need not be
  identical byte strings); `byteCmp_ok` shows the default `qtreetbl_byte_cmp` is one.
  Every `= .ok …` also says: no NULL dereference, no fuel exhaustion.
-/
import QlibcModel.Tree.History
import QlibcModel.Tree.ByteCmp
import QlibcModel.Shapes.Tree

namespace Qlibc.Props.C01
open Qlibc Qlibc.Tree Qlibc.Tree.T
variable {K V : Type} (cmp : K → K → Ordering)

/-- the default ordering is a total order on byte strings -/
theorem default_cmp_ok : CmpOk byteCmp := byteCmp_ok

/-- so are the other comparators the correspondence harness installs (reverse order, ASCII case
    folding - the latter identifies different byte strings): the theorems below apply to them -/
theorem harness_cmps_ok (mode : Nat) : CmpOk (harnessCmp mode) := harnessCmp_ok mode

/-- a fresh table is valid and empty -/
theorem init_refines : (Tbl.init : Tbl K V).Inv cmp ∧ (Tbl.init : Tbl K V).abs = [] :=
  ⟨Tbl.init_inv cmp, by simp [Tbl.abs, Tbl.init, resetIterator]⟩

/-- put succeeds, keeps the table valid and inserts the key or replaces its value — nothing
    else changes (`putSpec` is the ideal insert) -/
theorem put_refines (hc : CmpOk cmp) (isEmpty : V → Bool) (s : Tbl K V) (k : K) (v : V) (hi : s.Inv cmp) :
    ∃ s', s.putobj cmp isEmpty k v = .ok (s', true) ∧ s'.Inv cmp ∧
      s'.abs = putSpec cmp isEmpty k v s.abs :=
  let ⟨s', h1, h2, h3, _⟩ := Tbl.putobj_spec cmp hc isEmpty s k v hi
  ⟨s', h1, h2, h3⟩

/-- get returns the bytes most recently put under an equal key -/
theorem get_refines (hc : CmpOk cmp) (s : Tbl K V) (k : K) (hi : s.Inv cmp) :
    s.getobj cmp k = getSpec cmp k s.abs := Tbl.getobj_spec cmp hc s k hi

theorem size_refines (s : Tbl K V) (hi : s.Inv cmp) : s.size = s.abs.length := Tbl.size_spec cmp s hi

theorem find_min_refines (s : Tbl K V) : s.findMin = s.abs.head?.map Prod.fst := Tbl.findMin_spec s
theorem find_max_refines (s : Tbl K V) : s.findMax = s.abs.getLast?.map Prod.fst := Tbl.findMax_spec s

theorem clear_refines (s : Tbl K V) : (s.clear).Inv cmp ∧ s.clear.abs = [] := Tbl.clear_spec cmp s

/-- re-putting an existing key replaces its value without changing the key count, and a new
    key adds exactly one -/
theorem put_count (isEmpty : V → Bool) (k : K) (v : V) (m : List (K × V)) :
    (putSpec cmp isEmpty k v m).length = if memL cmp Prod.fst k m then m.length else m.length + 1 :=
  insL_length cmp Prod.fst (k, v) _ m

/-- remove succeeds exactly when an equal key is present, removes only that key, never
    faults and keeps the table valid -/
theorem remove_refines (hc : CmpOk cmp) (s : Tbl K V) (k : K) (hi : s.Inv cmp) :
    ∃ s', s.removeobj cmp k = .ok (s', memL cmp Prod.fst k s.abs) ∧ s'.Inv cmp ∧
      s'.abs = delL cmp Prod.fst k s.abs :=
  let ⟨s', h1, h2, h3, _⟩ := Tbl.removeobj_spec cmp hc s k hi
  ⟨s', h1, h2, h3⟩

/-- operations on one key never change what is stored under another: the ideal insert and
    delete leave the lookup of every non-equal key alone -/
theorem other_keys_untouched (hc : CmpOk cmp) (isEmpty : V → Bool) (k k' : K) (v : V) (m : List (K × V))
    (hs : Sorted cmp Prod.fst m) (hne : cmp k' k ≠ .eq) :
    getSpec cmp k' (putSpec cmp isEmpty k v m) = getSpec cmp k' m ∧
    getSpec cmp k' (delL cmp Prod.fst k m) = getSpec cmp k' m := by
  constructor
  · induction m with
    | nil =>
      simp only [putSpec, insL, getSpec, lookupL]
      cases h : cmp k' k <;> simp_all
    | cons a rest ih =>
      unfold Sorted at hs; rw [List.pairwise_cons] at hs
      simp only [putSpec, insL, getSpec] at ih ⊢
      rcases hka : cmp k a.1 with _ | _ | _
      · -- k < a: new head
        simp only [lookupL]
        rcases hk : cmp k' k with _ | _ | _
        · have : cmp k' a.1 = .lt := hc.lt_trans hk hka
          simp [this]
        · exact absurd hk hne
        · simp
      · -- k = a: replaced in place; k' is not equal to a either
        simp only [lookupL]
        have h1 : cmp k' (if isEmpty v then a else (a.1, v)).1 = cmp k' a.1 := by split <;> rfl
        rw [h1]
        rcases hk : cmp k' a.1 with _ | _ | _
        · simp
        · exact absurd (hc.eq_trans hk (hc.eq_symm hka)) hne
        · simp
      · simp only [lookupL]
        rcases hk : cmp k' a.1 with _ | _ | _
        · simp
        · simp
        · simpa using ih hs.2
  · induction m with
    | nil => simp [delL]
    | cons a rest ih =>
      unfold Sorted at hs; rw [List.pairwise_cons] at hs
      simp only [getSpec] at ih ⊢
      rcases hka : cmp k a.1 with _ | _ | _
      · simp [delL, hka]
      · -- the entry equal to k is dropped; k' differs from it, and if k' is above it the rest decides
        simp only [delL, hka, lookupL]
        rcases hk : cmp k' a.1 with _ | _ | _
        · -- k' < a ≤ everything in rest
          have : lookupL cmp Prod.fst k' rest = none :=
            lookupL_all_lt k' rest (fun y hy => hc.lt_trans hk (hs.1 y hy))
          simp [this]
        · exact absurd (hc.eq_trans hk (hc.eq_symm hka)) hne
        · simp
      · simp only [delL, hka, lookupL]
        rcases hk : cmp k' a.1 with _ | _ | _
        · simp
        · simp
        · simpa using ih hs.2

/-- **the property**: every finite sequence of put / get / remove / clear / size / find-min /
    find-max calls on a fresh table returns exactly the outputs of the ideal sorted map, ends
    with exactly its contents, and never faults — for every comparator that is a total
    preorder, all key and value contents and lengths -/
theorem history_refines (hc : CmpOk cmp) (isEmpty : V → Bool) (ops : List (Op K V)) :
    ∃ s', (Tbl.init : Tbl K V).run cmp isEmpty ops = .ok (s', (specRun cmp isEmpty [] ops).2) ∧
      s'.Inv cmp ∧ s'.abs = (specRun cmp isEmpty [] ops).1 := by
  have := Tbl.run_refines cmp isEmpty hc ops (Tbl.init : Tbl K V) (Tbl.init_inv cmp)
  simpa [(init_refines (V := V) cmp).2] using this

/-! ### the instance the current source implements: every put replaces (`replaceAlways`)

The theorems above hold for every "keeps the old value" predicate; the pinned tree kept the old
value when the new one was empty, which contradicts "get returns the bytes and length most recently
put" and was repaired. For the code as it is now the ideal put is the plain insert-or-replace: -/

/-- ideal insert-or-replace of the sorted association list -/
def putExact (k : K) (v : V) (m : List (K × V)) : List (K × V) :=
  insL cmp Prod.fst (k, v) (fun p => (p.1, v)) m

theorem putSpec_replaceAlways (k : K) (v : V) (m : List (K × V)) :
    putSpec cmp replaceAlways k v m = putExact cmp k v m := by
  simp [putSpec, putExact, replaceAlways]

/-- get after put of an equal key returns exactly the value just put - also an empty one -/
theorem get_after_put (hc : CmpOk cmp) (k k' : K) (v : V) (m : List (K × V)) (hs : Sorted cmp Prod.fst m)
    (he : cmp k' k = .eq) : getSpec cmp k' (putExact cmp k v m) = some v := by
  induction m with
  | nil => simp [putExact, insL, getSpec, lookupL, he]
  | cons a rest ih =>
    unfold Sorted at hs; rw [List.pairwise_cons] at hs
    simp only [putExact, insL, getSpec] at ih ⊢
    rcases hka : cmp k a.1 with _ | _ | _
    · simp [lookupL, he]
    · have : cmp k' a.1 = .eq := hc.eq_trans he hka
      simp [lookupL, this]
    · have : cmp k' a.1 = .gt := by
        have h1 : cmp a.1 k = .lt := by rw [hc.swap, hka]; rfl
        have h2 : cmp k k' = .eq := by rw [hc.swap, he]; rfl
        have h3 : cmp a.1 k' = .lt := hc.lt_eq h1 h2
        rw [hc.swap, h3]; rfl
      simpa [lookupL, this] using ih hs.2

/-- **the property, for the code as it is**: every history returns what the ideal sorted map with
    plain insert-or-replace returns -/
theorem history_refines_exact (hc : CmpOk cmp) (ops : List (Op K V)) :
    ∃ s', (Tbl.init : Tbl K V).run cmp replaceAlways ops = .ok (s', (specRun cmp replaceAlways [] ops).2) ∧
      s'.Inv cmp ∧ s'.abs = (specRun cmp replaceAlways [] ops).1 :=
  history_refines cmp hc replaceAlways ops

-- an empty value replaces a stored one (the defect of the pinned tree, now excluded)
example : ∃ s s' : Tbl Bytes Bytes, Tbl.init.putobj byteCmp replaceAlways [1] [7] = .ok (s, true) ∧
    s.putobj byteCmp replaceAlways [1] [] = .ok (s', true) ∧ s'.abs = [([1], [])] := by
  refine ⟨_, _, rfl, rfl, rfl⟩

-- non-vacuity: a two-key table built by the model satisfies the invariant's premises
example : ∃ s : Tbl Bytes Bytes, (Tbl.init.putobj byteCmp (·.isEmpty) [1] [7]) = .ok (s, true) ∧ s.abs = [([1], [7])] := by
  refine ⟨_, rfl, rfl⟩

end Qlibc.Props.C01

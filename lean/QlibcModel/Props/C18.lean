/-
  Property C18 — hash functions equal their published algorithms for every input.

  Model: `QlibcModel/Hash/Model.lean` (mechanism-level transcription of src/utilities/qhash.c and
  src/internal/md5/md5c.c, driven by the constants, step lines and tables that
  translator/md5steps.py regenerates from the CURRENT source into Generated/HashConsts.lean).
  Specifications: `QlibcModel/Hash/Spec.lean` (RFC 1321, MurmurHash3 x86_32 / x64_128, FNV-1,
  written from the publications and validated there against the published test vectors).

  A caller buffer is `data` (the bytes that are addressable) plus the length argument `nbytes`;
  the model faults (`.error .oob`) on any read at or beyond `data.length`.  Every theorem is
  stated for `nbytes ≤ data.length`: with `nbytes = data.length` (exactly sized buffer) the result
  `.ok _` says that no byte outside the buffer is read; with a longer `data` it says that the bytes
  after the buffer do not influence the result (`data.take nbytes` is all that matters).  The
  model has no address parameter: alignment cannot matter (tied to the code by the
  correspondence run at alignments 0–7).

  Width preconditions (DESIGN.md section 9): `nbytes + 64 ≤ 2^32` for MD5 (`unsigned int inputLen`
  and the `i + 63 < inputLen` loop test of MD5Update; the *total* length fed to a context in
  chunks is unbounded, the bit count is kept modulo 2^64 as RFC 1321 prescribes),
  `nbytes < 2^31` for murmur (`int` arithmetic: `nblocks * 4`, `i * 4`, `nblocks * 16`).
-/
import QlibcModel.Hash.MD5
import QlibcModel.Shapes.Hash

namespace Qlibc.Props.C18
open Qlibc Qlibc.Hash Qlibc.Generated

/-! ### K-gen facts: the current source has the published constants -/

/-- the 64 step lines of MD5Transform in the current md5c.c are the 64 operations
    `[abcd k s i]` of RFC 1321 section 3.4 (registers, message word, shift, T[i]) -/
theorem md5_steps_eq_rfc : md5Steps = Spec.rfcSteps := md5Steps_eq

/-- init words, padding, the shift amounts / mask of MD5Update's bit-count bookkeeping, and the
    textual frame (macros F G H I, ROTATE_LEFT, FF..II, the statements of MD5Transform around the
    step lines, Encode/Decode = memcpy; the statements of MD5Update, MD5Pad, MD5Final; the
    finalisation frame of qhashmurmur3_128) of the current source are the ones the model
    transcribes -/
theorem md5_frame_as_modelled :
    md5MacrosAsModelled = true ∧ md5UpdateAsModelled = true ∧ m128FrameAsModelled = true ∧
    md5Init = [0x67452301, 0xefcdab89, 0x98badcfe, 0x10325476] ∧
    md5Padding = 0x80 :: List.replicate 63 0 ∧
    md5IdxShr = 3 ∧ md5IdxMask = 0x3F ∧ md5CntShl = 3 ∧ md5CntShr = 29 := by decide

/-- The bit-count bookkeeping of MD5Update in the current source (shift amounts and mask regenerated
    from md5c.c): if the two count words hold `8·L` modulo 2^64, then after an update of `len` bytes
    (`len` an `unsigned int`, up to 2^32 − 1: this includes the `inputLen >> 29` term, non-zero from
    2^29 bytes on, and the carry out of the low word) they hold `8·(L + len)` modulo 2^64, and
    the buffer index is `L mod 64`. -/
theorem md5_count_update (c0 c1 : UInt32) (L len : Nat) (h0 : c0.toNat = 8 * L % 2 ^ 32)
    (h1 : c1.toNat = 8 * L / 2 ^ 32 % 2 ^ 32) (hl : len < 2 ^ 32) :
    (countUpdate c0 c1 len).1.toNat + 2 ^ 32 * (countUpdate c0 c1 len).2.toNat = 8 * (L + len) % 2 ^ 64 ∧
    bufIndex c0 = L % 64 :=
  ⟨countUpdate_spec c0 c1 L len h0 h1 hl, by rw [bufIndex_eq]; exact idx_eq c0 L h0⟩

/-- `MD5Transform` of the model (driven by the generated step table) is the RFC's block function -/
theorem md5_transform_eq_rfc (st : Regs) (blk : Bytes) :
    MD5Transform st blk = Spec.processBlock st blk := MD5Transform_eq st blk

/-- the shift-add forms of the current source multiply by the FNV primes -/
theorem fnv_shift_add_eq_prime (h32 : UInt32) (h64 : UInt64) :
    shiftAdd32 h32 fnv32Shifts = h32 * 0x01000193 ∧ shiftAdd64 h64 fnv64Shifts = h64 * 0x100000001b3 :=
  ⟨shiftAdd32_eq h32, shiftAdd64_eq h64⟩

/-! ### MD5 -/

/-- `qhashmd5` returns the RFC 1321 digest of exactly the `nbytes` given bytes, whatever the
    uninitialised stack context held -/
theorem md5_eq_rfc (ctx : MD5Ctx) (hbuf : ctx.buffer.length = 64) (data : Bytes) (nbytes : Nat)
    (hle : nbytes ≤ data.length) (hb : nbytes + 64 ≤ 2 ^ 32) :
    qhashmd5 ctx data nbytes = .ok (Spec.md5 (data.take nbytes)) :=
  qhashmd5_eq ctx hbuf data nbytes hle hb

/-- the buffering logic: feeding a message to a fresh context in ANY chunking (empty chunks
    included; total length unbounded) and finalising gives the RFC 1321 digest of the
    concatenation -/
theorem md5_chunks_eq_rfc (ctx : MD5Ctx) (hbuf : ctx.buffer.length = 64) (chunks : List Bytes)
    (hb : ∀ x ∈ chunks, x.length + 64 ≤ 2 ^ 32) :
    (MD5UpdateAll (MD5Init ctx) chunks >>= MD5Final) = .ok (Spec.md5 chunks.flatten) := by
  obtain ⟨c, hc, ha⟩ := MD5UpdateAll_absorbed chunks (MD5Init ctx) [] (MD5Init_absorbed ctx hbuf) hb
  rw [List.nil_append] at ha
  simp only [hc, bind, Except.bind]
  exact MD5Final_eq ha

/-- any chunking = one update: the contexts agree in everything that is ever used again
    (state, bit count, the filled part of the buffer) and give the same digest -/
theorem md5_update_chunks (ctx : MD5Ctx) (hbuf : ctx.buffer.length = 64) (chunks : List Bytes)
    (hb : ∀ x ∈ chunks, x.length + 64 ≤ 2 ^ 32) (hflat : chunks.flatten.length + 64 ≤ 2 ^ 32) :
    ∃ c c1, MD5UpdateAll (MD5Init ctx) chunks = .ok c ∧
      MD5Update (MD5Init ctx) chunks.flatten chunks.flatten.length = .ok c1 ∧
      c.state = c1.state ∧ c.count0 = c1.count0 ∧ c.count1 = c1.count1 ∧
      c.buffer.take (chunks.flatten.length % 64) = c1.buffer.take (chunks.flatten.length % 64) ∧
      MD5Final c = MD5Final c1 := by
  obtain ⟨c, hc, ha⟩ := MD5UpdateAll_absorbed chunks (MD5Init ctx) [] (MD5Init_absorbed ctx hbuf) hb
  obtain ⟨c1, hc1, ha1⟩ := MD5Update_absorbed (input := chunks.flatten) (len := chunks.flatten.length)
    (MD5Init_absorbed ctx hbuf) (Nat.le_refl _) hflat
  rw [List.nil_append] at ha
  rw [List.nil_append, List.take_length] at ha1
  refine ⟨c, c1, hc, hc1, ?_, ?_, ?_, ?_, ?_⟩
  · rw [ha.state, ha1.state]
  · exact UInt32.toNat_inj.mp (by rw [ha.c0, ha1.c0])
  · exact UInt32.toNat_inj.mp (by rw [ha.c1, ha1.c1])
  · rw [ha.buf, ha1.buf]
  · rw [MD5Final_eq ha, MD5Final_eq ha1]

/-- `qhashmd5_file`: the RFC 1321 digest of exactly the requested byte range (`nbytes = 0`:
    to the end of the file), for EVERY sequence of short reads; a range beyond the end of the
    file is refused -/
theorem md5_file_range (ctx : MD5Ctx) (hbuf : ctx.buffer.length = 64) (contents : Bytes)
    (offset nbytes : Nat) (sched : List Nat) :
    qhashmd5File ctx contents offset nbytes sched =
      if contents.length < offset + nbytes then .ok none
      else .ok (some (Spec.md5 (if nbytes = 0 then contents.drop offset
                                else (contents.drop offset).take nbytes))) := by
  split
  · exact qhashmd5File_refuses ctx contents offset nbytes sched ‹_›
  · exact qhashmd5File_eq ctx hbuf contents offset nbytes sched (by omega)

/-! ### FNV-1 -/

theorem fnv32_eq (data : Bytes) (nbytes : Nat) (h0 : 0 < nbytes) (hle : nbytes ≤ data.length) :
    qhashfnv1_32 data nbytes = .ok (Spec.fnv1_32 (data.take nbytes)) := by
  unfold qhashfnv1_32
  rw [if_neg (by omega), fnv32Loop_eq data nbytes 0 _ (by omega)]
  rfl

theorem fnv64_eq (data : Bytes) (nbytes : Nat) (h0 : 0 < nbytes) (hle : nbytes ≤ data.length) :
    qhashfnv1_64 data nbytes = .ok (Spec.fnv1_64 (data.take nbytes)) := by
  unfold qhashfnv1_64
  rw [if_neg (by omega), fnv64Loop_eq data nbytes 0 _ (by omega)]
  rfl

/-! ### MurmurHash3 -/

theorem murmur32_eq (data : Bytes) (nbytes : Nat) (h0 : 0 < nbytes) (hle : nbytes ≤ data.length)
    (hb : nbytes < 2 ^ 31) :
    qhashmurmur3_32 data nbytes = .ok (Spec.murmur3_x86_32 0 (data.take nbytes)) :=
  murmur32_main data nbytes h0 hle hb

theorem murmur128_eq (data : Bytes) (nbytes : Nat) (h0 : 0 < nbytes) (hle : nbytes ≤ data.length)
    (hb : nbytes < 2 ^ 31) :
    qhashmurmur3_128 data nbytes = .ok (some (Spec.murmur3_x64_128 0 (data.take nbytes))) :=
  murmur128_main data nbytes h0 hle hb

/-! ### no byte outside the buffer is read; the result depends on the given bytes only -/

/-- On an exactly sized buffer (`nbytes = data.length`, where the model faults on any read at
    or beyond `data.length`) all five functions complete without a fault. -/
theorem reads_in_bounds (ctx : MD5Ctx) (hbuf : ctx.buffer.length = 64) (data : Bytes) (h0 : data ≠ [])
    (hb : data.length < 2 ^ 31) :
    (∃ d, qhashmd5 ctx data data.length = .ok d) ∧
    (∃ h, qhashfnv1_32 data data.length = .ok h) ∧
    (∃ h, qhashfnv1_64 data data.length = .ok h) ∧
    (∃ h, qhashmurmur3_32 data data.length = .ok h) ∧
    (∃ d, qhashmurmur3_128 data data.length = .ok (some d)) := by
  have hpos : 0 < data.length := List.length_pos_iff.mpr h0
  exact ⟨⟨_, md5_eq_rfc ctx hbuf data _ (Nat.le_refl _) (by omega)⟩,
    ⟨_, fnv32_eq data _ hpos (Nat.le_refl _)⟩, ⟨_, fnv64_eq data _ hpos (Nat.le_refl _)⟩,
    ⟨_, murmur32_eq data _ hpos (Nat.le_refl _) (by omega)⟩,
    ⟨_, murmur128_eq data _ hpos (Nat.le_refl _) (by omega)⟩⟩

/-- The result is a function of exactly the given bytes: whatever follows the buffer in memory
    (`junk`) and whatever the stack context held (`ctx`, `ctx'`), the results are those on the
    exactly sized buffer. -/
theorem result_depends_on_given_bytes_only (ctx ctx' : MD5Ctx) (hbuf : ctx.buffer.length = 64)
    (hbuf' : ctx'.buffer.length = 64) (data junk : Bytes) (h0 : data ≠ []) (hb : data.length < 2 ^ 31) :
    qhashmd5 ctx (data ++ junk) data.length = qhashmd5 ctx' data data.length ∧
    qhashfnv1_32 (data ++ junk) data.length = qhashfnv1_32 data data.length ∧
    qhashfnv1_64 (data ++ junk) data.length = qhashfnv1_64 data data.length ∧
    qhashmurmur3_32 (data ++ junk) data.length = qhashmurmur3_32 data data.length ∧
    qhashmurmur3_128 (data ++ junk) data.length = qhashmurmur3_128 data data.length := by
  have hpos : 0 < data.length := List.length_pos_iff.mpr h0
  have hl : data.length ≤ (data ++ junk).length := by simp
  have ht : (data ++ junk).take data.length = data := List.take_left' rfl
  have ht' : data.take data.length = data := List.take_length
  refine ⟨?_, ?_, ?_, ?_, ?_⟩
  · rw [md5_eq_rfc ctx hbuf _ _ hl (by omega), md5_eq_rfc ctx' hbuf' _ _ (Nat.le_refl _) (by omega), ht, ht']
  · rw [fnv32_eq _ _ hpos hl, fnv32_eq _ _ hpos (Nat.le_refl _), ht, ht']
  · rw [fnv64_eq _ _ hpos hl, fnv64_eq _ _ hpos (Nat.le_refl _), ht, ht']
  · rw [murmur32_eq _ _ hpos hl (by omega), murmur32_eq _ _ hpos (Nat.le_refl _) (by omega), ht, ht']
  · rw [murmur128_eq _ _ hpos hl (by omega), murmur128_eq _ _ hpos (Nat.le_refl _) (by omega), ht, ht']

/-- the total wrappers exported to other models' drivers are the published functions -/
theorem exported_wrappers_eq (data : Bytes) (h0 : data ≠ []) (hb : data.length < 2 ^ 31) :
    Hash.murmur32 data = Spec.murmur3_x86_32 0 data ∧ Hash.md5 data = Spec.md5 data := by
  have hpos : 0 < data.length := List.length_pos_iff.mpr h0
  unfold Hash.murmur32 Hash.md5
  rw [murmur32_eq data _ hpos (Nat.le_refl _) (by omega),
    md5_eq_rfc zeroCtx (by decide) data _ (Nat.le_refl _) (by omega), List.take_length]
  exact ⟨rfl, rfl⟩

/-! ### non-vacuity: the model computes the published vectors on concrete inputs -/

example : qhashfnv1_32 [0x61, 0x00, 0x62] 3 = .ok 0x659c64cc := by rfl
example : qhashmurmur3_32 [0x68, 0x65, 0x6c, 0x6c, 0x6f] 5 = .ok 0x248bfa47 := by rfl
example : (qhashmd5 zeroCtx [0x61, 0x62, 0x63] 3).toOption =
    some [0x90, 0x01, 0x50, 0x98, 0x3c, 0xd2, 0x4f, 0xb0, 0xd6, 0x96, 0x3f, 0x7d, 0x28, 0xe1, 0x7f, 0x72] := by
  decide +kernel
/-- a read one byte past an exactly sized buffer is a fault of the model, not a default value -/
example : qhashfnv1_32 [0x61] 2 = .error .oob := by rfl

end Qlibc.Props.C18

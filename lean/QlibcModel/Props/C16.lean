/-
  C16 — encoders and decoders are exact inverses and emit the standard formats.

  All theorems are about the model `QlibcModel/Encode/Model.lean` (hand transcription of
  qencode.c with the five lookup tables regenerated from the current source) and hold for ALL
  byte strings — no bound on the length. The decoders are the in-place raw-buffer versions:
  "`= .ok …`" includes "no read or write outside the buffer `enc ++ [0]`".
-/
import QlibcModel.Encode.Base64
import QlibcModel.Encode.Query
import QlibcModel.Encode.MakewordSpec
import QlibcModel.Shapes.Encode

namespace Qlibc.Props.C16
open Qlibc Qlibc.Encode Qlibc.Generated

/-- lowercase hexadecimal digit, written independently of the C code -/
def hexDigitLower (n : UInt8) : UInt8 := [48, 49, 50, 51, 52, 53, 54, 55, 56, 57, 97, 98, 99, 100, 101, 102].getD n.toNat 0
def hexDigitUpper (n : UInt8) : UInt8 := [48, 49, 50, 51, 52, 53, 54, 55, 56, 57, 65, 66, 67, 68, 69, 70].getD n.toNat 0

/-- the bytes `qurl_encode` copies literally -/
def urlSafe (c : UInt8) : Bool := tbl urlCharTbl c.toNat != 0

/-! ### the tables indexed by a byte have 256 entries (so `tbl` never falls back to its default) -/
theorem table_lengths :
    urlCharTbl.length = 256 ∧ b64MapTbl.length = 256 ∧ hexMapTbl.length = 256 ∧
    b64CharTbl.length = 64 ∧ hexCharTbl.length = 16 := by decide +kernel

/-! ### URL -/

/-- `qurl_encode` emits a safe byte literally and every other byte as `%hh`, lowercase -/
theorem url_format (x : Bytes) :
    urlEncode x = x.flatMap (fun c =>
      if urlSafe c then [c] else [37, hexDigitLower (c / 16), hexDigitLower (c % 16)]) := by
  have h : ∀ c : UInt8, urlEncByte c =
      if urlSafe c then [c] else [37, hexDigitLower (c / 16), hexDigitLower (c % 16)] := by
    apply forall_uint8; decide +kernel
  simp only [urlEncode]
  congr 1
  funext c
  exact h c

/-- only URL-safe ASCII is emitted literally: never a blank, control or non-ASCII byte, nor any
    of `% + & = ? # " < >` -/
theorem url_safe_set (c : UInt8) (h : urlSafe c = true) :
    0x21 ≤ c ∧ c < 0x7f ∧ c ∉ [37, 43, 38, 61, 63, 35, 34, 60, 62] := by
  revert c; apply forall_uint8; decide +kernel

/-- decoding the URL-encoding of any byte string yields exactly that string, its length, and a
    terminator — without leaving the buffer -/
theorem url_roundtrip (x : Bytes) :
    ∃ buf, urlDecodeRaw (urlEncode x ++ [0]) = .ok (buf, x.length) ∧
      buf.take x.length = x ∧ buf[x.length]? = some 0 := by
  obtain ⟨stale, h⟩ := urlDecodeRaw_spec (urlEncode x) (urlEncode_ne_zero x)
  rw [urlDecPure_urlEncode] at h
  exact ⟨_, h, by simp, by simp⟩

/-- the decoder accepts both hex-digit cases: all four spellings of `%hh` give the byte -/
theorem url_decode_cases (b : UInt8) :
    x2c (hexDigitLower (b / 16)) (hexDigitLower (b % 16)) = b ∧
    x2c (hexDigitLower (b / 16)) (hexDigitUpper (b % 16)) = b ∧
    x2c (hexDigitUpper (b / 16)) (hexDigitLower (b % 16)) = b ∧
    x2c (hexDigitUpper (b / 16)) (hexDigitUpper (b % 16)) = b := by
  revert b; apply forall_uint8; decide +kernel

/-- what `qurl_decode` computes on ANY NUL-free input: `+` ↦ blank, `%hh` ↦ byte, a truncated
    escape and every other byte literally (`urlDecPure`), in place and inside the buffer -/
theorem url_decode_eq_pure (s : Bytes) (hnz : ∀ c ∈ s, c ≠ 0) :
    ∃ stale, urlDecodeRaw (s ++ [0]) = .ok (urlDecPure s ++ 0 :: stale, (urlDecPure s).length) :=
  urlDecodeRaw_spec s hnz

theorem url_decode_plus (rest : Bytes) : urlDecPure (43 :: rest) = 32 :: urlDecPure rest := by
  rw [urlDecPure_cons_ne rest (by decide)]; rfl

theorem url_decode_escape (h l : UInt8) (rest : Bytes) :
    urlDecPure (37 :: h :: l :: rest) = x2c h l :: urlDecPure rest := urlDecPure_pct h l rest

/-! ### Base64 -/

/-- `qbase64_encode` emits RFC 4648: standard alphabet, 3→4 groups, `=` padding
    (`rfc4648` is written from the RFC with 24-bit group arithmetic, `Encode/Base64.lean`) -/
theorem b64_format (x : Bytes) : b64Encode x = rfc4648 x := b64Encode_eq_rfc x

theorem b64_alphabet : b64CharTbl = b64Alphabet := b64CharTbl_eq_alphabet

theorem b64_roundtrip (x : Bytes) :
    ∃ buf, b64DecodeRaw (b64Encode x ++ [0]) = .ok (buf, x.length) ∧
      buf.take x.length = x ∧ buf[x.length]? = some 0 := by
  have hnz : ∀ d ∈ b64Encode x, d ≠ 0 := by rw [b64Encode_eq_rfc]; exact rfc4648_ne_zero x
  obtain ⟨stale, h⟩ := b64DecodeRaw_spec (b64Encode x) hnz
  rw [b64Encode_eq_rfc, b64DecPure_rfc] at h
  rw [b64Encode_eq_rfc]
  exact ⟨_, h, by simp, by simp⟩

/-! ### hex -/

/-- two lowercase hex digits per byte -/
theorem hex_format (x : Bytes) :
    hexEncode x = x.flatMap (fun c => [hexDigitLower (c / 16), hexDigitLower (c % 16)]) := by
  have h : ∀ c : UInt8, [tbl hexCharTbl (c >>> 4).toNat, tbl hexCharTbl (c &&& 0x0F).toNat]
      = [hexDigitLower (c / 16), hexDigitLower (c % 16)] := by
    apply forall_uint8; decide +kernel
  simp only [hexEncode, h]

theorem hex_roundtrip (x : Bytes) :
    ∃ buf, hexDecodeRaw (hexEncode x ++ [0]) = .ok (buf, x.length) ∧
      buf.take x.length = x ∧ buf[x.length]? = some 0 := by
  obtain ⟨stale, h⟩ := hexDecodeRaw_spec (hexEncode x) (hexEncode_ne_zero x)
  rw [hexDecPure_hexEncode] at h
  exact ⟨_, h, by simp, by simp⟩

/-- the hex decoder accepts both digit cases -/
theorem hex_decode_cases (b : UInt8) :
    hexDecPure [hexDigitLower (b / 16), hexDigitLower (b % 16)] = [b] ∧
    hexDecPure [hexDigitLower (b / 16), hexDigitUpper (b % 16)] = [b] ∧
    hexDecPure [hexDigitUpper (b / 16), hexDigitLower (b % 16)] = [b] ∧
    hexDecPure [hexDigitUpper (b / 16), hexDigitUpper (b % 16)] = [b] := by
  revert b; apply forall_uint8; decide +kernel

/-! ### query strings -/

/-- a query string assembled from URL-encoded names and values (any NUL-free byte strings,
    including empty ones) parses back into exactly those pairs, in order -/
theorem query_roundtrip (ps : List (Bytes × Bytes))
    (hnz : ∀ p ∈ ps, (∀ d ∈ p.1, d ≠ 0) ∧ (∀ d ∈ p.2, d ≠ 0)) :
    parseQueries (renderQuery ps) 61 38 = .ok ps := parseQueries_render ps hnz

/-! ### non-vacuity: the statements speak about non-trivial data -/
example : urlEncode [97, 32, 255] = [97, 37, 50, 48, 37, 102, 102] := by decide +kernel
/-- query_roundtrip_any_sep: `query_roundtrip` fixes the separators to `=` and `&` (they are
    constants of `renderQuery`, not a hypothesis). The round trip holds for EVERY pair of DISTINCT
    separator bytes that `qurl_encode` never emits and that are not NUL (`SepFree`): then neither
    occurs inside an encoded name or value, and `qparse_queries (render ps) eq sep = ps`.
    It does NOT hold for `%`, for literal-safe characters (letters, digits, …) or for `eq = sep`
    (the text is split inside / between the wrong places) — those are exercised against the
    reference reading in checks/c16.py; for the separator NUL see `makeword_nul_stop` (C17). -/
theorem query_roundtrip_any_sep (eq sep : UInt8) (heq : SepFree eq) (hsep : SepFree sep) (hne : eq ≠ sep)
    (ps : List (Bytes × Bytes)) (hnz : ∀ p ∈ ps, (∀ d ∈ p.1, d ≠ 0) ∧ (∀ d ∈ p.2, d ≠ 0)) :
    parseQueries (renderQueryG eq sep ps) eq sep = .ok ps :=
  parseQueries_renderG eq sep heq hsep hne ps hnz

/-- which bytes are admissible separators: every byte the URL table does not let through literally,
    except `%` and NUL (according to the regenerated table) -/
theorem sep_admissible (c : UInt8) (h0 : c ≠ 0) (h37 : c ≠ 37) (ht : tbl urlCharTbl c.toNat = 0) : SepFree c :=
  sepFree_of_table c h0 h37 ht

example : SepFree 61 ∧ SepFree 38 ∧ SepFree 32 ∧ SepFree 128 ∧ SepFree 255 :=
  ⟨sep_admissible 61 (by decide) (by decide) (by decide +kernel), sep_admissible 38 (by decide) (by decide) (by decide +kernel),
   sep_admissible 32 (by decide) (by decide) (by decide +kernel), sep_admissible 128 (by decide) (by decide) (by decide +kernel),
   sep_admissible 255 (by decide) (by decide) (by decide +kernel)⟩

example : b64Encode [102, 111, 111, 98] = [90, 109, 57, 118, 89, 103, 61, 61] := by decide +kernel
example : renderQuery [([97], [32]), ([98, 38], [])] = [97, 61, 37, 50, 48, 38, 98, 37, 50, 54, 61] := by
  decide +kernel

end Qlibc.Props.C16

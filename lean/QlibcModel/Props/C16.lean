import QlibcModel.Encode.Model
namespace Qlibc.Props.C16
open Qlibc.Generated
theorem urlCharTbl_length : urlCharTbl.length = 256 := by decide +kernel
end Qlibc.Props.C16

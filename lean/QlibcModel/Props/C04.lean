/-
  C04 — nearest-key search (`qtreetbl_find_nearest`): returns the stored key equal to the probe
  if there is one, otherwise the greatest stored key smaller than the probe, otherwise the
  smallest stored key; not-found on an empty table; always terminates; depends only on the
  current set of keys.

  Thin wrappers around `QlibcModel/Tree/Nearest.lean`.  Vocabulary: `floorL cmp key k l` is the
  last entry of `l` whose key is not above `k`, and the first entry of `l` if there is none
  (`floorL_spec`, `floorL_eq` give its reading on strictly ascending lists); `nearestAns tid e` is
  key, value and the `getnext` cursor for entry `e`; `Upd NextRel t t'` = same shape and colours,
  every node keeps key, value, identifier and stamp (only `next` may differ).
-/
import QlibcModel.Tree.WalkHistory
import QlibcModel.Shapes.Tree

namespace Qlibc.Props.C04
open Qlibc Qlibc.Tree T

variable {K V : Type}

/-- reading of the specification function on strictly ascending lists -/
theorem floor_spec {α Kk : Type} {cmp : Kk → Kk → Ordering} {key : α → Kk} {l : List α}
    (hs : Sorted cmp key l) (k : Kk) :
    (l = [] ∧ floorL cmp key k l = none) ∨
    (∃ e, floorL cmp key k l = some e ∧ e ∈ l ∧
      ((cmp k (key e) ≠ .lt ∧ ∀ e' ∈ l, cmp k (key e') ≠ .lt → e' = e ∨ cmp (key e') (key e) = .lt) ∨
       ((∀ e' ∈ l, cmp k (key e') = .lt) ∧ l.head? = some e))) :=
  floorL_spec hs k

theorem floor_eq {α Kk : Type} {cmp : Kk → Kk → Ordering} {key : α → Kk} (hc : CmpOk cmp) {l : List α}
    (hs : Sorted cmp key l) {k : Kk} {e : α} (he : e ∈ l) (heq : cmp k (key e) = .eq) :
    floorL cmp key k l = some e :=
  floorL_eq hc hs he heq

/-- Termination and memory safety: on a table with distinct node identifiers the search never
    faults — the fuel `height + 2` suffices for the descent and for the climb, and every pointer
    the climb follows was written by this very descent (the root's is cleared first).  No
    assumption on the comparator or the order.  Only `next` fields change; not-found exactly on
    the empty table. -/
theorem nearest_terminates (cmp : K → K → Ordering) (s : Tbl K V) (k : K) (hd : DistinctIds s.root) :
    ∃ s' r, Tbl.findNearest cmp s k = .ok (s', r) ∧ Upd NextRel s.root s'.root ∧
      s'.num = s.num ∧ s'.tid = s.tid ∧ s'.fresh = s.fresh ∧ (r = none ↔ s.root = .nil) ∧
      (∀ k' v c, r = some (k', v, c) → c.tid = s.tid ∧ c.next ≠ none) :=
  nearest_total cmp s k hd

/-- Floor semantics. -/
theorem nearest_floor (cmp : K → K → Ordering) (hc : CmpOk cmp) {s : Tbl K V}
    (ho : Ordered cmp keyOf s.root) (hd : DistinctIds s.root) (k : K) :
    ∃ s', Tbl.findNearest cmp s k
        = .ok (s', (floorL cmp keyOf k (inorder s.root)).map (nearestAns s.tid)) ∧
      Upd NextRel s.root s'.root ∧ s'.num = s.num ∧ s'.tid = s.tid ∧ s'.fresh = s.fresh :=
  Tree.nearest_floor cmp hc ho hd k

/-- The answer depends only on the stored key/value sequence: two tables with the same in-order
    contents — whatever their shapes, stamps and parent pointers, i.e. whatever their histories —
    give the same key and value. -/
theorem nearest_history_independent (cmp : K → K → Ordering) (hc : CmpOk cmp) {s₁ s₂ : Tbl K V}
    (ho₁ : Ordered cmp keyOf s₁.root) (hd₁ : DistinctIds s₁.root)
    (ho₂ : Ordered cmp keyOf s₂.root) (hd₂ : DistinctIds s₂.root)
    (hkv : kvs s₁.root = kvs s₂.root) (k : K) :
    ∃ s₁' r₁ s₂' r₂, Tbl.findNearest cmp s₁ k = .ok (s₁', r₁) ∧ Tbl.findNearest cmp s₂ k = .ok (s₂', r₂) ∧
      r₁.map (fun x => (x.1, x.2.1)) = r₂.map (fun x => (x.1, x.2.1)) :=
  Tree.nearest_history_independent cmp hc ho₁ hd₁ ho₂ hd₂ hkv k

/-- The search keeps the traversal-epoch invariant of C03 (and quiescence). -/
theorem nearest_epoch (cmp : K → K → Ordering) {s : Tbl K V} (h : EpochInv s) {k : K} {s' : Tbl K V} {r}
    (hf : Tbl.findNearest cmp s k = .ok (s', r)) :
    EpochInv s' ∧ (Quiescent s → Quiescent s') ∧ Upd Skel s.root s'.root ∧ s'.num = s.num ∧
      s'.fresh = s.fresh ∧ (∀ k' v c, r = some (k', v, c) → c.tid ≤ s'.tid ∧ c.next ≠ none) :=
  Tree.nearest_epoch cmp h hf

/-- When no walk has been left unfinished, continuing with `getnext` from the returned cursor
    never faults, returns every stored key/value pair exactly once and then reports the end. -/
theorem nearest_then_walk (cmp : K → K → Ordering) {s : Tbl K V} (h : EpochInv s) (hq : Quiescent s)
    {k : K} {s' : Tbl K V} {k' v c} (hf : Tbl.findNearest cmp s k = .ok (s', some (k', v, c))) (n : Nat) :
    ∃ xs s'', walkFrom (s.root.size + 1 + n) s' c = .ok (xs, s'') ∧ xs.Perm (kvs s.root) :=
  Tree.nearest_then_walk cmp h hq hf n

/-! non-vacuity: a concrete table and what the theorems say about it -/

example : ∃ s',
    Tbl.findNearest compare demo 5 = .ok (s', some (3, 30, { tid := 1, next := some 2 })) ∧   -- greatest smaller
    (∃ s', Tbl.findNearest compare demo 7 = .ok (s', some (7, 70, { tid := 1, next := some 3 }))) ∧   -- equal
    (∃ s', Tbl.findNearest compare demo 0 = .ok (s', some (1, 10, { tid := 1, next := some 1 }))) := by   -- smallest
  have hin : inorder demo.root = [⟨1, 10, 1, 0, none⟩, ⟨2, 20, 0, 0, none⟩, ⟨3, 30, 2, 0, none⟩, ⟨7, 70, 3, 0, none⟩] := rfl
  have ho : Ordered compare keyOf demo.root := by
    unfold Ordered Sorted; rw [hin]; simp [Nat.compare_eq_lt]
  have hd : DistinctIds demo.root := by
    have : ids demo.root = [1, 0, 2, 3] := rfl
    unfold DistinctIds; rw [this]; decide
  obtain ⟨s1, h1, _⟩ := nearest_floor compare cmpOk_nat ho hd 5
  obtain ⟨s2, h2, _⟩ := nearest_floor compare cmpOk_nat ho hd 7
  obtain ⟨s3, h3, _⟩ := nearest_floor compare cmpOk_nat ho hd 0
  exact ⟨s1, h1, ⟨s2, h2⟩, ⟨s3, h3⟩⟩

end Qlibc.Props.C04

import QlibcModel.Tree.Table
namespace Qlibc.Props.C04
theorem placeholder : True := trivial
end Qlibc.Props.C04

/-
  C12, address-level layer (DESIGN.md section 7/C12 item 2) — containers own private copies;
  returned copies are independent.

  Model: `Mem/Model.lean` (block heap: ids never reused, use-after-free and double free are
  `Fault.dangling`) and `Mem/Copy.lean` (the copy discipline of qtreetbl / qhashtbl / qlisttbl /
  qlist / qvector / qhasharr transcribed generically for a container of owned blocks; the header
  of that file lists the C call sites).  A run is an ARBITRARY list of actions: library calls
  (`put`, `putv`, `get … newmem`, `pop`, `remove`, `dump`, `clear`, `release`) interleaved with
  caller actions (`calloc`, `scribble b d`, `cfree b`) on any block the caller holds — buffers it
  passed as arguments and copies it received included.

  Only the property theorems are here; lemmas are in `Mem/CopyLemmas.lean`, `Mem/CopyRun.lean`.

    owned_disjoint        invariant of every reachable state: owned blocks are live, exactly
                          sized, pairwise distinct, and no block the caller ever held is owned
    noninterference       the observations of a run are a function of the library calls read
                          with the bytes their arguments held at call time; two runs that differ
                          only in caller actions observe the same (`noninterference_erase`,
                          `noninterference_from_init`), and what `put` stored is what `get`
                          returns whatever the caller did to its buffers in between
                          (`put_get_reads_bytes_at_put_time`)
    copy_survives         a block from a copying accessor is the caller's, never owned, and
                          re-reading it after ANY later interleaving that does not itself
                          overwrite/free it gives the same bytes and sizes — replace, remove,
                          clear and release included; `lib_never_faults`,
                          `no_interleaving_faults`: the only fault of any operation is the
                          contract check on the caller's own arguments
    nocopy_aliases        with `newmem = false` the returned pointer IS the owned block: not a
                          caller block, and dangling after remove / clear / release
    release_frees_all     after `release` (and `clear`) no owned block is live and every live
                          block is the caller's

  The tie to the C code is C12's correspondence run (harnesses in scribble mode under ASan).
-/
import QlibcModel.Mem.CopyRun

namespace Qlibc.Props.C12Mem
open Qlibc Qlibc.Mem List

/-! ### owned_disjoint -/

/-- the invariant holds in every state any interleaving can reach from a state satisfying it -/
theorem inv_preserved {s t : State} {as : List Act} {log : Log} (hi : Inv s)
    (h : run s as = .ok (t, log)) : Inv t := run_inv hi h

/-- INVARIANT, for all interleavings from the empty container: every owned block is live and
    exactly as large as the size stored with it; owned blocks are pairwise distinct; and no block
    the caller ever held — its own buffers, arguments it passed, copies it received — is owned. -/
theorem owned_disjoint {as : List Act} {s : State} {log : Log}
    (h : run State.init as = .ok (s, log)) :
    (∀ r ∈ s.ownedRefs, ∃ d, s.heap.read r.id = .ok d ∧ d.length = r.size) ∧
    s.ownedIds.Nodup ∧
    (∀ b ∈ s.caller, b ∉ s.ownedIds) := by
  have hi := run_inv Inv.init h
  refine ⟨?_, hi.nodup, hi.disjoint⟩
  intro r hr
  obtain ⟨d, hd, hl⟩ := hi.ownedLive r hr
  exact ⟨d, hd.read, hl⟩

/-- what the caller holds: the buffers in which it passed arguments, and every block a copying
    accessor returned, are caller blocks (hence, by `owned_disjoint`, not owned) -/
theorem caller_holds {s s' : State} {a : Act} {r : Ret} (hi : Inv s) (h : step s a = .ok (s', r)) :
    (∀ k v m pos, a = .putv k v m pos →
      ∀ b ∈ (fresh s.heap.next (k.toList ++ [v])).map (·.id), b ∈ s'.caller ∧ b ∉ s'.ownedIds) ∧
    (a.copying = true → ∀ b ∈ r.ptrs, b ∈ s'.caller ∧ b ∉ s'.ownedIds) := by
  have hi' := (step_post hi h).1
  refine ⟨?_, ?_⟩
  · rintro k v m pos rfl b hb
    have := putv_buffers hi h b hb
    exact ⟨this, hi'.disjoint b this⟩
  · intro ha b hb
    have := (copy_ret' hi ha h).1 b hb
    exact ⟨this, hi'.disjoint b this⟩

/-! ### noninterference -/

/-- the observations of ANY run are those of the value-semantic container on the library calls,
    each read with the bytes its arguments held at the time of the call: caller actions do not
    occur in the right-hand side at all -/
theorem observations_determined {s t : State} {as : List Act} {log : Log} (hi : Inv s)
    (h : run s as = .ok (t, log)) :
    vrun s.view (log.map (·.1)) = (t.view, log.map (·.2)) := run_sim hi h

/-- two runs with the same library calls (as read at call time) from states with the same
    contents make the same observations and end with the same contents, whatever the caller
    does to its blocks in either run -/
theorem noninterference {s₁ s₂ t₁ t₂ : State} {as₁ as₂ : List Act} {log₁ log₂ : Log}
    (hi₁ : Inv s₁) (hi₂ : Inv s₂) (hv : s₁.view = s₂.view)
    (h₁ : run s₁ as₁ = .ok (t₁, log₁)) (h₂ : run s₂ as₂ = .ok (t₂, log₂))
    (hcalls : log₁.map (·.1) = log₂.map (·.1)) :
    log₁.map (·.2) = log₂.map (·.2) ∧ t₁.view = t₂.view := by
  have e₁ := run_sim hi₁ h₁
  have e₂ := run_sim hi₂ h₂
  rw [hv, hcalls, e₂] at e₁
  simp only [Prod.mk.injEq] at e₁
  exact ⟨e₁.2.symm, e₁.1.symm⟩

/-- two runs that differ ONLY in caller actions (erasing `calloc`/`scribble`/`cfree` leaves the
    same list of library calls, each carrying its data) make the same observations -/
theorem noninterference_erase {s₁ s₂ t₁ t₂ : State} {as₁ as₂ : List Act} {log₁ log₂ : Log}
    (hi₁ : Inv s₁) (hi₂ : Inv s₂) (hv : s₁.view = s₂.view)
    (hc₁ : ∀ a ∈ as₁, a.closed = true) (hc₂ : ∀ a ∈ as₂, a.closed = true)
    (herase : as₁.filter (fun a => !a.isCaller) = as₂.filter (fun a => !a.isCaller))
    (h₁ : run s₁ as₁ = .ok (t₁, log₁)) (h₂ : run s₂ as₂ = .ok (t₂, log₂)) :
    log₁.map (·.2) = log₂.map (·.2) ∧ t₁.view = t₂.view := by
  apply noninterference hi₁ hi₂ hv h₁ h₂
  rw [run_calls_closed hc₁ h₁, run_calls_closed hc₂ h₂, filterMap_resolve_erase as₁,
    filterMap_resolve_erase as₂, herase]

/-- the same from the empty container, with the existence of both runs proved: no interleaving
    of well-formed action lists faults, and the caller's actions are invisible -/
theorem noninterference_from_init (as₁ as₂ : List Act)
    (hw₁ : wellFormed false as₁ = true) (hw₂ : wellFormed false as₂ = true)
    (hc₁ : ∀ a ∈ as₁, a.closed = true) (hc₂ : ∀ a ∈ as₂, a.closed = true)
    (herase : as₁.filter (fun a => !a.isCaller) = as₂.filter (fun a => !a.isCaller)) :
    ∃ t₁ t₂ log₁ log₂, run State.init as₁ = .ok (t₁, log₁) ∧ run State.init as₂ = .ok (t₂, log₂) ∧
      log₁.map (·.2) = log₂.map (·.2) ∧ t₁.view = t₂.view := by
  obtain ⟨t₁, log₁, h₁⟩ := run_total Inv.init as₁ hw₁
  obtain ⟨t₂, log₂, h₂⟩ := run_total Inv.init as₂ hw₂
  exact ⟨t₁, t₂, log₁, log₂, h₁, h₂,
    noninterference_erase Inv.init Inv.init rfl hc₁ hc₂ herase h₁ h₂⟩

/-- a value put and later read back equals the bytes the caller's buffer held AT THE TIME of the
    put: `put` from caller buffers `k`, `v`; then any caller actions whatsoever (scribbling and
    freeing `k` and `v` included); then `get` by that key, with either `newmem`, returns exactly
    the `v.size` bytes `v` held when `put` was called, with that length.
    (`hm`: map semantics — the mode replaces the value in place, or the key was absent.) -/
theorem put_get_reads_bytes_at_put_time {s s1 s2 s3 : State} {k v : Ref} {m : Mode} {pos : Nat}
    {r1 r3 : Ret} {cs : List Act} {log : Log} {nm : Bool} (hi : Inv s)
    (hm : m = .value ∨ vfind (s.heap.peek k) s.view = none)
    (hput : step s (.put (some k) v m pos) = .ok (s1, r1))
    (hcs : ∀ a ∈ cs, a.isCaller = true) (hrun : run s1 cs = .ok (s2, log))
    (hget : step s2 (.get (.key (s.heap.peek k)) .val nm) = .ok (s3, r3)) :
    s.heap.readN v.id v.size = .ok (s.heap.peek v) ∧
    r3.obs = some [(s.heap.peek v, (s.heap.peek v).length)] ∧ (s.heap.peek v).length = v.size := by
  have hrd : Readable s.heap v := by
    have := argsOk_of_step hput
    simp only [argsOk, Bool.and_eq_true] at this
    exact readableB_iff.mp this.2
  obtain ⟨hi1, _, hv1⟩ := step_post hi hput
  simp only [resolve, vstep, Option.map_some, Prod.mk.injEq] at hv1
  obtain ⟨hview2, _⟩ := run_callers hi1 hcs hrun
  have hi2 := run_inv hi1 hrun
  obtain ⟨_, _, hv3⟩ := step_post hi2 hget
  obtain ⟨j, hj1, hj2⟩ := vput_get s.view (s.heap.peek k) (s.heap.peek v) m pos hm
  rw [hv1.1, ← hview2] at hj1 hj2
  simp only [resolve, vstep, vselect, hj1, hj2, Option.map_some, Prod.mk.injEq] at hv3
  exact ⟨hrd.readN, by rw [← hv3.2]; rfl, hrd.length_peek⟩

/-! ### copy_survives -/

/-- a block returned by a copying accessor (`get … newmem = true`, `pop`, `dump`; this covers
    find_min/find_max and the static table's get) is a caller block and is never owned; after ANY
    later interleaving — replace, remove, clear, release of the container, other caller actions —
    that does not itself scribble or free it, it is unchanged, and re-reading through the returned
    pointers gives the bytes and sizes originally observed, without fault. -/
theorem copy_survives {s s1 t : State} {a : Act} {r : Ret} {as : List Act} {log : Log}
    (hi : Inv s) (ha : a.copying = true) (hstep : step s a = .ok (s1, r))
    (hnt : ∀ b ∈ r.ptrs, b ∉ touchedAll as) (hrun : run s1 as = .ok (t, log)) :
    (∀ b ∈ r.ptrs, b ∈ t.caller ∧ b ∉ t.ownedIds ∧ t.heap.get? b = s1.heap.get? b) ∧
    (∀ ds, r.obs = some ds → observe t.heap r.refs = .ok ds) := by
  have hi1 := (step_post hi hstep).1
  have hit := run_inv hi1 hrun
  have hf := run_frame hi1 hrun
  obtain ⟨hc1, hc2⟩ := copy_ret' hi ha hstep
  refine ⟨?_, ?_⟩
  · intro b hb
    have hbt := hf.mem (hc1 b hb)
    exact ⟨hbt, hit.disjoint b hbt, hf.same b (hc1 b hb) (hnt b hb)⟩
  · intro ds hds
    rw [← hc2 ds hds]
    apply observe_congr
    intro x hx
    have hxp : x.id ∈ r.ptrs := by
      simp only [Ret.refs, hds] at hx
      obtain ⟨i, hi', rfl⟩ := mem_iff_getElem.mp hx
      simp only [getElem_zipWith]
      exact getElem_mem _
    exact hf.same _ (hc1 _ hxp) (hnt _ hxp)

/-- no operation ever faults on the container's own blocks: in a state satisfying the invariant
    every action whose caller-side contract holds (`argsOk`: container not yet released, `put`
    arguments readable) succeeds … -/
theorem lib_never_faults {s : State} (hi : Inv s) (a : Act) (hok : argsOk s a = true) :
    ∃ s' r, step s a = .ok (s', r) ∧ Inv s' := by
  obtain ⟨s', r, h, hp⟩ := step_spec hi a hok
  exact ⟨s', r, h, hp.1⟩

/-- … and conversely the only fault `step` can report is that contract check -/
theorem fault_is_callers {s : State} {a : Act} {f : Fault} (hi : Inv s) (h : step s a = .error f) :
    argsOk s a = false ∧ f = .dangling := step_error hi h

/-- no interleaving of library calls that carry their data with arbitrary caller actions
    (library calls stopping at `release`) ever faults -/
theorem no_interleaving_faults (as : List Act) (hw : wellFormed false as = true) :
    ∃ t log, run State.init as = .ok (t, log) ∧ Inv t := by
  obtain ⟨t, log, h⟩ := run_total Inv.init as hw
  exact ⟨t, log, h, run_inv Inv.init h⟩

/-! ### nocopy_aliases -/

/-- with `newmem = false` nothing is allocated, and the pointers returned ARE the stored blocks:
    they are owned, they are not caller blocks, and — the opposite of `copy_survives` — they are
    dangling as soon as the element is removed or the container cleared or released. -/
theorem nocopy_aliases {s s' : State} {sel : Sel} {part : Part} {r : Ret} (hi : Inv s)
    (h : step s (.get sel part false) = .ok (s', r)) :
    s' = s ∧
    (∀ b ∈ r.ptrs, b ∈ s.ownedIds ∧ b ∉ s.caller) ∧
    (∀ t r', step s (.remove sel) = .ok (t, r') → ∀ b ∈ r.ptrs, t.heap.read b = .error .dangling) ∧
    (∀ a t r', a = .clear ∨ a = .release → step s a = .ok (t, r') →
      ∀ b ∈ r.ptrs, t.heap.read b = .error .dangling) := by
  obtain ⟨hs, hcase⟩ := nocopy_ret hi h
  refine ⟨hs, ?_⟩
  rcases hcase with ⟨_, rfl⟩ | ⟨i, e, hsel, he, rfl⟩
  · exact ⟨fun b hb => (by cases hb), fun _ _ _ b hb => (by cases hb),
      fun _ _ _ _ _ b hb => (by cases hb)⟩
  · have hown : ∀ b ∈ (e.part part).map (·.id), b ∈ s.ownedIds := by
      intro b hb
      obtain ⟨x, hx, rfl⟩ := mem_map.mp hb
      exact mem_map_of_mem (mem_refsOf_of_getElem? he (e.part_subset part x hx))
    refine ⟨fun b hb => ⟨hown b hb, fun hc => hi.disjoint b hc (hown b hb)⟩, ?_, ?_⟩
    · intro t r' hrm b hb
      obtain ⟨x, hx, rfl⟩ := mem_map.mp hb
      exact Heap.read_dead (remove_kills hi hrm hsel he x (e.part_subset part x hx))
    · intro a t r' ha hst b hb
      exact Heap.read_dead ((clear_kills hi ha hst).1 b (hown b hb))

/-! ### release_frees_all -/

/-- after `release` no block the container owned is live, the container owns nothing, the
    caller's blocks are exactly those it had, and every block still live is a caller block:
    the discipline leaks nothing and frees nothing of the caller's. -/
theorem release_frees_all {s t : State} {r : Ret} (hi : Inv s)
    (h : step s .release = .ok (t, r)) :
    (∀ b ∈ s.ownedIds, t.heap.isLive b = false) ∧ t.owned = [] ∧ t.released = true ∧
    t.caller = s.caller ∧ (∀ b ∈ s.caller, t.heap.get? b = s.heap.get? b) ∧
    (∀ b, t.heap.isLive b = true → b ∈ t.caller) := by
  obtain ⟨h1, h2, h3, h4, h5⟩ := clear_kills hi (Or.inr rfl) h
  have hf := (step_post hi h).2.1
  exact ⟨h1, h2, h5 rfl, h3, fun b hb => hf.same b hb (by simp [Act.touched]), h4⟩

/-- the same for every reachable state, all at once: release after ANY interleaving -/
theorem release_frees_all_reachable {as : List Act} {s t : State} {log : Log} {r : Ret}
    (hrun : run State.init as = .ok (s, log)) (h : step s .release = .ok (t, r)) :
    (∀ b ∈ s.ownedIds, t.heap.isLive b = false) ∧
    (∀ b, t.heap.isLive b = true → b ∈ s.caller) := by
  obtain ⟨h1, _, _, h4, _, h6⟩ := release_frees_all (run_inv Inv.init hrun) h
  exact ⟨h1, fun b hb => h4 ▸ h6 b hb⟩

/-! ### non-vacuity: concrete runs -/

/-- put a value with embedded and trailing NUL from fresh buffers (blocks 0, 1; private copies
    2, 3), scribble the value buffer and free the key buffer, read back a copy (block 4) -/
def demo : List Act :=
  [.putv (some [1]) [0, 7, 0] .value 0, .scribble 1 [9, 9, 9], .cfree 0, .get (.key [1]) .val true]

example : (run State.init demo).toOption.map (fun p => p.2.map (·.2)) =
    some [some [], some [([0, 7, 0], 3)]] := by decide

example : (run State.init demo).toOption.map (fun p => (p.1.ownedIds, p.1.caller)) =
    some ([2, 3], [4, 0, 1]) := by decide

/-- the caller's buffer really was overwritten and the key buffer really freed -/
example : (run State.init demo).toOption.map
    (fun p => ((p.1.heap.read 1).toOption, (p.1.heap.read 0).toOption, p.1.heap.isLive 0)) =
    some (some [9, 9, 9], none, false) := by decide

/-- the retained copy (block 4) survives replace + remove + release; the stored block obtained
    with `newmem = false` (block 3) does not survive the replace -/
def demo2 : List Act :=
  demo ++ [.get (.key [1]) .val false, .putv (some [1]) [5] .value 0, .remove (.key [1]), .release]

example : (run State.init demo2).toOption.map
    (fun p => ((p.1.heap.read 4).toOption, (p.1.heap.read 3).toOption)) =
    some (some [0, 7, 0], none) := by decide

/-- after release: nothing owned, and exactly the caller's un-freed blocks are live -/
example : (run State.init demo2).toOption.map
    (fun p => (p.1.owned.length, (List.range p.1.heap.next).filter p.1.heap.isLive)) =
    some (0, [1, 4, 5, 6]) := by decide

example : wellFormed false demo2 = true := by decide

/-- `noninterference_from_init` instantiated: the run with the caller's scribble and free, and the
    run without them, observe the same -/
example : ∃ t₁ t₂ log₁ log₂,
    run State.init demo = .ok (t₁, log₁) ∧
    run State.init [.putv (some [1]) [0, 7, 0] .value 0, .get (.key [1]) .val true] = .ok (t₂, log₂) ∧
    log₁.map (·.2) = log₂.map (·.2) ∧ t₁.view = t₂.view :=
  noninterference_from_init _ _ (by decide) (by decide) (by decide) (by decide) (by decide)

/-- a use of the container after `release`, and a `put` from a freed buffer, are reported as the
    CALLER's fault by the contract check -/
example : (run State.init [.release, .dump]).toOption.isNone = true := by decide
example : (run State.init [.calloc [1], .cfree 0, .put none ⟨0, 1⟩ .insert 0]).toOption.isNone = true := by
  decide

end Qlibc.Props.C12Mem

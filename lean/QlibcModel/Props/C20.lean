/-
  C20 — configuration parsers deliver exactly what the file says: property theorems.
  Models: Conf/Aconf.lean (qaconf.c), Conf/Ini.lean (qconfig.c); lemmas in Conf/Aconf*.lean.
-/
import QlibcModel.Conf.Ini
import QlibcModel.Conf.Aconf
import QlibcModel.Conf.AconfNum
import QlibcModel.Conf.AconfRender
import QlibcModel.Conf.IniRound
import QlibcModel.Conf.IniRefs
import QlibcModel.Conf.AconfFlat
namespace Qlibc.Props.C20
open Qlibc Qlibc.Conf Qlibc.Conf.Aconf

/-- K-gen tie: the constants the models use are the ones of the current headers/sources -/
theorem consts_tie :
    Generated.Conf.otypeOption = 0 ∧ Generated.Conf.otypeOpen = 1 ∧ Generated.Conf.otypeClose = 2 ∧
    Generated.Conf.qacTakeAll = 255 ∧ Generated.Conf.qacSectionAll = 0 ∧ Generated.Conf.qacSectionRoot = 1 ∧
    Generated.Conf.qacA1Int = 2 ^ 8 ∧ Generated.Conf.qacA1Float = 2 ^ 16 ∧ Generated.Conf.qacA1Bool = 2 ^ 24 ∧
    Generated.Conf.qacAAInt = 2 ^ 13 ∧ Generated.Conf.qacAAFloat = 2 ^ 21 ∧ Generated.Conf.qacAABool = 2 ^ 29 ∧
    Generated.Conf.maxTypeCheck = 5 := by decide

/-- ac_bool: `_is_str_bool` is exactly the documented reading — true/on/yes/1 and false/off/no/0
    in any letter case, everything else is no boolean -/
theorem ac_bool (s : Bytes) : isStrBool s = boolSpec s := isStrBool_eq_boolSpec s

/-- ac_bool, as the parser applies it: a BOOL-typed argument is replaced by "1" / "0" when it is one
    of the documented spellings (any case) and the line is rejected otherwise -/
theorem ac_bool_rewrite (take j : Nat) (s : Bytes) (h : argType take j = 3) :
    checkArgs take j [s] =
      if s.map lower ∈ trueWords then .ok [[49]]
      else if s.map lower ∈ falseWords then .ok [[48]]
      else .error (.bool j) := by
  simp only [checkArgs, h]
  rw [isStrBool_eq_boolSpec]
  unfold boolSpec
  by_cases h1 : s.map lower ∈ trueWords
  · simp [h1, Except.map]
  · by_cases h2 : s.map lower ∈ falseWords <;> simp [h1, h2, Except.map]

/-- ac_number: `_is_str_number` = the documented classifier (1: `-?digits`, 2: `-?digits.digits`,
    0 otherwise — so `-`, `.5`, `5.`, `1.2.3`, `1e5`, the empty string are no numbers) -/
theorem ac_number (s : Bytes) : isStrNumber s = classify s := isStrNumber_eq_classify s

/-- ac_tokenize: for every non-empty argument list, every quoting style per argument (bare, single,
    double), every choice of optional escapes and every blank/tab layout, the tokenizer returns
    exactly the arguments -/
theorem ac_tokenize (l : List (Bytes × RArg)) (hne : l ≠ []) (hok : LineOk l) :
    tokenize (renderArgs l) = .ok (.args (l.map (·.2.text))) := tokenize_render l hne hok

/-- non-vacuity: `Listen  "a \"b\"" 'c\'' d` is a well-formed line with four arguments -/
example : LineOk [([], ⟨[76], .bare, []⟩), ([32, 9], ⟨[97, 32, 34, 98, 34], .double, []⟩),
    ([32], ⟨[99, 39], .single, [true]⟩), ([9], ⟨[100], .bare, []⟩)] := by
  refine ⟨?_, ?_⟩
  · intro x hx
    simp only [List.mem_cons, List.not_mem_nil, or_false] at hx
    rcases hx with rfl | rfl | rfl | rfl <;> refine ⟨by decide, ⟨by decide, ?_⟩⟩ <;> intro h <;>
      first | exact ⟨by decide, by decide, by decide, by decide⟩ | cases h
  · decide

/-- ini_roundtrip: for every document whose entry values are made of literal pieces and references
    `${name}` / `${%ENV}` / `${!cmd}`, every separator that is not white space, every layout and
    every outside world: if at each line every reference resolves — `resolve` on the table built by
    the lines before it, i.e. the LATEST earlier definition of the full key (`tblGet` searches
    backward), the environment, or the command stub — to the annotated text, then
    `qconfig_parse_str` yields exactly the entries written, in file order, with section prefixes and
    marker entries, every reference replaced by that text (the value in effect at that line).
    Admissibility (`DocROk`): names/section names as in the partial theorem; literal pieces and
    substituted texts contain no `$` (so nothing is rescanned) and no NUL; reference names contain
    no `$ { }`; at most `_MAX_EXPANSIONS` references and `_MAX_VALUESIZE` bytes per value (beyond
    these the repaired code drops the entry with ELOOP).
    Not covered by a theorem: nested references `${a${b}}` and literal `$` characters — both are in
    the generated documents of the correspondence (checks/c20.py, stream `ini-grammar`). -/
theorem ini_roundtrip (w : Ini.World) (sep : UInt8) (hsep : Str.isWs sep = false)
    (items : List (Ini.ItemR × Ini.Lay)) (finalNl : Bool) (hok : Ini.DocROk w sep none [] items) :
    Ini.parseStr w sep (Ini.renderDocR sep items finalNl) =
      .ok (Ini.expected none (items.map (·.1.meaning))) :=
  Ini.parseStr_renderR w sep hsep items finalNl hok

/-- non-vacuity: `a=1` followed by `b=${a}x` is an admissible document (the reference resolves in the
    table built by the first line) -/
example (w : Ini.World) : Ini.DocROk w 61 none []
    [(.entry [97] [.lit [49]], {}), (.entry [98] [.tok [97] [49], .lit [120]], {})] := by
  simp [Ini.DocROk, Ini.ItemROk, Ini.LayOk, Ini.LayWs, Ini.NoByte, Ini.Tight, Ini.SegOk, Ini.NameOk, Ini.renderSegs,
    Ini.Seg.render, Ini.tokStr, Ini.countTok, Ini.Seg.isTok, Ini.bound, Ini.segBound, Ini.Seg.final, Str.isWs,
    Ini.entriesOf, Ini.ItemR.meaning, Ini.finalSegs, Ini.resolve, Ini.tblGet, Ini.sectAfter,
    Generated.Conf.maxExpansions, Generated.Conf.maxValueSize]
  decide

/-- ini_roundtrip_partial (the reference-free special case, kept for its simpler hypotheses): for every document of the reference-free grammar (blank lines, comments,
    `[section]` / `[]` headers, `name sep value` entries), every separator that is not white
    space, every layout (arbitrary blank/tab/CR runs around every token, optional final newline)
    and every outside world, `qconfig_parse_str` yields exactly the entries written, in file
    order, keys prefixed with `section.`, plus the marker entry `section.` = `section`; comments
    and blank lines contribute nothing. -/
theorem ini_roundtrip_partial (w : Ini.World) (sep : UInt8) (hsep : Str.isWs sep = false)
    (items : List (Ini.Item × Ini.Lay)) (finalNl : Bool)
    (hok : ∀ x ∈ items, Ini.ItemOk sep x.1 ∧ Ini.LayOk x.2) :
    Ini.parseStr w sep (Ini.renderDoc sep items finalNl) = .ok (Ini.expected none (items.map (·.1))) :=
  Ini.parseStr_render w sep hsep items finalNl hok

/-- non-vacuity: ` [ net ] \r`, `# c`, `port = 80` is an admissible document for `=` -/
example : ∀ x ∈ [((Ini.Item.sect [110, 101, 116]), ({ a := [32], b := [32], c := [32], d := [32, 13] } : Ini.Lay)),
      (Ini.Item.comment [32, 99], {}), (Ini.Item.entry [112, 111, 114, 116] [56, 48], { b := [32], c := [32] })],
    Ini.ItemOk 61 x.1 ∧ Ini.LayOk x.2 := by
  intro x hx
  simp only [List.mem_cons, List.not_mem_nil, or_false] at hx
  rcases hx with rfl | rfl | rfl <;>
    simp [Ini.ItemOk, Ini.LayOk, Ini.NoByte, Ini.Tight, Ini.LayWs, Str.isWs]

/-
  ac_accept_iff / ac_callbacks (FULL statement, not yet proved):
    ∀ table flags defcb (d : AcDoc) layout,  d built from directives and arbitrarily nested, properly
      closed sections (depth ≤ 255), every rendered line shorter than MAX_LINESIZE − 1  →
      parse (renderAc d layout) =
        if Conforms table flags d then (callbacks table d, count = directives + 2 · sections)
        else (callbacks before the first offence, −1, line of the first offence)
    where each callback carries otype, the enclosing section's id, the OR of the ids of all enclosing
    sections (root included), the nesting level, the chain of enclosing directives, and the
    tokenized/normalised argv; a section close callback carries the OPENING directive's data.
  Proved below: the same statement for FLAT documents (directives, comments, blank lines at top
  level; every table, both flags, with or without default handler; callbacks that do not refuse).
  Missing: the induction over nested sections (recursive `_parse_inline` with the parent data and the
  close-tag matching). Nesting, close callbacks, scopes inside sections, refusing callbacks and
  chunked over-long lines are covered by the correspondence (checks/c20.py).
-/

/-- ac_accept_iff_partial + ac_callbacks_partial (flat documents): for every option table, flags,
    default-handler setting and every flat document in every layout (blanks/tabs between arguments,
    every quoting style and optional escape per argument, trailing white space, comment and blank
    lines), `parse` makes exactly the callbacks `specRun` lists — one per conforming directive, in
    file order, with level 0, section bits ROOT, no parents and the arguments split, unquoted and
    BOOL-normalised — and returns the number of directives, or −1 with the line number of the first
    directive that violates its declared scope, argument count or argument types (documented
    classifiers `classify` / `boolSpec`) or is not registered (without handler / ignore flag). -/
theorem ac_accept_iff_partial (cfg : Cfg) (hcb : ∀ d, cfg.cbFail d = none) (lines : List FLine)
    (hok : ∀ l ∈ lines, FLineOk l) :
    (parse cfg (renderFlat lines)).map (fun x => (x.1, x.2.toF)) = .ok (specRun cfg lines 0 0 []) :=
  parse_flat cfg hcb lines hok

/-- reading of the result: accepted with the number of directive lines exactly when no directive is
    rejected by `judgeDir`; otherwise the error names the first rejected line (1-based) -/
theorem ac_accept_iff_result (cfg : Cfg) (lines : List FLine) :
    (specRun cfg lines 0 0 []).2 =
      match firstOffence cfg lines with
      | some i => .errLine (i + 1)
      | none => .count (lines.filter isDir).length := by
  rw [specRun_result cfg lines 0 0 []]
  cases firstOffence cfg lines with
  | none => simp
  | some i => simp

/-- non-vacuity: `Listen 80` followed by a CR is an admissible flat line -/
example : FLineOk (.dir [([], ⟨[76, 105, 115, 116, 101, 110], .bare, []⟩), ([32], ⟨[56, 48], .bare, []⟩)] [13]) := by
  refine ⟨by simp, ⟨?_, by decide⟩, ?_, ?_, ?_, by decide⟩
  · intro x hx
    simp only [List.mem_cons, List.not_mem_nil, or_false] at hx
    rcases hx with rfl | rfl <;> refine ⟨by decide, ⟨by decide, ?_⟩⟩ <;> intro _ <;>
      exact ⟨by decide, by decide, by decide, by decide⟩
  · intro c hc; simp at hc; subst hc; decide
  · intro x hx
    simp only [List.mem_cons, List.not_mem_nil, or_false] at hx
    rcases hx with rfl | rfl <;> exact ⟨by decide, fun _ => by decide⟩
  · intro a ha; simp at ha; subst ha; exact ⟨by decide, by decide⟩

end Qlibc.Props.C20

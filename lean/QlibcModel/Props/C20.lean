/-
  C20 — configuration parsers deliver exactly what the file says: property theorems.
  Models: Conf/Aconf.lean (qaconf.c), Conf/Ini.lean (qconfig.c); lemmas in Conf/Aconf*.lean.
-/
import QlibcModel.Conf.Ini
import QlibcModel.Conf.Aconf
import QlibcModel.Conf.AconfNum
import QlibcModel.Conf.AconfRender
import QlibcModel.Conf.IniRound
import QlibcModel.Conf.IniRefs
import QlibcModel.Conf.IniInclude
import QlibcModel.Conf.AconfFlat
import QlibcModel.Conf.AconfNested
import QlibcModel.Conf.AconfMalformed
import QlibcModel.Conf.AconfNoNl
import QlibcModel.Conf.AconfLineno
import QlibcModel.Conf.AconfObj
import QlibcModel.Shapes.Conf
namespace Qlibc.Props.C20
open Qlibc Qlibc.Conf Qlibc.Conf.Aconf

/-- K-gen tie: the constants the models use are the ones of the current headers/sources -/
theorem consts_tie :
    Generated.Conf.otypeOption = 0 ∧ Generated.Conf.otypeOpen = 1 ∧ Generated.Conf.otypeClose = 2 ∧
    Generated.Conf.qacTakeAll = 255 ∧ Generated.Conf.qacSectionAll = 0 ∧ Generated.Conf.qacSectionRoot = 1 ∧
    Generated.Conf.qacA1Int = 2 ^ 8 ∧ Generated.Conf.qacA1Float = 2 ^ 16 ∧ Generated.Conf.qacA1Bool = 2 ^ 24 ∧
    Generated.Conf.qacAAInt = 2 ^ 13 ∧ Generated.Conf.qacAAFloat = 2 ^ 21 ∧ Generated.Conf.qacAABool = 2 ^ 29 ∧
    Generated.Conf.maxTypeCheck = 5 := by decide

/-- ac_bool: `_is_str_bool` is exactly the documented reading — true/on/yes/1 and false/off/no/0
    in any letter case, everything else is no boolean -/
theorem ac_bool (s : Bytes) : isStrBool s = boolSpec s := isStrBool_eq_boolSpec s

/-- ac_bool, as the parser applies it: a BOOL-typed argument is replaced by "1" / "0" when it is one
    of the documented spellings (any case) and the line is rejected otherwise -/
theorem ac_bool_rewrite (take j : Nat) (s : Bytes) (h : argType take j = 3) :
    checkArgs take j [s] =
      if s.map lower ∈ trueWords then .ok [[49]]
      else if s.map lower ∈ falseWords then .ok [[48]]
      else .error (.bool j) := by
  simp only [checkArgs, h]
  rw [isStrBool_eq_boolSpec]
  unfold boolSpec
  by_cases h1 : s.map lower ∈ trueWords
  · simp [h1, Except.map]
  · by_cases h2 : s.map lower ∈ falseWords <;> simp [h1, h2, Except.map]

/-- ac_number: `_is_str_number` = the documented classifier (1: `-?digits`, 2: `-?digits.digits`,
    0 otherwise — so `-`, `.5`, `5.`, `1.2.3`, `1e5`, the empty string are no numbers) -/
theorem ac_number (s : Bytes) : isStrNumber s = classify s := isStrNumber_eq_classify s

/-- ac_tokenize: for every non-empty argument list, every quoting style per argument (bare, single,
    double), every choice of optional escapes and every blank/tab layout, the tokenizer returns
    exactly the arguments -/
theorem ac_tokenize (l : List (Bytes × RArg)) (hne : l ≠ []) (hok : LineOk l) :
    tokenize (renderArgs l) = .ok (.args (l.map (·.2.text))) := tokenize_render l hne hok

/-- non-vacuity: `Listen  "a \"b\"" 'c\'' d` is a well-formed line with four arguments -/
example : LineOk [([], ⟨[76], .bare, []⟩), ([32, 9], ⟨[97, 32, 34, 98, 34], .double, []⟩),
    ([32], ⟨[99, 39], .single, [true]⟩), ([9], ⟨[100], .bare, []⟩)] := by
  refine ⟨?_, ?_⟩
  · intro x hx
    simp only [List.mem_cons, List.not_mem_nil, or_false] at hx
    rcases hx with rfl | rfl | rfl | rfl <;> refine ⟨by decide, ⟨by decide, ?_⟩⟩ <;> intro h <;>
      first | exact ⟨by decide, by decide, by decide, by decide⟩ | cases h
  · decide

/-- K-gen tie of `qconfig_parse_file` (also an obligation of C17): the include directive of the model
    is the `_INCLUDE_DIRECTIVE` string of the current source — `"@INCLUDE "`, nine bytes, the blank
    included — so a changed macro (e.g. without the blank) breaks this proof before any test runs -/
theorem ini_include_directive : Ini.directive = Generated.Conf.includeDirective ∧ Ini.directive.length = 9 ∧
    Ini.directive.getLast? = some 32 := by decide

/-- include_free_is_parseStr: a (NUL-free) file in which no LINE BEGINS with the nine bytes
    `"@INCLUDE "` is parsed by `qconfig_parse_file` exactly like its content by `qconfig_parse_str`:
    keys such as `@INCLUDES` / `@INCLUDE_DIR` / `@INCLUDE=x`, a bare `@INCLUDE`, `@INCLUDE` followed by
    a TAB, the directive text in the middle of a line, in a comment, after leading blanks or in lower
    case are ordinary text -/
theorem include_free_is_parseStr (w : Ini.World) (fs : Bytes → Option Bytes) (sep : UInt8) (path data : Bytes)
    (hfs : fs path = some data) (hnz : ∀ c ∈ data, c ≠ 0) (hfree : ¬ Ini.LineStartsWithDirective data) :
    Ini.parseFile w fs sep path = (Ini.parseStr w sep data).map some :=
  Ini.include_free_is_parseStr w fs sep path data hfs hnz hfree

/-- include_splice: the first line that begins with `"@INCLUDE "` is replaced by the content of the file
    it names (trimmed rest of the line; relative to the main file's directory unless it starts with `/`
    or `\`) and nothing else changes — the text before it is kept, the text behind its line follows
    the content, the include budget drops by one -/
theorem include_splice (fs : Bytes → Option Bytes) (dir : Bytes) (left : Nat) (head pre raw tail path content : Bytes)
    (hstart : pre = [] ∨ pre.getLast? = some 10)
    (hfirst : ∀ p q, pre ++ Ini.directive ++ (raw ++ tail) = p ++ Ini.directive ++ q →
      (p = [] ∨ p.getLast? = some 10) → pre.length ≤ p.length)
    (hraw : ∀ c ∈ raw, c ≠ 10) (htail : tail = [] ∨ ∃ r, tail = 10 :: r) (hlen : raw.length < Generated.Conf.pathMax)
    (hpath : Ini.includePath dir (Str.trim raw) = some path) (hne : path ≠ []) (hfs : fs path = some content) :
    Ini.includeLoop fs dir (left + 1) head (pre ++ Ini.directive ++ (raw ++ tail)) =
      Ini.includeLoop fs dir left (head ++ pre) (content.takeWhile (· != 0) ++ tail) :=
  Ini.include_splice fs dir left head pre raw tail path content hstart hfirst hraw htail hlen hpath hne hfs

/-- ini_roundtrip: for every document whose entry values are made of literal pieces and references
    `${name}` / `${%ENV}` / `${!cmd}`, every separator that is neither white space nor NUL (hypotheses
    `hsep`, `hs0`: a blank/tab/CR/LF separator is eaten by the trimming of the line, and with `'\0'`
    `_q_makeword` takes the whole line as the name, see C17 `makeword_nul_stop`), every layout and
    every outside world: if at each line every reference resolves — `resolve` on the table built by
    the lines before it, i.e. the LATEST earlier definition of the full key (`tblGet` searches
    backward), the environment, or the command stub — to the annotated text, then
    `qconfig_parse_str` yields exactly the entries written, in file order, with section prefixes and
    marker entries, every reference replaced by that text (the value in effect at that line).
    Admissibility (`DocROk`): names/section names as in the partial theorem. A value is a sequence of
    * literal pieces, which may contain `$`: every `$` must be followed inside the piece by a byte
      other than `{` (`DollarOk`: no `${`, no `$` at the end) — exactly the condition under which the
      scan steps over a `$` and `qstrreplace` copies it, so a literal `$` survives unchanged;
    * references `${name}` / `${%ENV}` / `${!cmd}` (`Seg.tok`);
    * references nested one level `${pre${inner}post}` (`Seg.nest`): the code resolves the innermost
      `${inner}` first (to a text without `$ { }`), rescans, and then resolves the composed name
      `pre·value(inner)·post` — modelled and proved as the code does it (two substitution rounds);
    substituted texts satisfy `DollarOk` (so nothing of them is rescanned as a reference) and have no
    NUL; reference names contain no `$ { }`; at most `_MAX_EXPANSIONS` substitution rounds
    (`countTok`: one per reference, two per nested one) and `_MAX_VALUESIZE` bytes per value (beyond
    these the repaired code drops the entry with ELOOP).
    Not covered by a theorem: deeper nesting, a `${` without closing `}` (the scan stops there and
    leaves the rest unexpanded), substituted texts that themselves contain `${` (rescanned by the
    code) — in the generated documents of the correspondence (checks/c20.py, `ini-grammar`). -/
theorem ini_roundtrip (w : Ini.World) (sep : UInt8) (hsep : Str.isWs sep = false) (hs0 : sep ≠ 0)
    (items : List (Ini.ItemR × Ini.Lay)) (finalNl : Bool) (hok : Ini.DocROk w sep none [] items) :
    Ini.parseStr w sep (Ini.renderDocR sep items finalNl) =
      .ok (Ini.expected none (items.map (·.1.meaning))) :=
  Ini.parseStr_renderR w sep hsep hs0 items finalNl hok

/-- non-vacuity: `a=1` followed by `b=${a}x` is an admissible document (the reference resolves in the
    table built by the first line) -/
example (w : Ini.World) : Ini.DocROk w 61 none []
    [(.entry [97] [.lit [49]], {}), (.entry [98] [.tok [97] [49], .lit [120]], {})] := by
  simp [Ini.DocROk, Ini.ItemROk, Ini.LayOk, Ini.LayWs, Ini.NoByte, Ini.Tight, Ini.SegOk, Ini.DollarOk, Ini.NameOk, Ini.renderSegs,
    Ini.Seg.render, Ini.tokStr, Ini.countTok, Ini.Seg.isTok, Ini.bound, Ini.segBound, Ini.Seg.final, Str.isWs,
    Ini.entriesOf, Ini.ItemR.meaning, Ini.finalSegs, Ini.resolve, Ini.tblGet, Ini.sectAfter,
    Generated.Conf.maxExpansions, Generated.Conf.maxValueSize]
  decide

/-- non-vacuity with a literal `$` and a nested reference: `a=b`, `pb=1`, `c=$5 ${p${a}}`
    (the value of `c` is `$5 1`) -/
example (w : Ini.World) : Ini.DocROk w 61 none []
    [(.entry [97] [.lit [98]], {}), (.entry [112, 98] [.lit [49]], {}),
     (.entry [99] [.lit [36, 53, 32], .nest [112] [97] [98] [] [49]], {})] := by
  simp [Ini.DocROk, Ini.ItemROk, Ini.LayOk, Ini.LayWs, Ini.NoByte, Ini.Tight, Ini.SegOk, Ini.DollarOk, Ini.NameOk,
    Ini.renderSegs, Ini.Seg.render, Ini.tokStr, Ini.countTok, Ini.Seg.weight, Ini.bound, Ini.segBound, Ini.Seg.final,
    Str.isWs, Ini.entriesOf, Ini.ItemR.meaning, Ini.finalSegs, Ini.resolve, Ini.tblGet, Ini.sectAfter,
    Generated.Conf.maxExpansions, Generated.Conf.maxValueSize]

/-- ini_roundtrip_partial (the reference-free special case, kept for its simpler hypotheses): for every document of the reference-free grammar (blank lines, comments,
    `[section]` / `[]` headers, `name sep value` entries), every separator that is not NUL and not white
    space, every layout (arbitrary blank/tab/CR runs around every token, optional final newline)
    and every outside world, `qconfig_parse_str` yields exactly the entries written, in file
    order, keys prefixed with `section.`, plus the marker entry `section.` = `section`; comments
    and blank lines contribute nothing. -/
theorem ini_roundtrip_partial (w : Ini.World) (sep : UInt8) (hsep : Str.isWs sep = false) (hs0 : sep ≠ 0)
    (items : List (Ini.Item × Ini.Lay)) (finalNl : Bool)
    (hok : ∀ x ∈ items, Ini.ItemOk sep x.1 ∧ Ini.LayOk x.2) :
    Ini.parseStr w sep (Ini.renderDoc sep items finalNl) = .ok (Ini.expected none (items.map (·.1))) :=
  Ini.parseStr_render w sep hsep hs0 items finalNl hok

/-- non-vacuity: ` [ net ] \r`, `# c`, `port = 80` is an admissible document for `=` -/
example : ∀ x ∈ [((Ini.Item.sect [110, 101, 116]), ({ a := [32], b := [32], c := [32], d := [32, 13] } : Ini.Lay)),
      (Ini.Item.comment [32, 99], {}), (Ini.Item.entry [112, 111, 114, 116] [56, 48], { b := [32], c := [32] })],
    Ini.ItemOk 61 x.1 ∧ Ini.LayOk x.2 := by
  intro x hx
  simp only [List.mem_cons, List.not_mem_nil, or_false] at hx
  rcases hx with rfl | rfl | rfl <;>
    simp [Ini.ItemOk, Ini.LayOk, Ini.NoByte, Ini.Tight, Ini.LayWs, Str.isWs]

/-
  ac_accept_iff / ac_callbacks (FULL statement, proved below; lemmas in Conf/AconfNested*.lean):
    ∀ table flags defcb cbFail (d : AcDoc),  d built from blank lines, comments, directives and
      ARBITRARILY NESTED sections `<open> body </close>` whose close tag names the section (`DocOk`),
      every layout (white space around the brackets, between the words, quoting styles, escapes),
      every rendered line shorter than MAX_LINESIZE − 1  →
      parse (renderAc d) =
        (callbacks table d,  if Conforms table flags d then count = directives + 2 · sections
                             else −1 with the line of the first offence)
    where `callbacks` are all callbacks of `d` in file order if `d` conforms, else those before the
    first offence (plus the refusing callback if the offence is a refusal). Each callback carries
    otype, the enclosing section's id, the OR of the ids of all enclosing sections (root included),
    the nesting level, the chain of enclosing directives, and the tokenized/normalised argv; the
    close callback of a registered section carries the OPENING directive's data.
  More general than announced: nesting depth is not a hypothesis (opening a section at level 255 is
  an offence of the document, reported at that line), and refusing callbacks are included.
  What the declarative side has to say because the C code does it (see `judgeLine`, `judgeClose`):
    * a section whose name is NOT registered (accepted through the default handler or
      QAC_IGNOREUNKNOWN) is entered with the id of the last registered section opened before on the
      same level (0 if none) — `newsectionid` is only assigned for registered options;
    * the close callback of such an unregistered section is the default handler called with the
      CLOSE tag's own data (inner context, the close tag's words), not the opening directive's.
  Malformed nesting (a section still open at the end of the input, a closing tag that closes
  nothing) is `ac_malformed` below; a last line without `\n` is `ac_no_final_newline`.
  Over-long lines (after the repair: the rest of a line that does not fit into the buffer is consumed):
  a comment of any length is ignored (`ac_long_comment_ignored`; `FLineOk` has no bound for comments),
  any other line longer than MAX_LINESIZE − 1 bytes is the error of that line
  (`ac_long_directive_rejected`, `ac_long_line_error`, constructor `MDoc.tooLong` of `ac_malformed`).
  Directive lines and section tags of the ACCEPTED documents are shorter than MAX_LINESIZE − 1
  (`FLineOk`, `OpenOk`, `CloseOk`): that hypothesis is needed there, longer ones are rejected.
-/

/-- ac_callbacks: for every option table, flags, default-handler setting, callback-refusal predicate
    and every well-formed document with arbitrarily nested sections in every layout, `parse` makes
    exactly the callbacks `callbacks cfg d` (= `walk`: file order, each with otype, section id,
    accumulated section bits, level, parent chain and normalised argv; stopping at the first
    offence) and returns `directives + 2·sections`, or −1 with the line of the first offence -/
theorem ac_callbacks (cfg : Cfg) (d : AcDoc) (hok : DocOk cfg.ci d) :
    (parse cfg (renderAc d)).map (fun x => (x.1, x.2.toF)) =
      .ok (callbacks cfg d,
        match firstOffenceLine cfg d with
        | none => .count (d.directives + 2 * d.sections)
        | some i => .errLine i) := by
  rw [parse_nested cfg d hok, specNested_eq]
  rfl

/-- ac_accept_iff: the document is accepted — with all its callbacks and the count
    `directives + 2·sections` — exactly when every line conforms to the declarations (`Conforms`:
    scope, argument count, argument types, registered or tolerated name, no refusing callback, no
    section opened at level 255); otherwise `parse` fails at the first offending line `i`, one of
    the document's lines, after the callbacks made before it -/
theorem ac_accept_iff (cfg : Cfg) (d : AcDoc) (hok : DocOk cfg.ci d) :
    (Conforms cfg d Ctx.root 0 →
      (parse cfg (renderAc d)).map (fun x => (x.1, x.2.toF)) =
        .ok (callbacks cfg d, .count (d.directives + 2 * d.sections))) ∧
    (¬ Conforms cfg d Ctx.root 0 →
      ∃ i, firstOffenceLine cfg d = some i ∧ 1 ≤ i ∧ i ≤ d.lines ∧
        (parse cfg (renderAc d)).map (fun x => (x.1, x.2.toF)) = .ok (callbacks cfg d, .errLine i)) := by
  have hcb := ac_callbacks cfg d hok
  have hc := walk_conforms cfg d Ctx.root 0
  refine ⟨?_, ?_⟩
  · intro h
    have : firstOffenceLine cfg d = none := hc.mpr h
    rw [hcb, this]
  · intro h
    cases ho : firstOffenceLine cfg d with
    | none => exact absurd (hc.mp ho) h
    | some i =>
      have hb := walk_bound cfg d Ctx.root 0 i ho
      exact ⟨i, rfl, hb.1, hb.2, by rw [hcb, ho]⟩

/-- ac_accept_iff, as an equivalence on the return value: `parse` returns a count iff the document
    conforms -/
theorem ac_accept_iff_count (cfg : Cfg) (d : AcDoc) (hok : DocOk cfg.ci d) :
    (∃ evs n, parse cfg (renderAc d) = .ok (evs, .count n)) ↔ Conforms cfg d Ctx.root 0 := by
  obtain ⟨h1, h2⟩ := ac_accept_iff cfg d hok
  constructor
  · rintro ⟨evs, n, hp⟩
    apply Classical.byContradiction
    intro hn
    obtain ⟨i, _, _, _, h⟩ := h2 hn
    rw [hp] at h
    simp [Except.map, Res.toF] at h
  · intro hc
    have h := h1 hc
    cases hp : parse cfg (renderAc d) with
    | error f => rw [hp] at h; simp [Except.map] at h
    | ok x =>
      obtain ⟨evs, r⟩ := x
      rw [hp] at h
      cases r with
      | count n => exact ⟨evs, n, rfl⟩
      | err l m => simp [Except.map, Res.toF] at h

/-- ac_malformed (ac_accept_iff / ac_callbacks for malformed nesting): for every table, flags,
    default-handler setting and callback-refusal predicate and every document of the grammar `MDoc`
    — well-formed text interleaved with opening tags of sections that are never closed, possibly
    ending in a closing tag that closes nothing (top level, or another name than the innermost open
    section) followed by ARBITRARY text — `parse` makes exactly the callbacks of the well-formed
    parts and of the opening tags, in file order, up to the first offence (`walkM`), and fails with
    the line of that offence: the first offending line of a well-formed part, a non-conforming /
    refused / too deeply nested opening tag, the closing tag that closes nothing, a non-comment line
    that does not fit into the line buffer (`tooLong`), or, when the
    input ends inside a section, the number of the last line read ("<name> section was not
    closed."). Only `done d` at top level can be accepted (`walkM_err`). -/
theorem ac_malformed (cfg : Cfg) (m : MDoc) (hok : MDocOk cfg.ci m none) :
    (parse cfg (renderM m)).map (fun x => (x.1, x.2.toF)) = .ok (walkM cfg m Ctx.root true 0) := by
  rw [parse_malformed cfg m hok, specM_eq_walkM]
  cases hw : (walkM cfg m Ctx.root true 0).2 with
  | errLine k =>
    have : walkM cfg m Ctx.root true 0 = ((walkM cfg m Ctx.root true 0).1, .errLine k) := by rw [← hw]
    rw [this]; simp
  | count n =>
    have : walkM cfg m Ctx.root true 0 = ((walkM cfg m Ctx.root true 0).1, .count n) := by rw [← hw]
    rw [this]; simp

/-- ac_malformed, the rejection: a document with an unclosed section or a closing tag that closes
    nothing is never accepted — `parse` returns −1 and names a line -/
theorem ac_malformed_rejected (cfg : Cfg) (m : MDoc) (hok : MDocOk cfg.ci m none) (hm : ∀ d, m ≠ .done d) :
    ∃ evs k, (parse cfg (renderM m)).map (fun x => (x.1, x.2.toF)) = .ok (evs, .errLine k) := by
  obtain ⟨k, hk⟩ := walkM_err cfg m Ctx.root true 0 (Or.inr hm)
  refine ⟨(walkM cfg m Ctx.root true 0).1, k, ?_⟩
  rw [ac_malformed cfg m hok, ← hk]

/-- ac_malformed, the two basic shapes at top level with conforming well-formed parts:
    (1) `d` then a closing tag: the callbacks of `d`, error at the tag's line;
    (2) `d`, an accepted opening tag, `body`, end of input: the callbacks of `d`, of the tag and of
        `body`, error at the last line of the input -/
theorem ac_stray_close (cfg : Cfg) (d : AcDoc) (cl : Tag) (tail : Bytes) (hok : MDocOk cfg.ci (.stray d cl tail) none)
    (hc : Conforms cfg d Ctx.root 0) :
    (parse cfg (renderM (.stray d cl tail))).map (fun x => (x.1, x.2.toF)) =
      .ok (callbacks cfg d, .errLine (d.lines + 1)) := by
  rw [ac_malformed cfg _ hok]
  have hw : (walk cfg d Ctx.root 0).2 = none := (walk_conforms cfg d Ctx.root 0).mpr hc
  simp only [walkM, callbacks]
  cases hww : walk cfg d Ctx.root 0 with
  | mk es r => rw [hww] at hw; simp only [] at hw; subst hw; rfl

theorem ac_unclosed (cfg : Cfg) (d body : AcDoc) (o : Tag) (hok : MDocOk cfg.ci (.unclosed d o (.done body)) none)
    (hc : Conforms cfg d Ctx.root 0) (ev : Option Event) (argv : List Bytes) (ns' : Nat)
    (hj : judgeLine cfg Ctx.root Generated.Conf.otypeOpen (nsAfter cfg d Ctx.root 0) o.texts = .pass ev argv ns')
    (hb : Conforms cfg body (Ctx.root.enter ns' argv) 0) :
    (parse cfg (renderM (.unclosed d o (.done body)))).map (fun x => (x.1, x.2.toF)) =
      .ok (callbacks cfg d ++ ev.toList ++ (walk cfg body (Ctx.root.enter ns' argv) 0).1,
           .errLine (d.lines + 1 + body.lines)) := by
  rw [ac_malformed cfg _ hok]
  have hw : (walk cfg d Ctx.root 0).2 = none := (walk_conforms cfg d Ctx.root 0).mpr hc
  have hwb : (walk cfg body (Ctx.root.enter ns' argv) 0).2 = none := (walk_conforms cfg body _ 0).mpr hb
  have hroot : Ctx.root.level ≠ 255 := by decide
  simp only [walkM, callbacks, hroot, if_false, hj]
  cases hww : walk cfg d Ctx.root 0 with
  | mk es r =>
    rw [hww] at hw; simp only [] at hw; subst hw
    cases hwwb : walk cfg body (Ctx.root.enter ns' argv) 0 with
    | mk es2 r2 =>
      rw [hwwb] at hwb; simp only [] at hwb; subst hwb
      simp [FRes.shift]; omega

/-- ac_long_comment_ignored: a comment line of ANY length — white space, a `#` within the first
    `MAX_LINESIZE − 1` bytes, then any text without newline / NUL, e.g. text that looks like a
    registered directive behind the 4095th byte — in any section, terminated by a newline or by the
    end of the file, contributes no callback and counts as exactly one line: the loop continues with
    the text behind its newline and `lineno + 1`. (The document-level theorems `ac_callbacks`,
    `ac_accept_iff`, `ac_malformed` allow such comments too: `FLineOk` puts no bound on a comment's
    length.) -/
theorem ac_long_comment_ignored (cfg : Cfg) (fuel sid : Nat) (parent : Option CbData) (oc ns ln : Nat) (evs : List Event)
    (ws text tail : Bytes) (hws : WsRun ws) (htext : ∀ c ∈ text, c ≠ 10 ∧ c ≠ 0)
    (hlen : ws.length + 1 < Generated.Conf.maxLineSize) (htail : tail = [] ∨ ∃ rest, tail = 10 :: rest)
    (hnl : tail = [] → Generated.Conf.maxLineSize - 1 ≤ (ws ++ [35] ++ text).length) :
    parseInline cfg (fuel + 1) sid parent oc ns ⟨ws ++ [35] ++ text ++ tail, ln, evs⟩ =
      parseInline cfg fuel sid parent oc ns ⟨tail.drop 1, ln + 1, evs⟩ :=
  parseInline_comment cfg fuel sid parent oc ns ln evs ws text tail hws htext hlen htail hnl

/-- ac_long_directive_rejected, at the loop: a line of more than `MAX_LINESIZE − 1` bytes that is no
    comment (directive, section tag, anything whose first non-blank byte is not `#`), in any section,
    with or without a final newline, ends the parse with −1 and the message "Line is too long."
    naming that line; no callback is made for it and the callbacks made before are kept -/
theorem ac_long_line_error (cfg : Cfg) (fuel sid : Nat) (parent : Option CbData) (oc ns ln : Nat) (evs : List Event)
    (line tail : Bytes) (hok : LongOk line) (htail : tail = [] ∨ ∃ rest, tail = 10 :: rest) :
    parseInline cfg (fuel + 1) sid parent oc ns ⟨line ++ tail, ln, evs⟩ =
      .ok (⟨tail.drop 1, ln + 1, evs⟩, .err (ln + 1) (str "Line is too long.")) :=
  parseInline_tooLong cfg fuel sid parent oc ns ln evs line tail hok.1 hok.2.1 hok.2.2 htail

/-- ac_long_directive_rejected, for documents: well-formed conforming text `d` (arbitrary nesting
    inside it), then an over-long non-comment line, then ARBITRARY text: `parse` returns −1 naming
    the line of the over-long line, after exactly the callbacks of `d`. (`ac_malformed` is the same
    statement inside unclosed sections and with non-conforming prefixes.) -/
theorem ac_long_directive_rejected (cfg : Cfg) (d : AcDoc) (line tail : Bytes)
    (hok : MDocOk cfg.ci (.tooLong d line tail) none) (hc : Conforms cfg d Ctx.root 0) :
    (parse cfg (renderM (.tooLong d line tail))).map (fun x => (x.1, x.2.toF)) =
      .ok (callbacks cfg d, .errLine (d.lines + 1)) := by
  rw [ac_malformed cfg _ hok]
  have hw : (walk cfg d Ctx.root 0).2 = none := (walk_conforms cfg d Ctx.root 0).mpr hc
  simp only [walkM, callbacks]
  cases hww : walk cfg d Ctx.root 0 with
  | mk es r => rw [hww] at hw; simp only [] at hw; subst hw; rfl

/-- non-vacuity: `A` followed by 4096 `a` is a line that does not fit and is no comment -/
example : LongOk (65 :: List.replicate 4096 97) := by
  refine ⟨?_, ?_, ?_⟩
  · intro c hc
    rcases List.mem_cons.mp hc with rfl | h
    · decide
    · rw [List.eq_of_mem_replicate h]; decide
  · rw [List.length_cons, List.length_replicate]; decide
  · have hk : Generated.Conf.maxLineSize - 1 = 4094 + 1 := by decide
    rw [hk, List.take_succ_cons]
    obtain ⟨ys, hy⟩ := Ini.trim_head [] ((List.replicate 4096 97).take 4094) 65 (by simp) (by decide)
    simp only [List.nil_append] at hy
    rw [hy]; simp

/-- ac_no_final_newline: if the text after the last `\n` of a file is non-empty, has no `\n` and is
    shorter than MAX_LINESIZE − 1, `parse` returns exactly what it returns for the file with a
    terminating newline: the same callbacks, the same count or the same error line and message.
    With `ac_callbacks` / `ac_malformed`: every statement above also holds for the rendered document
    without its final LF. -/
theorem ac_no_final_newline (cfg : Cfg) (pre last : Bytes) (hpre : Hpre pre) (hlast : Hlast last) :
    parse cfg (pre ++ last) = parse cfg (pre ++ last ++ [10]) :=
  parse_noFinalNewline cfg pre last hpre hlast

theorem ac_callbacks_no_final_newline (cfg : Cfg) (d : AcDoc) (hok : DocOk cfg.ci d) (pre last : Bytes)
    (hd : renderAc d = pre ++ last ++ [10]) (hpre : Hpre pre) (hlast : Hlast last) :
    (parse cfg (pre ++ last)).map (fun x => (x.1, x.2.toF)) =
      .ok (callbacks cfg d,
        match firstOffenceLine cfg d with
        | none => .count (d.directives + 2 * d.sections)
        | some i => .errLine i) := by
  rw [ac_no_final_newline cfg pre last hpre hlast, ← hd]
  exact ac_callbacks cfg d hok

/-- non-vacuity: `<Host a>`, ` <Dir >`, `Port 80`, `</Dir>`, `</ Host>` — two levels of nesting -/
def exDoc : AcDoc :=
  .sect { args := [([], ⟨[72, 111, 115, 116], .bare, []⟩), ([32], ⟨[97], .bare, []⟩)] }
    (.sect { lead := [32], args := [([], ⟨[68, 105, 114], .bare, []⟩)], post := [32] }
      (.line (.dir [([], ⟨[80, 111, 114, 116], .bare, []⟩), ([32], ⟨[56, 48], .bare, []⟩)] []) .nil)
      { args := [([], ⟨[68, 105, 114], .bare, []⟩)] } .nil)
    { pre := [32], args := [([], ⟨[72, 111, 115, 116], .bare, []⟩)] } .nil

example : DocOk false exDoc := by
  simp [exDoc, DocOk, OpenOk, CloseOk, TagOk, ArgsOk, FLineOk, LineOk, WsRun, Admissible, Tag.texts, renderArg,
    renderOpen, renderClose, renderArgs, isBlank, Str.isWs, nameEq, Generated.Conf.maxLineSize]

/-- non-vacuity of `MDocOk`: `<Host a>`, `Port 80` and then the end of the input; and `Port 80`,
    `</Host>` followed by arbitrary bytes -/
example : MDocOk false (.unclosed .nil { args := [([], ⟨[72, 111, 115, 116], .bare, []⟩), ([32], ⟨[97], .bare, []⟩)] }
    (.done (.line (.dir [([], ⟨[80, 111, 114, 116], .bare, []⟩), ([32], ⟨[56, 48], .bare, []⟩)] []) .nil))) none := by
  simp [MDocOk, DocOk, OpenOk, TagOk, ArgsOk, FLineOk, LineOk, WsRun, Admissible, Tag.texts, renderArg,
    renderOpen, renderArgs, isBlank, Str.isWs, Generated.Conf.maxLineSize]

example : MDocOk false (.stray (.line (.dir [([], ⟨[80, 111, 114, 116], .bare, []⟩), ([32], ⟨[56, 48], .bare, []⟩)] []) .nil)
    { args := [([], ⟨[72, 111, 115, 116], .bare, []⟩)] } [0, 60, 255]) none := by
  simp [MDocOk, DocOk, CloseOk, TagOk, ArgsOk, FLineOk, LineOk, WsRun, Admissible, Tag.texts, renderArg,
    renderClose, renderArgs, isBlank, Str.isWs, closesNothing, Generated.Conf.maxLineSize]

/-- a table for it: `Host` (1 argument, section id 2, allowed at ROOT), `Dir` (no argument, id 4,
    allowed in section 2), `Port` (1 INT argument, allowed in section 4) -/
def exCfg : Cfg :=
  { opts := [⟨[72, 111, 115, 116], 1, true, 2, 1⟩, ⟨[68, 105, 114], 0, true, 4, 2⟩,
             ⟨[80, 111, 114, 116], 1 ||| Generated.Conf.qacA1Int, true, 0, 4⟩],
    defcb := false, flags := 0, cbFail := fun _ => none }

/-- ac_line_number_range: the line number of an error message and the returned count are natural
    numbers in the model; for EVERY table and file they are at most the number of bytes of the file
    (every line read consumes at least one byte), so they are the numbers the C fields hold - without
    wrap-around - whenever the file is shorter than what a signed field of the CURRENT width `w` of
    `qaconf_t.lineno` can count (`w` is regenerated from the header: Shapes.Conf.widths_as_modelled
    says 4 bytes, i.e. files below 2^31 bytes; a narrower field shrinks the range of every theorem
    that names a line: ac_malformed, ac_long_line_error, ac_accept_iff …). -/
theorem ac_line_number_range (cfg : Cfg) (file : Bytes) (evs : List Event) (r : Res)
    (h : parse cfg file = .ok (evs, r)) :
    ((∀ l m, r = .err l m → l ≤ file.length) ∧ (∀ n, r = .count n → n ≤ file.length)) ∧
    ∀ w, ("aconf_lineno", w) ∈ Generated.Shapes.confWidths → file.length < 2 ^ (8 * w - 1) →
      (∀ l m, r = .err l m → l < 2 ^ (8 * w - 1)) ∧ (∀ n, r = .count n → n < 2 ^ (8 * w - 1)) := by
  have hb := parse_bound cfg file evs r h
  refine ⟨hb, fun w _ hsz => ⟨fun l m hr => ?_, fun n hr => ?_⟩⟩
  · exact Nat.lt_of_le_of_lt (hb.1 l m hr) hsz
  · exact Nat.lt_of_le_of_lt (hb.2 n hr) hsz

/-- the width that instantiates it today: `int lineno` -/
theorem ac_line_number_width : ("aconf_lineno", 4) ∈ Generated.Shapes.confWidths := by decide

open Generated.Conf in
example : Conforms exCfg exDoc Ctx.root 0 := by
  simp [Conforms, exDoc, exCfg, judgeLine, judgeClose, Cfg.ci, Ctx.root, Ctx.enter, Ctx.data, Tag.texts, nameEq,
    checkArgsSpec, argType, classify, qacSectionAll, qacSectionRoot, qacTakeAll, qacCaseInsensitive, otypeOpen,
    otypeOption, qacA1Int, qacAAInt, qacAAFloat, qacAABool, maxTypeCheck, qacA1Float, qacA1Bool, stripMinus, isDigit,
    List.dropWhile, List.takeWhile]

/-- ac_accept_iff_partial + ac_callbacks_partial (flat documents): for every option table, flags,
    default-handler setting and every flat document in every layout (blanks/tabs between arguments,
    every quoting style and optional escape per argument, trailing white space, comment and blank
    lines), `parse` makes exactly the callbacks `specRun` lists — one per conforming directive, in
    file order, with level 0, section bits ROOT, no parents and the arguments split, unquoted and
    BOOL-normalised — and returns the number of directives, or −1 with the line number of the first
    directive that violates its declared scope, argument count or argument types (documented
    classifiers `classify` / `boolSpec`) or is not registered (without handler / ignore flag). -/
theorem ac_accept_iff_partial (cfg : Cfg) (hcb : ∀ d, cfg.cbFail d = none) (lines : List FLine)
    (hok : ∀ l ∈ lines, FLineOk l) :
    (parse cfg (renderFlat lines)).map (fun x => (x.1, x.2.toF)) = .ok (specRun cfg lines 0 0 []) :=
  parse_flat cfg hcb lines hok

/-- reading of the result: accepted with the number of directive lines exactly when no directive is
    rejected by `judgeDir`; otherwise the error names the first rejected line (1-based) -/
theorem ac_accept_iff_result (cfg : Cfg) (lines : List FLine) :
    (specRun cfg lines 0 0 []).2 =
      match firstOffence cfg lines with
      | some i => .errLine (i + 1)
      | none => .count (lines.filter isDir).length := by
  rw [specRun_result cfg lines 0 0 []]
  cases firstOffence cfg lines with
  | none => simp
  | some i => simp

/-- non-vacuity: `Listen 80` followed by a CR is an admissible flat line -/
example : FLineOk (.dir [([], ⟨[76, 105, 115, 116, 101, 110], .bare, []⟩), ([32], ⟨[56, 48], .bare, []⟩)] [13]) := by
  refine ⟨by simp, ⟨?_, by decide⟩, ?_, ?_, ?_, by decide⟩
  · intro x hx
    simp only [List.mem_cons, List.not_mem_nil, or_false] at hx
    rcases hx with rfl | rfl <;> refine ⟨by decide, ⟨by decide, ?_⟩⟩ <;> intro _ <;>
      exact ⟨by decide, by decide, by decide, by decide⟩
  · intro c hc; simp at hc; subst hc; decide
  · intro x hx
    simp only [List.mem_cons, List.not_mem_nil, or_false] at hx
    rcases hx with rfl | rfl <;> exact ⟨by decide, fun _ => by decide⟩
  · intro a ha; simp at ha; subst ha; exact ⟨by decide, by decide⟩

/-! ### the parser object across calls (`qaconf_t` keeps filepath, lineno, errstr) -/

/-- A `qaconf_t` that has been used before - any sequence of earlier `parse` calls (any paths, any
    contents, accepted or rejected) and `reseterror` calls - delivers for the next document exactly
    what a fresh object delivers: the same callbacks in the same order and the same result, i.e.
    the count, or the line and message of the first offence counted FROM THE START OF THIS FILE.
    (`ac_accept_iff`, `ac_callbacks`, ... are stated for `parse`; this lifts them to every call on
    every object.) -/
theorem ac_reused_object_same_reading (cfg : Cfg) (us : List Use) (path file : Bytes) :
    ((Obj.uses cfg Obj.fresh us).parse cfg path file).map (fun x => (x.2.1, x.2.2)) = parse cfg file :=
  Obj.parse_after_history cfg us path file

/-- after a rejected document `errmsg` names the path of THIS call, the line of ITS first offence
    and its message, whatever the object held before -/
theorem ac_errmsg_names_this_call (cfg : Cfg) (us : List Use) (path file : Bytes) {o' : Obj}
    {evs : List Event} {l : Nat} {m : Bytes}
    (h : (Obj.uses cfg Obj.fresh us).parse cfg path file = Except.ok (o', evs, Res.err l m)) :
    o'.errstr = some (path, l, m) ∧ parse cfg file = Except.ok (evs, Res.err l m) :=
  Obj.errmsg_of_failure cfg _ path file h

/-- after `reseterror` and an accepted document there is no error text -/
theorem ac_no_stale_errmsg (cfg : Cfg) (us : List Use) (path file : Bytes) {o' : Obj}
    {evs : List Event} {n : Nat}
    (h : (Obj.uses cfg Obj.fresh us).reseterror.parse cfg path file = Except.ok (o', evs, Res.count n)) :
    o'.errstr = none :=
  Obj.errmsg_after_reset_success cfg _ path file h

-- non-vacuity: an object that has read a six-line file of comments reads `x` like a fresh one
example (cfg : Cfg) (file : Bytes) :
    ((Obj.uses cfg Obj.fresh [.parse (str "p") (str "# a\n\n# b\n\n\n# c\n"), .reset]).parse cfg (str "p") file).map
      (fun x => (x.2.1, x.2.2)) = parse cfg file :=
  ac_reused_object_same_reading cfg _ _ file

end Qlibc.Props.C20

/-
  C20 — configuration parsers deliver exactly what the file says: property theorems.
  Models: Conf/Aconf.lean (qaconf.c), Conf/Ini.lean (qconfig.c); lemmas in Conf/Aconf*.lean.
-/
import QlibcModel.Conf.Ini
import QlibcModel.Conf.Aconf
import QlibcModel.Conf.AconfNum
import QlibcModel.Conf.AconfRender
import QlibcModel.Conf.IniRound
import QlibcModel.Conf.IniRefs
import QlibcModel.Conf.AconfFlat
import QlibcModel.Conf.AconfNested
namespace Qlibc.Props.C20
open Qlibc Qlibc.Conf Qlibc.Conf.Aconf

/-- K-gen tie: the constants the models use are the ones of the current headers/sources -/
theorem consts_tie :
    Generated.Conf.otypeOption = 0 ∧ Generated.Conf.otypeOpen = 1 ∧ Generated.Conf.otypeClose = 2 ∧
    Generated.Conf.qacTakeAll = 255 ∧ Generated.Conf.qacSectionAll = 0 ∧ Generated.Conf.qacSectionRoot = 1 ∧
    Generated.Conf.qacA1Int = 2 ^ 8 ∧ Generated.Conf.qacA1Float = 2 ^ 16 ∧ Generated.Conf.qacA1Bool = 2 ^ 24 ∧
    Generated.Conf.qacAAInt = 2 ^ 13 ∧ Generated.Conf.qacAAFloat = 2 ^ 21 ∧ Generated.Conf.qacAABool = 2 ^ 29 ∧
    Generated.Conf.maxTypeCheck = 5 := by decide

/-- ac_bool: `_is_str_bool` is exactly the documented reading — true/on/yes/1 and false/off/no/0
    in any letter case, everything else is no boolean -/
theorem ac_bool (s : Bytes) : isStrBool s = boolSpec s := isStrBool_eq_boolSpec s

/-- ac_bool, as the parser applies it: a BOOL-typed argument is replaced by "1" / "0" when it is one
    of the documented spellings (any case) and the line is rejected otherwise -/
theorem ac_bool_rewrite (take j : Nat) (s : Bytes) (h : argType take j = 3) :
    checkArgs take j [s] =
      if s.map lower ∈ trueWords then .ok [[49]]
      else if s.map lower ∈ falseWords then .ok [[48]]
      else .error (.bool j) := by
  simp only [checkArgs, h]
  rw [isStrBool_eq_boolSpec]
  unfold boolSpec
  by_cases h1 : s.map lower ∈ trueWords
  · simp [h1, Except.map]
  · by_cases h2 : s.map lower ∈ falseWords <;> simp [h1, h2, Except.map]

/-- ac_number: `_is_str_number` = the documented classifier (1: `-?digits`, 2: `-?digits.digits`,
    0 otherwise — so `-`, `.5`, `5.`, `1.2.3`, `1e5`, the empty string are no numbers) -/
theorem ac_number (s : Bytes) : isStrNumber s = classify s := isStrNumber_eq_classify s

/-- ac_tokenize: for every non-empty argument list, every quoting style per argument (bare, single,
    double), every choice of optional escapes and every blank/tab layout, the tokenizer returns
    exactly the arguments -/
theorem ac_tokenize (l : List (Bytes × RArg)) (hne : l ≠ []) (hok : LineOk l) :
    tokenize (renderArgs l) = .ok (.args (l.map (·.2.text))) := tokenize_render l hne hok

/-- non-vacuity: `Listen  "a \"b\"" 'c\'' d` is a well-formed line with four arguments -/
example : LineOk [([], ⟨[76], .bare, []⟩), ([32, 9], ⟨[97, 32, 34, 98, 34], .double, []⟩),
    ([32], ⟨[99, 39], .single, [true]⟩), ([9], ⟨[100], .bare, []⟩)] := by
  refine ⟨?_, ?_⟩
  · intro x hx
    simp only [List.mem_cons, List.not_mem_nil, or_false] at hx
    rcases hx with rfl | rfl | rfl | rfl <;> refine ⟨by decide, ⟨by decide, ?_⟩⟩ <;> intro h <;>
      first | exact ⟨by decide, by decide, by decide, by decide⟩ | cases h
  · decide

/-- ini_roundtrip: for every document whose entry values are made of literal pieces and references
    `${name}` / `${%ENV}` / `${!cmd}`, every separator that is not white space, every layout and
    every outside world: if at each line every reference resolves — `resolve` on the table built by
    the lines before it, i.e. the LATEST earlier definition of the full key (`tblGet` searches
    backward), the environment, or the command stub — to the annotated text, then
    `qconfig_parse_str` yields exactly the entries written, in file order, with section prefixes and
    marker entries, every reference replaced by that text (the value in effect at that line).
    Admissibility (`DocROk`): names/section names as in the partial theorem; literal pieces and
    substituted texts contain no `$` (so nothing is rescanned) and no NUL; reference names contain
    no `$ { }`; at most `_MAX_EXPANSIONS` references and `_MAX_VALUESIZE` bytes per value (beyond
    these the repaired code drops the entry with ELOOP).
    Not covered by a theorem: nested references `${a${b}}` and literal `$` characters — both are in
    the generated documents of the correspondence (checks/c20.py, stream `ini-grammar`). -/
theorem ini_roundtrip (w : Ini.World) (sep : UInt8) (hsep : Str.isWs sep = false)
    (items : List (Ini.ItemR × Ini.Lay)) (finalNl : Bool) (hok : Ini.DocROk w sep none [] items) :
    Ini.parseStr w sep (Ini.renderDocR sep items finalNl) =
      .ok (Ini.expected none (items.map (·.1.meaning))) :=
  Ini.parseStr_renderR w sep hsep items finalNl hok

/-- non-vacuity: `a=1` followed by `b=${a}x` is an admissible document (the reference resolves in the
    table built by the first line) -/
example (w : Ini.World) : Ini.DocROk w 61 none []
    [(.entry [97] [.lit [49]], {}), (.entry [98] [.tok [97] [49], .lit [120]], {})] := by
  simp [Ini.DocROk, Ini.ItemROk, Ini.LayOk, Ini.LayWs, Ini.NoByte, Ini.Tight, Ini.SegOk, Ini.NameOk, Ini.renderSegs,
    Ini.Seg.render, Ini.tokStr, Ini.countTok, Ini.Seg.isTok, Ini.bound, Ini.segBound, Ini.Seg.final, Str.isWs,
    Ini.entriesOf, Ini.ItemR.meaning, Ini.finalSegs, Ini.resolve, Ini.tblGet, Ini.sectAfter,
    Generated.Conf.maxExpansions, Generated.Conf.maxValueSize]
  decide

/-- ini_roundtrip_partial (the reference-free special case, kept for its simpler hypotheses): for every document of the reference-free grammar (blank lines, comments,
    `[section]` / `[]` headers, `name sep value` entries), every separator that is not white
    space, every layout (arbitrary blank/tab/CR runs around every token, optional final newline)
    and every outside world, `qconfig_parse_str` yields exactly the entries written, in file
    order, keys prefixed with `section.`, plus the marker entry `section.` = `section`; comments
    and blank lines contribute nothing. -/
theorem ini_roundtrip_partial (w : Ini.World) (sep : UInt8) (hsep : Str.isWs sep = false)
    (items : List (Ini.Item × Ini.Lay)) (finalNl : Bool)
    (hok : ∀ x ∈ items, Ini.ItemOk sep x.1 ∧ Ini.LayOk x.2) :
    Ini.parseStr w sep (Ini.renderDoc sep items finalNl) = .ok (Ini.expected none (items.map (·.1))) :=
  Ini.parseStr_render w sep hsep items finalNl hok

/-- non-vacuity: ` [ net ] \r`, `# c`, `port = 80` is an admissible document for `=` -/
example : ∀ x ∈ [((Ini.Item.sect [110, 101, 116]), ({ a := [32], b := [32], c := [32], d := [32, 13] } : Ini.Lay)),
      (Ini.Item.comment [32, 99], {}), (Ini.Item.entry [112, 111, 114, 116] [56, 48], { b := [32], c := [32] })],
    Ini.ItemOk 61 x.1 ∧ Ini.LayOk x.2 := by
  intro x hx
  simp only [List.mem_cons, List.not_mem_nil, or_false] at hx
  rcases hx with rfl | rfl | rfl <;>
    simp [Ini.ItemOk, Ini.LayOk, Ini.NoByte, Ini.Tight, Ini.LayWs, Str.isWs]

/-
  ac_accept_iff / ac_callbacks (FULL statement, proved below; lemmas in Conf/AconfNested*.lean):
    ∀ table flags defcb cbFail (d : AcDoc),  d built from blank lines, comments, directives and
      ARBITRARILY NESTED sections `<open> body </close>` whose close tag names the section (`DocOk`),
      every layout (white space around the brackets, between the words, quoting styles, escapes),
      every rendered line shorter than MAX_LINESIZE − 1  →
      parse (renderAc d) =
        (callbacks table d,  if Conforms table flags d then count = directives + 2 · sections
                             else −1 with the line of the first offence)
    where `callbacks` are all callbacks of `d` in file order if `d` conforms, else those before the
    first offence (plus the refusing callback if the offence is a refusal). Each callback carries
    otype, the enclosing section's id, the OR of the ids of all enclosing sections (root included),
    the nesting level, the chain of enclosing directives, and the tokenized/normalised argv; the
    close callback of a registered section carries the OPENING directive's data.
  More general than announced: nesting depth is not a hypothesis (opening a section at level 255 is
  an offence of the document, reported at that line), and refusing callbacks are included.
  What the declarative side has to say because the C code does it (see `judgeLine`, `judgeClose`):
    * a section whose name is NOT registered (accepted through the default handler or
      QAC_IGNOREUNKNOWN) is entered with the id of the last registered section opened before on the
      same level (0 if none) — `newsectionid` is only assigned for registered options;
    * the close callback of such an unregistered section is the default handler called with the
      CLOSE tag's own data (inner context, the close tag's words), not the opening directive's.
  Not covered by a theorem: a last line without `\n`, over-long (chunked) lines, unclosed or
  mismatched sections (error paths; in the correspondence, checks/c20.py).
-/

/-- ac_callbacks: for every option table, flags, default-handler setting, callback-refusal predicate
    and every well-formed document with arbitrarily nested sections in every layout, `parse` makes
    exactly the callbacks `callbacks cfg d` (= `walk`: file order, each with otype, section id,
    accumulated section bits, level, parent chain and normalised argv; stopping at the first
    offence) and returns `directives + 2·sections`, or −1 with the line of the first offence -/
theorem ac_callbacks (cfg : Cfg) (d : AcDoc) (hok : DocOk cfg.ci d) :
    (parse cfg (renderAc d)).map (fun x => (x.1, x.2.toF)) =
      .ok (callbacks cfg d,
        match firstOffenceLine cfg d with
        | none => .count (d.directives + 2 * d.sections)
        | some i => .errLine i) := by
  rw [parse_nested cfg d hok, specNested_eq]
  rfl

/-- ac_accept_iff: the document is accepted — with all its callbacks and the count
    `directives + 2·sections` — exactly when every line conforms to the declarations (`Conforms`:
    scope, argument count, argument types, registered or tolerated name, no refusing callback, no
    section opened at level 255); otherwise `parse` fails at the first offending line `i`, one of
    the document's lines, after the callbacks made before it -/
theorem ac_accept_iff (cfg : Cfg) (d : AcDoc) (hok : DocOk cfg.ci d) :
    (Conforms cfg d Ctx.root 0 →
      (parse cfg (renderAc d)).map (fun x => (x.1, x.2.toF)) =
        .ok (callbacks cfg d, .count (d.directives + 2 * d.sections))) ∧
    (¬ Conforms cfg d Ctx.root 0 →
      ∃ i, firstOffenceLine cfg d = some i ∧ 1 ≤ i ∧ i ≤ d.lines ∧
        (parse cfg (renderAc d)).map (fun x => (x.1, x.2.toF)) = .ok (callbacks cfg d, .errLine i)) := by
  have hcb := ac_callbacks cfg d hok
  have hc := walk_conforms cfg d Ctx.root 0
  refine ⟨?_, ?_⟩
  · intro h
    have : firstOffenceLine cfg d = none := hc.mpr h
    rw [hcb, this]
  · intro h
    cases ho : firstOffenceLine cfg d with
    | none => exact absurd (hc.mp ho) h
    | some i =>
      have hb := walk_bound cfg d Ctx.root 0 i ho
      exact ⟨i, rfl, hb.1, hb.2, by rw [hcb, ho]⟩

/-- ac_accept_iff, as an equivalence on the return value: `parse` returns a count iff the document
    conforms -/
theorem ac_accept_iff_count (cfg : Cfg) (d : AcDoc) (hok : DocOk cfg.ci d) :
    (∃ evs n, parse cfg (renderAc d) = .ok (evs, .count n)) ↔ Conforms cfg d Ctx.root 0 := by
  obtain ⟨h1, h2⟩ := ac_accept_iff cfg d hok
  constructor
  · rintro ⟨evs, n, hp⟩
    apply Classical.byContradiction
    intro hn
    obtain ⟨i, _, _, _, h⟩ := h2 hn
    rw [hp] at h
    simp [Except.map, Res.toF] at h
  · intro hc
    have h := h1 hc
    cases hp : parse cfg (renderAc d) with
    | error f => rw [hp] at h; simp [Except.map] at h
    | ok x =>
      obtain ⟨evs, r⟩ := x
      rw [hp] at h
      cases r with
      | count n => exact ⟨evs, n, rfl⟩
      | err l m => simp [Except.map, Res.toF] at h

/-- non-vacuity: `<Host a>`, ` <Dir >`, `Port 80`, `</Dir>`, `</ Host>` — two levels of nesting -/
def exDoc : AcDoc :=
  .sect { args := [([], ⟨[72, 111, 115, 116], .bare, []⟩), ([32], ⟨[97], .bare, []⟩)] }
    (.sect { lead := [32], args := [([], ⟨[68, 105, 114], .bare, []⟩)], post := [32] }
      (.line (.dir [([], ⟨[80, 111, 114, 116], .bare, []⟩), ([32], ⟨[56, 48], .bare, []⟩)] []) .nil)
      { args := [([], ⟨[68, 105, 114], .bare, []⟩)] } .nil)
    { pre := [32], args := [([], ⟨[72, 111, 115, 116], .bare, []⟩)] } .nil

example : DocOk false exDoc := by
  simp [exDoc, DocOk, OpenOk, CloseOk, TagOk, ArgsOk, FLineOk, LineOk, WsRun, Admissible, Tag.texts, renderArg,
    renderOpen, renderClose, renderArgs, isBlank, Str.isWs, nameEq, Generated.Conf.maxLineSize]

/-- a table for it: `Host` (1 argument, section id 2, allowed at ROOT), `Dir` (no argument, id 4,
    allowed in section 2), `Port` (1 INT argument, allowed in section 4) -/
def exCfg : Cfg :=
  { opts := [⟨[72, 111, 115, 116], 1, true, 2, 1⟩, ⟨[68, 105, 114], 0, true, 4, 2⟩,
             ⟨[80, 111, 114, 116], 1 ||| Generated.Conf.qacA1Int, true, 0, 4⟩],
    defcb := false, flags := 0, cbFail := fun _ => none }

open Generated.Conf in
example : Conforms exCfg exDoc Ctx.root 0 := by
  simp [Conforms, exDoc, exCfg, judgeLine, judgeClose, Cfg.ci, Ctx.root, Ctx.enter, Ctx.data, Tag.texts, nameEq,
    checkArgsSpec, argType, classify, qacSectionAll, qacSectionRoot, qacTakeAll, qacCaseInsensitive, otypeOpen,
    otypeOption, qacA1Int, qacAAInt, qacAAFloat, qacAABool, maxTypeCheck, qacA1Float, qacA1Bool, stripMinus, isDigit,
    List.dropWhile, List.takeWhile]

/-- ac_accept_iff_partial + ac_callbacks_partial (flat documents): for every option table, flags,
    default-handler setting and every flat document in every layout (blanks/tabs between arguments,
    every quoting style and optional escape per argument, trailing white space, comment and blank
    lines), `parse` makes exactly the callbacks `specRun` lists — one per conforming directive, in
    file order, with level 0, section bits ROOT, no parents and the arguments split, unquoted and
    BOOL-normalised — and returns the number of directives, or −1 with the line number of the first
    directive that violates its declared scope, argument count or argument types (documented
    classifiers `classify` / `boolSpec`) or is not registered (without handler / ignore flag). -/
theorem ac_accept_iff_partial (cfg : Cfg) (hcb : ∀ d, cfg.cbFail d = none) (lines : List FLine)
    (hok : ∀ l ∈ lines, FLineOk l) :
    (parse cfg (renderFlat lines)).map (fun x => (x.1, x.2.toF)) = .ok (specRun cfg lines 0 0 []) :=
  parse_flat cfg hcb lines hok

/-- reading of the result: accepted with the number of directive lines exactly when no directive is
    rejected by `judgeDir`; otherwise the error names the first rejected line (1-based) -/
theorem ac_accept_iff_result (cfg : Cfg) (lines : List FLine) :
    (specRun cfg lines 0 0 []).2 =
      match firstOffence cfg lines with
      | some i => .errLine (i + 1)
      | none => .count (lines.filter isDir).length := by
  rw [specRun_result cfg lines 0 0 []]
  cases firstOffence cfg lines with
  | none => simp
  | some i => simp

/-- non-vacuity: `Listen 80` followed by a CR is an admissible flat line -/
example : FLineOk (.dir [([], ⟨[76, 105, 115, 116, 101, 110], .bare, []⟩), ([32], ⟨[56, 48], .bare, []⟩)] [13]) := by
  refine ⟨by simp, ⟨?_, by decide⟩, ?_, ?_, ?_, by decide⟩
  · intro x hx
    simp only [List.mem_cons, List.not_mem_nil, or_false] at hx
    rcases hx with rfl | rfl <;> refine ⟨by decide, ⟨by decide, ?_⟩⟩ <;> intro _ <;>
      exact ⟨by decide, by decide, by decide, by decide⟩
  · intro c hc; simp at hc; subst hc; decide
  · intro x hx
    simp only [List.mem_cons, List.not_mem_nil, or_false] at hx
    rcases hx with rfl | rfl <;> exact ⟨by decide, fun _ => by decide⟩
  · intro a ha; simp at ha; subst ha; exact ⟨by decide, by decide⟩

end Qlibc.Props.C20

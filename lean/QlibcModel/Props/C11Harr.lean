/-
  C11 — leak freedom as an accounting theorem: static hash table.

  The library owns one block per attached handle and nothing else; every other block it obtains is
  either handed to the caller (`get`: 1, `getnext`: 2) or released before the call returns — under
  every allocation plan.  The harness compares the allocator wrapper's count of live blocks with
  `handles + copies handed out and not yet freed` after EVERY operation and requires 0 at the end.
  Machine-level memory safety (the region is never left: C07, fix 1eb7244 for `remove_by_idx`) is
  sampled by ASan on exactly sized heap regions.
-/
import QlibcModel.HashArr.FaultSpec

namespace Qlibc.Props.C11Harr
open Qlibc Qlibc.HashArr Qlibc.MapFault

/-- every call, under every plan: blocks obtained − blocks released = blocks handed to the caller -/
theorem harr_call_ledger (img : Img) (hw : WF img) (plan : Plan) (op : FOp) (hv : op.valid img.n) :
    ∃ img' out es, stepF plan img op = .ok (img', out, es) ∧ balance es = (out.handed : Int) := by
  obtain ⟨img', out, es, h1, _, _, _, _, _, h7⟩ := stepF_spec hw plan op hv
  exact ⟨img', out, es, h1, h7⟩

/-- … and over whole histories (with or without allocation failures): the allocator's balance is
    exactly the number of blocks handed to the caller — the table itself owns no heap block -/
theorem harr_history_ledger (cap : Nat) (hcap : 1 ≤ cap) (ops : List (Plan × FOp)) (hv : ∀ po ∈ ops, po.2.valid cap) :
    ∃ imgf bal handed, runF (init cap) ops = .ok (imgf, bal, handed) ∧ bal = (handed : Int) := by
  obtain ⟨hw, hn⟩ := wf_init' cap hcap
  obtain ⟨imgf, bal, handed, h1, _, h3, _⟩ := runF_spec ops (init cap) hw (by rw [hn]; exact hv)
  exact ⟨imgf, bal, handed, h1, h3⟩

/-- the handle is one block, `tbl->free` releases it: attach … free balances to zero -/
theorem harr_handle_ledger : balance ((attachF noFail).2 ++ freeEvs) = 0 ∧ balance (attachF noFail).2 = 1 := by
  constructor <;> rfl

/-- the copies belong to the caller: what `get` hands out is one block, `getnext` two, failures none -/
theorem harr_copies_counted (plan : Plan) (img : Img) (name md5 : Bytes) (h32 : Nat) (idx : Int) :
    (∀ o es, getF plan img name h32 md5 = .ok (o, es) → balance es = (o.handed : Int) ∧ attempts es ≤ 1) ∧
    (∀ o i' es, getnextF plan img idx = .ok (o, i', es) → balance es = (o.handed : Int) ∧ attempts es ≤ 2) :=
  ⟨fun o es h => getF_ledger plan img name h32 md5 o es h, fun o i' es h => getnextF_ledger plan img idx o i' es h⟩

end Qlibc.Props.C11Harr

/-
  C17 (parser half) — the INI-style and the Apache-style parser are memory-safe and terminate on
  arbitrary input. To be merged into Props/C17.lean by the integrator.
-/
import QlibcModel.Conf.Ini
import QlibcModel.Conf.Aconf
import QlibcModel.Conf.AconfTok
import QlibcModel.Conf.AconfTotal
import QlibcModel.Conf.IniTotal
namespace Qlibc.Props.C17Parsers
open Qlibc Qlibc.Conf

/-- K-gen tie: the marker bytes the INI model hard-codes are the ones of the current source -/
theorem ini_markers : Generated.Conf.varChar = 36 ∧ Generated.Conf.varOpen = 123 ∧
    Generated.Conf.varClose = 125 ∧ Generated.Conf.varCmd = 33 ∧ Generated.Conf.varEnv = 37 := by decide

/-- aconf_tokenize_safe: for EVERY line content `sp` the raw-buffer tokenizer (cursors `wp1`,
    `wp2` over the `strlen(sp) + 1` bytes of `strdup(sp)`, every read `rd`, every write `wr` /
    `memmoveUp`) returns a result: no read or write at an index beyond the terminator
    (`Fault.oob`), quote/backslash handling never moves a cursor past it, and the loops end within
    their fuel (`Fault.outOfFuel`). -/
theorem aconf_tokenize_safe (sp : Bytes) : ∃ r, Aconf.tokenize sp = .ok r := Aconf.tokenize_total sp

/-- aconf_parse_total: for EVERY option table, flags, callback behaviour and file content the
    parser returns — a count of directives or −1 with the line of the error — together with the
    callbacks made so far: no fault in the line reader, the bracket handling (`ENDING_CHAR` of a
    non-empty string), the tokenizer or the dispatch (`ASSERT(cbdata_parent != NULL)`), and the
    recursion (one level per section, every call consumes at least one byte) ends within the fuel
    `|file| + 1` the wrapper supplies. -/
theorem aconf_parse_total (cfg : Aconf.Cfg) (file : Bytes) : ∃ r, Aconf.parse cfg file = .ok r :=
  Aconf.parse_total cfg file

/-- iniExpand_terminates (full strength, after the repair of `_parsestr`): for EVERY table, outside
    world (`getenv`, command output) and value string — self- and mutually referential ones
    included — the `${…}` expansion returns: the expanded value, or NULL/ELOOP once 100 rounds or
    1 MiB are exceeded. All reads of the two scanning loops stay inside `value ++ [0]` and the
    fuel `|value| + 2` of the outer scan suffices in every round. -/
theorem iniExpand_terminates (w : Ini.World) (t : Ini.Table) (str : Bytes) :
    ∃ r, Ini.parsestr w t str = .ok r := Ini.parsestrLoop_total w t _ str

/-- iniParse_total: `qconfig_parse_str` returns a table for every text, separator and world: the
    line loop consumes at least one byte per round (fuel `|str| + 1`), section handling and the
    name/value split are total, every value expansion terminates (above). -/
theorem iniParse_total (w : Ini.World) (sep : UInt8) (str : Bytes) : ∃ t, Ini.parseStr w sep str = .ok t :=
  Ini.parseStr_total w sep str

/-- K-gen tie for the include splice: directive text, `PATH_MAX`-independent budget -/
theorem ini_include_consts : Ini.directive = Generated.Conf.includeDirective ∧ Generated.Conf.maxIncludes = 256 := by
  decide

/-- iniParseFile_total: `qconfig_parse_file` terminates and delivers a table or an error (NULL) for
    EVERY file system (`path → content`, so also files that include themselves or each other),
    file path, separator and outside world: the `@INCLUDE` loop processes at most `_MAX_INCLUDES`
    directives (then ELOOP), each round is a total function of the text (search for the first
    directive at the beginning of a line, length / path checks, `qfile_load`, splice at that
    position), and the spliced text is parsed by the total `qconfig_parse_str`. The accesses of the
    include loop are list operations in the model (no raw buffer): the PATH_MAX overflow of the
    pinned tree was found and repaired through the harness (ASan), not through this theorem. -/
theorem iniParseFile_total (w : Ini.World) (fs : Bytes → Option Bytes) (sep : UInt8) (path : Bytes) :
    ∃ r, Ini.parseFile w fs sep path = .ok r := Ini.parseFile_total w fs sep path

end Qlibc.Props.C17Parsers

/-
  C17 (parser half) — the INI-style and the Apache-style parser are memory-safe and terminate on
  arbitrary input. To be merged into Props/C17.lean by the integrator.
-/
import QlibcModel.Conf.Ini
import QlibcModel.Conf.Aconf
import QlibcModel.Conf.AconfTok
import QlibcModel.Conf.AconfTotal
import QlibcModel.Conf.IniTotal
import QlibcModel.Conf.FileReadSpec
import QlibcModel.Str.FmtLemmas
namespace Qlibc.Props.C17Parsers
open Qlibc Qlibc.Conf

/-- K-gen tie: the marker bytes the INI model hard-codes are the ones of the current source -/
theorem ini_markers : Generated.Conf.varChar = 36 ∧ Generated.Conf.varOpen = 123 ∧
    Generated.Conf.varClose = 125 ∧ Generated.Conf.varCmd = 33 ∧ Generated.Conf.varEnv = 37 := by decide

/-- aconf_tokenize_safe: for EVERY line content `sp` the raw-buffer tokenizer (cursors `wp1`,
    `wp2` over the `strlen(sp) + 1` bytes of `strdup(sp)`, every read `rd`, every write `wr` /
    `memmoveUp`) returns a result: no read or write at an index beyond the terminator
    (`Fault.oob`), quote/backslash handling never moves a cursor past it, and the loops end within
    their fuel (`Fault.outOfFuel`). -/
theorem aconf_tokenize_safe (sp : Bytes) : ∃ r, Aconf.tokenize sp = .ok r := Aconf.tokenize_total sp

/-- aconf_parse_total: for EVERY option table, flags, callback behaviour and file content the
    parser returns — a count of directives or −1 with the line of the error — together with the
    callbacks made so far: no fault in the line reader, the bracket handling (`ENDING_CHAR` of a
    non-empty string), the tokenizer or the dispatch (`ASSERT(cbdata_parent != NULL)`), and the
    recursion (one level per section, every call consumes at least one byte) ends within the fuel
    `|file| + 1` the wrapper supplies. -/
theorem aconf_parse_total (cfg : Aconf.Cfg) (file : Bytes) : ∃ r, Aconf.parse cfg file = .ok r :=
  Aconf.parse_total cfg file

/-- iniExpand_terminates (full strength, after the repair of `_parsestr`): for EVERY table, outside
    world (`getenv`, command output) and value string — self- and mutually referential ones
    included — the `${…}` expansion returns: the expanded value, or NULL/ELOOP once 100 rounds or
    1 MiB are exceeded. All reads of the two scanning loops stay inside `value ++ [0]` and the
    fuel `|value| + 2` of the outer scan suffices in every round. -/
theorem iniExpand_terminates (w : Ini.World) (t : Ini.Table) (str : Bytes) :
    ∃ r, Ini.parsestr w t str = .ok r := Ini.parsestrLoop_total w t _ str

/-- iniParse_total: `qconfig_parse_str` returns a table for every text, separator and world: the
    line loop consumes at least one byte per round (fuel `|str| + 1`), section handling and the
    name/value split are total, every value expansion terminates (above). -/
theorem iniParse_total (w : Ini.World) (sep : UInt8) (str : Bytes) : ∃ t, Ini.parseStr w sep str = .ok t :=
  Ini.parseStr_total w sep str

/-- K-gen tie for the include splice: directive text, `PATH_MAX`-independent budget -/
theorem ini_include_consts : Ini.directive = Generated.Conf.includeDirective ∧ Generated.Conf.maxIncludes = 256 := by
  decide

/-- iniParseFile_total: `qconfig_parse_file` terminates and delivers a table or an error (NULL) for
    EVERY file system (`path → content`, so also files that include themselves or each other),
    file path, separator and outside world: the `@INCLUDE` loop processes at most `_MAX_INCLUDES`
    directives (then ELOOP), each round is a total function of the text (search for the first
    directive at the beginning of a line, length / path checks, `qfile_load`, splice at that
    position), and the spliced text is parsed by the total `qconfig_parse_str`. The accesses of the
    include loop are list operations in the model (no raw buffer): the PATH_MAX overflow of the
    pinned tree was found and repaired through the harness (ASan), not through this theorem. -/
theorem iniParseFile_total (w : Ini.World) (fs : Bytes → Option Bytes) (sep : UInt8) (path : Bytes) :
    ∃ r, Ini.parseFile w fs sep path = .ok r := Ini.parseFile_total w fs sep path

/-- fmt_total: the retry loop of DYNAMIC_VSPRINTF - the macro behind qaconf's error message
    (`path:line Unregistered option '…'.` …) and, through `qstrdupf`, behind qconfig's `section.key`
    names - terminates for EVERY formatted text `out`, of any length (4096 and 8192 bytes included):
    within `|out| + 1` rounds a block of `sz > |out|` bytes is reached (1024 doubled), and it holds
    exactly the text and its terminator. No write leaves a block (`wrN` is checked). That the macro
    of the current header IS this loop is the obligation Shapes.Conf.fmt_macro_as_modelled. -/
theorem fmt_total (out : Bytes) :
    ∃ (sz : Nat) (allocs : List Nat), out.length < sz ∧
      Str.dynVsprintf 2 out (out.length + 1) 1024 []
        = .ok (out ++ 0 :: List.replicate (sz - (out.length + 1)) Str.fillByte, allocs) :=
  Str.dynVsprintf_top 1024 2 (by omega) (by omega) out

/-- the same through `qstrdupf` (C19 dupf_eq): exactly the text and its terminator are returned -/
theorem fmt_dup_total (out : Bytes) (ho : Str.NulFree out) :
    ∃ allocs, Str.qstrdupfG 1024 2 out = .ok (out ++ [0], allocs) :=
  Str.qstrdupf_correct 1024 2 (by omega) (by omega) out ho

/-- qfile_read_total: `qfile_read(fp, nbytes)` - reached from every `${!command}` of an INI value
    through `qsyscmd` - for EVERY stream content and EVERY `nbytes` (NULL, 0 = no limit, n): no read
    or write outside the current block (first block `memsize + 1` bytes, replaced by one of
    `2 * memsize + 1` bytes when `c_count == memsize - 1`: lengths 1023, 1024, 2047, 2048, … are not
    special), NULL for an empty stream, otherwise the bytes taken, their terminator right behind them,
    and their count. The stream is read with `fgetc`: there is no short-read schedule to quantify over. -/
theorem qfile_read_total (nbytes : Option Nat) (inp : Bytes) :
    ∃ pad, FileRead.qfileRead nbytes inp
      = .ok (if inp = [] then none
             else some (FileRead.taken nbytes inp ++ 0 :: pad, (FileRead.taken nbytes inp).length)) :=
  FileRead.qfileRead_spec nbytes inp

/-- what `taken` is: everything without a limit, the first n bytes with one -/
theorem qfile_read_taken (inp : Bytes) (n : Nat) :
    FileRead.taken none inp = inp ∧ FileRead.taken (some 0) inp = inp ∧
    FileRead.taken (some (n + 1)) inp = inp.take (n + 1) := by
  simp [FileRead.taken, FileRead.want]

end Qlibc.Props.C17Parsers

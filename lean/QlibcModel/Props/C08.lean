/-
  C08 — the list table is an exact ordered multimap under every option combination.

  Statements are about the mechanism-level model `Qlibc.ListTbl` (QlibcModel/ListTbl/Model.lean, tied
  to src/containers/qlisttbl.c by the correspondence harness) for an ARBITRARY hash function `h`, for
  all 16 option vectors (`t.opts` is universally quantified), every key/value content.
  `entries t` is the ordered multimap a table represents (first → last); `dir o l` is `l` in lookup
  direction; `keyIs o k e` says the key of entry `e` equals `k` (bytewise, or ignoring ASCII case);
  `Inv h t` is the representation invariant, which every reachable table satisfies
  (`reachable_inv`).
-/
import QlibcModel.ListTbl.History
import QlibcModel.ListTbl.UrlRt
import QlibcModel.ListTbl.Args
import QlibcModel.ListTbl.Alias
import QlibcModel.ListTbl.Fold
import QlibcModel.HashTbl.DecLemmas
import QlibcModel.Shapes.Listtbl
import QlibcModel.Shapes.Encode

namespace Qlibc.Props.C08
open Qlibc Qlibc.ListTbl

variable (h : Bytes → UInt32)

/-- put of a non-empty value succeeds; a unique table first drops all entries with an equal key;
    the new entry goes to the bottom, or to the top when so configured -/
theorem put_spec {t : Tbl} (I : Inv h t) (k v : Bytes) (hv : v ≠ []) :
    ∃ t', put t k (h k) v = .ok (true, t') ∧ Inv h t' ∧ t'.opts = t.opts ∧
      entries t' =
        (if t.opts.insertTop
          then (k, v) :: (if t.opts.unique then (entries t).filter (fun e => !keyIs t.opts k e) else entries t)
          else (if t.opts.unique then (entries t).filter (fun e => !keyIs t.opts k e) else entries t) ++ [(k, v)]) :=
  put_eq h I k v hv

/-- get returns the value of the first match in lookup direction (or NULL/ENOENT) -/
theorem get_spec {t : Tbl} (I : Inv h t) (k : Bytes) :
    get t k (h k) = ((dir t.opts (entries t)).find? (keyIs t.opts k)).map (·.2) := get_eq h I k

/-- getmulti returns the values of all matches in lookup order -/
theorem getmulti_spec {t : Tbl} (I : Inv h t) (k : Bytes) :
    getmulti t k (h k) = .ok (((dir t.opts (entries t)).filter (keyIs t.opts k)).map (·.2)) := getmulti_eq h I k

/-- the unnamed getnext loop returns all entries in lookup order, the named one all matches in
    lookup order; no fault, the loop ends with false/ENOENT -/
theorem walk_spec {t : Tbl} (I : Inv h t) :
    (∃ cs, walk t none = .ok cs ∧ cs.map Cursor.kv = dir t.opts (entries t)) ∧
    (∀ k, ∃ cs, walk t (some (k, h k)) = .ok cs ∧
      cs.map Cursor.kv = (dir t.opts (entries t)).filter (keyIs t.opts k)) :=
  ⟨walk_all h I, walk_named h I⟩

/-- remove deletes exactly the entries with an equal key and returns their number; no dangling
    pointer is followed inside (the result is `.ok`) -/
theorem remove_spec {t : Tbl} (I : Inv h t) (k : Bytes) :
    ∃ t', remove t k (h k) = .ok (((entries t).filter (keyIs t.opts k)).length, t') ∧
      Inv h t' ∧ t'.opts = t.opts ∧ entries t' = (entries t).filter (fun e => !keyIs t.opts k e) := by
  obtain ⟨t', hr, I', ho, _, hn⟩ := remove_eq h I k
  refine ⟨t', hr, I', ho, ?_⟩
  unfold entries
  rw [hn, List.filter_map]
  rfl

/-- removing entries just returned by getnext (first / last / only / middle alike, selected by
    `rm`) and continuing the walk with the same cursor: every entry that was present at the start
    (and matches the optional name) is visited exactly once in lookup order, each removeobj
    succeeds, and afterwards exactly the selected entries are gone (`survivors`) -/
theorem removeobj_during_walk {t : Tbl} (I : Inv h t) (key : Option (Bytes × UInt32)) (rm : Nat → Bool) :
    ∃ vis t', walkRm t key rm = .ok (vis, t') ∧
      vis.map (·.1.kv) = ((dir t.opts t.nodes).filter (matchP t.opts key)).map Node.kv ∧
      (∀ j (hj : j < vis.length), vis[j].2 = if rm j then some true else none) ∧
      Inv h t' ∧ t'.opts = t.opts ∧
      dir t.opts t'.nodes = survivors (matchP t.opts key) rm 0 (dir t.opts t.nodes) := by
  obtain ⟨vis, t', hw, hv, hf, I', ho, hs⟩ := walkRm_eq h I key rm
  refine ⟨vis, t', hw, hv, hf, I', ho, ?_⟩
  rw [view_eq_dir, ho] at hs
  exact hs

/-- size is the number of entries -/
theorem size_spec {t : Tbl} (I : Inv h t) : size t = (entries t).length := size_eq h I

/-- sort (the bubble sort of the source with payload swaps and the shrinking bound): the entries
    end up sorted by key under the table's comparison (`strcmp` or `strcasecmp` order), they are a
    permutation of the old entries, and the relative order of entries with equal keys is kept
    (for every key `k` the subsequence of entries with key `k` is unchanged) -/
theorem sort_spec {t : Tbl} (I : Inv h t) :
    ∃ t', sort t = .ok t' ∧ Inv h t' ∧ t'.opts = t.opts ∧
      List.Pairwise (fun a b : KV => namecmp t.opts a.1 b.1 ≠ .gt) (entries t') ∧
      (entries t').Perm (entries t) ∧
      (∀ k, (entries t').filter (keyIs t.opts k) = (entries t).filter (keyIs t.opts k)) := by
  obtain ⟨t', h1, h2, h3, h4, h5, h6, _⟩ := sort_eq h I
  exact ⟨t', h1, h2, h3, h4, h5, h6⟩

/-- saving a table whose names are admissible (non-empty, free of separator / LF / NUL, no blank
    at either end, not starting with `#`) and whose values are strings (as stored by `putstr`:
    arbitrary non-NUL bytes — printable or not — plus the terminator) with URL-encoding, and loading
    the file with decoding into an empty default table, reproduces the same entries in the same
    order; `load` returns the number of entries. `hdr` is the text of the comment line (path and
    time stamp). Uses the URL codec round trip `ListTbl.urlRoundTrip` (proved on the in-place
    decoder model of C16: QlibcModel/ListTbl/UrlRt.lean). -/
theorem save_load (sep : UInt8) (hsep0 : sep ≠ 0) (hsep : sep ≠ 10)
    (hdr : Bytes) (hh0 : (0 : UInt8) ∉ hdr) (hhlf : (10 : UInt8) ∉ hdr)
    (t : Tbl) (hadm : ∀ n ∈ t.nodes, Admissible sep n.name ∧ StrVal n.data) :
    ∃ file t', saveFile hdr t sep true = .ok file ∧
      load h (init ⟨false, false, false, false⟩) file sep true = .ok ((entries t).length, t') ∧
      entries t' = entries t := by
  obtain ⟨file, t', h1, h2, _, h3⟩ := ListTbl.save_load h urlRoundTrip sep hsep0 hsep hdr hh0 hhlf t hadm
    (init ⟨false, false, false, false⟩) (inv_init h _) rfl rfl
  refine ⟨file, t', h1, ?_, by simpa [entries, init] using h3⟩
  simpa [entries] using h2

/-- non-vacuity of `save_load`: a one-entry table with an admissible name and a string value -/
example : ∃ t : Tbl, t.nodes ≠ [] ∧ ∀ n ∈ t.nodes, Admissible 61 n.name ∧ StrVal n.data :=
  ⟨{ opts := ⟨false, false, false, false⟩, nodes := [{ id := 0, hash := 0, name := [97], data := [255, 32, 0] }],
     num := 1, fresh := 1 }, by simp, by
    intro n hn
    simp only [List.mem_singleton] at hn
    subst hn
    exact ⟨⟨by simp, by decide, by decide, by decide, by intro c hc; cases hc; decide, by intro c hc; cases hc; decide⟩,
      ⟨[255, 32], rfl, by decide⟩⟩⟩

/-- every history over put/putstr/putint/get/getint/getmulti/remove/size/clear/sort/complete
    walks, under every option vector, produces a result trace the ideal ordered multimap produces
    (`SpecRun`: QlibcModel/ListTbl/History.lean) — in particular no operation faults -/
theorem history_refines (o : Opts) (ops : List Op) : SpecRun o [] ops (run h (init o) ops) :=
  run_spec h (inv_init h o) ops

/-- the representation invariant holds in every reachable state -/
theorem reachable_inv (o : Opts) (ops : List Op) : Inv h (runState h (init o) ops) :=
  runState_inv h (inv_init h o) ops

/-- getint of any stored value is `atoll` (base 10, see C05.atoll_reads_base10) of the first match
    in lookup direction, 0 when there is none -/
theorem getint_spec {t : Tbl} (I : Inv h t) (k : Bytes) :
    getint t k (h k) =
      (match ((dir t.opts (entries t)).find? (keyIs t.opts k)).map (·.2) with
       | none => .ok 0 | some d => Dec.atoll d) := by
  unfold getint
  rw [get_eq h I k]
  cases ((dir t.opts (entries t)).find? (keyIs t.opts k)).map (·.2) <;> rfl

/-- NULL name / data / string, size 0, NULL path: EINVAL and an unchanged table; remove(NULL) = 0,
    removeobj(NULL) = false, getnext(NULL obj) = false, debug(NULL) = false/EIO — also unchanged -/
theorem null_args_rejected (t : Tbl) (k : KeyArg) (d : Option Bytes) (n : Int) (f : Bytes) (key : KeyArg) :
    putA t none d = .ok (t, false, .einval) ∧ putA t k none = .ok (t, false, .einval) ∧
    putA t k (some []) = .ok (t, false, .einval) ∧
    putstrA t none d = .ok (t, false, .einval) ∧ putstrA t k none = .ok (t, false, .einval) ∧
    putstrfA t none f = .ok (t, false, .einval) ∧ putintA t none n = .ok (t, false, .einval) ∧
    getA t none = (none, .einval) ∧ getintA t none = (.ok 0, .einval) ∧
    removeA t none = .ok (0, t) ∧ removeobjA t none = .ok (false, t) ∧ getnextA t none key = .ok none ∧
    debugA false = (false, .eio) ∧ saveNullPath = (false, .einval) := by
  refine ⟨rfl, ?_, ?_, rfl, ?_, rfl, rfl, rfl, rfl, rfl, rfl, rfl, rfl, rfl⟩
  · cases k <;> rfl
  · cases k with
    | none => rfl
    | some kh => simp [putA, put]
  · cases k <;> rfl

/-- the two batteries of the harness op `inv` leave the table as it was and fail call by call -/
theorem inv_is_identity (t : Tbl) :
    runCalls invBattery t = .ok (t, List.replicate 14 (false, Err.einval)) ∧
    runCalls invBattery2 t = .ok (t, List.replicate 4 (false, Err.none) ++ [(false, Err.eio)]) := ⟨rfl, rfl⟩

/-- getmulti with a NULL name is NOT rejected by the code: the name goes to getnext, where NULL
    means "every entry"; the result is all values in lookup order (documented neither way) -/
theorem getmulti_null_name {t : Tbl} (I : Inv h t) :
    getmultiA t none = .ok ((dir t.opts (entries t)).map (·.2)) := by
  obtain ⟨cs, hw, hc⟩ := walk_all h I
  unfold getmultiA
  rw [hw, ← hc, List.map_map]
  rfl

/-- CASE-INSENSITIVE MEANS ASCII LETTERS ONLY (`strcasecmp` in the C locale): two bytes fold alike iff
    they are equal or the two cases of one ASCII letter; key equality `eqk` (used by every theorem
    above through `keyIs`) is equality of the folded names, and name hashes play no role for it -/
theorem fold_is_ascii_letters_only (a b : UInt8) :
    toLower a = toLower b ↔ a = b ∨ (isUpperC a = true ∧ b = a + 32) ∨ (isUpperC b = true ∧ a = b + 32) :=
  fold_letters a b

/-- bytes that differ by 0x20 but are not letters are different keys also on a case-insensitive
    table: '[' '{', '\\' '|', ']' '}', '^' '~', '@' '`', '_' DEL, '0' DLE, Latin-1 À à; 'M' 'm' are equal -/
example : let ci : Opts := ⟨false, true, false, false⟩
    eqk ci [91] [123] = false ∧ eqk ci [92] [124] = false ∧ eqk ci [93] [125] = false ∧ eqk ci [94] [126] = false ∧
    eqk ci [64] [96] = false ∧ eqk ci [95] [127] = false ∧ eqk ci [48] [16] = false ∧ eqk ci [192] [224] = false ∧
    eqk ci [77] [109] = true ∧ eqk ⟨false, false, false, false⟩ [77] [109] = false := by decide

/-- a put / putstr whose data argument points into the stored value of the first match of the key
    stores the addressed bytes of the OLD value, under every option vector (`newobj` copies before
    `putobj` removes the equal keys of a UNIQUE table): the call is `put` with those bytes -/
theorem put_alias_stores_old_bytes {t : Tbl} (I : Inv h t) (k : Bytes) (str : Bool) (off len : Nat)
    {v : Bytes} (hv : aliasValue t k (h k) str off len = some v) :
    (∃ old, ((dir t.opts (entries t)).find? (keyIs t.opts k)).map (·.2) = some old ∧ off ≤ old.length ∧
      v = if str then (old.drop off).takeWhile (· != 0) ++ [0] else (old.drop off).take len) ∧
    putAlias t k (h k) str off len = some (put t k (h k) v) := by
  refine ⟨?_, by simp [putAlias, hv]⟩
  unfold aliasValue at hv
  rw [get_eq h I k] at hv
  cases hl : ((dir t.opts (entries t)).find? (keyIs t.opts k)).map (·.2) with
  | none => rw [hl] at hv; cases hv
  | some old =>
    rw [hl] at hv
    simp only [] at hv
    by_cases ho : off > old.length
    · rw [if_pos ho] at hv; cases hv
    · rw [if_neg ho] at hv
      refine ⟨old, rfl, by omega, ?_⟩
      cases str with
      | true =>
        simp only [if_true, HashTbl.subStr] at hv ⊢
        split at hv
        · exact (Option.some.inj hv).symm
        · cases hv
      | false =>
        simp only [Bool.false_eq_true, if_false, HashTbl.subRange] at hv ⊢
        split at hv
        · exact (Option.some.inj hv).symm
        · cases hv

/-- non-vacuity: the invariant holds initially for every option vector -/
example (o : Opts) : Inv h (init o) := inv_init h o

end Qlibc.Props.C08

/-
  C17 — decoders and parsers are memory-safe and terminate on arbitrary input. This file: the
  in-place decoders and the query-string parser; the INI-style and Apache-style parsers are in
  Props/C17Parsers.lean (imported here, audited as obligations of the same check).

  For EVERY NUL-free input string `s` the in-place decoders, run on the buffer `s ++ [0]`
  through checked reads and writes (`rd`/`wr`), return `.ok`: no access outside the buffer,
  no `outOfFuel`; they produce at most `|s|` bytes and terminate the result.
-/
import QlibcModel.Encode.Base64
import QlibcModel.Encode.Query
import QlibcModel.Props.C17Parsers
import QlibcModel.Encode.MakewordSpec
import QlibcModel.Shapes.Encode
import QlibcModel.Shapes.Conf

namespace Qlibc.Props.C17
open Qlibc Qlibc.Encode Qlibc.Generated

theorem urlDecode_safe (s : Bytes) (hnz : ∀ c ∈ s, c ≠ 0) :
    ∃ buf n, urlDecodeRaw (s ++ [0]) = .ok (buf, n) ∧ n ≤ s.length ∧ buf[n]? = some 0 := by
  obtain ⟨stale, h⟩ := urlDecodeRaw_spec s hnz
  exact ⟨_, _, h, urlDecPure_length_le s, by simp⟩

theorem b64Decode_safe (s : Bytes) (hnz : ∀ c ∈ s, c ≠ 0) :
    ∃ buf n, b64DecodeRaw (s ++ [0]) = .ok (buf, n) ∧ n ≤ s.length ∧ buf[n]? = some 0 := by
  obtain ⟨stale, h⟩ := b64DecodeRaw_spec s hnz
  exact ⟨_, _, h, b64DecPure_length_le 0 0 s, by simp⟩

theorem hexDecode_safe (s : Bytes) (hnz : ∀ c ∈ s, c ≠ 0) :
    ∃ buf n, hexDecodeRaw (s ++ [0]) = .ok (buf, n) ∧ n ≤ s.length ∧ buf[n]? = some 0 := by
  obtain ⟨stale, h⟩ := hexDecodeRaw_spec s hnz
  exact ⟨_, _, h, hexDecPure_length_le s, by simp⟩

/-- the query-string parser delivers a result for every NUL-free input and any separators -/
theorem parseQueries_safe (q : Bytes) (eq sep : UInt8) (hnz : ∀ d ∈ q, d ≠ 0) :
    ∃ ps, parseQueries q eq sep = .ok ps := parseQueries_total q eq sep hnz

/-- `_q_makeword` never lengthens its input: word and remainder are made of input bytes -/
theorem makeword_safe (q : Bytes) (stop : UInt8) :
    (makeword q stop).1.length + (makeword q stop).2.length ≤ q.length := by
  simp only [makeword, List.length_drop]
  have := (List.takeWhile_sublist (fun x => x != stop) (l := q)).length_le
  omega

/-- makeword_raw_safe: on the exactly sized buffer `s ++ [0]` (`s` NUL-free) `_q_makeword`, with
    checked reads and writes, returns for EVERY stop byte — `'\0'`, `0x80`, `0xff`, … included: no
    access outside the `strlen + 1` bytes, both loops end; word and remainder are the list-level
    `makeword` (the word before the first stop byte, the text behind it). `qparse_queries` and
    `qconfig_parse_str` hand the caller's separator to this function unchanged. -/
theorem makeword_raw_safe (s : Bytes) (hs : ∀ d ∈ s, d ≠ 0) (stop : UInt8) :
    makewordRaw (s ++ [0]) stop = .ok (makeword s stop) := makewordRaw_spec s hs stop

/-- makeword_nul_stop: with the stop byte `'\0'` the terminator is the stop byte — the word is the
    whole string, the remainder is empty, and the shift loop starts AT the terminator (it must not be
    stepped over) -/
theorem makeword_nul_stop (s : Bytes) (hs : ∀ d ∈ s, d ≠ 0) : makewordRaw (s ++ [0]) 0 = .ok (s, []) :=
  Encode.makeword_nul_stop s hs

/-- the byte-indexed tables have 256 entries -/
theorem table_lengths : b64MapTbl.length = 256 ∧ hexMapTbl.length = 256 := by decide +kernel

-- non-vacuity: a truncated escape, an odd-length hex string, stray padding
example : urlDecodeRaw ([37, 52] ++ [0]) = .ok ([37, 52, 0], 2) := by rfl
example : hexDecodeRaw ([48, 49, 50] ++ [0]) = .ok ([1, 0, 50, 0], 1) := by rfl
example : ∀ c ∈ ([61, 65, 61] : Bytes), c ≠ 0 := by decide

end Qlibc.Props.C17

import QlibcModel.Encode.Model
namespace Qlibc.Props.C17
open Qlibc.Generated
theorem b64MapTbl_length : b64MapTbl.length = 256 := by decide +kernel
end Qlibc.Props.C17

import QlibcModel.Tree.Table
namespace Qlibc.Props.C03
theorem placeholder : True := trivial
end Qlibc.Props.C03

/-
  C03 — with the table unmodified during the walk, calling `qtreetbl_getnext` repeatedly from a
  zero-initialised cursor returns every stored key exactly once, in strictly ascending order,
  each with its current value, and then reports the end — after any prior history.

  Thin wrappers around `QlibcModel/Tree/{Walk,Epoch,History}.lean`.  Vocabulary:
  `walkFrom n s cur` calls `Tbl.getnext` until it reports the end (at most `n` calls) and returns
  the key/value pairs and the final table; `kvs t` is the in-order key/value sequence of a tree;
  `EpochInv` is the invariant "no node stamp exceeds the table's 8-bit epoch (≥ 1), node
  identifiers are unique and below the allocation counter"; `Quiescent` = no node carries the
  current epoch; `Upd Skel t t'` = same shape and colours, same key, value and identifier in
  every node (stamps and parent pointers may differ); `run` executes a history of operations.
-/
import QlibcModel.Tree.WalkHistory
import QlibcModel.Shapes.Tree

namespace Qlibc.Props.C03
open Qlibc Qlibc.Tree T

variable {K V : Type}

/-- The core lemma.  The cursor stands on the root `a` of a subtree none of whose nodes carries
    the walk's stamp, `a.next` and the `next` pointers of its ancestors lead to the root (`PathOk`),
    and the sibling subtrees along that path are each uniformly stamped or unstamped.  Then the
    following `getnext` calls return the entries of the subtree in order, one per call, then what
    the enclosing context still owes (`remF`; for a walk started at the root of the tree the
    context is empty), then the end — without fault. -/
theorem subtree_walk {s : Tbl K V} {cur : Cur} {fs : List (Frame K V)} {l a c r} (n : Nat)
    (hroot : s.root = plug fs (.node l a c r)) (hcur : cur.next = some a.id)
    (hun : AllUn cur.tid (.node l a c r)) (hfo : FramesOk cur.tid fs) (hp : PathOk a.next fs)
    (hd : DistinctIds s.root) :
    ∃ s', walkFrom (size (.node l a c r) + (remF cur.tid fs).length + 1 + n) s cur
      = .ok (kvs (.node l a c r) ++ remF cur.tid fs, s') :=
  Tree.subtree_walk n hroot hcur hun hfo hp hd

/-- Step form of the core lemma.  Exactly `size sub` calls return exactly the entries of the
    subtree, in order; afterwards the tree is in a between-calls state (`Mid`: cursor on the node
    just visited, its left subtree and itself stamped, parent pointers along the path in place)
    that owes exactly what the context owed: every node of the subtree is stamped and the next
    call leaves the subtree through `a.next`, i.e. continues at the parent. -/
theorem subtree_walk_steps {s : Tbl K V} {cur : Cur} {fs : List (Frame K V)} {l a c r}
    (hroot : s.root = plug fs (.node l a c r)) (hcur : cur.next = some a.id)
    (hun : AllUn cur.tid (.node l a c r)) (hfo : FramesOk cur.tid fs) (hp : PathOk a.next fs)
    (hd : DistinctIds s.root) :
    ∃ s' c', walkK (size (.node l a c r)) s cur
        = .ok (kvs (.node l a c r), s', { tid := cur.tid, next := some c' }) ∧
      Mid cur.tid s'.root c' (remF cur.tid fs) ∧ s'.num = s.num ∧ s'.tid = s.tid ∧ s'.fresh = s.fresh :=
  Tree.subtree_walk_steps hroot hcur hun hfo hp hd

/-- A complete walk under the invariant: exactly the in-order key/value sequence, then the end;
    `size + 2` calls suffice (and the per-call fuel `3 * size + 3` of the model is never
    exhausted, no dangling pointer is followed); afterwards the invariant holds again and shape,
    colours, keys, values and identifiers are unchanged. -/
theorem walk_complete {s : Tbl K V} (h : EpochInv s) (n : Nat) :
    ∃ s', walkFrom (s.root.size + 2 + n) s {} = .ok (kvs s.root, s') ∧
      EpochInv s' ∧ Quiescent s' ∧ Upd Skel s.root s'.root ∧ s'.num = s.num ∧ s'.fresh = s.fresh :=
  Tree.walk_complete h n

/-- … and on a search tree that sequence is strictly ascending by key: every key exactly once. -/
theorem walk_ascending {cmp : K → K → Ordering} {s : Tbl K V} (h : EpochInv s)
    (ho : Ordered cmp keyOf s.root) (n : Nat) :
    ∃ xs s', walkFrom (s.root.size + 2 + n) s {} = .ok (xs, s') ∧ xs = kvs s.root ∧
      xs.Pairwise (fun a b => cmp a.1 b.1 = .lt) := by
  obtain ⟨s', hw, _⟩ := Tree.walk_complete h n
  exact ⟨_, s', hw, rfl, kvs_sorted ho⟩

/-- The invariant holds for `qtreetbl()`. -/
theorem epoch_inv_init : EpochInv (Tbl.init : Tbl K V) := epochInv_init

/-- `reset_iterator` keeps the invariant, including the wrap-around of the 8-bit epoch (all
    stamps are cleared and the epoch restarts at 1), and leaves no node with the new epoch. -/
theorem epoch_inv_reset {s : Tbl K V} (h : EpochInv s) :
    EpochInv (resetIterator s) ∧ Quiescent (resetIterator s) :=
  ⟨reset_epoch h, reset_quiescent h⟩

/-- One `getnext` call from the zero cursor or from any cursor whose stamp does not exceed the
    epoch (every cursor handed out by `getnext` or `find_nearest` since the last wrap-around)
    keeps the invariant and changes only stamps and parent pointers. -/
theorem epoch_inv_getnext {s : Tbl K V} (h : EpochInv s) {cur : Cur} (hc : cur.next = none ∨ cur.tid ≤ s.tid)
    {s' : Tbl K V} {out : WalkOut K V} (hg : s.getnext cur = .ok (s', out)) :
    EpochInv s' ∧ Upd Skel s.root s'.root ∧ s'.num = s.num ∧ s'.fresh = s.fresh ∧
      (∀ k v c, out = .item k v c → c.tid ≤ s'.tid ∧ c.next ≠ none) ∧ (out = .done → Quiescent s') :=
  getnext_epoch h hc hg

/-- Generic form for tree transformations: whatever rearranges the nodes, overwrites keys and
    values in place or drops nodes keeps the invariant … -/
theorem epoch_inv_of_sublist {s : Tbl K V} (h : EpochInv s) {root' : T (Entry K V)} (num' : Nat)
    (hsub : ((inorder root').map idt).Sublist ((inorder s.root).map idt)) :
    EpochInv { s with root := root', num := num' } :=
  h.of_sublist num' hsub

/-- … and so does adding one node with the next free identifier and stamp 0 (calloc). -/
theorem epoch_inv_of_insert {s : Tbl K V} (h : EpochInv s) {root' : T (Entry K V)} (num' : Nat)
    {pre post : List (Nat × UInt8)} (hold : (inorder s.root).map idt = pre ++ post)
    (hnew : (inorder root').map idt = pre ++ (s.fresh, 0) :: post) :
    EpochInv { s with root := root', num := num', fresh := s.fresh + 1 } :=
  h.of_insert num' hold hnew

/-- Every operation of a history keeps the invariant: `putobj`, `removeobj`, `clear`, a complete
    walk, a walk abandoned after `j` calls, `find_nearest` followed by `j` calls of `getnext`. -/
theorem epoch_inv_step (cmp : K → K → Ordering) (isEmpty : V → Bool) {s s' : Tbl K V} (h : EpochInv s)
    (op : WOp K V) (hr : runWOp cmp isEmpty s op = .ok s') : EpochInv s' :=
  Tree.epoch_inv_step cmp isEmpty h op hr

theorem epoch_inv_reachable (cmp : K → K → Ordering) (isEmpty : V → Bool) (ops : List (WOp K V))
    {s : Tbl K V} (hr : runW cmp isEmpty Tbl.init ops = .ok s) : EpochInv s :=
  Tree.epoch_inv_reachable cmp isEmpty ops _ s epochInv_init hr

/-- Complete and abandoned walks inside a history never fault. -/
theorem history_walks_ok (cmp : K → K → Ordering) (isEmpty : V → Bool) {s : Tbl K V} (h : EpochInv s) (j : Nat) :
    (∃ s', runWOp cmp isEmpty s .walk = .ok s') ∧ (∃ s', runWOp cmp isEmpty s (.abandon j) = .ok s') :=
  ⟨runWOp_walk_ok cmp isEmpty h, runWOp_abandon_ok cmp isEmpty h j⟩

/-- The property: after any history (from the empty table) that the model executes, a walk
    from a zero-initialised cursor returns exactly the in-order key/value sequence and then the
    end, without fault. -/
theorem traversal_any_history (cmp : K → K → Ordering) (isEmpty : V → Bool) (ops : List (WOp K V))
    {s : Tbl K V} (hr : runW cmp isEmpty Tbl.init ops = .ok s) (n : Nat) :
    ∃ s', walkFrom (s.root.size + 2 + n) s {} = .ok (kvs s.root, s') ∧
      EpochInv s' ∧ Quiescent s' ∧ Upd Skel s.root s'.root ∧ s'.num = s.num ∧ s'.fresh = s.fresh :=
  Tree.traversal_any_history cmp isEmpty ops hr n

/-! non-vacuity: a concrete history and what the theorem says about it -/

example : ∃ s s', runW compare (fun _ => false) (Tbl.init : Tbl Nat Nat)
      [.put 2 20, .put 1 10, .put 3 30, .remove 2, .put 3 31, .clear, .put 9 90, .put 4 40] = .ok s ∧
    walkFrom 4 s {} = .ok ([(4, 40), (9, 90)], s') := by
  have h : runW compare (fun _ => false) (Tbl.init : Tbl Nat Nat)
      [.put 2 20, .put 1 10, .put 3 30, .remove 2, .put 3 31, .clear, .put 9 90, .put 4 40] = .ok _ := rfl
  obtain ⟨s', hw, _⟩ := traversal_any_history compare _ _ h 0
  exact ⟨_, s', h, hw⟩

example : ∃ s, runWOp compare (fun _ => false) (Tbl.init : Tbl Nat Nat) (.abandon 3) = .ok s :=
  (history_walks_ok compare _ epoch_inv_init 3).2

end Qlibc.Props.C03

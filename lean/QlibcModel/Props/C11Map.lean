/-
  C11 — leak freedom as an accounting theorem: hash table and list table.

  Machine-level memory safety is sampled by ASan/UBSan/LSan on every correspondence run; the
  ledger `live` of the models is compared with the allocator wrapper's count of live blocks after
  EVERY operation of the C11 / C12 / C15 streams and at release (`end live=0`). What is proved:
  the ledger is a function of the ideal contents, for every reachable state — also for every
  state reached through histories with allocation failures — and `clear` releases every node.
  The fault-freedom (no NULL / dangling dereference, fuel suffices) of the two models is carried
  by C05.history_refines / walk_complete and C08.history_refines / remove_spec /
  removeobj_during_walk.
-/
import QlibcModel.HashTbl.FaultSpec
import QlibcModel.ListTbl.FaultSpec

namespace Qlibc.Props.C11Map
open Qlibc Qlibc.MapFault

variable (h : Bytes → UInt32)

/-- hash table: the blocks owned are the handle, the slot array, the mutex object (thread-safe
    option) and three per key of the ideal map (node, name, data) -/
theorem hashtbl_ledger {s : HashTbl.Tbl} {m : HashTbl.AssocMap} (A : HashTbl.Abs h s m) (ts : Bool) :
    HashTbl.live ts s = 2 + (if ts then 1 else 0) + 3 * m.length :=
  HashTbl.live_abs h A ts

/-- … in every state reachable by any history, with or without allocation failures -/
theorem hashtbl_ledger_reachable (range : Nat) (ts : Bool) (ops : List (Plan × HashTbl.Op)) :
    ∃ ops' : List HashTbl.Op, ops'.Sublist (ops.map (·.2)) ∧
      HashTbl.live ts (HashTbl.runStateF h (HashTbl.init range) ops) =
        2 + (if ts then 1 else 0) + 3 * (HashTbl.runSpecState [] ops').length := by
  refine ⟨HashTbl.completedOps h (HashTbl.init range) ops, HashTbl.completedOps_sublist h _ ops, ?_⟩
  rw [HashTbl.runStateF_eq]
  exact HashTbl.live_abs h (HashTbl.reachable h (HashTbl.abs_init h range) (HashTbl.idInv_init range) _).1 ts

/-- `clear` releases every node with its name and data; `free` then releases the rest -/
theorem hashtbl_clear_releases_all {s : HashTbl.Tbl} (I : HashTbl.Inv h s) (ts : Bool) :
    HashTbl.live ts (HashTbl.clear s) = 2 + (if ts then 1 else 0) :=
  HashTbl.live_clear h I ts

/-- list table: the handle, the mutex object (thread-safe option) and three blocks per entry -/
theorem listtbl_ledger (ts : Bool) (t : ListTbl.Tbl) :
    ListTbl.live ts t = 1 + (if ts then 1 else 0) + 3 * (ListTbl.entries t).length :=
  ListTbl.live_entries ts t

theorem listtbl_clear_releases_all (ts : Bool) (t : ListTbl.Tbl) :
    ListTbl.live ts (ListTbl.clear t) = 1 + (if ts then 1 else 0) :=
  ListTbl.live_clear ts t

/-- a failed constructor leaves nothing allocated (both containers) -/
theorem ctor_failure_leaves_nothing (plan : Plan) (range : Nat) (o : ListTbl.Opts) (ts : Bool) :
    ((HashTbl.initF plan range ts).1 = none → (HashTbl.initF plan range ts).2.2 = 0) ∧
    ((ListTbl.initF plan o ts).1 = none → (ListTbl.initF plan o ts).2.2 = 0) := by
  constructor
  · intro h0
    rcases HashTbl.initF_spec plan range ts with ⟨_, h2⟩ | ⟨h1, _⟩
    · exact h2
    · rw [h0] at h1; cases h1
  · intro h0
    rcases ListTbl.initF_spec plan o ts with ⟨_, h2⟩ | ⟨h1, _⟩
    · exact h2
    · rw [h0] at h1; cases h1

-- non-vacuity
example : HashTbl.live true (HashTbl.put (HashTbl.init 3) [97] 7 [1]) = 6 := rfl
example : ListTbl.live false (ListTbl.init ⟨false, false, false, false⟩) = 1 := rfl

end Qlibc.Props.C11Map

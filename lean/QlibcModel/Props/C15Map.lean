/-
  C15 — allocation failure is reported and leaves containers unchanged and valid:
  hash table (src/containers/qhashtbl.c) and list table (src/containers/qlisttbl.c).

  `plan i` says whether the i-th allocation attempt made inside ONE library call fails; the `…F`
  forms (HashTbl/Fault.lean, ListTbl/Fault.lean) mirror the order of calloc / strdup / malloc /
  realloc calls of the C functions (including `qfile_load`, `_q_makeword`, `qurl_encode`,
  `qtime_gmt_str` and the buffers of `DYNAMIC_VSPRINTF`) and are tied to the code by the
  fault-enumeration correspondence: the harness fails exactly that allocation through
  harness/allocwrap.h and reports the number of attempts, which must equal the model's.
  All theorems hold for EVERY plan (single failures, all-from-k, any other pattern), every hash
  function `h`, every state satisfying the container's invariant.
-/
import QlibcModel.HashTbl.FaultSpec
import QlibcModel.ListTbl.FaultSpec

namespace Qlibc.Props.C15Map
open Qlibc Qlibc.MapFault

variable (h : Bytes → UInt32)

/-! ## hash table -/
section HashTable
open Qlibc.HashTbl

/-- put under ANY plan: the call returns; either it reports failure and the state is the one it
    was given (every chain, the key counter, the id counter — hence every later answer), or it
    reports success and is the plain put -/
theorem hashtbl_put_fault_atomic (plan : Plan) (s : Tbl) (k : Bytes) (hh : UInt32) (v : Bytes) :
    ((putF plan s k hh v).2.1 = false ∧ (putF plan s k hh v).1 = s) ∨
    ((putF plan s k hh v).2.1 = true ∧ (putF plan s k hh v).1 = put s k hh v) :=
  putF_cases plan s k hh v

/-- … and on the abstraction: the invariant holds afterwards; a reported failure leaves the ideal
    map as it was, a success is the insertion into the ideal map -/
theorem hashtbl_put_fault_abs {s : Tbl} {m : AssocMap} (A : Abs h s m) (plan : Plan) (k v : Bytes) :
    ((putF plan s k (h k) v).2.1 = false ∧ (putF plan s k (h k) v).1 = s ∧ Abs h (putF plan s k (h k) v).1 m) ∨
    ((putF plan s k (h k) v).2.1 = true ∧ Abs h (putF plan s k (h k) v).1 (m.insert k v)) :=
  putF_abs h A plan k v

/-- putstrf (formatting buffers of `DYNAMIC_VSPRINTF`, then put): the same alternative -/
theorem hashtbl_putstrf_fault_atomic (plan : Plan) (s : Tbl) (k : Bytes) (hh : UInt32) (str : Bytes) :
    ((putstrfF plan s k hh str).2.1 = false ∧ (putstrfF plan s k hh str).1 = s) ∨
    ((putstrfF plan s k hh str).2.1 = true ∧ (putstrfF plan s k hh str).1 = putstr s k hh str) :=
  putstrfF_cases plan s k hh str

/-- failure is reported only when an allocation the call made was failed by the plan -/
theorem hashtbl_put_fails_only_when_injected (plan : Plan) (s : Tbl) (k : Bytes) (hh : UInt32) (v : Bytes)
    (hf : (putF plan s k hh v).2.1 = false) : ∃ i, 1 ≤ i ∧ i ≤ (putF plan s k hh v).2.2 ∧ plan i = true :=
  putF_false_injected plan s k hh v hf

/-- with no failing allocation the plan form is the ordinary operation -/
theorem hashtbl_put_no_fault (s : Tbl) (k : Bytes) (hh : UInt32) (v : Bytes) :
    ((putF noFail s k hh v).1, (putF noFail s k hh v).2.1) = (put s k hh v, true) :=
  putF_noFail s k hh v

/-- a copying get under any plan returns the stored bytes (or ENOENT) exactly like the plain get,
    or reports ENOMEM — possible only if a copy was requested, the key is present and the plan
    fails the allocation; it returns a value only, so the table cannot change -/
theorem hashtbl_get_fault (plan : Plan) (s : Tbl) (k : Bytes) (hh : UInt32) (newmem : Bool) :
    ((getF plan s k hh newmem).1 = .enomem ∧ newmem = true ∧ plan 1 = true ∧ (get s k hh).isSome) ∨
    (getF plan s k hh newmem).1 = (match get s k hh with | some d => .data d | none => .enoent) :=
  getF_cases plan s k hh newmem

/-- a copying getnext under any plan is the plain walk step, or reports ENOMEM without replacing
    the caller's cursor (the driver keeps the old cursor: repeating the call is the plain step) -/
theorem hashtbl_getnext_fault (plan : Plan) (s : Tbl) (cur : Cursor) (newmem : Bool) :
    (∃ f, getnext s cur = .error f ∧ getnextF plan s cur newmem = .error f) ∨
    (∃ n, getnextF plan s cur newmem = .ok (.enomem, n) ∧ newmem = true ∧ (plan 1 || plan 2) = true) ∨
    (∃ n, getnext s cur = .ok none ∧ getnextF plan s cur newmem = .ok (.done, n)) ∨
    (∃ c n, getnext s cur = .ok (some c) ∧ getnextF plan s cur newmem = .ok (.item c, n)) :=
  getnextF_cases plan s cur newmem

/-- a failing constructor returns NULL with nothing left allocated; a succeeding one returns the
    empty table holding exactly the blocks of the ledger (handle, slot array, mutex object) -/
theorem hashtbl_ctor_fault (plan : Plan) (range : Nat) (ts : Bool) :
    ((initF plan range ts).1 = none ∧ (initF plan range ts).2.2 = 0) ∨
    ((initF plan range ts).1 = some (init range) ∧ (initF plan range ts).2.2 = live ts (init range)) :=
  initF_spec plan range ts

/-- **later operations behave normally**: after ANY history in which every call runs under its
    own allocation plan, the state is exactly the state after the sub-history of the calls that did
    not report failure; it satisfies the invariant and represents the ideal map of that
    sub-history (so every C05 theorem applies to it) -/
theorem hashtbl_fault_then_normal (range : Nat) (ops : List (Plan × Op)) :
    ∃ ops' : List Op, ops'.Sublist (ops.map (·.2)) ∧
      runStateF h (init range) ops = runState h (init range) ops' ∧
      Abs h (runStateF h (init range) ops) (runSpecState [] ops') ∧ IdInv (runStateF h (init range) ops) := by
  refine ⟨completedOps h (init range) ops, completedOps_sublist h _ ops, runStateF_eq h _ ops, ?_, ?_⟩
  · rw [runStateF_eq]; exact (reachable h (abs_init h range) (idInv_init range) _).1
  · rw [runStateF_eq]; exact (reachable h (abs_init h range) (idInv_init range) _).2

end HashTable

/-! ## list table -/
section ListTable
open Qlibc.ListTbl

/-- put under ANY plan on a valid table: the call returns (no fault), the invariant holds; when it
    reports failure (EINVAL exactly for an empty value, ENOMEM only if the plan fails one of the
    three allocations of `newobj`) the state is the one it was given — in particular a unique table
    has not lost the entries the new one was to replace; when it reports success it is the plain put -/
theorem listtbl_put_fault_atomic {t : Tbl} (I : Inv h t) (plan : Plan) (k v : Bytes) :
    ∃ o t' n, putF plan t k (h k) v = .ok (o, t', n) ∧ Inv h t' ∧
      (o ≠ .ok → t' = t) ∧ (o = .ok → put t k (h k) v = .ok (true, t')) ∧
      (o = .einval ↔ v = []) ∧ (o = .enomem → newobjFails plan 0 = true) :=
  putF_spec h I plan k v

theorem listtbl_putstrf_fault_atomic {t : Tbl} (I : Inv h t) (plan : Plan) (k str : Bytes) :
    ∃ o t' n, putstrfF plan t k (h k) str = .ok (o, t', n) ∧ Inv h t' ∧
      (o ≠ .ok → t' = t) ∧ (o = .ok → putstr t k (h k) str = .ok (true, t')) :=
  putstrfF_spec h I plan k str

theorem listtbl_put_no_fault (t : Tbl) (k : Bytes) (hh : UInt32) (v : Bytes) (hv : v ≠ []) :
    (putF noFail t k hh v).map (fun r => r.2.1) = (put t k hh v).map (fun r => r.2) :=
  putF_noFail t k hh v hv

theorem listtbl_get_fault (plan : Plan) (t : Tbl) (k : Bytes) (hh : UInt32) (newmem : Bool) :
    ((getF plan t k hh newmem).1 = .enomem ∧ newmem = true ∧ plan 1 = true ∧ (get t k hh).isSome) ∨
    (getF plan t k hh newmem).1 = (match get t k hh with | some d => .data d | none => .enoent) :=
  getF_cases plan t k hh newmem

/-- a copying getnext under any plan is the plain walk step, or reports ENOMEM and leaves the
    position fields of the caller's object alone, so that repeating the call is the plain step -/
theorem listtbl_getnext_fault (plan : Plan) (t : Tbl) (cur : Cursor) (key : Option (Bytes × UInt32)) (newmem : Bool) :
    (∃ f, getnext t cur key = .error f ∧ getnextF plan 0 t cur key newmem = .error f) ∨
    (∃ c n, getnextF plan 0 t cur key newmem = .ok (.enomem c, n) ∧ newmem = true ∧ (plan 1 || plan 2) = true ∧
        getnext t c key = getnext t cur key) ∨
    (getnext t cur key = .ok none ∧ getnextF plan 0 t cur key newmem = .ok (.done, 0)) ∨
    (∃ c a1, getnext t cur key = .ok (some c) ∧ getnextF plan 0 t cur key newmem = .ok (.item c, a1)) := by
  rcases getnextF_cases plan 0 t cur key newmem with h1 | ⟨c, n, hF, hn, hp, h1, h2, h3⟩ | h3 | h4
  · exact .inl h1
  · exact .inr (.inl ⟨c, n, hF, hn, by simpa using hp, getnext_congr t c cur key h1 h2 h3⟩)
  · exact .inr (.inr (.inl h3))
  · exact .inr (.inr (.inr h4))

/-- getmulti under ANY plan on a valid table: NULL/ENOMEM, or exactly the values of all entries
    with an equal key in lookup order — never a truncated list (the array and the copies collected
    before a failure are released, see the ledger correspondence) -/
theorem listtbl_getmulti_fault {t : Tbl} (I : Inv h t) (plan : Plan) (k : Bytes) (newmem : Bool) :
    ∃ n, getmultiF plan t k (h k) newmem = .ok (none, n) ∨
      getmultiF plan t k (h k) newmem = .ok (some (((dir t.opts (entries t)).filter (keyIs t.opts k)).map (·.2)), n) :=
  getmultiF_cases plan t k (h k) newmem _ (getmulti_eq h I k)

theorem listtbl_getmulti_no_fault {t : Tbl} (I : Inv h t) (k : Bytes) (newmem : Bool) :
    ∃ n, getmultiF noFail t k (h k) newmem = .ok (some (((dir t.opts (entries t)).filter (keyIs t.opts k)).map (·.2)), n) :=
  getmultiF_noFail t k (h k) newmem _ (getmulti_eq h I k)

/-- **load is all-or-nothing**: under ANY plan it either reports -1 and returns the state it was
    given, or it is the plain load of the whole file (same count, same resulting table) -/
theorem listtbl_load_fault_atomic (plan : Plan) (t : Tbl) (file : Bytes) (sep : UInt8) (dec : Bool)
    (r : Option Nat) (t' : Tbl) (n : Nat) (hl : loadF plan h t file sep dec = .ok (r, t', n)) :
    (r = none ∧ t' = t) ∨ (∃ cnt, r = some cnt ∧ load h t file sep dec = .ok (cnt, t')) :=
  loadF_cases h plan t file sep dec r t' n hl

theorem listtbl_load_no_fault (t : Tbl) (file : Bytes) (sep : UInt8) (dec : Bool) (cnt : Nat) (t' : Tbl)
    (hl : load h t file sep dec = .ok (cnt, t')) : ∃ n, loadF noFail h t file sep dec = .ok (some cnt, t', n) :=
  loadF_noFail h t file sep dec cnt t' hl

/-- save under ANY plan: when it reports success the entry lines written are exactly those of the
    plain save — no line dropped, no value replaced; otherwise it reports failure (save never
    modifies the table: it returns the text only) -/
theorem listtbl_save_fault (plan : Plan) (t : Tbl) (sep : UInt8) (enc : Bool) (hdrLen : Nat) (b : Bytes) (n : Nat)
    (hs : saveF plan t sep enc hdrLen = .ok (some b, n)) : saveBody t sep enc = .ok b :=
  saveF_some plan t sep enc hdrLen b n hs

theorem listtbl_save_no_fault (t : Tbl) (sep : UInt8) (enc : Bool) (hdrLen : Nat) (b : Bytes)
    (hs : saveBody t sep enc = .ok b) : ∃ n, saveF noFail t sep enc hdrLen = .ok (some b, n) :=
  saveF_noFail t sep enc hdrLen b hs

/-- removal (and the unique-replacement inside put) allocates nothing: it has no failure mode -/
theorem listtbl_remove_needs_no_allocation {t : Tbl} (I : Inv h t) (k : Bytes) :
    ∃ t', remove t k (h k) = .ok (((entries t).filter (keyIs t.opts k)).length, t') ∧ Inv h t' :=
  let ⟨t', h1, h2, _⟩ := remove_eq h I k
  ⟨t', h1, h2⟩

theorem listtbl_ctor_fault (plan : Plan) (o : Opts) (ts : Bool) :
    ((initF plan o ts).1 = none ∧ (initF plan o ts).2.2 = 0) ∨
    ((initF plan o ts).1 = some (init o) ∧ (initF plan o ts).2.2 = live ts (init o)) :=
  ListTbl.initF_spec plan o ts

/-- **later operations behave normally**: after ANY history in which every call runs under its
    own allocation plan, the state is exactly the state after the sub-history of the calls that did
    not report an allocation failure, and it satisfies the invariant (so every C08 theorem applies) -/
theorem listtbl_fault_then_normal (o : Opts) (ops : List (Plan × Op)) :
    ∃ ops' : List Op, ops'.Sublist (ops.map (·.2)) ∧
      ListTbl.runStateF h (init o) ops = runState h (init o) ops' ∧ Inv h (ListTbl.runStateF h (init o) ops) := by
  refine ⟨ListTbl.completedOps h (init o) ops, ListTbl.completedOps_sublist h _ ops, ListTbl.runStateF_eq h _ ops, ?_⟩
  rw [ListTbl.runStateF_eq]
  exact runState_inv h (inv_init h o) _

end ListTable

-- non-vacuity: failing plans on real tables
example : (HashTbl.putF (single 3) (HashTbl.init 1) [97] 7 [1]).2 = (false, 3) := rfl
example : (HashTbl.putF (single 3) (HashTbl.put (HashTbl.init 1) [97] 7 [1]) [97] 7 [2]).2 = (true, 2) := rfl
example : ∃ t, ListTbl.putF (fromOn 2) (ListTbl.init ⟨true, false, false, false⟩) [97] 7 [1] = .ok (.enomem, t, 3) := ⟨_, rfl⟩
example : ∃ t n, ListTbl.loadF (single 9) (fun _ => 7) (ListTbl.init ⟨false, false, false, false⟩)
    [120, 61, 49, 10, 121, 61, 50, 10] 61 false = .ok (none, t, n) ∧ n = 11 := ⟨_, _, rfl, rfl⟩

end Qlibc.Props.C15Map

/-
  C06 — the static hash table is an exact bounded map with exact space accounting.

  Setting.  `digest : Bytes → Bytes` (MD5) and `hashC : CanonKey → Nat` (the 32-bit key hash as a
  function of the key's canonical identity) are PARAMETERS; every operation of the model receives
  `hashC (canon digest k)` and `digest k`.  Keys are identified by
  `canon digest k = (|k|, first 16 bytes, digest k if |k| > 16)` — "matched by length, stored prefix
  and digest".  That the real hash is a function of this identity (i.e. no two different long keys
  of the same length share prefix and MD5) and that a digest has 16 bytes are the only assumptions
  (`hdig`); nothing else is assumed about either function.

    abs img        : the ideal map an image represents (one entry per key slot: stored key, value)
    need n         = 1 + ⌈(n − 32)⁺ / 66⌉      (constants regenerated from the header)
    WF             : the structural invariant of C07;  KeysOK : every key slot records the home of
                     the key it holds and no two key slots hold the same key
    Ref cap img m  : WF ∧ KeysOK ∧ abs img and m have the same entries ∧ keys of m distinct ∧
                     usedslots = Σ need |v| ∧ num = |m| ∧ maxslots = cap
    SameRel / InsRel / EraseRel : entry-wise "unchanged / = insert / = erase" between abstractions

  All statements are total-correctness statements about the mechanism-level model (no fault is
  reachable) and hold for every capacity ≥ 1, every key length 1 … 65535, every value length ≥ 1,
  every collision pattern and every history.
-/
import QlibcModel.HashArr.Walk
import QlibcModel.HashArr.Widths
import QlibcModel.Shapes.Harr

namespace Qlibc.Props.C06
open Qlibc Qlibc.HashArr Qlibc.HashArr.Spec

/-- `get` returns exactly what the ideal map holds under the key's canonical identity -/
theorem get_refines (img : Img) (hw : WF img) (hashC : CanonKey → Nat) (digest : Bytes → Bytes)
    (hk : KeysOK hashC img) (k : Bytes) (hk1 : 0 < k.length) :
    get img k (hashC (canon digest k)) (digest k) =
      .ok (match (abs img).lookup (canon digest k) with | some v => .ok v | none => .error .ENOENT) :=
  get_refines' hw hashC digest hk k hk1

/-- **`put` of a key that is not stored**: succeeds *exactly when* `need |v| ≤ maxslots − usedslots`;
    on success the abstraction is `insert`, `usedslots` grows by exactly `need |v|` and `num` by one;
    otherwise the answer is ENOBUFS and abstraction and counters are unchanged (empty home slot,
    collision chain and relocation of a foreign block alike) -/
theorem put_new (img : Img) (hw : WF img) (hashC : CanonKey → Nat) (digest : Bytes → Bytes) (hk : KeysOK hashC img)
    (k v : Bytes) (hk1 : 0 < k.length) (hk2 : k.length < 65536) (hv : 0 < v.length) (hdig : (digest k).length = 16)
    (hnew : (abs img).lookup (canon digest k) = none) :
    ∃ img' r, put img k v (hashC (canon digest k)) (digest k) = .ok (img', r) ∧ WF img' ∧ KeysOK hashC img' ∧
      (r = .ok ↔ (need v.length : Int) ≤ img.maxslots - img.usedslots) ∧
      (r = .ok → InsRel img img' (canon digest k) v ∧
        img'.usedslots = img.usedslots + (need v.length : Int) ∧ img'.num = img.num + 1) ∧
      (r ≠ .ok → r = .err .ENOBUFS ∧ SameRel img img' ∧ img'.usedslots = img.usedslots ∧ img'.num = img.num) := by
  have hnone : ∀ y, y < img.n → (img.sl y).isKey = true → storedKey (img.sl y) ≠ canon digest k := by
    intro y hy hky hs
    have := lookup_abs_some hk hy hky
    rw [hs, hnew] at this
    cases this
  obtain ⟨img', r, h1, h2, h3, _, _, h6, h7, h8⟩ :=
    putByObj_absent_rel hw hashC digest hk k v hk1 hk2 hv hdig hnone (img.slots.size + 1)
  exact ⟨img', r, h1, h2, h3, h6, h7, h8⟩

/-- **`put` over a stored key** (`old` = its value): succeeds exactly when a slot is free and
    `need |v| ≤ free + need |old|`; a failed put answers ENOBUFS and leaves the key unchanged (no free
    slot) or absent (removed, then the new value did not fit) — never partially written — and every
    other key untouched -/
theorem put_replace (img : Img) (hw : WF img) (hashC : CanonKey → Nat) (digest : Bytes → Bytes) (hk : KeysOK hashC img)
    (k v old : Bytes) (hk1 : 0 < k.length) (hk2 : k.length < 65536) (hv : 0 < v.length) (hdig : (digest k).length = 16)
    (hold : (abs img).lookup (canon digest k) = some old) :
    ∃ img' r, put img k v (hashC (canon digest k)) (digest k) = .ok (img', r) ∧ WF img' ∧ KeysOK hashC img' ∧
      (r = .ok ↔ (img.usedslots < img.maxslots ∧
        (need v.length : Int) ≤ img.maxslots - img.usedslots + (need old.length : Int))) ∧
      (r = .ok → InsRel img img' (canon digest k) v ∧
        img'.usedslots = img.usedslots - (need old.length : Int) + (need v.length : Int) ∧ img'.num = img.num) ∧
      (r ≠ .ok → r = .err .ENOBUFS ∧
        ((img.usedslots ≥ img.maxslots ∧ SameRel img img' ∧ img'.usedslots = img.usedslots ∧ img'.num = img.num) ∨
         (img.usedslots < img.maxslots ∧ EraseRel img img' (canon digest k) ∧
          img'.usedslots = img.usedslots - (need old.length : Int) ∧ img'.num = img.num - 1))) := by
  obtain ⟨i, hi, hki, hsi, hvi⟩ := (mem_abs _ _).mp (AMap.mem_of_lookup _ _ _ hold)
  obtain ⟨img', r, h1, h2, h3, _, _, h6, h7, h8⟩ :=
    put_present_rel hw hashC digest hk k v hk1 hk2 hv hdig hi hki hsi
  rw [hvi] at h6 h7 h8
  exact ⟨img', r, h1, h2, h3, h6, h7, h8⟩

/-- `remove`: a stored key is erased (and only it), `num` drops by one and `usedslots` by the
    `need` of its value; an absent key answers ENOENT and nothing changes -/
theorem remove_refines (img : Img) (hw : WF img) (hashC : CanonKey → Nat) (digest : Bytes → Bytes)
    (hk : KeysOK hashC img) (k : Bytes) (hk1 : 0 < k.length) :
    (∀ old, (abs img).lookup (canon digest k) = some old →
      ∃ img', remove img k (hashC (canon digest k)) (digest k) = .ok (img', .ok) ∧ WF img' ∧ KeysOK hashC img' ∧
        EraseRel img img' (canon digest k) ∧ img'.num = img.num - 1 ∧
        img'.usedslots = img.usedslots - (need old.length : Int)) ∧
    ((abs img).lookup (canon digest k) = none →
      remove img k (hashC (canon digest k)) (digest k) = .ok (img, .err .ENOENT)) := by
  obtain ⟨hfound, hnot⟩ := remove_eq hw hashC digest hk k hk1
  constructor
  · intro old hold
    obtain ⟨i, hi, hki, hsi, hvi⟩ := (mem_abs _ _).mp (AMap.mem_of_lookup _ _ _ hold)
    obtain ⟨img', ρ, hrm, hw', _, hnum', hkr, hu', _⟩ := removeByIdx_rel hw hi hki
    have her := hkr.eraseRel hk hi hki
    rw [hsi] at her
    rw [hvi] at hu'
    exact ⟨img', by rw [hfound i hi hki hsi, hrm], hw', hkr.keysOK hk, her, hnum', hu'⟩
  · intro hnone
    apply hnot
    intro y hy hky hs
    have := lookup_abs_some hk hy hky
    rw [hs, hnone] at this
    cases this

/-- `remove_by_idx` of a key slot removes exactly the key stored there (all three cases incl.
    promotion of a collision key); any other slot answers ENOENT and nothing changes (an index outside
    the table answers EINVAL: `C07.remove_by_idx_out_of_range`; `history_refines` covers every index) -/
theorem remove_by_idx_refines (img : Img) (hw : WF img) (hashC : CanonKey → Nat) (hk : KeysOK hashC img)
    (i : Nat) (hi : i < img.n) :
    ((img.sl i).isKey = true →
      ∃ img', removeByIdx img i = .ok (img', .ok) ∧ WF img' ∧ KeysOK hashC img' ∧
        EraseRel img img' (storedKey (img.sl i)) ∧ img'.num = img.num - 1 ∧
        img'.usedslots = img.usedslots - (need (value img i).length : Int)) ∧
    ((img.sl i).isKey = false → removeByIdx img i = .ok (img, .err .ENOENT)) := by
  constructor
  · intro hki
    obtain ⟨img', ρ, hrm, hw', _, hnum', hkr, hu', _⟩ := removeByIdx_rel hw hi hki
    exact ⟨img', hrm, hw', hkr.keysOK hk, hkr.eraseRel hk hi hki, hnum', hu'⟩
  · exact removeByIdx_nonkey hw.loc hi

/-- `clear` empties the map -/
theorem clear_refines (hashC : CanonKey → Nat) (cap : Nat) (img : Img) (m : AMap) (h : Ref hashC cap img m) (hn : img.n = cap) :
    ∃ img', clear img = .ok img' ∧ Ref hashC cap img' [] := by
  obtain ⟨img', o, h1, _, h3, _⟩ :=
    step_refines (digest := fun _ => List.replicate 16 0) (by intro k; simp) h hn .clear trivial
  simp only [mstep] at h1
  cases hc : clear img with
  | error e => rw [hc] at h1; cases h1
  | ok img'' =>
    rw [hc] at h1
    simp only [Except.map, Except.ok.injEq, Prod.mk.injEq] at h1
    obtain ⟨rfl, _⟩ := h1
    exact ⟨img'', rfl, h3⟩

/-- **the two reported counters are exact**: number of stored keys, and number of slots their values
    occupy (`Σ need |v|`), for every image that represents a map (`history_refines`: every reachable one) -/
theorem counters_exact (hashC : CanonKey → Nat) (cap : Nat) (img : Img) (m : AMap) (h : Ref hashC cap img m) :
    size img = ((m.length : Int), (cap : Int), (m.used : Int)) := by
  unfold size; rw [h.num, h.cap, h.used]

/-- **the counters are exact in the C structs, not only in the unbounded model**: for every image that
    represents a map in a table of fewer than 2^31 slots, every field the code stores (`count`, `hash`,
    `datasize`, `link`, `maxslots`, `usedslots`, `num`) is representable in the field of the CURRENT
    header (`cWidths`, regenerated) iff no home slot carries more than 32767 keys; in particular always
    for at most 32767 slots.  The key length bound `< 65536` of the theorems above is the width of
    `pair.namesize`, which the model stores itself. -/
theorem widths_suffice (hashC : CanonKey → Nat) (cap : Nat) (img : Img) (m : AMap) (h : Ref hashC cap img m)
    (hcap : cap < 2147483648) :
    (Fits cWidths img ↔ ∀ s, s < img.n → (img.sl s).count ≥ 1 → img.ncoll s < 32767) ∧
    (cap ≤ 32767 → Fits cWidths img) := by
  have hc := h.cap
  exact ⟨widths_suffice' h.wf (by omega), fun hs => widths_suffice_small' h.wf (by omega)⟩

/-- **the traversal is complete**: `getnext` from index 0 yields every key of the abstraction exactly
    once (stored prefix, whole value), in slot order, and never faults -/
theorem walk_complete (img : Img) (hw : WF img) :
    ∃ l, walk img = .ok l ∧
      l.map (fun e => (e.2.name, e.2.data)) = (abs img).map (fun e => (e.1.pre, e.2)) := by
  refine ⟨_, walk_eq hw, ?_⟩
  rw [abs_eq_keysFrom, List.map_map, List.map_map]
  rfl

/-- **every history refines the ideal bounded map**: for every capacity and every sequence of put,
    get, remove, remove-by-index, clear and size operations, the model never faults, produces the same
    outputs as the ideal map of that capacity with the exact space rule (`AMap.put`), and ends in an
    image that represents the ideal map's final state (hence `counters_exact` holds after every step) -/
theorem history_refines (hashC : CanonKey → Nat) (digest : Bytes → Bytes) (hdig : ∀ k, (digest k).length = 16)
    (cap : Nat) (hcap : 1 ≤ cap) (ops : List KOp) (hv : ∀ op ∈ ops, op.valid cap) :
    ∃ img m outs, runBoth hashC digest cap (init cap) [] ops = .ok (img, m, outs, outs) ∧ Ref hashC cap img m := by
  have hn : (init cap).n = cap := (wf_init' cap hcap).2
  exact runBoth_refines hdig ops (init cap) [] (ref_init hashC cap hcap) hn hv

/-- non-vacuity: the hypotheses are satisfiable (any 16-byte digest function, any hash function) -/
example : ∃ img m outs, runBoth (fun _ => 7) (fun _ => List.replicate 16 0) 3 (init 3) []
    [.put [1] [2], .put [1, 2] (List.replicate 100 3), .get [1], .removeByIdx 1, .put [1] [9, 9], .size, .clear] =
      .ok (img, m, outs, outs) ∧ Ref (fun _ => 7) 3 img m :=
  history_refines _ _ (by intro k; simp) 3 (by decide) _ (by
    intro op hop
    simp only [List.mem_cons, List.mem_nil_iff, or_false] at hop
    rcases hop with rfl | rfl | rfl | rfl | rfl | rfl | rfl <;> simp [KOp.valid])

end Qlibc.Props.C06

/-
  C07 — the static hash table image is always well-formed (and, by the type of the model, the image
  is the whole state).

  `WF img` (QlibcModel/HashArr/WF.lean): header `maxslots` = number of slots ≥ 1; every slot's union
  has 66 bytes; a leading key slot sits at its home and its count is 1 + the number of collision slots
  naming it; collision slots name a leading slot; an extension block names a non-free predecessor
  whose link points back; links point to extension blocks whose back-link points back; data sizes
  are 1..32 / 1..66 and full in every block that has a successor; `usedslots` / `num` equal the number
  of non-free / key slots; value chains are acyclic and anchored (ghost ranks).

  The theorems are total-correctness statements: from a well-formed image every mutating operation
  of the model returns `.ok` (no out-of-bounds slot access, no failed `assert`, no exhausted fuel)
  and the resulting image is well-formed — for every outcome (stored, replaced, ENOBUFS after the
  rollback, ENOENT, EINVAL), with or without relocation / promotion.  The key's 32-bit hash and
  digest are arbitrary arguments here (no assumption on the hash function at all).

  "No process addresses / nothing written outside the region / a byte copy at another address behaves
  identically" is true by construction in a value-semantic model (`attach_same`); for the C code it is
  carried by the correspondence harness (guard zones, byte-exact image comparison, relocated copy).
-/
import QlibcModel.HashArr.WFCheckComplete

namespace Qlibc.Props.C07
open Qlibc Qlibc.HashArr

/-- the freshly initialised table (`qhasharr(memory, memsize)`) is well-formed -/
theorem wf_init (cap : Nat) (h : 1 ≤ cap) : WF (init cap) := (wf_init' cap h).1

/-- ... for every region size the constructor accepts -/
theorem wf_initMem (memsize : Nat) (img : Img) (h : initMem memsize = some img) : WF img := by
  obtain ⟨rfl, hc⟩ := initMem_eq memsize img h
  exact wf_init _ hc

/-- `put` (all outcomes): never faults, result well-formed -/
theorem wf_put (img : Img) (hw : WF img) (name data md5 : Bytes) (h32 : Nat) (hmd5 : md5.length = 16) :
    ∃ img' r, put img name data h32 md5 = .ok (img', r) ∧ WF img' := by
  obtain ⟨img', r, h1, h2, _⟩ := put_wf hw name data md5 h32 hmd5
  exact ⟨img', r, h1, h2⟩

/-- `remove` (found or ENOENT / EINVAL) -/
theorem wf_remove (img : Img) (hw : WF img) (name md5 : Bytes) (h32 : Nat) :
    ∃ img' r, remove img name h32 md5 = .ok (img', r) ∧ WF img' := by
  obtain ⟨img', r, h1, h2, _⟩ := remove_wf hw name h32 md5
  exact ⟨img', r, h1, h2⟩

/-- `remove_by_idx` for EVERY index: negative or beyond the last slot answers EINVAL and touches
    nothing (the bound check of the repaired code); inside the table the three removal cases incl.
    promotion of a collision key, and ENOENT for free / extension slots -/
theorem wf_remove_by_idx (img : Img) (hw : WF img) (idx : Int) :
    ∃ img' r, removeByIdx img idx = .ok (img', r) ∧ WF img' := by
  obtain ⟨img', r, h1, h2, _⟩ := removeByIdx_wf hw idx
  exact ⟨img', r, h1, h2⟩

/-- an index outside the table is rejected and the image is untouched -/
theorem remove_by_idx_out_of_range (img : Img) (idx : Int) (h : idx < 0 ∨ idx ≥ img.maxslots) :
    removeByIdx img idx = .ok (img, .err .EINVAL) := by
  unfold removeByIdx; rw [if_pos h]; rfl

/-- `clear` -/
theorem wf_clear (img : Img) (hw : WF img) : ∃ img', clear img = .ok img' ∧ WF img' := by
  obtain ⟨img', h1, h2, _⟩ := clear_wf hw
  exact ⟨img', h1, h2⟩

/-- **every image reachable by any operation sequence is well-formed**, for every capacity -/
theorem wf_reachable (cap : Nat) (hcap : 1 ≤ cap) (ops : List Op) (hv : ∀ op ∈ ops, op.valid cap) :
    ∃ img, run (init cap) ops = .ok img ∧ WF img := by
  obtain ⟨hw, hn⟩ := wf_init' cap hcap
  obtain ⟨img, h1, h2, _⟩ := run_wf ops (init cap) hw (by rw [hn]; exact hv)
  exact ⟨img, h1, h2⟩

/-- the Boolean checker evaluated by the correspondence driver after every operation is sound -/
theorem wf_check_sound (img : Img) (h : wfCheck img = true) : WF img := wfCheck_sound h

/-- ... and complete: the checker decides well-formedness -/
theorem wf_check_iff (img : Img) : wfCheck img = true ↔ WF img := wfCheck_iff img

/-- the image is the whole state: continuing a history through "another handle" is the same as
    continuing it through the first (operations are functions of the image alone) -/
theorem attach_same (img : Img) (ops1 ops2 : List Op) :
    run img (ops1 ++ ops2) = (run img ops1 >>= fun img' => run img' ops2) := by
  induction ops1 generalizing img with
  | nil => rfl
  | cons op ops ih =>
    simp only [List.cons_append, run]
    cases step img op with
    | error e => rfl
    | ok img' => exact ih img'

/-- non-vacuity: valid histories exist for every capacity, e.g. three keys with the same home (one
    two-slot value), a removal by index and indexes outside the table -/
example : ∃ img, run (init 4) [Op.put [1] (List.replicate 40 7) 1 (List.replicate 16 0),
      Op.put [2] [9] 1 (List.replicate 16 0), Op.put [3] [8] 5 (List.replicate 16 0),
      Op.removeByIdx 1, Op.removeByIdx 4, Op.removeByIdx 2147483647, Op.removeByIdx (-1)] = .ok img ∧ WF img :=
  wf_reachable 4 (by decide) _ (by
    intro op hop
    simp only [List.mem_cons, List.mem_nil_iff, or_false] at hop
    rcases hop with rfl | rfl | rfl | rfl | rfl | rfl | rfl <;> simp [Op.valid])

end Qlibc.Props.C07

/-
  C07 — the static hash table image is always well-formed (and, by the type of the model, the image
  is the whole state).

  `WF img` (QlibcModel/HashArr/WF.lean): header `maxslots` = number of slots ≥ 1; every slot's union
  has 66 bytes; a leading key slot sits at its home and its count is 1 + the number of collision slots
  naming it; collision slots name a leading slot; an extension block names a non-free predecessor
  whose link points back; links point to extension blocks whose back-link points back; data sizes
  are 1..32 / 1..66 and full in every block that has a successor; `usedslots` / `num` equal the number
  of non-free / key slots; value chains are acyclic and anchored (ghost ranks).

  The theorems are total-correctness statements: from a well-formed image every mutating operation
  of the model returns `.ok` (no out-of-bounds slot access, no failed `assert`, no exhausted fuel)
  and the resulting image is well-formed — for every outcome (stored, replaced, ENOBUFS after the
  rollback, ENOENT, EINVAL), with or without relocation / promotion.  The key's 32-bit hash and
  digest are arbitrary arguments here (no assumption on the hash function at all).

  "No process addresses / nothing written outside the region / a byte copy at another address behaves
  identically" is true by construction in a value-semantic model (`attach_same`); for the C code it is
  carried by the correspondence harness (guard zones, byte-exact image comparison, relocated copy).
-/
import QlibcModel.HashArr.WFCheckComplete
import QlibcModel.HashArr.FaultSpec
import QlibcModel.HashArr.Widths
import QlibcModel.Shapes.Harr

namespace Qlibc.Props.C07
open Qlibc Qlibc.HashArr

/-- the freshly initialised table (`qhasharr(memory, memsize)`) is well-formed -/
theorem wf_init (cap : Nat) (h : 1 ≤ cap) : WF (init cap) := (wf_init' cap h).1

/-- ... for every region size the constructor accepts -/
theorem wf_initMem (memsize : Nat) (hsz : memsize < 2 ^ 31 * Qlibc.Generated.HarrLayout.sizeofSlot) (img : Img)
    (h : initMem memsize = some img) : WF img := by
  obtain ⟨rfl, hc⟩ := initMem_eq memsize hsz img h
  exact wf_init _ hc

/-- **the constructor is total in the region size** (`memsize > 0`, fewer than 2^31 slots so that the
    `int maxslots` does not truncate): a region of at most `sizeof(qhasharr_t)` bytes — in particular one
    smaller than the header, where the unsigned subtraction wraps — is refused (EINVAL) and nothing is
    written (`none`: the model has no image to change); every larger region becomes the well-formed
    empty table with `maxslots = (memsize − header) / slotsize`, and the image has exactly that many
    slots (the bytes of the region, no others) -/
theorem init_total (memsize : Nat) (hsz : memsize < 2 ^ 31 * Qlibc.Generated.HarrLayout.sizeofSlot) :
    (memsize ≤ Qlibc.Generated.HarrLayout.sizeofHandle ∧ initMem memsize = none) ∨
    (Qlibc.Generated.HarrLayout.sizeofHandle < memsize ∧
      ∃ img, initMem memsize = some img ∧ WF img ∧ img.usedslots = 0 ∧ img.num = 0 ∧
        img.maxslots = (((memsize - Qlibc.Generated.HarrLayout.sizeofHeader) / Qlibc.Generated.HarrLayout.sizeofSlot : Nat) : Int) ∧
        img.n = (memsize - Qlibc.Generated.HarrLayout.sizeofHeader) / Qlibc.Generated.HarrLayout.sizeofSlot ∧
        Qlibc.Generated.HarrLayout.sizeofHeader + Qlibc.Generated.HarrLayout.sizeofSlot * img.n ≤ memsize) := by
  by_cases h : memsize ≤ Qlibc.Generated.HarrLayout.sizeofHandle
  · exact Or.inl ⟨h, initMem_small memsize h⟩
  · right
    have hlt : Qlibc.Generated.HarrLayout.sizeofHandle < memsize := by omega
    have he := initMem_large memsize hlt hsz
    obtain ⟨_, hc⟩ := initMem_eq memsize hsz _ he
    refine ⟨hlt, _, he, wf_init _ hc, rfl, rfl, rfl, (wf_init' _ hc).2, ?_⟩
    rw [(wf_init' _ hc).2]
    have h1 := Nat.mul_div_le (memsize - Qlibc.Generated.HarrLayout.sizeofHeader) Qlibc.Generated.HarrLayout.sizeofSlot
    have h2 := layout_ctor.2.2.1
    omega

/-- `put` (all outcomes): never faults, result well-formed -/
theorem wf_put (img : Img) (hw : WF img) (name data md5 : Bytes) (h32 : Nat) (hmd5 : md5.length = 16) :
    ∃ img' r, put img name data h32 md5 = .ok (img', r) ∧ WF img' := by
  obtain ⟨img', r, h1, h2, _⟩ := put_wf hw name data md5 h32 hmd5
  exact ⟨img', r, h1, h2⟩

/-- `remove` (found or ENOENT / EINVAL) -/
theorem wf_remove (img : Img) (hw : WF img) (name md5 : Bytes) (h32 : Nat) :
    ∃ img' r, remove img name h32 md5 = .ok (img', r) ∧ WF img' := by
  obtain ⟨img', r, h1, h2, _⟩ := remove_wf hw name h32 md5
  exact ⟨img', r, h1, h2⟩

/-- `remove_by_idx` for EVERY index: negative or beyond the last slot answers EINVAL and touches
    nothing (the bound check of the repaired code); inside the table the three removal cases incl.
    promotion of a collision key, and ENOENT for free / extension slots -/
theorem wf_remove_by_idx (img : Img) (hw : WF img) (idx : Int) :
    ∃ img' r, removeByIdx img idx = .ok (img', r) ∧ WF img' := by
  obtain ⟨img', r, h1, h2, _⟩ := removeByIdx_wf hw idx
  exact ⟨img', r, h1, h2⟩

/-- an index outside the table is rejected and the image is untouched -/
theorem remove_by_idx_out_of_range (img : Img) (idx : Int) (h : idx < 0 ∨ idx ≥ img.maxslots) :
    removeByIdx img idx = .ok (img, .err .EINVAL) := by
  unfold removeByIdx; rw [if_pos h]; rfl

/-- **`getnext` is total in the index**: on a well-formed image it never faults whatever `*idx` is; a
    negative index is rejected (EINVAL) and returned unchanged, an index at or behind the end answers
    ENOENT without reading anything -/
theorem getnext_total (img : Img) (hw : WF img) (idx : Int) :
    (∃ r, getnext img idx = .ok r) ∧
    (idx < 0 → getnext img idx = .ok (none, idx) ∧ getnextErrno idx = .EINVAL) ∧
    ((img.n : Int) ≤ idx → getnext img idx = .ok (none, idx) ∧ getnextErrno idx = .ENOENT) := by
  refine ⟨Qlibc.HashArr.getnext_total hw idx, fun h => ⟨getnext_neg img idx h, by simp [getnextErrno, h]⟩,
    fun h => ⟨getnext_beyond hw idx h, ?_⟩⟩
  have : ¬ idx < 0 := by omega
  simp [getnextErrno, this]

/-- **the documented-invalid calls are the identity on the image**: every call of the `inv` probe (NULL
    table / name / data / object / index pointers, zero sizes, indexes outside the table, a NULL stream)
    is answered EINVAL (EIO for the stream) and the image is returned unchanged; the two valid border
    cases (NULL size pointer, NULL output pointers) answer like the plain calls -/
theorem inv_identity (img : Img) (hw : WF img) (probe md5 : Bytes) (h32 : Nat) :
    ∃ answers, invProbe img probe h32 md5 = .ok (img, answers) ∧
      ∀ a ∈ answers, a.2 = "EINVAL" ∨ a.1 = "gbo:nosize" ∨ a.1 = "size:noout" ∨ a.1 = "debug:out" := by
  obtain ⟨r, hr⟩ := get_total hw probe h32 md5
  unfold invProbe
  simp only [hr, bind, Except.bind, pure, Except.pure]
  refine ⟨_, rfl, ?_⟩
  have hmax : idxInvalid img img.maxslots = true := by simp [idxInvalid]
  have hneg : idxInvalid img (-1) = true := by simp [idxInvalid]
  intro a ha
  simp only [List.mem_cons, List.mem_nil_iff, or_false] at ha
  rcases ha with rfl | rfl | rfl | rfl | rfl | rfl | rfl | rfl | rfl | rfl | rfl | rfl | rfl | rfl | rfl | rfl | rfl |
    rfl | rfl | rfl | rfl | rfl | rfl | rfl | rfl | rfl | rfl | rfl | rfl | rfl | rfl <;>
    simp [einvalIf, putInvalid, keyInvalid, nextInvalid, hmax, hneg]

/-- `clear` -/
theorem wf_clear (img : Img) (hw : WF img) : ∃ img', clear img = .ok img' ∧ WF img' := by
  obtain ⟨img', h1, h2, _⟩ := clear_wf hw
  exact ⟨img', h1, h2⟩

/-- **every image reachable by any operation sequence is well-formed**, for every capacity -/
theorem wf_reachable (cap : Nat) (hcap : 1 ≤ cap) (ops : List Op) (hv : ∀ op ∈ ops, op.valid cap) :
    ∃ img, run (init cap) ops = .ok img ∧ WF img := by
  obtain ⟨hw, hn⟩ := wf_init' cap hcap
  obtain ⟨img, h1, h2, _⟩ := run_wf ops (init cap) hw (by rw [hn]; exact hv)
  exact ⟨img, h1, h2⟩

/-- **the field widths of the current structs suffice** (the model keeps `count`, `hash`, `datasize`,
    `link` and the header counters unbounded; `Fits cWidths img`: every value the code stores is
    representable in the C field of `sizeofCount` / `sizeofHash` / `sizeofDatasize` / `sizeofLink` /
    `sizeofMaxslots` bytes of the CURRENT header, so the model is exact on the image): for every
    well-formed table of fewer than 2^31 slots, iff no home slot carries more than 32767 keys at once
    (`count` is a 16-bit `short`: 1 + the number of colliding keys).  `hash` (32 bits) holds every
    home-slot number and back-link, `link` (signed 32 bits) every extension-slot index, `datasize`
    (8 bits) the 66 payload bytes of a slot — unconditionally below 2^31 slots. -/
theorem widths_suffice (img : Img) (hw : WF img) (hmax : img.maxslots < 2147483648) :
    Fits cWidths img ↔ ∀ h, h < img.n → (img.sl h).count ≥ 1 → img.ncoll h < 32767 :=
  widths_suffice' hw hmax

/-- ... and up to 32767 slots there is no condition at all -/
theorem widths_suffice_small (img : Img) (hw : WF img) (hmax : img.maxslots ≤ 32767) : Fits cWidths img :=
  widths_suffice_small' hw hmax

/-- what ANY widths must hold (the converse, field by field): `count` 1 + the number of keys colliding in
    each home; `hash` the index of every occupied home and of every predecessor of an extension block;
    `link` the index of every extension block; the counters `maxslots` — a narrower `count`, `hash` or
    `link` is contradicted by a reachable image (128 keys in one home; a key whose home lies beyond
    65535; a value longer than 32 bytes stored beyond slot 32767) -/
theorem widths_necessary (w : Widths) (img : Img) (hw : WF img) (hf : Fits w img) :
    (∀ h, h < img.n → (img.sl h).count ≥ 1 → 1 + (img.ncoll h : Int) < sBound w.count) ∧
    (∀ i, i < img.n → (img.sl i).count ≥ 1 → i < uBound w.hash) ∧
    (∀ j, j < img.n → (img.sl j).count = -2 → (j : Int) < sBound w.link ∧ (img.sl j).hash < uBound w.hash) ∧
    (img.n : Int) < sBound w.counter :=
  fits_necessary w hw hf

/-- every image reachable in a table of at most 32767 slots is representable: there the theorems of
    C06 / C07 about the unbounded model are theorems about the C structs -/
theorem widths_reachable (cap : Nat) (hcap : 1 ≤ cap) (hsmall : cap ≤ 32767) (ops : List Op) (hv : ∀ op ∈ ops, op.valid cap) :
    ∃ img, run (init cap) ops = .ok img ∧ WF img ∧ Fits cWidths img := by
  obtain ⟨hw, hn⟩ := wf_init' cap hcap
  obtain ⟨img, h1, h2, h3⟩ := run_wf ops (init cap) hw (by rw [hn]; exact hv)
  refine ⟨img, h1, h2, widths_suffice_small img h2 ?_⟩
  have := h2.1.1
  omega

/-- `pair.namesize` is stored by the model itself (two little-endian bytes): exact for keys shorter than
    2^16 bytes — the hypothesis `k.length < 65536` of the C06 theorems — and wrapping above -/
theorem namesize_width (n : Nat) (hn : n < uBound Qlibc.Generated.HarrLayout.sizeofPairNamesize) :
    ((le16 n).getD 0 0).toNat + 256 * ((le16 n).getD 1 0).toNat = n ∧ le16 65536 = le16 0 :=
  ⟨namesize_exact n hn, namesize_wraps⟩

/-- the Boolean checker evaluated by the correspondence driver after every operation is sound -/
theorem wf_check_sound (img : Img) (h : wfCheck img = true) : WF img := wfCheck_sound h

/-- ... and complete: the checker decides well-formedness -/
theorem wf_check_iff (img : Img) : wfCheck img = true ↔ WF img := wfCheck_iff img

/-- the image is the whole state: continuing a history through "another handle" is the same as
    continuing it through the first (operations are functions of the image alone) -/
theorem attach_same (img : Img) (ops1 ops2 : List Op) :
    run img (ops1 ++ ops2) = (run img ops1 >>= fun img' => run img' ops2) := by
  induction ops1 generalizing img with
  | nil => rfl
  | cons op ops ih =>
    simp only [List.cons_append, run]
    cases step img op with
    | error e => rfl
    | ok img' => exact ih img'

/-- non-vacuity: valid histories exist for every capacity, e.g. three keys with the same home (one
    two-slot value), a removal by index and indexes outside the table -/
example : ∃ img, run (init 4) [Op.put [1] (List.replicate 40 7) 1 (List.replicate 16 0),
      Op.put [2] [9] 1 (List.replicate 16 0), Op.put [3] [8] 5 (List.replicate 16 0),
      Op.removeByIdx 1, Op.removeByIdx 4, Op.removeByIdx 2147483647, Op.removeByIdx (-1)] = .ok img ∧ WF img :=
  wf_reachable 4 (by decide) _ (by
    intro op hop
    simp only [List.mem_cons, List.mem_nil_iff, or_false] at hop
    rcases hop with rfl | rfl | rfl | rfl | rfl | rfl | rfl <;> simp [Op.valid])

end Qlibc.Props.C07

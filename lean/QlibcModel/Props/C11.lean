/-
  C11 — containers are memory-safe and leak-free for every operation history.

  Lean cannot prove anything about the machine code gcc emits; machine-level memory safety is
  sampled by ASan/UBSan/LSan on every correspondence run of every container (and this property's
  own streams check the allocation ledger after EVERY operation and at release).  What IS proved
  is the part of memory safety that is logic.  Every model function whose C original can
  dereference NULL, follow a dangling pointer, index out of bounds, loop forever or memcpy
  overlapping ranges returns `Except Fault`; the obligations of this property are the theorems,
  proved for ALL histories / inputs, that the result is `.ok`:

    tree table   C02.put_preserves_llrb, C02.remove_preserves_llrb   (no NULL child dereference in
                 flip/rotate/move_red_*/fix, no failed assertion, fuel suffices), C02.reachable_llrb,
                 C03.walk_complete (no dangling cursor, fuel suffices), C04.nearest_terminates
    list/queue/… C09.walk_spec, C09.get_obj_spec (nearest-end walk finds the node), C09.history_refines
    vector       C10.removeat_no_overlap (the block move is never memcpy on overlapping ranges, for
                 the primitive the CURRENT source calls), C10.history_refines (all slots inside the buffer)
    decoders     C17.urlDecode_safe, C17.b64Decode_safe, C17.hexDecode_safe, C17.parseQueries_safe
    hashes       C18.reads_in_bounds
    strings      C19.*_writes_in_contract, C19.replace_fits, C19.strcpy_bounded

  (they are audited as obligations of this property by checks/c11.py), plus the ledger facts below.
-/
import QlibcModel.Props.C02
import QlibcModel.Props.C03
import QlibcModel.Props.C04
import QlibcModel.Props.C09
import QlibcModel.Props.C10
import QlibcModel.Props.C17
import QlibcModel.Props.C18
import QlibcModel.Props.C19
import QlibcModel.Tree.FaultSpec
import QlibcModel.Props.C11Seq
import QlibcModel.Props.C11Map
import QlibcModel.Props.C11Harr
import QlibcModel.Shapes.Tree
import QlibcModel.Shapes.Hashtbl
import QlibcModel.Shapes.Listtbl
import QlibcModel.Shapes.Seq
import QlibcModel.Shapes.Harr

namespace Qlibc.Props.C11
open Qlibc Qlibc.Tree Qlibc.Tree.T
variable {K V : Type} (isEmpty : V → Bool)

/-- the blocks a tree table owns are determined by its contents: the handle, and per entry the
    node, the key and (if non-empty) the value — the harness reports exactly this number from
    its allocator wrapper after every operation -/
theorem tree_ledger (s : Tbl K V) :
    s.live isEmpty = 1 + (s.abs.map (fun p => if isEmpty p.2 then 2 else 3)).sum := by
  simp only [Tbl.live, Tbl.abs, List.map_map]
  congr 2

/-- equal contents, equal number of live blocks: no operation sequence that ends in the same
    contents can have leaked or double-freed a block -/
theorem tree_ledger_congr (s s' : Tbl K V) (h : s.abs = s'.abs) : s.live isEmpty = s'.live isEmpty :=
  Tbl.live_congr isEmpty s s' h

/-- `clear` (and hence `free`, which also releases the handle) releases every node -/
theorem tree_clear_releases_all (s : Tbl K V) : s.clear.live isEmpty = 1 := Tbl.live_clear isEmpty s

-- non-vacuity
example : (Tbl.init : Tbl Bytes Bytes).live (·.isEmpty) = 1 := rfl

end Qlibc.Props.C11

/-
  C19 — string utilities compute exactly their documented function with bounded writes.

  Conventions of the statements:
  * a C string argument is a block `s ++ 0 :: rest` with `NulFree s` (`rest` = whatever else the
    block holds behind the terminator; `rest = []` is the exactly sized block);
  * the model functions return `.error .oob` for any load/store outside a block, so every
    `… = .ok b` below contains "no access outside the blocks";
  * `cstr b` is the C string a block holds; the right-hand sides are the reference definitions
    of `Str/Spec.lean`;
  * `*_writes_in_contract`: the block keeps its size and the bytes behind the original
    terminator (`rest`) are unchanged — the routine wrote only into the string's own `n+1` bytes.
-/
import QlibcModel.Str.TrimLemmas
import QlibcModel.Str.MapLemmas
import QlibcModel.Str.CopyLemmas
import QlibcModel.Str.TokLemmas
import QlibcModel.Str.ReplLemmas
import QlibcModel.Str.DupLemmas
import QlibcModel.Str.CommaLemmas
import QlibcModel.Str.Ip4Lemmas
import QlibcModel.Str.EmailLemmas
import QlibcModel.Str.FmtLemmas
import QlibcModel.Str.UniqueLemmas
import QlibcModel.Shapes.Str

namespace Qlibc.Props.C19
open Qlibc Qlibc.Str

/-! ### trimming -/

theorem trim_eq (s rest : Bytes) (hs : NulFree s) :
    ∃ b, qstrtrim (s ++ 0 :: rest) = .ok b ∧ cstr b = trim s := by
  obtain ⟨junk, hl, h⟩ := qstrtrim_correct s rest hs
  exact ⟨_, h, (inplace_shape _ junk rest _ hl (trimTail_nulFree (trimHead_nulFree hs))).1⟩

theorem trim_writes_in_contract (s rest : Bytes) (hs : NulFree s) :
    ∃ b, qstrtrim (s ++ 0 :: rest) = .ok b ∧ b.length = (s ++ 0 :: rest).length ∧
      b.drop (s.length + 1) = rest := by
  obtain ⟨junk, hl, h⟩ := qstrtrim_correct s rest hs
  have := inplace_shape _ junk rest _ hl (trimTail_nulFree (trimHead_nulFree hs))
  exact ⟨_, h, by rw [this.2.1]; simp; omega, this.2.2⟩

theorem trim_head_eq (s rest : Bytes) (hs : NulFree s) :
    ∃ b, qstrtrimHead (s ++ 0 :: rest) = .ok b ∧ cstr b = trimHead s := by
  obtain ⟨junk, hl, h⟩ := qstrtrimHead_correct s rest hs
  exact ⟨_, h, (inplace_shape _ junk rest _ hl (trimHead_nulFree hs)).1⟩

theorem trim_head_writes_in_contract (s rest : Bytes) (hs : NulFree s) :
    ∃ b, qstrtrimHead (s ++ 0 :: rest) = .ok b ∧ b.length = (s ++ 0 :: rest).length ∧
      b.drop (s.length + 1) = rest := by
  obtain ⟨junk, hl, h⟩ := qstrtrimHead_correct s rest hs
  have := inplace_shape _ junk rest _ hl (trimHead_nulFree hs)
  exact ⟨_, h, by rw [this.2.1]; simp; omega, this.2.2⟩

theorem trim_tail_eq (s rest : Bytes) (hs : NulFree s) :
    ∃ b, qstrtrimTail (s ++ 0 :: rest) = .ok b ∧ cstr b = trimTail s := by
  obtain ⟨junk, hl, h⟩ := qstrtrimTail_correct s rest hs
  exact ⟨_, h, (inplace_shape _ junk rest _ hl (trimTail_nulFree hs)).1⟩

theorem trim_tail_writes_in_contract (s rest : Bytes) (hs : NulFree s) :
    ∃ b, qstrtrimTail (s ++ 0 :: rest) = .ok b ∧ b.length = (s ++ 0 :: rest).length ∧
      b.drop (s.length + 1) = rest := by
  obtain ⟨junk, hl, h⟩ := qstrtrimTail_correct s rest hs
  have := inplace_shape _ junk rest _ hl (trimTail_nulFree hs)
  exact ⟨_, h, by rw [this.2.1]; simp; omega, this.2.2⟩

/-! ### unquoting -/

/-- `qstrunchar` returns NULL (and leaves the block alone: the model returns no new block)
    exactly when the reference says so; otherwise the block holds the unquoted string, followed
    by two left-over bytes and the untouched surplus -/
theorem unchar_eq (s rest : Bytes) (hd tl : UInt8) (hs : NulFree s) :
    (unchar hd tl s = none → qstrunchar (s ++ 0 :: rest) hd tl = .ok none) ∧
    (∀ m, unchar hd tl s = some m → ∃ b, qstrunchar (s ++ 0 :: rest) hd tl = .ok (some b) ∧
      cstr b = m) := by
  have h := qstrunchar_correct s rest hd tl hs
  refine ⟨h.1, fun m hm => ?_⟩
  obtain ⟨junk, hj, hb⟩ := h.2 m hm
  have ⟨hmn, hml⟩ := unchar_some_facts hd tl s m hs hm
  exact ⟨_, hb, (inplace_shape m junk rest s.length (by omega) hmn).1⟩

theorem unchar_writes_in_contract (s rest : Bytes) (hd tl : UInt8) (hs : NulFree s) (m : Bytes)
    (hm : unchar hd tl s = some m) :
    ∃ b, qstrunchar (s ++ 0 :: rest) hd tl = .ok (some b) ∧
      b.length = (s ++ 0 :: rest).length ∧ b.drop (s.length + 1) = rest := by
  obtain ⟨junk, hj, hb⟩ := (qstrunchar_correct s rest hd tl hs).2 m hm
  have ⟨hmn, hml⟩ := unchar_some_facts hd tl s m hs hm
  have := inplace_shape m junk rest s.length (by omega) hmn
  exact ⟨_, hb, by rw [this.2.1]; simp; omega, this.2.2⟩

/-! ### case conversion and reversal (the whole block is given: nothing but the string changes) -/

theorem upper_eq (s rest : Bytes) (hs : NulFree s) :
    qstrupper (s ++ 0 :: rest) = .ok (upper s ++ 0 :: rest) := qstrupper_correct s rest hs

theorem lower_eq (s rest : Bytes) (hs : NulFree s) :
    qstrlower (s ++ 0 :: rest) = .ok (lower s ++ 0 :: rest) := qstrlower_correct s rest hs

theorem rev_eq (s rest : Bytes) (hs : NulFree s) :
    qstrrev (s ++ 0 :: rest) = .ok (s.reverse ++ 0 :: rest) := qstrrev_correct s rest hs

theorem upper_writes_in_contract (s rest : Bytes) (hs : NulFree s) :
    ∃ b, qstrupper (s ++ 0 :: rest) = .ok b ∧ b.length = (s ++ 0 :: rest).length ∧
      b.drop (s.length + 1) = rest := by
  refine ⟨_, upper_eq s rest hs, by simp [upper], ?_⟩
  have e : upper s ++ 0 :: rest = (upper s ++ [0]) ++ rest := by simp
  have l : (upper s ++ [0]).length = s.length + 1 := by simp [upper]
  rw [e, ← l, List.drop_left]

theorem lower_writes_in_contract (s rest : Bytes) (hs : NulFree s) :
    ∃ b, qstrlower (s ++ 0 :: rest) = .ok b ∧ b.length = (s ++ 0 :: rest).length ∧
      b.drop (s.length + 1) = rest := by
  refine ⟨_, lower_eq s rest hs, by simp [lower], ?_⟩
  have e : lower s ++ 0 :: rest = (lower s ++ [0]) ++ rest := by simp
  have l : (lower s ++ [0]).length = s.length + 1 := by simp [lower]
  rw [e, ← l, List.drop_left]

theorem rev_writes_in_contract (s rest : Bytes) (hs : NulFree s) :
    ∃ b, qstrrev (s ++ 0 :: rest) = .ok b ∧ b.length = (s ++ 0 :: rest).length ∧
      b.drop (s.length + 1) = rest := by
  refine ⟨_, rev_eq s rest hs, by simp, ?_⟩
  have e : s.reverse ++ 0 :: rest = (s.reverse ++ [0]) ++ rest := by simp
  have l : (s.reverse ++ [0]).length = s.length + 1 := by simp
  rw [e, ← l, List.drop_left]

/-! ### bounded copy -/

/-- `qstrcpy(dst, size, src)` with `1 ≤ size ≤ capacity of dst`: the destination holds the first
    `size - 1` bytes of the source, the terminator sits at index `min |s| (size-1)`, and every
    byte behind the terminator keeps its value -/
theorem strcpy_eq (dst s rest : Bytes) (size : Nat) (hs : NulFree s) (h1 : 1 ≤ size)
    (h2 : size ≤ dst.length) :
    qstrcpy dst size (s ++ 0 :: rest)
      = .ok (boundedCopy size s ++ 0 :: dst.drop (min s.length (size - 1) + 1)) :=
  qstrcpy_correct dst s rest size hs h1 h2

/-- writes ⊆ [0, size): the block keeps its length, holds `take (size-1) s` as a C string with
    the terminator at `min |s| (size-1)`, and every index `≥ size` is unchanged -/
theorem strcpy_bounded (dst s rest : Bytes) (size : Nat) (hs : NulFree s) (h1 : 1 ≤ size)
    (h2 : size ≤ dst.length) :
    ∃ b, qstrcpy dst size (s ++ 0 :: rest) = .ok b ∧ b.length = dst.length ∧
      cstr b = boundedCopy size s ∧ b[min s.length (size - 1)]? = some 0 ∧
      ∀ i, size ≤ i → b[i]? = dst[i]? := by
  have hbl : (boundedCopy size s).length = min s.length (size - 1) := by
    simp [boundedCopy, List.length_take, Nat.min_comm]
  refine ⟨_, strcpy_eq dst s rest size hs h1 h2, ?_, ?_, ?_, ?_⟩
  · simp [hbl]; omega
  · exact cstr_append_nul (NulFree.sublist (List.take_sublist _ _) hs) _
  · rw [← hbl]; simp
  · intro i hi
    have hge : (boundedCopy size s).length + 1 ≤ i := by rw [hbl]; omega
    have e : boundedCopy size s ++ 0 :: dst.drop (min s.length (size - 1) + 1)
        = (boundedCopy size s ++ [0]) ++ dst.drop (min s.length (size - 1) + 1) := by simp
    rw [e, List.getElem?_append_right (by simpa using hge), List.getElem?_drop]
    congr 1
    simp [hbl]; omega

theorem strcpy_size_zero (dst src : Bytes) : qstrcpy dst 0 src = .ok dst := qstrcpy_size_zero dst src

/-- `qstrncpy(dst, size, src, nbytes)`: with `n = min nbytes (size-1)` bytes readable at `src`
    the destination receives exactly these and a terminator at `n`; nothing else changes -/
theorem strncpy_bounded (dst src : Bytes) (size nbytes : Nat) (h1 : 1 ≤ size)
    (h2 : size ≤ dst.length) (h3 : min nbytes (size - 1) ≤ src.length) :
    qstrncpy dst size src nbytes
      = .ok (src.take (min nbytes (size - 1)) ++ 0 :: dst.drop (min nbytes (size - 1) + 1)) :=
  qstrncpy_spec dst src size nbytes h1 h2 h3

/-! ### bounded copy with source and destination in one block (overlap is documented) -/

/-- `qstrncpy(buf + d, size, buf + s, nbytes)` for ANY relative position of `d` and `s` (equal,
    overlapping either way, disjoint): with `n = min nbytes (size-1)`, the block afterwards is
    the original one except that `[d, d+n)` holds the `n` bytes the ORIGINAL block had at `s` and
    index `d + n` holds the terminator -/
theorem strncpy_overlap_eq (buf : Bytes) (d s size nbytes : Nat) (h1 : 1 ≤ size)
    (h2 : d + size ≤ buf.length) (h3 : s + min nbytes (size - 1) ≤ buf.length) :
    qstrncpyOv buf d s size nbytes
      = .ok (buf.take d ++ (buf.drop s).take (min nbytes (size - 1))
              ++ 0 :: buf.drop (d + min nbytes (size - 1) + 1)) :=
  qstrncpyOv_spec buf d s size nbytes h1 h2 h3

/-- … read index by index: the block keeps its length, the bytes at `dst` are the original source
    bytes followed by NUL, and no index outside `[d, d + n]` (a subset of `[d, d + size)`) changes -/
theorem strncpy_overlap_bounded (buf : Bytes) (d s size nbytes : Nat) (h1 : 1 ≤ size)
    (h2 : d + size ≤ buf.length) (h3 : s + min nbytes (size - 1) ≤ buf.length) :
    ∃ b, qstrncpyOv buf d s size nbytes = .ok b ∧ b.length = buf.length ∧
      (b.drop d).take (min nbytes (size - 1) + 1) = (buf.drop s).take (min nbytes (size - 1)) ++ [0] ∧
      ∀ i, (i < d ∨ d + min nbytes (size - 1) + 1 ≤ i) → b[i]? = buf[i]? := by
  have hl : ((buf.drop s).take (min nbytes (size - 1))).length = min nbytes (size - 1) := by
    simp [List.length_take]; omega
  have := patched_shape buf ((buf.drop s).take (min nbytes (size - 1))) d (by rw [hl]; omega)
  rw [hl] at this
  exact ⟨_, strncpy_overlap_eq buf d s size nbytes h1 h2 h3, this⟩

/-- `qstrcpy(buf + d, size, buf + |pre|)` where the block holds the C string `str` at `|pre|`:
    `strlen` is taken on the unmodified block, so the bytes at `dst` are the first
    `min |str| (size-1)` bytes of the ORIGINAL string and a NUL, wherever `dst` lies relative to
    the source (e.g. the in-place prefix drop `qstrcpy(buf, size, buf + k)`) -/
theorem strcpy_overlap_eq (pre str post : Bytes) (d size : Nat) (hs : NulFree str) (h1 : 1 ≤ size)
    (h2 : d + size ≤ (pre ++ str ++ 0 :: post).length) :
    qstrcpyOv (pre ++ str ++ 0 :: post) d pre.length size
      = .ok ((pre ++ str ++ 0 :: post).take d ++ boundedCopy size str
              ++ 0 :: (pre ++ str ++ 0 :: post).drop (d + min str.length (size - 1) + 1)) :=
  qstrcpyOv_spec pre str post d size hs h1 h2

theorem strcpy_overlap_bounded (pre str post : Bytes) (d size : Nat) (hs : NulFree str)
    (h1 : 1 ≤ size) (h2 : d + size ≤ (pre ++ str ++ 0 :: post).length) :
    ∃ b, qstrcpyOv (pre ++ str ++ 0 :: post) d pre.length size = .ok b ∧
      b.length = (pre ++ str ++ 0 :: post).length ∧
      (b.drop d).take (min str.length (size - 1) + 1) = boundedCopy size str ++ [0] ∧
      ∀ i, (i < d ∨ d + min str.length (size - 1) + 1 ≤ i) → b[i]? = (pre ++ str ++ 0 :: post)[i]? := by
  have hl : (boundedCopy size str).length = min str.length (size - 1) := by
    simp [boundedCopy, List.length_take, Nat.min_comm]
  have := patched_shape (pre ++ str ++ 0 :: post) (boundedCopy size str) d (by rw [hl]; omega)
  rw [hl] at this
  exact ⟨_, strcpy_overlap_eq pre str post d size hs h1 h2, this⟩

/-- size 0: nothing is read or written -/
theorem strcpy_overlap_size_zero (buf : Bytes) (d s nbytes : Nat) :
    qstrcpyOv buf d s 0 = .ok buf ∧ qstrncpyOv buf d s 0 nbytes = .ok buf := by
  simp [qstrcpyOv, qstrncpyOv]

/-! ### line reader -/

/-- `qstrgets(buf, size, &offset)` with the cursor at the non-empty rest `s` of the text and
    `1 ≤ size ≤ capacity`: the buffer receives the reference line and a terminator, bytes behind
    it are unchanged, the cursor advances by the reference amount -/
theorem gets_eq (buf pre s rest : Bytes) (size : Nat) (hs : NulFree s) (hne : s ≠ [])
    (h1 : 1 ≤ size) (h2 : size ≤ buf.length) :
    qstrgets buf size (pre ++ s ++ 0 :: rest) pre.length
      = .ok (some ((getsLine size s).1 ++ 0 :: buf.drop ((getsLine size s).1.length + 1),
                   pre.length + (getsLine size s).2)) :=
  qstrgets_correct buf pre s rest size hs hne h1 h2

/-- at the end of the text `qstrgets` returns NULL and writes nothing -/
theorem gets_eof (buf pre rest : Bytes) (size : Nat) :
    qstrgets buf size (pre ++ 0 :: rest) pre.length = .ok none := qstrgets_eof buf pre rest size

/-- the line and its terminator occupy indices `< size` -/
theorem gets_writes_in_contract (size : Nat) (s : Bytes) (h1 : 1 ≤ size) :
    (getsLine size s).1.length + 1 ≤ size := by
  have := getsRef_length_le (size - 1) s
  rw [getsRef_eq_getsLine] at this
  have e : size - 1 + 1 = size := by omega
  rw [e] at this; omega

/-! ### tokenizer -/

/-- one `qstrtok(str, d, &stop, &offset)` call with `*offset = |pre|` and `t` the NUL-free rest
    of the string: (1) at the end of the string it returns NULL and leaves `*offset` alone;
    (2) without a delimiter in `t` it returns the rest, `stop = 0`, `*offset` = end of string;
    (3) otherwise it returns the field before the first delimiter `c`, overwrites exactly that
    delimiter with NUL, reports `stop = c` and leaves `*offset` just behind it. -/
theorem tok_step (pre t rest d drest : Bytes) (ht : NulFree t) (hd : NulFree d) :
    (t = [] → qstrtok (pre ++ t ++ 0 :: rest) (d ++ 0 :: drest) pre.length
        = .ok ⟨none, 0, pre ++ t ++ 0 :: rest, pre.length⟩) ∧
    (t ≠ [] → (∀ x ∈ t, d.contains x = false) →
      qstrtok (pre ++ t ++ 0 :: rest) (d ++ 0 :: drest) pre.length
        = .ok ⟨some pre.length, 0, pre ++ t ++ 0 :: rest, pre.length + t.length⟩) ∧
    (∀ f c r, t = f ++ c :: r → (∀ x ∈ f, d.contains x = false) → d.contains c = true →
      qstrtok (pre ++ t ++ 0 :: rest) (d ++ 0 :: drest) pre.length
        = .ok ⟨some pre.length, c, pre ++ f ++ 0 :: (r ++ 0 :: rest), pre.length + f.length + 1⟩) := by
  refine ⟨fun hnil => ?_, fun hne hplain => ?_, fun f c r hsplit hfd hcd => ?_⟩
  · subst hnil
    unfold qstrtok
    rw [nulPos_zero d drest hd]
    simp only [bind_ok]
    rw [tokLoop_end d drest _ _ [] pre rest _ (fun x hx => by cases hx) (by simp)]
    simp
  · unfold qstrtok
    rw [nulPos_zero d drest hd]
    simp only [bind_ok]
    rw [tokLoop_end d drest _ _ t pre rest _ (fun x hx => ⟨ht x hx, hplain x hx⟩) (by simp; omega)]
    simp [hne]
  · subst hsplit
    unfold qstrtok
    rw [nulPos_zero d drest hd]
    simp only [bind_ok]
    have e0 : pre ++ (f ++ c :: r) ++ 0 :: rest = pre ++ f ++ c :: (r ++ 0 :: rest) := by simp
    rw [e0, tokLoop_delim d drest _ _ c (ht c (by simp)) hcd f pre (r ++ 0 :: rest) _
      (fun x hx => ⟨ht x (by simp [hx]), hfd x hx⟩) (by simp; omega)]

/-- the caller's loop around `qstrtok` (offset starting at 0) returns exactly the fields
    `splitOnAny d s`, empty ones included; the block keeps its size, only bytes of the string
    change (delimiters become NUL), the terminator and everything behind it are untouched -/
theorem tok_fields (s rest d drest : Bytes) (hs : NulFree s) (hd : NulFree d) (fuel : Nat)
    (hf : s.length + 1 < fuel) :
    ∃ (toks : List (Bytes × UInt8 × Nat)) (s' : Bytes),
      tokAll (d ++ 0 :: drest) fuel (s ++ 0 :: rest) 0 = .ok (toks, s' ++ 0 :: rest) ∧
      s'.length = s.length ∧ toks.map (·.1) = splitOnAny d s := by
  obtain ⟨t', r, hl, hrun, hbuf, hmap⟩ := tokAll_spec d drest hd fuel s [] rest hs hf
  refine ⟨r.1, t', ?_, hl, hmap⟩
  have : r = (r.1, t' ++ 0 :: rest) := by
    rw [← (by simpa using hbuf : r.2 = t' ++ 0 :: rest)]
  rw [← this]; simpa using hrun

/-- every `qstrtok` call of the loop stays inside the string: the block keeps its size, the
    terminator and everything behind it are untouched -/
theorem tok_writes_in_contract (s rest d drest : Bytes) (hs : NulFree s) (hd : NulFree d) :
    ∃ r, tokAll (d ++ 0 :: drest) (s.length + 2) (s ++ 0 :: rest) 0 = .ok r ∧
      r.2.length = (s ++ 0 :: rest).length ∧ r.2.drop s.length = 0 :: rest := by
  obtain ⟨toks, s', hrun, hl, _⟩ := tok_fields s rest d drest hs hd (s.length + 2) (by omega)
  refine ⟨_, hrun, by simp [hl], ?_⟩
  show (s' ++ 0 :: rest).drop s.length = 0 :: rest
  rw [← hl, List.drop_left]

/-- `qstrtokenizer` hands exactly the fields `splitOnAny d s` to the list, in order -/
theorem tokenizer_eq (s rest d drest : Bytes) (hs : NulFree s) (hd : NulFree d) :
    qstrtokenizer (s ++ 0 :: rest) (d ++ 0 :: drest) = .ok (splitOnAny d s) :=
  qstrtokenizer_correct s rest d drest hs hd

/-! ### replace

  Mode strings are blocks `[m0, m1] ++ 0 :: mrest` (`116 = 't'`, `115 = 's'`, `110 = 'n'`,
  `114 = 'r'`). `alloc` is the size that was passed to `malloc` (`maxstrlen + 1`); the loops
  store into that block through `OutBlk.push`, which is `Fault.oob` beyond the capacity, so
  every `.ok` below says the output and its terminator fitted. -/

/-- the size bound: the reference output never exceeds the `maxstrlen` the C code computes —
    string mode `(|src| / |tok|)·|word| + |src| % |tok|` (when `|word| > |tok|`, else `|src|`),
    token mode `|src| · max |word| 1` -/
theorem replace_fits (s tok word : Bytes) :
    (tok ≠ [] → (replaceAll tok word s).length ≤ maxLenS s.length tok.length word.length) ∧
    (replaceChars tok word s).length ≤ maxLenT s.length word.length :=
  ⟨replaceAll_length_le tok word s, replaceChars_length_le tok word s⟩

/-- mode "sn": every leftmost non-overlapping occurrence of `tok` is replaced by `word`, nothing
    else changes; the source block is untouched -/
theorem replace_s_eq (mrest s srest tok trest word wrest : Bytes) (hs : NulFree s)
    (ht : NulFree tok) (hw : NulFree word) (hne : tok ≠ []) :
    qstrreplace ([115, 110] ++ 0 :: mrest) (s ++ 0 :: srest) (tok ++ 0 :: trest) (word ++ 0 :: wrest)
      = .ok ⟨some (replaceAll tok word s), s ++ 0 :: srest,
             some (maxLenS s.length tok.length word.length + 1)⟩ := by
  rw [qstrreplace_s 110 (by decide) mrest s srest tok trest word wrest hs ht hw hne]
  exact replFinish_n _ _ _ (replaceAll_nulFree hw hs)

/-- mode "tn": every byte listed in `tok` is replaced by `word`, every other byte is kept -/
theorem replace_t_eq (mrest s srest tok trest word wrest : Bytes) (hs : NulFree s)
    (ht : NulFree tok) (hw : NulFree word) :
    qstrreplace ([116, 110] ++ 0 :: mrest) (s ++ 0 :: srest) (tok ++ 0 :: trest) (word ++ 0 :: wrest)
      = .ok ⟨some (replaceChars tok word s), s ++ 0 :: srest,
             some (maxLenT s.length word.length + 1)⟩ := by
  rw [qstrreplace_t 110 (by decide) mrest s srest tok trest word wrest hs ht hw]
  exact replFinish_n _ _ _ (replaceChars_nulFree hw hs)

/-- modes "sr" / "tr" = the corresponding "n" result copied back with `strcpy(srcstr, newstr)`.
    It fits exactly when the caller's block `src` (capacity `src.length`) has room for the result
    and its terminator; then the block holds the result, its terminator, and unchanged bytes
    behind it. Otherwise `strcpy` writes past the end of the caller's block (`Fault.oob`): the
    documented precondition "given source string should have enough space". -/
theorem replace_inplace_eq (mrest s srest tok trest word wrest : Bytes) (hs : NulFree s)
    (ht : NulFree tok) (hw : NulFree word) :
    (tok ≠ [] →
      qstrreplace ([115, 114] ++ 0 :: mrest) (s ++ 0 :: srest) (tok ++ 0 :: trest) (word ++ 0 :: wrest)
        = if (replaceAll tok word s).length + 1 ≤ (s ++ 0 :: srest).length
          then .ok ⟨some (replaceAll tok word s),
                    replaceAll tok word s ++ 0 :: (s ++ 0 :: srest).drop ((replaceAll tok word s).length + 1),
                    some (maxLenS s.length tok.length word.length + 1)⟩
          else .error .oob) ∧
    (qstrreplace ([116, 114] ++ 0 :: mrest) (s ++ 0 :: srest) (tok ++ 0 :: trest) (word ++ 0 :: wrest)
        = if (replaceChars tok word s).length + 1 ≤ (s ++ 0 :: srest).length
          then .ok ⟨some (replaceChars tok word s),
                    replaceChars tok word s ++ 0 :: (s ++ 0 :: srest).drop ((replaceChars tok word s).length + 1),
                    some (maxLenT s.length word.length + 1)⟩
          else .error .oob) := by
  refine ⟨fun hne => ?_, ?_⟩
  · rw [qstrreplace_s 114 (by decide) mrest s srest tok trest word wrest hs ht hw hne]
    exact replFinish_r _ _ _ (replaceAll_nulFree hw hs)
  · rw [qstrreplace_t 114 (by decide) mrest s srest tok trest word wrest hs ht hw]
    exact replFinish_r _ _ _ (replaceChars_nulFree hw hs)

/-- in-place replacement never needs more room than the source string itself when the word is
    not longer than the token (string mode) / not longer than one byte (token mode) -/
theorem replace_inplace_fits_when_not_longer (s tok word : Bytes) :
    (tok ≠ [] → word.length ≤ tok.length → (replaceAll tok word s).length ≤ s.length) ∧
    (word.length ≤ 1 → (replaceChars tok word s).length ≤ s.length) := by
  refine ⟨fun hne hle => ?_, fun hle => ?_⟩
  · have := replaceAll_length_le tok word s hne
    unfold maxLenS at this
    have h : ¬ tok.length < word.length := by omega
    simpa [h] using this
  · have := replaceChars_length_le tok word s
    unfold maxLenT at this
    split at this
    · have h1 : word.length = 1 := by omega
      rw [h1] at this; omega
    · omega

/-! ### dup_between -/

/-- `qstrdup_between(str, start, end)`: NULL exactly when the reference finds no `start` or no
    `end` after it; otherwise a fresh block of exactly `len + 1` bytes holding the text between
    them and a terminator -/
theorem dup_between_eq (s rest st strest en enrest : Bytes) (hs : NulFree s) (hst : NulFree st)
    (hen : NulFree en) :
    qstrdupBetween (s ++ 0 :: rest) (st ++ 0 :: strest) (en ++ 0 :: enrest)
      = .ok ((dupBetween s st en).map (· ++ [0])) :=
  qstrdupBetween_correct s rest st strest en enrest hs hst hen

/-! ### second part: comma number, character tests, IPv4 / e-mail tests, formatted strings

  Models in `Str/ModelMore.lean`, reference definitions in `Str/SpecMore.lean`. -/

/-- `qstr_comma_number(z)` for every `int` (INT_MIN included): no access outside the 15-byte
    block, which then holds the sign and the magnitude with a comma between groups of three
    digits counted from the right -/
theorem comma_number_eq (z : Int) (h1 : -2147483648 ≤ z) (h2 : z < 2147483648) :
    ∃ b, qstrCommaNumber z = .ok b ∧ b.length = 15 ∧ cstr b = commaInt z :=
  qstrCommaNumber_correct z h1 h2

/-- the `malloc(14 + 1)` is sufficient: sign, at most ten digits, at most three commas -/
theorem comma_number_fits (z : Int) (h1 : -2147483648 ≤ z) (h2 : z < 2147483648) :
    (commaInt z).length + 1 ≤ 15 := by
  have hlen := decNat_length_le 10 z.natAbs (by omega) (by omega)
  have hg := group_length (decNat z.natAbs)
  rw [group_decNat] at hg
  unfold commaInt
  split <;> simp <;> omega

/-- `qstrtest(f, str)` = "every character satisfies `f`", for any test function -/
theorem strtest_eq (p : UInt8 → Bool) (s rest : Bytes) (hs : NulFree s) :
    qstrtest p (s ++ 0 :: rest) = .ok (strTest p s) := qstrtest_correct p s rest hs

/-- `qstr_is_ip4addr(str)` (on its `strdup` copy: the argument is not modified) is true exactly
    for four parts separated by single periods, each one to three decimal digits with a value of
    at most 255 -/
theorem is_ip4addr_eq (s rest : Bytes) (hs : NulFree s) :
    qstrIsIp4addr (s ++ 0 :: rest) = .ok (isIp4 s) := qstrIsIp4addr_correct s rest hs

/-- `qstr_is_email(str)` accepts exactly the language `isEmail` describes; in particular
    `email[i - 1]` is never read at `i = 0` -/
theorem is_email_eq (s rest : Bytes) (hs : NulFree s) :
    qstrIsEmail (s ++ 0 :: rest) = .ok (isEmail s) := qstrIsEmail_correct s rest hs

/-- K-gen obligation: the retry loop of DYNAMIC_VSPRINTF in the current `qinternal.h` is the one
    the model runs — start size 1024 (an integer literal, hence never 0), update `_strsize *= 2`,
    block accepted when `_n >= 0 && _n < _strsize`, and no other statement in the loop body
    (`Generated/FmtMacro.lean` is rewritten from the source on every run). A start size that
    depends on the format, or a computed retry size, breaks this obligation. -/
theorem fmt_macro_as_modelled :
    Generated.fmtStartSize = 1024 ∧ Generated.fmtGrowFactor = 2 ∧
    Generated.fmtLoopCondText = "" ∧ Generated.fmtFitText = "_n >= 0 && _n < _strsize" ∧
    Generated.fmtLoopBodyText = "s = (char*)malloc(_strsize); if (s == NULL) { DEBUG(\"DYNAMIC_VSPRINTF(): can't allocate memory.\"); break; } va_list _arglist; va_start(_arglist, f); int _n = vsnprintf(s, _strsize, f, _arglist); va_end(_arglist); if (_n >= 0 && _n < _strsize) break; free(s);" :=
  ⟨rfl, rfl, rfl, rfl, rfl⟩

/-- why the obligation matters, positively: for EVERY start size ≥ 1 and EVERY growth factor ≥ 2
    the loop ends for every formatted text (of any length, the empty text included) with a block
    that holds the text and its terminator … -/
theorem fmt_loop_terminates (start factor : Nat) (hs : 1 ≤ start) (hf : 2 ≤ factor) (out : Bytes) :
    ∃ (sz : Nat) (allocs : List Nat), out.length < sz ∧
      dynVsprintf factor out (out.length + 1) start []
        = .ok (out ++ 0 :: List.replicate (sz - (out.length + 1)) fillByte, allocs) :=
  dynVsprintf_top start factor hs hf out

/-- … and negatively: with a start size of 0 no block ever fits and the size never grows; the
    loop does not end for any text, whatever fuel it is given -/
theorem fmt_loop_diverges_at_zero (factor : Nat) (out : Bytes) (fuel : Nat) (allocs : List Nat) :
    dynVsprintf factor out fuel 0 allocs = .error .outOfFuel :=
  dynVsprintf_zero factor out fuel allocs

/-- `qstrdupf` with the loop parameters of the current source: for every formatted text `out`
    (any length, empty included) the result is a block of exactly `|out| + 1` bytes holding it -/
theorem dupf_eq (out : Bytes) (ho : NulFree out) :
    ∃ allocs, qstrdupf out = .ok (out ++ [0], allocs) := by
  unfold qstrdupf
  rw [fmt_macro_as_modelled.1, fmt_macro_as_modelled.2.1]
  exact qstrdupf_correct 1024 2 (by omega) (by omega) out ho

/-- `qstrcatf(str, …)`: the old content `d` is kept and the formatted text and a terminator are
    stored right behind it — exactly `|out| + 1` bytes starting at the old terminator; this is
    inside the caller's block iff it had `|out|` spare bytes behind the old terminator, otherwise
    `strcat` writes past its end (`Fault.oob`) -/
theorem catf_eq (d drest out : Bytes) (hd : NulFree d) (ho : NulFree out) :
    ∃ allocs, qstrcatf (d ++ 0 :: drest) out
      = if out.length ≤ drest.length
        then .ok (d ++ out ++ 0 :: drest.drop out.length, allocs)
        else .error .oob := by
  unfold qstrcatf
  rw [fmt_macro_as_modelled.1, fmt_macro_as_modelled.2.1]
  exact qstrcatf_correct 1024 2 (by omega) (by omega) d drest out hd ho

/-- `qstrunique` returns `qhex_encode` of a 16-byte digest: 32 lowercase hexadecimal digits,
    whatever the digest is -/
theorem unique_shape (digest : Bytes) (h : digest.length = 16) :
    (Qlibc.Encode.hexEncode digest).length = 32 ∧
    (Qlibc.Encode.hexEncode digest).all isHexLowerB = true := by
  have := hexEncode_shape digest
  rw [h] at this
  exact this

/-! ### non-vacuity -/

example : NulFree [32, 97, 32] := by decide
example : trim [32, 9, 97, 32, 66, 13, 10] = [97, 32, 66] := by decide
example : splitOnAny [58] [97, 58, 98, 58, 58, 100] = [[97], [98], [], [100]] := by decide
example : splitOnAny [58] [58, 97, 58] = [[], [97]] := by decide
example : getsLine 10 [97, 13, 10, 98] = ([97], 3) := by decide
example : unchar 34 34 [34, 97, 34] = some [97] := by decide
example : replaceAll [97, 97] [98] [97, 97, 97, 97, 97] = [98, 98, 97] := by
  rw [replaceAll_hit _ _ _ (by decide) (by decide)]
  show [98] ++ replaceAll [97, 97] [98] [97, 97, 97] = _
  rw [replaceAll_hit _ _ _ (by decide) (by decide)]
  show [98] ++ ([98] ++ replaceAll [97, 97] [98] [97]) = _
  rw [replaceAll_miss _ _ _ (by decide) (by decide), replaceAll_nil _ (by decide)]
  rfl
example : replaceChars [97, 98] [95] [97, 120, 98] = [95, 120, 95] := by decide
example : dupBetween [91, 97, 93] [91] [93] = some [97] := by decide
example : maxLenS 5 2 3 = 7 := by decide
example : commaInt (-1234567) = [45, 49, 44, 50, 51, 52, 44, 53, 54, 55] := by
  simp [commaInt, commaNat, decNat, digitCh]
example : commaInt (-2147483648) = [45, 50, 44, 49, 52, 55, 44, 52, 56, 51, 44, 54, 52, 56] := by
  simp [commaInt, commaNat, decNat, digitCh]
example : isIp4 [49, 50, 55, 46, 48, 46, 48, 46, 49] = true := by decide     -- 127.0.0.1
example : isIp4 [49, 46, 50, 46, 51, 46, 120] = false := by decide            -- 1.2.3.x
example : isIp4 [50, 53, 54, 46, 49, 46, 49, 46, 49] = false := by decide     -- 256.1.1.1
example : isIp4 [49, 46, 50, 46, 51, 46] = false := by decide                 -- 1.2.3.
example : isEmail [97, 98, 64, 99, 46, 100] = true := by decide               -- ab@c.d
example : isEmail [97, 98, 99, 100, 64, 46, 101] = false := by decide         -- abcd@.e
example : ∃ b, qstrtrim ([32, 97, 32] ++ 0 :: []) = .ok b ∧ cstr b = trim [32, 97, 32] :=
  trim_eq [32, 97, 32] [] (by decide)

end Qlibc.Props.C19

/-
  C11 — leak freedom as an accounting theorem: list / queue / stack / grow buffer and vector.

  `blocks` (Seq/Fault.lean) is the number of heap blocks a container owns, as a function of its
  state.  The harnesses print the number of blocks the library actually holds (`live=`, counted
  by harness/allocwrap.h, kept copies excluded) after EVERY operation of every C09 / C10 / C11 /
  C12 / C15 stream and the driver prints `blocks`; after `end` (the container's free function)
  the harness must report `live=0`.  What is proved here: the ledger is a function of the
  abstract contents (so no history — with or without allocation failures — can leak or
  double-free a block of the container without changing the contents), how each operation moves
  it, and that a constructor hands over exactly the ledger's blocks or nothing.

  The memory-safety obligations of these models (no slot outside the buffer, no dangling cursor,
  no overlapping memcpy) are C09.walk_spec / get_obj_spec / history_refines and
  C10.removeat_no_overlap / history_refines, listed in Props/C11.lean.
-/
import QlibcModel.Props.C15Seq
namespace Qlibc.Props.C11Seq
open Qlibc Qlibc.Seq Qlibc.Seq.Spec

/-! ### list -/

/-- the handle, the mutex of a thread-safe list, and two blocks (node + private copy of the
    data) per element of the abstract contents -/
theorem list_ledger (ts : Bool) (l : QList) :
    l.blocks ts = 1 + (if ts then 1 else 0) + 2 * l.abs.s.length :=
  QList.blocks_eq ts l

/-- equal contents, equal number of live blocks -/
theorem list_ledger_congr (ts : Bool) (l l' : QList) (h : l.abs = l'.abs) : l.blocks ts = l'.blocks ts :=
  C15Seq.list_no_leak_on_failure ts l l' h

/-- a successful insertion adds exactly two blocks, a refused one (EINVAL, ENOBUFS, ERANGE — and,
    under a failing plan, ENOMEM: the state is the same) none -/
theorem list_ledger_add (ts : Bool) (l : QList) (hwf : l.WF) (hn : l.num < 2147483648)
    (index : Int) (hi : IsInt32 index) (d : Option Bytes) :
    ((l.addAt index d).1.1 = true → (l.addAt index d).2.blocks ts = l.blocks ts + 2) ∧
    ((l.addAt index d).1.1 = false → (l.addAt index d).2.blocks ts = l.blocks ts) := by
  obtain ⟨h1, h2, _, h4⟩ := QList.addAt_refines l hwf hn index hi d
  refine ⟨fun ht => ?_, fun hf => by rw [h4 hf]⟩
  rw [list_ledger, list_ledger, h2]
  rw [h1] at ht
  have : (l.abs.addAt index d).2.s.length = l.abs.s.length + 1 := by
    unfold IList.addAt at ht ⊢
    cases d with
    | none => simp at ht
    | some d =>
      simp only at ht ⊢
      split at ht
      · simp at ht
      · split at ht
        · simp at ht
        · split at ht
          · simp at ht
          · rename_i k hk
            rw [if_neg (by assumption), if_neg (by assumption)]
            have hk' := insPos_some_iff.1 hk
            simp [insertAt]; omega
  omega

/-- a successful pop / removal releases exactly two blocks (the copy handed to the caller is the
    caller's), a refused one none -/
theorem list_ledger_remove (ts : Bool) (l : QList) (hwf : l.WF) (hn : l.num < 2147483648)
    (index : Int) (hi : IsInt32 index) :
    ((l.removeAt index).1.1 = true → (l.removeAt index).2.blocks ts + 2 = l.blocks ts) ∧
    ((l.removeAt index).1.1 = false → (l.removeAt index).2.blocks ts = l.blocks ts) := by
  obtain ⟨h1, h2, _, h4⟩ := QList.removeAt_refines l hwf hn index hi
  refine ⟨fun ht => ?_, fun hf => by rw [h4 hf]⟩
  rw [list_ledger, list_ledger, h2]
  rw [h1] at ht
  unfold IList.removeAt at ht ⊢
  split at ht
  · rename_i k hk
    have := accPos_lt hk
    simp [List.length_eraseIdx, this]; omega
  · simp at ht

/-- `qlist_clear` releases every node and copy; `qlist_free` then releases the handle and the
    mutex (`end live=0` of the harness) -/
theorem list_clear_releases_all (ts : Bool) (l : QList) : l.clear.blocks ts = 1 + (if ts then 1 else 0) := by
  simp [QList.blocks, QList.clear]

/-- after EVERY history from the constructor — every call under its own arbitrary allocation
    plan — the list owns exactly the blocks its (ideal) contents account for -/
theorem list_ledger_history (ts nm : Bool) (pos : List (Plan × LOp)) (hops : ∀ a ∈ pos, a.2.ints)
    (hlen : pos.length < 2147483648) :
    (QList.empty.runF nm pos).2.blocks ts =
      1 + (if ts then 1 else 0) + 2 * (({} : IList).run (QList.empty.survivors nm pos)).2.s.length := by
  obtain ⟨_, _, h, _⟩ := C15Seq.list_history_under_faults nm pos hops hlen
  rw [list_ledger, h]

/-- the constructor hands over exactly the ledger's blocks, or nothing -/
theorem list_ctor_ledger (plan : Plan) (ts : Bool) :
    ((QList.newF plan ts).res = none → (QList.newF plan ts).live = 0) ∧
    (∀ l, (QList.newF plan ts).res = some l → (QList.newF plan ts).live = l.blocks ts) :=
  let h := QList.newF_spec plan ts
  ⟨h.1, fun l hl => (h.2.1 l hl).2⟩

/-! ### queue, stack, grow buffer: one more block, the wrapper's handle -/

theorem queue_ledger (ts : Bool) (q : QQueue) :
    q.blocks ts = 2 + (if ts then 1 else 0) + 2 * q.list.abs.s.length := by
  rw [QQueue.blocks, list_ledger]; omega

theorem stack_ledger (ts : Bool) (q : QStack) :
    q.blocks ts = 2 + (if ts then 1 else 0) + 2 * q.list.abs.s.length := by
  rw [QStack.blocks, list_ledger]; omega

theorem grow_ledger (ts : Bool) (g : QGrow) :
    g.blocks ts = 2 + (if ts then 1 else 0) + 2 * g.list.abs.s.length := by
  rw [QGrow.blocks, list_ledger]; omega

theorem wrapper_ctor_ledger (plan : Plan) (ts : Bool) :
    ((QQueue.newF plan ts).res = none → (QQueue.newF plan ts).live = 0) ∧
    (∀ q, (QQueue.newF plan ts).res = some q → (QQueue.newF plan ts).live = q.blocks ts) ∧
    ((QStack.newF plan ts).res = none → (QStack.newF plan ts).live = 0) ∧
    (∀ q, (QStack.newF plan ts).res = some q → (QStack.newF plan ts).live = q.blocks ts) ∧
    ((QGrow.newF plan ts).res = none → (QGrow.newF plan ts).live = 0) ∧
    (∀ g, (QGrow.newF plan ts).res = some g → (QGrow.newF plan ts).live = g.blocks ts) :=
  let a := QQueue.newF_spec plan ts
  let b := QStack.newF_spec plan ts
  let c := QGrow.newF_spec plan ts
  ⟨a.1, fun q h => (a.2.1 q h).2, b.1, fun q h => (b.2.1 q h).2, c.1, fun g h => (c.2.1 g h).2⟩

/-! ### vector -/

/-- the handle, the element buffer exactly when the capacity is not zero, the mutex of a
    thread-safe vector — whatever the contents: elements live inside the buffer -/
theorem vector_ledger (ts : Bool) (v : Vec) (hwf : v.WF) :
    v.blocks ts = 1 + (if v.max = 0 then 0 else 1) + (if ts then 1 else 0) :=
  Vec.blocks_eq ts v hwf

/-- `qvector_resize(v, 0)` releases the buffer; `qvector_free` then releases the rest -/
theorem vector_resize0_releases_buffer (ts : Bool) (v : Vec) :
    (v.resize 0).2.blocks ts = 1 + (if ts then 1 else 0) := by
  simp [Vec.resize, Vec.blocks]

/-- after EVERY history from the constructor under arbitrary allocation plans the vector owns the
    handle, the mutex and at most one buffer -/
theorem vector_ledger_history (nm : Bool) (max objsize options : Nat) (hos : 1 ≤ objsize)
    (pos : List (Plan × VOp)) (hops : ∀ a ∈ pos, a.2.ok objsize) (hlen : pos.length < 2147483648) (ts : Bool) :
    ∃ v, Vec.new max objsize options = some v ∧
      (v.runF nm pos).2.blocks ts =
        1 + (if (v.runF nm pos).2.max = 0 then 0 else 1) + (if ts then 1 else 0) := by
  obtain ⟨v, hv, _, hwf, _⟩ := C15Seq.vector_history_under_faults nm max objsize options hos pos hops hlen
  exact ⟨v, hv, Vec.blocks_eq ts _ hwf⟩

/-- the constructor hands over exactly the ledger's blocks, or nothing (EINVAL, ENOMEM) -/
theorem vector_ctor_ledger (plan : Plan) (max objsize options : Nat) :
    ((Vec.newF plan max objsize options).res = none → (Vec.newF plan max objsize options).live = 0) ∧
    (∀ v, (Vec.newF plan max objsize options).res = some v →
      (Vec.newF plan max objsize options).live = v.blocks (options &&& Vec.QVECTOR_THREADSAFE != 0)) :=
  let h := Vec.newF_spec plan max objsize options
  ⟨h.1, fun v hv => (h.2.1 v hv).2⟩

/-! ### non-vacuity -/

example : ((QList.empty.addAt 0 (some [1, 2])).2.addAt (-1) (some [3])).2.blocks true = 6 := rfl
example : (QList.newF noFail true).live = 2 ∧ (QQueue.newF noFail false).live = 2 := ⟨rfl, rfl⟩
example : (Vec.newF noFail 4 2 1).live = 3 ∧ (Vec.newF noFail 0 2 0).live = 1 := ⟨rfl, rfl⟩

end Qlibc.Props.C11Seq

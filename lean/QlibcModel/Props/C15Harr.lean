/-
  C15 — allocation failure is reported and leaves containers unchanged and valid:
  static hash table (src/containers/qhasharr.c).

  The table lives in the caller's region; the library allocates only the handle (`qhasharr()`),
  the copies returned by `get` / `getstr` / `get_by_obj` (one block) and `getnext` (two blocks:
  name, then data) and the formatting buffers of `putstrf`.  `plan i` says whether the i-th
  allocation attempt made inside ONE call fails; the `…F` forms (HashArr/Fault.lean) mirror the
  order of `malloc` / `free` calls of the C functions and are tied to the code by the
  fault-enumeration correspondence (harness/harrmem.c fails exactly that allocation through
  harness/allocwrap.h and reports attempts and live blocks, which must equal the model's).
  All theorems hold for EVERY plan and every well-formed image (`WF`, the invariant of C07; every
  reachable image is well-formed: C07.wf_reachable).
-/
import QlibcModel.HashArr.FaultSpec

namespace Qlibc.Props.C15Harr
open Qlibc Qlibc.HashArr Qlibc.MapFault

/-- **one call under ANY allocation plan**: the call returns (no fault, no crash); the image is still
    well-formed; if it reports ENOMEM the image is byte-identical to the one it was given; `get` and
    `getnext` never change the image; a call that does not report ENOMEM is the plain operation; and
    nothing is leaked: blocks obtained − blocks released = blocks handed to the caller -/
theorem harr_call_fault_atomic (img : Img) (hw : WF img) (plan : Plan) (op : FOp) (hv : op.valid img.n) :
    ∃ img' out es, stepF plan img op = .ok (img', out, es) ∧ WF img' ∧
      (out.isEnomem = true → img' = img) ∧
      (op.toOp = none → img' = img) ∧
      (out.isEnomem = false → ∀ o, op.toOp = some o → step img o = .ok img') ∧
      balance es = (out.handed : Int) := by
  obtain ⟨img', out, es, h1, h2, _, h4, h5, h6, h7⟩ := stepF_spec hw plan op hv
  exact ⟨img', out, es, h1, h2, h4, h5, h6, h7⟩

/-- the mutators `put`, `remove`, `remove_by_idx`, `clear` allocate nothing: they have no
    allocation-failure mode at all (their answer and image do not depend on the plan) -/
theorem harr_mutators_do_not_allocate (plan : Plan) (img : Img) :
    (∀ n d h m, stepF plan img (.put n d h m) = (put img n d h m).map fun p => (p.1, .res p.2, [])) ∧
    (∀ n h m, stepF plan img (.remove n h m) = (remove img n h m).map fun p => (p.1, .res p.2, [])) ∧
    (∀ i, stepF plan img (.removeByIdx i) = (removeByIdx img i).map fun p => (p.1, .res p.2, [])) ∧
    stepF plan img .clear = (clear img).map fun i => (i, .res .ok, []) :=
  ⟨fun _ _ _ _ => rfl, fun _ _ _ => rfl, fun _ => rfl, rfl⟩

/-- a copying `get` under any plan returns the stored bytes / ENOENT exactly like the plain `get`, or
    reports ENOMEM — possible only when the key is stored and the plan fails the one allocation -/
theorem harr_get_fault (plan : Plan) (img : Img) (name md5 : Bytes) (h32 : Nat) :
    (∃ f, get img name h32 md5 = .error f ∧ getF plan img name h32 md5 = .error f) ∨
    (∃ e, get img name h32 md5 = .ok (.error e) ∧ getF plan img name h32 md5 = .ok (.err e, [])) ∨
    (∃ d, get img name h32 md5 = .ok (.ok d) ∧
      ((plan 1 = true ∧ getF plan img name h32 md5 = .ok (.enomem, [.alloc false])) ∨
       (plan 1 = false ∧ getF plan img name h32 md5 = .ok (.data d, [.alloc true])))) :=
  getF_spec plan img name h32 md5

/-- `getnext` under any plan is the plain step, or reports ENOMEM (first allocation: nothing was
    obtained; second: the name has been released again) leaving the cursor at the slot that could not
    be delivered … -/
theorem harr_getnext_fault (plan : Plan) (img : Img) (idx : Int) :
    (∃ f, getnext img idx = .error f ∧ getnextF plan img idx = .error f) ∨
    (∃ i', getnext img idx = .ok (none, i') ∧ getnextF plan img idx = .ok (.done, i', [])) ∨
    (∃ o i', getnext img idx = .ok (some o, i') ∧
      ((plan 1 = true ∧ getnextF plan img idx = .ok (.enomem, i' - 1, [.alloc false])) ∨
       (plan 1 = false ∧ plan 2 = true ∧ getnextF plan img idx = .ok (.enomem, i' - 1, [.alloc true, .alloc false, .free])) ∨
       (plan 1 = false ∧ plan 2 = false ∧ getnextF plan img idx = .ok (.item o, i', [.alloc true, .alloc true])))) :=
  getnextF_spec plan img idx

/-- … from where repeating the call delivers exactly the entry that was due: no entry is skipped or
    repeated because of an allocation failure -/
theorem harr_getnext_retry (img : Img) (hw : WF img) (idx : Nat) (hidx : idx ≤ img.n) (o : Obj) (idx' : Int)
    (h : getnext img (idx : Int) = .ok (some o, idx')) :
    getnext img (idx' - 1) = .ok (some o, idx') := by
  obtain ⟨j, h1, _, _, h4⟩ := getnext_retry hw idx hidx o idx' h
  have : idx' - 1 = (j : Int) := by omega
  rw [this]; exact h4

/-- `putstrf`: ENOMEM (only if the plan fails one of the formatting buffers) with the image
    untouched, or the plain `putstr` with all its outcomes; in both cases every buffer was released -/
theorem harr_putstrf_fault (img : Img) (hw : WF img) (plan : Plan) (name str md5 : Bytes) (h32 : Nat)
    (hmd5 : md5.length = 16) :
    ∃ img' r es, putstrfF plan img name str h32 md5 = .ok (img', r, es) ∧ WF img' ∧ balance es = 0 ∧
      (r = none → img' = img ∧ ∃ i, 1 ≤ i ∧ i ≤ attempts es ∧ plan i = true) ∧
      (∀ r', r = some r' → put img (name ++ [0]) (str ++ [0]) h32 md5 = .ok (img', r')) :=
  putstrfF_spec hw plan name str md5 h32 hmd5

/-- a constructor whose handle cannot be allocated returns NULL with nothing left allocated; with
    `memsize > 0` the region then holds the freshly initialised, well-formed empty table -/
theorem harr_ctor_fault (plan : Plan) (memsize : Nat) (hsz : memsize < 2 ^ 31 * Qlibc.Generated.HarrLayout.sizeofSlot) :
    ((newF plan memsize).2.1 = .einval ∧ (newF plan memsize).1 = none ∧ (newF plan memsize).2.2 = []) ∨
    (∃ img, (newF plan memsize).1 = some img ∧ WF img ∧
      (((newF plan memsize).2.1 = .enomem ∧ plan 1 = true ∧ balance (newF plan memsize).2.2 = 0) ∨
       ((newF plan memsize).2.1 = .ok ∧ balance (newF plan memsize).2.2 = 1))) :=
  newF_spec plan memsize hsz

/-- … and attaching to an existing image (`memsize = 0`) either fails with nothing allocated or
    yields one block, the handle; the image is not an argument of the allocation at all -/
theorem harr_attach_fault (plan : Plan) :
    ((attachF plan).1 = false ∧ plan 1 = true ∧ balance (attachF plan).2 = 0) ∨
    ((attachF plan).1 = true ∧ balance (attachF plan).2 = 1) :=
  attachF_spec plan

/-- **later operations behave normally**: after ANY history in which every call runs under its own
    allocation plan, the image is exactly the image after the plain mutators of the calls that did not
    report ENOMEM; it is well-formed (so every C06 / C07 theorem applies to it); nothing faulted -/
theorem harr_fault_then_normal (cap : Nat) (hcap : 1 ≤ cap) (ops : List (Plan × FOp))
    (hv : ∀ po ∈ ops, po.2.valid cap) :
    ∃ imgf bal handed ops', runF (init cap) ops = .ok (imgf, bal, handed) ∧ WF imgf ∧
      ops'.Sublist (ops.filterMap (·.2.toOp)) ∧ run (init cap) ops' = .ok imgf := by
  obtain ⟨hw, hn⟩ := wf_init' cap hcap
  obtain ⟨imgf, bal, handed, h1, h2, _, h4, h5⟩ := runF_spec ops (init cap) hw (by rw [hn]; exact hv)
  exact ⟨imgf, bal, handed, _, h1, h2, h5, h4⟩

-- non-vacuity: a failing plan on a real table (second allocation of getnext fails: name released)
example : getnextF (single 2) (init 2) 5 = .ok (.done, 5, []) := rfl
example : (attachF (fromOn 1)).1 = false := rfl
example : FOp.valid 3 (.next 2) := by simp [FOp.valid]

end Qlibc.Props.C15Harr

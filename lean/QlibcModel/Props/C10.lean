/-
  C10 — vector is an exact array of fixed-size elements under every growth policy.

  Model: QlibcModel/Seq/VectorModel.lean (qvector.c, mechanism level: the buffer as `max` slots of
  `objsize` bytes with stale slots beyond `num`, stored fields num/max/objsize/options/initnum, the
  size_t/int index arithmetic, growth by policy through qvector_resize, the shift-up loop, the
  block move of remove_at, the swap loop of reverse). Byte view: Seq/VectorBytes.lean.
  Specification: `IVec` in Seq/Spec.lean (ideal list of elements; `accPos`, `vecInsPos`).
  `v.abs = ⟨first num slots, objsize⟩`. `Vec.WF` is the invariant (buffer has `max` slots of
  `objsize ≥ 1` bytes, num ≤ max, a valid policy); it holds after the constructor and is
  preserved by every operation (`history_refines`).
  All theorems are for fewer than 2^31 elements, `int` indexes (`IsInt32`) and caller elements of
  `objsize` bytes.
-/
import QlibcModel.Seq.VectorBytes
import QlibcModel.Seq.InvVectorLemmas
import QlibcModel.Shapes.Seq
namespace Qlibc.Props.C10
open Qlibc Qlibc.Seq Qlibc.Seq.Spec

/-! ### insertion and growth -/

/-- qvector_addat for every index in ℤ: succeeds ↔ index ∈ [-n, n]; then the element is at
    position index (≥ 0) or n + index (< 0) and the remainder is shifted up by one; otherwise
    ERANGE (EINVAL for NULL) and the very same state. Never faults (no slot outside the buffer). -/
theorem addat_spec (v : Vec) (hwf : v.WF) (hn : v.num < 2147483648) (index : Int) (hi : IsInt32 index)
    (d : Bytes) (hd : d.length = v.objsize) :
    ∃ r v', v.addAt index (some d) = .ok (r, v') ∧ r = (v.abs.addAt index (some d)).1 ∧
      v'.abs = (v.abs.addAt index (some d)).2 ∧ v'.WF ∧ (r.1 = false → v' = v) ∧
      (r.1 = true ↔ (-(v.num : Int) ≤ index ∧ index ≤ v.num)) := by
  obtain ⟨r, v', e, h1, h2, h3, h4, _⟩ := Vec.addAt_refines v hwf hn index hi d hd
  refine ⟨r, v', e, h1, h2, h3, h4, ?_⟩
  rw [h1, IVec.addAt_true_iff, Vec.abs_length v hwf]

theorem addat_null (v : Vec) (index : Int) : v.addAt index none = .ok ((false, .EINVAL), v) := rfl

/-- capacity after a successful insertion: unchanged while there is room; when the vector is full
    it becomes (max+1)*2 (double), max+initnum (linear, initnum ≥ 1) or max+1 (exact) — and in
    every case the new element count fits -/
theorem growth_spec (v : Vec) (hwf : v.WF) (hn : v.num < 2147483648) (index : Int) (hi : IsInt32 index)
    (d : Bytes) (hd : d.length = v.objsize) (r : BoolRes) (v' : Vec)
    (h : v.addAt index (some d) = .ok (r, v')) (hr : r.1 = true) :
    (v.num < v.max → v'.max = v.max) ∧
    (v.num ≥ v.max → (v.options = 2 → v'.max = (v.max + 1) * 2) ∧ (v.options = 4 → v'.max = v.max + v.initnum) ∧
      (v.options = 8 → v'.max = v.max + 1)) ∧
    v'.num = v.num + 1 ∧ v'.num ≤ v'.max ∧ v'.objsize = v.objsize := by
  obtain ⟨r0, v0, e, _, h2, h3, _, h5⟩ := Vec.addAt_refines v hwf hn index hi d hd
  rw [h] at e
  injection e with e; injection e with e1 e2
  subst e1 e2
  obtain ⟨m, nn⟩ := h5 hr
  obtain ⟨g1, g2, g3⟩ := Vec.grownMax_eq v
  have hos : v'.objsize = v.objsize := by
    have := congrArg IVec.os h2
    simpa [Vec.abs, IVec.addAt] using (this.trans (IVec.addAt_props v.abs index (some d)).1)
  refine ⟨fun hlt => by rw [m, if_neg (by omega)], fun hge => ?_, nn, h3.num_le, hos⟩
  rw [m, if_pos hge]
  exact ⟨g1, g2, g3⟩

/-! ### access, overwrite, removal — for every index in ℤ -/

theorem getat_spec (v : Vec) (hwf : v.WF) (hn : v.num < 2147483648) (index : Int) (hi : IsInt32 index) :
    v.getAt index = .ok (v.abs.getAt index) ∧
    ((v.abs.getAt index).1.isSome = true ↔ (-(v.num : Int) ≤ index ∧ index < v.num)) := by
  refine ⟨Vec.getAt_refines v hwf hn index hi, ?_⟩
  rw [IVec.getAt_some_iff, Vec.abs_length v hwf]

theorem setat_spec (v : Vec) (hwf : v.WF) (hn : v.num < 2147483648) (index : Int) (hi : IsInt32 index)
    (d : Bytes) (hd : d.length = v.objsize) :
    ∃ r v', v.setAt index d = .ok (r, v') ∧ r = (v.abs.setAt index d).1 ∧ v'.abs = (v.abs.setAt index d).2 ∧
      v'.WF ∧ (r.1 = false → v' = v) ∧ (r.1 = true ↔ (-(v.num : Int) ≤ index ∧ index < v.num)) := by
  obtain ⟨r, v', e, h1, h2, h3, h4, _⟩ := Vec.setAt_refines v hwf hn index hi d hd
  refine ⟨r, v', e, h1, h2, h3, h4, ?_⟩
  rw [h1, IVec.setAt_true_iff, Vec.abs_length v hwf]

theorem popat_spec (v : Vec) (hwf : v.WF) (hn : v.num < 2147483648) (index : Int) (hi : IsInt32 index) :
    ∃ r v', v.popAt index = .ok (r, v') ∧ r = (v.abs.popAt index).1 ∧ v'.abs = (v.abs.popAt index).2 ∧
      v'.WF ∧ (r.1 = none → v' = v) ∧ (r.1.isSome = true ↔ (-(v.num : Int) ≤ index ∧ index < v.num)) := by
  obtain ⟨r, v', e, h1, h2, h3, h4, _⟩ := Vec.popAt_refines v hwf hn index hi
  refine ⟨r, v', e, h1, h2, h3, h4, ?_⟩
  rw [h1, IVec.popAt_some_iff, Vec.abs_length v hwf]

theorem removeat_spec (v : Vec) (hwf : v.WF) (hn : v.num < 2147483648) (index : Int) (hi : IsInt32 index) :
    ∃ r v', v.removeAt index = .ok (r, v') ∧ r = (v.abs.removeAt index).1 ∧ v'.abs = (v.abs.removeAt index).2 ∧
      v'.WF ∧ (r.1 = false → v' = v) ∧ (r.1 = true ↔ (-(v.num : Int) ≤ index ∧ index < v.num)) := by
  obtain ⟨r, v', e, h1, h2, h3, h4, _⟩ := Vec.removeAt_refines v hwf hn index hi
  refine ⟨r, v', e, h1, h2, h3, h4, ?_⟩
  rw [h1, IVec.removeAt_true_iff, Vec.abs_length v hwf]

/-- remove_at's single block copy, at the byte offsets the C code computes and with the primitive
    the CURRENT source calls (Generated.removeAtPrim, extracted by translator/vecprims.py), is
    defined — in particular never `memcpy` on overlapping ranges — and is the byte image of the
    slot-level model -/
theorem removeat_no_overlap (v : Vec) (hwf : v.WF) (hn : v.num < 2147483648) (index : Int) (hi : IsInt32 index) :
    removeAtBytes Generated.removeAtPrim (flat v.slots) v.num v.objsize index =
      (v.removeAtStatic index).map (fun r => (r.1, flat r.2.slots)) ∧
    removeAtBytes Generated.removeAtPrim (flat v.slots) v.num v.objsize index ≠ .error .overlap ∧
    (∃ r, v.removeAtStatic index = .ok r) := by
  have hm := removeAtBytes_memmove v hwf hn index hi
  have key : removeAtBytes Generated.removeAtPrim (flat v.slots) v.num v.objsize index =
      (v.removeAtStatic index).map (fun r => (r.1, flat r.2.slots)) := by
    rw [removeAtPrim_is_memmove]; exact hm
  have hok : ∃ r, v.removeAtStatic index = .ok r := by
    cases h : accPos v.num index with
    | none => exact ⟨_, Vec.removeAtStatic_none v hn index hi h⟩
    | some k => exact ⟨_, Vec.removeAtStatic_some v hwf hn index hi k h⟩
  refine ⟨key, ?_, hok⟩
  obtain ⟨r, hr⟩ := hok
  rw [key, hr]
  intro h; cases h

/-! ### resize -/

/-- for EVERY newmax (0 included): the surviving elements are the prefix of length newmax, the
    element size is unchanged, the capacity is newmax and the invariant holds — so every theorem
    above applies to the resized vector -/
theorem resize_spec (v : Vec) (hwf : v.WF) (newmax : Nat) :
    (v.resize newmax).1 = true ∧ (v.resize newmax).2.live = v.live.take newmax ∧
    (v.resize newmax).2.objsize = v.objsize ∧ (v.resize newmax).2.max = newmax ∧ (v.resize newmax).2.WF := by
  obtain ⟨h1, h2, h3, h4, h5, _⟩ := Vec.resize_spec v hwf newmax
  exact ⟨h1, h2, h5, h4, h3⟩

/-- … and every later history behaves as on the ideal array holding that prefix -/
theorem resize_then_usable (v : Vec) (hwf : v.WF) (newmax : Nat) (ops : List VOp)
    (hops : ∀ op ∈ ops, op.ok v.objsize) (hn : v.num + ops.length < 2147483648) :
    ((v.resize newmax).2.run ops).1 = ((⟨v.live.take newmax, v.objsize⟩ : IVec).run ops).1 ∧
    ((v.resize newmax).2.run ops).2.abs = ((⟨v.live.take newmax, v.objsize⟩ : IVec).run ops).2 := by
  obtain ⟨_, h2, h3, _, h5, _⟩ := Vec.resize_spec v hwf newmax
  have hnum : (v.resize newmax).2.num ≤ v.num := by
    have := Vec.live_length _ h3
    rw [h2, List.length_take, Vec.live_length v hwf] at this
    omega
  obtain ⟨g1, g2, _⟩ := Vec.run_refines (v.resize newmax).2 h3 ops (by rw [h5]; exact hops) (by omega)
  have e : (v.resize newmax).2.abs = ⟨v.live.take newmax, v.objsize⟩ := by simp only [Vec.abs, h2, h5]
  rw [e] at g1 g2
  exact ⟨g1, g2⟩

/-! ### reverse / toarray / getnext -/

theorem reverse_spec (v : Vec) (hwf : v.WF) :
    ∃ v', v.reverse = .ok v' ∧ v'.live = v.live.reverse ∧ v'.WF ∧ v'.objsize = v.objsize ∧ v'.max = v.max :=
  let ⟨v', e, h1, h2, h3, h4, _⟩ := Vec.reverse_refines v hwf
  ⟨v', e, h1, h2, h3, h4⟩

theorem toarray_spec (v : Vec) (hwf : v.WF) :
    v.toArray = .ok (if v.live = [] then ((none, .ENOENT), 0) else ((some v.live.flatten, .ok), v.live.length)) := by
  rw [Vec.toArray_refines v hwf]; rfl

theorem walk_spec (v : Vec) (hwf : v.WF) (hn : v.num < 2147483648) : v.walk = .ok v.live :=
  Vec.walk_refines v hwf hn

/-! ### arbitrary histories, every element size ≥ 1, every policy, every initial capacity -/

theorem history_refines (max objsize options : Nat) (hos : 1 ≤ objsize) (ops : List VOp)
    (hops : ∀ op ∈ ops, op.ok objsize) (hlen : ops.length < 2147483648) :
    ∃ v, Vec.new max objsize options = some v ∧
      (v.run ops).1 = ((⟨[], objsize⟩ : IVec).run ops).1 ∧
      (v.run ops).2.abs = ((⟨[], objsize⟩ : IVec).run ops).2 ∧ (v.run ops).2.WF := by
  have hne : objsize ≠ 0 := by omega
  obtain ⟨v, hv⟩ : ∃ v, Vec.new max objsize options = some v := by
    unfold Vec.new; rw [if_neg hne]; exact ⟨_, rfl⟩
  obtain ⟨w, l, o, _⟩ := Vec.new_WF max objsize options v hv
  have hnum : v.num = 0 := by
    have := Vec.live_length v w; rw [l] at this; simpa using this.symm
  obtain ⟨g1, g2, g3⟩ := Vec.run_refines v w ops (by rw [o]; exact hops) (by omega)
  have e : v.abs = ⟨[], objsize⟩ := by simp only [Vec.abs, l, o]
  rw [e] at g1 g2
  exact ⟨v, hv, g1, g2, g3⟩

/-! ### option words: the constructor's resolution of the policy bits and addat's growth rule

  `Vec.new` and `Vec.grownMax` are assembled from two SEPARATE facts extracted from the current
  source (Generated/VectorPrims.lean: the constructor's if / else-if chain and what `vector->options`
  starts from; the chain and formulas of addat's growth block). That the two agree is not an
  assumption of the model but the theorems below, re-checked whenever the extracted facts change. -/

/-- qvector() for EVERY option word: DOUBLE wins over LINEAR wins over EXACT (which is also the
    default); exactly that one policy bit is stored — THREADSAFE and every other bit of the word
    play no role for growth; `initnum` is prepared (max, or 1 for max = 0) for the linear policy only -/
theorem ctor_policy_precedence (max objsize options : Nat) (hos : 1 ≤ objsize) :
    ∃ v, Vec.new max objsize options = some v ∧ v.max = max ∧ v.num = 0 ∧ v.objsize = objsize ∧
      v.options = (if options &&& 2 ≠ 0 then 2 else if options &&& 4 ≠ 0 then 4 else 8) ∧
      v.initnum = (if ¬ (options &&& 2 ≠ 0) ∧ options &&& 4 ≠ 0 then (if max = 0 then 1 else max) else 0) := by
  rw [Vec.new_explicit, if_neg (by omega)]
  exact ⟨_, rfl, rfl, rfl, rfl, rfl, rfl⟩

/-- for EVERY option word, initial capacity, element size ≥ 1 and EVERY history: whenever the vector
    is in a state where addat has to grow it, the capacity addat asks for is larger than the current
    one, and qvector_resize gives exactly that capacity — so the slot addat writes exists -/
theorem capacity_grows_every_option_word (max objsize options : Nat) (hos : 1 ≤ objsize) (ops : List VOp)
    (hops : ∀ op ∈ ops, op.ok objsize) (hlen : ops.length < 2147483648) :
    ∃ v, Vec.new max objsize options = some v ∧
      (v.run ops).2.max < (v.run ops).2.grownMax ∧
      ((v.run ops).2.resize (v.run ops).2.grownMax).2.max = (v.run ops).2.grownMax ∧
      (v.run ops).2.num < ((v.run ops).2.resize (v.run ops).2.grownMax).2.max := by
  have hne : objsize ≠ 0 := by omega
  obtain ⟨v, hv⟩ : ∃ v, Vec.new max objsize options = some v := by
    unfold Vec.new; rw [if_neg hne]; exact ⟨_, rfl⟩
  obtain ⟨w, l, o, _⟩ := Vec.new_WF max objsize options v hv
  have hnum : v.num = 0 := by
    have := Vec.live_length v w; rw [l] at this; simpa using this.symm
  obtain ⟨_, _, g3⟩ := Vec.run_refines v w ops (by rw [o]; exact hops) (by omega)
  have hg := Vec.grownMax_gt _ g3
  obtain ⟨_, _, _, h4, _⟩ := Vec.resize_spec _ g3 (v.run ops).2.grownMax
  refine ⟨v, hv, hg, h4, ?_⟩
  rw [h4]; have := g3.num_le; omega

/-- the growth rule in terms of the option word given to the constructor -/
theorem growth_rule_every_option_word (max objsize options : Nat) (hos : 1 ≤ objsize) :
    ∃ v, Vec.new max objsize options = some v ∧
      v.grownMax = (if options &&& 2 ≠ 0 then (max + 1) * 2
                    else if options &&& 4 ≠ 0 then max + (if max = 0 then 1 else max) else max + 1) := by
  obtain ⟨v, hv, hm, _, _, ho, hi⟩ := ctor_policy_precedence max objsize options hos
  refine ⟨v, hv, ?_⟩
  obtain ⟨g1, g2, g3⟩ := Vec.grownMax_eq v
  by_cases hd : options &&& 2 ≠ 0
  · rw [if_pos hd] at ho ⊢; rw [g1 ho, hm]
  · rw [if_neg hd] at ho ⊢
    by_cases hl : options &&& 4 ≠ 0
    · rw [if_pos hl] at ho ⊢
      rw [if_pos ⟨hd, hl⟩] at hi
      rw [g2 ho, hm, hi]
    · rw [if_neg hl] at ho ⊢; rw [g3 ho, hm]

/-! ### invalid arguments -/

/-- `inv` (Seq/Inv.lean; harness/vector.c makes the same calls): NULL data, an index just above and
    just below the valid range for add / get / set / pop / remove, getnext without a cursor, debug
    without a stream, toarray without the size pointer, resize to the current capacity — every
    refusal carries the documented errno (EINVAL; ERANGE, or ENOENT on an empty vector; EIO), the
    two permitted calls answer as usual, and the vector is the very same afterwards -/
theorem inv_identity (v : Vec) (hwf : v.WF) (hn : v.num + 1 < 2147483648) :
    v.inv.st = v ∧ v.inv.log = v.invExpected :=
  Vec.inv_identity v hwf hn

/-- the constructor refuses element size 0 -/
theorem new_zero_objsize (max options : Nat) : Vec.new max 0 options = none := rfl

/-! ### non-vacuity -/

example : ∃ v, Vec.new 0 2 4 = some v ∧
    (v.run [.addlast (some [1, 1]), .addlast (some [2, 2]), .addat (-1) (some [3, 3]), .addat 5 (some [4, 4]),
            .removefirst, .resize 0, .addfirst (some [5, 5]), .getat (-1), .toarray]).1 =
    [.bool (true, .ok), .bool (true, .ok), .bool (true, .ok), .bool (false, .ERANGE), .bool (true, .ok),
     .bool (true, .ok), .bool (true, .ok), .data (some [5, 5], .ok), .arr (some [5, 5], .ok) 1] :=
  ⟨_, rfl, by decide⟩

/-- with memcpy the copy of remove_at would be undefined for this (well-formed) vector -/
example : removeAtBytes .memcpy (flat [[1], [2], [3]]) 3 1 0 = .error .overlap := rfl

example : (⟨[[1], [2], [3]], 3, 3, 1, 8, 0⟩ : Vec).WF :=
  ⟨rfl, by decide, by decide, by
    intro k e h
    match k, h with
    | 0, h => simp at h; simp [← h]
    | 1, h => simp at h; simp [← h]
    | 2, h => simp at h; simp [← h]
    | k + 3, h => simp at h, fun m => by rw [Vec.growKind_explicit]; simp [growBy]⟩

end Qlibc.Props.C10

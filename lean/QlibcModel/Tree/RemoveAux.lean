/-
  Deletion, auxiliary facts: `find_min` is the head of the in-order sequence, the ideal
  deletion keeps a list sorted, and none of the restructuring helpers reads the colour of the
  root of its argument (`Rc`: equal up to the root colour) — which is why the colour of the
  tree root does not matter to `remove_obj`.
-/
import QlibcModel.Tree.ListSpec

namespace Qlibc.Tree
open Qlibc
namespace T
variable {α : Type}

theorem inorder_ne_nil {t : T α} (h : t ≠ nil) : inorder t ≠ [] := by
  cases t with
  | nil => exact (h rfl).elim
  | node l a c r => simp

theorem findMin_eq_head : ∀ t : T α, findMin t = (inorder t).head? := by
  intro t
  induction t with
  | nil => rfl
  | node l a c r ihl _ =>
    cases l with
    | nil => simp [findMin]
    | node ll la lc lr =>
      simp [findMin, ihl, List.head?_append]

section
variable {K : Type} {cmp : K → K → Ordering} {key : α → K}

theorem delL_subset (k : K) : ∀ (l : List α) (b : α), b ∈ delL cmp key k l → b ∈ l := by
  intro l
  induction l with
  | nil => intro b hb; simp [delL] at hb
  | cons a rest ih =>
    intro b hb
    simp only [delL] at hb
    cases hcmp : cmp k (key a) with
    | lt => rw [hcmp] at hb; exact hb
    | eq => rw [hcmp] at hb; simp at hb; simp [hb]
    | gt =>
      rw [hcmp] at hb; simp at hb
      rcases hb with rfl | hb
      · simp
      · simp [ih b hb]

/-- the ideal deletion keeps the list strictly ascending -/
theorem delL_sorted (k : K) : ∀ l : List α, Sorted cmp key l → Sorted cmp key (delL cmp key k l) := by
  intro l
  induction l with
  | nil => intro _; simp [delL, Sorted]
  | cons a rest ih =>
    intro hs
    unfold Sorted at hs ih ⊢
    rw [List.pairwise_cons] at hs
    simp only [delL]
    cases hcmp : cmp k (key a) with
    | lt => simp only [List.pairwise_cons]; exact hs
    | eq => exact hs.2
    | gt =>
      simp only [List.pairwise_cons]
      exact ⟨fun b hb => hs.1 b (delL_subset k rest b hb), ih hs.2⟩

end

/-! ### independence of the root colour -/

/-- equal up to the colour of the root -/
def Rc (t s : T α) : Prop := blacken t = blacken s

theorem Rc.refl (t : T α) : Rc t t := rfl

theorem rc_node (l : T α) (a c c' r) : Rc (node l a c r) (node l a c' r) := by simp [Rc]

theorem Rc.inv {t s : T α} (h : Rc t s) :
    (t = nil ∧ s = nil) ∨ ∃ l a c c' r, t = node l a c r ∧ s = node l a c' r := by
  cases t with
  | nil => cases s with
    | nil => exact Or.inl ⟨rfl, rfl⟩
    | node => simp [Rc] at h
  | node l a c r => cases s with
    | nil => simp [Rc] at h
    | node l' a' c' r' =>
      simp [Rc] at h
      obtain ⟨rfl, rfl, rfl⟩ := h
      exact Or.inr ⟨_, _, _, _, _, rfl, rfl⟩

theorem Rc.blacken_eq {t s : T α} (h : Rc t s) : blacken t = blacken s := h

/-- `f` never reads the colour of the root of its argument and hands it on to the root of its
    result -/
def RootBlind (f : T α → Except Fault (T α)) : Prop :=
  ∀ t s t', Rc t s → f t = .ok t' → ∃ s', f s = .ok s' ∧ Rc t' s'

theorem RootBlind.bind {f g : T α → Except Fault (T α)} (hf : RootBlind f) (hg : RootBlind g) :
    RootBlind (fun t => f t >>= g) := by
  intro t s t' h he
  obtain ⟨t1, h1, h2⟩ := bind_eq_ok he
  obtain ⟨s1, h3, h4⟩ := hf t s t1 h h1
  obtain ⟨s', h5, h6⟩ := hg t1 s1 t' h4 h2
  exact ⟨s', by simp [h3, h5], h6⟩

theorem flip_blind : RootBlind (flip (α := α)) := by
  intro t s t' h he
  rcases h.inv with ⟨rfl, rfl⟩ | ⟨l, a, c, c', r, rfl, rfl⟩
  · simp [flip] at he
  · cases l <;> cases r <;> simp [flip] at he ⊢
    subst he
    simp [Rc]

theorem rotL_blind : RootBlind (rotL (α := α)) := by
  intro t s t' h he
  rcases h.inv with ⟨rfl, rfl⟩ | ⟨l, a, c, c', r, rfl, rfl⟩
  · simp [rotL] at he
  · cases r <;> simp [rotL] at he ⊢
    subst he
    simp [Rc]

theorem rotR_blind : RootBlind (rotR (α := α)) := by
  intro t s t' h he
  rcases h.inv with ⟨rfl, rfl⟩ | ⟨l, a, c, c', r, rfl, rfl⟩
  · simp [rotR] at he
  · cases l <;> simp [rotR] at he ⊢
    subst he
    simp [Rc]

theorem ok_blind : RootBlind (fun t : T α => Except.ok t) := by
  intro t s t' h he
  cases he
  exact ⟨s, rfl, h⟩

/-- a conditional on something other than the root colour -/
theorem RootBlind.ite {p : T α → Bool} {f g : T α → Except Fault (T α)}
    (hp : ∀ t s, Rc t s → p t = p s) (hf : RootBlind f) (hg : RootBlind g) :
    RootBlind (fun t => if p t then f t else g t) := by
  intro t s t' h he
  simp only at he ⊢
  rw [← hp t s h]
  split at he
  · rename_i hc; simp only [hc, if_true]; exact hf t s t' h he
  · rename_i hc; simp only [hc]; exact hg t s t' h he

theorem Rc.left_eq {t s : T α} (h : Rc t s) : left t = left s := by
  rcases h.inv with ⟨rfl, rfl⟩ | ⟨l, a, c, c', r, rfl, rfl⟩ <;> rfl
theorem Rc.right_eq {t s : T α} (h : Rc t s) : right t = right s := by
  rcases h.inv with ⟨rfl, rfl⟩ | ⟨l, a, c, c', r, rfl, rfl⟩ <;> rfl

theorem mrlTail_blind : RootBlind (mrlTail (α := α)) := by
  intro t s t' h he
  rcases h.inv with ⟨rfl, rfl⟩ | ⟨l, a, c, c', r, rfl, rfl⟩
  · simp [mrlTail] at he
  · simp only [mrlTail] at he ⊢
    by_cases hc : isRed (right r) = true
    · rw [if_pos hc] at he ⊢
      obtain ⟨r3, h1, h2⟩ := bind_eq_ok he
      cases h2
      exact ⟨node l a c' r3, by simp [h1], rc_node _ _ _ _ _⟩
    · rw [if_neg hc] at he ⊢
      cases he
      exact ⟨_, rfl, rc_node _ _ _ _ _⟩

theorem mrlBody_blind : RootBlind (mrlBody (α := α)) := by
  intro t s t' h he
  rcases h.inv with ⟨rfl, rfl⟩ | ⟨l, a, c, c', r, rfl, rfl⟩
  · simp [mrlBody] at he
  · simp only [mrlBody] at he ⊢
    by_cases hc : isRed (left r) = true
    · rw [if_pos hc] at he ⊢
      obtain ⟨r', h1, h2⟩ := bind_eq_ok he
      obtain ⟨s', h3, h4⟩ := (rotL_blind.bind (flip_blind.bind mrlTail_blind))
        (node l a c r') (node l a c' r') t' (rc_node _ _ _ _ _) h2
      exact ⟨s', by simpa [h1] using h3, h4⟩
    · rw [if_neg hc] at he ⊢
      cases he
      exact ⟨_, rfl, rc_node _ _ _ _ _⟩

theorem moveRedLeft_blind : RootBlind (moveRedLeft (α := α)) :=
  flip_blind.bind mrlBody_blind

theorem mrrBody_blind : RootBlind (mrrBody (α := α)) :=
  RootBlind.ite (p := fun t => isRed (left (left t))) (fun t s h => by simp only [h.left_eq])
    (rotR_blind.bind flip_blind) ok_blind

theorem moveRedRight_blind : RootBlind (moveRedRight (α := α)) :=
  flip_blind.bind mrrBody_blind

theorem fixR_blind : RootBlind (fixR (α := α)) := by
  intro t s t' h he
  rcases h.inv with ⟨rfl, rfl⟩ | ⟨l, a, c, c', r, rfl, rfl⟩
  · simp [fixR] at he
  · simp only [fixR] at he ⊢
    by_cases hc : isRed r = true
    · rw [if_pos hc] at he ⊢
      obtain ⟨r', h1, h2⟩ := bind_eq_ok he
      obtain ⟨s', h3, h4⟩ := rotL_blind (node l a c r') (node l a c' r') t' (rc_node _ _ _ _ _) h2
      exact ⟨s', by simpa [h1] using h3, h4⟩
    · rw [if_neg hc] at he ⊢
      cases he
      exact ⟨_, rfl, rc_node _ _ _ _ _⟩

theorem fixL_blind : RootBlind (fixL (α := α)) :=
  RootBlind.ite (p := fun t => isRed (left t) && isRed (left (left t)))
    (fun t s h => by simp only [h.left_eq]) rotR_blind ok_blind

theorem fix_blind : RootBlind (fix (α := α)) := fixR_blind.bind fixL_blind

theorem minPrep_blind : RootBlind (minPrep (α := α)) :=
  RootBlind.ite (p := fun t => !isRed (left t) && !isRed (left (left t)))
    (fun t s h => by simp only [h.left_eq]) moveRedLeft_blind ok_blind

theorem leftPrep_blind : RootBlind (leftPrep (α := α)) :=
  RootBlind.ite (p := fun t => !isNil (left t) && (!isRed (left t) && !isRed (left (left t))))
    (fun t s h => by simp only [h.left_eq]) moveRedLeft_blind ok_blind

theorem rightPrep1_blind {t s t' : T α} {b} (h : Rc t s) (he : rightPrep1 t = .ok (t', b)) :
    ∃ s', rightPrep1 s = .ok (s', b) ∧ Rc t' s' := by
  unfold rightPrep1 at he ⊢
  rw [← h.left_eq]
  split at he
  · rename_i hc
    rw [if_pos hc]
    obtain ⟨t1, h1, h2⟩ := bind_eq_ok he
    cases h2
    obtain ⟨s', h3, h4⟩ := rotR_blind t s t' h h1
    exact ⟨s', by simp [h3], h4⟩
  · rename_i hc
    rw [if_neg hc]
    cases he
    exact ⟨s, rfl, h⟩

theorem rightPrep2_blind {t s t' : T α} {b0 b} (h : Rc t s) (he : rightPrep2 t b0 = .ok (t', b)) :
    ∃ s', rightPrep2 s b0 = .ok (s', b) ∧ Rc t' s' := by
  unfold rightPrep2 at he ⊢
  rw [← h.right_eq]
  split at he
  · rename_i hc
    rw [if_pos hc]
    obtain ⟨t1, h1, h2⟩ := bind_eq_ok he
    cases h2
    obtain ⟨s', h3, h4⟩ := moveRedRight_blind t s t' h h1
    exact ⟨s', by simp [h3], h4⟩
  · rename_i hc
    rw [if_neg hc]
    cases he
    exact ⟨s, rfl, h⟩

end T
end Qlibc.Tree

/-
  Deletion (`remove_obj`, `remove_min` of qtreetbl.c, LLRB 2-3-4 variant):
  * never faults on a valid ordered tree, fuel `size t + 1` suffices, and the result is a valid
    left-leaning red-black tree again (C02);
  * refines the ideal sorted map `delL` (C01).
  Both come out of one induction over the class table of RemovePrep.lean.
-/
import QlibcModel.Tree.RemovePrep
import QlibcModel.Tree.RemoveAux

namespace Qlibc.Tree
open Qlibc
namespace T
variable {α : Type}

/-! ### `remove_min` -/

theorem removeMin_leaf (fuel : Nat) (a : α) (c r) :
    removeMin (fuel + 1) (node nil a c r) = .ok nil := by simp [removeMin]

theorem removeMin_step (fuel : Nat) {l : T α} {a c r l1 a1 c1 r1} (hl : l ≠ nil)
    (hp : minPrep (node l a c r) = .ok (node l1 a1 c1 r1)) :
    removeMin (fuel + 1) (node l a c r) =
      (removeMin fuel l1 >>= fun l2 => fix (node l2 a1 c1 r1)) := by
  cases l with
  | nil => exact (hl rfl).elim
  | node ll la lc lr => simp [removeMin, hp]

/-- `remove_min` on a subtree of class B or C: succeeds, returns the class table's result with
    the same black height, and removes exactly the first element of the in-order sequence -/
theorem removeMin_spec : ∀ (fuel : Nat) (t : T α) (cls : Cls) (n : Nat), size t < fuel →
    cls.leftOk → Pre cls t n →
    ∃ t', removeMin fuel t = .ok t' ∧ Post cls t' n ∧ inorder t' = (inorder t).drop 1 := by
  intro fuel
  induction fuel with
  | zero => intro t cls n h; omega
  | succ fuel ih =>
    intro t cls n hsz hcls hpre
    cases t with
    | nil => exact (hpre.ne_nil rfl).elim
    | node l a c r =>
      by_cases hl : l = nil
      · subst hl
        refine ⟨nil, removeMin_leaf fuel a c r, ?_⟩
        cases cls with
        | D => exact hcls.elim
        | E => exact hcls.elim
        | B =>
          cases hpre with
          | red hbl hbr =>
            cases hbl
            cases hbr
            exact ⟨⟨false, Bal.nil⟩, by simp⟩
        | C =>
          obtain ⟨l0, a0, r0, cr, heq, hbl, hbr⟩ := hpre
          cases heq
          cases hbl
      · obtain ⟨l1, a1, c1, r1, hp, _, cls', m, hcls', hpre', hk⟩ := minPrep_ok hcls hpre hl
        have hs := minPrep_same hp
        have hsz1 : size l1 < fuel := by
          have := hs.2; simp at this hsz; omega
        obtain ⟨l2, h1, h2, h3⟩ := ih l1 cls' m hsz1 hcls' hpre'
        obtain ⟨t', h4, h5⟩ := hk a1 l2 h2
        refine ⟨t', ?_, h5, ?_⟩
        · rw [removeMin_step fuel hl hp, h1]; simpa using h4
        · have h6 := (fix_same h4).1
          have h7 := hs.1
          simp only [inorder_node] at h6 h7
          rw [h6, h3, inorder_node, ← h7]
          have hne := inorder_ne_nil hpre'.ne_nil
          cases hi : inorder l1 with
          | nil => exact (hne hi).elim
          | cons x xs => simp

/-! ### `remove_obj`: one level of the recursion, as equations -/

section
variable {K : Type} (cmp : K → K → Ordering) (key : α → K) (copyKV : α → α → α) (k : K)

theorem remove_nil (fuel : Nat) :
    remove cmp key copyKV k (fuel + 1) (nil : T α) = .ok (nil, true) := by simp [remove]

theorem remove_lt_step (fuel : Nat) {l : T α} {a c r l1 a1 c1 r1}
    (hlt : cmp k (key a) = .lt) (hp : leftPrep (node l a c r) = .ok (node l1 a1 c1 r1)) :
    remove cmp key copyKV k (fuel + 1) (node l a c r) =
      (remove cmp key copyKV k fuel l1 >>= fun p =>
        fix (node p.1 a1 c1 r1) >>= fun t => .ok (t, p.2)) := by
  simp [remove, hlt, hp]

theorem remove_ge_step_eq (fuel : Nat) {l : T α} {a c r l1 a1 c1 r1 b1 l2 a2 c2 r2 b2 m}
    (hge : cmp k (key a) ≠ .lt)
    (h1 : rightPrep1 (node l a c r) = .ok (node l1 a1 c1 r1, b1)) (hr1 : isNil r1 = false)
    (h2 : rightPrep2 (node l1 a1 c1 r1) b1 = .ok (node l2 a2 c2 r2, b2))
    (ho2 : (if b2 then cmp k (key a2) else cmp k (key a)) = .eq) (hm : findMin r2 = some m) :
    remove cmp key copyKV k (fuel + 1) (node l a c r) =
      (removeMin fuel r2 >>= fun r3 =>
        fix (node l2 (copyKV a2 m) c2 r3) >>= fun t => .ok (t, false)) := by
  cases hc : cmp k (key a) with
  | lt => exact (hge hc).elim
  | eq => cases b2 <;> simp [hc] at ho2 <;> simp [remove, hc, h1, hr1, h2, hm, ho2]
  | gt => cases b2 <;> simp [hc] at ho2 <;> simp [remove, hc, h1, hr1, h2, hm, ho2]

theorem remove_ge_step_ne (fuel : Nat) {l : T α} {a c r l1 a1 c1 r1 b1 l2 a2 c2 r2 b2}
    (hge : cmp k (key a) ≠ .lt)
    (h1 : rightPrep1 (node l a c r) = .ok (node l1 a1 c1 r1, b1)) (hr1 : isNil r1 = false)
    (h2 : rightPrep2 (node l1 a1 c1 r1) b1 = .ok (node l2 a2 c2 r2, b2))
    (ho2 : (if b2 then cmp k (key a2) else cmp k (key a)) ≠ .eq) :
    remove cmp key copyKV k (fuel + 1) (node l a c r) =
      (remove cmp key copyKV k fuel r2 >>= fun p =>
        fix (node l2 a2 c2 p.1) >>= fun t => .ok (t, p.2)) := by
  cases hc : cmp k (key a) with
  | lt => exact (hge hc).elim
  | eq => cases b2 <;> simp [hc] at ho2 <;> simp [remove, hc, h1, hr1, h2, ho2]
  | gt => cases b2 <;> simp [hc] at ho2 <;> simp [remove, hc, h1, hr1, h2, ho2]

theorem remove_ge_leaf (fuel : Nat) (a : α) (c : Bool) (hge : cmp k (key a) ≠ .lt) :
    remove cmp key copyKV k (fuel + 1) (node nil a c nil) =
      if cmp k (key a) == .eq then .ok (nil, false)
      else remove cmp key copyKV k fuel nil >>= fun p =>
          fix (node nil a c p.1) >>= fun t => .ok (t, p.2) := by
  cases hc : cmp k (key a) with
  | lt => exact (hge hc).elim
  | eq => simp [remove, hc, rightPrep1]
  | gt => simp [remove, hc, rightPrep1, rightPrep2]

end

/-! ### `remove_obj`: the class table, totality, and refinement of `delL`, in one induction -/

section
variable {K β : Type} {cmp : K → K → Ordering} {key : α → K}

/-- classes D and E are entered only with a key that is not below the root's -/
def rootGe (cmp : K → K → Ordering) (key : α → K) (k : K) : T α → Prop
  | nil => True
  | node _ a _ _ => cmp k (key a) ≠ .lt

variable (copyKV : α → α → α) (kv : α → β) (k : K)

theorem remove_spec (hc : CmpOk cmp) (hkv : ∀ a m, kv (copyKV a m) = kv m) :
    ∀ (fuel : Nat) (t : T α) (cls : Cls) (n : Nat), size t < fuel → Ordered cmp key t →
    Pre cls t n → (¬ cls.leftOk → rootGe cmp key k t) →
    ∃ t' e, remove cmp key copyKV k fuel t = .ok (t', e) ∧ Post cls t' n ∧
      (inorder t').map kv = (delL cmp key k (inorder t)).map kv ∧
      e = !(memL cmp key k (inorder t)) := by
  intro fuel
  induction fuel with
  | zero => intro t cls n h; omega
  | succ fuel ih =>
    intro t cls n hsz ho hpre hge
    cases t with
    | nil => exact (hpre.ne_nil rfl).elim
    | node l a c r =>
      have ho' : Sorted cmp key (inorder l ++ a :: inorder r) := by simpa [Ordered] using ho
      obtain ⟨sl, sr, hla, har, hlr⟩ := sorted_mid ho'
      by_cases hlt : cmp k (key a) = .lt
      · -- descend to the left
        have hcls : cls.leftOk := Classical.byContradiction fun hn => hge hn hlt
        by_cases hl : l = nil
        · subst hl
          have hshape : c = true ∧ r = nil ∧ n = 0 := by
            cases cls with
            | D => exact hcls.elim
            | E => exact hcls.elim
            | B => cases hpre with
              | red hbl hbr => cases hbl; cases hbr; exact ⟨rfl, rfl, rfl⟩
            | C =>
              obtain ⟨l0, a0, r0, cr, heq, hbl, hbr⟩ := hpre
              cases heq
              cases hbl
          obtain ⟨rfl, rfl, rfl⟩ := hshape
          have hclsB : cls = .B := by
            cases cls with
            | D => exact hcls.elim
            | E => exact hcls.elim
            | B => rfl
            | C =>
              obtain ⟨l0, a0, r0, cr, heq, hbl, hbr⟩ := hpre
              cases heq
          subst hclsB
          obtain ⟨f, rfl⟩ : ∃ f, fuel = f + 1 := ⟨fuel - 1, by simp at hsz; omega⟩
          have hp : leftPrep (node nil a true nil) = .ok (node nil a true nil) := by simp [leftPrep]
          refine ⟨node nil a true nil, true, ?_, ⟨true, Bal.red .nil .nil⟩, ?_, ?_⟩
          · rw [remove_lt_step cmp key copyKV k (f + 1) hlt hp, remove_nil]
            simp [fix, fixR, fixL]
          · simp [delL, hlt]
          · simp [memL, lookupL, hlt]
        · obtain ⟨l1, a1, c1, r1, hp, hkey, cls', m, hcls', hpre', hcont⟩ := minPrep_ok hcls hpre hl
          have hp' : leftPrep (node l a c r) = .ok (node l1 a1 c1 r1) := by
            rw [leftPrep_eq_minPrep (by simpa using hl)]; exact hp
          have hs := minPrep_same hp
          have h7 := hs.1
          simp only [inorder_node] at h7
          have ho1 : Sorted cmp key (inorder l1 ++ a1 :: inorder r1) := by rw [h7]; exact ho'
          obtain ⟨sl1, _, _, _, _⟩ := sorted_mid ho1
          have hk1 : cmp k (key a1) = .lt := by
            rcases hkey with rfl | hmem
            · exact hlt
            · exact hc.lt_trans hlt (har a1 hmem)
          have hsz1 : size l1 < fuel := by
            have := hs.2; simp at this hsz; omega
          obtain ⟨l2, e, h1, h2, h3, h4⟩ :=
            ih l1 cls' m hsz1 sl1 hpre' (fun hn => (hn hcls').elim)
          obtain ⟨t', h5, h6⟩ := hcont a1 l2 h2
          refine ⟨t', e, ?_, h6, ?_, ?_⟩
          · rw [remove_lt_step cmp key copyKV k fuel hlt hp', h1]; simp [h5]
          · have h8 := (fix_same h5).1
            simp only [inorder_node] at h8
            rw [h8, inorder_node, ← h7, delL_lt k _ _ a1 hk1]
            simp [h3]
          · rw [h4, inorder_node, ← h7]
            simp [memL, lookupL_lt k _ _ a1 hk1]
      · -- equal or to the right
        have hor : cmp k (key a) = .gt ∨ cmp k (key a) = .eq := by
          cases hcmp : cmp k (key a) with
          | lt => exact (hlt hcmp).elim
          | eq => exact Or.inr rfl
          | gt => exact Or.inl rfl
        by_cases hleaf : cls = .B ∧ r = nil
        · obtain ⟨rfl, rfl⟩ := hleaf
          have hshape : c = true ∧ l = nil ∧ n = 0 := by
            cases hpre with
            | red hbl hbr => cases hbr; cases hbl; exact ⟨rfl, rfl, rfl⟩
          obtain ⟨rfl, rfl, rfl⟩ := hshape
          rw [remove_ge_leaf cmp key copyKV k fuel a true hlt]
          rcases hor with hgt | heq
          · obtain ⟨f, rfl⟩ : ∃ f, fuel = f + 1 := ⟨fuel - 1, by simp at hsz; omega⟩
            refine ⟨node nil a true nil, true, ?_, ⟨true, Bal.red .nil .nil⟩, ?_, ?_⟩
            · rw [remove_nil]; simp [hgt, fix, fixR, fixL]
            · simp [delL, hgt]
            · simp [memL, lookupL, hgt]
          · refine ⟨nil, false, by simp [heq], ⟨false, Bal.nil⟩, ?_, ?_⟩
            · simp [delL, heq]
            · simp [memL, lookupL, heq]
        · obtain ⟨l1, a1, c1, r1, b1, l2, a2, c2, r2, b2, p1, hr1, p2, cls', m, hpre', hcont, hcase⟩ :=
            rightPrep_ok hpre (fun h1 h2 => hleaf ⟨h1, h2⟩)
          have hs1 := rightPrep1_same p1
          have hs2 := rightPrep2_same p2
          have hs := hs1.trans hs2
          have h7 := hs.1
          simp only [inorder_node] at h7
          have ho2 : Sorted cmp key (inorder l2 ++ a2 :: inorder r2) := by rw [h7]; exact ho'
          obtain ⟨_, sr2, hl2a2, _, _⟩ := sorted_mid ho2
          have hsz2 : size r2 < fuel := by
            have := hs.2; simp at this hsz; omega
          obtain ⟨ho2eq, hk2, heqcls, hroot⟩ :
              ((if b2 then cmp k (key a2) else cmp k (key a)) = cmp k (key a2)) ∧
              (cmp k (key a2) = .gt ∨ cmp k (key a2) = .eq) ∧
              (cmp k (key a2) = .eq → cls'.leftOk) ∧
              (¬ cls'.leftOk → rootGe cmp key k r2) := by
            rcases hcase with ⟨rfl, hcl⟩ | ⟨ll, la, lc, lr, rfl, rfl, rfl, x, cx, y, rfl⟩
            · exact ⟨by simp, hor, fun _ => hcl, fun hn => (hn hcl).elim⟩
            · have hgt : cmp k (key a2) = .gt := left_below hc hla hor a2 (by simp)
              exact ⟨by simp, Or.inl hgt, fun h => (by rw [hgt] at h; cases h), fun _ => hlt⟩
          have hb2 := left_below hc hl2a2 hk2
          rcases hk2 with hk | hk
          · -- keep descending
            obtain ⟨r3, e, g1, g2, g3, g4⟩ := ih r2 cls' m hsz2 sr2 hpre' hroot
            obtain ⟨t', g5, g6⟩ := hcont a2 r3 g2
            refine ⟨t', e, ?_, g6, ?_, ?_⟩
            · rw [remove_ge_step_ne cmp key copyKV k fuel hlt p1 hr1 p2 (by rw [ho2eq, hk]; simp), g1]
              simp [g5]
            · have g7 := (fix_same g5).1
              simp only [inorder_node] at g7
              rw [g7, inorder_node, ← h7, delL_gt k _ _ a2 hb2 hk]
              simp [g3]
            · rw [g4, inorder_node, ← h7]
              simp [memL, lookupL_gt k _ _ a2 hb2 hk]
          · -- found: copy the successor here, remove it from the right subtree
            have hcls' := heqcls hk
            have hne := inorder_ne_nil hpre'.ne_nil
            cases hi : inorder r2 with
            | nil => exact (hne hi).elim
            | cons mn rest =>
              have hm : findMin r2 = some mn := by rw [findMin_eq_head, hi]; rfl
              obtain ⟨r3, g1, g2, g3⟩ := removeMin_spec fuel r2 cls' m hsz2 hcls' hpre'
              obtain ⟨t', g4, g5⟩ := hcont (copyKV a2 mn) r3 g2
              refine ⟨t', false, ?_, g5, ?_, ?_⟩
              · rw [remove_ge_step_eq cmp key copyKV k fuel hlt p1 hr1 p2 (by rw [ho2eq]; exact hk) hm, g1]
                simp [g4]
              · have g6 := (fix_same g4).1
                simp only [inorder_node] at g6
                rw [g6, g3, inorder_node, ← h7, delL_eq k _ _ a2 hb2 hk, hi]
                simp [hkv]
              · rw [inorder_node, ← h7]
                simp [memL, lookupL_eq k _ _ a2 hb2 hk]

end

/-! ### the colour of the root is never read -/

section
variable {K : Type} (cmp : K → K → Ordering) (key : α → K) (copyKV : α → α → α) (k : K)

theorem ite_transfer {c : Prop} [Decidable c] {A B A' B' : Except Fault (T α × Bool)} {t' : T α} {e : Bool}
    (he : (if c then A else B) = .ok (t', e))
    (hA : A = .ok (t', e) → ∃ s', A' = .ok (s', e) ∧ Rc t' s')
    (hB : B = .ok (t', e) → ∃ s', B' = .ok (s', e) ∧ Rc t' s') :
    ∃ s', (if c then A' else B') = .ok (s', e) ∧ Rc t' s' := by
  by_cases hc : c
  · rw [if_pos hc] at he ⊢; exact hA he
  · rw [if_neg hc] at he ⊢; exact hB he

theorem remove_blind (fuel : Nat) {t s t' : T α} {e : Bool} (h : Rc t s)
    (he : remove cmp key copyKV k fuel t = .ok (t', e)) :
    ∃ s', remove cmp key copyKV k fuel s = .ok (s', e) ∧ Rc t' s' := by
  cases fuel with
  | zero => simp [remove] at he
  | succ fuel =>
    rcases h.inv with ⟨rfl, rfl⟩ | ⟨l, a, c, c', r, rfl, rfl⟩
    · exact ⟨t', he, Rc.refl _⟩
    · simp only [remove] at he ⊢
      cases hcmp : cmp k (key a) with
      | lt =>
        simp only [hcmp] at he ⊢
        obtain ⟨t1, h1, h2⟩ := bind_eq_ok he
        obtain ⟨s1, h3, h4⟩ := leftPrep_blind _ _ _ (rc_node l a c c' r) h1
        rw [h3]
        simp only [ok_bind]
        rcases h4.inv with ⟨rfl, rfl⟩ | ⟨l1, a1, c1, c1', r1, rfl, rfl⟩
        · simp at h2
        · simp only at h2 ⊢
          obtain ⟨p, h5, h6⟩ := bind_eq_ok h2
          obtain ⟨t2, h7, h8⟩ := bind_eq_ok h6
          cases h8
          obtain ⟨s', h9, h10⟩ := fix_blind _ _ _ (rc_node p.1 a1 c1 c1' r1) h7
          exact ⟨s', by simp [h5, h9], h10⟩
      | eq =>
        simp only [hcmp] at he ⊢
        obtain ⟨p1, h1, h2⟩ := bind_eq_ok he
        obtain ⟨q1, b1⟩ := p1
        obtain ⟨s1, h3, h4⟩ := rightPrep1_blind (rc_node l a c c' r) h1
        rw [h3]
        simp only [ok_bind]
        rcases h4.inv with ⟨rfl, rfl⟩ | ⟨l1, a1, c1, c1', r1, rfl, rfl⟩
        · simp at h2
        · simp only at h2 ⊢
          refine ite_transfer h2 (fun hA => ?_) (fun hB => ?_)
          · cases hA
            exact ⟨nil, rfl, Rc.refl _⟩
          · obtain ⟨p2, h5, h6⟩ := bind_eq_ok hB
            obtain ⟨q2, b2⟩ := p2
            obtain ⟨s2, h7, h8⟩ := rightPrep2_blind (rc_node l1 a1 c1 c1' r1) h5
            rw [h7]
            simp only [ok_bind]
            rcases h8.inv with ⟨rfl, rfl⟩ | ⟨l2, a2, c2, c2', r2, rfl, rfl⟩
            · simp at h6
            · simp only at h6 ⊢
              refine ite_transfer h6 (fun hA => ?_) (fun hB => ?_)
              · cases hm : findMin r2 with
                | none => simp [hm] at hA
                | some mn =>
                  simp only [hm] at hA ⊢
                  obtain ⟨r3, g1, g2⟩ := bind_eq_ok hA
                  obtain ⟨t2, g3, g4⟩ := bind_eq_ok g2
                  cases g4
                  obtain ⟨s', g5, g6⟩ := fix_blind _ _ _ (rc_node l2 (copyKV a2 mn) c2 c2' r3) g3
                  exact ⟨s', by simp [g1, g5], g6⟩
              · obtain ⟨p, g1, g2⟩ := bind_eq_ok hB
                obtain ⟨t2, g3, g4⟩ := bind_eq_ok g2
                cases g4
                obtain ⟨s', g5, g6⟩ := fix_blind _ _ _ (rc_node l2 a2 c2 c2' p.1) g3
                exact ⟨s', by simp [g1, g5], g6⟩
      | gt =>
        simp only [hcmp] at he ⊢
        obtain ⟨p1, h1, h2⟩ := bind_eq_ok he
        obtain ⟨q1, b1⟩ := p1
        obtain ⟨s1, h3, h4⟩ := rightPrep1_blind (rc_node l a c c' r) h1
        rw [h3]
        simp only [ok_bind]
        rcases h4.inv with ⟨rfl, rfl⟩ | ⟨l1, a1, c1, c1', r1, rfl, rfl⟩
        · simp at h2
        · simp only at h2 ⊢
          refine ite_transfer h2 (fun hA => ?_) (fun hB => ?_)
          · cases hA
            exact ⟨nil, rfl, Rc.refl _⟩
          · obtain ⟨p2, h5, h6⟩ := bind_eq_ok hB
            obtain ⟨q2, b2⟩ := p2
            obtain ⟨s2, h7, h8⟩ := rightPrep2_blind (rc_node l1 a1 c1 c1' r1) h5
            rw [h7]
            simp only [ok_bind]
            rcases h8.inv with ⟨rfl, rfl⟩ | ⟨l2, a2, c2, c2', r2, rfl, rfl⟩
            · simp at h6
            · simp only at h6 ⊢
              refine ite_transfer h6 (fun hA => ?_) (fun hB => ?_)
              · cases hm : findMin r2 with
                | none => simp [hm] at hA
                | some mn =>
                  simp only [hm] at hA ⊢
                  obtain ⟨r3, g1, g2⟩ := bind_eq_ok hA
                  obtain ⟨t2, g3, g4⟩ := bind_eq_ok g2
                  cases g4
                  obtain ⟨s', g5, g6⟩ := fix_blind _ _ _ (rc_node l2 (copyKV a2 mn) c2 c2' r3) g3
                  exact ⟨s', by simp [g1, g5], g6⟩
              · obtain ⟨p, g1, g2⟩ := bind_eq_ok hB
                obtain ⟨t2, g3, g4⟩ := bind_eq_ok g2
                cases g4
                obtain ⟨s', g5, g6⟩ := fix_blind _ _ _ (rc_node l2 a2 c2 c2' p.1) g3
                exact ⟨s', by simp [g1, g5], g6⟩

end

/-! ### more fuel never changes a successful result -/

theorem removeMin_mono : ∀ (fuel : Nat) (t t' : T α), removeMin fuel t = .ok t' →
    removeMin (fuel + 1) t = .ok t' := by
  intro fuel
  induction fuel with
  | zero => intro t t' h; simp [removeMin] at h
  | succ fuel ih =>
    intro t t' h
    cases t with
    | nil => simp [removeMin] at h
    | node l a c r =>
      simp only [removeMin] at h ⊢
      by_cases hl : isNil l = true
      · rw [if_pos hl] at h ⊢; exact h
      · rw [if_neg hl] at h ⊢
        obtain ⟨t1, h1, h2⟩ := bind_eq_ok h
        rw [h1]
        simp only [ok_bind]
        cases t1 with
        | nil => simp at h2
        | node l1 a1 c1 r1 =>
          simp only at h2 ⊢
          obtain ⟨l2, h3, h4⟩ := bind_eq_ok h2
          rw [ih _ _ h3]
          exact h4

theorem ite_mono {γ : Type} {c : Prop} [Decidable c] {A B A' B' : Except Fault γ} {r : γ}
    (he : (if c then A else B) = .ok r) (hA : A = .ok r → A' = .ok r) (hB : B = .ok r → B' = .ok r) :
    (if c then A' else B') = .ok r := by
  by_cases hc : c
  · rw [if_pos hc] at he ⊢; exact hA he
  · rw [if_neg hc] at he ⊢; exact hB he

section
variable {K : Type} (cmp : K → K → Ordering) (key : α → K) (copyKV : α → α → α) (k : K)

theorem remove_mono : ∀ (fuel : Nat) (t : T α) (res : T α × Bool),
    remove cmp key copyKV k fuel t = .ok res → remove cmp key copyKV k (fuel + 1) t = .ok res := by
  intro fuel
  induction fuel with
  | zero => intro t res h; simp [remove] at h
  | succ fuel ih =>
    intro t res h
    cases t with
    | nil => simpa [remove] using h
    | node l a c r =>
      simp only [remove] at h ⊢
      cases hcmp : cmp k (key a) with
      | lt =>
        simp only [hcmp] at h ⊢
        obtain ⟨t1, h1, h2⟩ := bind_eq_ok h
        rw [h1]
        simp only [ok_bind]
        cases t1 with
        | nil => simp at h2
        | node l1 a1 c1 r1 =>
          simp only at h2 ⊢
          obtain ⟨p, h3, h4⟩ := bind_eq_ok h2
          rw [ih _ _ h3]
          exact h4
      | eq =>
        simp only [hcmp] at h ⊢
        obtain ⟨p1, h1, h2⟩ := bind_eq_ok h
        rw [h1]
        simp only [ok_bind]
        obtain ⟨q1, b1⟩ := p1
        cases q1 with
        | nil => simp at h2
        | node l1 a1 c1 r1 =>
          simp only at h2 ⊢
          refine ite_mono h2 (fun hA => hA) (fun hB => ?_)
          obtain ⟨p2, h5, h6⟩ := bind_eq_ok hB
          rw [h5]
          simp only [ok_bind]
          obtain ⟨q2, b2⟩ := p2
          cases q2 with
          | nil => simp at h6
          | node l2 a2 c2 r2 =>
            simp only at h6 ⊢
            refine ite_mono h6 (fun hA => ?_) (fun hB => ?_)
            · cases hm : findMin r2 with
              | none => simp [hm] at hA
              | some mn =>
                simp only [hm] at hA ⊢
                obtain ⟨r3, g1, g2⟩ := bind_eq_ok hA
                rw [removeMin_mono _ _ _ g1]
                exact g2
            · obtain ⟨p, g1, g2⟩ := bind_eq_ok hB
              rw [ih _ _ g1]
              exact g2
      | gt =>
        simp only [hcmp] at h ⊢
        obtain ⟨p1, h1, h2⟩ := bind_eq_ok h
        rw [h1]
        simp only [ok_bind]
        obtain ⟨q1, b1⟩ := p1
        cases q1 with
        | nil => simp at h2
        | node l1 a1 c1 r1 =>
          simp only at h2 ⊢
          refine ite_mono h2 (fun hA => hA) (fun hB => ?_)
          obtain ⟨p2, h5, h6⟩ := bind_eq_ok hB
          rw [h5]
          simp only [ok_bind]
          obtain ⟨q2, b2⟩ := p2
          cases q2 with
          | nil => simp at h6
          | node l2 a2 c2 r2 =>
            simp only at h6 ⊢
            refine ite_mono h6 (fun hA => ?_) (fun hB => ?_)
            · cases hm : findMin r2 with
              | none => simp [hm] at hA
              | some mn =>
                simp only [hm] at hA ⊢
                obtain ⟨r3, g1, g2⟩ := bind_eq_ok hA
                rw [removeMin_mono _ _ _ g1]
                exact g2
            · obtain ⟨p, g1, g2⟩ := bind_eq_ok hB
              rw [ih _ _ g1]
              exact g2

theorem remove_mono_le {fuel fuel' : Nat} (hle : fuel ≤ fuel') {t : T α} {res : T α × Bool}
    (h : remove cmp key copyKV k fuel t = .ok res) : remove cmp key copyKV k fuel' t = .ok res := by
  induction hle with
  | refl => exact h
  | step _ ih => exact remove_mono cmp key copyKV k _ _ _ ih

end

/-! ### the theorems about `qtreetbl_remove` (root call, root blackened afterwards) -/

section
variable {K β : Type} {cmp : K → K → Ordering} {key : α → K}

/-- everything at once for the root call: the colour of the root is never read, so a black
    2-node root is treated as the red root of class B -/
theorem remove_top (hc : CmpOk cmp) (copyKV : α → α → α) (kv : α → β)
    (hkv : ∀ a m, kv (copyKV a m) = kv m) (k : K) (fuel : Nat) (t : T α) (hf : size t < fuel)
    (h : LLRB t) (ho : Ordered cmp key t) :
    ∃ t' enoent, remove cmp key copyKV k fuel t = .ok (t', enoent) ∧ LLRB (blacken t') ∧
      (inorder t').map kv = (delL cmp key k (inorder t)).map kv ∧
      enoent = !(memL cmp key k (inorder t)) := by
  obtain ⟨n, hb⟩ := h
  cases hb with
  | nil =>
    obtain ⟨f, rfl⟩ : ∃ f, fuel = f + 1 := ⟨fuel - 1, by omega⟩
    exact ⟨nil, true, remove_nil cmp key copyKV k f, ⟨0, Bal.nil⟩, by simp [delL], by simp [memL, lookupL]⟩
  | @black l r a cl cr m hl hr hlean =>
    cases cl
    · have hcr : cr = false := by cases cr <;> simp_all
      subst hcr
      obtain ⟨t1, e, h1, ⟨c1, hb1⟩, h3, h4⟩ := remove_spec copyKV kv k hc hkv fuel (node l a true r) .B m
        (by simpa using hf) (by simpa [Ordered] using ho) (Bal.red hl hr) (fun hn => (hn trivial).elim)
      obtain ⟨s', h5, h6⟩ := remove_blind cmp key copyKV k fuel (rc_node l a true false r) h1
      have hin : inorder s' = inorder t1 := by
        rw [← inorder_blacken s', ← h6.blacken_eq, inorder_blacken]
      refine ⟨s', e, h5, ?_, ?_, ?_⟩
      · rw [← h6.blacken_eq]
        cases c1
        · exact ⟨_, hb1.blacken_black⟩
        · exact ⟨_, hb1.blacken_red⟩
      · rw [hin, h3]; simp
      · rw [h4]; simp
    · obtain ⟨t1, e, h1, hb1, h3, h4⟩ := remove_spec copyKV kv k hc hkv fuel (node l a false r) .C m
        hf ho ⟨l, a, r, cr, rfl, hl, hr⟩ (fun hn => (hn trivial).elim)
      exact ⟨t1, e, h1, ⟨_, Bal.blacken_black hb1⟩, h3, h4⟩

/-- **C02**: deleting from a valid ordered tree never faults, fuel `size t + 1` suffices, and
    the result (root blackened, as `qtreetbl_remove` does) is a valid tree again -/
theorem remove_llrb (hc : CmpOk cmp) (copyKV : α → α → α) (k : K) (t : T α) (h : LLRB t)
    (ho : Ordered cmp key t) :
    ∃ t' enoent, remove cmp key copyKV k (size t + 1) t = .ok (t', enoent) ∧ LLRB (blacken t') := by
  obtain ⟨t', e, h1, h2, _, _⟩ := remove_top hc copyKV (fun _ => ()) (fun _ _ => rfl) k (size t + 1) t
    (by omega) h ho
  exact ⟨t', e, h1, h2⟩

/-- **C01**: deletion refines the ideal sorted map, up to what `copyKV` is observed to do
    through `kv` (the node that stays receives the in-order successor's key and value; `kv`
    projects away whatever else travels with a node); ENOENT exactly for absent keys.
    Any fuel with which the model succeeds. -/
theorem remove_inorder (hc : CmpOk cmp) (copyKV : α → α → α) (kv : α → β)
    (hkv : ∀ a m, kv (copyKV a m) = kv m) (k : K) (fuel : Nat) (t : T α) (res : T α × Bool)
    (hr : remove cmp key copyKV k fuel t = .ok res) (ho : Ordered cmp key t) (h : LLRB t) :
    (inorder res.1).map kv = (delL cmp key k (inorder t)).map kv ∧
    res.2 = !(memL cmp key k (inorder t)) := by
  obtain ⟨t', e, h1, _, h3, h4⟩ := remove_top hc copyKV kv hkv k (max fuel (size t + 1)) t
    (by omega) h ho
  have h5 := remove_mono_le cmp key copyKV k (Nat.le_max_left fuel (size t + 1)) hr
  rw [h1] at h5
  cases h5
  exact ⟨h3, h4⟩

/-- the key sequence after deletion is the ideal one (for a `copyKV` that copies the key) -/
theorem remove_keys (hc : CmpOk cmp) (copyKV : α → α → α)
    (hkey : ∀ a m, key (copyKV a m) = key m) (k : K) (fuel : Nat) (t : T α) (res : T α × Bool)
    (hr : remove cmp key copyKV k fuel t = .ok res) (ho : Ordered cmp key t) (h : LLRB t) :
    (inorder res.1).map key = (delL cmp key k (inorder t)).map key :=
  (remove_inorder hc copyKV key hkey k fuel t res hr ho h).1

theorem sorted_iff_of_map_key_eq {l1 l2 : List α} (h : l1.map key = l2.map key) :
    Sorted cmp key l1 ↔ Sorted cmp key l2 := by
  have e : ∀ l : List α, Sorted cmp key l ↔ (l.map key).Pairwise (fun x y => cmp x y = .lt) := by
    intro l; unfold Sorted; rw [List.pairwise_map]
  rw [e l1, e l2, h]

/-- the search-tree order survives deletion -/
theorem remove_ordered (hc : CmpOk cmp) (copyKV : α → α → α)
    (hkey : ∀ a m, key (copyKV a m) = key m) (k : K) (fuel : Nat) (t : T α) (res : T α × Bool)
    (hr : remove cmp key copyKV k fuel t = .ok res) (ho : Ordered cmp key t) (h : LLRB t) :
    Ordered cmp key res.1 := by
  have h1 := remove_keys hc copyKV hkey k fuel t res hr ho h
  exact (sorted_iff_of_map_key_eq h1).2 (delL_sorted k _ ho)

end

/-- `remove_min` on the subtrees `remove_obj` hands to it (class B: red root; class C: black
    root with a red left child): never faults, keeps the black height, and removes exactly the
    first element of the in-order sequence, which is the one `find_min` returned -/
theorem removeMin_inorder (t : T α) (cls : Cls) (n : Nat) (hcls : cls.leftOk) (h : Pre cls t n) :
    ∃ t', removeMin (size t + 1) t = .ok t' ∧ Post cls t' n ∧
      inorder t' = (inorder t).drop 1 ∧ findMin t = (inorder t).head? := by
  obtain ⟨t', h1, h2, h3⟩ := removeMin_spec (size t + 1) t cls n (by omega) hcls h
  exact ⟨t', h1, h2, h3, findMin_eq_head t⟩

end T
end Qlibc.Tree

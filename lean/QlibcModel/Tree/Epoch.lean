/-
  C03, the table level: the epoch invariant, `reset_iterator`, one call of `qtreetbl_getnext`
  from any cursor, the iterated walk `walkFrom`, and `walk_complete`.
-/
import QlibcModel.Tree.Walk

namespace Qlibc.Tree
open Qlibc T

variable {K V : Type}

/-! ### payload relations -/

/-- same key, value and identifier -/
def Skel (a a' : Entry K V) : Prop := a'.key = a.key ∧ a'.val = a.val ∧ a'.id = a.id
/-- only `next` may differ -/
def NextRel (a a' : Entry K V) : Prop := a'.key = a.key ∧ a'.val = a.val ∧ a'.id = a.id ∧ a'.tid = a.tid
/-- `next` may differ and the stamp may have become `tid` -/
def StampRel (tid : UInt8) (a a' : Entry K V) : Prop :=
  a'.key = a.key ∧ a'.val = a.val ∧ a'.id = a.id ∧ (a'.tid = a.tid ∨ a'.tid = tid)

theorem Skel.rfl' (a : Entry K V) : Skel a a := ⟨rfl, rfl, rfl⟩
theorem Skel.trans' (a b c : Entry K V) (h1 : Skel a b) (h2 : Skel b c) : Skel a c :=
  ⟨h2.1.trans h1.1, h2.2.1.trans h1.2.1, h2.2.2.trans h1.2.2⟩
theorem NextRel.rfl' (a : Entry K V) : NextRel a a := ⟨rfl, rfl, rfl, rfl⟩
theorem NextRel.trans' (a b c : Entry K V) (h1 : NextRel a b) (h2 : NextRel b c) : NextRel a c :=
  ⟨h2.1.trans h1.1, h2.2.1.trans h1.2.1, h2.2.2.1.trans h1.2.2.1, h2.2.2.2.trans h1.2.2.2⟩
theorem NextRel.skel (a b : Entry K V) (h : NextRel a b) : Skel a b := ⟨h.1, h.2.1, h.2.2.1⟩
theorem NextRel.stampRel (tid : UInt8) (a b : Entry K V) (h : NextRel a b) : StampRel tid a b :=
  ⟨h.1, h.2.1, h.2.2.1, Or.inl h.2.2.2⟩
theorem StampRel.rfl' (tid : UInt8) (a : Entry K V) : StampRel tid a a := ⟨rfl, rfl, rfl, Or.inl rfl⟩
theorem StampRel.trans' (tid : UInt8) (a b c : Entry K V) (h1 : StampRel tid a b) (h2 : StampRel tid b c) :
    StampRel tid a c := by
  refine ⟨h2.1.trans h1.1, h2.2.1.trans h1.2.1, h2.2.2.1.trans h1.2.2.1, ?_⟩
  rcases h2.2.2.2 with h | h
  · rcases h1.2.2.2 with h' | h'
    · exact Or.inl (h.trans h')
    · exact Or.inr (h.trans h')
  · exact Or.inr h
theorem StampRel.skel (tid : UInt8) (a b : Entry K V) (h : StampRel tid a b) : Skel a b := ⟨h.1, h.2.1, h.2.2.1⟩

theorem skel_ids {t t' : T (Entry K V)} (h : Upd Skel t t') : ids t' = ids t :=
  h.map_eq (·.id) (fun _ _ h => h.2.2)
theorem skel_kvs {t t' : T (Entry K V)} (h : Upd Skel t t') : kvs t' = kvs t :=
  h.map_eq kv (fun a b h => by simp [kv, h.1, h.2.1])
theorem skel_distinct {t t' : T (Entry K V)} (h : Upd Skel t t') (hd : DistinctIds t) : DistinctIds t' := by
  unfold DistinctIds; rw [skel_ids h]; exact hd
theorem skel_fresh {t t' : T (Entry K V)} (h : Upd Skel t t') {n : Nat} (hf : ∀ e ∈ inorder t, e.id < n) :
    ∀ e ∈ inorder t', e.id < n := by
  intro e' he'
  obtain ⟨e, he, hs⟩ := h.mem e' he'
  rw [hs.2.2]; exact hf e he

/-! ### the invariant -/

/-- the epoch invariant: no stamp exceeds the table's epoch (new nodes carry stamp 0, the epoch
    is at least 1), identifiers are unique and below the allocation counter -/
structure EpochInv (s : Tbl K V) : Prop where
  pos : 1 ≤ s.tid
  le : ∀ e ∈ inorder s.root, e.tid ≤ s.tid
  distinct : DistinctIds s.root
  fresh : ∀ e ∈ inorder s.root, e.id < s.fresh

/-- no node carries the current epoch: no walk is in progress -/
def Quiescent (s : Tbl K V) : Prop := ∀ e ∈ inorder s.root, e.tid < s.tid

theorem init_eq : (Tbl.init : Tbl K V) = { root := .nil, num := 0, tid := 1, fresh := 0 } := rfl

theorem epochInv_init : EpochInv (Tbl.init : Tbl K V) := by
  rw [init_eq]
  refine ⟨?_, ?_, ?_, ?_⟩
  · show (1 : UInt8) ≤ 1
    decide
  · intro e he; simp at he
  · simp [DistinctIds]
  · intro e he; simp at he

/-! ### `reset_iterator` -/

def clearRootNext : T (Entry K V) → T (Entry K V)
  | .nil => .nil
  | .node l a c r => .node l (setNext none a) c r

def rootNext : T (Entry K V) → Option Nat
  | .nil => none
  | .node _ a _ _ => a.next

theorem resetIterator_eq (s : Tbl K V) : resetIterator s =
    if s.tid + 1 = 0 then { s with root := clearTids (clearRootNext s.root), tid := 1 }
    else { s with root := clearRootNext s.root, tid := s.tid + 1 } := by
  cases s with
  | mk root num tid fresh => cases root <;> rfl

theorem clearRootNext_upd (t : T (Entry K V)) : Upd NextRel t (clearRootNext t) := by
  cases t with
  | nil => exact .nil
  | node l a c r => exact .node (Upd.refl NextRel.rfl' l) ⟨rfl, rfl, rfl, rfl⟩ (Upd.refl NextRel.rfl' r)

theorem clearTids_upd : ∀ (t : T (Entry K V)),
    Upd (fun a a' => Skel a a' ∧ a'.tid = 0 ∧ a'.next = a.next) t (clearTids t)
  | .nil => .nil
  | .node l _ _ r => .node (clearTids_upd l) ⟨⟨rfl, rfl, rfl⟩, rfl, rfl⟩ (clearTids_upd r)

theorem reset_skel (s : Tbl K V) : Upd Skel s.root (resetIterator s).root := by
  rw [resetIterator_eq]
  split
  · exact ((clearRootNext_upd s.root).mono NextRel.skel).trans Skel.trans'
      ((clearTids_upd _).mono (fun _ _ h => h.1))
  · exact (clearRootNext_upd s.root).mono NextRel.skel

@[simp] theorem reset_num (s : Tbl K V) : (resetIterator s).num = s.num := by
  rw [resetIterator_eq]; split <;> rfl
@[simp] theorem reset_fresh (s : Tbl K V) : (resetIterator s).fresh = s.fresh := by
  rw [resetIterator_eq]; split <;> rfl

theorem reset_rootNext (s : Tbl K V) : rootNext (resetIterator s).root = none := by
  rw [resetIterator_eq]
  split <;> cases s.root <;> simp [clearRootNext, clearTids, rootNext]

theorem reset_rootId (s : Tbl K V) : rootId (resetIterator s).root = rootId s.root := by
  rw [resetIterator_eq]
  split <;> cases s.root <;> simp [clearRootNext, clearTids, rootId]

theorem u8_succ_lt {a : UInt8} (h : ¬ a + 1 = 0) : a < a + 1 := by
  rw [UInt8.lt_iff_toNat_lt, UInt8.toNat_add]
  have h1 : a.toNat < 256 := a.toNat_lt
  have h2 : a.toNat ≠ 255 := by
    intro h3
    apply h
    apply UInt8.toNat_inj.mp
    rw [UInt8.toNat_add, h3]; rfl
  simp; omega

theorem u8_lt_of_le_of_lt {a b c : UInt8} (h1 : a ≤ b) (h2 : b < c) : a < c := by
  rw [UInt8.le_iff_toNat_le] at h1
  rw [UInt8.lt_iff_toNat_lt] at h2 ⊢
  omega
theorem u8_le_of_lt {a b : UInt8} (h : a < b) : a ≤ b := by
  rw [UInt8.lt_iff_toNat_lt] at h
  rw [UInt8.le_iff_toNat_le]
  omega
theorem u8_le_trans {a b c : UInt8} (h1 : a ≤ b) (h2 : b ≤ c) : a ≤ c := by
  rw [UInt8.le_iff_toNat_le] at h1 h2 ⊢
  omega
theorem u8_ne_of_lt {a b : UInt8} (h : a < b) : a ≠ b := by
  rw [UInt8.lt_iff_toNat_lt] at h
  intro e; subst e; omega

/-- after a reset every stamp is strictly below the epoch -/
theorem reset_quiescent {s : Tbl K V} (h : EpochInv s) : Quiescent (resetIterator s) := by
  unfold Quiescent
  rw [resetIterator_eq]
  split
  · intro e' he'
    obtain ⟨e, _, hs⟩ := (clearTids_upd _).mem e' he'
    show e'.tid < 1
    rw [hs.2.1]; decide
  · next hw =>
    intro e' he'
    obtain ⟨e, he, hs⟩ := (clearRootNext_upd _).mem e' he'
    show e'.tid < s.tid + 1
    rw [hs.2.2.2]
    exact u8_lt_of_le_of_lt (h.le e he) (u8_succ_lt hw)

theorem reset_pos {s : Tbl K V} (h : EpochInv s) : 1 ≤ (resetIterator s).tid := by
  rw [resetIterator_eq]
  split
  · show (1 : UInt8) ≤ 1
    decide
  · next hw => exact u8_le_trans h.pos (u8_le_of_lt (u8_succ_lt hw))

theorem reset_epoch {s : Tbl K V} (h : EpochInv s) : EpochInv (resetIterator s) :=
  ⟨reset_pos h, fun e he => u8_le_of_lt (reset_quiescent h e he), skel_distinct (reset_skel s) h.distinct,
    by simpa using skel_fresh (reset_skel s) h.fresh⟩

/-! ### what `getnextLoop` changes, from any cursor -/

theorem getnextLoop_upd (tid : UInt8) : ∀ (fuel : Nat) (root : T (Entry K V)) (c : Option Nat) res,
    getnextLoop tid fuel root c = .ok res → Upd (StampRel tid) root res.1 := by
  intro fuel
  induction fuel with
  | zero => intro root c res h; simp [getnextLoop] at h
  | succ fuel ih =>
    intro root c res h
    have hmodN : ∀ i nx, Upd (StampRel tid) root (modify i (setNext nx) root) := fun i nx =>
      Upd.modify (g := setNext nx) (StampRel.rfl' tid) (fun a => ⟨rfl, rfl, rfl, Or.inl rfl⟩) i root
    cases c with
    | none => simp [getnextLoop] at h; subst h; exact Upd.refl (StampRel.rfl' tid) _
    | some c =>
      have visit_upd : ∀ a r, getnextLoop.visit tid fuel root c a r = .ok res →
          Upd (StampRel tid) root res.1 := by
        intro a r hv
        by_cases ha : a.tid = tid
        · cases hru : unstB tid r with
          | false => rw [visit_up ha hru] at hv; exact ih _ _ _ hv
          | true =>
            cases r with
            | nil => simp at hru
            | node rl ra rc rr =>
              have hra : ra.tid ≠ tid := by simpa using hru
              rw [visit_right ha hra] at hv
              exact (hmodN _ _).trans (StampRel.trans' tid) (ih _ _ _ hv)
        · rw [visit_stamp ha] at hv
          cases hv
          exact Upd.modify (g := stamp tid) (StampRel.rfl' tid) (fun a => ⟨rfl, rfl, rfl, Or.inr rfl⟩) c root
      cases hlk : lookup c root with
      | none => simp [getnextLoop, hlk] at h
      | some t =>
        cases t with
        | nil => simp [getnextLoop, hlk] at h
        | node l a col r =>
          cases hlu : unstB tid l with
          | false => rw [loop_to_visit hlk hlu] at h; exact visit_upd _ _ h
          | true =>
            cases l with
            | nil => simp at hlu
            | node ll la lc lr =>
              have hla : la.tid ≠ tid := by simpa using hlu
              rw [loop_left hlk hla] at h
              exact (hmodN _ _).trans (StampRel.trans' tid) (ih _ _ _ h)

theorem getnextLoop_out_tid (tid : UInt8) : ∀ (fuel : Nat) (root : T (Entry K V)) (c : Option Nat) root' a,
    getnextLoop tid fuel root c = .ok (root', some a) → a.tid = tid := by
  intro fuel
  induction fuel with
  | zero => intro root c root' a h; simp [getnextLoop] at h
  | succ fuel ih =>
    intro root c root' a h
    cases c with
    | none => simp [getnextLoop] at h
    | some c =>
      have visit_out : ∀ a0 r, getnextLoop.visit tid fuel root c a0 r = .ok (root', some a) → a.tid = tid := by
        intro a0 r hv
        by_cases ha : a0.tid = tid
        · cases hru : unstB tid r with
          | false => rw [visit_up ha hru] at hv; exact ih _ _ _ _ hv
          | true =>
            cases r with
            | nil => simp at hru
            | node rl ra rc rr =>
              have hra : ra.tid ≠ tid := by simpa using hru
              rw [visit_right ha hra] at hv
              exact ih _ _ _ _ hv
        · rw [visit_stamp ha] at hv
          cases hv
          rfl
      cases hlk : lookup c root with
      | none => simp [getnextLoop, hlk] at h
      | some t =>
        cases t with
        | nil => simp [getnextLoop, hlk] at h
        | node l a0 col r =>
          cases hlu : unstB tid l with
          | false => rw [loop_to_visit hlk hlu] at h; exact visit_out _ _ h
          | true =>
            cases l with
            | nil => simp at hlu
            | node ll la lc lr =>
              have hla : la.tid ≠ tid := by simpa using hlu
              rw [loop_left hlk hla] at h
              exact ih _ _ _ _ h

/-! ### `Tbl.getnext` -/

/-- the tail of `Tbl.getnext` -/
def finish (s1 : Tbl K V) (tid : UInt8) :
    Except Fault (T (Entry K V) × Option (Entry K V)) → Except Fault (Tbl K V × WalkOut K V)
  | .error f => .error f
  | .ok (root, some a) => .ok ({ s1 with root := root }, .item a.key a.val { tid := tid, next := some a.id })
  | .ok (root, none) => .ok (resetIterator { s1 with root := root }, .done)

theorem getnext_cont (s : Tbl K V) (cur : Cur) (c : Nat) (h : cur.next = some c) :
    s.getnext cur = finish s cur.tid (getnextLoop cur.tid (3 * s.root.size + 3) s.root (some c)) := by
  simp only [Tbl.getnext, h]
  cases hres : getnextLoop cur.tid (3 * s.root.size + 3) s.root (some c) with
  | error f => simp [finish, hres]
  | ok p => obtain ⟨root, o⟩ := p; cases o <;> simp [finish, hres]

theorem getnext_first_nil (s : Tbl K V) (cur : Cur) (h : cur.next = none) (hr : s.root = .nil) :
    s.getnext cur = .ok (s, .done) := by
  simp [Tbl.getnext, h, hr]

theorem getnext_first (s : Tbl K V) (cur : Cur) (h : cur.next = none) (hr : s.root ≠ .nil) :
    s.getnext cur = finish (resetIterator s) (resetIterator s).tid
      (getnextLoop (resetIterator s).tid (3 * (resetIterator s).root.size + 3) (resetIterator s).root
        (rootId (resetIterator s).root)) := by
  cases hs : s.root with
  | nil => exact absurd hs hr
  | node l a c r =>
    simp only [Tbl.getnext, h, hs]
    cases hres : getnextLoop (resetIterator s).tid (3 * (resetIterator s).root.size + 3) (resetIterator s).root
        (rootId (resetIterator s).root) with
    | error f => simp [finish, hres]
    | ok p => obtain ⟨root, o⟩ := p; cases o <;> simp [finish, hres]

/-- replacing the tree by an updated one whose stamps stay below the epoch keeps the invariant -/
theorem EpochInv.upd {s : Tbl K V} (h : EpochInv s) {tid : UInt8} (ht : tid ≤ s.tid) {root' : T (Entry K V)}
    (hu : Upd (StampRel tid) s.root root') : EpochInv { s with root := root' } := by
  have hs : Upd Skel s.root root' := hu.mono (StampRel.skel tid)
  refine ⟨h.pos, ?_, skel_distinct hs h.distinct, skel_fresh hs h.fresh⟩
  intro e' he'
  obtain ⟨e, he, hr⟩ := hu.mem e' he'
  show e'.tid ≤ s.tid
  rcases hr.2.2.2 with h1 | h1
  · rw [h1]; exact h.le e he
  · rw [h1]; exact ht

theorem finish_epoch {s1 : Tbl K V} (h : EpochInv s1) {tid : UInt8} (ht : tid ≤ s1.tid) {fuel : Nat}
    {start : Option Nat} {s' : Tbl K V} {out : WalkOut K V}
    (hf : finish s1 tid (getnextLoop tid fuel s1.root start) = .ok (s', out)) :
    EpochInv s' ∧ Upd Skel s1.root s'.root ∧ s'.num = s1.num ∧ s'.fresh = s1.fresh ∧
      (∀ k v c, out = .item k v c → c.tid = tid ∧ c.next ≠ none ∧ s'.tid = s1.tid) ∧
      (out = .done → Quiescent s') := by
  cases hres : getnextLoop tid fuel s1.root start with
  | error f => simp [finish, hres] at hf
  | ok p =>
    obtain ⟨root, o⟩ := p
    have hu := getnextLoop_upd tid fuel s1.root start _ hres
    have hi : EpochInv { s1 with root := root } := h.upd ht hu
    have hs : Upd Skel s1.root root := hu.mono (StampRel.skel tid)
    cases o with
    | none =>
      simp only [finish, hres, Except.ok.injEq, Prod.mk.injEq] at hf
      obtain ⟨rfl, rfl⟩ := hf
      refine ⟨reset_epoch hi, hs.trans Skel.trans' (reset_skel { s1 with root := root }), by simp, by simp, ?_, fun _ => reset_quiescent hi⟩
      intro k v c hc; cases hc
    | some a =>
      simp only [finish, hres, Except.ok.injEq, Prod.mk.injEq] at hf
      obtain ⟨rfl, rfl⟩ := hf
      refine ⟨hi, hs, rfl, rfl, ?_, fun hc => by cases hc⟩
      intro k v c hc
      cases hc
      exact ⟨rfl, by simp, rfl⟩

/-- one call of `getnext`, from the zero cursor or from any cursor whose stamp is not above the
    epoch: the invariant is kept, only stamps and parent pointers change -/
theorem getnext_epoch {s : Tbl K V} (h : EpochInv s) {cur : Cur} (hc : cur.next = none ∨ cur.tid ≤ s.tid)
    {s' : Tbl K V} {out : WalkOut K V} (hg : s.getnext cur = .ok (s', out)) :
    EpochInv s' ∧ Upd Skel s.root s'.root ∧ s'.num = s.num ∧ s'.fresh = s.fresh ∧
      (∀ k v c, out = .item k v c → c.tid ≤ s'.tid ∧ c.next ≠ none) ∧
      (out = .done → Quiescent s') := by
  cases hn : cur.next with
  | none =>
    by_cases hr : s.root = .nil
    · rw [getnext_first_nil s cur hn hr] at hg
      cases hg
      refine ⟨h, Upd.refl Skel.rfl' _, rfl, rfl, (fun k v c hc => by cases hc), fun _ => ?_⟩
      intro e he; rw [hr] at he; simp at he
    · rw [getnext_first s cur hn hr] at hg
      obtain ⟨h1, h2, h3, h4, h5, h6⟩ := finish_epoch (reset_epoch h) (UInt8.le_refl _) hg
      refine ⟨h1, (reset_skel s).trans Skel.trans' h2, by simp [h3], by simp [h4], ?_, h6⟩
      intro k v c hc
      obtain ⟨e1, e2, e3⟩ := h5 k v c hc
      exact ⟨by rw [e1, e3]; exact UInt8.le_refl _, e2⟩
  | some c =>
    have ht : cur.tid ≤ s.tid := by
      rcases hc with hc | hc
      · rw [hn] at hc; cases hc
      · exact hc
    rw [getnext_cont s cur c hn] at hg
    obtain ⟨h1, h2, h3, h4, h5, h6⟩ := finish_epoch h ht hg
    refine ⟨h1, h2, h3, h4, ?_, h6⟩
    intro k v c hc
    obtain ⟨e1, e2, e3⟩ := h5 k v c hc
    exact ⟨by rw [e1, e3]; exact ht, e2⟩

/-! ### the iterated walk -/

/-- call `getnext` until it reports the end (the driver's `walkAll`); at most `n` calls -/
def walkFrom : Nat → Tbl K V → Cur → Except Fault (List (K × V) × Tbl K V)
  | 0, _, _ => .error .outOfFuel
  | n + 1, s, cur =>
    match s.getnext cur with
    | .error f => .error f
    | .ok (s', .done) => .ok ([], s')
    | .ok (s', .item k v c) =>
      match walkFrom n s' c with
      | .error f => .error f
      | .ok (xs, s'') => .ok ((k, v) :: xs, s'')

theorem walkFrom_done {n : Nat} {s s' : Tbl K V} {cur : Cur} (h : s.getnext cur = .ok (s', .done)) :
    walkFrom (n + 1) s cur = .ok ([], s') := by
  simp [walkFrom, h]

theorem walkFrom_item {n : Nat} {s s' s'' : Tbl K V} {cur c : Cur} {k v xs}
    (h : s.getnext cur = .ok (s', .item k v c)) (h2 : walkFrom n s' c = .ok (xs, s'')) :
    walkFrom (n + 1) s cur = .ok ((k, v) :: xs, s'') := by
  simp [walkFrom, h, h2]

/-- a walk from any admissible cursor keeps the invariant and the data, and ends quiescent -/
theorem walkFrom_epoch : ∀ (n : Nat) (s : Tbl K V) (cur : Cur) xs s', EpochInv s →
    (cur.next = none ∨ cur.tid ≤ s.tid) → walkFrom n s cur = .ok (xs, s') →
    EpochInv s' ∧ Quiescent s' ∧ Upd Skel s.root s'.root ∧ s'.num = s.num ∧ s'.fresh = s.fresh := by
  intro n
  induction n with
  | zero => intro s cur xs s' _ _ h; simp [walkFrom] at h
  | succ n ih =>
    intro s cur xs s' hi hc h
    simp only [walkFrom] at h
    cases hg : s.getnext cur with
    | error f => simp [hg] at h
    | ok p =>
      obtain ⟨s1, out⟩ := p
      obtain ⟨h1, h2, h3, h4, h5, h6⟩ := getnext_epoch hi hc hg
      cases out with
      | done =>
        simp [hg] at h
        obtain ⟨_, rfl⟩ := h
        exact ⟨h1, h6 rfl, h2, h3, h4⟩
      | item k v c =>
        simp only [hg] at h
        cases hw : walkFrom n s1 c with
        | error f => simp [hw] at h
        | ok q =>
          obtain ⟨ys, s2⟩ := q
          simp [hw] at h
          obtain ⟨_, rfl⟩ := h
          obtain ⟨g1, g2, g3, g4, g5⟩ := ih s1 c ys s2 h1 (Or.inr (h5 k v c rfl).1) hw
          exact ⟨g1, g2, h2.trans Skel.trans' g3, g4.trans h3, g5.trans h4⟩

/-- from a `Mid` state the remaining calls return exactly `rem` and then the end -/
theorem walk_mid : ∀ (rem : List (K × V)) (s : Tbl K V) (cur : Cur) (c n : Nat), cur.next = some c →
    Mid cur.tid s.root c rem →
    ∃ s', walkFrom (rem.length + 1 + n) s cur = .ok (rem, s') := by
  intro rem
  induction rem with
  | nil =>
    intro s cur c n hc hm
    have hfu : size s.root + 2 ≤ 3 * s.root.size + 3 := by omega
    rcases mid_step hm hfu with ⟨_, hres⟩ | ⟨e, rest, _, _, hrem, _⟩
    · refine ⟨_, walkFrom_done (n := 0 + n) (by rw [getnext_cont s cur c hc, hres]; rfl) |> fun h => by
        simpa [Nat.add_comm, Nat.add_left_comm] using h⟩
    · cases hrem
  | cons e rest ih =>
    intro s cur c n hc hm
    have hfu : size s.root + 2 ≤ 3 * s.root.size + 3 := by omega
    rcases mid_step hm hfu with ⟨hrem, _⟩ | ⟨e', rest', root', a', hrem, hres, hkv, _, hm'⟩
    · cases hrem
    · cases hrem
      have hg : s.getnext cur = .ok ({ s with root := root' },
          .item a'.key a'.val { tid := cur.tid, next := some a'.id }) := by
        rw [getnext_cont s cur c hc, hres]; rfl
      obtain ⟨s', hw⟩ := ih { s with root := root' } { tid := cur.tid, next := some a'.id } a'.id n rfl hm'
      refine ⟨s', ?_⟩
      have := walkFrom_item hg hw
      rw [show (a'.key, a'.val) = kv a' from rfl, hkv] at this
      simpa [Nat.add_comm, Nat.add_left_comm, Nat.add_assoc] using this

/-- `subtree_walk`: the cursor stands on the root `a` of a subtree all of whose nodes are
    unstamped, `a.next` and the `next` pointers of the ancestors lead to the root of the tree.
    The following calls return the entries of the subtree in order, one per call, then what the
    context still owes (`remF`: nothing at the top, and for a walk started at the root of the tree
    the entries of the pending ancestors and their right subtrees, in order), then the end. -/
theorem subtree_walk {s : Tbl K V} {cur : Cur} {fs : List (Frame K V)} {l a c r} (n : Nat)
    (hroot : s.root = plug fs (.node l a c r)) (hcur : cur.next = some a.id)
    (hun : AllUn cur.tid (.node l a c r)) (hfo : FramesOk cur.tid fs) (hp : PathOk a.next fs)
    (hd : DistinctIds s.root) :
    ∃ s', walkFrom (size (.node l a c r) + (remF cur.tid fs).length + 1 + n) s cur
      = .ok (kvs (.node l a c r) ++ remF cur.tid fs, s') := by
  obtain ⟨root, num, tid, fresh⟩ := s
  simp only at hroot
  subst hroot
  simp only at hd
  have hfu : size (.node l a c r) ≤ 3 * (plug fs (.node l a c r)).size + 3 := by
    rw [size_plug]; omega
  have hout := descend_outcome (tid := cur.tid) (fuel := 3 * (plug fs (.node l a c r)).size + 3) hun hd hfu hfo hp rfl
    (plug fs (.node l a c r))
  rcases hout with ⟨hrem, _⟩ | ⟨e, rest, root', a', hrem, hres, hkv, _, hm'⟩
  · simp at hrem
  · have hg : Tbl.getnext ⟨plug fs (.node l a c r), num, tid, fresh⟩ cur = .ok (⟨root', num, tid, fresh⟩,
        .item a'.key a'.val { tid := cur.tid, next := some a'.id }) := by
      rw [getnext_cont _ cur a.id hcur, hres]; rfl
    obtain ⟨s', hw⟩ := walk_mid rest ⟨root', num, tid, fresh⟩ { tid := cur.tid, next := some a'.id } a'.id n rfl hm'
    refine ⟨s', ?_⟩
    have := walkFrom_item hg hw
    rw [show (a'.key, a'.val) = kv a' from rfl, hkv, ← hrem] at this
    have hlen : size (.node l a c r) + (remF cur.tid fs).length = rest.length + 1 := by
      have := congrArg List.length hrem
      simp [kvs, length_inorder] at this ⊢
      omega
    rw [hlen]
    simpa [Nat.add_comm, Nat.add_left_comm, Nat.add_assoc] using this

/-- exactly `k` calls of `getnext`, the cursor being passed along (stops early at the end) -/
def walkK : Nat → Tbl K V → Cur → Except Fault (List (K × V) × Tbl K V × Cur)
  | 0, s, cur => .ok ([], s, cur)
  | k + 1, s, cur =>
    match s.getnext cur with
    | .error f => .error f
    | .ok (s', .done) => .ok ([], s', cur)
    | .ok (s', .item key v c) =>
      match walkK k s' c with
      | .error f => .error f
      | .ok (xs, s'', c') => .ok ((key, v) :: xs, s'', c')

/-- from a `Mid` state that owes `xs ++ ys`, the next `|xs|` calls return `xs` and leave a `Mid`
    state that owes `ys` -/
theorem mid_prefix : ∀ (xs ys : List (K × V)) (s : Tbl K V) (cur : Cur) (c : Nat), cur.next = some c →
    Mid cur.tid s.root c (xs ++ ys) →
    ∃ s' c', walkK xs.length s cur = .ok (xs, s', { tid := cur.tid, next := some c' }) ∧
      Mid cur.tid s'.root c' ys ∧ s'.num = s.num ∧ s'.tid = s.tid ∧ s'.fresh = s.fresh := by
  intro xs
  induction xs with
  | nil =>
    intro ys s cur c hc hm
    refine ⟨s, c, ?_, hm, rfl, rfl, rfl⟩
    cases cur with
    | mk t nx => simp only at hc; subst hc; rfl
  | cons e xs ih =>
    intro ys s cur c hc hm
    have hfu : size s.root + 2 ≤ 3 * s.root.size + 3 := by omega
    rcases mid_step hm hfu with ⟨hrem, _⟩ | ⟨e', rest', root', a', hrem, hres, hkv, _, hm'⟩
    · simp at hrem
    · simp only [List.cons_append, List.cons.injEq] at hrem
      obtain ⟨rfl, rfl⟩ := hrem
      have hg : s.getnext cur = .ok ({ s with root := root' },
          .item a'.key a'.val { tid := cur.tid, next := some a'.id }) := by
        rw [getnext_cont s cur c hc, hres]; rfl
      obtain ⟨s', c', hw, hm'', h1, h2, h3⟩ :=
        ih ys { s with root := root' } { tid := cur.tid, next := some a'.id } a'.id rfl hm'
      refine ⟨s', c', ?_, hm'', h1, h2, h3⟩
      simp only [List.length_cons, walkK, hg]
      simp only at hw
      rw [hw]
      rw [show (a'.key, a'.val) = kv a' from rfl, hkv]

/-- `subtree_walk`, step form: the cursor stands on the root `a` of a subtree none of whose nodes
    is stamped, inside a context with parent pointers in place.  Exactly `size sub` calls return
    exactly the entries of the subtree, in order; the tree is then in a `Mid` state that owes
    exactly what the context owed (`remF`): every node of the subtree has been stamped and the
    next call leaves the subtree through `a.next`, i.e. continues at the parent. -/
theorem subtree_walk_steps {s : Tbl K V} {cur : Cur} {fs : List (Frame K V)} {l a c r}
    (hroot : s.root = plug fs (.node l a c r)) (hcur : cur.next = some a.id)
    (hun : AllUn cur.tid (.node l a c r)) (hfo : FramesOk cur.tid fs) (hp : PathOk a.next fs)
    (hd : DistinctIds s.root) :
    ∃ s' c', walkK (size (.node l a c r)) s cur
        = .ok (kvs (.node l a c r), s', { tid := cur.tid, next := some c' }) ∧
      Mid cur.tid s'.root c' (remF cur.tid fs) ∧ s'.num = s.num ∧ s'.tid = s.tid ∧ s'.fresh = s.fresh := by
  obtain ⟨root, num, tid, fresh⟩ := s
  simp only at hroot
  subst hroot
  simp only at hd
  have hfu : size (.node l a c r) ≤ 3 * (plug fs (.node l a c r)).size + 3 := by
    rw [size_plug]; omega
  have hout := descend_outcome (tid := cur.tid) (fuel := 3 * (plug fs (.node l a c r)).size + 3) hun hd hfu hfo hp rfl
    (plug fs (.node l a c r))
  rcases hout with ⟨hrem, _⟩ | ⟨e, rest, root', a', hrem, hres, hkv, _, hm'⟩
  · simp at hrem
  · have hg : Tbl.getnext ⟨plug fs (.node l a c r), num, tid, fresh⟩ cur = .ok (⟨root', num, tid, fresh⟩,
        .item a'.key a'.val { tid := cur.tid, next := some a'.id }) := by
      rw [getnext_cont _ cur a.id hcur, hres]; rfl
    -- the subtree's entries are `e :: xs`, the rest is what the context owes
    have hlen : (kvs (.node l a c r)).length = size (.node l a c r) := by
      simp only [kvs, List.length_map, length_inorder]
    cases hk : kvs (.node l a c r) with
    | nil => rw [hk] at hlen; simp at hlen; omega
    | cons e0 xs =>
      rw [hk] at hrem hlen
      simp only [List.cons_append, List.cons.injEq] at hrem
      obtain ⟨rfl, rfl⟩ := hrem
      obtain ⟨s', c', hw, hm'', h1, h2, h3⟩ :=
        mid_prefix xs (remF cur.tid fs) ⟨root', num, tid, fresh⟩ { tid := cur.tid, next := some a'.id } a'.id rfl hm'
      refine ⟨s', c', ?_, hm'', h1, h2, h3⟩
      simp only [List.length_cons] at hlen
      rw [← hlen]
      simp only [walkK, hg]
      simp only at hw
      rw [hw]
      rw [show (a'.key, a'.val) = kv a' from rfl, hkv]

/-- `walk_complete`: under the epoch invariant a walk from the zero cursor returns the stored
    key/value pairs in in-order sequence and then the end — it never faults and `size + 2` calls
    are enough; afterwards the invariant holds again, no stamp equals the epoch, and shape,
    colours, keys, values and identifiers are unchanged -/
theorem walk_complete {s : Tbl K V} (h : EpochInv s) (n : Nat) :
    ∃ s', walkFrom (s.root.size + 2 + n) s {} = .ok (kvs s.root, s') ∧
      EpochInv s' ∧ Quiescent s' ∧ Upd Skel s.root s'.root ∧ s'.num = s.num ∧ s'.fresh = s.fresh := by
  suffices hw : ∃ s', walkFrom (s.root.size + 2 + n) s {} = .ok (kvs s.root, s') by
    obtain ⟨s', hw⟩ := hw
    exact ⟨s', hw, walkFrom_epoch _ s {} _ s' h (Or.inl rfl) hw⟩
  by_cases hr : s.root = .nil
  · refine ⟨s, ?_⟩
    have := walkFrom_done (n := s.root.size + 1 + n) (getnext_first_nil s {} rfl hr)
    rw [hr] at this ⊢
    simpa [Nat.add_comm, Nat.add_left_comm, Nat.add_assoc] using this
  · have hsk := reset_skel s
    have hq := reset_quiescent h
    have hn := reset_rootNext s
    have hd := (reset_epoch h).distinct
    cases hs1 : (resetIterator s).root with
    | nil => exact absurd (hsk.isNil_eq.mp hs1) hr
    | node l a c r =>
      rw [hs1] at hn hd
      simp only [rootNext] at hn
      have hun : AllUn (resetIterator s).tid (.node l a c r) := by
        intro e he; rw [← hs1] at he; exact u8_ne_of_lt (hq e he)
      have hfu : size (.node l a c r) ≤ 3 * (resetIterator s).root.size + 3 := by rw [hs1]; omega
      have hout := descend_outcome (tid := (resetIterator s).tid) (fs := []) hun hd hfu
        (fun _ hf => by simp at hf) (by rw [hn]; exact rfl) rfl (resetIterator s).root
      rcases hout with ⟨hrem, _⟩ | ⟨e, rest, root', a', hrem, hres, hkv, _, hm'⟩
      · simp at hrem
      · have hg : s.getnext {} = .ok ({ resetIterator s with root := root' },
            .item a'.key a'.val { tid := (resetIterator s).tid, next := some a'.id }) := by
          have hid : rootId (resetIterator s).root = some a.id := by rw [hs1]; rfl
          rw [getnext_first s {} rfl hr, hid]
          simp only [plug_nil] at hres
          rw [← hs1] at hres
          rw [hres]; rfl
        obtain ⟨s', hw⟩ := walk_mid rest { resetIterator s with root := root' }
          { tid := (resetIterator s).tid, next := some a'.id } a'.id (n + 1) rfl hm'
        refine ⟨s', ?_⟩
        have := walkFrom_item hg hw
        rw [show (a'.key, a'.val) = kv a' from rfl, hkv, ← hrem] at this
        have hk : kvs s.root = kvs (.node l a c r) := by rw [← hs1]; exact (skel_kvs hsk).symm
        have hlen : s.root.size = rest.length + 1 := by
          have h1 := congrArg List.length hrem
          have h2 := congrArg List.length hk
          simp [kvs, length_inorder, remF] at h1 h2
          omega
        rw [hk, hlen]
        simpa [remF, Nat.add_comm, Nat.add_left_comm, Nat.add_assoc] using this

end Qlibc.Tree

/-
  Invariants of the tree table and the abstract sorted-list specification.
-/
import QlibcModel.Tree.Basic

namespace Qlibc.Tree
open Qlibc
namespace T
variable {α : Type}

/-- 2-3-4 left-leaning red-black subtree: colour of the root, black height.
    No red node has a red child; both subtrees have the same black height; a red right child
    only next to a red left child (4-node). -/
inductive Bal : T α → Bool → Nat → Prop
  | nil : Bal nil false 0
  | red {l r a n} : Bal l false n → Bal r false n → Bal (node l a true r) true n
  | black {l r a cl cr n} : Bal l cl n → Bal r cr n → (cr = true → cl = true) →
      Bal (node l a false r) false (n + 1)

/-- the one tolerated violation while inserting: red root with a red left child -/
inductive Infra : T α → Nat → Prop
  | mk {ll lr la a r n} : Bal (node ll la true lr) true n → Bal r false n →
      Infra (node (node ll la true lr) a true r) n

/-- a valid left-leaning red-black tree: black root + `Bal` -/
def LLRB (t : T α) : Prop := ∃ n, Bal t false n

theorem Bal.isRed_eq {t : T α} {c n} (h : Bal t c n) : isRed t = c := by
  cases h <;> simp

theorem Bal.blacken_red {t : T α} {n} (h : Bal t true n) : Bal (blacken t) false (n + 1) := by
  cases h with
  | red hl hr => simpa using Bal.black hl hr (by simp)

theorem Bal.blacken_black {t : T α} {n} (h : Bal t false n) : Bal (blacken t) false n := by
  cases h with
  | nil => simpa using Bal.nil
  | black hl hr hh => simpa using Bal.black hl hr hh

/-! ### comparator and sortedness -/

/-- what the proofs need of `tbl->compare`: a total preorder presented as a three-way
    comparison (equal keys need not be identical byte strings) -/
structure CmpOk {K : Type} (cmp : K → K → Ordering) : Prop where
  refl : ∀ a, cmp a a = .eq
  swap : ∀ a b, cmp a b = (cmp b a).swap
  lt_trans : ∀ {a b c}, cmp a b = .lt → cmp b c = .lt → cmp a c = .lt
  eq_lt : ∀ {a b c}, cmp a b = .eq → cmp b c = .lt → cmp a c = .lt
  lt_eq : ∀ {a b c}, cmp a b = .lt → cmp b c = .eq → cmp a c = .lt
  eq_trans : ∀ {a b c}, cmp a b = .eq → cmp b c = .eq → cmp a c = .eq

section
variable {K : Type} (cmp : K → K → Ordering) (key : α → K)

/-- strictly ascending by key -/
def Sorted (l : List α) : Prop := l.Pairwise (fun a b => cmp (key a) (key b) = .lt)

/-- search-tree order: the in-order sequence is strictly ascending -/
def Ordered (t : T α) : Prop := Sorted cmp key (inorder t)

/-- ideal sorted map: insert `new`, or update the entry with an equal key by `onDup` -/
def insL (new : α) (onDup : α → α) : List α → List α
  | [] => [new]
  | a :: rest =>
    match cmp (key new) (key a) with
    | .lt => new :: a :: rest
    | .eq => onDup a :: rest
    | .gt => a :: insL new onDup rest

/-- ideal sorted map: delete the entry with a key equal to `k` -/
def delL (k : K) : List α → List α
  | [] => []
  | a :: rest =>
    match cmp k (key a) with
    | .lt => a :: rest
    | .eq => rest
    | .gt => a :: delL k rest

/-- ideal sorted map: the entry with a key equal to `k` -/
def lookupL (k : K) : List α → Option α
  | [] => none
  | a :: rest =>
    match cmp k (key a) with
    | .lt => none
    | .eq => some a
    | .gt => lookupL k rest

def memL (k : K) (l : List α) : Bool := (lookupL cmp key k l).isSome

end

end T
end Qlibc.Tree

/-
  The public table operations against the ideal sorted map of (key, value) pairs.
-/
import QlibcModel.Tree.Table
import QlibcModel.Tree.Zipper
import QlibcModel.Tree.PutBal
import QlibcModel.Tree.PutOrd
import QlibcModel.Tree.Find
import QlibcModel.Tree.Remove

namespace Qlibc.Tree
open Qlibc T
variable {K V : Type}

/-- what a table holds, as the ideal sorted map sees it -/
def Tbl.abs (s : Tbl K V) : List (K × V) := (inorder s.root).map kv

/-- ideal `put`: an empty value (`qmemdup` of size 0 is NULL) keeps the old value of an
    existing key -/
def putSpec (cmp : K → K → Ordering) (isEmpty : V → Bool) (k : K) (v : V) (m : List (K × V)) : List (K × V) :=
  insL cmp Prod.fst (k, v) (fun p => if isEmpty v then p else (p.1, v)) m

def getSpec (cmp : K → K → Ordering) (k : K) (m : List (K × V)) : Option V :=
  (lookupL cmp Prod.fst k m).map Prod.snd

def removeSpec (cmp : K → K → Ordering) (k : K) (m : List (K × V)) : List (K × V) × Bool :=
  (delL cmp Prod.fst k m, memL cmp Prod.fst k m)

section
variable (cmp : K → K → Ordering)

/-- table invariant: search order, valid LLRB shape, exact key count -/
structure Tbl.Inv (s : Tbl K V) : Prop where
  ordered : Ordered cmp keyOf s.root
  llrb : LLRB s.root
  count : s.num = T.size s.root

theorem insL_map (new : Entry K V) (onDup : Entry K V → Entry K V) (onDup' : K × V → K × V)
    (h : ∀ e, kv (onDup e) = onDup' (kv e)) :
    ∀ l : List (Entry K V), (insL cmp keyOf new onDup l).map kv
      = insL cmp Prod.fst (kv new) onDup' (l.map kv) := by
  intro l
  induction l with
  | nil => rfl
  | cons a rest ih =>
    simp only [insL, List.map_cons, keyOf] at *
    have : (kv new).1 = new.key := rfl
    have : (kv a).1 = a.key := rfl
    simp only [*]
    cases cmp new.key a.key <;> simp [ih, ← h]

theorem lookupL_map (k : K) : ∀ l : List (Entry K V),
    (lookupL cmp keyOf k l).map kv = lookupL cmp Prod.fst k (l.map kv) := by
  intro l
  induction l with
  | nil => rfl
  | cons a rest ih =>
    simp only [lookupL, List.map_cons, keyOf] at *
    have : (kv a).1 = a.key := rfl
    simp only [this]
    cases cmp k a.key <;> simp [ih, kv]

theorem sorted_map {l : List (Entry K V)} (h : Sorted cmp keyOf l) : Sorted cmp Prod.fst (l.map kv) := by
  unfold Sorted at *
  rw [List.pairwise_map]
  exact h

theorem insL_length {α : Type} (key : α → K) (new : α) (onDup : α → α) : ∀ l : List α,
    (insL cmp key new onDup l).length = if memL cmp key (key new) l then l.length else l.length + 1 := by
  intro l
  induction l with
  | nil => simp [insL, memL, lookupL]
  | cons a rest ih =>
    rcases hcmp : cmp (key new) (key a) with _ | _ | _
    · simp [insL, memL, lookupL, hcmp]
    · simp [insL, memL, lookupL, hcmp]
    · simp only [insL, memL, lookupL, hcmp, List.length_cons] at *
      rw [ih]; split <;> simp_all

theorem delL_length {α : Type} (key : α → K) (k : K) : ∀ l : List α,
    (delL cmp key k l).length + (memL cmp key k l).toNat = l.length := by
  intro l
  induction l with
  | nil => simp [delL, memL, lookupL]
  | cons a rest ih =>
    rcases hcmp : cmp k (key a) with _ | _ | _
    · simp [delL, memL, lookupL, hcmp]
    · simp [delL, memL, lookupL, hcmp]
    · simp only [delL, memL, lookupL, hcmp, List.length_cons] at *
      omega

theorem Tbl.init_inv : (Tbl.init : Tbl K V).Inv cmp :=
  ⟨by simp [Tbl.init, resetIterator, Ordered, Sorted], ⟨0, by simpa [Tbl.init, resetIterator] using Bal.nil⟩,
   by simp [Tbl.init, resetIterator]⟩

/-- `qtreetbl_putobj` succeeds, keeps the invariant and inserts/replaces in the ideal map -/
theorem Tbl.putobj_spec (hc : CmpOk cmp) (isEmpty : V → Bool) (s : Tbl K V) (k : K) (v : V)
    (hi : s.Inv cmp) :
    ∃ s', s.putobj cmp isEmpty k v = .ok (s', true) ∧ s'.Inv cmp ∧
      s'.abs = putSpec cmp isEmpty k v s.abs ∧ s'.tid = s.tid := by
  let new : Entry K V := { key := k, val := v, id := s.fresh }
  let onDup := fun (e : Entry K V) => if isEmpty v then e else { e with val := v }
  obtain ⟨t', added, h1, h2⟩ := put_llrb cmp keyOf k (some new) onDup s.root hi.llrb
  obtain ⟨i1, i2⟩ := put_inorder new onDup hc _ _ _ (by simpa [keyOf, new] using h1) hi.ordered
  have hdup : ∀ a, keyOf (onDup a) = keyOf a := by
    intro a; simp only [onDup, keyOf]; split <;> rfl
  have hsz := congrArg List.length i1
  let s' : Tbl K V := { s with root := t'.blacken, num := if added then s.num + 1 else s.num,
                               fresh := if added then s.fresh + 1 else s.fresh }
  have hrun : s.putobj cmp isEmpty k v = .ok (s', true) := by
    simp only [Tbl.putobj]
    rw [show T.put cmp keyOf k (some { key := k, val := v, id := s.fresh })
          (fun (e : Entry K V) => if isEmpty v then e else { e with val := v }) (s.root.size + 1) s.root
          = .ok (t', added) from h1]
    rfl
  have hroot : s'.root = t'.blacken := rfl
  have hnum : s'.num = if added then s.num + 1 else s.num := rfl
  simp only at i1 i2
  refine ⟨s', hrun, ⟨?_, ?_, ?_⟩, ?_, rfl⟩
  · simp only [Ordered, hroot, inorder_blacken, i1]
    exact insL_sorted new onDup hc hdup _ hi.ordered
  · rw [hroot]; exact h2
  · -- count
    rw [hroot, hnum, size_blacken, ← length_inorder, i1, hi.count, ← length_inorder, i2]
    rw [insL_length]
    cases memL cmp keyOf (keyOf new) (inorder s.root) <;> simp
  · simp only [Tbl.abs, hroot, inorder_blacken, i1, putSpec]
    rw [insL_map cmp new onDup (fun p => if isEmpty v then p else (p.1, v))]
    · rfl
    · intro e; simp only [onDup, kv]; split <;> rfl

theorem delL_map (k : K) : ∀ l : List (Entry K V),
    (delL cmp keyOf k l).map kv = delL cmp Prod.fst k (l.map kv) := by
  intro l
  induction l with
  | nil => rfl
  | cons a rest ih =>
    simp only [delL, List.map_cons, keyOf] at *
    have : (kv a).1 = a.key := rfl
    simp only [this]
    cases cmp k a.key <;> simp [ih]

theorem memL_map (k : K) (l : List (Entry K V)) :
    memL cmp keyOf k l = memL cmp Prod.fst k (l.map kv) := by
  simp only [memL, ← lookupL_map]
  cases lookupL cmp keyOf k l <;> rfl

/-- `qtreetbl_removeobj` never faults, keeps the invariant, removes exactly the equal key and
    reports whether it was present -/
theorem Tbl.removeobj_spec (hc : CmpOk cmp) (s : Tbl K V) (k : K) (hi : s.Inv cmp) :
    ∃ s', s.removeobj cmp k = .ok (s', (removeSpec cmp k s.abs).2) ∧ s'.Inv cmp ∧
      s'.abs = (removeSpec cmp k s.abs).1 ∧ s'.tid = s.tid := by
  obtain ⟨t', enoent, h1, h2⟩ := remove_llrb (key := keyOf) hc copyKV k s.root hi.llrb hi.ordered
  obtain ⟨i1, i2⟩ := remove_inorder (key := keyOf) hc copyKV kv (fun _ _ => rfl) k _ s.root _ h1 hi.ordered hi.llrb
  have ho := remove_ordered (key := keyOf) hc copyKV (fun _ _ => rfl) k _ s.root _ h1 hi.ordered hi.llrb
  simp only at i1 i2 ho
  let s' : Tbl K V := { s with root := t'.blacken, num := if enoent then s.num else s.num - 1 }
  have hrun : s.removeobj cmp k = .ok (s', !enoent) := by
    simp only [Tbl.removeobj]
    rw [h1]
    rfl
  have hroot : s'.root = t'.blacken := rfl
  have hnum : s'.num = if enoent then s.num else s.num - 1 := rfl
  have hlen := congrArg List.length i1
  simp only [List.length_map] at hlen
  refine ⟨s', ?_, ⟨?_, ?_, ?_⟩, ?_, rfl⟩
  · rw [hrun]; simp [removeSpec, i2, Tbl.abs, memL_map]
  · simpa [Ordered, hroot] using ho
  · rw [hroot]; exact h2
  · rw [hroot, hnum, size_blacken, ← length_inorder, hlen, hi.count, ← length_inorder, i2]
    have := delL_length cmp keyOf k (inorder s.root)
    cases h : memL cmp keyOf k (inorder s.root) <;> simp [h] at this ⊢ <;> omega
  · simp only [Tbl.abs, hroot, inorder_blacken, i1, removeSpec, delL_map]

/-- `qtreetbl_getobj` returns what the ideal map holds -/
theorem Tbl.getobj_spec (hc : CmpOk cmp) (s : Tbl K V) (k : K) (hi : s.Inv cmp) :
    s.getobj cmp k = getSpec cmp k s.abs := by
  simp only [Tbl.getobj, getSpec, Tbl.abs, find_lookup hc k s.root hi.ordered, ← lookupL_map]
  cases lookupL cmp keyOf k (inorder s.root) <;> simp [kv]

/-- a lookup among `n` keys calls the comparator at most `2 * log2 (n + 1)` times -/
theorem Tbl.getCost_le (s : Tbl K V) (k : K) (hi : s.Inv cmp) :
    s.getCost cmp k ≤ 2 * Nat.log2 (s.num + 1) := by
  rw [hi.count]
  exact Nat.le_trans (find_cost k s.root) hi.llrb.height_bound

theorem Tbl.size_spec (s : Tbl K V) (hi : s.Inv cmp) : s.size = s.abs.length := by
  simp [Tbl.size, Tbl.abs, hi.count, length_inorder]

theorem Tbl.findMin_spec (s : Tbl K V) : s.findMin = s.abs.head?.map Prod.fst := by
  simp only [Tbl.findMin, Tbl.abs, findMin_head]
  cases inorder s.root <;> simp [kv]

theorem Tbl.findMax_spec (s : Tbl K V) : s.findMax = s.abs.getLast?.map Prod.fst := by
  simp only [Tbl.findMax, Tbl.abs, findMax_last]
  cases h : (inorder s.root).getLast? <;> simp [List.getLast?_map, h, kv]

theorem Tbl.clear_spec (s : Tbl K V) : (s.clear).Inv cmp ∧ s.clear.abs = [] :=
  ⟨⟨by simp [Tbl.clear, Ordered, Sorted], ⟨0, by simpa [Tbl.clear] using Bal.nil⟩, by simp [Tbl.clear]⟩,
   by simp [Tbl.clear, Tbl.abs]⟩

end

end Qlibc.Tree

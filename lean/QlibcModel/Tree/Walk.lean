/-
  C03, the machine level: `getnextLoop` (the pointer machine of `qtreetbl_getnext`) analysed
  with a zipper invariant.

  Between two calls of one traversal the cursor sits on the node just visited; the path from
  the root to it is a list of frames.  `Mid` is the invariant: the cursor's left subtree is
  fully stamped, its right subtree and the sibling subtree of every frame are *uniformly*
  stamped or unstamped, and the `next` pointers along the path lead to the root.
  `pend`/`remF` compute the key/value sequence the remaining calls will return.  For a walk
  started at the root of an unstamped (sub)tree this is the in-order sequence; the general form
  (arbitrary frames) also covers the continuation after `find_nearest`.
-/
import QlibcModel.Tree.Zipper

namespace Qlibc.Tree
open Qlibc T

variable {K V : Type}

def setNext (nx : Option Nat) (e : Entry K V) : Entry K V := { e with next := nx }
def stamp (tid : UInt8) (e : Entry K V) : Entry K V := { e with tid := tid }

@[simp] theorem setNext_key (nx) (e : Entry K V) : (setNext nx e).key = e.key := rfl
@[simp] theorem setNext_val (nx) (e : Entry K V) : (setNext nx e).val = e.val := rfl
@[simp] theorem setNext_id (nx) (e : Entry K V) : (setNext nx e).id = e.id := rfl
@[simp] theorem setNext_tid (nx) (e : Entry K V) : (setNext nx e).tid = e.tid := rfl
@[simp] theorem setNext_next (nx) (e : Entry K V) : (setNext nx e).next = nx := rfl
@[simp] theorem stamp_key (t) (e : Entry K V) : (stamp t e).key = e.key := rfl
@[simp] theorem stamp_val (t) (e : Entry K V) : (stamp t e).val = e.val := rfl
@[simp] theorem stamp_id (t) (e : Entry K V) : (stamp t e).id = e.id := rfl
@[simp] theorem stamp_tid (t) (e : Entry K V) : (stamp t e).tid = t := rfl
@[simp] theorem stamp_next (t) (e : Entry K V) : (stamp t e).next = e.next := rfl
@[simp] theorem kv_setNext (nx) (e : Entry K V) : kv (setNext nx e) = kv e := rfl
@[simp] theorem kv_stamp (t) (e : Entry K V) : kv (stamp t e) = kv e := rfl

/-- the root of `t` exists and does not carry the stamp `tid` -/
def unstB (tid : UInt8) : T (Entry K V) → Bool
  | .nil => false
  | .node _ a _ _ => a.tid != tid

@[simp] theorem unstB_nil (tid : UInt8) : unstB tid (.nil : T (Entry K V)) = false := rfl
@[simp] theorem unstB_node (tid : UInt8) (l : T (Entry K V)) (a c r) :
    unstB tid (.node l a c r) = (a.tid != tid) := rfl

/-! ### one iteration of the loop -/

theorem loop_none (tid : UInt8) (fuel : Nat) (root : T (Entry K V)) :
    getnextLoop tid (fuel + 1) root none = .ok (root, none) := by
  simp [getnextLoop]

theorem loop_left {tid : UInt8} {fuel : Nat} {root : T (Entry K V)} {c : Nat} {ll la lc lr a col r}
    (h : lookup c root = some (.node (.node ll la lc lr) a col r)) (hu : la.tid ≠ tid) :
    getnextLoop tid (fuel + 1) root (some c) =
      getnextLoop tid fuel (modify la.id (setNext (some c)) root) (some la.id) := by
  simp [getnextLoop, h, hu]; rfl

theorem visit_stamp {tid : UInt8} {fuel : Nat} {root : T (Entry K V)} {c : Nat} {a r} (hu : a.tid ≠ tid) :
    getnextLoop.visit tid fuel root c a r = .ok (modify c (stamp tid) root, some (stamp tid a)) := by
  cases r <;> simp [getnextLoop.visit, hu] <;> exact ⟨rfl, rfl⟩

theorem visit_right {tid : UInt8} {fuel : Nat} {root : T (Entry K V)} {c : Nat} {a rl ra rc rr}
    (ha : a.tid = tid) (hu : ra.tid ≠ tid) :
    getnextLoop.visit tid fuel root c a (.node rl ra rc rr) =
      getnextLoop tid fuel (modify ra.id (setNext (some c)) root) (some ra.id) := by
  simp [getnextLoop.visit, hu, ha]; rfl

theorem visit_up {tid : UInt8} {fuel : Nat} {root : T (Entry K V)} {c : Nat} {a r}
    (ha : a.tid = tid) (hr : unstB tid r = false) :
    getnextLoop.visit tid fuel root c a r = getnextLoop tid fuel root a.next := by
  cases r with
  | nil => simp [getnextLoop.visit, ha]
  | node rl ra rc rr => simp at hr; simp [getnextLoop.visit, ha, hr]

theorem loop_to_visit {tid : UInt8} {fuel : Nat} {root : T (Entry K V)} {c : Nat} {l a col r}
    (h : lookup c root = some (.node l a col r)) (hl : unstB tid l = false) :
    getnextLoop tid (fuel + 1) root (some c) = getnextLoop.visit tid fuel root c a r := by
  cases l with
  | nil => simp [getnextLoop, h]
  | node ll la lc lr => simp at hl; simp [getnextLoop, h, hl]

theorem loop_visit {tid : UInt8} {fuel : Nat} {root : T (Entry K V)} {c : Nat} {l a col r}
    (h : lookup c root = some (.node l a col r)) (hl : unstB tid l = false) (hu : a.tid ≠ tid) :
    getnextLoop tid (fuel + 1) root (some c) = .ok (modify c (stamp tid) root, some (stamp tid a)) := by
  rw [loop_to_visit h hl, visit_stamp hu]

theorem loop_right {tid : UInt8} {fuel : Nat} {root : T (Entry K V)} {c : Nat} {l a col rl ra rc rr}
    (h : lookup c root = some (.node l a col (.node rl ra rc rr))) (hl : unstB tid l = false)
    (ha : a.tid = tid) (hu : ra.tid ≠ tid) :
    getnextLoop tid (fuel + 1) root (some c) =
      getnextLoop tid fuel (modify ra.id (setNext (some c)) root) (some ra.id) := by
  rw [loop_to_visit h hl, visit_right ha hu]

theorem loop_up {tid : UInt8} {fuel : Nat} {root : T (Entry K V)} {c : Nat} {l a col r}
    (h : lookup c root = some (.node l a col r)) (hl : unstB tid l = false)
    (ha : a.tid = tid) (hr : unstB tid r = false) :
    getnextLoop tid (fuel + 1) root (some c) = getnextLoop tid fuel root a.next := by
  rw [loop_to_visit h hl, visit_up ha hr]

/-! ### stamps -/

def AllSt (tid : UInt8) (t : T (Entry K V)) : Prop := ∀ e ∈ inorder t, e.tid = tid
def AllUn (tid : UInt8) (t : T (Entry K V)) : Prop := ∀ e ∈ inorder t, e.tid ≠ tid
/-- uniformly stamped or uniformly unstamped -/
def Uni (tid : UInt8) (t : T (Entry K V)) : Prop := AllSt tid t ∨ AllUn tid t

theorem AllSt.unstB {tid : UInt8} {t : T (Entry K V)} (h : AllSt tid t) : unstB tid t = false := by
  cases t with
  | nil => rfl
  | node l a c r => simp [h a (by simp)]

theorem AllUn.unstB {tid : UInt8} {l : T (Entry K V)} {a c r} (h : AllUn tid (.node l a c r)) :
    a.tid ≠ tid := h a (by simp)

theorem Uni.allSt {tid : UInt8} {t : T (Entry K V)} (h : Uni tid t) (hu : unstB tid t = false) :
    AllSt tid t := by
  cases t with
  | nil => intro e he; simp at he
  | node l a c r =>
    rcases h with h | h
    · exact h
    · simp at hu; exact absurd hu (h a (by simp))

theorem Uni.allUn {tid : UInt8} {t : T (Entry K V)} (h : Uni tid t) (hu : unstB tid t = true) :
    AllUn tid t := by
  cases t with
  | nil => simp at hu
  | node l a c r =>
    rcases h with h | h
    · simp at hu; exact absurd (h a (by simp)) hu
    · exact h

theorem allSt_node {tid : UInt8} {l : T (Entry K V)} {a c r} (hl : AllSt tid l) (ha : a.tid = tid)
    (hr : AllSt tid r) : AllSt tid (.node l a c r) := by
  intro e he
  simp only [inorder_node, List.mem_append, List.mem_cons] at he
  rcases he with he | rfl | he
  · exact hl e he
  · exact ha
  · exact hr e he

theorem AllUn.left {tid : UInt8} {l : T (Entry K V)} {a c r} (h : AllUn tid (.node l a c r)) : AllUn tid l :=
  fun e he => h e (by simp [he])
theorem AllUn.right {tid : UInt8} {l : T (Entry K V)} {a c r} (h : AllUn tid (.node l a c r)) : AllUn tid r :=
  fun e he => h e (by simp [he])

/-- what a traversal still returns from a uniformly stamped subtree -/
def pend (tid : UInt8) (t : T (Entry K V)) : List (K × V) := if unstB tid t then kvs t else []

theorem pend_allUn {tid : UInt8} {t : T (Entry K V)} (h : AllUn tid t) : pend tid t = kvs t := by
  cases t with
  | nil => simp [pend]
  | node l a c r => simp [pend, h a (by simp)]

theorem pend_allSt {tid : UInt8} {t : T (Entry K V)} (h : AllSt tid t) : pend tid t = [] := by
  simp [pend, h.unstB]

/-- what a traversal still returns after leaving the subtree in the hole -/
def remF (tid : UInt8) : List (Frame K V) → List (K × V)
  | [] => []
  | .L y _ s :: fs => (if y.tid != tid then [kv y] else []) ++ pend tid s ++ remF tid fs
  | .R s y _ :: fs => pend tid s ++ (if y.tid != tid then [kv y] else []) ++ remF tid fs

def FramesOk (tid : UInt8) (fs : List (Frame K V)) : Prop := ∀ f ∈ fs, Uni tid f.sib

theorem FramesOk.cons {tid : UInt8} {f : Frame K V} {fs} (h1 : Uni tid f.sib) (h2 : FramesOk tid fs) :
    FramesOk tid (f :: fs) := by
  intro g hg
  simp only [List.mem_cons] at hg
  rcases hg with rfl | hg
  · exact h1
  · exact h2 g hg

theorem FramesOk.tail {tid : UInt8} {f : Frame K V} {fs} (h : FramesOk tid (f :: fs)) : FramesOk tid fs :=
  fun g hg => h g (by simp [hg])
theorem FramesOk.head {tid : UInt8} {f : Frame K V} {fs} (h : FramesOk tid (f :: fs)) : Uni tid f.sib :=
  h f (by simp)

/-- the state between two calls of one traversal: the cursor `cur` is the node just visited,
    `rem` is what the remaining calls return -/
def Mid (tid : UInt8) (root : T (Entry K V)) (cur : Nat) (rem : List (K × V)) : Prop :=
  ∃ fs l a c r, root = plug fs (.node l a c r) ∧ a.id = cur ∧ a.tid = tid ∧ AllSt tid l ∧ Uni tid r ∧
    FramesOk tid fs ∧ PathOk a.next fs ∧ DistinctIds root ∧ rem = pend tid r ++ remF tid fs

/-- result of one call: the end of the walk if nothing remains, otherwise the next item and
    again a `Mid` state -/
def Outcome (tid : UInt8) (res : Except Fault (T (Entry K V) × Option (Entry K V)))
    (root : T (Entry K V)) (rem : List (K × V)) : Prop :=
  (rem = [] ∧ res = .ok (root, none)) ∨
  (∃ e rest root' a', rem = e :: rest ∧ res = .ok (root', some a') ∧ kv a' = e ∧ a'.tid = tid ∧
    Mid tid root' a'.id rest)

/-! ### descent into an unstamped subtree -/

theorem descend (tid : UInt8) : ∀ (fuel : Nat) (fs : List (Frame K V)) (l a c r),
    AllUn tid (.node l a c r) → DistinctIds (plug fs (.node l a c r)) → size (.node l a c r) ≤ fuel →
    ∃ fs' m cm rm,
      getnextLoop tid fuel (plug fs (.node l a c r)) (some a.id)
        = .ok (plug fs' (.node .nil (stamp tid m) cm rm), some (stamp tid m)) ∧
      AllUn tid rm ∧ (FramesOk tid fs → FramesOk tid fs') ∧ (PathOk a.next fs → PathOk m.next fs') ∧
      DistinctIds (plug fs' (.node .nil (stamp tid m) cm rm)) ∧
      kv m :: (kvs rm ++ remF tid fs') = kvs (.node l a c r) ++ remF tid fs := by
  intro fuel
  induction fuel with
  | zero => intro fs l a c r _ _ hsz; simp at hsz
  | succ fuel ih =>
    intro fs l a c r hun hd hsz
    have hlk := lookup_hole hd
    cases l with
    | nil =>
      refine ⟨fs, a, c, r, ?_, hun.right, id, id, ?_, by simp⟩
      · rw [loop_visit hlk rfl hun.unstB, modify_hole _ hd]
      · exact (distinct_plug_congr (by simp)).mpr hd
    | node ll la lc lr =>
      have hla : la.tid ≠ tid := hun.left.unstB
      rw [loop_left hlk hla]
      have hd' : DistinctIds (plug (.L a c r :: fs) (.node ll la lc lr)) := hd
      have hm : modify la.id (setNext (some a.id)) (plug fs (.node (.node ll la lc lr) a c r))
          = plug (.L a c r :: fs) (.node ll (setNext (some a.id) la) lc lr) := modify_hole _ hd'
      rw [hm]
      have hd'' : DistinctIds (plug (.L a c r :: fs) (.node ll (setNext (some a.id) la) lc lr)) :=
        (distinct_plug_congr (by simp)).mpr hd'
      have hun' : AllUn tid (.node ll (setNext (some a.id) la) lc lr) := by
        intro e he
        simp only [inorder_node, List.mem_append, List.mem_cons] at he
        rcases he with he | rfl | he
        · exact hun.left e (by simp [he])
        · exact hla
        · exact hun.left e (by simp [he])
      have hsz' : size (.node ll (setNext (some a.id) la) lc lr) ≤ fuel := by
        simp at hsz ⊢; omega
      obtain ⟨fs', m, cm, rm, h1, h2, h3, h4, h5, h6⟩ := ih (.L a c r :: fs) ll _ lc lr hun' hd'' hsz'
      refine ⟨fs', m, cm, rm, h1, h2, ?_, ?_, h5, ?_⟩
      · exact fun hf => h3 (FramesOk.cons (Or.inr hun.right) hf)
      · exact fun hp => h4 ⟨rfl, hp⟩
      · rw [h6]
        have ha : a.tid ≠ tid := hun.unstB
        simp [remF, pend_allUn hun.right, ha]

/-- packaging of `descend`: the call that enters an unstamped subtree returns its first entry -/
theorem descend_outcome {tid : UInt8} {fuel : Nat} {fs : List (Frame K V)} {l a c r} {rem : List (K × V)}
    (hun : AllUn tid (.node l a c r)) (hd : DistinctIds (plug fs (.node l a c r)))
    (hsz : size (.node l a c r) ≤ fuel) (hf : FramesOk tid fs) (hp : PathOk a.next fs)
    (hrem : rem = kvs (.node l a c r) ++ remF tid fs) (root0 : T (Entry K V)) :
    Outcome tid (getnextLoop tid fuel (plug fs (.node l a c r)) (some a.id)) root0 rem := by
  obtain ⟨fs', m, cm, rm, h1, h2, h3, h4, h5, h6⟩ := descend tid fuel fs l a c r hun hd hsz
  refine Or.inr ⟨kv m, kvs rm ++ remF tid fs', _, _, ?_, h1, by simp, by simp, ?_⟩
  · rw [hrem, ← h6]
  · exact ⟨fs', .nil, stamp tid m, cm, rm, rfl, rfl, rfl, fun e he => by simp at he, Or.inr h2, h3 hf,
      h4 hp, h5, by rw [pend_allUn h2]⟩

/-! ### leaving a fully stamped subtree -/

theorem climb (tid : UInt8) : ∀ (fs : List (Frame K V)) (fuel : Nat) (t : T (Entry K V)) (nx : Option Nat),
    t ≠ .nil → AllSt tid t → FramesOk tid fs → PathOk nx fs → DistinctIds (plug fs t) → fsize fs + 1 ≤ fuel →
    Outcome tid (getnextLoop tid fuel (plug fs t) nx) (plug fs t) (remF tid fs) := by
  intro fs
  induction fs with
  | nil =>
    intro fuel t nx _ _ _ hp _ hfu
    obtain ⟨fuel, rfl⟩ : ∃ f, fuel = f + 1 := ⟨fuel - 1, by omega⟩
    simp only [PathOk] at hp
    subst hp
    exact Or.inl ⟨rfl, loop_none tid fuel _⟩
  | cons f fs ih =>
    intro fuel t nx hne hst hfo hp hd hfu
    obtain ⟨fuel, rfl⟩ : ∃ f, fuel = f + 1 := ⟨fuel - 1, by omega⟩
    obtain ⟨hnx, hp'⟩ := hp
    subst hnx
    have htu : unstB tid t = false := hst.unstB
    cases f with
    | L y c s =>
      simp only [Frame.y_L] at hp' ⊢
      simp only [fsize, Frame.sib_L] at hfu
      have hd' : DistinctIds (plug fs (.node t y c s)) := hd
      have hlk : lookup y.id (plug (.L y c s :: fs) t) = some (.node t y c s) := lookup_hole hd'
      have hus : Uni tid s := hfo.head
      by_cases hy : y.tid = tid
      · cases hsu : unstB tid s with
        | true =>
          -- go into the right subtree
          cases s with
          | nil => simp at hsu
          | node sl sa sc sr =>
            have hsa : sa.tid ≠ tid := by simpa using hsu
            have hun : AllUn tid (.node sl sa sc sr) := hus.allUn hsu
            rw [loop_right hlk htu hy hsa]
            have hd2 : DistinctIds (plug (.R t y c :: fs) (.node sl sa sc sr)) := hd
            have hm : modify sa.id (setNext (some y.id)) (plug (.L y c (.node sl sa sc sr) :: fs) t)
                = plug (.R t y c :: fs) (.node sl (setNext (some y.id) sa) sc sr) := modify_hole _ hd2
            rw [hm]
            have hd3 : DistinctIds (plug (.R t y c :: fs) (.node sl (setNext (some y.id) sa) sc sr)) :=
              (distinct_plug_congr (by simp)).mpr hd2
            have hun' : AllUn tid (.node sl (setNext (some y.id) sa) sc sr) := by
              intro e he
              simp only [inorder_node, List.mem_append, List.mem_cons] at he
              rcases he with he | rfl | he
              · exact hun e (by simp [he])
              · exact hsa
              · exact hun e (by simp [he])
            refine descend_outcome hun' hd3 (by simp at hfu ⊢; omega)
              (FramesOk.cons (Or.inl hst) hfo.tail) ⟨rfl, hp'⟩ ?_ _
            simp [remF, pend_allUn hun, pend_allSt hst, hy]
        | false =>
          rw [loop_up hlk htu hy hsu]
          have hst' : AllSt tid (.node t y c s) := allSt_node hst hy (hus.allSt hsu)
          have := ih fuel (.node t y c s) y.next (by simp) hst' hfo.tail hp' hd' (by omega)
          simpa [remF, hy, pend_allSt (hus.allSt hsu), plug_cons] using this
      · -- visit `y`
        rw [loop_visit hlk htu hy]
        have hm : modify y.id (stamp tid) (plug (.L y c s :: fs) t) = plug fs (.node t (stamp tid y) c s) :=
          modify_hole _ hd'
        rw [hm]
        refine Or.inr ⟨kv y, pend tid s ++ remF tid fs, _, _, by simp [remF, hy], rfl, by simp, by simp, ?_⟩
        exact ⟨fs, t, stamp tid y, c, s, rfl, rfl, rfl, hst, hus, hfo.tail, hp',
          (distinct_plug_congr (by simp)).mpr hd', rfl⟩
    | R s y c =>
      simp only [Frame.y_R] at hp' ⊢
      simp only [fsize, Frame.sib_R] at hfu
      have hd' : DistinctIds (plug fs (.node s y c t)) := hd
      have hlk : lookup y.id (plug (.R s y c :: fs) t) = some (.node s y c t) := lookup_hole hd'
      have hus : Uni tid s := hfo.head
      cases hsu : unstB tid s with
      | true =>
        -- the left subtree has not been visited: go there first
        cases s with
        | nil => simp at hsu
        | node sl sa sc sr =>
          have hsa : sa.tid ≠ tid := by simpa using hsu
          have hun : AllUn tid (.node sl sa sc sr) := hus.allUn hsu
          rw [loop_left hlk hsa]
          have hd2 : DistinctIds (plug (.L y c t :: fs) (.node sl sa sc sr)) := hd
          have hm : modify sa.id (setNext (some y.id)) (plug (.R (.node sl sa sc sr) y c :: fs) t)
              = plug (.L y c t :: fs) (.node sl (setNext (some y.id) sa) sc sr) := modify_hole _ hd2
          rw [hm]
          have hd3 : DistinctIds (plug (.L y c t :: fs) (.node sl (setNext (some y.id) sa) sc sr)) :=
            (distinct_plug_congr (by simp)).mpr hd2
          have hun' : AllUn tid (.node sl (setNext (some y.id) sa) sc sr) := by
            intro e he
            simp only [inorder_node, List.mem_append, List.mem_cons] at he
            rcases he with he | rfl | he
            · exact hun e (by simp [he])
            · exact hsa
            · exact hun e (by simp [he])
          refine descend_outcome hun' hd3 (by simp at hfu ⊢; omega)
            (FramesOk.cons (Or.inl hst) hfo.tail) ⟨rfl, hp'⟩ ?_ _
          simp [remF, pend_allUn hun, pend_allSt hst]
      | false =>
        have hss : AllSt tid s := hus.allSt hsu
        by_cases hy : y.tid = tid
        · rw [loop_up hlk hsu hy htu]
          have hst' : AllSt tid (.node s y c t) := allSt_node hss hy hst
          have := ih fuel (.node s y c t) y.next (by simp) hst' hfo.tail hp' hd' (by omega)
          simpa [remF, hy, pend_allSt hss, plug_cons] using this
        · rw [loop_visit hlk hsu hy]
          have hm : modify y.id (stamp tid) (plug (.R s y c :: fs) t) = plug fs (.node s (stamp tid y) c t) :=
            modify_hole _ hd'
          rw [hm]
          refine Or.inr ⟨kv y, remF tid fs, _, _, by simp [remF, hy, pend_allSt hss], rfl, by simp, by simp, ?_⟩
          exact ⟨fs, s, stamp tid y, c, t, rfl, rfl, rfl, hss, Or.inl hst, hfo.tail, hp',
            (distinct_plug_congr (by simp)).mpr hd', by simp [pend_allSt hst]⟩

/-- one call of `getnext` in the middle of a traversal -/
theorem mid_step {tid : UInt8} {root : T (Entry K V)} {cur : Nat} {rem : List (K × V)} {fuel : Nat}
    (h : Mid tid root cur rem) (hfu : size root + 2 ≤ fuel) :
    Outcome tid (getnextLoop tid fuel root (some cur)) root rem := by
  obtain ⟨fs, l, a, c, r, rfl, rfl, ha, hl, hr, hfo, hp, hd, rfl⟩ := h
  obtain ⟨fuel, rfl⟩ : ∃ f, fuel = f + 1 := ⟨fuel - 1, by omega⟩
  rw [size_plug] at hfu
  simp only [size_node] at hfu
  have hlk := lookup_hole hd
  cases hru : unstB tid r with
  | true =>
    cases r with
    | nil => simp at hru
    | node rl ra rc rr =>
      have hra : ra.tid ≠ tid := by simpa using hru
      have hun : AllUn tid (.node rl ra rc rr) := hr.allUn hru
      rw [loop_right hlk hl.unstB ha hra]
      have hd2 : DistinctIds (plug (.R l a c :: fs) (.node rl ra rc rr)) := hd
      have hm : modify ra.id (setNext (some a.id)) (plug fs (.node l a c (.node rl ra rc rr)))
          = plug (.R l a c :: fs) (.node rl (setNext (some a.id) ra) rc rr) := modify_hole _ hd2
      rw [hm]
      have hd3 : DistinctIds (plug (.R l a c :: fs) (.node rl (setNext (some a.id) ra) rc rr)) :=
        (distinct_plug_congr (by simp)).mpr hd2
      have hun' : AllUn tid (.node rl (setNext (some a.id) ra) rc rr) := by
        intro e he
        simp only [inorder_node, List.mem_append, List.mem_cons] at he
        rcases he with he | rfl | he
        · exact hun e (by simp [he])
        · exact hra
        · exact hun e (by simp [he])
      refine descend_outcome hun' hd3 (by simp at hfu ⊢; omega)
        (FramesOk.cons (Or.inl hl) hfo) ⟨rfl, hp⟩ ?_ _
      simp [remF, pend_allUn hun, pend_allSt hl, ha]
  | false =>
    rw [loop_up hlk hl.unstB ha hru]
    have hst : AllSt tid (.node l a c r) := allSt_node hl ha (hr.allSt hru)
    have := climb tid fs fuel (.node l a c r) a.next (by simp) hst hfo hp hd (by omega)
    simpa [pend_allSt (hr.allSt hru)] using this

end Qlibc.Tree

/-
  Allocation failure in the tree table is reported and leaves the table unchanged and valid.
-/
import QlibcModel.Tree.Fault
import QlibcModel.Tree.TableSpec

namespace Qlibc.Tree
open Qlibc T
variable {K V : Type} (cmp : K → K → Ordering) (isEmpty : V → Bool)

theorem anyFail_noFail (n : Nat) : anyFail noFail n = false := by
  simp [anyFail, noFail]

/-- with no failing allocation the plan form is the plain operation -/
theorem Tbl.putobjF_noFail (s : Tbl K V) (k : K) (v : V) :
    (s.putobjF cmp isEmpty noFail k v).map (fun r => (r.1, r.2.1)) = s.putobj cmp replaceAlways k v := by
  simp only [Tbl.putobjF, anyFail_noFail]
  cases s.putobj cmp replaceAlways k v <;> rfl

/-- **failure atomicity of put**: whatever allocation fails, `qtreetbl_putobj` returns (no
    fault), the table is still valid, and when it reports failure the contents and the key
    count are exactly what they were; when it reports success it did what `putobj` does. -/
theorem Tbl.putobjF_spec (hc : CmpOk cmp) (plan : Plan) (s : Tbl K V) (k : K) (v : V) (hi : s.Inv cmp) :
    ∃ s' r n, s.putobjF cmp isEmpty plan k v = .ok (s', r, n) ∧ s'.Inv cmp ∧
      (r = false → s'.abs = s.abs ∧ s'.num = s.num) ∧
      (r = true → s.putobj cmp replaceAlways k v = .ok (s', true)) := by
  unfold Tbl.putobjF
  simp only
  generalize ((if (T.find cmp keyOf k s.root).1.isSome then 0 else 2) + (if isEmpty v then 0 else 1)) = n
  by_cases hf : anyFail plan n = true
  · -- some allocation fails: the descent without the leaf / without the value replacement
    obtain ⟨t', added, h1, h2⟩ := put_llrb cmp keyOf k (none : Option (Entry K V)) id s.root hi.llrb
    obtain ⟨i1, i2⟩ := put_none_inorder (cmp := cmp) (key := keyOf) k _ _ _ h1
    simp only at i1 i2
    refine ⟨{ s with root := t'.blacken }, false, n, by simp [hf, h1], ⟨?_, ?_, ?_⟩, ?_, by simp⟩
    · simpa [Ordered, i1] using hi.ordered
    · simpa using h2
    · simp only [size_blacken]
      rw [hi.count, ← length_inorder, ← length_inorder, i1]
    · intro _
      exact ⟨by simp [Tbl.abs, i1], rfl⟩
  · obtain ⟨s', h1, h2, _, _⟩ := Tbl.putobj_spec cmp hc replaceAlways s k v hi
    exact ⟨s', true, n, by simp [hf, h1], h2, by simp, fun _ => h1⟩

/-- the read accessors never change the table, whatever fails (they return values only) -/
theorem Tbl.getobjF_result (plan : Plan) (s : Tbl K V) (k : K) :
    (s.getobjF cmp isEmpty plan k).1 = none ∨ (s.getobjF cmp isEmpty plan k).1 = s.getobj cmp k := by
  unfold Tbl.getobjF
  cases s.getobj cmp k with
  | none => simp
  | some v =>
    simp only
    split
    · simp
    · split <;> simp

/-- the ledger is a function of the contents: equal contents, equal number of live blocks -/
theorem Tbl.live_congr (s s' : Tbl K V) (h : s.abs = s'.abs) : s.live isEmpty = s'.live isEmpty := by
  have : ∀ l : List (Entry K V), (l.map (fun e => if isEmpty e.val then 2 else 3))
      = (l.map kv).map (fun p => if isEmpty p.2 then 2 else 3) := by
    intro l; simp [kv, List.map_map]; intro a _; rfl
  simp only [Tbl.live, this]
  unfold Tbl.abs at h
  rw [h]

/-- releasing the table releases every block -/
theorem Tbl.live_clear (s : Tbl K V) : s.clear.live isEmpty = 1 := by
  simp [Tbl.live, Tbl.clear]

end Qlibc.Tree

/-
  Lookup, minimum and maximum against the ideal sorted map; lookup cost and the height bound
  of a valid left-leaning red-black tree; the library's self check `qtreetbl_check` is exact.
-/
import QlibcModel.Tree.ListSpec

namespace Qlibc.Tree
open Qlibc
namespace T
variable {α K : Type} {cmp : K → K → Ordering} {key : α → K}

/-- `find_obj` returns the entry the ideal sorted map holds for an equal key -/
theorem find_lookup (hc : CmpOk cmp) (k : K) : ∀ t : T α, Ordered cmp key t →
    (find cmp key k t).1 = lookupL cmp key k (inorder t) := by
  intro t
  induction t with
  | nil => intro _; rfl
  | node l a c r ihl ihr =>
    intro hs
    obtain ⟨sl, sr, hla, har, _⟩ := sorted_mid (xs := inorder l) (ys := inorder r) (by simpa [Ordered] using hs)
    simp only [find, inorder_node]
    cases hcmp : cmp k (key a) with
    | eq => simp [lookupL_eq k _ _ a (left_below hc hla (Or.inr hcmp)) hcmp]
    | lt => simp [lookupL_lt k _ _ a hcmp, ihl sl]
    | gt => simp [lookupL_gt k _ _ a (left_below hc hla (Or.inl hcmp)) hcmp, ihr sr]

/-- the lookup calls the comparator at most `height` times -/
theorem find_cost (k : K) : ∀ t : T α, (find cmp key k t).2 ≤ height t := by
  intro t
  induction t with
  | nil => simp [find, height]
  | node l a c r ihl ihr =>
    simp only [find, height]
    cases cmp k (key a) <;> simp <;> omega

theorem findMin_head : ∀ t : T α, findMin t = (inorder t).head? := by
  intro t
  induction t with
  | nil => rfl
  | node l a c r ihl _ =>
    cases l with
    | nil => simp [findMin]
    | node ll la lc lr =>
      simp only [findMin, ihl, inorder_node, List.head?_append]
      cases h : (inorder ll).head? <;> simp [List.head?_append, h]

theorem findMax_last : ∀ t : T α, findMax t = (inorder t).getLast? := by
  intro t
  induction t with
  | nil => rfl
  | node l a c r _ ihr =>
    cases r with
    | nil => simp [findMax]
    | node rl ra rc rr =>
      simp only [findMax, ihr, inorder_node]
      simp [List.getLast?_append, List.getLast?_cons]

/-! ### height of a valid tree -/

theorem Bal.height_le {t : T α} {c n} (h : Bal t c n) :
    height t ≤ 2 * n + (if c then 1 else 0) := by
  induction h with
  | nil => simp [height]
  | red _ _ ihl ihr => simp [height] at *; omega
  | @black _ _ _ cl cr _ _ _ _ ihl ihr => cases cl <;> cases cr <;> simp [height] at * <;> omega

theorem Bal.size_ge {t : T α} {c n} (h : Bal t c n) : 2 ^ n ≤ size t + 1 := by
  induction h with
  | nil => simp
  | red _ _ ihl ihr => simp; omega
  | black _ _ _ ihl ihr => simp [Nat.pow_succ]; omega

/-- a valid tree with `n` keys has height at most `2 * log2 (n + 1)` -/
theorem LLRB.height_bound {t : T α} (h : LLRB t) : height t ≤ 2 * Nat.log2 (size t + 1) := by
  obtain ⟨n, hb⟩ := h
  have h1 := hb.height_le
  have h2 := hb.size_ge
  have h3 : n ≤ Nat.log2 (size t + 1) := (Nat.le_log2 (by omega)).mpr h2
  simp at h1; omega

/-! ### `qtreetbl_check` decides the invariant -/

theorem Bal.check {t : T α} {c n} (h : Bal t c n) :
    checkRed t = false ∧ checkBlack t = some (n + 1) ∧ checkLean t = false := by
  induction h with
  | nil => simp [checkRed, checkBlack, checkLean]
  | red hl hr ihl ihr =>
    have := hl.isRed_eq; have := hr.isRed_eq
    simp_all [checkRed, checkBlack, checkLean]
  | @black _ _ _ cl cr _ hl hr hh ihl ihr =>
    have := hl.isRed_eq; have := hr.isRed_eq
    cases cl <;> cases cr <;> simp_all [checkRed, checkBlack, checkLean]

theorem check_of_llrb {t : T α} (h : LLRB t) : check t = 0 := by
  obtain ⟨n, hb⟩ := h
  have e := hb.isRed_eq
  obtain ⟨h1, h2, h3⟩ := hb.check
  simp [check, e, h1, h2, h3]

theorem bal_of_checks : ∀ (t : T α) (m : Nat), checkRed t = false → checkBlack t = some m →
    checkLean t = false → ∃ n, m = n + 1 ∧ Bal t (isRed t) n := by
  intro t
  induction t with
  | nil => intro m _ hb _; simp [checkBlack] at hb; exact ⟨0, by omega, Bal.nil⟩
  | node l a c r ihl ihr =>
    intro m hr hb hl
    simp only [checkRed, Bool.or_eq_false_iff] at hr
    simp only [checkLean, Bool.or_eq_false_iff] at hl
    simp only [checkBlack] at hb
    cases hbr : checkBlack r with
    | none => simp [hbr] at hb
    | some rp =>
      cases hbl : checkBlack l with
      | none => simp [hbr, hbl] at hb
      | some lp =>
        simp [hbr, hbl] at hb
        obtain ⟨heq, hm⟩ := hb
        obtain ⟨nl, hnl, bl⟩ := ihl lp hr.2 hbl hl.2
        obtain ⟨nr, hnr, br⟩ := ihr rp hr.1.2 hbr hl.1.2
        have hn : nl = nr := by omega
        subst hn
        cases c with
        | true =>
          have h1 : isRed r = false ∧ isRed l = false := by simpa using hr.1.1
          rw [h1.1] at br; rw [h1.2] at bl
          exact ⟨nl, by simp at hm; omega, Bal.red bl br⟩
        | false =>
          refine ⟨nl + 1, by simp at hm; omega, Bal.black bl br ?_⟩
          intro hrr
          have := hl.1.1
          simp [hrr] at this
          exact this

/-- the library's own self check returns 0 exactly for valid left-leaning red-black trees -/
theorem check_iff_llrb (t : T α) : check t = 0 ↔ LLRB t := by
  constructor
  · intro h
    unfold check at h
    split at h; · simp at h
    split at h; · simp at h
    split at h; · simp at h
    split at h; · simp at h
    rename_i h1 h2 h3 h4
    cases hb : checkBlack t with
    | none => simp [hb] at h3
    | some m =>
      obtain ⟨n, _, b⟩ := bal_of_checks t m (by simpa using h2) hb (by simpa using h4)
      have : isRed t = false := by simpa using h1
      rw [this] at b
      exact ⟨n, b⟩
  · exact check_of_llrb

end T
end Qlibc.Tree

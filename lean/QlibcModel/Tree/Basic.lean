/-
  Basic facts about the tree primitives: constructor equations, and the restructuring
  helpers (flip, rotations, move-red, fix, putUp) preserve the in-order sequence and the size
  whenever they succeed.
-/
import QlibcModel.Tree.Model

namespace Qlibc.Tree
open Qlibc
namespace T
variable {α : Type}

@[simp] theorem ok_bind {β γ : Type} (a : β) (f : β → Except Fault γ) :
    (Except.ok a >>= f) = f a := rfl
@[simp] theorem error_bind {β γ : Type} (e : Fault) (f : β → Except Fault γ) :
    ((Except.error e : Except Fault β) >>= f) = Except.error e := rfl
@[simp] theorem pure_eq_ok {β : Type} (a : β) : (pure a : Except Fault β) = Except.ok a := rfl

theorem bind_eq_ok {β γ : Type} {x : Except Fault β} {f : β → Except Fault γ} {r : γ}
    (h : (x >>= f) = .ok r) : ∃ a, x = .ok a ∧ f a = .ok r := by
  cases x with
  | error e => simp at h
  | ok a => exact ⟨a, rfl, by simpa using h⟩

@[simp] theorem isRed_nil : isRed (nil : T α) = false := rfl
@[simp] theorem isRed_node (l : T α) (a c r) : isRed (node l a c r) = c := rfl
@[simp] theorem left_nil : left (nil : T α) = nil := rfl
@[simp] theorem left_node (l : T α) (a c r) : left (node l a c r) = l := rfl
@[simp] theorem right_nil : right (nil : T α) = nil := rfl
@[simp] theorem right_node (l : T α) (a c r) : right (node l a c r) = r := rfl
@[simp] theorem isNil_nil : isNil (nil : T α) = true := rfl
@[simp] theorem isNil_node (l : T α) (a c r) : isNil (node l a c r) = false := rfl
@[simp] theorem blacken_nil : blacken (nil : T α) = nil := rfl
@[simp] theorem blacken_node (l : T α) (a c r) : blacken (node l a c r) = node l a false r := rfl
@[simp] theorem inorder_nil : inorder (nil : T α) = [] := rfl
@[simp] theorem inorder_node (l : T α) (a c r) : inorder (node l a c r) = inorder l ++ a :: inorder r := rfl
@[simp] theorem size_nil : size (nil : T α) = 0 := rfl
@[simp] theorem size_node (l : T α) (a c r) : size (node l a c r) = size l + 1 + size r := rfl
@[simp] theorem inorder_blacken (t : T α) : inorder (blacken t) = inorder t := by cases t <;> simp
@[simp] theorem size_blacken (t : T α) : size (blacken t) = size t := by cases t <;> simp

@[simp] theorem flip_node (ll : T α) (la lc lr a c rl ra rc rr) :
    flip (node (node ll la lc lr) a c (node rl ra rc rr))
      = .ok (node (node ll la (!lc) lr) a (!c) (node rl ra (!rc) rr)) := rfl
@[simp] theorem rotL_node (l : T α) (a c rl ra rc rr) :
    rotL (node l a c (node rl ra rc rr)) = .ok (node (node l a true rl) ra c rr) := rfl
@[simp] theorem rotR_node (ll : T α) (la lc lr a c r) :
    rotR (node (node ll la lc lr) a c r) = .ok (node ll la c (node lr a true r)) := rfl

theorem length_inorder (t : T α) : (inorder t).length = size t := by
  induction t with
  | nil => rfl
  | node l a c r ihl ihr => simp [ihl, ihr]; omega

/-- a successful restructuring step keeps the in-order sequence and the size -/
def Same (t t' : T α) : Prop := inorder t' = inorder t ∧ size t' = size t

theorem Same.refl (t : T α) : Same t t := ⟨rfl, rfl⟩
theorem Same.trans {a b c : T α} (h1 : Same a b) (h2 : Same b c) : Same a c :=
  ⟨h2.1.trans h1.1, h2.2.trans h1.2⟩

theorem flip_same {t t' : T α} (h : flip t = .ok t') : Same t t' := by
  unfold flip at h
  split at h
  · cases h; constructor <;> simp
  · simp at h

theorem rotL_same {t t' : T α} (h : rotL t = .ok t') : Same t t' := by
  unfold rotL at h
  split at h
  · cases h; constructor <;> simp <;> omega
  · simp at h

theorem rotR_same {t t' : T α} (h : rotR t = .ok t') : Same t t' := by
  unfold rotR at h
  split at h
  · cases h; constructor <;> simp <;> omega
  · simp at h

theorem same_node_right {l : T α} {a c c' r r'} (h : Same r r') : Same (node l a c r) (node l a c' r') :=
  ⟨by simp [h.1], by simp [h.2]⟩
theorem same_node_left {l l' : T α} {a c c' r} (h : Same l l') : Same (node l a c r) (node l' a c' r) :=
  ⟨by simp [h.1], by simp [h.2]⟩

theorem fixL_same {t t' : T α} (h : fixL t = .ok t') : Same t t' := by
  unfold fixL at h
  split at h
  · exact rotR_same h
  · cases h; exact Same.refl _

theorem putUp1_same {t t' : T α} (h : putUp1 t = .ok t') : Same t t' := by
  unfold putUp1 at h
  split at h
  · exact rotL_same h
  · cases h; exact Same.refl _

theorem putUp_same {t t' : T α} (h : putUp t = .ok t') : Same t t' := by
  obtain ⟨t1, h1, h2⟩ := bind_eq_ok h
  exact (putUp1_same h1).trans (fixL_same h2)

theorem splitFour_same {t t' : T α} (h : splitFour t = .ok t') : Same t t' := by
  unfold splitFour at h
  split at h
  · exact flip_same h
  · cases h; exact Same.refl _

theorem mrrBody_same {t t' : T α} (h : mrrBody t = .ok t') : Same t t' := by
  unfold mrrBody at h
  split at h
  · obtain ⟨t2, h3, h4⟩ := bind_eq_ok h
    exact (rotR_same h3).trans (flip_same h4)
  · cases h; exact Same.refl _

theorem moveRedRight_same {t t' : T α} (h : moveRedRight t = .ok t') : Same t t' := by
  obtain ⟨t1, h1, h2⟩ := bind_eq_ok h
  exact (flip_same h1).trans (mrrBody_same h2)

theorem mrlTail_same {t t' : T α} (h : mrlTail t = .ok t') : Same t t' := by
  unfold mrlTail at h
  split at h
  · simp at h
  · split at h
    · obtain ⟨r3, h8, h9⟩ := bind_eq_ok h
      cases h9
      exact same_node_right (rotL_same h8)
    · cases h; exact Same.refl _

theorem mrlBody_same {t t' : T α} (h : mrlBody t = .ok t') : Same t t' := by
  unfold mrlBody at h
  split at h
  · simp at h
  · split at h
    · obtain ⟨r', hr, h3⟩ := bind_eq_ok h
      obtain ⟨t2, h4, h5⟩ := bind_eq_ok h3
      obtain ⟨t3, h6, h7⟩ := bind_eq_ok h5
      exact (same_node_right (rotR_same hr)).trans ((rotL_same h4).trans ((flip_same h6).trans (mrlTail_same h7)))
    · cases h; exact Same.refl _

theorem moveRedLeft_same {t t' : T α} (h : moveRedLeft t = .ok t') : Same t t' := by
  obtain ⟨t1, h1, h2⟩ := bind_eq_ok h
  exact (flip_same h1).trans (mrlBody_same h2)

theorem fixR_same {t t' : T α} (h : fixR t = .ok t') : Same t t' := by
  cases t with
  | nil => simp [fixR] at h
  | node l a c r =>
    simp only [fixR] at h
    split at h
    · obtain ⟨r', hr, h3⟩ := bind_eq_ok h
      have sr : Same r r' := by
        split at hr
        · exact rotR_same hr
        · cases hr; exact Same.refl _
      exact (same_node_right sr).trans (rotL_same h3)
    · cases h; exact Same.refl _

theorem fix_same {t t' : T α} (h : fix t = .ok t') : Same t t' := by
  obtain ⟨t1, h1, h2⟩ := bind_eq_ok h
  exact (fixR_same h1).trans (fixL_same h2)

theorem minPrep_same {t t' : T α} (h : minPrep t = .ok t') : Same t t' := by
  unfold minPrep at h
  split at h
  · exact moveRedLeft_same h
  · cases h; exact Same.refl _

theorem leftPrep_same {t t' : T α} (h : leftPrep t = .ok t') : Same t t' := by
  unfold leftPrep at h
  split at h
  · exact moveRedLeft_same h
  · cases h; exact Same.refl _

theorem rightPrep1_same {t : T α} {p} (h : rightPrep1 t = .ok p) : Same t p.1 := by
  unfold rightPrep1 at h
  split at h
  · obtain ⟨t1, h1, h2⟩ := bind_eq_ok h
    cases h2; exact rotR_same h1
  · cases h; exact Same.refl _

theorem rightPrep2_same {t : T α} {b p} (h : rightPrep2 t b = .ok p) : Same t p.1 := by
  unfold rightPrep2 at h
  split at h
  · obtain ⟨t1, h1, h2⟩ := bind_eq_ok h
    cases h2; exact moveRedRight_same h1
  · cases h; exact Same.refl _

end T
end Qlibc.Tree

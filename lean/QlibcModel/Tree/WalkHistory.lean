/-
  C03, histories: the epoch invariant is kept by every table operation, hence holds after any
  history starting from `qtreetbl()`, hence a walk after any history returns exactly the
  in-order contents.
-/
import QlibcModel.Tree.Nearest
import QlibcModel.Tree.Moves

namespace Qlibc.Tree
open Qlibc T

variable {K V : Type}

/-- identifier and stamp of a node: what the epoch invariant looks at -/
def idt (e : Entry K V) : Nat × UInt8 := (e.id, e.tid)

/-! ### generic preservation: transformations that move, overwrite-in-place, drop or add payloads -/

/-- any transformation of the tree whose nodes (identifier and stamp) are a sub-sequence of the
    old ones keeps the invariant -/
theorem EpochInv.of_sublist {s : Tbl K V} (h : EpochInv s) {root' : T (Entry K V)} (num' : Nat)
    (hsub : ((inorder root').map idt).Sublist ((inorder s.root).map idt)) :
    EpochInv { s with root := root', num := num' } := by
  have hmem : ∀ e' ∈ inorder root', ∃ e ∈ inorder s.root, e'.id = e.id ∧ e'.tid = e.tid := by
    intro e' he'
    have : idt e' ∈ (inorder s.root).map idt := hsub.subset (List.mem_map.mpr ⟨e', he', rfl⟩)
    obtain ⟨e, he, hee⟩ := List.mem_map.mp this
    simp only [idt, Prod.mk.injEq] at hee
    exact ⟨e, he, hee.1.symm, hee.2.symm⟩
  refine ⟨h.pos, ?_, ?_, ?_⟩
  · intro e' he'
    obtain ⟨e, he, _, h2⟩ := hmem e' he'
    show e'.tid ≤ s.tid
    rw [h2]; exact h.le e he
  · have h1 : (ids root').Sublist (ids s.root) := by
      have := hsub.map Prod.fst
      simpa [ids, idt, List.map_map, Function.comp_def] using this
    exact h1.nodup h.distinct
  · intro e' he'
    obtain ⟨e, he, h1, _⟩ := hmem e' he'
    show e'.id < s.fresh
    rw [h1]; exact h.fresh e he

/-- adding one node with the next free identifier and stamp 0 keeps the invariant -/
theorem EpochInv.of_insert {s : Tbl K V} (h : EpochInv s) {root' : T (Entry K V)} (num' : Nat)
    {pre post : List (Nat × UInt8)} (hold : (inorder s.root).map idt = pre ++ post)
    (hnew : (inorder root').map idt = pre ++ (s.fresh, 0) :: post) :
    EpochInv { s with root := root', num := num', fresh := s.fresh + 1 } := by
  have hmem : ∀ e' ∈ inorder root', (e'.id = s.fresh ∧ e'.tid = 0) ∨
      ∃ e ∈ inorder s.root, e'.id = e.id ∧ e'.tid = e.tid := by
    intro e' he'
    have h1 : idt e' ∈ pre ++ (s.fresh, 0) :: post := by
      rw [← hnew]; exact List.mem_map.mpr ⟨e', he', rfl⟩
    simp only [List.mem_append, List.mem_cons] at h1
    have hold' : ∀ p, p ∈ pre ∨ p ∈ post → ∃ e ∈ inorder s.root, idt e = p := by
      intro p hp
      have : p ∈ (inorder s.root).map idt := by rw [hold]; simpa using hp
      obtain ⟨e, he, hee⟩ := List.mem_map.mp this
      exact ⟨e, he, hee⟩
    rcases h1 with h1 | h1 | h1
    · obtain ⟨e, he, hee⟩ := hold' _ (Or.inl h1)
      simp only [idt, Prod.mk.injEq] at hee
      exact Or.inr ⟨e, he, hee.1.symm, hee.2.symm⟩
    · simp only [idt, Prod.mk.injEq] at h1
      exact Or.inl h1
    · obtain ⟨e, he, hee⟩ := hold' _ (Or.inr h1)
      simp only [idt, Prod.mk.injEq] at hee
      exact Or.inr ⟨e, he, hee.1.symm, hee.2.symm⟩
  refine ⟨h.pos, ?_, ?_, ?_⟩
  · intro e' he'
    show e'.tid ≤ s.tid
    rcases hmem e' he' with ⟨_, h2⟩ | ⟨e, he, _, h2⟩
    · rw [h2, UInt8.le_iff_toNat_le]; simp
    · rw [h2]; exact h.le e he
  · have hids : ids root' = pre.map Prod.fst ++ s.fresh :: post.map Prod.fst := by
      have := congrArg (List.map Prod.fst) hnew
      simpa [ids, idt, List.map_map, Function.comp_def] using this
    have hids0 : ids s.root = pre.map Prod.fst ++ post.map Prod.fst := by
      have := congrArg (List.map Prod.fst) hold
      simpa [ids, idt, List.map_map, Function.comp_def] using this
    have hd := h.distinct
    unfold DistinctIds at hd ⊢
    rw [hids0] at hd
    rw [hids]
    have hnot : s.fresh ∉ pre.map Prod.fst ++ post.map Prod.fst := by
      rw [← hids0]
      intro hin
      obtain ⟨e, he, hee⟩ := List.mem_map.mp hin
      have := h.fresh e he
      omega
    rw [List.nodup_append] at hd ⊢
    simp only [List.mem_append, not_or] at hnot
    refine ⟨hd.1, List.nodup_cons.mpr ⟨hnot.2, hd.2.1⟩, ?_⟩
    intro a ha b hb
    simp only [List.mem_cons] at hb
    rcases hb with rfl | hb
    · intro hab; subst hab; exact hnot.1 ha
    · exact hd.2.2 a ha b hb
  · intro e' he'
    show e'.id < s.fresh + 1
    rcases hmem e' he' with ⟨h1, _⟩ | ⟨e, he, h1, _⟩
    · omega
    · have := h.fresh e he; omega

/-! ### the table operations -/

section ops
variable (cmp : K → K → Ordering)

theorem putobj_epoch {s : Tbl K V} (h : EpochInv s) (isEmpty : V → Bool) {k : K} {v : V} {s' : Tbl K V} {b}
    (hp : s.putobj cmp isEmpty k v = .ok (s', b)) : EpochInv s' := by
  unfold Tbl.putobj at hp
  obtain ⟨p, h1, h2⟩ := bind_eq_ok hp
  obtain ⟨root, added⟩ := p
  simp only [T.pure_eq_ok, Except.ok.injEq, Prod.mk.injEq] at h2
  obtain ⟨rfl, _⟩ := h2
  have hrel := put_insRel cmp keyOf _ _ _ _ _ _ h1
  rcases hrel with ⟨hb, pre, post, hxs, hys⟩ | ⟨hb, pre, a, post, hxs, hys⟩
  · simp only at hb hys
    subst hb
    have := h.of_insert (root' := root.blacken) (s.num + 1) (pre := pre.map idt) (post := post.map idt)
      (by rw [hxs]; simp) (by simp [hys, idt])
    simpa using this
  · simp only at hb hys
    subst hb
    have := h.of_sublist (root' := root.blacken) s.num (by
      rw [hxs]; simp only [inorder_blacken, hys]
      have : idt (if isEmpty v = true then a else { a with val := v }) = idt a := by
        split <;> rfl
      simp [this])
    simpa using this

theorem removeobj_epoch {s : Tbl K V} (h : EpochInv s) {k : K} {s' : Tbl K V} {b}
    (hr : s.removeobj cmp k = .ok (s', b)) : EpochInv s' := by
  unfold Tbl.removeobj at hr
  obtain ⟨p, h1, h2⟩ := bind_eq_ok hr
  obtain ⟨root, enoent⟩ := p
  simp only [T.pure_eq_ok, Except.ok.injEq, Prod.mk.injEq] at h2
  obtain ⟨rfl, _⟩ := h2
  have hsub := remove_sublist cmp keyOf copyKV idt (fun _ _ => rfl) k _ _ _ h1
  exact h.of_sublist _ (by simpa using hsub)

theorem clear_epoch {s : Tbl K V} (h : EpochInv s) : EpochInv s.clear :=
  h.of_sublist (root' := .nil) 0 (by simp)

end ops

/-- under the search-tree order the sequence a walk returns is strictly ascending -/
theorem kvs_sorted {cmp : K → K → Ordering} {t : T (Entry K V)} (ho : Ordered cmp keyOf t) :
    (kvs t).Pairwise (fun a b => cmp a.1 b.1 = .lt) := by
  unfold kvs
  rw [List.pairwise_map]
  exact ho

/-! ### histories -/

/-- at most `j` calls of `getnext`, the cursor being passed along (a walk that may be abandoned) -/
def walkN : Nat → Tbl K V → Cur → Except Fault (Tbl K V)
  | 0, s, _ => .ok s
  | j + 1, s, cur =>
    match s.getnext cur with
    | .error f => .error f
    | .ok (s', .done) => .ok s'
    | .ok (s', .item _ _ c) => walkN j s' c

theorem walkN_epoch : ∀ (j : Nat) (s : Tbl K V) (cur : Cur) (s' : Tbl K V), EpochInv s →
    (cur.next = none ∨ cur.tid ≤ s.tid) → walkN j s cur = .ok s' → EpochInv s' := by
  intro j
  induction j with
  | zero => intro s cur s' h _ hw; simp [walkN] at hw; subst hw; exact h
  | succ j ih =>
    intro s cur s' h hc hw
    simp only [walkN] at hw
    cases hg : s.getnext cur with
    | error f => simp [hg] at hw
    | ok p =>
      obtain ⟨s1, out⟩ := p
      obtain ⟨h1, _, _, _, h5, _⟩ := getnext_epoch h hc hg
      cases out with
      | done => simp [hg] at hw; subst hw; exact h1
      | item k v c =>
        simp only [hg] at hw
        exact ih s1 c s' h1 (Or.inr (h5 k v c rfl).1) hw

/-- a prefix of a walk that completes does not fault -/
theorem walkN_ok : ∀ (j n : Nat) (s : Tbl K V) (cur : Cur) xs s', walkFrom n s cur = .ok (xs, s') →
    ∃ s'', walkN j s cur = .ok s'' := by
  intro j
  induction j with
  | zero => intro n s cur xs s' _; exact ⟨s, rfl⟩
  | succ j ih =>
    intro n s cur xs s' hw
    cases n with
    | zero => simp [walkFrom] at hw
    | succ n =>
      simp only [walkFrom] at hw
      simp only [walkN]
      cases hg : s.getnext cur with
      | error f => simp [hg] at hw
      | ok p =>
        obtain ⟨s1, out⟩ := p
        cases out with
        | done => exact ⟨s1, rfl⟩
        | item k v c =>
          simp only [hg] at hw
          cases hw1 : walkFrom n s1 c with
          | error f => simp [hw1] at hw
          | ok q => exact ih n s1 c q.1 q.2 hw1

/-- the operations of a history -/
inductive WOp (K V : Type) where
  | put (k : K) (v : V)
  | remove (k : K)
  | clear
  | walk                          -- a complete walk from a zero-initialised cursor
  | abandon (j : Nat)             -- a walk from a zero-initialised cursor, abandoned after `j` calls
  | nearest (k : K) (j : Nat)     -- `find_nearest`, then `j` calls of `getnext` from the returned cursor

section run
variable (cmp : K → K → Ordering) (isEmpty : V → Bool)

def runWOp (s : Tbl K V) : WOp K V → Except Fault (Tbl K V)
  | .put k v => (s.putobj cmp isEmpty k v).map (·.1)
  | .remove k => (s.removeobj cmp k).map (·.1)
  | .clear => .ok s.clear
  | .walk => (walkFrom (s.root.size + 2) s {}).map (·.2)
  | .abandon j => walkN j s {}
  | .nearest k j =>
    match s.findNearest cmp k with
    | .error f => .error f
    | .ok (s', none) => .ok s'
    | .ok (s', some (_, _, c)) => walkN j s' c

def runW : Tbl K V → List (WOp K V) → Except Fault (Tbl K V)
  | s, [] => .ok s
  | s, op :: ops =>
    match runWOp cmp isEmpty s op with
    | .error f => .error f
    | .ok s' => runW s' ops

theorem map_eq_ok {β γ : Type} {x : Except Fault β} {f : β → γ} {r : γ} (h : x.map f = .ok r) :
    ∃ a, x = .ok a ∧ f a = r := by
  cases x with
  | error e => simp [Except.map] at h
  | ok a => exact ⟨a, rfl, by simpa [Except.map] using h⟩

/-- `epoch_inv_step`: every table operation keeps the epoch invariant — insertion, removal,
    clear, a complete walk, a walk abandoned after any number of calls, a nearest-key search with
    any number of continuation calls -/
theorem epoch_inv_step {s s' : Tbl K V} (h : EpochInv s) (op : WOp K V)
    (hr : runWOp cmp isEmpty s op = .ok s') : EpochInv s' := by
  cases op with
  | put k v =>
    obtain ⟨p, h1, rfl⟩ := map_eq_ok hr
    exact putobj_epoch cmp h isEmpty (b := p.2) h1
  | remove k =>
    obtain ⟨p, h1, rfl⟩ := map_eq_ok hr
    exact removeobj_epoch cmp h (b := p.2) h1
  | clear => simp only [runWOp, Except.ok.injEq] at hr; subst hr; exact clear_epoch h
  | walk =>
    obtain ⟨p, h1, rfl⟩ := map_eq_ok hr
    exact (walkFrom_epoch _ s {} p.1 p.2 h (Or.inl rfl) h1).1
  | abandon j => exact walkN_epoch j s {} s' h (Or.inl rfl) hr
  | nearest k j =>
    simp only [runWOp] at hr
    cases hf : s.findNearest cmp k with
    | error f => simp [hf] at hr
    | ok p =>
      obtain ⟨s1, r⟩ := p
      obtain ⟨h1, _, _, _, _, h6⟩ := nearest_epoch cmp h hf
      cases r with
      | none => simp [hf] at hr; subst hr; exact h1
      | some q =>
        obtain ⟨k', v, c⟩ := q
        simp only [hf] at hr
        exact walkN_epoch j s1 c s' h1 (Or.inr (h6 k' v c rfl).1) hr

/-- the walk operations of a history never fault under the invariant -/
theorem runWOp_walk_ok {s : Tbl K V} (h : EpochInv s) : ∃ s', runWOp cmp isEmpty s .walk = .ok s' := by
  obtain ⟨s', hw, _⟩ := walk_complete h 0
  exact ⟨s', by simp [runWOp, hw, Except.map]⟩

theorem runWOp_abandon_ok {s : Tbl K V} (h : EpochInv s) (j : Nat) :
    ∃ s', runWOp cmp isEmpty s (.abandon j) = .ok s' := by
  obtain ⟨s', hw, _⟩ := walk_complete h 0
  exact walkN_ok j _ s {} _ s' hw

/-- a search with continuation calls does not fault when no walk has been left unfinished -/
theorem runWOp_nearest_ok {s : Tbl K V} (h : EpochInv s) (hq : Quiescent s) (k : K) (j : Nat) :
    ∃ s', runWOp cmp isEmpty s (.nearest k j) = .ok s' := by
  obtain ⟨s1, r, hf, _⟩ := nearest_total cmp s k h.distinct
  simp only [runWOp, hf]
  cases r with
  | none => exact ⟨s1, rfl⟩
  | some q =>
    obtain ⟨k', v, c⟩ := q
    obtain ⟨xs, s2, hw, _⟩ := nearest_then_walk cmp h hq hf 0
    exact walkN_ok j _ s1 c xs s2 hw

/-- `epoch_inv_reachable`: the invariant holds after every history -/
theorem epoch_inv_reachable : ∀ (ops : List (WOp K V)) (s s' : Tbl K V), EpochInv s →
    runW cmp isEmpty s ops = .ok s' → EpochInv s'
  | [], s, s', h, hr => by simp only [runW, Except.ok.injEq] at hr; subst hr; exact h
  | op :: ops, s, s', h, hr => by
    simp only [runW] at hr
    cases h1 : runWOp cmp isEmpty s op with
    | error f => simp [h1] at hr
    | ok s1 =>
      simp only [h1] at hr
      exact epoch_inv_reachable ops s1 s' (epoch_inv_step cmp isEmpty h op h1) hr

/-- `traversal_any_history`: after any history of insertions, removals, clears, complete walks,
    abandoned walks and nearest-key searches with continuation calls (starting from the empty
    table), a walk from a zero-initialised cursor with the table unmodified returns every stored
    key exactly once with its current value, in in-order sequence, and then reports the end. It
    does not fault; the tree keeps its shape, keys and values. -/
theorem traversal_any_history (ops : List (WOp K V)) {s : Tbl K V}
    (hr : runW cmp isEmpty Tbl.init ops = .ok s) (n : Nat) :
    ∃ s', walkFrom (s.root.size + 2 + n) s {} = .ok (kvs s.root, s') ∧
      EpochInv s' ∧ Quiescent s' ∧ Upd Skel s.root s'.root ∧ s'.num = s.num ∧ s'.fresh = s.fresh :=
  walk_complete (epoch_inv_reachable cmp isEmpty ops _ s epochInv_init hr) n

end run

/-! ### a concrete comparator and table (for non-vacuity examples) -/

theorem cmpOk_nat : CmpOk (compare : Nat → Nat → Ordering) where
  refl a := by simp
  swap a b := by rw [Nat.compare_swap]
  lt_trans h1 h2 := by rw [Nat.compare_eq_lt] at *; omega
  eq_lt h1 h2 := by rw [Nat.compare_eq_eq] at h1; rw [Nat.compare_eq_lt] at *; omega
  lt_eq h1 h2 := by rw [Nat.compare_eq_eq] at h2; rw [Nat.compare_eq_lt] at *; omega
  eq_trans h1 h2 := by rw [Nat.compare_eq_eq] at *; omega

/-- a concrete table for the non-vacuity examples: after put 2, put 1, put 3, put 7 -/
def demo : Tbl Nat Nat :=
  match runW compare (fun _ => false) Tbl.init [.put 2 20, .put 1 10, .put 3 30, .put 7 70] with
  | .ok s => s
  | .error _ => Tbl.init

end Qlibc.Tree

/-
  Insertion preserves the 2-3-4 left-leaning red-black invariant (and never faults).
-/
import QlibcModel.Tree.Inv

namespace Qlibc.Tree
open Qlibc
namespace T
variable {α : Type}

def four (t : T α) : Bool := isRed (left t) && isRed (right t)

/-- result classes of `put_obj` on a subtree `tin` whose root colour is `cin` -/
inductive PutPost : (tin : T α) → (cin : Bool) → T α → Nat → Prop
  | blackStays {t t' n} : four t = false → Bal t' false n → PutPost t false t' n
  | fromNil {t t' n} : t = nil → Bal t' true n → PutPost t false t' n
  | fromFour {t t' n} : four t = true → Bal t' true n → PutPost t false t' n
  | redOk {t t' n} : Bal t' true n → PutPost t true t' n
  | redInfra {t t' n} : Infra t' n → PutPost t true t' n

theorem putUp_black_ok {l r : T α} {a cl cr n} (hl : Bal l cl n) (hr : Bal r cr n)
    (h : cr = true → cl = true) :
    ∃ t', putUp (node l a false r) = .ok t' ∧ Bal t' false (n + 1) := by
  have e1 := hl.isRed_eq; have e2 := hr.isRed_eq
  cases cl <;> cases cr <;> simp_all [putUp, putUp1, fixL]
  · exact Bal.black hl hr (by simp)
  · cases hl with
    | red hll hlr =>
      have := hll.isRed_eq
      simp_all
      exact Bal.black (Bal.red hll hlr) hr (by simp)
  · cases hl with
    | red hll hlr =>
      have := hll.isRed_eq
      simp_all
      exact Bal.black (Bal.red hll hlr) hr (by simp)

theorem putUp_black_rightRed {l r : T α} {a n} (hl : Bal l false n) (hr : Bal r true n) :
    ∃ t', putUp (node l a false r) = .ok t' ∧ Bal t' false (n + 1) := by
  have e1 := hl.isRed_eq
  cases hr with
  | red hrl hrr =>
    have := hrl.isRed_eq
    simp_all [putUp, putUp1, fixL]
    exact Bal.black (Bal.red hl hrl) hrr (by simp)

theorem putUp_black_infra {l r : T α} {a n} (hl : Infra l n) (hr : Bal r false n) :
    ∃ t', putUp (node l a false r) = .ok t' ∧ Bal t' false (n + 1) := by
  have e2 := hr.isRed_eq
  cases hl with
  | mk hll hlr =>
    have := hlr.isRed_eq
    simp_all [putUp, putUp1, fixL]
    exact Bal.black hll (Bal.red hlr hr) (by simp)

theorem putUp_red_ok {l r : T α} {a n} (hl : Bal l false n) (hr : Bal r false n) :
    ∃ t', putUp (node l a true r) = .ok t' ∧ Bal t' true n := by
  have e1 := hl.isRed_eq; have e2 := hr.isRed_eq
  simp_all [putUp, putUp1, fixL]
  exact Bal.red hl hr

theorem putUp_red_leftRed {l r : T α} {a n} (hl : Bal l true n) (hr : Bal r false n) :
    ∃ t', putUp (node l a true r) = .ok t' ∧ Infra t' n := by
  have e2 := hr.isRed_eq
  cases hl with
  | red hll hlr =>
    have := hll.isRed_eq
    simp_all [putUp, putUp1, fixL]
    exact Infra.mk (Bal.red hll hlr) hr

theorem putUp_red_rightRed {l r : T α} {a n} (hl : Bal l false n) (hr : Bal r true n) :
    ∃ t', putUp (node l a true r) = .ok t' ∧ Infra t' n := by
  have e1 := hl.isRed_eq
  cases hr with
  | red hrl hrr =>
    have := hrl.isRed_eq
    simp_all [putUp, putUp1, fixL]
    exact Infra.mk (Bal.red hl hrl) hrr

theorem four_blacken {t : T α} {n} (h : Bal t true n) : four (blacken t) = false := by
  cases h with
  | red hl hr => have := hl.isRed_eq; simp [four, this]

section
variable {K : Type} (cmp : K → K → Ordering) (key : α → K) (k : K) (mk : Option α) (onDup : α → α)

theorem put_nil_some (fuel : Nat) (new : α) :
    put cmp key k (some new) onDup (fuel + 1) (nil : T α) = .ok (node nil new true nil, true) := by
  simp [put]

theorem put_nil_none (fuel : Nat) :
    put cmp key k none onDup (fuel + 1) (nil : T α) = .ok (nil, false) := by
  simp [put]

/-- `put_obj` on a node that is not a 4-node -/
theorem put_ns_eq (fuel : Nat) (l : T α) (a c r) (h : (isRed l && isRed r) = false)
    (hc : cmp k (key a) = .eq) :
    put cmp key k mk onDup (fuel + 1) (node l a c r) =
      (putUp (node l (onDup a) c r) >>= fun t => .ok (t, false)) := by
  simp [put, splitFour, h, hc]

theorem put_ns_lt (fuel : Nat) (l : T α) (a c r) (h : (isRed l && isRed r) = false)
    (hc : cmp k (key a) = .lt) :
    put cmp key k mk onDup (fuel + 1) (node l a c r) =
      (put cmp key k mk onDup fuel l >>= fun p => putUp (node p.1 a c r) >>= fun t => .ok (t, p.2)) := by
  simp [put, splitFour, h, hc]

theorem put_ns_gt (fuel : Nat) (l : T α) (a c r) (h : (isRed l && isRed r) = false)
    (hc : cmp k (key a) = .gt) :
    put cmp key k mk onDup (fuel + 1) (node l a c r) =
      (put cmp key k mk onDup fuel r >>= fun p => putUp (node l a c p.1) >>= fun t => .ok (t, p.2)) := by
  simp [put, splitFour, h, hc]

/-- `put_obj` on a 4-node: the colours are flipped on the way down -/
theorem put_sp_eq (fuel : Nat) (ll : T α) (la lr a c rl ra rr) (hc : cmp k (key a) = .eq) :
    put cmp key k mk onDup (fuel + 1) (node (node ll la true lr) a c (node rl ra true rr)) =
      (putUp (node (node ll la false lr) (onDup a) (!c) (node rl ra false rr)) >>= fun t => .ok (t, false)) := by
  simp [put, splitFour, hc]

theorem put_sp_lt (fuel : Nat) (ll : T α) (la lr a c rl ra rr) (hc : cmp k (key a) = .lt) :
    put cmp key k mk onDup (fuel + 1) (node (node ll la true lr) a c (node rl ra true rr)) =
      (put cmp key k mk onDup fuel (node ll la false lr) >>= fun p =>
         putUp (node p.1 a (!c) (node rl ra false rr)) >>= fun t => .ok (t, p.2)) := by
  simp [put, splitFour, hc]

theorem put_sp_gt (fuel : Nat) (ll : T α) (la lr a c rl ra rr) (hc : cmp k (key a) = .gt) :
    put cmp key k mk onDup (fuel + 1) (node (node ll la true lr) a c (node rl ra true rr)) =
      (put cmp key k mk onDup fuel (node rl ra false rr) >>= fun p =>
         putUp (node (node ll la false lr) a (!c) p.1) >>= fun t => .ok (t, p.2)) := by
  simp [put, splitFour, hc]

/-- lifting a fix-up result through the tail of `put_obj` -/
theorem fin {x : Except Fault (T α)} {b : Bool} {tin : T α} {cin : Bool} {n : Nat} {Q : T α → Prop}
    (h : ∃ t', x = .ok t' ∧ Q t') (k : ∀ t', Q t' → PutPost tin cin t' n) :
    ∃ t' added, (x >>= fun t => .ok (t, b)) = .ok (t', added) ∧ PutPost tin cin t' n := by
  obtain ⟨t', hx, hp⟩ := h
  exact ⟨t', b, by simp [hx], k t' hp⟩

theorem put_post : ∀ (fuel : Nat) (t : T α) (c : Bool) (n : Nat), size t < fuel → Bal t c n →
    ∃ t' added, put cmp key k mk onDup fuel t = .ok (t', added) ∧ PutPost t c t' n := by
  intro fuel
  induction fuel with
  | zero => intro t c n h; omega
  | succ fuel ih =>
    intro t c n hsz hb
    cases hb with
    | nil =>
      cases mk with
      | some new => exact ⟨_, _, put_nil_some cmp key k onDup fuel new, .fromNil rfl (.red .nil .nil)⟩
      | none => exact ⟨_, _, put_nil_none cmp key k onDup fuel, .blackStays (by simp [four]) .nil⟩
    | @red l r a n hl hr =>
      have e1 := hl.isRed_eq; have e2 := hr.isRed_eq
      have hszl : size l < fuel := by simp at hsz; omega
      have hszr : size r < fuel := by simp at hsz; omega
      have hns : (isRed l && isRed r) = false := by simp [e1]
      cases hc : cmp k (key a) with
      | eq =>
        rw [put_ns_eq cmp key k mk onDup fuel l a true r hns hc]
        obtain ⟨t', h1, h2⟩ := putUp_red_ok (a := onDup a) hl hr
        exact ⟨t', false, by simp [h1], .redOk h2⟩
      | lt =>
        rw [put_ns_lt cmp key k mk onDup fuel l a true r hns hc]
        obtain ⟨l2, ad, h1, h2⟩ := ih l false n hszl hl
        simp only [h1, ok_bind]
        cases h2 with
        | blackStays _ hb2 => exact fin (putUp_red_ok (a := a) hb2 hr) (fun _ h4 => .redOk h4)
        | fromNil _ hb2 => exact fin (putUp_red_leftRed (a := a) hb2 hr) (fun _ h4 => .redInfra h4)
        | fromFour _ hb2 => exact fin (putUp_red_leftRed (a := a) hb2 hr) (fun _ h4 => .redInfra h4)
      | gt =>
        rw [put_ns_gt cmp key k mk onDup fuel l a true r hns hc]
        obtain ⟨r2, ad, h1, h2⟩ := ih r false n hszr hr
        simp only [h1, ok_bind]
        cases h2 with
        | blackStays _ hb2 => exact fin (putUp_red_ok (a := a) hl hb2) (fun _ h4 => .redOk h4)
        | fromNil _ hb2 => exact fin (putUp_red_rightRed (a := a) hl hb2) (fun _ h4 => .redInfra h4)
        | fromFour _ hb2 => exact fin (putUp_red_rightRed (a := a) hl hb2) (fun _ h4 => .redInfra h4)
    | @black l r a cl cr m hl hr hlean =>
      have e1 := hl.isRed_eq; have e2 := hr.isRed_eq
      have hszl : size l < fuel := by simp at hsz; omega
      have hszr : size r < fuel := by simp at hsz; omega
      have hne : node l a false r ≠ nil := by simp
      cases cl <;> cases cr
      · -- 2-node
        have hf : four (node l a false r) = false := by simp [four, e1]
        have hns : (isRed l && isRed r) = false := by simp [e1]
        cases hc : cmp k (key a) with
        | eq =>
          rw [put_ns_eq cmp key k mk onDup fuel l a false r hns hc]
          obtain ⟨t', h1, h2⟩ := putUp_black_ok (a := onDup a) hl hr (by simp)
          exact ⟨t', false, by simp [h1], .blackStays hf h2⟩
        | lt =>
          rw [put_ns_lt cmp key k mk onDup fuel l a false r hns hc]
          obtain ⟨l2, ad, h1, h2⟩ := ih l false m hszl hl
          simp only [h1, ok_bind]
          cases h2 with
          | blackStays _ hb2 => exact fin (putUp_black_ok (a := a) hb2 hr (by simp)) (fun _ h4 => .blackStays hf h4)
          | fromNil _ hb2 => exact fin (putUp_black_ok (a := a) hb2 hr (by simp)) (fun _ h4 => .blackStays hf h4)
          | fromFour _ hb2 => exact fin (putUp_black_ok (a := a) hb2 hr (by simp)) (fun _ h4 => .blackStays hf h4)
        | gt =>
          rw [put_ns_gt cmp key k mk onDup fuel l a false r hns hc]
          obtain ⟨r2, ad, h1, h2⟩ := ih r false m hszr hr
          simp only [h1, ok_bind]
          cases h2 with
          | blackStays _ hb2 => exact fin (putUp_black_ok (a := a) hl hb2 (by simp)) (fun _ h4 => .blackStays hf h4)
          | fromNil _ hb2 => exact fin (putUp_black_rightRed (a := a) hl hb2) (fun _ h4 => .blackStays hf h4)
          | fromFour _ hb2 => exact fin (putUp_black_rightRed (a := a) hl hb2) (fun _ h4 => .blackStays hf h4)
      · simp at hlean
      · -- 3-node (left red)
        have hf : four (node l a false r) = false := by simp [four, e2]
        have hns : (isRed l && isRed r) = false := by simp [e2]
        cases hc : cmp k (key a) with
        | eq =>
          rw [put_ns_eq cmp key k mk onDup fuel l a false r hns hc]
          obtain ⟨t', h1, h2⟩ := putUp_black_ok (a := onDup a) hl hr (by simp)
          exact ⟨t', false, by simp [h1], .blackStays hf h2⟩
        | lt =>
          rw [put_ns_lt cmp key k mk onDup fuel l a false r hns hc]
          obtain ⟨l2, ad, h1, h2⟩ := ih l true m hszl hl
          simp only [h1, ok_bind]
          cases h2 with
          | redOk hb2 => exact fin (putUp_black_ok (a := a) hb2 hr (by simp)) (fun _ h4 => .blackStays hf h4)
          | redInfra hb2 => exact fin (putUp_black_infra (a := a) hb2 hr) (fun _ h4 => .blackStays hf h4)
        | gt =>
          rw [put_ns_gt cmp key k mk onDup fuel l a false r hns hc]
          obtain ⟨r2, ad, h1, h2⟩ := ih r false m hszr hr
          simp only [h1, ok_bind]
          cases h2 with
          | blackStays _ hb2 => exact fin (putUp_black_ok (a := a) hl hb2 (by simp)) (fun _ h4 => .blackStays hf h4)
          | fromNil _ hb2 => exact fin (putUp_black_ok (a := a) hl hb2 (by simp)) (fun _ h4 => .blackStays hf h4)
          | fromFour _ hb2 => exact fin (putUp_black_ok (a := a) hl hb2 (by simp)) (fun _ h4 => .blackStays hf h4)
      · -- 4-node: split on the way down
        cases hl with
        | @red ll lr la _ hll hlr =>
        cases hr with
        | @red rl rr ra _ hrl hrr =>
        have hf : four (node (node ll la true lr) a false (node rl ra true rr)) = true := by simp [four]
        have hbl : Bal (node ll la false lr) false (m + 1) := Bal.black hll hlr (by simp)
        have hbr : Bal (node rl ra false rr) false (m + 1) := Bal.black hrl hrr (by simp)
        cases hc : cmp k (key a) with
        | eq =>
          rw [put_sp_eq cmp key k mk onDup fuel _ _ _ _ _ _ _ _ hc]
          obtain ⟨t', h1, h2⟩ := putUp_red_ok (a := onDup a) hbl hbr
          exact ⟨t', false, by simp [h1], .fromFour hf h2⟩
        | lt =>
          rw [put_sp_lt cmp key k mk onDup fuel _ _ _ _ _ _ _ _ hc]
          obtain ⟨l2, ad, h1, h2⟩ := ih (node ll la false lr) false (m + 1) (by simpa using hszl) hbl
          simp only [h1, ok_bind, Bool.not_false]
          cases h2 with
          | blackStays _ hb2 => exact fin (putUp_red_ok (a := a) hb2 hbr) (fun _ h4 => .fromFour hf h4)
          | fromNil hn _ => simp at hn
          | fromFour hf' _ =>
            have e3 := hll.isRed_eq
            simp [four, e3] at hf'
        | gt =>
          rw [put_sp_gt cmp key k mk onDup fuel _ _ _ _ _ _ _ _ hc]
          obtain ⟨r2, ad, h1, h2⟩ := ih (node rl ra false rr) false (m + 1) (by simpa using hszr) hbr
          simp only [h1, ok_bind, Bool.not_false]
          cases h2 with
          | blackStays _ hb2 => exact fin (putUp_red_ok (a := a) hbl hb2) (fun _ h4 => .fromFour hf h4)
          | fromNil hn _ => simp at hn
          | fromFour hf' _ =>
            have e3 := hrl.isRed_eq
            simp [four, e3] at hf'

/-- `qtreetbl_putobj`: inserting into a valid tree gives a valid tree (root blackened) -/
theorem put_llrb (t : T α) (h : LLRB t) :
    ∃ t' added, put cmp key k mk onDup (size t + 1) t = .ok (t', added) ∧ LLRB (blacken t') := by
  obtain ⟨n, hb⟩ := h
  obtain ⟨t', added, h1, h2⟩ := put_post cmp key k mk onDup (size t + 1) t false n (by omega) hb
  refine ⟨t', added, h1, ?_⟩
  cases h2 with
  | blackStays _ hb2 => exact ⟨_, hb2.blacken_black⟩
  | fromNil _ hb2 => exact ⟨_, hb2.blacken_red⟩
  | fromFour _ hb2 => exact ⟨_, hb2.blacken_red⟩

end

end T
end Qlibc.Tree

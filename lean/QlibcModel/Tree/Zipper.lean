/-
  Infrastructure for reasoning about the two pointer machines of the tree table
  (`getnextLoop`, `nearestDown`/`nearestUp`):

  * `ids`, `DistinctIds`: node identifiers and their uniqueness; `lookup`/`modify` by identifier
  * one-hole contexts (`Frame`, `plug`): the path from the root to the cursor, innermost frame
    first; `lookup`/`modify` commute with `plug` when identifiers are distinct
  * `PathOk`: the chain of parent pointers (`next`) along the path, ending in `none` at the root
  * `Upd P`: "same shape and colours, payloads related by `P`" — what a pointer machine may
    change in the tree
-/
import QlibcModel.Tree.Table
import QlibcModel.Tree.Basic

namespace Qlibc.Tree
open Qlibc T

variable {K V : Type}

/-! ### identifiers -/

def ids (t : T (Entry K V)) : List Nat := (inorder t).map (·.id)

/-- node identifiers are pairwise distinct -/
def DistinctIds (t : T (Entry K V)) : Prop := (ids t).Nodup

@[simp] theorem ids_nil : ids (.nil : T (Entry K V)) = [] := rfl
@[simp] theorem ids_node (l : T (Entry K V)) (a c r) :
    ids (.node l a c r) = ids l ++ a.id :: ids r := by simp [ids]

theorem mem_ids {t : T (Entry K V)} {e : Entry K V} (h : e ∈ inorder t) : e.id ∈ ids t :=
  List.mem_map.mpr ⟨e, h, rfl⟩

theorem lookup_none {i : Nat} : ∀ {t : T (Entry K V)}, i ∉ ids t → lookup i t = none
  | .nil, _ => rfl
  | .node l a c r, h => by
    simp only [ids_node, List.mem_append, List.mem_cons, not_or] at h
    simp only [lookup]
    rw [if_neg (fun e => h.2.1 e.symm), lookup_none h.1, lookup_none h.2.2]

theorem lookup_root (l : T (Entry K V)) (a c r) : lookup a.id (.node l a c r) = some (.node l a c r) := by
  simp [lookup]

theorem modify_none {i : Nat} (g : Entry K V → Entry K V) :
    ∀ {t : T (Entry K V)}, i ∉ ids t → modify i g t = t
  | .nil, _ => rfl
  | .node l a c r, h => by
    simp only [ids_node, List.mem_append, List.mem_cons, not_or] at h
    simp only [modify]
    rw [if_neg (fun e => h.2.1 e.symm), modify_none g h.1, modify_none g h.2.2]

theorem modify_root (g : Entry K V → Entry K V) (l : T (Entry K V)) (a c r) :
    modify a.id g (.node l a c r) = .node l (g a) c r := by
  simp [modify]

/-! ### one-hole contexts -/

inductive Frame (K V : Type) where
  | L (y : Entry K V) (c : Bool) (sib : T (Entry K V))   -- the hole is the left child of `y`
  | R (sib : T (Entry K V)) (y : Entry K V) (c : Bool)   -- the hole is the right child of `y`

namespace Frame
def y : Frame K V → Entry K V
  | .L y _ _ => y
  | .R _ y _ => y
def sib : Frame K V → T (Entry K V)
  | .L _ _ s => s
  | .R s _ _ => s
def fill : Frame K V → T (Entry K V) → T (Entry K V)
  | .L y c s, t => .node t y c s
  | .R s y c, t => .node s y c t
@[simp] theorem y_L (y : Entry K V) (c s) : (Frame.L y c s).y = y := rfl
@[simp] theorem y_R (y : Entry K V) (c s) : (Frame.R s y c).y = y := rfl
@[simp] theorem sib_L (y : Entry K V) (c s) : (Frame.L y c s).sib = s := rfl
@[simp] theorem sib_R (y : Entry K V) (c s) : (Frame.R s y c).sib = s := rfl
@[simp] theorem fill_L (y : Entry K V) (c s t) : (Frame.L y c s).fill t = .node t y c s := rfl
@[simp] theorem fill_R (y : Entry K V) (c s t) : (Frame.R s y c).fill t = .node s y c t := rfl
end Frame

/-- put `t` into the hole of the context `fs` (innermost frame first) -/
def plug : List (Frame K V) → T (Entry K V) → T (Entry K V)
  | [], t => t
  | f :: fs, t => plug fs (f.fill t)

@[simp] theorem plug_nil (t : T (Entry K V)) : plug [] t = t := rfl
theorem plug_cons (f : Frame K V) (fs t) : plug (f :: fs) t = plug fs (f.fill t) := rfl

/-- identifiers of the context -/
def fids : List (Frame K V) → List Nat
  | [] => []
  | f :: fs => f.y.id :: ids f.sib ++ fids fs

/-- number of nodes of the context -/
def fsize : List (Frame K V) → Nat
  | [] => 0
  | f :: fs => 1 + size f.sib + fsize fs

theorem ids_fill_perm (f : Frame K V) (t) : (ids (f.fill t)).Perm (ids t ++ (f.y.id :: ids f.sib)) := by
  cases f with
  | L y c s => simp
  | R s y c =>
    simp only [Frame.fill_R, ids_node, Frame.y_R, Frame.sib_R]
    exact (List.perm_append_comm (l₁ := ids s) (l₂ := y.id :: ids t)).trans
      (by simpa using (List.perm_middle (a := y.id) (l₁ := ids t) (l₂ := ids s)).symm)

theorem ids_plug_perm : ∀ (fs : List (Frame K V)) (t), (ids (plug fs t)).Perm (ids t ++ fids fs)
  | [], t => by simp [fids]
  | f :: fs, t => by
    refine (ids_plug_perm fs (f.fill t)).trans ?_
    refine ((ids_fill_perm f t).append_right (fids fs)).trans ?_
    simp [fids]

theorem distinct_plug_iff {fs : List (Frame K V)} {t} :
    DistinctIds (plug fs t) ↔ (ids t ++ fids fs).Nodup :=
  (ids_plug_perm fs t).nodup_iff

theorem distinct_plug_congr {fs : List (Frame K V)} {t t'} (h : ids t' = ids t) :
    DistinctIds (plug fs t') ↔ DistinctIds (plug fs t) := by
  rw [distinct_plug_iff, distinct_plug_iff, h]

theorem DistinctIds.sub {fs : List (Frame K V)} {t} (h : DistinctIds (plug fs t)) : DistinctIds t :=
  (List.nodup_append.mp (distinct_plug_iff.mp h)).1

theorem DistinctIds.not_fids {fs : List (Frame K V)} {t} (h : DistinctIds (plug fs t)) {i : Nat}
    (hi : i ∈ ids t) : i ∉ fids fs :=
  fun hf => (List.nodup_append.mp (distinct_plug_iff.mp h)).2.2 i hi i hf rfl

theorem lookup_plug {i : Nat} : ∀ {fs : List (Frame K V)} {t u}, lookup i t = some u → i ∉ fids fs →
    lookup i (plug fs t) = some u
  | [], _, _, h, _ => h
  | f :: fs, t, u, h, hf => by
    simp only [fids, List.mem_cons, List.mem_append, not_or] at hf
    refine lookup_plug (fs := fs) ?_ hf.2
    cases f with
    | L y c s =>
      simp only [Frame.y_L, Frame.sib_L] at hf
      simp only [Frame.fill_L, lookup]
      rw [if_neg (fun e => hf.1.1 e.symm), h]
    | R s y c =>
      simp only [Frame.y_R, Frame.sib_R] at hf
      simp only [Frame.fill_R, lookup]
      rw [if_neg (fun e => hf.1.1 e.symm), lookup_none hf.1.2, h]

theorem modify_plug {i : Nat} (g : Entry K V → Entry K V) : ∀ {fs : List (Frame K V)} {t}, i ∉ fids fs →
    modify i g (plug fs t) = plug fs (modify i g t)
  | [], _, _ => rfl
  | f :: fs, t, hf => by
    simp only [fids, List.mem_cons, List.mem_append, not_or] at hf
    show modify i g (plug fs (f.fill t)) = plug fs (f.fill (modify i g t))
    rw [modify_plug g hf.2]
    congr 1
    cases f with
    | L y c s =>
      simp only [Frame.y_L, Frame.sib_L] at hf
      simp only [Frame.fill_L, modify]
      rw [if_neg (fun e => hf.1.1 e.symm), modify_none g hf.1.2]
    | R s y c =>
      simp only [Frame.y_R, Frame.sib_R] at hf
      simp only [Frame.fill_R, modify]
      rw [if_neg (fun e => hf.1.1 e.symm), modify_none g hf.1.2]

/-- the node in the hole is found by its identifier -/
theorem lookup_hole {fs : List (Frame K V)} {l a c r} (h : DistinctIds (plug fs (.node l a c r))) :
    lookup a.id (plug fs (.node l a c r)) = some (.node l a c r) :=
  lookup_plug (lookup_root l a c r) (h.not_fids (by simp))

/-- a write to the node in the hole -/
theorem modify_hole (g : Entry K V → Entry K V) {fs : List (Frame K V)} {l a c r}
    (h : DistinctIds (plug fs (.node l a c r))) :
    modify a.id g (plug fs (.node l a c r)) = plug fs (.node l (g a) c r) := by
  rw [modify_plug g (h.not_fids (by simp)), modify_root]

theorem size_plug : ∀ (fs : List (Frame K V)) (t), size (plug fs t) = size t + fsize fs
  | [], t => by simp [fsize]
  | f :: fs, t => by
    rw [plug_cons, size_plug fs]
    cases f <;> simp [fsize] <;> omega

theorem height_plug : ∀ (fs : List (Frame K V)) (t), fs.length + height t ≤ height (plug fs t)
  | [], t => by simp
  | f :: fs, t => by
    have := height_plug fs (f.fill t)
    rw [plug_cons]
    cases f <;> simp [Frame.fill, height] at this ⊢ <;> omega

theorem length_le_fsize : ∀ (fs : List (Frame K V)), fs.length ≤ fsize fs
  | [] => by simp [fsize]
  | f :: fs => by have := length_le_fsize fs; simp [fsize]; omega

/-- entries left / right of the hole, in order -/
def lctx : List (Frame K V) → List (Entry K V)
  | [] => []
  | .L _ _ _ :: fs => lctx fs
  | .R s y _ :: fs => lctx fs ++ (inorder s ++ [y])
def rctx : List (Frame K V) → List (Entry K V)
  | [] => []
  | .L y _ s :: fs => (y :: inorder s) ++ rctx fs
  | .R _ _ _ :: fs => rctx fs

theorem inorder_plug : ∀ (fs : List (Frame K V)) (t), inorder (plug fs t) = lctx fs ++ inorder t ++ rctx fs
  | [], t => by simp [lctx, rctx]
  | .L y c s :: fs, t => by rw [plug_cons, inorder_plug fs]; simp [lctx, rctx]
  | .R s y c :: fs, t => by rw [plug_cons, inorder_plug fs]; simp [lctx, rctx]

/-! ### parent pointers along the path -/

/-- `nx` is the parent pointer of the node in the hole: every node on the path points to its
    parent and the root to nothing -/
def PathOk : Option Nat → List (Frame K V) → Prop
  | nx, [] => nx = none
  | nx, f :: fs => nx = some f.y.id ∧ PathOk f.y.next fs

/-! ### what a pointer machine may change -/

inductive Upd (P : Entry K V → Entry K V → Prop) : T (Entry K V) → T (Entry K V) → Prop
  | nil : Upd P .nil .nil
  | node {l l' a a' c r r'} : Upd P l l' → P a a' → Upd P r r' → Upd P (.node l a c r) (.node l' a' c r')

namespace Upd
variable {P Q : Entry K V → Entry K V → Prop}

theorem refl (hP : ∀ a, P a a) : ∀ t, Upd P t t
  | .nil => .nil
  | .node l _ _ r => .node (refl hP l) (hP _) (refl hP r)

theorem mono (hPQ : ∀ a b, P a b → Q a b) {t t'} (h : Upd P t t') : Upd Q t t' := by
  induction h with
  | nil => exact .nil
  | node _ hp _ ih1 ih2 => exact .node ih1 (hPQ _ _ hp) ih2

theorem trans (hP : ∀ a b c, P a b → P b c → P a c) {t t' t''} (h : Upd P t t') (h' : Upd P t' t'') :
    Upd P t t'' := by
  induction h generalizing t'' with
  | nil => exact h'
  | node _ hp _ ih1 ih2 =>
    cases h' with
    | node h1 hp' h2 => exact .node (ih1 h1) (hP _ _ _ hp hp') (ih2 h2)

theorem modify (hP : ∀ a, P a a) {g : Entry K V → Entry K V} (hg : ∀ a, P a (g a)) (i : Nat) :
    ∀ t, Upd P t (modify i g t)
  | .nil => .nil
  | .node l a c r => by
    simp only [Tree.modify]
    split
    · exact .node (refl hP l) (hg a) (refl hP r)
    · exact .node (modify hP hg i l) (hP a) (modify hP hg i r)

theorem size_eq {t t'} (h : Upd P t t') : size t' = size t := by
  induction h with
  | nil => rfl
  | node _ _ _ ih1 ih2 => simp [ih1, ih2]

theorem height_eq {t t'} (h : Upd P t t') : height t' = height t := by
  induction h with
  | nil => rfl
  | node _ _ _ ih1 ih2 => simp [height, ih1, ih2]

/-- a projection of the payload that `P` respects is the same list on both sides -/
theorem map_eq {β : Type} (f : Entry K V → β) (hf : ∀ a b, P a b → f b = f a) {t t'} (h : Upd P t t') :
    (inorder t').map f = (inorder t).map f := by
  induction h with
  | nil => rfl
  | node _ hp _ ih1 ih2 => simp [ih1, ih2, hf _ _ hp]

theorem mem {t t'} (h : Upd P t t') : ∀ e' ∈ inorder t', ∃ e ∈ inorder t, P e e' := by
  induction h with
  | nil => intro e' he; simp at he
  | node _ hp _ ih1 ih2 =>
    intro e' he
    simp only [inorder_node, List.mem_append, List.mem_cons] at he ⊢
    rcases he with he | rfl | he
    · obtain ⟨e, h1, h2⟩ := ih1 e' he; exact ⟨e, Or.inl h1, h2⟩
    · exact ⟨_, Or.inr (Or.inl rfl), hp⟩
    · obtain ⟨e, h1, h2⟩ := ih2 e' he; exact ⟨e, Or.inr (Or.inr h1), h2⟩

theorem isNil_eq {t t'} (h : Upd P t t') : (t' = .nil ↔ t = .nil) := by
  cases h <;> simp

end Upd

/-- key and value of an entry -/
def kv (e : Entry K V) : K × V := (e.key, e.val)
/-- the in-order key/value sequence -/
def kvs (t : T (Entry K V)) : List (K × V) := (inorder t).map kv

@[simp] theorem kvs_nil : kvs (.nil : T (Entry K V)) = [] := rfl
@[simp] theorem kvs_node (l : T (Entry K V)) (a c r) : kvs (.node l a c r) = kvs l ++ kv a :: kvs r := by
  simp [kvs]

end Qlibc.Tree

/-
  Allocation-failure forms of the tree-table operations (C15) and the allocation ledger (C11).

  `plan i` says whether the i-th allocation attempt (1-based) made inside the call fails.
  Each `…F` form mirrors the order of `calloc`/`qmemdup` calls of the C function and returns,
  besides the result, the number of allocation attempts — the harness reports the same number
  from its allocator wrapper, so the allocation order itself is part of the correspondence.
-/
import QlibcModel.Tree.Table

namespace Qlibc.Tree
open Qlibc T
variable {K V : Type}

abbrev Plan := Nat → Bool

/-- does one of the first `n` allocation attempts fail? -/
def anyFail (plan : Plan) (n : Nat) : Bool := (List.range n).any (fun i => plan (i + 1))

def noFail : Plan := fun _ => false

/-- blocks a table owns: the handle, and per node the node, its key and its value (if any) -/
def Tbl.live (isEmpty : V → Bool) (s : Tbl K V) : Nat :=
  1 + ((inorder s.root).map (fun e => if isEmpty e.val then 2 else 3)).sum

section
variable (cmp : K → K → Ordering) (isEmpty : V → Bool)

/-- `qtreetbl_putobj` under an allocation plan (`isEmpty v`: `qmemdup` of `v` is NULL without
    an allocation). Existing key: one attempt (the value copy, if the value is non-empty). New key: `calloc` node, `qmemdup` key, `qmemdup` value (if
    non-empty) — all attempted before the results are tested. On failure the descent with its
    4-node splits and fix-ups has happened and is committed, nothing is stored, `false`. -/
def Tbl.putobjF (plan : Plan) (s : Tbl K V) (k : K) (v : V) : Except Fault (Tbl K V × Bool × Nat) :=
  let present := (T.find cmp keyOf k s.root).1.isSome
  let n := (if present then 0 else 2) + (if isEmpty v then 0 else 1)
  if anyFail plan n then
    T.put cmp keyOf k none id (s.root.size + 1) s.root >>= fun p =>
      .ok ({ s with root := p.1.blacken }, false, n)
  else
    s.putobj cmp replaceAlways k v >>= fun p => .ok (p.1, p.2, n)

/-- `qtreetbl_getobj(…, newmem = true)`: one attempt when the key holds a non-empty value -/
def Tbl.getobjF (plan : Plan) (s : Tbl K V) (k : K) : Option V × Nat :=
  match s.getobj cmp k with
  | some v => if isEmpty v then (none, 0) else if plan 1 then (none, 1) else (some v, 1)
  | none => (none, 0)

/-- `qtreetbl_find_min/max`: one attempt (the key copy) on a non-empty table -/
def Tbl.findMinF (plan : Plan) (s : Tbl K V) : Option K × Nat :=
  match s.findMin with
  | some k => if plan 1 then (none, 1) else (some k, 1)
  | none => (none, 0)

def Tbl.findMaxF (plan : Plan) (s : Tbl K V) : Option K × Nat :=
  match s.findMax with
  | some k => if plan 1 then (none, 1) else (some k, 1)
  | none => (none, 0)

inductive WalkOutF (K V : Type) where
  | item (k : K) (v : V) (cur : Cur)
  | done
  | enomem                        -- returned false with errno = ENOMEM; the call can be repeated
  deriving Repr

/-- `qtreetbl_getnext(…, newmem = true)`: key copy and value copy (if non-empty) are attempted
    when a node is about to be delivered; on failure the node stays unvisited and the caller's
    cursor is unchanged (an iterator reset done by a first call stays done) -/
def Tbl.getnextF (plan : Plan) (s : Tbl K V) (cur : Cur) : Except Fault (Tbl K V × WalkOutF K V × Nat) :=
  match cur.next, s.root with
  | none, .nil => .ok (s, .done, 0)
  | _, _ =>
    let (s1, tid) : Tbl K V × UInt8 :=
      if cur.next.isNone then let s1 := resetIterator s; (s1, s1.tid) else (s, cur.tid)
    let start := match cur.next with
      | some c => some c
      | none => rootId s1.root
    match getnextLoop tid (3 * s1.root.size + 3) s1.root start with
    | .error f => .error f
    | .ok (root, some a) =>
      let n := if isEmpty a.val then 1 else 2
      if anyFail plan n then
        -- the copies are made BEFORE the node is marked: undo the mark of the committing loop
        -- (the loop changes no other stamp, so the old one is the node's stamp before the call)
        let old : UInt8 := match lookup a.id s1.root with
          | some (.node _ e _ _) => e.tid
          | _ => a.tid
        .ok ({ s1 with root := modify a.id (fun e => { e with tid := old }) root }, .enomem, n)
      else
        .ok ({ s1 with root := root }, .item a.key a.val { tid := tid, next := some a.id }, n)
    | .ok (root, none) => .ok (resetIterator { s1 with root := root }, .done, 0)

/-- `qtreetbl_find_nearest(…, newmem = true)` -/
def Tbl.findNearestF (plan : Plan) (s : Tbl K V) (k : K) :
    Except Fault (Tbl K V × Option (Option (K × V × Cur)) × Nat) :=
  s.findNearest cmp k >>= fun p =>
    match p.2 with
    | none => .ok (p.1, some none, 0)                -- ENOENT
    | some (k', v, c) =>
      let n := if isEmpty v then 1 else 2
      if anyFail plan n then .ok (p.1, none, n)      -- zeroed object, errno = ENOMEM
      else .ok (p.1, some (some (k', v, c)), n)

end

end Qlibc.Tree

/-
  C04: `qtreetbl_find_nearest` — the descent (`nearestDown`) and the climb (`nearestUp`) analysed
  with the zipper of the search path; floor semantics on the in-order sequence.
-/
import QlibcModel.Tree.Epoch
import QlibcModel.Tree.ListSpec

namespace Qlibc.Tree
open Qlibc T

/-! ### the specification: floor entry of a sorted list -/

section floor
variable {α β Kk : Type} (cmp : Kk → Kk → Ordering) (key : α → Kk)

/-- the key of `e` is not above the probe `k` -/
def notAbove (k : Kk) (e : α) : Bool := cmp k (key e) != .lt

/-- the last entry whose key is not above `k` (on a sorted list: the entry with an equal key if
    there is one, else the one with the greatest smaller key); if there is none, the first entry -/
def floorL (k : Kk) (l : List α) : Option α := ((l.filter (notAbove cmp key k)).getLast?).or l.head?

theorem floorL_map (f : α → β) (key' : β → Kk) (hk : ∀ e, key' (f e) = key e) (k : Kk) (l : List α) :
    floorL cmp key' k (l.map f) = (floorL cmp key k l).map f := by
  unfold floorL
  have hp : (notAbove cmp key' k) ∘ f = notAbove cmp key k := by
    funext e; simp [notAbove, hk]
  rw [List.filter_map, hp, List.getLast?_map, List.head?_map]
  cases (l.filter (notAbove cmp key k)).getLast? <;> simp

end floor

section floorSpec
variable {α Kk : Type} {cmp : Kk → Kk → Ordering} {key : α → Kk}

/-- reading of `floorL` on a strictly ascending list: nothing on the empty list; otherwise an
    entry of the list which either is not above the probe and is the greatest such entry, or —
    when every entry is above the probe — is the first (smallest) entry -/
theorem floorL_spec {l : List α} (hs : Sorted cmp key l) (k : Kk) :
    (l = [] ∧ floorL cmp key k l = none) ∨
    (∃ e, floorL cmp key k l = some e ∧ e ∈ l ∧
      ((cmp k (key e) ≠ .lt ∧ ∀ e' ∈ l, cmp k (key e') ≠ .lt → e' = e ∨ cmp (key e') (key e) = .lt) ∨
       ((∀ e' ∈ l, cmp k (key e') = .lt) ∧ l.head? = some e))) := by
  unfold floorL
  cases hg : (l.filter (notAbove cmp key k)).getLast? with
  | none =>
    have hnil : l.filter (notAbove cmp key k) = [] := List.getLast?_eq_none_iff.mp hg
    have hall : ∀ e' ∈ l, cmp k (key e') = .lt := by
      intro e' he'
      have := List.filter_eq_nil_iff.mp hnil e' he'
      simpa [notAbove] using this
    cases l with
    | nil => exact Or.inl ⟨rfl, rfl⟩
    | cons a t => exact Or.inr ⟨a, rfl, by simp, Or.inr ⟨hall, rfl⟩⟩
  | some e =>
    obtain ⟨ys, hys⟩ := List.getLast?_eq_some_iff.mp hg
    have hmem : e ∈ l.filter (notAbove cmp key k) := by rw [hys]; simp
    obtain ⟨hel, hpe⟩ := List.mem_filter.mp hmem
    have hsf : Sorted cmp key (ys ++ [e]) := by
      rw [← hys]; exact List.Pairwise.sublist List.filter_sublist hs
    refine Or.inr ⟨e, rfl, hel, Or.inl ⟨by simpa [notAbove] using hpe, ?_⟩⟩
    intro e' he' hp'
    have : e' ∈ ys ++ [e] := by
      rw [← hys]; exact List.mem_filter.mpr ⟨he', by simpa [notAbove] using hp'⟩
    simp only [List.mem_append, List.mem_singleton] at this
    rcases this with h | h
    · exact Or.inr ((sorted_append hsf).2.2 e' h e (by simp))
    · exact Or.inl h

/-- if an entry with a key equal to the probe is stored, it is the answer -/
theorem floorL_eq (hc : CmpOk cmp) {l : List α} (hs : Sorted cmp key l) {k : Kk} {e' : α} (he' : e' ∈ l)
    (heq : cmp k (key e') = .eq) : floorL cmp key k l = some e' := by
  rcases floorL_spec hs k with ⟨hnil, _⟩ | ⟨e, hf, _, ⟨hne, hmax⟩ | ⟨hall, _⟩⟩
  · rw [hnil] at he'; simp at he'
  · rcases hmax e' he' (by rw [heq]; decide) with h | h
    · rw [hf, h]
    · exact absurd (hc.eq_lt heq h) hne
  · rw [hall e' he'] at heq; cases heq
end floorSpec

variable {K V : Type} (cmp : K → K → Ordering)

@[simp] theorem keyOf_eq (e : Entry K V) : keyOf e = e.key := rfl

/-! ### one step of the descent and of the climb -/

theorem down_eq {k : K} {fuel : Nat} {root : T (Entry K V)} {o : Nat} {last l a c r}
    (h : lookup o root = some (.node l a c r)) (hc : cmp k a.key = .eq) :
    nearestDown cmp k (fuel + 1) root (some o) last = .ok (root, some o, some o) := by
  simp [nearestDown, h, hc]

theorem down_lt_node {k : K} {fuel : Nat} {root : T (Entry K V)} {o : Nat} {last ll la lc lr a c r}
    (h : lookup o root = some (.node (.node ll la lc lr) a c r)) (hc : cmp k a.key = .lt) :
    nearestDown cmp k (fuel + 1) root (some o) last =
      nearestDown cmp k fuel (modify la.id (setNext (some o)) root) (some la.id) (some o) := by
  simp [nearestDown, h, hc]; rfl

theorem down_lt_nil {k : K} {fuel : Nat} {root : T (Entry K V)} {o : Nat} {last a c r}
    (h : lookup o root = some (.node .nil a c r)) (hc : cmp k a.key = .lt) :
    nearestDown cmp k (fuel + 1) root (some o) last = .ok (root, none, some o) := by
  simp [nearestDown, h, hc]

theorem up_lt {k : K} {fuel : Nat} {root : T (Entry K V)} {o : Nat} {l a c r}
    (h : lookup o root = some (.node l a c r)) (hc : cmp k a.key = .lt) :
    nearestUp cmp k root (fuel + 1) (some o) = nearestUp cmp k root fuel a.next := by
  simp [nearestUp, h, hc]

theorem up_stop {k : K} {fuel : Nat} {root : T (Entry K V)} {o : Nat} {l a c r}
    (h : lookup o root = some (.node l a c r)) (hc : cmp k a.key ≠ .lt) :
    nearestUp cmp k root (fuel + 1) (some o) = .ok (some o) := by
  simp [nearestUp, h, hc]

theorem findNearest_eq (s : Tbl K V) (k : K) : Tbl.findNearest cmp s k = (do
  let root0 := clearRootNext s.root
  let (root, obj, last) ← nearestDown cmp k (root0.height + 2) root0 (rootId root0) (rootId root0)
  let obj ← match obj with
    | some o => pure (some o)
    | none => do
      let up ← nearestUp cmp k root (root.height + 2) last
      pure (match up with | some o => some o | none => last)
  let s' := { s with root := root }
  match obj with
  | none => pure (s', none)
  | some o =>
    match lookup o root with
    | some (.node _ a _ _) => pure (s', some (a.key, a.val, { tid := s.tid, next := some o }))
    | _ => .error .dangling) := by
  cases s with
  | mk root num tid fresh => cases root <;> rfl

def nearestPick (k : K) (root : T (Entry K V)) : Option Nat → Option Nat → Except Fault (Option Nat)
  | some o, _ => .ok (some o)
  | none, last =>
    match nearestUp cmp k root (root.height + 2) last with
    | .error f => .error f
    | .ok (some o) => .ok (some o)
    | .ok none => .ok last

def nearestOut (s : Tbl K V) (root : T (Entry K V)) : Option Nat → Except Fault (Tbl K V × Option (K × V × Cur))
  | none => .ok ({ s with root := root }, none)
  | some o =>
    match lookup o root with
    | some (.node _ a _ _) => .ok ({ s with root := root }, some (a.key, a.val, { tid := s.tid, next := some o }))
    | _ => .error .dangling

theorem findNearest_of {s : Tbl K V} {k : K} {root obj last o'}
    (hd : nearestDown cmp k ((clearRootNext s.root).height + 2) (clearRootNext s.root)
      (rootId (clearRootNext s.root)) (rootId (clearRootNext s.root)) = .ok (root, obj, last))
    (hp : nearestPick cmp k root obj last = .ok o') :
    Tbl.findNearest cmp s k = nearestOut s root o' := by
  rw [findNearest_eq]
  simp only [hd, T.ok_bind]
  cases obj with
  | some o =>
    simp only [nearestPick] at hp; cases hp
    simp only [T.pure_eq_ok, T.ok_bind, nearestOut]
  | none =>
    simp only [nearestPick] at hp
    cases hu : nearestUp cmp k root (root.height + 2) last with
    | error f => simp [hu] at hp
    | ok up =>
      simp only [hu] at hp
      simp only [T.ok_bind, T.pure_eq_ok]
      cases up with
      | some o =>
        simp only [Except.ok.injEq] at hp; subst hp
        simp only [nearestOut]
      | none =>
        simp only [Except.ok.injEq] at hp; subst hp
        cases last with
        | none => simp [nearestOut]
        | some o =>
          simp only [nearestOut]

theorem down_gt_node {k : K} {fuel : Nat} {root : T (Entry K V)} {o : Nat} {last l a c rl ra rc rr}
    (h : lookup o root = some (.node l a c (.node rl ra rc rr))) (hc : cmp k a.key = .gt) :
    nearestDown cmp k (fuel + 1) root (some o) last =
      nearestDown cmp k fuel (modify ra.id (setNext (some o)) root) (some ra.id) (some o) := by
  simp [nearestDown, h, hc]; rfl

theorem down_gt_nil {k : K} {fuel : Nat} {root : T (Entry K V)} {o : Nat} {last l a c}
    (h : lookup o root = some (.node l a c .nil)) (hc : cmp k a.key = .gt) :
    nearestDown cmp k (fuel + 1) root (some o) last = .ok (root, none, some o) := by
  simp [nearestDown, h, hc]

theorem up_none {k : K} {fuel : Nat} {root : T (Entry K V)} :
    nearestUp cmp k root (fuel + 1) none = .ok none := by
  simp [nearestUp]

/-! ### the search path -/

/-- the comparison that led through the frame -/
def KFrame (k : K) : Frame K V → Prop
  | .L y _ _ => cmp k y.key = .lt
  | .R _ y _ => cmp k y.key = .gt

def KPath (k : K) (fs : List (Frame K V)) : Prop := ∀ f ∈ fs, KFrame cmp k f

theorem KPath.cons {k : K} {f : Frame K V} {fs} (h1 : KFrame cmp k f) (h2 : KPath cmp k fs) :
    KPath cmp k (f :: fs) := by
  intro g hg
  simp only [List.mem_cons] at hg
  rcases hg with rfl | hg
  · exact h1
  · exact h2 g hg

/-- the innermost ancestor from which the path turned right -/
def firstR : List (Frame K V) → Option (Entry K V)
  | [] => none
  | .L _ _ _ :: fs => firstR fs
  | .R _ y _ :: _ => some y

/-- outcome of the descent: where it stopped (`x`, in the hole of `fs'`) and why -/
def DownEnd (k : K) (obj : Option Nat) (l' : T (Entry K V)) (x : Entry K V) (r' : T (Entry K V)) : Prop :=
  (obj = some x.id ∧ cmp k x.key = .eq) ∨ (obj = none ∧ cmp k x.key = .lt ∧ l' = .nil) ∨
  (obj = none ∧ cmp k x.key = .gt ∧ r' = .nil)

theorem down_spec (k : K) : ∀ (fuel : Nat) (fs : List (Frame K V)) (l a c r) (last : Option Nat),
    DistinctIds (plug fs (.node l a c r)) → height (.node l a c r) ≤ fuel →
    ∃ fs' l' x c' r' obj,
      nearestDown cmp k fuel (plug fs (.node l a c r)) (some a.id) last
        = .ok (plug fs' (.node l' x c' r'), obj, some x.id) ∧
      Upd NextRel (plug fs (.node l a c r)) (plug fs' (.node l' x c' r')) ∧
      DistinctIds (plug fs' (.node l' x c' r')) ∧
      (PathOk a.next fs → PathOk x.next fs') ∧ (KPath cmp k fs → KPath cmp k fs') ∧
      DownEnd cmp k obj l' x r' := by
  intro fuel
  induction fuel with
  | zero => intro fs l a c r _ _ hh; simp [height] at hh
  | succ fuel ih =>
    intro fs l a c r last hd hh
    have hlk := lookup_hole hd
    have hrefl : Upd NextRel (plug fs (.node l a c r)) (plug fs (.node l a c r)) := Upd.refl NextRel.rfl' _
    cases hcmp : cmp k a.key with
    | eq =>
      exact ⟨fs, l, a, c, r, some a.id, down_eq cmp hlk hcmp, hrefl, hd, id, id, Or.inl ⟨rfl, hcmp⟩⟩
    | lt =>
      cases l with
      | nil =>
        exact ⟨fs, .nil, a, c, r, none, down_lt_nil cmp hlk hcmp, hrefl, hd, id, id, Or.inr (Or.inl ⟨rfl, hcmp, rfl⟩)⟩
      | node ll la lc lr =>
        rw [down_lt_node cmp hlk hcmp]
        have hd' : DistinctIds (plug (.L a c r :: fs) (.node ll la lc lr)) := hd
        have hm : modify la.id (setNext (some a.id)) (plug fs (.node (.node ll la lc lr) a c r))
            = plug (.L a c r :: fs) (.node ll (setNext (some a.id) la) lc lr) := modify_hole _ hd'
        have hu : Upd NextRel (plug fs (.node (.node ll la lc lr) a c r))
            (modify la.id (setNext (some a.id)) (plug fs (.node (.node ll la lc lr) a c r))) :=
          Upd.modify (g := setNext (some a.id)) NextRel.rfl' (fun _ => ⟨rfl, rfl, rfl, rfl⟩) _ _
        rw [hm] at hu ⊢
        have hd'' : DistinctIds (plug (.L a c r :: fs) (.node ll (setNext (some a.id) la) lc lr)) :=
          (distinct_plug_congr (by simp)).mpr hd'
        have hh' : height (.node ll (setNext (some a.id) la) lc lr) ≤ fuel := by
          simp [height] at hh ⊢; omega
        obtain ⟨fs', l', x, c', r', obj, h1, h2, h3, h4, h5, h6⟩ :=
          ih (.L a c r :: fs) ll (setNext (some a.id) la) lc lr (some a.id) hd'' hh'
        exact ⟨fs', l', x, c', r', obj, h1, hu.trans NextRel.trans' h2, h3, fun hp => h4 ⟨rfl, hp⟩,
          fun hk => h5 (KPath.cons cmp hcmp hk), h6⟩
    | gt =>
      cases r with
      | nil =>
        exact ⟨fs, l, a, c, .nil, none, down_gt_nil cmp hlk hcmp, hrefl, hd, id, id, Or.inr (Or.inr ⟨rfl, hcmp, rfl⟩)⟩
      | node rl ra rc rr =>
        rw [down_gt_node cmp hlk hcmp]
        have hd' : DistinctIds (plug (.R l a c :: fs) (.node rl ra rc rr)) := hd
        have hm : modify ra.id (setNext (some a.id)) (plug fs (.node l a c (.node rl ra rc rr)))
            = plug (.R l a c :: fs) (.node rl (setNext (some a.id) ra) rc rr) := modify_hole _ hd'
        have hu : Upd NextRel (plug fs (.node l a c (.node rl ra rc rr)))
            (modify ra.id (setNext (some a.id)) (plug fs (.node l a c (.node rl ra rc rr)))) :=
          Upd.modify (g := setNext (some a.id)) NextRel.rfl' (fun _ => ⟨rfl, rfl, rfl, rfl⟩) _ _
        rw [hm] at hu ⊢
        have hd'' : DistinctIds (plug (.R l a c :: fs) (.node rl (setNext (some a.id) ra) rc rr)) :=
          (distinct_plug_congr (by simp)).mpr hd'
        have hh' : height (.node rl (setNext (some a.id) ra) rc rr) ≤ fuel := by
          simp [height] at hh ⊢; omega
        obtain ⟨fs', l', x, c', r', obj, h1, h2, h3, h4, h5, h6⟩ :=
          ih (.R l a c :: fs) rl (setNext (some a.id) ra) rc rr (some a.id) hd'' hh'
        exact ⟨fs', l', x, c', r', obj, h1, hu.trans NextRel.trans' h2, h3, fun hp => h4 ⟨rfl, hp⟩,
          fun hk => h5 (KPath.cons cmp hcmp hk), h6⟩

/-- the climb follows the parent pointers written by the descent and stops at the innermost
    ancestor from which the path turned right -/
theorem up_spec (k : K) : ∀ (fs : List (Frame K V)) (fuel : Nat) (t : T (Entry K V)) (nx : Option Nat),
    PathOk nx fs → KPath cmp k fs → DistinctIds (plug fs t) → fs.length + 1 ≤ fuel →
    nearestUp cmp k (plug fs t) fuel nx = .ok ((firstR fs).map (·.id)) := by
  intro fs
  induction fs with
  | nil =>
    intro fuel t nx hp _ _ hfu
    obtain ⟨fuel, rfl⟩ : ∃ f, fuel = f + 1 := ⟨fuel - 1, by omega⟩
    simp only [PathOk] at hp
    subst hp
    simp [up_none, firstR]
  | cons f fs ih =>
    intro fuel t nx hp hk hd hfu
    obtain ⟨fuel, rfl⟩ : ∃ f, fuel = f + 1 := ⟨fuel - 1, by simp at hfu; omega⟩
    obtain ⟨hnx, hp'⟩ := hp
    subst hnx
    have hkf : KFrame cmp k f := hk f (by simp)
    have hk' : KPath cmp k fs := fun g hg => hk g (by simp [hg])
    cases f with
    | L y c s =>
      have hd' : DistinctIds (plug fs (.node t y c s)) := hd
      have hlk : lookup y.id (plug (.L y c s :: fs) t) = some (.node t y c s) := lookup_hole hd'
      simp only [Frame.y_L] at hp' ⊢
      rw [up_lt cmp hlk hkf]
      have := ih fuel (.node t y c s) y.next hp' hk' hd' (by simp at hfu; omega)
      simpa [firstR, plug_cons] using this
    | R s y c =>
      have hd' : DistinctIds (plug fs (.node s y c t)) := hd
      have hlk : lookup y.id (plug (.R s y c :: fs) t) = some (.node s y c t) := lookup_hole hd'
      have hgt : cmp k y.key = .gt := hkf
      simp only [Frame.y_R]
      rw [up_stop cmp hlk (by rw [hgt]; decide)]
      simp [firstR]

/-- the node the climb stops at, with the path above it -/
theorem firstR_zip : ∀ (fs : List (Frame K V)) (nx : Option Nat) (t : T (Entry K V)) (y : Entry K V),
    PathOk nx fs → firstR fs = some y →
    ∃ fsz zl zc zr, plug fs t = plug fsz (.node zl y zc zr) ∧ PathOk y.next fsz
  | [], _, _, _, _, h => by simp [firstR] at h
  | .L y' c s :: fs, _, t, y, hp, h => firstR_zip fs y'.next (.node t y' c s) y hp.2 (by simpa [firstR] using h)
  | .R s y' c :: fs, _, t, y, hp, h => by
    simp only [firstR, Option.some.injEq] at h
    subst h
    exact ⟨fs, s, c, t, rfl, hp.2⟩

theorem nearestOut_some {s : Tbl K V} {root : T (Entry K V)} {zl z zc zr}
    (h : lookup z.id root = some (.node zl z zc zr)) :
    nearestOut s root (some z.id)
      = .ok ({ s with root := root }, some (z.key, z.val, { tid := s.tid, next := some z.id })) := by
  simp [nearestOut, h]

/-- where the search ends.  `x` is the last node of the descent (in the hole of the search path
    `fs`), `z` the node returned; `z` again sits in the hole of a context whose parent pointers
    lead to the root (this is what a following `getnext` relies on). -/
def NearestEnd (k : K) (fs : List (Frame K V)) (l : T (Entry K V)) (x : Entry K V) (r : T (Entry K V))
    (z : Entry K V) : Prop :=
  (cmp k x.key = .eq ∧ z = x) ∨ (cmp k x.key = .gt ∧ r = .nil ∧ z = x) ∨
  (cmp k x.key = .lt ∧ l = .nil ∧ z = (firstR fs).getD x)

theorem nearest_core {s : Tbl K V} (k : K) (hd : DistinctIds s.root) :
    (s.root = .nil ∧ Tbl.findNearest cmp s k = .ok ({ s with root := .nil }, none)) ∨
    (∃ fs l x c r z,
      Tbl.findNearest cmp s k = .ok ({ s with root := plug fs (.node l x c r) },
        some (z.key, z.val, { tid := s.tid, next := some z.id })) ∧
      Upd NextRel s.root (plug fs (.node l x c r)) ∧ DistinctIds (plug fs (.node l x c r)) ∧
      PathOk x.next fs ∧ KPath cmp k fs ∧
      (∃ fsz zl zc zr, plug fs (.node l x c r) = plug fsz (.node zl z zc zr) ∧ PathOk z.next fsz) ∧
      NearestEnd cmp k fs l x r z) := by
  cases hs : s.root with
  | nil =>
    refine Or.inl ⟨rfl, ?_⟩
    have hdn : nearestDown cmp k ((clearRootNext s.root).height + 2) (clearRootNext s.root)
        (rootId (clearRootNext s.root)) (rootId (clearRootNext s.root)) = .ok (.nil, none, none) := by
      rw [hs]; simp [clearRootNext, rootId, nearestDown, height]
    have hp : nearestPick cmp k (.nil : T (Entry K V)) none none = .ok none := by
      simp [nearestPick, nearestUp]
    rw [findNearest_of cmp hdn hp]
    rfl
  | node l0 a0 c0 r0 =>
    refine Or.inr ?_
    have hd0 : DistinctIds (plug [] (.node l0 (setNext none a0) c0 r0)) := by
      rw [hs] at hd
      exact (distinct_plug_congr (fs := []) (by simp)).mpr hd
    obtain ⟨fs, l, x, c, r, obj, h1, h2, h3, h4, h5, h6⟩ :=
      down_spec cmp k (height (.node l0 (setNext none a0) c0 r0) + 2) [] l0 (setNext none a0) c0 r0
        (some a0.id) hd0 (by omega)
    have hdn : nearestDown cmp k ((clearRootNext s.root).height + 2) (clearRootNext s.root)
        (rootId (clearRootNext s.root)) (rootId (clearRootNext s.root))
        = .ok (plug fs (.node l x c r), obj, some x.id) := by
      rw [hs]; exact h1
    have hu : Upd NextRel (.node l0 a0 c0 r0) (plug fs (.node l x c r)) := by
      have := clearRootNext_upd (.node l0 a0 c0 r0)
      exact this.trans NextRel.trans' h2
    have hp : PathOk x.next fs := h4 rfl
    have hk : KPath cmp k fs := h5 (fun f hf => by simp at hf)
    have hlkx := lookup_hole h3
    have hheight : fs.length + 1 ≤ height (plug fs (.node l x c r)) := by
      have := height_plug fs (.node l x c r)
      simp [height] at this ⊢; omega
    rcases h6 with ⟨hobj, hcmp⟩ | ⟨hobj, hcmp, hl⟩ | ⟨hobj, hcmp, hr⟩
    · subst hobj
      have hpk : nearestPick cmp k (plug fs (.node l x c r)) (some x.id) (some x.id) = .ok (some x.id) := by
        simp [nearestPick]
      refine ⟨fs, l, x, c, r, x, ?_, hu, h3, hp, hk, ⟨fs, l, c, r, rfl, hp⟩, Or.inl ⟨hcmp, rfl⟩⟩
      rw [findNearest_of cmp hdn hpk, nearestOut_some hlkx]
    · subst hobj
      have hup : nearestUp cmp k (plug fs (.node l x c r)) (height (plug fs (.node l x c r)) + 2) (some x.id)
          = .ok ((firstR fs).map (·.id)) := by
        rw [up_lt cmp hlkx hcmp]
        exact up_spec cmp k fs _ _ _ hp hk h3 (by omega)
      cases hf : firstR fs with
      | none =>
        have hpk : nearestPick cmp k (plug fs (.node l x c r)) none (some x.id) = .ok (some x.id) := by
          simp [nearestPick, hup, hf]
        refine ⟨fs, l, x, c, r, x, ?_, hu, h3, hp, hk, ⟨fs, l, c, r, rfl, hp⟩,
          Or.inr (Or.inr ⟨hcmp, hl, by simp [hf]⟩)⟩
        rw [findNearest_of cmp hdn hpk, nearestOut_some hlkx]
      | some y =>
        have hpk : nearestPick cmp k (plug fs (.node l x c r)) none (some x.id) = .ok (some y.id) := by
          simp [nearestPick, hup, hf]
        obtain ⟨fsz, zl, zc, zr, hz1, hz2⟩ := firstR_zip fs x.next (.node l x c r) y hp hf
        have hlky : lookup y.id (plug fs (.node l x c r)) = some (.node zl y zc zr) := by
          rw [hz1]; exact lookup_hole (by rw [← hz1]; exact h3)
        refine ⟨fs, l, x, c, r, y, ?_, hu, h3, hp, hk, ⟨fsz, zl, zc, zr, hz1, hz2⟩,
          Or.inr (Or.inr ⟨hcmp, hl, by simp [hf]⟩)⟩
        rw [findNearest_of cmp hdn hpk, nearestOut_some hlky]
    · subst hobj
      have hup : nearestUp cmp k (plug fs (.node l x c r)) (height (plug fs (.node l x c r)) + 2) (some x.id)
          = .ok (some x.id) := up_stop cmp hlkx (by rw [hcmp]; decide)
      have hpk : nearestPick cmp k (plug fs (.node l x c r)) none (some x.id) = .ok (some x.id) := by
        simp [nearestPick, hup]
      refine ⟨fs, l, x, c, r, x, ?_, hu, h3, hp, hk, ⟨fs, l, c, r, rfl, hp⟩, Or.inr (Or.inl ⟨hcmp, hr, rfl⟩)⟩
      rw [findNearest_of cmp hdn hpk, nearestOut_some hlkx]

/-! ### the answer is the floor entry -/

section order
variable {cmp}

theorem sorted_plug_sub {fs : List (Frame K V)} {t} (h : Sorted cmp keyOf (inorder (plug fs t))) :
    Sorted cmp keyOf (inorder t) := by
  rw [inorder_plug] at h
  exact (sorted_append (sorted_append h).1).2.1

/-- on the search path: everything left of the hole is below the probe, everything right of it
    above -/
theorem ctx_bounds (hc : CmpOk cmp) (k : K) : ∀ (fs : List (Frame K V)) (t : T (Entry K V)),
    Sorted cmp keyOf (inorder (plug fs t)) → KPath cmp k fs →
    (∀ e ∈ lctx fs, cmp k e.key = .gt) ∧ (∀ e ∈ rctx fs, cmp k e.key = .lt) := by
  intro fs
  induction fs with
  | nil => intro t _ _; simp [lctx, rctx]
  | cons f fs ih =>
    intro t hs hk
    have hkf : KFrame cmp k f := hk f (by simp)
    have hk' : KPath cmp k fs := fun g hg => hk g (by simp [hg])
    cases f with
    | L y c s =>
      obtain ⟨i1, i2⟩ := ih (.node t y c s) hs hk'
      have hsub : Sorted cmp keyOf (inorder t ++ y :: inorder s) := by
        simpa using sorted_plug_sub (fs := fs) (t := .node t y c s) hs
      obtain ⟨_, _, _, hys, _⟩ := sorted_mid hsub
      have hy : cmp k y.key = .lt := hkf
      refine ⟨by simpa [lctx] using i1, ?_⟩
      intro e he
      simp only [rctx, List.cons_append, List.mem_cons, List.mem_append] at he
      rcases he with rfl | he | he
      · exact hy
      · exact hc.lt_trans hy (hys e he)
      · exact i2 e he
    | R s y c =>
      obtain ⟨i1, i2⟩ := ih (.node s y c t) hs hk'
      have hsub : Sorted cmp keyOf (inorder s ++ y :: inorder t) := by
        simpa using sorted_plug_sub (fs := fs) (t := .node s y c t) hs
      obtain ⟨_, _, hsy, _, _⟩ := sorted_mid hsub
      have hy : cmp k y.key = .gt := hkf
      refine ⟨?_, by simpa [rctx] using i2⟩
      intro e he
      simp only [lctx, List.mem_append, List.mem_cons, List.not_mem_nil, or_false] at he
      rcases he with he | he | rfl
      · exact i1 e he
      · exact left_below hc (key := keyOf) hsy (Or.inl hy) e he
      · exact hy

theorem lctx_getLast : ∀ (fs : List (Frame K V)), (lctx fs).getLast? = firstR fs
  | [] => rfl
  | .L _ _ _ :: fs => by simpa [lctx, firstR] using lctx_getLast fs
  | .R s y _ :: fs => by simp [lctx, firstR, ← List.append_assoc]

theorem lctx_nil_of_firstR : ∀ (fs : List (Frame K V)), firstR fs = none → lctx fs = []
  | [], _ => rfl
  | .L _ _ _ :: fs, h => by simpa [lctx] using lctx_nil_of_firstR fs (by simpa [firstR] using h)
  | .R _ _ _ :: _, h => by simp [firstR] at h

theorem filter_all {α : Type} {p : α → Bool} {l : List α} (h : ∀ e ∈ l, p e = true) : l.filter p = l :=
  List.filter_eq_self.mpr h
theorem filter_none {α : Type} {p : α → Bool} {l : List α} (h : ∀ e ∈ l, p e = false) : l.filter p = [] :=
  List.filter_eq_nil_iff.mpr (fun e he => by simp [h e he])

/-- the node the search returns is the floor entry of the in-order sequence -/
theorem floor_of_end (hc : CmpOk cmp) {k : K} {fs : List (Frame K V)} {l x c r z}
    (hs : Sorted cmp keyOf (inorder (plug fs (.node l x c r)))) (hk : KPath cmp k fs)
    (he : NearestEnd cmp k fs l x r z) :
    floorL cmp keyOf k (inorder (plug fs (.node l x c r))) = some z := by
  obtain ⟨hL, hR⟩ := ctx_bounds hc k fs _ hs hk
  have hsub : Sorted cmp keyOf (inorder l ++ x :: inorder r) := by simpa using sorted_plug_sub hs
  obtain ⟨_, _, hlx, hxr, _⟩ := sorted_mid hsub
  have fL : (lctx fs).filter (notAbove cmp keyOf k) = lctx fs :=
    filter_all (fun e he => by simp [notAbove, hL e he])
  have fR : (rctx fs).filter (notAbove cmp keyOf k) = [] :=
    filter_none (fun e he => by simp [notAbove, hR e he])
  unfold floorL
  rw [inorder_plug]
  simp only [inorder_node, List.filter_append, fL, fR, List.append_nil]
  have hlx' : ∀ e ∈ inorder l, cmp e.key x.key = .lt := hlx
  have hxr' : ∀ e ∈ inorder r, cmp x.key e.key = .lt := hxr
  rcases he with ⟨hcmp, rfl⟩ | ⟨hcmp, rfl, rfl⟩ | ⟨hcmp, rfl, rfl⟩
  · have f1 : (inorder l).filter (notAbove cmp keyOf k) = inorder l :=
      filter_all (fun e he => by
        have := left_below hc (key := keyOf) hlx (Or.inr hcmp) e he
        simp only [keyOf_eq] at this
        simp [notAbove, this])
    have f2 : (inorder r).filter (notAbove cmp keyOf k) = [] :=
      filter_none (fun e he => by
        have := hc.eq_lt hcmp (hxr' e he)
        simp [notAbove, this])
    have fx : notAbove cmp keyOf k z = true := by simp [notAbove, hcmp]
    simp [f1, f2, fx, ← List.append_assoc]
  · have f1 : (inorder l).filter (notAbove cmp keyOf k) = inorder l :=
      filter_all (fun e he => by
        have := left_below hc (key := keyOf) hlx (Or.inl hcmp) e he
        simp only [keyOf_eq] at this
        simp [notAbove, this])
    have fx : notAbove cmp keyOf k z = true := by simp [notAbove, hcmp]
    simp [f1, fx, ← List.append_assoc]
  · have f2 : (inorder r).filter (notAbove cmp keyOf k) = [] :=
      filter_none (fun e he => by
        have := hc.lt_trans hcmp (hxr' e he)
        simp [notAbove, this])
    have fx : notAbove cmp keyOf k x = false := by simp [notAbove, hcmp]
    simp only [inorder_nil, List.filter_nil, List.filter_cons, fx, f2, List.append_nil, List.nil_append,
      Bool.false_eq_true, if_false]
    rw [lctx_getLast]
    cases hf : firstR fs with
    | none => simp [lctx_nil_of_firstR fs hf]
    | some y => simp

end order

/-! ### the theorems -/

/-- what `find_nearest` returns for the entry `e`: key, value and the cursor for `getnext` -/
def nearestAns (tid : UInt8) (e : Entry K V) : K × V × Cur := (e.key, e.val, { tid := tid, next := some e.id })

theorem sorted_of_map_eq {α Kk : Type} {cmp : Kk → Kk → Ordering} {key : α → Kk} {l l' : List α}
    (h : l'.map key = l.map key) (hs : Sorted cmp key l) : Sorted cmp key l' := by
  unfold Sorted at *
  have h1 : (l.map key).Pairwise (fun a b => cmp a b = .lt) := List.pairwise_map.mpr hs
  rw [← h] at h1
  exact List.pairwise_map.mp h1

/-- `find_nearest` never faults on a table with distinct node identifiers (no comparator or order
    assumption): the fuel `height + 2` suffices for descent and climb, every pointer followed was
    written by this very descent.  Only `next` fields change; ENOENT exactly on the empty table. -/
theorem nearest_total (s : Tbl K V) (k : K) (hd : DistinctIds s.root) :
    ∃ s' r, Tbl.findNearest cmp s k = .ok (s', r) ∧ Upd NextRel s.root s'.root ∧
      s'.num = s.num ∧ s'.tid = s.tid ∧ s'.fresh = s.fresh ∧ (r = none ↔ s.root = .nil) ∧
      (∀ k' v c, r = some (k', v, c) → c.tid = s.tid ∧ c.next ≠ none) := by
  rcases nearest_core cmp k hd with ⟨hnil, h⟩ | ⟨fs, l, x, c, r, z, h, hu, _, _, _, _, _⟩
  · refine ⟨_, _, h, by rw [hnil]; exact .nil, rfl, rfl, rfl, by simp [hnil], ?_⟩
    intro k' v c hc; cases hc
  · refine ⟨_, _, h, hu, rfl, rfl, rfl, ?_, ?_⟩
    · constructor
      · intro hc; cases hc
      · intro hn
        have := hu.size_eq
        rw [hn, size_plug] at this
        simp at this
    · intro k' v c hc
      cases hc
      exact ⟨rfl, by simp⟩

/-- `nearest_floor`: on a search tree with distinct identifiers the search returns the floor
    entry of the probe in the in-order sequence — the entry with an equal key if there is one,
    otherwise the one with the greatest smaller key, otherwise the first entry; nothing on the
    empty table — together with the cursor pointing at that node.  It never faults, and only
    `next` fields of the tree change. -/
theorem nearest_floor (hc : CmpOk cmp) {s : Tbl K V} (ho : Ordered cmp keyOf s.root)
    (hd : DistinctIds s.root) (k : K) :
    ∃ s', Tbl.findNearest cmp s k
        = .ok (s', (floorL cmp keyOf k (inorder s.root)).map (nearestAns s.tid)) ∧
      Upd NextRel s.root s'.root ∧ s'.num = s.num ∧ s'.tid = s.tid ∧ s'.fresh = s.fresh := by
  rcases nearest_core cmp k hd with ⟨hnil, h⟩ | ⟨fs, l, x, c, r, z, h, hu, _, _, hk, _, hend⟩
  · refine ⟨{ s with root := .nil }, ?_, by rw [hnil]; exact .nil, rfl, rfl, rfl⟩
    rw [h, hnil]; simp [floorL]
  · refine ⟨{ s with root := plug fs (.node l x c r) }, ?_, hu, rfl, rfl, rfl⟩
    rw [h]
    have hs' : Sorted cmp keyOf (inorder (plug fs (.node l x c r))) :=
      sorted_of_map_eq (hu.map_eq keyOf (fun a b hab => hab.1)) ho
    have hfl := floor_of_end hc hs' hk hend
    -- transfer to the tree before the search: same keys, values and identifiers
    let f : Entry K V → K × V × Nat := fun e => (e.key, e.val, e.id)
    have hmap : (inorder (plug fs (.node l x c r))).map f = (inorder s.root).map f :=
      hu.map_eq f (fun a b hab => by simp [f, hab.1, hab.2.1, hab.2.2.1])
    have h1 := floorL_map cmp keyOf f (fun p => p.1) (fun _ => rfl) k (inorder s.root)
    have h2 := floorL_map cmp keyOf f (fun p => p.1) (fun _ => rfl) k (inorder (plug fs (.node l x c r)))
    rw [hmap, h1, hfl] at h2
    cases hfs : floorL cmp keyOf k (inorder s.root) with
    | none => rw [hfs] at h2; simp at h2
    | some e =>
      rw [hfs] at h2
      simp only [Option.map_some, Option.some.injEq, f, Prod.mk.injEq] at h2
      simp [nearestAns, h2.1, h2.2.1, h2.2.2]

/-- the answer as a key/value pair: the floor entry of the in-order key/value sequence -/
theorem nearest_kv (hc : CmpOk cmp) {s : Tbl K V} (ho : Ordered cmp keyOf s.root)
    (hd : DistinctIds s.root) (k : K) :
    ∃ s' r, Tbl.findNearest cmp s k = .ok (s', r) ∧
      r.map (fun x => (x.1, x.2.1)) = floorL cmp Prod.fst k (kvs s.root) := by
  obtain ⟨s', h, _⟩ := nearest_floor cmp hc ho hd k
  refine ⟨s', _, h, ?_⟩
  have := floorL_map cmp keyOf kv Prod.fst (fun _ => rfl) k (inorder s.root)
  rw [kvs, this, Option.map_map]
  rfl

/-- `nearest_history_independent`: the answer depends only on the stored key/value sequence,
    not on the shape of the tree, the stamps or the parent pointers earlier operations left -/
theorem nearest_history_independent (hc : CmpOk cmp) {s₁ s₂ : Tbl K V}
    (ho₁ : Ordered cmp keyOf s₁.root) (hd₁ : DistinctIds s₁.root)
    (ho₂ : Ordered cmp keyOf s₂.root) (hd₂ : DistinctIds s₂.root)
    (hkv : kvs s₁.root = kvs s₂.root) (k : K) :
    ∃ s₁' r₁ s₂' r₂, Tbl.findNearest cmp s₁ k = .ok (s₁', r₁) ∧ Tbl.findNearest cmp s₂ k = .ok (s₂', r₂) ∧
      r₁.map (fun x => (x.1, x.2.1)) = r₂.map (fun x => (x.1, x.2.1)) := by
  obtain ⟨s₁', r₁, h1, e1⟩ := nearest_kv cmp hc ho₁ hd₁ k
  obtain ⟨s₂', r₂, h2, e2⟩ := nearest_kv cmp hc ho₂ hd₂ k
  exact ⟨s₁', r₁, s₂', r₂, h1, h2, by rw [e1, e2, hkv]⟩

/-- `find_nearest` keeps the epoch invariant (and quiescence): it writes `next` fields only -/
theorem nearest_epoch {s : Tbl K V} (h : EpochInv s) {k : K} {s' : Tbl K V} {r}
    (hf : Tbl.findNearest cmp s k = .ok (s', r)) :
    EpochInv s' ∧ (Quiescent s → Quiescent s') ∧ Upd Skel s.root s'.root ∧ s'.num = s.num ∧
      s'.fresh = s.fresh ∧ (∀ k' v c, r = some (k', v, c) → c.tid ≤ s'.tid ∧ c.next ≠ none) := by
  obtain ⟨s1, r1, h1, hu, hn, ht, hfr, _, hc⟩ := nearest_total cmp s k h.distinct
  rw [h1] at hf
  simp only [Except.ok.injEq, Prod.mk.injEq] at hf
  obtain ⟨rfl, rfl⟩ := hf
  have hs : Upd Skel s.root s1.root := hu.mono NextRel.skel
  have htid : ∀ e' ∈ inorder s1.root, ∃ e ∈ inorder s.root, e'.tid = e.tid := by
    intro e' he'
    obtain ⟨e, he, hr⟩ := hu.mem e' he'
    exact ⟨e, he, hr.2.2.2⟩
  refine ⟨⟨by rw [ht]; exact h.pos, ?_, skel_distinct hs h.distinct, by rw [hfr]; exact skel_fresh hs h.fresh⟩,
    ?_, hs, hn, hfr, ?_⟩
  · intro e' he'
    obtain ⟨e, he, hr⟩ := htid e' he'
    rw [hr, ht]; exact h.le e he
  · intro hq e' he'
    obtain ⟨e, he, hr⟩ := htid e' he'
    rw [hr, ht]; exact hq e he
  · intro k' v c hcc
    obtain ⟨e1, e2⟩ := hc k' v c hcc
    exact ⟨by rw [e1, ht]; exact UInt8.le_refl _, e2⟩

/-! ### continuing with `getnext` from the returned cursor -/

/-- nothing in the context carries the stamp -/
def FramesUn (tid : UInt8) (fs : List (Frame K V)) : Prop := ∀ f ∈ fs, f.y.tid ≠ tid ∧ AllUn tid f.sib

theorem allUn_plug {tid : UInt8} : ∀ (fs : List (Frame K V)) (t : T (Entry K V)), AllUn tid (plug fs t) →
    AllUn tid t ∧ FramesUn tid fs
  | [], t, h => ⟨h, fun f hf => by simp at hf⟩
  | f :: fs, t, h => by
    obtain ⟨h1, h2⟩ := allUn_plug fs (f.fill t) h
    have h3 : AllUn tid t ∧ f.y.tid ≠ tid ∧ AllUn tid f.sib := by
      cases f with
      | L y c s =>
        exact ⟨fun e he => h1 e (by simp [he]), h1 y (by simp),
          fun e he => h1 e (by simp only [Frame.sib_L] at he; simp [he])⟩
      | R s y c =>
        exact ⟨fun e he => h1 e (by simp [he]), h1 y (by simp),
          fun e he => h1 e (by simp only [Frame.sib_R] at he; simp [he])⟩
    refine ⟨h3.1, ?_⟩
    intro g hg
    simp only [List.mem_cons] at hg
    rcases hg with rfl | hg
    · exact h3.2
    · exact h2 g hg

/-- with nothing stamped, a walk that starts in the hole returns every entry exactly once -/
theorem remF_perm {tid : UInt8} : ∀ (fs : List (Frame K V)) (t : T (Entry K V)), FramesUn tid fs →
    (kvs t ++ remF tid fs).Perm (kvs (plug fs t))
  | [], t, _ => by simp [remF]
  | f :: fs, t, h => by
    have hf := h f (by simp)
    have ih := remF_perm fs (f.fill t) (fun g hg => h g (by simp [hg]))
    refine List.Perm.trans ?_ ih
    cases f with
    | L y c s =>
      simp only [Frame.y_L, Frame.sib_L] at hf
      simp [remF, hf.1, pend_allUn hf.2]
    | R s y c =>
      simp only [Frame.y_R, Frame.sib_R] at hf
      simp only [remF, pend_allUn hf.2, Frame.fill_R, kvs_node]
      have hy : (y.tid != tid) = true := by simp [hf.1]
      simp only [hy, if_true]
      rw [← List.append_assoc, ← List.append_assoc]
      refine List.Perm.append_right _ ?_
      have : (kvs t ++ (kvs s ++ [kv y])).Perm ((kvs s ++ [kv y]) ++ kvs t) := List.perm_append_comm
      simpa using this

/-- `nearest_then_walk`: when no walk has been left unfinished (no node carries the current
    epoch), the calls of `getnext` that continue from the cursor returned by `find_nearest` never
    fault, return every stored key/value pair exactly once (as a permutation of the in-order
    sequence: the subtree of the returned node first, in order), and then report the end. -/
theorem nearest_then_walk {s : Tbl K V} (h : EpochInv s) (hq : Quiescent s) {k : K} {s' : Tbl K V}
    {k' v c} (hf : Tbl.findNearest cmp s k = .ok (s', some (k', v, c))) (n : Nat) :
    ∃ xs s'', walkFrom (s.root.size + 1 + n) s' c = .ok (xs, s'') ∧ xs.Perm (kvs s.root) := by
  rcases nearest_core cmp k h.distinct with ⟨_, h0⟩ | ⟨fs, l, x, c0, r, z, h1, hu, hd, _, _, ⟨fsz, zl, zc, zr, hz, hp⟩, _⟩
  · rw [h0] at hf; simp at hf
  · rw [h1] at hf
    simp only [Except.ok.injEq, Prod.mk.injEq, Option.some.injEq] at hf
    obtain ⟨rfl, _, _, rfl⟩ := hf
    have hun : AllUn s.tid (plug fsz (.node zl z zc zr)) := by
      rw [← hz]
      intro e' he'
      obtain ⟨e, he, hr⟩ := hu.mem e' he'
      rw [hr.2.2.2]
      exact u8_ne_of_lt (hq e he)
    obtain ⟨hun1, hun2⟩ := allUn_plug fsz _ hun
    have hfo : FramesOk s.tid fsz := fun f hf => Or.inr (hun2 f hf).2
    obtain ⟨s'', hw⟩ := subtree_walk (s := { s with root := plug fs (.node l x c0 r) })
      (cur := { tid := s.tid, next := some z.id }) n hz rfl hun1 hfo hp hd
    have hperm := remF_perm fsz (.node zl z zc zr) hun2
    have hk : kvs (plug fsz (.node zl z zc zr)) = kvs s.root := by
      rw [← hz]; exact skel_kvs (hu.mono NextRel.skel)
    rw [hk] at hperm
    refine ⟨_, s'', ?_, hperm⟩
    have hlen := hperm.length_eq
    simp only [List.length_append, kvs, List.length_map, length_inorder] at hlen
    simp only [kvs] at hw
    rw [← hlen]
    exact hw

end Qlibc.Tree

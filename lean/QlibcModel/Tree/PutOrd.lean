/-
  Insertion refines the ideal sorted map: `inorder (put t) = insL (inorder t)`.
-/
import QlibcModel.Tree.ListSpec

namespace Qlibc.Tree
open Qlibc
namespace T
variable {α K : Type} {cmp : K → K → Ordering} {key : α → K}

/-- the colour flip on the way down keeps the payload of the node and the sequences of both
    subtrees -/
theorem splitFour_node {l : T α} {a c r t1} (h : splitFour (node l a c r) = .ok t1) :
    ∃ l1 c1 r1, t1 = node l1 a c1 r1 ∧ inorder l1 = inorder l ∧ inorder r1 = inorder r ∧
      size l1 = size l ∧ size r1 = size r := by
  unfold splitFour at h
  split at h
  · cases l with
    | nil => simp [flip] at h
    | node ll la lc lr =>
      cases r with
      | nil => simp [flip] at h
      | node rl ra rc rr =>
        simp at h; subst h
        exact ⟨_, _, _, rfl, by simp, by simp, by simp, by simp⟩
  · cases h; exact ⟨l, c, r, rfl, rfl, rfl, rfl, rfl⟩

variable (new : α) (onDup : α → α)

theorem put_inorder (hc : CmpOk cmp) : ∀ (fuel : Nat) (t : T α) (res : T α × Bool),
    put cmp key (key new) (some new) onDup fuel t = .ok res → Ordered cmp key t →
    inorder res.1 = insL cmp key new onDup (inorder t) ∧
    res.2 = !(memL cmp key (key new) (inorder t)) := by
  intro fuel
  induction fuel with
  | zero => intro t res h; simp [put] at h
  | succ fuel ih =>
    intro t res h hs
    cases t with
    | nil => simp [put] at h; subst h; simp [insL, memL, lookupL]
    | node l a c r =>
      simp only [put] at h
      obtain ⟨t1, h1, h2⟩ := bind_eq_ok h
      obtain ⟨l1, c1, r1, rfl, il, ir, _, _⟩ := splitFour_node h1
      obtain ⟨sl, sr, hla, har, hlr⟩ := sorted_mid (xs := inorder l) (ys := inorder r) (by simpa [Ordered] using hs)
      simp only at h2
      cases hcmp : cmp (key new) (key a) with
      | eq =>
        rw [hcmp] at h2
        obtain ⟨t2, h3, h4⟩ := bind_eq_ok h2
        cases h4
        have := (putUp_same h3).1
        have hb := left_below hc hla (Or.inr hcmp)
        simp [this, il, ir, insL_eq new onDup _ _ a hb hcmp, memL, lookupL_eq (key new) _ _ a hb hcmp]
      | lt =>
        rw [hcmp] at h2
        obtain ⟨p, h3, h4⟩ := bind_eq_ok h2
        obtain ⟨t2, h5, h6⟩ := bind_eq_ok h4
        cases h6
        have := (putUp_same h5).1
        obtain ⟨i1, i2⟩ := ih l1 p h3 (by simpa [Ordered, il] using sl)
        simp [this, i1, i2, il, ir, insL_lt new onDup _ _ a hcmp, memL, lookupL_lt (key new) _ _ a hcmp]
      | gt =>
        rw [hcmp] at h2
        obtain ⟨p, h3, h4⟩ := bind_eq_ok h2
        obtain ⟨t2, h5, h6⟩ := bind_eq_ok h4
        cases h6
        have := (putUp_same h5).1
        obtain ⟨i1, i2⟩ := ih r1 p h3 (by simpa [Ordered, ir] using sr)
        have hb := left_below hc hla (Or.inl hcmp)
        simp [this, i1, i2, il, ir, insL_gt new onDup _ _ a hb hcmp, memL, lookupL_gt (key new) _ _ a hb hcmp]

/-- the ideal insertion keeps the list strictly ascending (`onDup` must not change the key) -/
theorem insL_sorted (hc : CmpOk cmp) (hdup : ∀ a, key (onDup a) = key a) :
    ∀ l : List α, Sorted cmp key l → Sorted cmp key (insL cmp key new onDup l) := by
  intro l
  induction l with
  | nil => intro _; simp [insL, Sorted]
  | cons a rest ih =>
    intro hs
    unfold Sorted at hs ih ⊢
    rw [List.pairwise_cons] at hs
    simp only [insL]
    cases hcmp : cmp (key new) (key a) with
    | lt =>
      simp only [List.pairwise_cons]
      refine ⟨?_, hs⟩
      intro b hb
      simp at hb
      rcases hb with rfl | hb
      · exact hcmp
      · exact hc.lt_trans hcmp (hs.1 b hb)
    | eq =>
      simp only [List.pairwise_cons]
      exact ⟨fun b hb => by rw [hdup]; exact hs.1 b hb, hs.2⟩
    | gt =>
      simp only [List.pairwise_cons]
      refine ⟨?_, ih hs.2⟩
      intro b hb
      -- b is either `new`, an updated entry, or an old entry
      have : ∀ (l : List α), (∀ x ∈ l, cmp (key a) (key x) = .lt) →
          ∀ b ∈ insL cmp key new onDup l, cmp (key a) (key b) = .lt := by
        intro l
        induction l with
        | nil => intro _ b hb; simp [insL] at hb; subst hb; exact hc.lt_of_gt hcmp
        | cons x l ihl =>
          intro hl b hb
          simp only [insL] at hb
          cases hx : cmp (key new) (key x) with
          | lt =>
            rw [hx] at hb; simp at hb
            rcases hb with rfl | rfl | hb
            · exact hc.lt_of_gt hcmp
            · exact hl _ (by simp)
            · exact hl b (by simp [hb])
          | eq =>
            rw [hx] at hb; simp at hb
            rcases hb with rfl | hb
            · rw [hdup]; exact hl x (by simp)
            · exact hl b (by simp [hb])
          | gt =>
            rw [hx] at hb; simp at hb
            rcases hb with rfl | hb
            · exact hl _ (by simp)
            · exact ihl (fun y hy => hl y (by simp [hy])) b hb
      exact this rest hs.1 b hb

/-- a failed insertion (`new_obj` returned NULL, or the value copy for an existing key failed:
    `onDup = id`) restructures at most: the in-order sequence is unchanged and nothing is added -/
theorem put_none_inorder (k : K) : ∀ (fuel : Nat) (t : T α) (res : T α × Bool),
    put cmp key k none id fuel t = .ok res → inorder res.1 = inorder t ∧ res.2 = false := by
  intro fuel
  induction fuel with
  | zero => intro t res h; simp [put] at h
  | succ fuel ih =>
    intro t res h
    cases t with
    | nil => simp [put] at h; subst h; simp
    | node l a c r =>
      simp only [put] at h
      obtain ⟨t1, h1, h2⟩ := bind_eq_ok h
      obtain ⟨l1, c1, r1, rfl, il, ir, _, _⟩ := splitFour_node h1
      simp only at h2
      cases hcmp : cmp k (key a) with
      | eq =>
        rw [hcmp] at h2
        obtain ⟨t2, h3, h4⟩ := bind_eq_ok h2
        cases h4
        simp [(putUp_same h3).1, il, ir]
      | lt =>
        rw [hcmp] at h2
        obtain ⟨p, h3, h4⟩ := bind_eq_ok h2
        obtain ⟨t2, h5, h6⟩ := bind_eq_ok h4
        cases h6
        obtain ⟨i1, i2⟩ := ih l1 p h3
        simp [(putUp_same h5).1, i1, i2, il, ir]
      | gt =>
        rw [hcmp] at h2
        obtain ⟨p, h3, h4⟩ := bind_eq_ok h2
        obtain ⟨t2, h5, h6⟩ := bind_eq_ok h4
        cases h6
        obtain ⟨i1, i2⟩ := ih r1 p h3
        simp [(putUp_same h5).1, i1, i2, il, ir]

/-- an update of an existing key only (`mk = none`, arbitrary `onDup`): when the key is
    absent nothing changes -/
theorem put_absent_inorder (hc : CmpOk cmp) (k : K) (onDup : α → α) : ∀ (fuel : Nat) (t : T α) (res : T α × Bool),
    put cmp key k none onDup fuel t = .ok res → Ordered cmp key t →
    memL cmp key k (inorder t) = false → inorder res.1 = inorder t ∧ res.2 = false := by
  intro fuel
  induction fuel with
  | zero => intro t res h; simp [put] at h
  | succ fuel ih =>
    intro t res h hs hm
    cases t with
    | nil => simp [put] at h; subst h; simp
    | node l a c r =>
      simp only [put] at h
      obtain ⟨t1, h1, h2⟩ := bind_eq_ok h
      obtain ⟨l1, c1, r1, rfl, il, ir, _, _⟩ := splitFour_node h1
      obtain ⟨sl, sr, hla, har, hlr⟩ := sorted_mid (xs := inorder l) (ys := inorder r) (by simpa [Ordered] using hs)
      simp only at h2
      simp only [memL, inorder_node] at hm
      cases hcmp : cmp k (key a) with
      | eq =>
        rw [lookupL_eq k _ _ a (left_below hc hla (Or.inr hcmp)) hcmp] at hm
        simp at hm
      | lt =>
        rw [hcmp] at h2
        rw [lookupL_lt k _ _ a hcmp] at hm
        obtain ⟨p, h3, h4⟩ := bind_eq_ok h2
        obtain ⟨t2, h5, h6⟩ := bind_eq_ok h4
        cases h6
        obtain ⟨i1, i2⟩ := ih l1 p h3 (by simpa [Ordered, il] using sl) (by simpa [memL, il] using hm)
        simp [(putUp_same h5).1, i1, i2, il, ir]
      | gt =>
        rw [hcmp] at h2
        rw [lookupL_gt k _ _ a (left_below hc hla (Or.inl hcmp)) hcmp] at hm
        obtain ⟨p, h3, h4⟩ := bind_eq_ok h2
        obtain ⟨t2, h5, h6⟩ := bind_eq_ok h4
        cases h6
        obtain ⟨i1, i2⟩ := ih r1 p h3 (by simpa [Ordered, ir] using sr) (by simpa [memL, ir] using hm)
        simp [(putUp_same h5).1, i1, i2, il, ir]

end T
end Qlibc.Tree

/-
  Deletion, part 1: the class table of `remove_obj` / `remove_min` (which shapes of subtree
  the recursion is entered with, which shapes it returns), the `fix` lemmas for every
  admissible shape, and what the preparation steps (`move_red_left`, `rotate_right`,
  `move_red_right`) produce on every admissible shape.
-/
import QlibcModel.Tree.ListSpec

namespace Qlibc.Tree
open Qlibc
namespace T
variable {α : Type}

/-- input classes of the subtree handed to `remove_obj` (besides NULL) -/
inductive Cls
  | B   -- red root, valid
  | C   -- black root, red left child (3- or 4-node)
  | D   -- black root, black left, red right ("right-leaning"; only with key ≥ root key)
  | E   -- red root, black left, red right (a 4-node rotated right; only with key ≥ root key)
  deriving DecidableEq

/-- precondition on entry: class and black height of the children -/
def Pre : Cls → T α → Nat → Prop
  | .B, t, n => Bal t true n
  | .C, t, n => ∃ l a r cr, t = node l a false r ∧ Bal l true n ∧ Bal r cr n
  | .D, t, n => ∃ l a r, t = node l a false r ∧ Bal l false n ∧ Bal r true n
  | .E, t, n => ∃ l a r, t = node l a true r ∧ Bal l false n ∧ Bal r true n

/-- postcondition on return: same black height -/
def Post : Cls → T α → Nat → Prop
  | .B, t, n => ∃ c, Bal t c n
  | .C, t, n => Bal t false (n + 1)
  | .D, t, n => Bal t false (n + 1)
  | .E, t, n => Bal t true n ∨ Infra t n

/-- classes that `remove_min` (and the descent to the left) is entered with -/
def Cls.leftOk : Cls → Prop
  | .B => True
  | .C => True
  | _ => False

theorem Pre.ne_nil {cls : Cls} {t : T α} {n} (h : Pre cls t n) : t ≠ nil := by
  cases cls
  · cases h; simp
  · obtain ⟨_, _, _, _, rfl, _⟩ := h; simp
  · obtain ⟨_, _, _, rfl, _⟩ := h; simp
  · obtain ⟨_, _, _, rfl, _⟩ := h; simp

/-! ### `fix` on every shape that can come back from below -/

theorem fix_black {l r : T α} {a cl cr n} (hl : Bal l cl n) (hr : Bal r cr n) :
    ∃ t', fix (node l a false r) = .ok t' ∧ Bal t' false (n + 1) := by
  have e1 := hl.isRed_eq; have e2 := hr.isRed_eq
  cases cr
  · -- right black: nothing to rotate (a `Bal` left child has no red-red)
    cases cl
    · simp_all [fix, fixR, fixL]
      exact Bal.black hl hr (by simp)
    · cases hl with
      | red hll hlr =>
        have := hll.isRed_eq
        simp_all [fix, fixR, fixL]
        exact Bal.black (Bal.red hll hlr) hr (by simp)
  · cases hr with
    | red hrl hrr =>
      have e3 := hrl.isRed_eq
      cases cl
      · simp_all [fix, fixR, fixL]
        exact Bal.black (Bal.red hl hrl) hrr (by simp)
      · simp_all [fix, fixR, fixL]
        exact Bal.black hl (Bal.red hrl hrr) (by simp)

theorem fix_black_infraR {l r : T α} {a n} (hl : Bal l false n) (hr : Infra r n) :
    ∃ t', fix (node l a false r) = .ok t' ∧ Bal t' false (n + 1) := by
  have e1 := hl.isRed_eq
  cases hr with
  | mk hrl hrr =>
    cases hrl with
    | red hx hy =>
      simp_all [fix, fixR, fixL]
      exact Bal.black (Bal.red hl hx) (Bal.red hy hrr) (by simp)

theorem fix_red {l r : T α} {a n} (hl : Bal l false n) (hr : Bal r false n) :
    ∃ t', fix (node l a true r) = .ok t' ∧ Bal t' true n := by
  have e1 := hl.isRed_eq; have e2 := hr.isRed_eq
  simp_all [fix, fixR, fixL]
  exact Bal.red hl hr

theorem fix_red_redR {l r : T α} {a n} (hl : Bal l false n) (hr : Bal r true n) :
    ∃ t', fix (node l a true r) = .ok t' ∧ Infra t' n := by
  have e1 := hl.isRed_eq
  cases hr with
  | red hrl hrr =>
    have e3 := hrl.isRed_eq
    simp_all [fix, fixR, fixL]
    exact Infra.mk (Bal.red hl hrl) hrr

/-! ### the preparation step on the way down to the left (`remove_min`, and `remove_obj` going
    left): which class the left child is entered with, and that `fix` repairs whatever comes
    back -/

theorem minPrep_ok {cls : Cls} (hcls : cls.leftOk) {l : T α} {a c r n}
    (h : Pre cls (node l a c r) n) (hl : l ≠ nil) :
    ∃ l1 a1 c1 r1, minPrep (node l a c r) = .ok (node l1 a1 c1 r1) ∧ (a1 = a ∨ a1 ∈ inorder r) ∧
      ∃ cls' m, cls'.leftOk ∧ Pre cls' l1 m ∧
        ∀ a' x, Post cls' x m → ∃ t', fix (node x a' c1 r1) = .ok t' ∧ Post cls t' n := by
  cases cls with
  | D => exact hcls.elim
  | E => exact hcls.elim
  | C =>
    obtain ⟨l0, a0, r0, cr, heq, hbl, hbr⟩ := h
    cases heq
    have e1 := hbl.isRed_eq
    have p : minPrep (node l a false r) = .ok (node l a false r) := by simp [minPrep, e1]
    refine ⟨_, _, _, _, p, Or.inl rfl, .B, n, trivial, hbl, ?_⟩
    intro a' x ⟨cx, hx⟩
    exact fix_black hx hbr
  | B =>
    cases h with
    | red hbl hbr =>
    cases hbl with
    | nil => exact (hl rfl).elim
    | @black ll lr la cll clr m hll hlr hlean =>
      have e1 := hll.isRed_eq
      cases cll
      · -- left child is a 2-node: move red left
        have hclr : clr = false := by cases clr <;> simp_all
        subst hclr
        cases hbr with
        | @black rl rr ra crl crr _ hrl hrr hrlean =>
          have e2 := hrl.isRed_eq
          cases crl
          · have hcrr : crr = false := by cases crr <;> simp_all
            subst hcrr
            have p : minPrep (node (node ll la false lr) a true (node rl ra false rr)) =
                .ok (node (node ll la true lr) a false (node rl ra true rr)) := by
              simp [minPrep, moveRedLeft, mrlBody, e1, e2]
            refine ⟨_, _, _, _, p, Or.inl rfl, .B, m, trivial, Bal.red hll hlr, ?_⟩
            intro a' x ⟨cx, hx⟩
            obtain ⟨t', h1, h2⟩ := fix_black (a := a') hx (Bal.red hrl hrr)
            exact ⟨t', h1, false, h2⟩
          · cases hrl with
            | @red rll rlr rla _ hrll hrlr =>
              have e3 := hrr.isRed_eq
              cases crr
              · have p : minPrep (node (node ll la false lr) a true (node (node rll rla true rlr) ra false rr)) =
                    .ok (node (node (node ll la true lr) a false rll) rla true (node rlr ra false rr)) := by
                  simp [minPrep, moveRedLeft, mrlBody, mrlTail, e1, e3]
                refine ⟨_, _, _, _, p, Or.inr (by simp), .C, m, trivial,
                  ⟨_, _, _, _, rfl, Bal.red hll hlr, hrll⟩, ?_⟩
                intro a' x hx
                obtain ⟨t', h1, h2⟩ := fix_red (a := a') hx (Bal.black hrlr hrr (by simp))
                exact ⟨t', h1, true, h2⟩
              · cases hrr with
                | @red rrl rrr rra _ hrrl hrrr =>
                  have p : minPrep (node (node ll la false lr) a true
                        (node (node rll rla true rlr) ra false (node rrl rra true rrr))) =
                      .ok (node (node (node ll la true lr) a false rll) rla true
                        (node (node rlr ra true rrl) rra false rrr)) := by
                    simp [minPrep, moveRedLeft, mrlBody, mrlTail, e1]
                  refine ⟨_, _, _, _, p, Or.inr (by simp), .C, m, trivial,
                    ⟨_, _, _, _, rfl, Bal.red hll hlr, hrll⟩, ?_⟩
                  intro a' x hx
                  obtain ⟨t', h1, h2⟩ := fix_red (a := a') hx
                    (Bal.black (Bal.red hrlr hrrl) hrrr (by simp))
                  exact ⟨t', h1, true, h2⟩
      · -- left child is a 3- or 4-node: descend
        have p : minPrep (node (node ll la false lr) a true r) =
            .ok (node (node ll la false lr) a true r) := by simp [minPrep, e1]
        refine ⟨_, _, _, _, p, Or.inl rfl, .C, m, trivial, ⟨_, _, _, _, rfl, hll, hlr⟩, ?_⟩
        intro a' x hx
        obtain ⟨t', h1, h2⟩ := fix_red (a := a') hx hbr
        exact ⟨t', h1, true, h2⟩

theorem leftPrep_eq_minPrep {t : T α} (h : left t ≠ nil) : leftPrep t = minPrep t := by
  cases t with
  | nil => simp at h
  | node l a c r =>
    cases l with
    | nil => simp at h
    | node ll la lc lr => simp [leftPrep, minPrep]

/-! ### the preparation steps on the way down to the right -/

/-- what `remove_obj` has in hand after `rotate_right` / `move_red_right`: the node
    `node l2 a2 c2 r2` it continues with. Either its payload is still the one the key was
    compared with, and `r2` is a class `remove_min` accepts; or a rotation brought the left
    child's payload `la` to the top (the C code compares again: `b2`), and the old root is now
    the root of `r2`. -/
theorem rightPrep_ok {cls : Cls} {l : T α} {a c r n}
    (h : Pre cls (node l a c r) n) (hr : cls = .B → r ≠ nil) :
    ∃ l1 a1 c1 r1 b1 l2 a2 c2 r2 b2,
      rightPrep1 (node l a c r) = .ok (node l1 a1 c1 r1, b1) ∧ isNil r1 = false ∧
      rightPrep2 (node l1 a1 c1 r1) b1 = .ok (node l2 a2 c2 r2, b2) ∧
      ∃ cls' m, Pre cls' r2 m ∧
        (∀ a' x, Post cls' x m → ∃ t', fix (node l2 a' c2 x) = .ok t' ∧ Post cls t' n) ∧
        ((a2 = a ∧ cls'.leftOk) ∨
         (∃ ll la lc lr, l = node ll la lc lr ∧ a2 = la ∧ b2 = true ∧ ∃ x cx y, r2 = node x a cx y)) := by
  cases cls with
  | B =>
    cases h with
    | red hbl hbr =>
    cases hbr with
    | nil => exact (hr rfl rfl).elim
    | @black rl rr ra crl crr m hrl hrr hrlean =>
      have e1 := hbl.isRed_eq
      have e2 := hrl.isRed_eq
      have p1 : rightPrep1 (node l a true (node rl ra false rr)) =
          .ok (node l a true (node rl ra false rr), false) := by simp [rightPrep1, e1]
      cases crl
      · -- right child is a 2-node: move red right
        have hcrr : crr = false := by cases crr <;> simp_all
        subst hcrr
        cases hbl with
        | @black ll lr la cll clr _ hll hlr hlean =>
          have e3 := hll.isRed_eq
          cases cll
          · have hclr : clr = false := by cases clr <;> simp_all
            subst hclr
            have p2 : rightPrep2 (node (node ll la false lr) a true (node rl ra false rr)) false =
                .ok (node (node ll la true lr) a false (node rl ra true rr), true) := by
              simp [rightPrep2, moveRedRight, mrrBody, e2, e3]
            refine ⟨_, _, _, _, _, _, _, _, _, _, p1, rfl, p2, .B, m, Bal.red hrl hrr, ?_,
              Or.inl ⟨rfl, trivial⟩⟩
            intro a' x ⟨cx, hx⟩
            obtain ⟨t', h1, h2⟩ := fix_black (a := a') (Bal.red hll hlr) hx
            exact ⟨t', h1, false, h2⟩
          · cases hll with
            | @red lll llr lla _ hlll hllr =>
              have p2 : rightPrep2 (node (node (node lll lla true llr) la false lr) a true
                    (node rl ra false rr)) false =
                  .ok (node (node lll lla false llr) la true
                    (node lr a false (node rl ra true rr)), true) := by
                simp [rightPrep2, moveRedRight, mrrBody, e2]
              have hk : ∀ a' x, Bal x false (m + 1) →
                  ∃ t', fix (node (node lll lla false llr) a' true x) = .ok t' ∧
                    Post .B t' (m + 1) := by
                intro a' x hx
                obtain ⟨t', h1, h2⟩ := fix_red (a := a') (Bal.black hlll hllr (by simp)) hx
                exact ⟨t', h1, true, h2⟩
              cases clr
              · exact ⟨_, _, _, _, _, _, _, _, _, _, p1, rfl, p2, .D, m,
                  ⟨_, _, _, rfl, hlr, Bal.red hrl hrr⟩, hk,
                  Or.inr ⟨_, _, _, _, rfl, rfl, rfl, _, _, _, rfl⟩⟩
              · exact ⟨_, _, _, _, _, _, _, _, _, _, p1, rfl, p2, .C, m,
                  ⟨_, _, _, _, rfl, hlr, Bal.red hrl hrr⟩, hk,
                  Or.inr ⟨_, _, _, _, rfl, rfl, rfl, _, _, _, rfl⟩⟩
      · -- right child is a 3- or 4-node
        have p2 : rightPrep2 (node l a true (node rl ra false rr)) false =
            .ok (node l a true (node rl ra false rr), false) := by
          simp [rightPrep2, e2]
        refine ⟨_, _, _, _, _, _, _, _, _, _, p1, rfl, p2, .C, m, ⟨_, _, _, _, rfl, hrl, hrr⟩, ?_,
          Or.inl ⟨rfl, trivial⟩⟩
        intro a' x hx
        obtain ⟨t', h1, h2⟩ := fix_red (a := a') hbl hx
        exact ⟨t', h1, true, h2⟩
  | C =>
    obtain ⟨l0, a0, r0, cr, heq, hbl, hbr⟩ := h
    cases heq
    cases hbl with
    | @red ll lr la _ hll hlr =>
      have p1 : rightPrep1 (node (node ll la true lr) a false r) =
          .ok (node ll la false (node lr a true r), true) := by simp [rightPrep1]
      have p2 : rightPrep2 (node ll la false (node lr a true r)) true =
          .ok (node ll la false (node lr a true r), true) := by simp [rightPrep2]
      cases cr
      · refine ⟨_, _, _, _, _, _, _, _, _, _, p1, rfl, p2, .B, n, Bal.red hlr hbr, ?_,
          Or.inr ⟨_, _, _, _, rfl, rfl, rfl, _, _, _, rfl⟩⟩
        intro a' x ⟨cx, hx⟩
        exact fix_black hll hx
      · refine ⟨_, _, _, _, _, _, _, _, _, _, p1, rfl, p2, .E, n, ⟨_, _, _, rfl, hlr, hbr⟩, ?_,
          Or.inr ⟨_, _, _, _, rfl, rfl, rfl, _, _, _, rfl⟩⟩
        intro a' x hx
        rcases hx with hx | hx
        · exact fix_black hll hx
        · exact fix_black_infraR hll hx
  | D =>
    obtain ⟨l0, a0, r0, heq, hbl, hbr⟩ := h
    cases heq
    have e1 := hbl.isRed_eq
    cases hbr with
    | @red rl rr ra _ hrl hrr =>
      have p1 : rightPrep1 (node l a false (node rl ra true rr)) =
          .ok (node l a false (node rl ra true rr), false) := by simp [rightPrep1, e1]
      have p2 : rightPrep2 (node l a false (node rl ra true rr)) false =
          .ok (node l a false (node rl ra true rr), false) := by simp [rightPrep2]
      refine ⟨_, _, _, _, _, _, _, _, _, _, p1, rfl, p2, .B, n, Bal.red hrl hrr, ?_,
        Or.inl ⟨rfl, trivial⟩⟩
      intro a' x ⟨cx, hx⟩
      exact fix_black hbl hx
  | E =>
    obtain ⟨l0, a0, r0, heq, hbl, hbr⟩ := h
    cases heq
    have e1 := hbl.isRed_eq
    cases hbr with
    | @red rl rr ra _ hrl hrr =>
      have p1 : rightPrep1 (node l a true (node rl ra true rr)) =
          .ok (node l a true (node rl ra true rr), false) := by simp [rightPrep1, e1]
      have p2 : rightPrep2 (node l a true (node rl ra true rr)) false =
          .ok (node l a true (node rl ra true rr), false) := by simp [rightPrep2]
      refine ⟨_, _, _, _, _, _, _, _, _, _, p1, rfl, p2, .B, n, Bal.red hrl hrr, ?_,
        Or.inl ⟨rfl, trivial⟩⟩
      intro a' x ⟨cx, hx⟩
      cases cx
      · obtain ⟨t', h1, h2⟩ := fix_red (a := a') hbl hx
        exact ⟨t', h1, Or.inl h2⟩
      · obtain ⟨t', h1, h2⟩ := fix_red_redR (a := a') hbl hx
        exact ⟨t', h1, Or.inr h2⟩

end T
end Qlibc.Tree

/-
  `qtreetbl_byte_cmp` (memcmp on the common prefix, then the lengths) is a total order on
  byte strings.
-/
import QlibcModel.Tree.Inv

namespace Qlibc.Tree
open Qlibc

/-- `qtreetbl_byte_cmp` -/
def byteCmp : Bytes → Bytes → Ordering
  | [], [] => .eq
  | [], _ :: _ => .lt
  | _ :: _, [] => .gt
  | x :: xs, y :: ys => if x < y then .lt else if y < x then .gt else byteCmp xs ys

theorem byteCmp_refl : ∀ a, byteCmp a a = .eq := by
  intro a; induction a with
  | nil => rfl
  | cons x xs ih => simp [byteCmp, ih, UInt8.lt_irrefl]

theorem byteCmp_swap : ∀ a b, byteCmp a b = (byteCmp b a).swap := by
  intro a
  induction a with
  | nil => intro b; cases b <;> rfl
  | cons x xs ih =>
    intro b
    cases b with
    | nil => rfl
    | cons y ys =>
      simp only [byteCmp]
      by_cases h1 : x < y
      · have h2 : ¬ y < x := by
          intro h; exact absurd (UInt8.lt_trans h1 h) (UInt8.lt_irrefl _)
        simp [h1, h2]
      · by_cases h2 : y < x
        · simp [h1, h2]
        · simp [h1, h2, ih ys]

theorem byteCmp_eq_iff : ∀ a b, byteCmp a b = .eq ↔ a = b := by
  intro a
  induction a with
  | nil => intro b; cases b <;> simp [byteCmp]
  | cons x xs ih =>
    intro b
    cases b with
    | nil => simp [byteCmp]
    | cons y ys =>
      simp only [byteCmp]
      by_cases h1 : x < y
      · have : x ≠ y := by intro h; subst h; exact absurd h1 (UInt8.lt_irrefl _)
        simp [h1, this]
      · by_cases h2 : y < x
        · have : x ≠ y := by intro h; subst h; exact absurd h2 (UInt8.lt_irrefl _)
          simp [h1, h2, this]
        · have : x = y := by
            have := UInt8.le_antisymm (UInt8.not_lt.mp h2) (UInt8.not_lt.mp h1)
            exact this
          simp [h1, h2, this, ih ys]

theorem byteCmp_lt_trans : ∀ a b c, byteCmp a b = .lt → byteCmp b c = .lt → byteCmp a c = .lt := by
  intro a
  induction a with
  | nil =>
    intro b c h1 h2
    cases b with
    | nil => simp [byteCmp] at h1
    | cons y ys => cases c with
      | nil => simp [byteCmp] at h2
      | cons z zs => rfl
  | cons x xs ih =>
    intro b c h1 h2
    cases b with
    | nil => simp [byteCmp] at h1
    | cons y ys =>
      cases c with
      | nil => simp [byteCmp] at h2
      | cons z zs =>
        simp only [byteCmp] at h1 h2 ⊢
        by_cases hxy : x < y
        · by_cases hyz : y < z
          · simp [UInt8.lt_trans hxy hyz]
          · by_cases hzy : z < y
            · simp [hyz, hzy] at h2
            · have : y = z := UInt8.le_antisymm (UInt8.not_lt.mp hzy) (UInt8.not_lt.mp hyz)
              subst this; simp [hxy]
        · by_cases hyx : y < x
          · simp [hxy, hyx] at h1
          · have : x = y := UInt8.le_antisymm (UInt8.not_lt.mp hyx) (UInt8.not_lt.mp hxy)
            subst this
            simp [hxy] at h1
            by_cases hyz : x < z
            · simp [hyz]
            · by_cases hzy : z < x
              · simp [hyz, hzy] at h2
              · simp [hyz, hzy] at h2 ⊢
                exact ih ys zs h1 h2

theorem byteCmp_ok : T.CmpOk byteCmp where
  refl := byteCmp_refl
  swap := byteCmp_swap
  lt_trans := fun h1 h2 => byteCmp_lt_trans _ _ _ h1 h2
  eq_lt := fun h1 h2 => by rw [(byteCmp_eq_iff _ _).mp h1]; exact h2
  lt_eq := fun h1 h2 => by rw [← (byteCmp_eq_iff _ _).mp h2]; exact h1
  eq_trans := fun h1 h2 => by rw [(byteCmp_eq_iff _ _).mp h1]; exact h2

end Qlibc.Tree

namespace Qlibc.Tree
open Qlibc

/-- a comparator pulled back along a key transformation is again a total preorder
    (it identifies keys with the same image: e.g. case folding) -/
theorem T.CmpOk.comap {K K' : Type} {cmp : K' → K' → Ordering} (h : T.CmpOk cmp) (f : K → K') :
    T.CmpOk (fun a b => cmp (f a) (f b)) where
  refl := fun a => h.refl (f a)
  swap := fun a b => h.swap (f a) (f b)
  lt_trans := fun h1 h2 => h.lt_trans h1 h2
  eq_lt := fun h1 h2 => h.eq_lt h1 h2
  lt_eq := fun h1 h2 => h.lt_eq h1 h2
  eq_trans := fun h1 h2 => h.eq_trans h1 h2

/-- the reversed comparator is again a total preorder -/
theorem T.CmpOk.flip {K : Type} {cmp : K → K → Ordering} (h : T.CmpOk cmp) :
    T.CmpOk (fun a b => cmp b a) where
  refl := fun a => h.refl a
  swap := fun a b => h.swap b a
  lt_trans := fun h1 h2 => h.lt_trans h2 h1
  eq_lt := fun h1 h2 => h.lt_eq h2 h1
  lt_eq := fun h1 h2 => h.eq_lt h2 h1
  eq_trans := fun h1 h2 => h.eq_trans h2 h1

/-- ASCII lower-casing of one byte (the harness' case-folding comparator) -/
def lowerByte (c : UInt8) : UInt8 := if 65 ≤ c && c ≤ 90 then c + 32 else c

/-- a key without its trailing blanks -/
def stripBlanks (a : Bytes) : Bytes := (a.reverse.dropWhile (· == 0x20)).reverse

/-- the comparators the correspondence harness installs with `qtreetbl_set_compare`:
    0 = `qtreetbl_byte_cmp`, 1 = reverse order, 2 = ASCII case folding (identifies keys of equal
    length), 3 = trailing blanks ignored (identifies keys of DIFFERENT lengths), 4 = the byte order
    computed by a comparator with a side effect (it sets errno): the byte order in the model -/
def harnessCmp (mode : Nat) : Bytes → Bytes → Ordering :=
  match mode with
  | 1 => fun a b => byteCmp b a
  | 2 => fun a b => byteCmp (a.map lowerByte) (b.map lowerByte)
  | 3 => fun a b => byteCmp (stripBlanks a) (stripBlanks b)
  | _ => byteCmp

/-- every comparator used by the harness satisfies the hypothesis of the C01–C04 theorems -/
theorem harnessCmp_ok (mode : Nat) : T.CmpOk (harnessCmp mode) := by
  unfold harnessCmp
  split
  · exact byteCmp_ok.flip
  · exact byteCmp_ok.comap (fun (a : Bytes) => a.map lowerByte)
  · exact byteCmp_ok.comap stripBlanks
  · exact byteCmp_ok

end Qlibc.Tree

/-
  `qtreetbl_byte_cmp` (memcmp on the common prefix, then the lengths) is a total order on
  byte strings.
-/
import QlibcModel.Tree.Inv

namespace Qlibc.Tree
open Qlibc

/-- `qtreetbl_byte_cmp` -/
def byteCmp : Bytes → Bytes → Ordering
  | [], [] => .eq
  | [], _ :: _ => .lt
  | _ :: _, [] => .gt
  | x :: xs, y :: ys => if x < y then .lt else if y < x then .gt else byteCmp xs ys

theorem byteCmp_refl : ∀ a, byteCmp a a = .eq := by
  intro a; induction a with
  | nil => rfl
  | cons x xs ih => simp [byteCmp, ih, UInt8.lt_irrefl]

theorem byteCmp_swap : ∀ a b, byteCmp a b = (byteCmp b a).swap := by
  intro a
  induction a with
  | nil => intro b; cases b <;> rfl
  | cons x xs ih =>
    intro b
    cases b with
    | nil => rfl
    | cons y ys =>
      simp only [byteCmp]
      by_cases h1 : x < y
      · have h2 : ¬ y < x := by
          intro h; exact absurd (UInt8.lt_trans h1 h) (UInt8.lt_irrefl _)
        simp [h1, h2]
      · by_cases h2 : y < x
        · simp [h1, h2]
        · simp [h1, h2, ih ys]

theorem byteCmp_eq_iff : ∀ a b, byteCmp a b = .eq ↔ a = b := by
  intro a
  induction a with
  | nil => intro b; cases b <;> simp [byteCmp]
  | cons x xs ih =>
    intro b
    cases b with
    | nil => simp [byteCmp]
    | cons y ys =>
      simp only [byteCmp]
      by_cases h1 : x < y
      · have : x ≠ y := by intro h; subst h; exact absurd h1 (UInt8.lt_irrefl _)
        simp [h1, this]
      · by_cases h2 : y < x
        · have : x ≠ y := by intro h; subst h; exact absurd h2 (UInt8.lt_irrefl _)
          simp [h1, h2, this]
        · have : x = y := by
            have := UInt8.le_antisymm (UInt8.not_lt.mp h2) (UInt8.not_lt.mp h1)
            exact this
          simp [h1, h2, this, ih ys]

theorem byteCmp_lt_trans : ∀ a b c, byteCmp a b = .lt → byteCmp b c = .lt → byteCmp a c = .lt := by
  intro a
  induction a with
  | nil =>
    intro b c h1 h2
    cases b with
    | nil => simp [byteCmp] at h1
    | cons y ys => cases c with
      | nil => simp [byteCmp] at h2
      | cons z zs => rfl
  | cons x xs ih =>
    intro b c h1 h2
    cases b with
    | nil => simp [byteCmp] at h1
    | cons y ys =>
      cases c with
      | nil => simp [byteCmp] at h2
      | cons z zs =>
        simp only [byteCmp] at h1 h2 ⊢
        by_cases hxy : x < y
        · by_cases hyz : y < z
          · simp [UInt8.lt_trans hxy hyz]
          · by_cases hzy : z < y
            · simp [hyz, hzy] at h2
            · have : y = z := UInt8.le_antisymm (UInt8.not_lt.mp hzy) (UInt8.not_lt.mp hyz)
              subst this; simp [hxy]
        · by_cases hyx : y < x
          · simp [hxy, hyx] at h1
          · have : x = y := UInt8.le_antisymm (UInt8.not_lt.mp hyx) (UInt8.not_lt.mp hxy)
            subst this
            simp [hxy] at h1
            by_cases hyz : x < z
            · simp [hyz]
            · by_cases hzy : z < x
              · simp [hyz, hzy] at h2
              · simp [hyz, hzy] at h2 ⊢
                exact ih ys zs h1 h2

theorem byteCmp_ok : T.CmpOk byteCmp where
  refl := byteCmp_refl
  swap := byteCmp_swap
  lt_trans := fun h1 h2 => byteCmp_lt_trans _ _ _ h1 h2
  eq_lt := fun h1 h2 => by rw [(byteCmp_eq_iff _ _).mp h1]; exact h2
  lt_eq := fun h1 h2 => by rw [← (byteCmp_eq_iff _ _).mp h2]; exact h1
  eq_trans := fun h1 h2 => by rw [(byteCmp_eq_iff _ _).mp h1]; exact h2

end Qlibc.Tree

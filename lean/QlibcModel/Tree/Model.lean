/-
  Executable model of the left-leaning red-black tree of src/containers/qtreetbl.c
  (LLRB234 variant: `#define LLRB234` is checked by the translator, see
  Generated/TreeConfig.lean), function by function.

  * generic in the node payload `α` (key, value and the traversal fields travel with the node
    through rotations, exactly as the C node does) and in the key type `K` with comparator `cmp`
  * `flip`, `rotL`, `rotR` dereference children: a missing child is `Fault.nullDeref`
  * `put` / `removeMin` / `remove` recurse on restructured subtrees: fuel (height + 1 suffices)
-/
import QlibcModel.Base.Fault

namespace Qlibc.Tree
open Qlibc

inductive T (α : Type) where
  | nil : T α
  | node (l : T α) (a : α) (red : Bool) (r : T α) : T α
  deriving Repr, Inhabited

namespace T
variable {α : Type}

def size : T α → Nat
  | nil => 0
  | node l _ _ r => size l + 1 + size r

def height : T α → Nat
  | nil => 0
  | node l _ _ r => max (height l) (height r) + 1

def inorder : T α → List α
  | nil => []
  | node l a _ r => inorder l ++ a :: inorder r

/-- `is_red(obj)`: NULL is black -/
def isRed : T α → Bool
  | node _ _ c _ => c
  | nil => false

/-- `obj->left` of a node known to exist (callers establish non-NULL before) -/
def left : T α → T α
  | node l _ _ _ => l
  | nil => nil

def right : T α → T α
  | node _ _ _ r => r
  | nil => nil

def isNil : T α → Bool
  | nil => true
  | _ => false

/-- `root->red = false` (no-op on NULL: both call sites test for NULL) -/
def blacken : T α → T α
  | node l a _ r => node l a false r
  | nil => nil

/-- `flip_color`: toggles the node and both children; all three must exist -/
def flip : T α → Except Fault (T α)
  | node (node ll la lc lr) a c (node rl ra rc rr) =>
    .ok (node (node ll la (!lc) lr) a (!c) (node rl ra (!rc) rr))
  | _ => .error .nullDeref

/-- `rotate_left`: x = obj->right; obj->right = x->left; x->left = obj;
    x->red = obj->red; obj->red = true -/
def rotL : T α → Except Fault (T α)
  | node l a c (node rl ra _ rr) => .ok (node (node l a true rl) ra c rr)
  | _ => .error .nullDeref

def rotR : T α → Except Fault (T α)
  | node (node ll la _ lr) a c r => .ok (node ll la c (node lr a true r))
  | _ => .error .nullDeref

/-- the "2-3-4 exclusive" tail of `move_red_left` -/
def mrlTail : T α → Except Fault (T α)
  | nil => .error .nullDeref
  | node l2 a2 c2 r2 =>
    if isRed (right r2) then rotL r2 >>= fun r3 => .ok (node l2 a2 c2 r3)
    else .ok (node l2 a2 c2 r2)

/-- `move_red_left` after the first `flip_color` -/
def mrlBody : T α → Except Fault (T α)
  | nil => .error .nullDeref
  | node l a c r =>
    if isRed (left r) then
      rotR r >>= fun r' => rotL (node l a c r') >>= fun t => flip t >>= mrlTail
    else .ok (node l a c r)

/-- `move_red_left` -/
def moveRedLeft (t : T α) : Except Fault (T α) := flip t >>= mrlBody

/-- `move_red_right` after the first `flip_color` -/
def mrrBody (t : T α) : Except Fault (T α) :=
  if isRed (left (left t)) then rotR t >>= flip else .ok t

/-- `move_red_right` -/
def moveRedRight (t : T α) : Except Fault (T α) := flip t >>= mrrBody

/-- first half of `fix`: rotate a right red to the left -/
def fixR : T α → Except Fault (T α)
  | nil => .error .nullDeref
  | node l a c r =>
    if isRed r then
      -- 2-3-4 exclusive
      (if isRed (left r) then rotR r else .ok r) >>= fun r' => rotL (node l a c r')
    else .ok (node l a c r)

/-- second half of `fix` (and of the fix-ups in `put_obj`): rotate a left red-red to the right -/
def fixL (t : T α) : Except Fault (T α) :=
  if isRed (left t) && isRed (left (left t)) then rotR t else .ok t

/-- `fix` (LLRB234: no 4-node split on the way up) -/
def fix (t : T α) : Except Fault (T α) := fixR t >>= fixL

/-- `find_min` (NULL gives ENOENT = `none`) -/
def findMin : T α → Option α
  | nil => none
  | node nil a _ _ => some a
  | node l _ _ _ => findMin l

def findMax : T α → Option α
  | nil => none
  | node _ a _ nil => some a
  | node _ _ _ r => findMax r

/-- `if (!is_red(obj->left) && !is_red(obj->left->left)) obj = move_red_left(obj);` -/
def minPrep (t : T α) : Except Fault (T α) :=
  if !isRed (left t) && !isRed (left (left t)) then moveRedLeft t else .ok t

/-- `remove_min` -/
def removeMin : (fuel : Nat) → T α → Except Fault (T α)
  | 0, _ => .error .outOfFuel
  | _, nil => .error .nullDeref
  | fuel + 1, node l a c r =>
    if isNil l then .ok nil              -- leaf: freed
    else
      minPrep (node l a c r) >>= fun t =>
      match t with
      | nil => .error .nullDeref
      | node l1 a1 c1 r1 => removeMin fuel l1 >>= fun l2 => fix (node l2 a1 c1 r1)

section keyed
variable {K : Type} (cmp : K → K → Ordering) (key : α → K)

/-- `find_obj`: plain BST descent; also counts comparator calls (C02's lookup cost) -/
def find (k : K) : T α → Option α × Nat
  | nil => (none, 0)
  | node l a _ r =>
    match cmp k (key a) with
    | .eq => (some a, 1)
    | .lt => let (x, n) := find k l; (x, n + 1)
    | .gt => let (x, n) := find k r; (x, n + 1)

/-- first fix-up of `put_obj` on the way up: a right-leaning red -/
def putUp1 (t : T α) : Except Fault (T α) :=
  if isRed (right t) && !isRed (left t) then rotL t else .ok t

/-- the fix-ups of `put_obj` on the way up (LLRB234: no split on the way up) -/
def putUp (t : T α) : Except Fault (T α) := putUp1 t >>= fixL

/-- split 4-nodes on the way down (2-3-4 exclusive) -/
def splitFour (t : T α) : Except Fault (T α) :=
  if isRed (left t) && isRed (right t) then flip t else .ok t

/-- `put_obj` for key `k`. `mk` is the payload of the freshly allocated node — `none` when
    `new_obj` fails (ENOMEM): the descent, the 4-node splits and the fix-ups still happen, only
    the leaf is missing. `onDup` is the in-place value replacement for an existing key.
    Returns the new subtree and whether a node was added (`tbl->num++`). -/
def put (k : K) (mk : Option α) (onDup : α → α) : (fuel : Nat) → T α → Except Fault (T α × Bool)
  | 0, _ => .error .outOfFuel
  | _, nil =>
    match mk with
    | some new => .ok (node nil new true nil, true)
    | none => .ok (nil, false)
  | fuel + 1, node l a c r =>
    splitFour (node l a c r) >>= fun t =>
    match t with
    | nil => .error .nullDeref
    | node l1 a1 c1 r1 =>
      match cmp k (key a1) with
      | .eq => putUp (node l1 (onDup a1) c1 r1) >>= fun t => .ok (t, false)
      | .lt => put k mk onDup fuel l1 >>= fun p => putUp (node p.1 a1 c1 r1) >>= fun t => .ok (t, p.2)
      | .gt => put k mk onDup fuel r1 >>= fun p => putUp (node l1 a1 c1 p.1) >>= fun t => .ok (t, p.2)

/-- going left in `remove_obj`: move red left when the left child is a 2-node -/
def leftPrep (t : T α) : Except Fault (T α) :=
  if !isNil (left t) && (!isRed (left t) && !isRed (left (left t))) then moveRedLeft t else .ok t

/-- going right in `remove_obj`, first step: lean a red left child to the right -/
def rightPrep1 (t : T α) : Except Fault (T α × Bool) :=
  if isRed (left t) then rotR t >>= fun t => .ok (t, true) else .ok (t, false)

/-- going right in `remove_obj`, second step: move red right when the right child is a 2-node -/
def rightPrep2 (t : T α) (recmp : Bool) : Except Fault (T α × Bool) :=
  if !isNil (right t) && (!isRed (right t) && !isRed (left (right t))) then
    moveRedRight t >>= fun t => .ok (t, true)
  else .ok (t, recmp)

/-- `remove_obj`. `copyKV dst src` is "free dst's key/value, copy src's into dst" (the node
    itself, with its traversal fields, stays). Returns the new subtree and whether ENOENT was
    raised (`errno = ENOENT`; nothing resets it afterwards). -/
def remove (copyKV : α → α → α) (k : K) : (fuel : Nat) → T α → Except Fault (T α × Bool)
  | 0, _ => .error .outOfFuel
  | _, nil => .ok (nil, true)
  | fuel + 1, node l a c r =>
    match cmp k (key a) with
    | .lt =>
      leftPrep (node l a c r) >>= fun t =>
      match t with
      | nil => .error .nullDeref
      | node l1 a1 c1 r1 =>
        remove copyKV k fuel l1 >>= fun p => fix (node p.1 a1 c1 r1) >>= fun t => .ok (t, p.2)
    | o =>   -- right or equal
      rightPrep1 (node l a c r) >>= fun p1 =>
      match p1.1 with
      | nil => .error .nullDeref
      | node l1 a1 c1 r1 =>
        -- remove if equal at the bottom
        let o1 := if isNil r1 && p1.2 then cmp k (key a1) else o
        let recmp := if isNil r1 then false else p1.2
        if isNil r1 && o1 == .eq then .ok (nil, false)       -- freed, num--
        else
          rightPrep2 (node l1 a1 c1 r1) recmp >>= fun p2 =>
          match p2.1 with
          | nil => .error .nullDeref
          | node l2 a2 c2 r2 =>
            let o2 := if p2.2 then cmp k (key a2) else o1
            if o2 == .eq then
              -- copy min to this then remove min
              match findMin r2 with
              | none => .error .assertFail
              | some m =>
                removeMin fuel r2 >>= fun r3 => fix (node l2 (copyKV a2 m) c2 r3) >>= fun t => .ok (t, false)
            else
              remove copyKV k fuel r2 >>= fun p => fix (node l2 a2 c2 p.1) >>= fun t => .ok (t, p.2)

end keyed

/-! ### `qtreetbl_check` -/

def checkRed : T α → Bool       -- true = violation (`node_check_red` returns 1)
  | nil => false
  | node l _ c r => (c && (isRed r || isRed l)) || checkRed r || checkRed l

/-- `node_check_black`: `none` = violation, `some n` = path length -/
def checkBlack : T α → Option Nat
  | nil => some 1
  | node l _ c r =>
    match checkBlack r, checkBlack l with
    | some rp, some lp => if rp != lp then none else some (if !c then rp + 1 else rp)
    | _, _ => none

def checkLean : T α → Bool      -- true = violation
  | nil => false
  | node l _ _ r => (isRed r && !isRed l) || checkLean r || checkLean l

/-- `qtreetbl_check`: 0 = valid, 1 root red, 2 red-red, 3 black balance, 4 right-leaning -/
def check (t : T α) : Nat :=
  if isRed t then 1
  else if checkRed t then 2
  else if (checkBlack t).isNone then 3
  else if checkLean t then 4
  else 0

end T
end Qlibc.Tree

/-
  The tree table proper: `qtreetbl_t` with its node payload (key, value, traversal id and
  parent pointer), the public operations, and the two pointer machines `qtreetbl_getnext`
  and `qtreetbl_find_nearest`.

  Nodes the C code reaches through stored pointers (`obj->next`, the caller's cursor) carry a
  unique `id`; a stored pointer is an `Option Nat`; dereferencing an id that is no longer in
  the tree is `Fault.dangling`.
-/
import QlibcModel.Tree.Model

namespace Qlibc.Tree
open Qlibc T

/-- payload of a tree node (`qtreetbl_obj_t` minus colour and children) -/
structure Entry (K V : Type) where
  key  : K
  val  : V
  id   : Nat
  tid  : UInt8 := 0          -- calloc'ed
  next : Option Nat := none
  deriving Repr, Inhabited

/-- `qtreetbl_t` -/
structure Tbl (K V : Type) where
  root  : T (Entry K V) := .nil
  num   : Nat := 0
  tid   : UInt8 := 0
  fresh : Nat := 0            -- allocation counter: id of the next node
  deriving Inhabited

/-- the caller's `qtreetbl_obj_t` used as a cursor: only `tid` and `next` matter -/
structure Cur where
  tid  : UInt8 := 0
  next : Option Nat := none
  deriving Repr, Inhabited, DecidableEq

variable {K V : Type}

/-- subtree rooted at the node with identifier `i` -/
def lookup (i : Nat) : T (Entry K V) → Option (T (Entry K V))
  | .nil => none
  | .node l a c r =>
    if a.id = i then some (.node l a c r)
    else match lookup i l with
      | some t => some t
      | none => lookup i r

/-- apply `f` to the payload of the node with identifier `i` -/
def modify (i : Nat) (f : Entry K V → Entry K V) : T (Entry K V) → T (Entry K V)
  | .nil => .nil
  | .node l a c r =>
    if a.id = i then .node l (f a) c r
    else .node (modify i f l) a c (modify i f r)

def rootId : T (Entry K V) → Option Nat
  | .nil => none
  | .node _ a _ _ => some a.id

/-- `clear_tids` -/
def clearTids : T (Entry K V) → T (Entry K V)
  | .nil => .nil
  | .node l a c r => .node (clearTids l) { a with tid := 0 } c (clearTids r)

/-- `reset_iterator`: `if (root) root->next = NULL; if (++tbl->tid == 0) { clear_tids(root);
    tbl->tid = 1; } return tbl->tid;` — the counter is 8 bits wide -/
def resetIterator (s : Tbl K V) : Tbl K V :=
  let root := match s.root with
    | .nil => .nil
    | .node l a c r => .node l { a with next := none } c r
  if s.tid + 1 = 0 then { s with root := clearTids root, tid := 1 }
  else { s with root := root, tid := s.tid + 1 }

/-- `qtreetbl(0)`: calloc, then `reset_iterator` -/
def Tbl.init : Tbl K V := resetIterator {}

section ops
variable (cmp : K → K → Ordering)

def keyOf (e : Entry K V) : K := e.key

/-- the current source replaces the value of an existing key by ANY new value (also an empty
    one); the pinned tree kept the old value when the new one was empty (`qmemdup(data, 0)` is
    NULL) - repaired, see known_findings.txt -/
def replaceAlways : V → Bool := fun _ => false

/-- `qtreetbl_putobj` (name and namesize valid). `isEmpty v`: put of `v` over an existing key
    keeps the old value. The theorems hold for every such predicate; the code is the instance
    `replaceAlways` (used by `putobjF`, the driver and the property theorems). -/
def Tbl.putobj (isEmpty : V → Bool) (s : Tbl K V) (k : K) (v : V) : Except Fault (Tbl K V × Bool) := do
  let new : Entry K V := { key := k, val := v, id := s.fresh }
  let onDup := fun (e : Entry K V) => if isEmpty v then e else { e with val := v }
  let (root, added) ← T.put cmp keyOf k (some new) onDup (s.root.size + 1) s.root
  pure ({ s with root := root.blacken, num := if added then s.num + 1 else s.num,
                 fresh := if added then s.fresh + 1 else s.fresh }, true)

/-- `qtreetbl_getobj`: the stored value (NULL data = not found is the caller's reading) -/
def Tbl.getobj (s : Tbl K V) (k : K) : Option V :=
  ((T.find cmp keyOf k s.root).1).map (·.val)

/-- number of comparator calls of the lookup -/
def Tbl.getCost (s : Tbl K V) (k : K) : Nat := (T.find cmp keyOf k s.root).2

def copyKV (dst src : Entry K V) : Entry K V := { dst with key := src.key, val := src.val }

/-- `qtreetbl_removeobj`: returns `removed = (errno != ENOENT)` -/
def Tbl.removeobj (s : Tbl K V) (k : K) : Except Fault (Tbl K V × Bool) := do
  let (root, enoent) ← T.remove cmp keyOf copyKV k (s.root.size + 1) s.root
  pure ({ s with root := root.blacken, num := if enoent then s.num else s.num - 1 }, !enoent)

end ops

def Tbl.size (s : Tbl K V) : Nat := s.num
def Tbl.findMin (s : Tbl K V) : Option K := (T.findMin s.root).map (·.key)
def Tbl.findMax (s : Tbl K V) : Option K := (T.findMax s.root).map (·.key)
def Tbl.clear (s : Tbl K V) : Tbl K V := { s with root := .nil, num := 0 }

/-! ### `qtreetbl_getnext` -/

inductive WalkOut (K V : Type) where
  | item (k : K) (v : V) (cur : Cur)     -- returned true; the caller's object after the call
  | done                                 -- returned false
  deriving Repr

/-- the `while (cursor != NULL)` loop; `cursor` is an id -/
def getnextLoop (tid : UInt8) : (fuel : Nat) → T (Entry K V) → Option Nat →
    Except Fault (T (Entry K V) × Option (Entry K V))
  | 0, _, _ => .error .outOfFuel
  | _, root, none => .ok (root, none)
  | fuel + 1, root, some c =>
    match lookup c root with
    | none => .error .dangling
    | some .nil => .error .dangling
    | some (.node l a _ r) =>
      match l with
      | .node _ la _ _ =>
        if la.tid != tid then
          getnextLoop tid fuel (modify la.id (fun e => { e with next := some c }) root) (some la.id)
        else visit fuel root c a r
      | .nil => visit fuel root c a r
where
  visit (fuel : Nat) (root : T (Entry K V)) (c : Nat) (a : Entry K V) (r : T (Entry K V)) :
      Except Fault (T (Entry K V) × Option (Entry K V)) :=
    if a.tid != tid then
      .ok (modify c (fun e => { e with tid := tid }) root, some { a with tid := tid })
    else
      match r with
      | .node _ ra _ _ =>
        if ra.tid != tid then
          getnextLoop tid fuel (modify ra.id (fun e => { e with next := some c }) root) (some ra.id)
        else getnextLoop tid fuel root a.next
      | .nil => getnextLoop tid fuel root a.next

/-- `qtreetbl_getnext(tbl, obj, newmem)` for `obj ≠ NULL` -/
def Tbl.getnext (s : Tbl K V) (cur : Cur) : Except Fault (Tbl K V × WalkOut K V) :=
  match cur.next, s.root with
  | none, .nil => .ok (s, .done)                       -- first call on an empty table
  | _, _ =>
    let (s1, tid) : Tbl K V × UInt8 :=
      if cur.next.isNone then let s1 := resetIterator s; (s1, s1.tid) else (s, cur.tid)
    let start := match cur.next with
      | some c => some c
      | none => rootId s1.root
    match getnextLoop tid (3 * s1.root.size + 3) s1.root start with
    | .error f => .error f
    | .ok (root, some a) =>
      .ok ({ s1 with root := root }, .item a.key a.val { tid := tid, next := some a.id })
    | .ok (root, none) => .ok (resetIterator { s1 with root := root }, .done)

/-! ### `qtreetbl_find_nearest` -/

section nearest
variable (cmp : K → K → Ordering)

/-- the descent: writes `child->next = parent` on every edge taken; returns the tree, the
    node found (`obj`) and the last node visited (`lastobj`), as ids -/
def nearestDown (k : K) : (fuel : Nat) → T (Entry K V) → (obj last : Option Nat) →
    Except Fault (T (Entry K V) × Option Nat × Option Nat)
  | 0, _, _, _ => .error .outOfFuel
  | _, root, none, last => .ok (root, none, last)
  | fuel + 1, root, some o, _ =>
    match lookup o root with
    | none => .error .dangling
    | some .nil => .error .dangling
    | some (.node l a _ r) =>
      match cmp k a.key with
      | .eq => .ok (root, some o, some o)
      | .lt =>
        match l with
        | .node _ la _ _ =>
          nearestDown k fuel (modify la.id (fun e => { e with next := some o }) root) (some la.id) (some o)
        | .nil => .ok (root, none, some o)
      | .gt =>
        match r with
        | .node _ ra _ _ =>
          nearestDown k fuel (modify ra.id (fun e => { e with next := some o }) root) (some ra.id) (some o)
        | .nil => .ok (root, none, some o)

/-- the climb: `for (obj = lastobj; obj != NULL && cmp(name, obj) < 0; obj = obj->next);` -/
def nearestUp (k : K) (root : T (Entry K V)) : (fuel : Nat) → Option Nat → Except Fault (Option Nat)
  | 0, _ => .error .outOfFuel
  | _, none => .ok none
  | fuel + 1, some o =>
    match lookup o root with
    | none => .error .dangling
    | some .nil => .error .dangling
    | some (.node _ a _ _) =>
      if cmp k a.key == .lt then nearestUp k root fuel a.next else .ok (some o)

/-- `qtreetbl_find_nearest` for a valid name; `none` = ENOENT (empty table) -/
def Tbl.findNearest (s : Tbl K V) (k : K) : Except Fault (Tbl K V × Option (K × V × Cur)) := do
  -- the descent starts at the root with a cleared parent pointer (see the `fix:` commit)
  let root0 := match s.root with
    | .nil => .nil
    | .node l a c r => .node l { a with next := none } c r
  let (root, obj, last) ← nearestDown cmp k (root0.height + 2) root0 (rootId root0) (rootId root0)
  let obj ← match obj with
    | some o => pure (some o)
    | none => do
      let up ← nearestUp cmp k root (root.height + 2) last
      pure (match up with | some o => some o | none => last)
  let s' := { s with root := root }
  match obj with
  | none => pure (s', none)
  | some o =>
    match lookup o root with
    | some (.node _ a _ _) => pure (s', some (a.key, a.val, { tid := s.tid, next := some o }))
    | _ => .error .dangling

end nearest

end Qlibc.Tree

/-
  What `put_obj` and `remove_obj` do to the payloads, without any balance or order assumption:
  insertion replaces one payload by `onDup` of it or adds `new` somewhere; removal only drops
  payloads and overwrites one by `copyKV` of itself.  (Rotations and colour flips move payloads
  with their nodes: `Same`.)  This is all the traversal-epoch invariant needs of them.
-/
import QlibcModel.Tree.PutOrd

namespace Qlibc.Tree
open Qlibc
namespace T
variable {α K : Type} (cmp : K → K → Ordering) (key : α → K)

/-- `ys` is `xs` with `new` added somewhere (`added`), or with one entry replaced by `onDup` of it -/
def InsRel (new : α) (onDup : α → α) (xs ys : List α) (added : Bool) : Prop :=
  (added = true ∧ ∃ pre post, xs = pre ++ post ∧ ys = pre ++ new :: post) ∨
  (added = false ∧ ∃ pre a post, xs = pre ++ a :: post ∧ ys = pre ++ onDup a :: post)

theorem InsRel.append_right {new : α} {onDup : α → α} {xs ys : List α} {b} (h : InsRel new onDup xs ys b)
    (zs : List α) : InsRel new onDup (xs ++ zs) (ys ++ zs) b := by
  rcases h with ⟨hb, pre, post, rfl, rfl⟩ | ⟨hb, pre, a, post, rfl, rfl⟩
  · exact Or.inl ⟨hb, pre, post ++ zs, by simp, by simp⟩
  · exact Or.inr ⟨hb, pre, a, post ++ zs, by simp, by simp⟩

theorem InsRel.append_left {new : α} {onDup : α → α} {xs ys : List α} {b} (h : InsRel new onDup xs ys b)
    (zs : List α) : InsRel new onDup (zs ++ xs) (zs ++ ys) b := by
  rcases h with ⟨hb, pre, post, rfl, rfl⟩ | ⟨hb, pre, a, post, rfl, rfl⟩
  · exact Or.inl ⟨hb, zs ++ pre, post, by simp, by simp⟩
  · exact Or.inr ⟨hb, zs ++ pre, a, post, by simp, by simp⟩

theorem put_insRel (k : K) (new : α) (onDup : α → α) : ∀ (fuel : Nat) (t : T α) (res : T α × Bool),
    put cmp key k (some new) onDup fuel t = .ok res → InsRel new onDup (inorder t) (inorder res.1) res.2 := by
  intro fuel
  induction fuel with
  | zero => intro t res h; simp [put] at h
  | succ fuel ih =>
    intro t res h
    cases t with
    | nil =>
      simp [put] at h; subst h
      exact Or.inl ⟨rfl, [], [], rfl, rfl⟩
    | node l a c r =>
      simp only [put] at h
      obtain ⟨t1, h1, h2⟩ := bind_eq_ok h
      obtain ⟨l1, c1, r1, rfl, il, ir, _, _⟩ := splitFour_node h1
      simp only at h2
      cases hcmp : cmp k (key a) with
      | eq =>
        rw [hcmp] at h2
        obtain ⟨t2, h3, h4⟩ := bind_eq_ok h2
        cases h4
        have := (putUp_same h3).1
        refine Or.inr ⟨rfl, inorder l, a, inorder r, by simp, ?_⟩
        simp [this, il, ir]
      | lt =>
        rw [hcmp] at h2
        obtain ⟨p, h3, h4⟩ := bind_eq_ok h2
        obtain ⟨t2, h5, h6⟩ := bind_eq_ok h4
        cases h6
        have := (putUp_same h5).1
        have i1 := ih l1 p h3
        rw [il] at i1
        have := i1.append_right (a :: inorder r)
        simp [*]
      | gt =>
        rw [hcmp] at h2
        obtain ⟨p, h3, h4⟩ := bind_eq_ok h2
        obtain ⟨t2, h5, h6⟩ := bind_eq_ok h4
        cases h6
        have := (putUp_same h5).1
        have i1 := ih r1 p h3
        rw [ir] at i1
        have := i1.append_left (inorder l ++ [a])
        simpa [*] using this

/-- `remove_min` only drops entries -/
theorem removeMin_sublist : ∀ (fuel : Nat) (t t' : T α), removeMin fuel t = .ok t' →
    (inorder t').Sublist (inorder t) := by
  intro fuel
  induction fuel with
  | zero => intro t t' h; simp [removeMin] at h
  | succ fuel ih =>
    intro t t' h
    cases t with
    | nil => simp [removeMin] at h
    | node l a c r =>
      simp only [removeMin] at h
      split at h
      · cases h; simp
      · obtain ⟨t1, h1, h2⟩ := bind_eq_ok h
        have s1 := (minPrep_same h1).1
        cases t1 with
        | nil => simp at h2
        | node l1 a1 c1 r1 =>
          simp only at h2
          obtain ⟨l2, h3, h4⟩ := bind_eq_ok h2
          have s2 := (fix_same h4).1
          have i1 := ih l1 l2 h3
          rw [s2, ← s1]
          simp only [inorder_node]
          exact List.Sublist.append i1 (List.Sublist.refl _)

variable {β : Type}

theorem ite_eq_cases {γ : Type} {c : Prop} [Decidable c] {a b r : γ} (h : (if c then a else b) = r) :
    (c ∧ a = r) ∨ (¬ c ∧ b = r) := by
  split at h
  · exact Or.inl ⟨‹c›, h⟩
  · exact Or.inr ⟨‹¬ c›, h⟩

/-- `remove_obj` only drops entries and overwrites one by `copyKV` of itself; any projection
    `f` of the payload that `copyKV` leaves alone therefore yields a sublist -/
theorem remove_sublist (copyKV : α → α → α) (f : α → β) (hf : ∀ a m, f (copyKV a m) = f a) (k : K) :
    ∀ (fuel : Nat) (t : T α) (res : T α × Bool), remove cmp key copyKV k fuel t = .ok res →
    ((inorder res.1).map f).Sublist ((inorder t).map f) := by
  intro fuel
  induction fuel with
  | zero => intro t res h; simp [remove] at h
  | succ fuel ih =>
    intro t res h
    cases t with
    | nil => simp [remove] at h; subst h; simp
    | node l a c r =>
      simp only [remove] at h
      split at h
      · -- left
        obtain ⟨t1, h1, h2⟩ := bind_eq_ok h
        have s1 := (leftPrep_same h1).1
        cases t1 with
        | nil => simp at h2
        | node l1 a1 c1 r1 =>
          simp only at h2
          obtain ⟨p, h3, h4⟩ := bind_eq_ok h2
          obtain ⟨t2, h5, h6⟩ := bind_eq_ok h4
          cases h6
          have s2 := (fix_same h5).1
          have i1 := ih l1 p h3
          simp only
          rw [s2, ← s1]
          simp only [inorder_node, List.map_append, List.map_cons]
          exact List.Sublist.append i1 (List.Sublist.refl _)
      · -- right or equal
        obtain ⟨p1, h1, h2⟩ := bind_eq_ok h
        have s1 := (rightPrep1_same h1).1
        cases hp1 : p1.1 with
        | nil => simp [hp1] at h2
        | node l1 a1 c1 r1 =>
          simp only [hp1] at h2
          rw [hp1] at s1
          rcases ite_eq_cases h2 with ⟨_, h2⟩ | ⟨_, h2⟩
          · cases h2; simp
          · obtain ⟨p2, h3, h4⟩ := bind_eq_ok h2
            have s2 := (rightPrep2_same h3).1
            cases hp2 : p2.1 with
            | nil => simp [hp2] at h4
            | node l2 a2 c2 r2 =>
              simp only [hp2] at h4
              rw [hp2] at s2
              rcases ite_eq_cases h4 with ⟨_, h4⟩ | ⟨_, h4⟩
              · -- copy the successor into this node, remove it below
                cases hm : findMin r2 with
                | none => simp [hm] at h4
                | some m =>
                  simp only [hm] at h4
                  obtain ⟨r3, h5, h6⟩ := bind_eq_ok h4
                  obtain ⟨t2, h7, h8⟩ := bind_eq_ok h6
                  cases h8
                  have s3 := (fix_same h7).1
                  have i1 := removeMin_sublist fuel r2 r3 h5
                  simp only
                  rw [s3, ← s1, ← s2]
                  simp only [inorder_node, List.map_append, List.map_cons, hf]
                  exact List.Sublist.append (List.Sublist.refl _) (List.Sublist.cons_cons _ (i1.map f))
              · obtain ⟨p, h5, h6⟩ := bind_eq_ok h4
                obtain ⟨t2, h7, h8⟩ := bind_eq_ok h6
                cases h8
                have s3 := (fix_same h7).1
                have i1 := ih r2 p h5
                simp only
                rw [s3, ← s1, ← s2]
                simp only [inorder_node, List.map_append, List.map_cons]
                exact List.Sublist.append (List.Sublist.refl _) (List.Sublist.cons_cons _ i1)

end T
end Qlibc.Tree

/-
  The ideal sorted map (`insL`, `delL`, `lookupL` on strictly ascending lists): how the
  operations distribute over `xs ++ a :: ys` — the list-level counterpart of one step of a
  search-tree descent (Nipkow's "inorder" method).
-/
import QlibcModel.Tree.Inv

namespace Qlibc.Tree
open Qlibc
namespace T
variable {α K : Type} {cmp : K → K → Ordering} {key : α → K}

theorem CmpOk.gt_of_lt (hc : CmpOk cmp) {a b : K} (h : cmp a b = .lt) : cmp b a = .gt := by
  rw [hc.swap b a, h]; rfl
theorem CmpOk.lt_of_gt (hc : CmpOk cmp) {a b : K} (h : cmp a b = .gt) : cmp b a = .lt := by
  rw [hc.swap b a, h]; rfl
theorem CmpOk.eq_symm (hc : CmpOk cmp) {a b : K} (h : cmp a b = .eq) : cmp b a = .eq := by
  rw [hc.swap b a, h]; rfl

theorem sorted_append {xs ys : List α} (h : Sorted cmp key (xs ++ ys)) :
    Sorted cmp key xs ∧ Sorted cmp key ys ∧ ∀ x ∈ xs, ∀ y ∈ ys, cmp (key x) (key y) = .lt := by
  unfold Sorted at *
  rw [List.pairwise_append] at h
  exact h

theorem sorted_mid {xs ys : List α} {a : α} (h : Sorted cmp key (xs ++ a :: ys)) :
    Sorted cmp key xs ∧ Sorted cmp key ys ∧ (∀ x ∈ xs, cmp (key x) (key a) = .lt) ∧
      (∀ y ∈ ys, cmp (key a) (key y) = .lt) ∧ (∀ x ∈ xs, ∀ y ∈ ys, cmp (key x) (key y) = .lt) := by
  obtain ⟨h1, h2, h3⟩ := sorted_append h
  unfold Sorted at h2
  rw [List.pairwise_cons] at h2
  exact ⟨h1, h2.2, fun x hx => h3 x hx a (by simp), h2.1, fun x hx y hy => h3 x hx y (by simp [hy])⟩

/-- keys left of `a` are below any `k ≥ a` -/
theorem left_below (hc : CmpOk cmp) {xs : List α} {a : α} {k : K}
    (hxs : ∀ x ∈ xs, cmp (key x) (key a) = .lt) (hk : cmp k (key a) = .gt ∨ cmp k (key a) = .eq) :
    ∀ x ∈ xs, cmp k (key x) = .gt := by
  intro x hx
  have h1 := hxs x hx
  rcases hk with hk | hk
  · exact hc.gt_of_lt (hc.lt_trans h1 (hc.lt_of_gt hk))
  · exact hc.gt_of_lt (hc.lt_eq h1 (hc.eq_symm hk))

section
variable (new : α) (onDup : α → α)

theorem insL_gt_prefix (xs zs : List α) (h : ∀ x ∈ xs, cmp (key new) (key x) = .gt) :
    insL cmp key new onDup (xs ++ zs) = xs ++ insL cmp key new onDup zs := by
  induction xs with
  | nil => rfl
  | cons x xs ih =>
    have hx := h x (by simp)
    simp [insL, hx, ih (fun y hy => h y (by simp [hy]))]

theorem insL_lt (xs ys : List α) (a : α) (h : cmp (key new) (key a) = .lt) :
    insL cmp key new onDup (xs ++ a :: ys) = insL cmp key new onDup xs ++ a :: ys := by
  induction xs with
  | nil => simp [insL, h]
  | cons x xs ih =>
    simp only [List.cons_append, insL]
    cases cmp (key new) (key x) <;> simp [ih]

theorem insL_gt (xs ys : List α) (a : α) (hxs : ∀ x ∈ xs, cmp (key new) (key x) = .gt)
    (h : cmp (key new) (key a) = .gt) :
    insL cmp key new onDup (xs ++ a :: ys) = xs ++ a :: insL cmp key new onDup ys := by
  rw [insL_gt_prefix new onDup xs _ hxs]; simp [insL, h]

theorem insL_eq (xs ys : List α) (a : α) (hxs : ∀ x ∈ xs, cmp (key new) (key x) = .gt)
    (h : cmp (key new) (key a) = .eq) :
    insL cmp key new onDup (xs ++ a :: ys) = xs ++ onDup a :: ys := by
  rw [insL_gt_prefix new onDup xs _ hxs]; simp [insL, h]
end

section
variable (k : K)

theorem delL_gt_prefix (xs zs : List α) (h : ∀ x ∈ xs, cmp k (key x) = .gt) :
    delL cmp key k (xs ++ zs) = xs ++ delL cmp key k zs := by
  induction xs with
  | nil => rfl
  | cons x xs ih =>
    have hx := h x (by simp)
    simp [delL, hx, ih (fun y hy => h y (by simp [hy]))]

theorem delL_lt (xs ys : List α) (a : α) (h : cmp k (key a) = .lt) :
    delL cmp key k (xs ++ a :: ys) = delL cmp key k xs ++ a :: ys := by
  induction xs with
  | nil => simp [delL, h]
  | cons x xs ih =>
    simp only [List.cons_append, delL]
    cases cmp k (key x) <;> simp [ih]

theorem delL_gt (xs ys : List α) (a : α) (hxs : ∀ x ∈ xs, cmp k (key x) = .gt)
    (h : cmp k (key a) = .gt) :
    delL cmp key k (xs ++ a :: ys) = xs ++ a :: delL cmp key k ys := by
  rw [delL_gt_prefix k xs _ hxs]; simp [delL, h]

theorem delL_eq (xs ys : List α) (a : α) (hxs : ∀ x ∈ xs, cmp k (key x) = .gt)
    (h : cmp k (key a) = .eq) :
    delL cmp key k (xs ++ a :: ys) = xs ++ ys := by
  rw [delL_gt_prefix k xs _ hxs]; simp [delL, h]

theorem lookupL_gt_prefix (xs zs : List α) (h : ∀ x ∈ xs, cmp k (key x) = .gt) :
    lookupL cmp key k (xs ++ zs) = lookupL cmp key k zs := by
  induction xs with
  | nil => rfl
  | cons x xs ih =>
    have hx := h x (by simp)
    simp [lookupL, hx, ih (fun y hy => h y (by simp [hy]))]

theorem lookupL_lt (xs ys : List α) (a : α) (h : cmp k (key a) = .lt) :
    lookupL cmp key k (xs ++ a :: ys) = lookupL cmp key k xs := by
  induction xs with
  | nil => simp [lookupL, h]
  | cons x xs ih =>
    simp only [List.cons_append, lookupL]
    cases cmp k (key x) <;> simp [ih]

theorem lookupL_gt (xs ys : List α) (a : α) (hxs : ∀ x ∈ xs, cmp k (key x) = .gt)
    (h : cmp k (key a) = .gt) :
    lookupL cmp key k (xs ++ a :: ys) = lookupL cmp key k ys := by
  rw [lookupL_gt_prefix k xs _ hxs]; simp [lookupL, h]

theorem lookupL_eq (xs ys : List α) (a : α) (hxs : ∀ x ∈ xs, cmp k (key x) = .gt)
    (h : cmp k (key a) = .eq) :
    lookupL cmp key k (xs ++ a :: ys) = some a := by
  rw [lookupL_gt_prefix k xs _ hxs]; simp [lookupL, h]

/-- deleting a key smaller than everything stored changes nothing -/
theorem delL_all_lt (ys : List α) (h : ∀ y ∈ ys, cmp k (key y) = .lt) : delL cmp key k ys = ys := by
  cases ys with
  | nil => rfl
  | cons y ys => simp [delL, h y (by simp)]

theorem lookupL_all_lt (ys : List α) (h : ∀ y ∈ ys, cmp k (key y) = .lt) : lookupL cmp key k ys = none := by
  cases ys with
  | nil => rfl
  | cons y ys => simp [lookupL, h y (by simp)]

end

end T
end Qlibc.Tree

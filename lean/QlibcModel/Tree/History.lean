/-
  Every finite history of table operations refines the ideal sorted map (induction over the
  operation list).
-/
import QlibcModel.Tree.TableSpec

namespace Qlibc.Tree
open Qlibc T
variable {K V : Type}

inductive Op (K V : Type) where
  | put (k : K) (v : V)
  | get (k : K)
  | remove (k : K)
  | clear
  | size
  | findMin
  | findMax

inductive Out (K V : Type) where
  | bool (b : Bool)
  | val (v : Option V)
  | nat (n : Nat)
  | key (k : Option K)
  | unit

section
variable (cmp : K → K → Ordering) (isEmpty : V → Bool)

/-- one call of the public API on the model -/
def Tbl.step (s : Tbl K V) : Op K V → Except Fault (Tbl K V × Out K V)
  | .put k v => s.putobj cmp isEmpty k v >>= fun p => .ok (p.1, .bool p.2)
  | .get k => .ok (s, .val (s.getobj cmp k))
  | .remove k => s.removeobj cmp k >>= fun p => .ok (p.1, .bool p.2)
  | .clear => .ok (s.clear, .unit)
  | .size => .ok (s, .nat s.size)
  | .findMin => .ok (s, .key s.findMin)
  | .findMax => .ok (s, .key s.findMax)

/-- the same call on the ideal sorted map -/
def specStep (m : List (K × V)) : Op K V → List (K × V) × Out K V
  | .put k v => (putSpec cmp isEmpty k v m, .bool true)
  | .get k => (m, .val (getSpec cmp k m))
  | .remove k => ((removeSpec cmp k m).1, .bool (removeSpec cmp k m).2)
  | .clear => ([], .unit)
  | .size => (m, .nat m.length)
  | .findMin => (m, .key (m.head?.map Prod.fst))
  | .findMax => (m, .key (m.getLast?.map Prod.fst))

def Tbl.run (s : Tbl K V) : List (Op K V) → Except Fault (Tbl K V × List (Out K V))
  | [] => .ok (s, [])
  | op :: ops => s.step cmp isEmpty op >>= fun p => Tbl.run p.1 ops >>= fun q => .ok (q.1, p.2 :: q.2)

def specRun (m : List (K × V)) : List (Op K V) → List (K × V) × List (Out K V)
  | [] => (m, [])
  | op :: ops =>
    let p := specStep cmp isEmpty m op
    let q := specRun p.1 ops
    (q.1, p.2 :: q.2)

theorem Tbl.step_refines (hc : CmpOk cmp) (s : Tbl K V) (hi : s.Inv cmp) (op : Op K V) :
    ∃ s', s.step cmp isEmpty op = .ok (s', (specStep cmp isEmpty s.abs op).2) ∧ s'.Inv cmp ∧
      s'.abs = (specStep cmp isEmpty s.abs op).1 := by
  cases op with
  | put k v =>
    obtain ⟨s', h1, h2, h3, _⟩ := Tbl.putobj_spec cmp hc isEmpty s k v hi
    exact ⟨s', by simp [Tbl.step, h1, specStep], h2, h3⟩
  | get k => exact ⟨s, by simp [Tbl.step, specStep, Tbl.getobj_spec cmp hc s k hi], hi, rfl⟩
  | remove k =>
    obtain ⟨s', h1, h2, h3, _⟩ := Tbl.removeobj_spec cmp hc s k hi
    exact ⟨s', by simp [Tbl.step, h1, specStep], h2, h3⟩
  | clear => exact ⟨s.clear, rfl, (Tbl.clear_spec cmp s).1, (Tbl.clear_spec cmp s).2⟩
  | size => exact ⟨s, by simp [Tbl.step, specStep, Tbl.size_spec cmp s hi], hi, rfl⟩
  | findMin => exact ⟨s, by simp [Tbl.step, specStep, Tbl.findMin_spec], hi, rfl⟩
  | findMax => exact ⟨s, by simp [Tbl.step, specStep, Tbl.findMax_spec], hi, rfl⟩

/-- **every history**: from any valid table, any finite sequence of calls returns exactly the
    ideal map's outputs, ends in the ideal map's contents, and never faults -/
theorem Tbl.run_refines (hc : CmpOk cmp) : ∀ (ops : List (Op K V)) (s : Tbl K V), s.Inv cmp →
    ∃ s', s.run cmp isEmpty ops = .ok (s', (specRun cmp isEmpty s.abs ops).2) ∧ s'.Inv cmp ∧
      s'.abs = (specRun cmp isEmpty s.abs ops).1 := by
  intro ops
  induction ops with
  | nil => intro s hi; exact ⟨s, rfl, hi, rfl⟩
  | cons op ops ih =>
    intro s hi
    obtain ⟨s1, h1, h2, h3⟩ := Tbl.step_refines cmp isEmpty hc s hi op
    obtain ⟨s2, h4, h5, h6⟩ := ih s1 h2
    refine ⟨s2, ?_, h5, ?_⟩
    · simp only [Tbl.run, h1, ok_bind, h4, specRun, h3]
    · simp only [specRun, h6, h3]

end

end Qlibc.Tree

/-
  qstrncpy / qstrcpy (bounded copy) and qstrgets (line reader) on raw buffers.
-/
import QlibcModel.Str.TrimLemmas

namespace Qlibc.Str
open Qlibc

theorem rdN_take (buf : Bytes) (n : Nat) (h : n ≤ buf.length) : rdN buf 0 n = .ok (buf.take n) := by
  have := rdN_at buf [] (buf.take n) (buf.drop n) 0 n (by simp) rfl (by simp [List.length_take]; omega)
  exact this

theorem wrN_front (buf d : Bytes) (h : d.length ≤ buf.length) :
    wrN buf 0 d = .ok (d ++ buf.drop d.length) := by
  have := wrN_at buf [] (buf.take d.length) (buf.drop d.length) d 0 (by simp) rfl
    (by simp [List.length_take]; omega)
  simpa using this

/-- the general bounded copy: with `n = min nbytes (size - 1)` readable bytes at `src`, the
    destination receives exactly those `n` bytes and a terminator at index `n < size`; all
    other destination bytes keep their value -/
theorem qstrncpy_spec (dst src : Bytes) (size nbytes : Nat) (h1 : 1 ≤ size)
    (h2 : size ≤ dst.length) (h3 : min nbytes (size - 1) ≤ src.length) :
    qstrncpy dst size src nbytes
      = .ok (src.take (min nbytes (size - 1)) ++ 0 :: dst.drop (min nbytes (size - 1) + 1)) := by
  unfold qstrncpy
  have hs : ¬ size = 0 := by omega
  simp only [hs, if_false]
  have hn : (if size ≤ nbytes then size - 1 else nbytes) = min nbytes (size - 1) := by
    split <;> omega
  rw [hn]
  generalize hnn : min nbytes (size - 1) = n at *
  have hlt : n < dst.length := by omega
  rw [rdN_take src n h3]
  simp only [bind_ok]
  have hl : (src.take n).length = n := by simp [List.length_take]; omega
  rw [wrN_front dst (src.take n) (by omega), hl]
  simp only [bind_ok]
  have hd : dst.drop n = dst[n] :: dst.drop (n + 1) := by
    rw [List.drop_eq_getElem_cons hlt]
  rw [hd, wr_mid' _ _ _ _ _ hl.symm]

theorem qstrncpy_size_zero (dst src : Bytes) (nbytes : Nat) : qstrncpy dst 0 src nbytes = .ok dst := by
  simp [qstrncpy]

theorem qstrcpy_size_zero (dst src : Bytes) : qstrcpy dst 0 src = .ok dst := by
  simp [qstrcpy]

theorem qstrcpy_correct (dst s rest : Bytes) (size : Nat) (hs : NulFree s) (h1 : 1 ≤ size)
    (h2 : size ≤ dst.length) :
    qstrcpy dst size (s ++ 0 :: rest)
      = .ok (boundedCopy size s ++ 0 :: dst.drop (min s.length (size - 1) + 1)) := by
  unfold qstrcpy
  have hz : ¬ size = 0 := by omega
  simp only [hz, if_false]
  rw [nulPos_zero s rest hs]
  simp only [bind_ok]
  rw [qstrncpy_spec dst (s ++ 0 :: rest) size s.length h1 h2 (by simp; omega)]
  unfold boundedCopy
  have : (s ++ 0 :: rest).take (min s.length (size - 1)) = s.take (size - 1) := by
    rw [List.take_append_of_le_length (by omega)]
    rw [Nat.min_comm, ← List.take_take]
    simp
  rw [this]

/-! ### qstrgets -/

/-- the copy loop of `qstrgets` as a function of the remaining budget `k = (size-1) - i`:
    stored bytes and number of source bytes consumed -/
def getsRef : Nat → Bytes → Bytes × Nat
  | 0, _ => ([], 0)
  | _ + 1, [] => ([], 0)
  | k + 1, c :: t =>
    if c = 13 then ((getsRef k t).1, (getsRef k t).2 + 1)
    else if c = 10 then ([], 1)
    else (c :: (getsRef k t).1, (getsRef k t).2 + 1)

theorem getsRef_length_le : ∀ (k : Nat) (t : Bytes), (getsRef k t).1.length ≤ k := by
  intro k
  induction k with
  | zero => intro t; simp [getsRef]
  | succ k ih =>
    intro t
    cases t with
    | nil => simp [getsRef]
    | cons c t =>
      have := ih t
      simp only [getsRef]
      split
      · simp; omega
      · split
        · simp
        · simp; omega

theorem getsRef_eq_getsLine : ∀ (k : Nat) (s : Bytes), getsRef k s = getsLine (k + 1) s := by
  intro k
  induction k with
  | zero => intro s; simp [getsRef, getsLine]
  | succ k ih =>
    intro s
    cases s with
    | nil => simp [getsRef, getsLine]
    | cons c t =>
      have := ih t
      simp only [getsLine, Nat.add_sub_cancel] at this ⊢
      simp only [getsRef, this, List.take_succ_cons]
      by_cases h13 : c = 13
      · subst h13
        simp
        split <;> rfl
      · by_cases h10 : c = 10
        · subst h10
          simp
        · simp [h13, h10]
          split <;> rfl

theorem getsLoop_spec (t : Bytes) : ∀ (k : Nat) (pre rest : Bytes) (fuel i : Nat) (out bufrest : Bytes),
    NulFree t → t.length < fuel → (getsRef k t).1.length ≤ bufrest.length →
    getsLoop (pre ++ t ++ 0 :: rest) (i + k) fuel i pre.length out.length (out ++ bufrest)
      = .ok (out ++ (getsRef k t).1 ++ bufrest.drop (getsRef k t).1.length,
             pre.length + (getsRef k t).2, out.length + (getsRef k t).1.length) := by
  induction t with
  | nil =>
    intro k pre rest fuel i out bufrest _ hf _
    cases fuel with
    | zero => simp at hf
    | succ f =>
      have : getsRef k [] = ([], 0) := by cases k <;> rfl
      simp [getsLoop, rd_mid, this]
  | cons c t ih =>
    intro k pre rest fuel i out bufrest hn hf hcap
    have ⟨hc, ht⟩ := hn.of_cons
    cases fuel with
    | zero => simp at hf
    | succ f =>
      have hf' : t.length < f := by simp at hf; omega
      have e1 : pre ++ c :: t ++ 0 :: rest = pre ++ c :: (t ++ 0 :: rest) := by simp
      have e2 : pre ++ c :: (t ++ 0 :: rest) = (pre ++ [c]) ++ t ++ 0 :: rest := by simp
      rw [getsLoop, e1, rd_mid]
      simp only [bind_ok]
      cases k with
      | zero =>
        simp [getsRef]
      | succ k =>
        have hlt : i < i + (k + 1) := by omega
        simp only [hc, hlt, ne_eq, not_false_eq_true, and_self, if_true]
        have hik : i + (k + 1) = (i + 1) + k := by omega
        by_cases h13 : c = 13
        · simp only [h13, if_true]
          have hcap' : (getsRef k t).1.length ≤ bufrest.length := by
            simpa [getsRef, h13] using hcap
          have := ih k (pre ++ [13]) rest f (i + 1) out bufrest ht hf' hcap'
          simp only [List.length_append, List.length_cons, List.length_nil, Nat.zero_add] at this
          rw [← h13] at this ⊢
          rw [e2, hik, this]
          simp [getsRef, h13]; omega
        · by_cases h10 : c = 10
          · simp [h10, getsRef]
          · simp only [h13, h10, if_false]
            have hcap1 : (getsRef k t).1.length + 1 ≤ bufrest.length := by
              simpa [getsRef, h13, h10] using hcap
            obtain ⟨q, br, hbr⟩ : ∃ q br, bufrest = q :: br := by
              cases bufrest with
              | nil => simp at hcap1
              | cons q br => exact ⟨q, br, rfl⟩
            subst hbr
            rw [wr_mid]
            simp only [bind_ok]
            have e3 : out ++ c :: br = (out ++ [c]) ++ br := by simp
            have := ih k (pre ++ [c]) rest f (i + 1) (out ++ [c]) br ht hf'
              (by simp at hcap1; omega)
            simp only [List.length_append, List.length_cons, List.length_nil, Nat.zero_add] at this
            rw [e2, e3, hik, this]
            simp [getsRef, h13, h10]; omega

theorem qstrgets_correct (buf pre s rest : Bytes) (size : Nat) (hs : NulFree s) (hne : s ≠ [])
    (h1 : 1 ≤ size) (h2 : size ≤ buf.length) :
    qstrgets buf size (pre ++ s ++ 0 :: rest) pre.length
      = .ok (some ((getsLine size s).1 ++ 0 :: buf.drop ((getsLine size s).1.length + 1),
                   pre.length + (getsLine size s).2)) := by
  unfold qstrgets
  obtain ⟨c, t, hct⟩ : ∃ c t, s = c :: t := by
    cases s with
    | nil => exact absurd rfl hne
    | cons c t => exact ⟨c, t, rfl⟩
  have hc : c ≠ 0 := by subst hct; exact hs.of_cons.1
  have r0 : rd (pre ++ s ++ 0 :: rest) pre.length = .ok c := by
    subst hct
    have e : pre ++ c :: t ++ 0 :: rest = pre ++ c :: (t ++ 0 :: rest) := by simp
    rw [e, rd_mid]
  rw [r0]
  simp only [bind_ok, hc, if_false]
  have hz : ¬ size = 0 := by omega
  simp only [hz, if_false]
  have hk : size = (size - 1) + 1 := by omega
  have href : getsRef (size - 1) s = getsLine size s := by
    conv => rhs; rw [hk]
    exact getsRef_eq_getsLine (size - 1) s
  have hle := getsRef_length_le (size - 1) s
  have := getsLoop_spec s (size - 1) pre rest ((pre ++ s ++ 0 :: rest).length + 1) 0 [] buf hs
    (by simp; omega) (by omega)
  simp only [Nat.zero_add, List.length_nil, List.nil_append] at this
  rw [this]
  simp only [bind_ok]
  rw [href] at hle ⊢
  have hlt : (getsLine size s).1.length < buf.length := by omega
  have hd : buf.drop (getsLine size s).1.length
      = buf[(getsLine size s).1.length] :: buf.drop ((getsLine size s).1.length + 1) := by
    rw [List.drop_eq_getElem_cons hlt]
  rw [hd, wr_mid]
  simp

theorem qstrgets_eof (buf pre rest : Bytes) (size : Nat) :
    qstrgets buf size (pre ++ 0 :: rest) pre.length = .ok none := by
  unfold qstrgets
  rw [rd_mid]
  simp

/-! ### overlapping copies inside one block -/

theorem rdN_general (buf : Bytes) (s n : Nat) (h : s + n ≤ buf.length) :
    rdN buf s n = .ok ((buf.drop s).take n) := by
  apply rdN_at buf (buf.take s) ((buf.drop s).take n) ((buf.drop s).drop n) s n
  · rw [List.append_assoc, List.take_append_drop, List.take_append_drop]
  · simp [List.length_take]; omega
  · simp [List.length_take]; omega

theorem wrN_general (buf data : Bytes) (d : Nat) (h : d + data.length ≤ buf.length) :
    wrN buf d data = .ok (buf.take d ++ data ++ buf.drop (d + data.length)) := by
  have := wrN_at buf (buf.take d) ((buf.drop d).take data.length) ((buf.drop d).drop data.length)
    data d (by rw [List.append_assoc, List.take_append_drop, List.take_append_drop])
    (by simp [List.length_take]; omega) (by simp [List.length_take]; omega)
  rw [this, List.drop_drop]

/-- the exact block after `qstrncpy(buf + d, size, buf + s, nbytes)`, for any relative position
    of source and destination: in front of `d` nothing changes, then come the `n = min nbytes
    (size - 1)` bytes the ORIGINAL block held at `s`, then the terminator, then the original
    bytes from `d + n + 1` on -/
theorem qstrncpyOv_spec (buf : Bytes) (d s size nbytes : Nat) (h1 : 1 ≤ size)
    (h2 : d + size ≤ buf.length) (h3 : s + min nbytes (size - 1) ≤ buf.length) :
    qstrncpyOv buf d s size nbytes
      = .ok (buf.take d ++ (buf.drop s).take (min nbytes (size - 1))
              ++ 0 :: buf.drop (d + min nbytes (size - 1) + 1)) := by
  unfold qstrncpyOv memmove
  have hs : ¬ size = 0 := by omega
  simp only [hs, if_false]
  have hn : (if size ≤ nbytes then size - 1 else nbytes) = min nbytes (size - 1) := by
    split <;> omega
  rw [hn]
  generalize hnn : min nbytes (size - 1) = n at *
  rw [rdN_general buf s n h3]
  simp only [bind_ok]
  have hl : ((buf.drop s).take n).length = n := by simp [List.length_take]; omega
  rw [wrN_general buf _ d (by rw [hl]; omega), hl]
  simp only [bind_ok]
  have hlt : d + n < buf.length := by omega
  rw [List.drop_eq_getElem_cons hlt]
  rw [wr_mid' (buf.take d ++ (buf.drop s).take n) _ _ 0 _ (by simp [List.length_take, hl]; omega)]

theorem qstrcpyOv_spec (pre str post : Bytes) (d size : Nat) (hs : NulFree str) (h1 : 1 ≤ size)
    (h2 : d + size ≤ (pre ++ str ++ 0 :: post).length) :
    qstrcpyOv (pre ++ str ++ 0 :: post) d pre.length size
      = .ok ((pre ++ str ++ 0 :: post).take d ++ str.take (size - 1)
              ++ 0 :: (pre ++ str ++ 0 :: post).drop (d + min str.length (size - 1) + 1)) := by
  unfold qstrcpyOv
  have hz : ¬ size = 0 := by omega
  simp only [hz, if_false]
  rw [nulPos_spec pre str post hs]
  simp only [bind_ok]
  have hsub : pre.length + str.length - pre.length = str.length := by omega
  rw [hsub, qstrncpyOv_spec _ d pre.length size str.length h1 h2 (by simp; omega)]
  have : ((pre ++ str ++ 0 :: post).drop pre.length).take (min str.length (size - 1))
      = str.take (size - 1) := by
    rw [List.append_assoc, List.drop_left, List.take_append_of_le_length (by omega),
      Nat.min_comm, ← List.take_take]
    simp
  rw [this]

/-- reading the block `take d ++ data ++ 0 :: drop (d + |data| + 1)`: same length, `data` and a
    terminator at `d`, every other index unchanged -/
theorem patched_shape (buf data : Bytes) (d : Nat) (h : d + data.length < buf.length) :
    let b := buf.take d ++ data ++ 0 :: buf.drop (d + data.length + 1)
    b.length = buf.length ∧ (b.drop d).take (data.length + 1) = data ++ [0] ∧
    ∀ i, (i < d ∨ d + data.length + 1 ≤ i) → b[i]? = buf[i]? := by
  have hd : (buf.take d).length = d := by simp [List.length_take]; omega
  refine ⟨by simp [List.length_take]; omega, ?_, ?_⟩
  · have e : buf.take d ++ data ++ 0 :: buf.drop (d + data.length + 1)
        = buf.take d ++ ((data ++ [0]) ++ buf.drop (d + data.length + 1)) := by simp
    rw [e]
    conv => lhs; arg 2; arg 1; rw [← hd]
    rw [List.drop_left, List.take_append_of_le_length (by simp)]
    exact List.take_of_length_le (by simp)
  · intro i hi
    rcases hi with hi | hi
    · rw [List.append_assoc, List.getElem?_append_left (by omega), List.getElem?_take_of_lt hi]
    · have e : buf.take d ++ data ++ 0 :: buf.drop (d + data.length + 1)
          = (buf.take d ++ data ++ [0]) ++ buf.drop (d + data.length + 1) := by simp
      have hl : (buf.take d ++ data ++ [0]).length = d + data.length + 1 := by simp [hd]; omega
      rw [e, List.getElem?_append_right (by omega), hl, List.getElem?_drop]
      congr 1; omega

end Qlibc.Str

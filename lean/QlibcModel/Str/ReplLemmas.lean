/-
  qstrreplace: token mode and string mode, new-buffer and in-place variants; the size bound
  `maxstrlen`; qstrdup_between (shares `strncmpEq`).
-/
import QlibcModel.Str.CopyLemmas

namespace Qlibc.Str
open Qlibc

/-! ### the reference side -/

theorem replaceAll_nil {tok : Bytes} (word : Bytes) (h : tok ≠ []) : replaceAll tok word [] = [] := by
  rw [replaceAll]; simp [h]

theorem replaceAll_hit {tok : Bytes} (word : Bytes) (c : UInt8) (r : Bytes) (h : tok ≠ [])
    (hp : tok.isPrefixOf (c :: r) = true) :
    replaceAll tok word (c :: r) = word ++ replaceAll tok word ((c :: r).drop tok.length) := by
  rw [replaceAll]; simp [h, hp]

theorem replaceAll_miss {tok : Bytes} (word : Bytes) (c : UInt8) (r : Bytes) (h : tok ≠ [])
    (hp : tok.isPrefixOf (c :: r) = false) :
    replaceAll tok word (c :: r) = c :: replaceAll tok word r := by
  rw [replaceAll]; simp [h, hp]

theorem isPrefixOf_length_le {a b : Bytes} (h : a.isPrefixOf b = true) : a.length ≤ b.length :=
  (List.isPrefixOf_iff_prefix.mp h).length_le

/-- `k` occurrences were replaced: `|out| + k·|tok| = |s| + k·|word|` with `k·|tok| ≤ |s|` -/
theorem replaceAll_count (tok word s : Bytes) (h : tok ≠ []) :
    ∃ k, k * tok.length ≤ s.length ∧
      (replaceAll tok word s).length + k * tok.length = s.length + k * word.length := by
  fun_induction replaceAll tok word s with
  | case1 s h0 => exact absurd h0 h
  | case2 h0 => exact ⟨0, by simp⟩
  | case3 h0 c r hp ih =>
    obtain ⟨k, hk1, hk2⟩ := ih
    have hle := isPrefixOf_length_le hp
    refine ⟨k + 1, ?_, ?_⟩
    · simp only [List.length_drop] at hk1
      rw [Nat.succ_mul]; omega
    · simp only [List.length_drop, List.length_append] at hk2 ⊢
      rw [Nat.succ_mul, Nat.succ_mul]; omega
  | case4 h0 c r hp ih =>
    obtain ⟨k, hk1, hk2⟩ := ih
    exact ⟨k, by simp; omega, by simp; omega⟩

/-- the size bound of string mode: the output never exceeds `maxstrlen` -/
theorem replaceAll_length_le (tok word s : Bytes) (h : tok ≠ []) :
    (replaceAll tok word s).length ≤ maxLenS s.length tok.length word.length := by
  obtain ⟨k, hk1, hk2⟩ := replaceAll_count tok word s h
  have ha : 0 < tok.length := List.length_pos_iff.mpr h
  unfold maxLenS
  generalize (replaceAll tok word s).length = L at *
  generalize tok.length = a at *
  generalize word.length = b at *
  generalize s.length = n at *
  split
  · rename_i hab
    -- b = a + d, k ≤ n / a
    obtain ⟨d, hd⟩ : ∃ d, b = a + d := ⟨b - a, by omega⟩
    subst hd
    have hkq : k ≤ n / a := (Nat.le_div_iff_mul_le ha).mpr hk1
    have h1 : k * (a + d) = k * a + k * d := Nat.mul_add k a d
    have h2 : n / a * (a + d) = n / a * a + n / a * d := Nat.mul_add _ a d
    have h3 : k * d ≤ n / a * d := Nat.mul_le_mul_right d hkq
    have h4 : a * (n / a) + n % a = n := Nat.div_add_mod n a
    have h5 : a * (n / a) = n / a * a := Nat.mul_comm _ _
    omega
  · rename_i hab
    have : k * b ≤ k * a := Nat.mul_le_mul_left k (by omega)
    omega

theorem replaceChars_cons (toks word : Bytes) (c : UInt8) (s : Bytes) :
    replaceChars toks word (c :: s)
      = (if toks.contains c then word else [c]) ++ replaceChars toks word s := by
  simp [replaceChars]

/-- the size bound of token mode -/
theorem replaceChars_length_le (toks word s : Bytes) :
    (replaceChars toks word s).length ≤ maxLenT s.length word.length := by
  unfold maxLenT
  induction s with
  | nil => simp [replaceChars]
  | cons c s ih =>
    rw [replaceChars_cons, List.length_append, List.length_cons, Nat.succ_mul]
    have : (if toks.contains c then word else [c]).length ≤ (if 0 < word.length then word.length else 1) := by
      have h1 : ([c] : Bytes).length = 1 := rfl
      split <;> split <;> omega
    omega

theorem replaceChars_nulFree {toks word s : Bytes} (hw : NulFree word) (hs : NulFree s) :
    NulFree (replaceChars toks word s) := by
  induction s with
  | nil => intro x hx; simp [replaceChars] at hx
  | cons c s ih =>
    rw [replaceChars_cons]
    have ⟨hc, hs'⟩ := hs.of_cons
    apply NulFree.append _ (ih hs')
    split
    · exact hw
    · intro x hx; simp at hx; subst hx; exact hc

theorem replaceAll_nulFree {tok word s : Bytes} (hw : NulFree word) (hs : NulFree s) :
    NulFree (replaceAll tok word s) := by
  fun_induction replaceAll tok word s with
  | case1 s h0 => exact hs
  | case2 h0 => exact NulFree.nil
  | case3 h0 c r hp ih =>
    exact NulFree.append hw (ih (NulFree.sublist (List.drop_sublist _ _) hs))
  | case4 h0 c r hp ih =>
    have ⟨hc, hr⟩ := hs.of_cons
    intro x hx
    rcases List.mem_cons.mp hx with h1 | h1
    · subst h1; exact hc
    · exact ih hr x h1

/-! ### the loops -/

theorem push_ok (b : OutBlk) (c : UInt8) (h : b.np < b.cap) :
    b.push c = .ok ⟨c :: b.rev, b.np + 1, b.cap⟩ := by
  simp [OutBlk.push, h]

theorem copyWord_spec (w : Bytes) : ∀ (wp wrest : Bytes) (dst : OutBlk) (fuel : Nat),
    NulFree w → w.length < fuel → dst.np + w.length ≤ dst.cap →
    copyWord (wp ++ w ++ 0 :: wrest) fuel wp.length dst
      = .ok ⟨w.reverse ++ dst.rev, dst.np + w.length, dst.cap⟩ := by
  induction w with
  | nil =>
    intro wp wrest dst fuel _ hf _
    cases fuel with
    | zero => simp at hf
    | succ k => simp [copyWord, rd_mid]
  | cons c w ih =>
    intro wp wrest dst fuel hn hf hcap
    have ⟨hc, hw⟩ := hn.of_cons
    cases fuel with
    | zero => simp at hf
    | succ k =>
      have e1 : wp ++ c :: w ++ 0 :: wrest = wp ++ c :: (w ++ 0 :: wrest) := by simp
      have e2 : wp ++ c :: (w ++ 0 :: wrest) = (wp ++ [c]) ++ w ++ 0 :: wrest := by simp
      rw [copyWord, e1, rd_mid]
      simp only [bind_ok, hc, if_false]
      rw [push_ok dst c (by simp at hcap; omega)]
      simp only [bind_ok]
      have i1 : wp.length + 1 = (wp ++ [c]).length := by simp
      rw [e2, i1, ih (wp ++ [c]) wrest _ k hw (by simp at hf; omega) (by simp at hcap ⊢; omega)]
      simp; omega

theorem copyWord_all (w wrest : Bytes) (dst : OutBlk) (hw : NulFree w)
    (hcap : dst.np + w.length ≤ dst.cap) :
    copyWord (w ++ 0 :: wrest) ((w ++ 0 :: wrest).length + 1) 0 dst
      = .ok ⟨w.reverse ++ dst.rev, dst.np + w.length, dst.cap⟩ := by
  have := copyWord_spec w [] wrest dst ((w ++ 0 :: wrest).length + 1) hw (by simp; omega) hcap
  simpa using this

theorem tokFind_spec (c : UInt8) (tt : Bytes) : ∀ (tp trest : Bytes) (fuel : Nat),
    NulFree tt → tt.length < fuel →
    tokFind (tp ++ tt ++ 0 :: trest) c fuel tp.length = .ok (tt.contains c) := by
  induction tt with
  | nil =>
    intro tp trest fuel _ hf
    cases fuel with
    | zero => simp at hf
    | succ k => simp [tokFind, rd_mid]
  | cons y tt ih =>
    intro tp trest fuel hn hf
    have ⟨hy, ht⟩ := hn.of_cons
    cases fuel with
    | zero => simp at hf
    | succ k =>
      have e1 : tp ++ y :: tt ++ 0 :: trest = tp ++ y :: (tt ++ 0 :: trest) := by simp
      have e2 : tp ++ y :: (tt ++ 0 :: trest) = (tp ++ [y]) ++ tt ++ 0 :: trest := by simp
      rw [tokFind, e1, rd_mid]
      simp only [bind_ok, hy, if_false]
      by_cases hcy : c = y
      · simp [hcy]
      · simp only [hcy, if_false]
        have i1 : tp.length + 1 = (tp ++ [y]).length := by simp
        rw [e2, i1, ih (tp ++ [y]) trest k ht (by simp at hf; omega)]
        simp [hcy]

theorem tokFind_all (c : UInt8) (tk trest : Bytes) (ht : NulFree tk) :
    tokFind (tk ++ 0 :: trest) c ((tk ++ 0 :: trest).length + 1) 0 = .ok (tk.contains c) := by
  have := tokFind_spec c tk [] trest ((tk ++ 0 :: trest).length + 1) ht (by simp; omega)
  simpa using this

theorem replTLoop_spec (tk trest w wrest : Bytes) (htk : NulFree tk) (hw : NulFree w) (t : Bytes) :
    ∀ (pre rest : Bytes) (dst : OutBlk) (fuel : Nat), NulFree t → t.length < fuel →
    dst.np + (replaceChars tk w t).length ≤ dst.cap →
    replTLoop (pre ++ t ++ 0 :: rest) (tk ++ 0 :: trest) (w ++ 0 :: wrest) fuel pre.length dst
      = .ok ⟨(replaceChars tk w t).reverse ++ dst.rev,
             dst.np + (replaceChars tk w t).length, dst.cap⟩ := by
  induction t with
  | nil =>
    intro pre rest dst fuel _ hf _
    cases fuel with
    | zero => simp at hf
    | succ k => simp [replTLoop, rd_mid, replaceChars]
  | cons c t ih =>
    intro pre rest dst fuel hn hf hcap
    have ⟨hc, ht⟩ := hn.of_cons
    cases fuel with
    | zero => simp at hf
    | succ k =>
      have e1 : pre ++ c :: t ++ 0 :: rest = pre ++ c :: (t ++ 0 :: rest) := by simp
      have e2 : pre ++ c :: (t ++ 0 :: rest) = (pre ++ [c]) ++ t ++ 0 :: rest := by simp
      have i1 : pre.length + 1 = (pre ++ [c]).length := by simp
      rw [replaceChars_cons, List.length_append] at hcap
      rw [replTLoop, e1, rd_mid]
      simp only [bind_ok, hc, if_false]
      rw [tokFind_all c tk trest htk]
      simp only [bind_ok]
      rw [replaceChars_cons]
      by_cases hit : tk.contains c = true
      · simp only [hit, if_true] at hcap ⊢
        rw [copyWord_all w wrest dst hw (by omega)]
        simp only [bind_ok]
        rw [e2, i1, ih (pre ++ [c]) rest _ k ht (by simp at hf; omega) (by simp; omega)]
        simp; omega
      · simp only [hit] at hcap ⊢
        simp only [Bool.false_eq_true, if_false, List.length_singleton] at hcap ⊢
        rw [push_ok dst c (by omega)]
        simp only [bind_ok]
        rw [e2, i1, ih (pre ++ [c]) rest _ k ht (by simp at hf; omega) (by simp; omega)]
        simp; omega

theorem strncmpEq_spec (nd : Bytes) : ∀ (pre t rest np nrest : Bytes), NulFree t → NulFree nd →
    strncmpEq (pre ++ t ++ 0 :: rest) pre.length (np ++ nd ++ 0 :: nrest) np.length nd.length
      = .ok (nd.isPrefixOf t) := by
  induction nd with
  | nil => intro pre t rest np nrest _ _; simp [strncmpEq]
  | cons y nd ih =>
    intro pre t rest np nrest ht hn
    have ⟨hy, hnd⟩ := hn.of_cons
    have n1 : np ++ y :: nd ++ 0 :: nrest = np ++ y :: (nd ++ 0 :: nrest) := by simp
    have n2 : np ++ y :: (nd ++ 0 :: nrest) = (np ++ [y]) ++ nd ++ 0 :: nrest := by simp
    simp only [List.length_cons, strncmpEq]
    cases t with
    | nil =>
      have : pre ++ [] ++ 0 :: rest = pre ++ 0 :: rest := by simp
      rw [this, rd_mid, n1, rd_mid]
      have h0y : (0 : UInt8) ≠ y := fun h => hy h.symm
      simp [h0y]
    | cons x t =>
      have ⟨hx, ht'⟩ := ht.of_cons
      have e1 : pre ++ x :: t ++ 0 :: rest = pre ++ x :: (t ++ 0 :: rest) := by simp
      have e2 : pre ++ x :: (t ++ 0 :: rest) = (pre ++ [x]) ++ t ++ 0 :: rest := by simp
      rw [e1, rd_mid, n1, rd_mid]
      simp only [bind_ok]
      by_cases hxy : x = y
      · subst hxy
        simp only [ne_eq, not_true_eq_false, if_false, hx]
        have i1 : pre.length + 1 = (pre ++ [x]).length := by simp
        have i2 : np.length + 1 = (np ++ [x]).length := by simp
        rw [e2, n2, i1, i2, ih (pre ++ [x]) t rest (np ++ [x]) nrest ht' hnd]
        simp [List.isPrefixOf]
      · have hyx : ¬ y = x := fun h => hxy h.symm
        simp [hxy, List.isPrefixOf, hyx]

theorem strncmpEq_tok (tk trest pre t rest : Bytes) (ht : NulFree t) (htk : NulFree tk) :
    strncmpEq (pre ++ t ++ 0 :: rest) pre.length (tk ++ 0 :: trest) 0 tk.length
      = .ok (tk.isPrefixOf t) := by
  have := strncmpEq_spec tk pre t rest [] trest ht htk
  simpa using this

theorem replSLoop_spec (tk trest w wrest : Bytes) (htk : NulFree tk) (hw : NulFree w)
    (hne : tk ≠ []) : ∀ (fuel : Nat) (t pre rest : Bytes) (dst : OutBlk), NulFree t →
    t.length < fuel → dst.np + (replaceAll tk w t).length ≤ dst.cap →
    replSLoop (pre ++ t ++ 0 :: rest) (tk ++ 0 :: trest) (w ++ 0 :: wrest) tk.length fuel
        pre.length dst
      = .ok ⟨(replaceAll tk w t).reverse ++ dst.rev,
             dst.np + (replaceAll tk w t).length, dst.cap⟩ := by
  have hpos : 0 < tk.length := List.length_pos_iff.mpr hne
  intro fuel
  induction fuel with
  | zero => intro t pre rest dst _ h; simp at h
  | succ k ih =>
    intro t pre rest dst hn hf hcap
    cases t with
    | nil => simp [replSLoop, rd_mid, replaceAll_nil w hne]
    | cons c t =>
      have ⟨hc, ht⟩ := hn.of_cons
      have e1 : pre ++ c :: t ++ 0 :: rest = pre ++ c :: (t ++ 0 :: rest) := by simp
      rw [replSLoop, e1, rd_mid]
      simp only [bind_ok, hc, if_false]
      rw [← e1, strncmpEq_tok tk trest pre (c :: t) rest hn htk]
      simp only [bind_ok]
      by_cases hp : tk.isPrefixOf (c :: t) = true
      · rw [replaceAll_hit w c t hne hp, List.length_append] at hcap
        simp only [hp, if_true]
        rw [copyWord_all w wrest dst hw (by omega)]
        simp only [bind_ok]
        have hz : ¬ tk.length = 0 := by omega
        simp only [hz, if_false]
        have hle := isPrefixOf_length_le hp
        have e2 : pre ++ c :: t ++ 0 :: rest
            = (pre ++ (c :: t).take tk.length) ++ (c :: t).drop tk.length ++ 0 :: rest := by
          conv => rhs; rw [List.append_assoc pre, List.take_append_drop]
        have hle' : tk.length ≤ t.length + 1 := by simpa using hle
        have i1 : pre.length + tk.length = (pre ++ (c :: t).take tk.length).length := by
          simp [List.length_take]; omega
        rw [e2, i1, ih ((c :: t).drop tk.length) _ rest _
          (NulFree.sublist (List.drop_sublist _ _) hn)
          (by simp only [List.length_drop]; simp at hf ⊢; omega) (by simp; omega)]
        rw [replaceAll_hit w c t hne hp]
        simp; omega
      · have hp' : tk.isPrefixOf (c :: t) = false := Bool.eq_false_iff.mpr hp
        rw [replaceAll_miss w c t hne hp', List.length_cons] at hcap
        simp only [hp', Bool.false_eq_true, if_false]
        rw [push_ok dst c (by omega)]
        simp only [bind_ok]
        have e2 : pre ++ c :: t ++ 0 :: rest = (pre ++ [c]) ++ t ++ 0 :: rest := by simp
        have i1 : pre.length + 1 = (pre ++ [c]).length := by simp
        rw [e2, i1, ih t (pre ++ [c]) rest _ ht (by simp at hf; omega) (by simp; omega)]
        rw [replaceAll_miss w c t hne hp']
        simp; omega

end Qlibc.Str

namespace Qlibc.Str
open Qlibc

/-- the finished `newstr` block holding the C string `r` in a block of `cap` bytes -/
def doneBlk (r : Bytes) (cap : Nat) : OutBlk := ⟨0 :: r.reverse, r.length + 1, cap⟩

theorem doneBlk_bytes (r : Bytes) (cap : Nat) : (doneBlk r cap).bytes = r ++ [0] := by
  simp [doneBlk, OutBlk.bytes]

theorem replBuild_t (s srest tk trest w wrest : Bytes) (hs : NulFree s) (htk : NulFree tk)
    (hw : NulFree w) :
    replBuild 116 (s ++ 0 :: srest) (tk ++ 0 :: trest) (w ++ 0 :: wrest) s.length tk.length w.length
      = .ok (some (doneBlk (replaceChars tk w s) (maxLenT s.length w.length + 1))) := by
  unfold replBuild
  simp only [if_true]
  have hfit := replaceChars_length_le tk w s
  have := replTLoop_spec tk trest w wrest htk hw s [] srest (OutBlk.new (maxLenT s.length w.length + 1))
    ((s ++ 0 :: srest).length + 1) hs (by simp; omega) (by simp [OutBlk.new]; omega)
  simp only [List.nil_append, List.length_nil] at this
  rw [this]
  simp only [bind_ok]
  rw [push_ok _ _ (by simp [OutBlk.new]; omega)]
  simp [OutBlk.new, doneBlk]

theorem replBuild_s (s srest tk trest w wrest : Bytes) (hs : NulFree s) (htk : NulFree tk)
    (hw : NulFree w) (hne : tk ≠ []) :
    replBuild 115 (s ++ 0 :: srest) (tk ++ 0 :: trest) (w ++ 0 :: wrest) s.length tk.length w.length
      = .ok (some (doneBlk (replaceAll tk w s) (maxLenS s.length tk.length w.length + 1))) := by
  have hpos : 0 < tk.length := List.length_pos_iff.mpr hne
  unfold replBuild
  have h1 : ¬ ((115 : UInt8) = 116) := by decide
  have h2 : ¬ (tk.length = 0 ∧ tk.length < w.length) := by omega
  simp only [h1, if_false, if_true, h2]
  have hfit := replaceAll_length_le tk w s hne
  have := replSLoop_spec tk trest w wrest htk hw hne ((s ++ 0 :: srest).length + 1) s [] srest
    (OutBlk.new (maxLenS s.length tk.length w.length + 1)) hs (by simp; omega)
    (by simp [OutBlk.new]; omega)
  simp only [List.nil_append, List.length_nil] at this
  rw [this]
  simp only [bind_ok]
  rw [push_ok _ _ (by simp [OutBlk.new]; omega)]
  simp [OutBlk.new, doneBlk]

theorem replFinish_n (src r : Bytes) (cap : Nat) (hr : NulFree r) :
    replFinish 110 src (doneBlk r cap) = .ok ⟨some r, src, some cap⟩ := by
  unfold replFinish
  simp only [if_true, doneBlk_bytes]
  have : cstr (r ++ [0]) = r := cstr_append_nul hr []
  simp [this, doneBlk]

theorem wrN_oob (d : Bytes) : ∀ (buf : Bytes) (i : Nat), i ≤ buf.length → buf.length < i + d.length →
    wrN buf i d = .error .oob := by
  induction d with
  | nil => intro buf i h1 h2; simp at h2; omega
  | cons c d ih =>
    intro buf i h1 h2
    rw [wrN]
    by_cases hi : i < buf.length
    · simp only [wr, hi, if_true, bind_ok]
      exact ih _ (i + 1) (by simp; omega) (by simp at h2 ⊢; omega)
    · simp [wr, hi]

/-- mode `r`: `strcpy(srcstr, newstr)` succeeds iff the caller's block has room for the result
    and its terminator; otherwise it writes past the end of the caller's block -/
theorem replFinish_r (src r : Bytes) (cap : Nat) (hr : NulFree r) :
    replFinish 114 src (doneBlk r cap)
      = if r.length + 1 ≤ src.length
        then .ok ⟨some r, r ++ 0 :: src.drop (r.length + 1), some cap⟩
        else .error .oob := by
  unfold replFinish
  have h1 : ¬ ((114 : UInt8) = 110) := by decide
  simp only [h1, if_false, if_true, doneBlk_bytes]
  have hn : nulPos (r ++ [0]) 0 = .ok r.length := nulPos_zero r [] hr
  rw [hn]
  simp only [bind_ok]
  have hrd : rdN (r ++ [0]) 0 (r.length + 1) = .ok (r ++ [0]) := by
    have := rdN_take (r ++ [0]) (r.length + 1) (by simp)
    rw [this, List.take_of_length_le (by simp)]
  rw [hrd]
  simp only [bind_ok]
  by_cases hfit : r.length + 1 ≤ src.length
  · simp only [hfit, if_true]
    rw [wrN_front src (r ++ [0]) (by simpa using hfit)]
    simp only [bind_ok]
    have e : r ++ [0] ++ src.drop (r ++ [0]).length = r ++ 0 :: src.drop (r.length + 1) := by simp
    rw [e, cstr_append_nul hr]
    simp [doneBlk]
  · simp only [hfit, if_false]
    rw [wrN_oob (r ++ [0]) src 0 (Nat.zero_le _) (by simp; omega)]
    rfl

/-- `qstrreplace` with a two-character mode whose second character is `m1` -/
theorem qstrreplace_t (m1 : UInt8) (hm1 : m1 ≠ 0) (mrest s srest tk trest w wrest : Bytes)
    (hs : NulFree s) (htk : NulFree tk) (hw : NulFree w) :
    qstrreplace ([116, m1] ++ 0 :: mrest) (s ++ 0 :: srest) (tk ++ 0 :: trest) (w ++ 0 :: wrest)
      = replFinish m1 (s ++ 0 :: srest)
          (doneBlk (replaceChars tk w s) (maxLenT s.length w.length + 1)) := by
  unfold qstrreplace
  have hm : NulFree [116, m1] := by
    intro x hx; simp at hx; rcases hx with h | h <;> subst h
    · decide
    · exact hm1
  rw [nulPos_zero [116, m1] mrest hm, nulPos_zero s srest hs, nulPos_zero tk trest htk,
    nulPos_zero w wrest hw]
  have r0 : rd ([116, m1] ++ 0 :: mrest) 0 = .ok 116 := rfl
  have r1 : rd ([116, m1] ++ 0 :: mrest) 1 = .ok m1 := rfl
  simp only [bind_ok, List.length_cons, List.length_nil, ne_eq, not_true_eq_false, if_false, r0, r1]
  rw [replBuild_t s srest tk trest w wrest hs htk hw]
  rfl

theorem qstrreplace_s (m1 : UInt8) (hm1 : m1 ≠ 0) (mrest s srest tk trest w wrest : Bytes)
    (hs : NulFree s) (htk : NulFree tk) (hw : NulFree w) (hne : tk ≠ []) :
    qstrreplace ([115, m1] ++ 0 :: mrest) (s ++ 0 :: srest) (tk ++ 0 :: trest) (w ++ 0 :: wrest)
      = replFinish m1 (s ++ 0 :: srest)
          (doneBlk (replaceAll tk w s) (maxLenS s.length tk.length w.length + 1)) := by
  unfold qstrreplace
  have hm : NulFree [115, m1] := by
    intro x hx; simp at hx; rcases hx with h | h <;> subst h
    · decide
    · exact hm1
  rw [nulPos_zero [115, m1] mrest hm, nulPos_zero s srest hs, nulPos_zero tk trest htk,
    nulPos_zero w wrest hw]
  have r0 : rd ([115, m1] ++ 0 :: mrest) 0 = .ok 115 := rfl
  have r1 : rd ([115, m1] ++ 0 :: mrest) 1 = .ok m1 := rfl
  simp only [bind_ok, List.length_cons, List.length_nil, ne_eq, not_true_eq_false, if_false, r0, r1]
  rw [replBuild_s s srest tk trest w wrest hs htk hw hne]
  rfl

end Qlibc.Str

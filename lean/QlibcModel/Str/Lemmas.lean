/-
  Lemmas about the raw-buffer primitives of `Str/Model.lean` (core Lean only).
  The loop lemmas are stated in "split form": the block is written `pre ++ x :: post` and the
  cursor is `pre.length`, which avoids bounds side conditions.
-/
import QlibcModel.Str.Model

namespace Qlibc.Str
open Qlibc

/-- `s` contains no NUL byte, i.e. it is the content of a C string -/
def NulFree (s : Bytes) : Prop := ∀ x ∈ s, x ≠ 0

instance (s : Bytes) : Decidable (NulFree s) := by unfold NulFree; infer_instance

@[simp] theorem bind_ok {α β : Type} (a : α) (f : α → Except Fault β) :
    (Except.ok a >>= f) = f a := rfl
@[simp] theorem bind_error {α β : Type} (e : Fault) (f : α → Except Fault β) :
    ((Except.error e : Except Fault α) >>= f) = .error e := rfl
@[simp] theorem pure_ok {α : Type} (a : α) : (pure a : Except Fault α) = .ok a := rfl

theorem NulFree.append {a b : Bytes} (ha : NulFree a) (hb : NulFree b) : NulFree (a ++ b) := by
  intro x hx; rcases List.mem_append.mp hx with h | h
  · exact ha x h
  · exact hb x h

theorem NulFree.of_cons {c : UInt8} {s : Bytes} (h : NulFree (c :: s)) : c ≠ 0 ∧ NulFree s :=
  ⟨h c (by simp), fun x hx => h x (by simp [hx])⟩

theorem NulFree.sublist {a b : Bytes} (h : a.Sublist b) (hb : NulFree b) : NulFree a :=
  fun x hx => hb x (h.subset hx)

theorem NulFree.nil : NulFree [] := by intro x hx; cases hx

theorem mem_takeWhile_imp {p : UInt8 → Bool} {l : Bytes} : ∀ {x}, x ∈ l.takeWhile p → p x = true := by
  induction l with
  | nil => simp
  | cons a l ih =>
    intro x hx
    rw [List.takeWhile_cons] at hx
    split at hx
    · rcases List.mem_cons.mp hx with h | h
      · subst h; assumption
      · exact ih h
    · cases hx

theorem length_takeWhile_le' (p : UInt8 → Bool) (l : Bytes) : (l.takeWhile p).length ≤ l.length := by
  have h : (l.takeWhile p ++ l.dropWhile p).length = l.length := by
    rw [List.takeWhile_append_dropWhile]
  simp only [List.length_append] at h; omega

/-! ### rd / wr -/

theorem rd_mid (a : Bytes) (c : UInt8) (b : Bytes) : rd (a ++ c :: b) a.length = .ok c := by
  simp [rd]

theorem rd_mid' (a : Bytes) (c : UInt8) (b : Bytes) (i : Nat) (h : i = a.length) :
    rd (a ++ c :: b) i = .ok c := by subst h; exact rd_mid a c b

theorem wr_mid (a : Bytes) (c : UInt8) (b : Bytes) (x : UInt8) :
    wr (a ++ c :: b) a.length x = .ok (a ++ x :: b) := by
  simp [wr]

theorem wr_mid' (a : Bytes) (c : UInt8) (b : Bytes) (x : UInt8) (i : Nat) (h : i = a.length) :
    wr (a ++ c :: b) i x = .ok (a ++ x :: b) := by subst h; exact wr_mid a c b x

theorem cstr_append_nul {s : Bytes} (h : NulFree s) (rest : Bytes) : cstr (s ++ 0 :: rest) = s := by
  induction s with
  | nil => simp [cstr]
  | cons c s ih =>
    have ⟨hc, hs⟩ := h.of_cons
    have := ih hs
    simp only [cstr] at this ⊢
    simp [hc, this]

/-! ### forward scans -/

theorem scanFwd_spec (p : UInt8 → Bool) (mid : Bytes) : ∀ (pre : Bytes) (c : UInt8) (post : Bytes)
    (fuel : Nat), (∀ x ∈ mid, p x = true) → p c = false → mid.length < fuel →
    scanFwd p (pre ++ mid ++ c :: post) fuel pre.length = .ok (pre.length + mid.length) := by
  induction mid with
  | nil =>
    intro pre c post fuel _ hc hf
    cases fuel with
    | zero => simp at hf
    | succ f => simp [scanFwd, rd_mid, hc]
  | cons x m ih =>
    intro pre c post fuel hm hc hf
    cases fuel with
    | zero => simp at hf
    | succ f =>
      have hx : p x = true := hm x (by simp)
      have e1 : pre ++ x :: m ++ c :: post = pre ++ x :: (m ++ c :: post) := by simp
      have e2 : pre ++ x :: (m ++ c :: post) = (pre ++ [x]) ++ m ++ c :: post := by simp
      rw [scanFwd, e1, rd_mid]
      simp only [bind_ok, hx, if_true]
      have := ih (pre ++ [x]) c post f (fun y hy => hm y (by simp [hy])) hc
        (by simp at hf; omega)
      rw [e2]
      simp only [List.length_append, List.length_cons, List.length_nil] at this ⊢
      rw [this]; congr 1; omega

theorem nulPos_spec (pre s rest : Bytes) (hs : NulFree s) :
    nulPos (pre ++ s ++ 0 :: rest) pre.length = .ok (pre.length + s.length) := by
  unfold nulPos
  apply scanFwd_spec
  · intro x hx; simpa using hs x hx
  · simp
  · simp; omega

theorem nulPos_zero (s rest : Bytes) (hs : NulFree s) :
    nulPos (s ++ 0 :: rest) 0 = .ok s.length := by
  have := nulPos_spec [] s rest hs
  simpa using this

theorem nulPos_at (buf pre s rest : Bytes) (i : Nat) (hs : NulFree s)
    (hb : buf = pre ++ s ++ 0 :: rest) (hi : i = pre.length) :
    nulPos buf i = .ok (pre.length + s.length) := by
  subst hb hi; exact nulPos_spec pre s rest hs

theorem isWs_zero : isWs 0 = false := by decide

theorem isWs_ne_zero {c : UInt8} (h : isWs c = true) : c ≠ 0 := by
  intro h0; subst h0; simp [isWs_zero] at h

/-- the leading white-space scan stops at `|takeWhile isWs s|` (the terminator is not white space) -/
theorem scanWs_spec (s rest : Bytes) (fuel : Nat) (hf : s.length < fuel) :
    scanFwd isWs (s ++ 0 :: rest) fuel 0 = .ok (s.takeWhile isWs).length := by
  have hsplit : s = s.takeWhile isWs ++ s.dropWhile isWs := (List.takeWhile_append_dropWhile).symm
  have hlen : (s.takeWhile isWs).length ≤ s.length := length_takeWhile_le' isWs s
  cases hd : s.dropWhile isWs with
  | nil =>
    have e : s ++ 0 :: rest = [] ++ s.takeWhile isWs ++ 0 :: rest := by
      conv => lhs; rw [hsplit, hd]
      simp
    rw [e]
    have := scanFwd_spec isWs (s.takeWhile isWs) [] 0 rest fuel
      (fun x hx => mem_takeWhile_imp hx) isWs_zero (by omega)
    simpa using this
  | cons c t =>
    have hc : isWs c = false := by
      have := List.head_dropWhile_not isWs (l := s) (by simp [hd])
      simpa [hd] using this
    have e : s ++ 0 :: rest = [] ++ s.takeWhile isWs ++ c :: (t ++ 0 :: rest) := by
      conv => lhs; rw [hsplit, hd]
      simp
    rw [e]
    have := scanFwd_spec isWs (s.takeWhile isWs) [] c (t ++ 0 :: rest) fuel
      (fun x hx => mem_takeWhile_imp hx) hc (by omega)
    simpa using this

/-! ### backward scan -/

theorem scanBack_spec (p : UInt8 → Bool) (ss : Nat) (w : Bytes) : ∀ (a post : Bytes),
    (∀ x ∈ w, p x = true) → ss ≤ a.length →
    (ss = a.length ∨ ∃ a' x, a = a' ++ [x] ∧ p x = false) →
    scanBack p (a ++ w.reverse ++ post) ss (a.length + w.length) = .ok a.length := by
  induction w with
  | nil =>
    intro a post _ hss hstop
    simp only [List.reverse_nil, List.append_nil, List.length_nil, Nat.add_zero]
    cases hl : a.length with
    | zero => simp [scanBack]
    | succ k =>
      rcases hstop with h | ⟨a', x, ha, hx⟩
      · simp [scanBack]; omega
      · subst ha
        have hk : a'.length = k := by simpa using hl
        have e : a' ++ [x] ++ post = a' ++ x :: post := by simp
        rw [scanBack, e, rd_mid' a' x post k hk.symm]
        simp [hx]
  | cons x w ih =>
    intro a post hw hss hstop
    have hx : p x = true := hw x (by simp)
    have e1 : a ++ (x :: w).reverse ++ post = (a ++ w.reverse) ++ x :: post := by simp
    have e2 : a.length + (x :: w).length = (a.length + w.length) + 1 := by simp; omega
    rw [e2, scanBack, e1]
    have hr : rd ((a ++ w.reverse) ++ x :: post) (a.length + w.length) = .ok x := by
      have := rd_mid (a ++ w.reverse) x post
      simpa using this
    have hlt : ss < a.length + w.length + 1 := by omega
    simp only [hlt, if_true, hr, bind_ok, hx]
    have := ih a (x :: post) (fun y hy => hw y (by simp [hy])) hss hstop
    simpa using this

/-! ### block copies -/

theorem rdN_spec (b : Bytes) : ∀ (a c : Bytes), rdN (a ++ b ++ c) a.length b.length = .ok b := by
  induction b with
  | nil => intro a c; simp [rdN]
  | cons x b ih =>
    intro a c
    have e1 : a ++ x :: b ++ c = a ++ x :: (b ++ c) := by simp
    have e2 : a ++ x :: (b ++ c) = (a ++ [x]) ++ b ++ c := by simp
    simp only [List.length_cons, rdN]
    rw [e1, rd_mid, e2]
    have := ih (a ++ [x]) c
    simp only [List.length_append, List.length_cons, List.length_nil, Nat.zero_add] at this
    rw [this]; rfl

theorem rdN_at (buf a b c : Bytes) (i n : Nat) (hb : buf = a ++ b ++ c) (hi : i = a.length)
    (hn : n = b.length) : rdN buf i n = .ok b := by
  subst hb hi hn; exact rdN_spec b a c

theorem wrN_spec (d : Bytes) : ∀ (a b c : Bytes), b.length = d.length →
    wrN (a ++ b ++ c) a.length d = .ok (a ++ d ++ c) := by
  induction d with
  | nil =>
    intro a b c h
    have : b = [] := List.length_eq_zero_iff.mp (by simpa using h)
    subst this; simp [wrN]
  | cons x d ih =>
    intro a b c h
    cases b with
    | nil => simp at h
    | cons y b =>
      have e1 : a ++ y :: b ++ c = a ++ y :: (b ++ c) := by simp
      have e2 : a ++ x :: (b ++ c) = (a ++ [x]) ++ b ++ c := by simp
      rw [wrN, e1, wr_mid]
      simp only [bind_ok]
      rw [e2]
      have := ih (a ++ [x]) b c (by simpa using h)
      simp only [List.length_append, List.length_cons, List.length_nil, Nat.zero_add] at this
      rw [this]; simp

theorem wrN_at (buf a b c d : Bytes) (i : Nat) (hb : buf = a ++ b ++ c) (hi : i = a.length)
    (hl : b.length = d.length) : wrN buf i d = .ok (a ++ d ++ c) := by
  subst hb hi; exact wrN_spec d a b c hl

/-- `memmove(buf, buf + |x|, |y|)` on `buf = x ++ y ++ z` -/
theorem memmove_front (x y z : Bytes) :
    memmove (x ++ y ++ z) 0 x.length y.length = .ok (y ++ (x ++ y ++ z).drop y.length) := by
  unfold memmove
  rw [rdN_spec y x z]
  simp only [bind_ok]
  have hlen : y.length ≤ (x ++ y ++ z).length := by simp; omega
  have := wrN_spec y [] ((x ++ y ++ z).take y.length) ((x ++ y ++ z).drop y.length)
    (by simp [List.length_take]; omega)
  simpa using this

end Qlibc.Str

namespace Qlibc.Str
open Qlibc

/-- shape of the block after an in-place routine: result string, terminator, left-over bytes
    of the old string, and the untouched surplus `rest` of the block -/
theorem inplace_shape (x junk rest : Bytes) (n : Nat) (h : junk.length + x.length = n)
    (hx : NulFree x) :
    cstr (x ++ 0 :: junk ++ rest) = x ∧
    (x ++ 0 :: junk ++ rest).length = n + 1 + rest.length ∧
    (x ++ 0 :: junk ++ rest).drop (n + 1) = rest := by
  have e0 : x ++ 0 :: junk ++ rest = x ++ 0 :: (junk ++ rest) := by simp
  refine ⟨by rw [e0]; exact cstr_append_nul hx _, by simp; omega, ?_⟩
  have e : x ++ 0 :: junk ++ rest = (x ++ 0 :: junk) ++ rest := by simp
  have l : (x ++ 0 :: junk).length = n + 1 := by simp; omega
  rw [e, ← l, List.drop_left]

end Qlibc.Str

/-
  qstrunique = qhex_encode(MD5 digest, 16): only the shape of the result is deterministic.
-/
import QlibcModel.Encode.Lemmas
import QlibcModel.Str.SpecMore

namespace Qlibc.Str
open Qlibc Qlibc.Encode Qlibc.Generated

/-- a lowercase hexadecimal digit -/
def isHexLowerB (c : UInt8) : Bool := isDigitB c || (97 ≤ c && c ≤ 102)

theorem hexChars_lower : ∀ c : UInt8, isHexLowerB (tbl hexCharTbl (c >>> 4).toNat) = true ∧
    isHexLowerB (tbl hexCharTbl (c &&& 0x0F).toNat) = true := by
  apply forall_uint8; decide +kernel

theorem hexEncode_shape (d : Bytes) :
    (hexEncode d).length = 2 * d.length ∧ (hexEncode d).all isHexLowerB = true := by
  induction d with
  | nil => simp [hexEncode]
  | cons c d ih =>
    rw [hexEncode_cons]
    have ⟨h1, h2⟩ := hexChars_lower c
    refine ⟨by simp [ih.1]; omega, ?_⟩
    simp only [List.all_cons, h1, h2, ih.2, Bool.and_self]

end Qlibc.Str

/-
  qstrtest and qstr_is_ip4addr on raw buffers.
-/
import QlibcModel.Str.ModelMore
import QlibcModel.Str.TokLemmas

namespace Qlibc.Str
open Qlibc

theorem testLoop_spec (p : UInt8 → Bool) (t : Bytes) : ∀ (pre rest : Bytes) (fuel : Nat),
    NulFree t → t.length < fuel →
    testLoop p (pre ++ t ++ 0 :: rest) fuel pre.length = .ok (t.all p) := by
  induction t with
  | nil =>
    intro pre rest fuel _ hf
    cases fuel with
    | zero => simp at hf
    | succ k => simp [testLoop, rd_mid]
  | cons c t ih =>
    intro pre rest fuel hn hf
    have ⟨hc, ht⟩ := hn.of_cons
    cases fuel with
    | zero => simp at hf
    | succ k =>
      have e1 : pre ++ c :: t ++ 0 :: rest = pre ++ c :: (t ++ 0 :: rest) := by simp
      have e2 : pre ++ c :: (t ++ 0 :: rest) = (pre ++ [c]) ++ t ++ 0 :: rest := by simp
      have i1 : pre.length + 1 = (pre ++ [c]).length := by simp
      rw [testLoop, e1, rd_mid]
      simp only [bind_ok, hc, if_false]
      by_cases hp : p c = true
      · simp only [hp, if_true]
        rw [e2, i1, ih (pre ++ [c]) rest k ht (by simp at hf; omega)]
        simp [hp]
      · simp [hp]

theorem qstrtest_correct (p : UInt8 → Bool) (s rest : Bytes) (hs : NulFree s) :
    qstrtest p (s ++ 0 :: rest) = .ok (strTest p s) := by
  unfold qstrtest strTest
  have := testLoop_spec p s [] rest ((s ++ 0 :: rest).length + 1) hs (by simp; omega)
  simpa using this

/-! ### strchr, atoi -/

theorem strchrFrom_hit (ch : UInt8) (f : Bytes) : ∀ (pre post : Bytes) (fuel : Nat),
    (∀ x ∈ f, x ≠ ch ∧ x ≠ 0) → f.length < fuel →
    strchrFrom (pre ++ f ++ ch :: post) ch fuel pre.length = .ok (some (pre.length + f.length)) := by
  induction f with
  | nil =>
    intro pre post fuel _ hf
    cases fuel with
    | zero => simp at hf
    | succ k => simp [strchrFrom, rd_mid]
  | cons x f ih =>
    intro pre post fuel hx hf
    have ⟨hx1, hx0⟩ := hx x (by simp)
    cases fuel with
    | zero => simp at hf
    | succ k =>
      have e1 : pre ++ x :: f ++ ch :: post = pre ++ x :: (f ++ ch :: post) := by simp
      have e2 : pre ++ x :: (f ++ ch :: post) = (pre ++ [x]) ++ f ++ ch :: post := by simp
      have i1 : pre.length + 1 = (pre ++ [x]).length := by simp
      rw [strchrFrom, e1, rd_mid]
      simp only [bind_ok, hx1, hx0, if_false]
      rw [e2, i1, ih (pre ++ [x]) post k (fun y hy => hx y (by simp [hy])) (by simp at hf; omega)]
      simp; omega

theorem strchrFrom_miss (ch : UInt8) (hch : ch ≠ 0) (f : Bytes) : ∀ (pre post : Bytes) (fuel : Nat),
    (∀ x ∈ f, x ≠ ch ∧ x ≠ 0) → f.length < fuel →
    strchrFrom (pre ++ f ++ 0 :: post) ch fuel pre.length = .ok none := by
  induction f with
  | nil =>
    intro pre post fuel _ hf
    cases fuel with
    | zero => simp at hf
    | succ k =>
      have : ¬ (0 : UInt8) = ch := fun h => hch h.symm
      simp [strchrFrom, rd_mid, this]
  | cons x f ih =>
    intro pre post fuel hx hf
    have ⟨hx1, hx0⟩ := hx x (by simp)
    cases fuel with
    | zero => simp at hf
    | succ k =>
      have e1 : pre ++ x :: f ++ 0 :: post = pre ++ x :: (f ++ 0 :: post) := by simp
      have e2 : pre ++ x :: (f ++ 0 :: post) = (pre ++ [x]) ++ f ++ 0 :: post := by simp
      have i1 : pre.length + 1 = (pre ++ [x]).length := by simp
      rw [strchrFrom, e1, rd_mid]
      simp only [bind_ok, hx1, hx0, if_false]
      rw [e2, i1, ih (pre ++ [x]) post k (fun y hy => hx y (by simp [hy])) (by simp at hf; omega)]

theorem isDigitB_zero : isDigitB 0 = false := by decide

theorem atoiDigits_spec (t : Bytes) : ∀ (pre rest : Bytes) (fuel acc : Nat),
    t.all isDigitB = true → t.length < fuel →
    atoiDigits (pre ++ t ++ 0 :: rest) fuel pre.length acc
      = .ok (t.foldl (fun a c => a * 10 + (c.toNat - 48)) acc) := by
  induction t with
  | nil =>
    intro pre rest fuel acc _ hf
    cases fuel with
    | zero => simp at hf
    | succ k => simp [atoiDigits, rd_mid, isDigitB_zero]
  | cons c t ih =>
    intro pre rest fuel acc hd hf
    have hc : isDigitB c = true := by simp at hd; exact hd.1
    have ht : t.all isDigitB = true := by simp at hd ⊢; exact hd.2
    cases fuel with
    | zero => simp at hf
    | succ k =>
      have e1 : pre ++ c :: t ++ 0 :: rest = pre ++ c :: (t ++ 0 :: rest) := by simp
      have e2 : pre ++ c :: (t ++ 0 :: rest) = (pre ++ [c]) ++ t ++ 0 :: rest := by simp
      have i1 : pre.length + 1 = (pre ++ [c]).length := by simp
      rw [atoiDigits, e1, rd_mid]
      simp only [bind_ok, hc, if_true]
      rw [e2, i1, ih (pre ++ [c]) rest k _ ht (by simp at hf; omega)]
      rfl

/-! ### one part, the loop over the parts -/

theorem ip4Part_spec (pre p rest : Bytes) (hp : NulFree p) :
    ip4Part (pre ++ p ++ 0 :: rest) pre.length = .ok (ip4PartOk p) := by
  unfold ip4Part ip4PartOk
  cases p with
  | nil => simp [rd_mid]
  | cons c t =>
    have ⟨hc, _⟩ := hp.of_cons
    have e1 : pre ++ c :: t ++ 0 :: rest = pre ++ c :: (t ++ 0 :: rest) := by simp
    have r0 : rd (pre ++ c :: t ++ 0 :: rest) pre.length = .ok c := by rw [e1, rd_mid]
    rw [r0]
    simp only [bind_ok, hc, if_false]
    rw [nulPos_spec pre (c :: t) rest hp]
    simp only [bind_ok]
    have hlen : pre.length + (c :: t).length - pre.length = (c :: t).length := by omega
    rw [hlen]
    have hfuel : (c :: t).length < (pre ++ c :: t ++ 0 :: rest).length + 1 := by simp; omega
    have hpos : 1 ≤ (c :: t).length := by simp
    generalize (c :: t).length = n at hpos ⊢
    by_cases h3 : n > 3
    · simp only [h3, if_true]
      have : decide (n ≤ 3) = false := decide_eq_false (by omega)
      rw [this]; simp
    · simp only [h3, if_false]
      rw [testLoop_spec isDigitB (c :: t) pre rest _ hp hfuel]
      simp only [bind_ok]
      have h1 : decide (1 ≤ n) = true := decide_eq_true hpos
      have h2 : decide (n ≤ 3) = true := decide_eq_true (by omega)
      rw [h1, h2]
      by_cases hd : (c :: t).all isDigitB = true
      · simp only [hd, Bool.not_true, Bool.false_eq_true, if_false, Bool.and_self, Bool.true_and]
        rw [atoiDigits_spec (c :: t) pre rest _ 0 hd hfuel]
        simp only [bind_ok, decVal]
        congr 1
        apply decide_eq_decide.mpr
        omega
      · have hd' : (c :: t).all isDigitB = false := Bool.eq_false_iff.mpr hd
        simp [hd']

theorem not_dot_of_contains {x : UInt8} (h : ([46] : Bytes).contains x = false) : x ≠ 46 := by
  intro hx; subst hx; simp at h

theorem ip4Loop_spec : ∀ (fuel : Nat) (t pre rest : Bytes) (cnt : Nat), NulFree t →
    t.length < fuel →
    ip4Loop fuel (pre ++ t ++ 0 :: rest) pre.length cnt
      = .ok ((splitFields [46] t).all ip4PartOk && decide (cnt + (splitFields [46] t).length = 4)) := by
  intro fuel
  induction fuel with
  | zero => intro t pre rest cnt _ h; simp at h
  | succ k ih =>
    intro t pre rest cnt ht hf
    rw [ip4Loop]
    have hfuel : t.length < (pre ++ t ++ 0 :: rest).length + 1 := by simp; omega
    rcases delim_split [46] t with hplain | ⟨f, c, r, hsplit, hfd, hcd⟩
    · rw [strchrFrom_miss 46 (by decide) t pre rest _
        (fun x hx => ⟨not_dot_of_contains (hplain x hx), ht x hx⟩) hfuel]
      simp only [bind_ok]
      rw [ip4Part_spec pre t rest ht, splitFields_plain [46] t hplain]
      simp only [bind_ok, List.all_cons, List.all_nil, Bool.and_true, List.length_singleton]
      cases ip4PartOk t with
      | false => simp
      | true =>
        simp only [Bool.not_true, Bool.false_eq_true, if_false, Bool.true_and]
        congr 2
        exact propext ⟨fun h => by omega, fun h => by omega⟩
    · subst hsplit
      have hc : c = 46 := by simpa using hcd
      subst hc
      have hfn : NulFree f := fun x hx => ht x (by simp [hx])
      have hrn : NulFree r := fun x hx => ht x (by simp [hx])
      have e0 : pre ++ (f ++ 46 :: r) ++ 0 :: rest = pre ++ f ++ 46 :: (r ++ 0 :: rest) := by simp
      rw [e0, strchrFrom_hit 46 f pre (r ++ 0 :: rest) _
        (fun x hx => ⟨not_dot_of_contains (hfd x hx), hfn x hx⟩) (by simp; omega)]
      simp only [bind_ok]
      rw [wr_mid' (pre ++ f) 46 (r ++ 0 :: rest) 0 _ (by simp)]
      simp only [bind_ok]
      rw [ip4Part_spec pre f (r ++ 0 :: rest) hfn, splitFields_delim [46] f 46 r hfd hcd]
      simp only [bind_ok, List.all_cons, List.length_cons]
      cases ip4PartOk f with
      | false => simp
      | true =>
        simp only [Bool.not_true, Bool.false_eq_true, if_false, Bool.true_and]
        have e1 : pre ++ f ++ 0 :: (r ++ 0 :: rest) = (pre ++ f ++ [0]) ++ r ++ 0 :: rest := by simp
        have i1 : pre.length + f.length + 1 = (pre ++ f ++ [0]).length := by simp; omega
        rw [e1, i1, ih r (pre ++ f ++ [0]) rest (cnt + 1) hrn (by simp at hf; omega)]
        congr 3
        exact propext ⟨fun h => by omega, fun h => by omega⟩

theorem qstrIsIp4addr_correct (s rest : Bytes) (hs : NulFree s) :
    qstrIsIp4addr (s ++ 0 :: rest) = .ok (isIp4 s) := by
  unfold qstrIsIp4addr isIp4
  rw [nulPos_zero s rest hs]
  simp only [bind_ok]
  have hrd : rdN (s ++ 0 :: rest) 0 (s.length + 1) = .ok (s ++ [0]) :=
    rdN_at (s ++ 0 :: rest) [] (s ++ [0]) rest 0 (s.length + 1) (by simp) rfl (by simp)
  rw [hrd]
  simp only [bind_ok]
  have := ip4Loop_spec ((s ++ [0]).length + 1) s [] [] 0 hs
    (by simp only [List.length_append, List.length_singleton]; omega)
  simp only [List.nil_append, List.length_nil, Nat.zero_add] at this
  rw [this, Bool.and_comm]
  congr 2

end Qlibc.Str

/-
  qstrtok / qstrtokenizer: iterating the tokenizer over a raw buffer yields `splitOnAny`.
-/
import QlibcModel.Str.TrimLemmas

namespace Qlibc.Str
open Qlibc

/-! ### the reference side -/

theorem delim_split (d : Bytes) (t : Bytes) : (∀ x ∈ t, d.contains x = false) ∨
    ∃ f c r, t = f ++ c :: r ∧ (∀ x ∈ f, d.contains x = false) ∧ d.contains c = true := by
  induction t with
  | nil => left; intro x hx; cases hx
  | cons x t ih =>
    by_cases hx : d.contains x = true
    · right; exact ⟨[], x, t, rfl, (by intro y hy; cases hy), hx⟩
    · have hx' : d.contains x = false := by simpa using hx
      rcases ih with h | ⟨f, c, r, ht, hf, hc⟩
      · left; intro y hy
        rcases List.mem_cons.mp hy with h1 | h1
        · subst h1; exact hx'
        · exact h y h1
      · right
        refine ⟨x :: f, c, r, by simp [ht], ?_, hc⟩
        intro y hy
        rcases List.mem_cons.mp hy with h1 | h1
        · subst h1; exact hx'
        · exact hf y h1

theorem splitFields_ne_nil (d s : Bytes) : splitFields d s ≠ [] := by
  cases s with
  | nil => simp [splitFields]
  | cons c s =>
    simp only [splitFields]
    split
    · simp
    · split <;> simp

theorem splitFields_plain (d f : Bytes) (hf : ∀ x ∈ f, d.contains x = false) :
    splitFields d f = [f] := by
  induction f with
  | nil => rfl
  | cons x f ih =>
    have hx : ¬ x ∈ d := by simpa using hf x (by simp)
    have := ih (fun y hy => hf y (by simp [hy]))
    simp [splitFields, hx, this]

theorem splitFields_delim (d f : Bytes) (c : UInt8) (r : Bytes)
    (hf : ∀ x ∈ f, d.contains x = false) (hc : d.contains c = true) :
    splitFields d (f ++ c :: r) = f :: splitFields d r := by
  have hc' : c ∈ d := by simpa using hc
  induction f with
  | nil => simp [splitFields, hc']
  | cons x f ih =>
    have hx : ¬ x ∈ d := by simpa using hf x (by simp)
    have := ih (fun y hy => hf y (by simp [hy]))
    simp [splitFields, hx, this]

theorem splitOnAny_nil (d : Bytes) : splitOnAny d [] = [] := by
  simp [splitOnAny, splitFields]

theorem splitOnAny_plain (d f : Bytes) (hne : f ≠ []) (hf : ∀ x ∈ f, d.contains x = false) :
    splitOnAny d f = [f] := by
  unfold splitOnAny
  rw [splitFields_plain d f hf]
  simp [hne]

theorem splitOnAny_delim (d f : Bytes) (c : UInt8) (r : Bytes)
    (hf : ∀ x ∈ f, d.contains x = false) (hc : d.contains c = true) :
    splitOnAny d (f ++ c :: r) = f :: splitOnAny d r := by
  unfold splitOnAny
  rw [splitFields_delim d f c r hf hc]
  have hne := splitFields_ne_nil d r
  generalize splitFields d r = S at hne
  cases S with
  | nil => exact absurd rfl hne
  | cons a S =>
    simp only [List.getLast?_cons_cons]
    split <;> simp [List.dropLast]

/-! ### the loops -/

theorem delimFind_spec (c : UInt8) (dt : Bytes) : ∀ (dp drest : Bytes) (fuel : Nat),
    dt.length < fuel →
    delimFind (dp ++ dt ++ 0 :: drest) c (dp.length + dt.length) fuel dp.length
      = .ok (if dt.contains c then some c else none) := by
  induction dt with
  | nil =>
    intro dp drest fuel hf
    cases fuel with
    | zero => simp at hf
    | succ k => simp [delimFind]
  | cons y dt ih =>
    intro dp drest fuel hf
    cases fuel with
    | zero => simp at hf
    | succ k =>
      have hlt : dp.length < dp.length + (y :: dt).length := by simp
      have e1 : dp ++ y :: dt ++ 0 :: drest = dp ++ y :: (dt ++ 0 :: drest) := by simp
      have e2 : dp ++ y :: (dt ++ 0 :: drest) = (dp ++ [y]) ++ dt ++ 0 :: drest := by simp
      rw [delimFind]
      simp only [hlt, if_true]
      rw [e1, rd_mid]
      simp only [bind_ok]
      by_cases hcy : c = y
      · simp [hcy]
      · simp only [hcy, if_false]
        have i1 : dp.length + (y :: dt).length = (dp ++ [y]).length + dt.length := by simp; omega
        have i2 : dp.length + 1 = (dp ++ [y]).length := by simp
        rw [e2, i1, i2, ih (dp ++ [y]) drest k (by simp at hf; omega)]
        have : (y :: dt).contains c = dt.contains c := by
          simp [hcy]
        rw [this]

theorem delimFind_all (c : UInt8) (d drest : Bytes) :
    delimFind (d ++ 0 :: drest) c d.length (d.length + 1) 0
      = .ok (if d.contains c then some c else none) := by
  have := delimFind_spec c d [] drest (d.length + 1) (by omega)
  simpa using this

theorem tokLoop_end (d drest : Bytes) (sp off0 : Nat) (f : Bytes) : ∀ (a post : Bytes) (fuel : Nat),
    (∀ x ∈ f, x ≠ 0 ∧ d.contains x = false) → f.length < fuel →
    tokLoop (d ++ 0 :: drest) d.length sp off0 fuel (a ++ f ++ 0 :: post) a.length
      = .ok (if sp ≠ a.length + f.length
             then ⟨some sp, 0, a ++ f ++ 0 :: post, a.length + f.length⟩
             else ⟨none, 0, a ++ f ++ 0 :: post, off0⟩) := by
  induction f with
  | nil =>
    intro a post fuel _ hf
    cases fuel with
    | zero => simp at hf
    | succ k =>
      simp only [List.append_nil, tokLoop, rd_mid, bind_ok, if_true, List.length_nil, Nat.add_zero]
      split <;> rfl
  | cons x f ih =>
    intro a post fuel hx hf
    cases fuel with
    | zero => simp at hf
    | succ k =>
      have ⟨hx0, hxd⟩ := hx x (by simp)
      have e1 : a ++ x :: f ++ 0 :: post = a ++ x :: (f ++ 0 :: post) := by simp
      have e2 : a ++ x :: (f ++ 0 :: post) = (a ++ [x]) ++ f ++ 0 :: post := by simp
      rw [tokLoop, e1, rd_mid]
      simp only [bind_ok, hx0, if_false]
      rw [delimFind_all, hxd]
      simp only [Bool.false_eq_true, if_false, bind_ok]
      have i1 : a.length + 1 = (a ++ [x]).length := by simp
      rw [e2, i1, ih (a ++ [x]) post k (fun y hy => hx y (by simp [hy])) (by simp at hf; omega)]
      have i2 : (a ++ [x]).length + f.length = a.length + (x :: f).length := by simp; omega
      rw [i2]

theorem tokLoop_delim (d drest : Bytes) (sp off0 : Nat) (c : UInt8) (hc0 : c ≠ 0)
    (hcd : d.contains c = true) (f : Bytes) : ∀ (a post : Bytes) (fuel : Nat),
    (∀ x ∈ f, x ≠ 0 ∧ d.contains x = false) → f.length < fuel →
    tokLoop (d ++ 0 :: drest) d.length sp off0 fuel (a ++ f ++ c :: post) a.length
      = .ok ⟨some sp, c, a ++ f ++ 0 :: post, a.length + f.length + 1⟩ := by
  induction f with
  | nil =>
    intro a post fuel _ hf
    cases fuel with
    | zero => simp at hf
    | succ k =>
      simp only [List.append_nil, tokLoop, rd_mid, bind_ok, hc0, if_false]
      rw [delimFind_all, hcd]
      simp only [if_true, bind_ok]
      rw [wr_mid]
      simp
  | cons x f ih =>
    intro a post fuel hx hf
    cases fuel with
    | zero => simp at hf
    | succ k =>
      have ⟨hx0, hxd⟩ := hx x (by simp)
      have e1 : a ++ x :: f ++ c :: post = a ++ x :: (f ++ c :: post) := by simp
      have e2 : a ++ x :: (f ++ c :: post) = (a ++ [x]) ++ f ++ c :: post := by simp
      rw [tokLoop, e1, rd_mid]
      simp only [bind_ok, hx0, if_false]
      rw [delimFind_all, hxd]
      simp only [Bool.false_eq_true, if_false, bind_ok]
      have i1 : a.length + 1 = (a ++ [x]).length := by simp
      rw [e2, i1, ih (a ++ [x]) post k (fun y hy => hx y (by simp [hy])) (by simp at hf; omega)]
      simp; omega

/-- iterating `qstrtok` from offset `|pre|` over the NUL-free rest `t` of the string: the
    tokens are `splitOnAny d t`; only bytes of `t` are modified -/
theorem tokAll_spec (d drest : Bytes) (hd : NulFree d) : ∀ (fuel : Nat) (t pre rest : Bytes),
    NulFree t → t.length + 1 < fuel →
    ∃ (t' : Bytes) (r : List (Bytes × UInt8 × Nat) × Bytes), t'.length = t.length ∧
      tokAll (d ++ 0 :: drest) fuel (pre ++ t ++ 0 :: rest) pre.length = .ok r ∧
      r.2 = pre ++ t' ++ 0 :: rest ∧
      r.1.map (·.1) = splitOnAny d t := by
  intro fuel
  induction fuel with
  | zero => intro t pre rest _ h; simp at h
  | succ k ih =>
    intro t pre rest ht hf
    rw [tokAll]
    unfold qstrtok
    rw [nulPos_zero d drest hd]
    simp only [bind_ok]
    rcases delim_split d t with hplain | ⟨f, c, r, hsplit, hfd, hcd⟩
    · rw [tokLoop_end d drest _ _ t pre rest _ (fun x hx => ⟨ht x hx, hplain x hx⟩) (by simp; omega)]
      by_cases hnil : t = []
      · subst hnil
        simp only [List.length_nil, Nat.add_zero, ne_eq, not_true_eq_false, if_false, bind_ok]
        exact ⟨[], _, rfl, rfl, rfl, by simp [splitOnAny_nil]⟩
      · have hpos : 0 < t.length := List.length_pos_iff.mpr hnil
        have hne : pre.length ≠ pre.length + t.length := by omega
        simp only [hne, ne_eq, not_false_eq_true, if_true, bind_ok]
        have e1 : pre ++ t ++ 0 :: rest = (pre ++ t) ++ [] ++ 0 :: rest := by simp
        have i1 : pre.length + t.length = (pre ++ t).length := by simp
        obtain ⟨t', r0, hl, hrun, hbuf, hmap⟩ := ih [] (pre ++ t) rest NulFree.nil (by simp; omega)
        have ht' : t' = [] := List.length_eq_zero_iff.mp (by simpa using hl)
        subst ht'
        rw [splitOnAny_nil] at hmap
        have htoks : r0.1 = [] := by simpa using hmap
        rw [i1, e1, hrun]
        simp only [bind_ok]
        refine ⟨t, _, rfl, rfl, ?_, ?_⟩
        · show r0.2 = _
          rw [hbuf]; simp
        · show (_ :: r0.1).map (·.1) = _
          rw [htoks, splitOnAny_plain d t hnil hplain]
          have : (pre ++ t ++ [] ++ 0 :: rest).drop pre.length = t ++ 0 :: rest := by simp
          simp only [List.map_cons, List.map_nil]
          rw [this, cstr_append_nul ht]
    · subst hsplit
      have hfn : NulFree f := fun x hx => ht x (by simp [hx])
      have hrn : NulFree r := fun x hx => ht x (by simp [hx])
      have hc0 : c ≠ 0 := ht c (by simp)
      have e0 : pre ++ (f ++ c :: r) ++ 0 :: rest = pre ++ f ++ c :: (r ++ 0 :: rest) := by simp
      rw [e0, tokLoop_delim d drest _ _ c hc0 hcd f pre (r ++ 0 :: rest) _
        (fun x hx => ⟨hfn x hx, hfd x hx⟩) (by simp; omega)]
      simp only [bind_ok]
      have e1 : pre ++ f ++ 0 :: (r ++ 0 :: rest) = (pre ++ f ++ [0]) ++ r ++ 0 :: rest := by simp
      have i1 : pre.length + f.length + 1 = (pre ++ f ++ [0]).length := by simp; omega
      obtain ⟨r', r0, hl, hrun, hbuf, hmap⟩ :=
        ih r (pre ++ f ++ [0]) rest hrn (by simp at hf ⊢; omega)
      rw [i1, e1, hrun]
      simp only [bind_ok]
      refine ⟨f ++ 0 :: r', _, by simp [hl], rfl, ?_, ?_⟩
      · show r0.2 = _
        rw [hbuf]; simp
      · show (_ :: r0.1).map (·.1) = _
        simp only [List.map_cons]
        rw [splitOnAny_delim d f c r hfd hcd, hmap]
        have : (pre ++ f ++ [0] ++ r ++ 0 :: rest).drop (pre.length)
            = f ++ 0 :: (r ++ 0 :: rest) := by simp
        rw [this, cstr_append_nul hfn]

end Qlibc.Str

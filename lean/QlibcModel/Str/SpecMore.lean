/-
  Reference definitions for the remaining routines of qstring.c (C19, second part):
  qstr_comma_number, qstr_is_ip4addr, qstr_is_email, qstrtest, the formats used with
  qstrdupf / qstrcatf. Pure functions on byte lists and integers, written from the documentation
  (and, where the documentation is silent, as a declarative description — see `isEmail`).
-/
import QlibcModel.Str.Spec
namespace Qlibc.Str

/-! ### decimal numerals, thousands separators -/

/-- the ASCII digit of `d % 10` -/
def digitCh (d : Nat) : UInt8 := UInt8.ofNat (48 + d % 10)

/-- decimal numeral of a natural number, most significant digit first, no leading zeros -/
def decNat (n : Nat) : Bytes :=
  if n < 10 then [digitCh n] else decNat (n / 10) ++ [digitCh n]
termination_by n
decreasing_by omega

/-- numeral with a comma between groups of three digits counted from the right -/
def commaNat (n : Nat) : Bytes :=
  if n < 1000 then decNat n
  else commaNat (n / 1000) ++ [44, digitCh (n / 100), digitCh (n / 10), digitCh n]
termination_by n
decreasing_by omega

/-- `qstr_comma_number`: sign, then the magnitude with thousands separators -/
def commaInt (z : Int) : Bytes := if z < 0 then 45 :: commaNat z.natAbs else commaNat z.natAbs

/-- `printf("%d")` -/
def fmtD (z : Int) : Bytes := if z < 0 then 45 :: decNat z.natAbs else decNat z.natAbs
/-- `printf("%s=%s")` -/
def fmtSS (x y : Bytes) : Bytes := x ++ 61 :: y

/-- `printf` with a format made of literal bytes, `%%` and `%s` (every `%s` shows `arg`; the
    harness uses at most one) -/
def fmtExpand (arg : Bytes) : Bytes → Bytes
  | 37 :: 37 :: t => 37 :: fmtExpand arg t
  | 37 :: 115 :: t => arg ++ fmtExpand arg t
  | c :: t => c :: fmtExpand arg t
  | [] => []

/-! ### character classes of <ctype.h> in the C locale (bytes ≥ 0x80 belong to none) -/

def isDigitB (c : UInt8) : Bool := 48 ≤ c && c ≤ 57
def isUpperB (c : UInt8) : Bool := 65 ≤ c && c ≤ 90
def isLowerB (c : UInt8) : Bool := 97 ≤ c && c ≤ 122
def isAlphaB (c : UInt8) : Bool := isUpperB c || isLowerB c
def isAlnumB (c : UInt8) : Bool := isAlphaB c || isDigitB c
def isXdigitB (c : UInt8) : Bool := isDigitB c || (65 ≤ c && c ≤ 70) || (97 ≤ c && c ≤ 102)
def isSpaceB (c : UInt8) : Bool := c == 32 || (9 ≤ c && c ≤ 13)
def isBlankB (c : UInt8) : Bool := c == 32 || c == 9
def isCntrlB (c : UInt8) : Bool := c < 32 || c == 127
def isPrintB (c : UInt8) : Bool := 32 ≤ c && c ≤ 126
def isGraphB (c : UInt8) : Bool := 33 ≤ c && c ≤ 126
def isPunctB (c : UInt8) : Bool := isGraphB c && !isAlnumB c

/-- `qstrtest(testfunc, str)`: does every character satisfy the test? (true for "") -/
def strTest (p : UInt8 → Bool) (s : Bytes) : Bool := s.all p

/-! ### IPv4 dotted decimal -/

/-- value of a string of decimal digits -/
def decVal (p : Bytes) : Nat := p.foldl (fun a c => a * 10 + (c.toNat - 48)) 0

/-- one part of a dotted-decimal address: one to three decimal digits, value at most 255
    (leading zeros are tolerated, as the C code always did) -/
def ip4PartOk (p : Bytes) : Bool :=
  1 ≤ p.length && p.length ≤ 3 && p.all isDigitB && decVal p ≤ 255

/-- `qstr_is_ip4addr`: exactly four parts separated by single periods, each a valid part -/
def isIp4 (s : Bytes) : Bool :=
  (splitFields [46] s).length == 4 && (splitFields [46] s).all ip4PartOk

/-! ### e-mail address

  The documentation only says "test for an email-address formatted string". The reference is the
  declarative description of the accepted language:
  * only ordinary characters (letters, digits, `-`, `_`), `.` and `@` occur;
  * there is exactly one `@`, and at least one ordinary character stands before it;
  * no `.` directly follows the `@`, and no two `.` are adjacent behind the `@`;
  * there is at least one `.` (anywhere) and there are more than three ordinary characters. -/

def isOrdB (c : UInt8) : Bool := isDigitB c || isUpperB c || isLowerB c || c == 45 || c == 95

/-- does byte `a` immediately followed by byte `b` occur in `s`? -/
def hasPair (a b : UInt8) : Bytes → Bool
  | [] => false
  | [_] => false
  | x :: y :: t => (x == a && y == b) || hasPair a b (y :: t)

def isEmail (s : Bytes) : Bool :=
  s.all (fun c => isOrdB c || c == 46 || c == 64) &&
  s.count 64 == 1 &&
  (s.takeWhile (· != 64)).any isOrdB &&
  !hasPair 64 46 s &&
  !hasPair 46 46 (s.dropWhile (· != 64)) &&
  1 ≤ s.count 46 &&
  3 < (s.filter isOrdB).length

end Qlibc.Str

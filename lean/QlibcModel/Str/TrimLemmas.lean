/-
  qstrtrim / qstrtrim_head / qstrtrim_tail / qstrunchar: the raw-buffer model computes the
  reference functions of `Str/Spec.lean` and touches only the string's own `n + 1` bytes.
-/
import QlibcModel.Str.Lemmas

namespace Qlibc.Str
open Qlibc

theorem trimHead_split (s : Bytes) : s = s.takeWhile isWs ++ trimHead s :=
  (List.takeWhile_append_dropWhile).symm

theorem trimHead_nulFree {s : Bytes} (h : NulFree s) : NulFree (trimHead s) :=
  NulFree.sublist (List.dropWhile_sublist _) h

/-- `t = trimTail t ++ (trailing white space)`; the kept part is empty or ends in a non-blank -/
theorem trimTail_split (t : Bytes) : ∃ w : Bytes, t = trimTail t ++ w.reverse ∧
    (∀ x ∈ w, isWs x = true) ∧
    (trimTail t = [] ∨ ∃ a' x, trimTail t = a' ++ [x] ∧ isWs x = false) := by
  refine ⟨t.reverse.takeWhile isWs, ?_, fun x hx => mem_takeWhile_imp hx, ?_⟩
  · unfold trimTail
    rw [← List.reverse_append, List.takeWhile_append_dropWhile, List.reverse_reverse]
  · unfold trimTail
    cases hd : t.reverse.dropWhile isWs with
    | nil => left; rfl
    | cons c d =>
      right
      refine ⟨d.reverse, c, by simp, ?_⟩
      have := List.head_dropWhile_not isWs (l := t.reverse) (by simp [hd])
      simpa [hd] using this

theorem trimTail_nulFree {s : Bytes} (h : NulFree s) : NulFree (trimTail s) := by
  intro x hx
  unfold trimTail at hx
  have : x ∈ s.reverse := (List.dropWhile_sublist _).subset (List.mem_reverse.mp hx)
  exact h x (List.mem_reverse.mp this)

/-- overwriting the first byte of `v ++ 0 :: rest` with NUL: what is left behind it -/
theorem head_split (v rest : Bytes) : ∃ (hd : UInt8) (j : Bytes),
    v ++ 0 :: rest = hd :: (j ++ rest) ∧ j.length = v.length := by
  cases v with
  | nil => exact ⟨0, [], by simp, rfl⟩
  | cons y ys => exact ⟨y, ys ++ [0], by simp, by simp⟩

theorem qstrtrimTail_correct (s rest : Bytes) (hs : NulFree s) :
    ∃ junk : Bytes, junk.length + (trimTail s).length = s.length ∧
      qstrtrimTail (s ++ 0 :: rest) = .ok (trimTail s ++ 0 :: junk ++ rest) := by
  obtain ⟨w, hsplit, hw, hstop⟩ := trimTail_split s
  obtain ⟨hd, j, hj, hjl⟩ := head_split w.reverse rest
  refine ⟨j, ?_, ?_⟩
  · have : s.length = (trimTail s).length + w.length := by
      conv => lhs; rw [hsplit]
      simp
    simp at hjl; omega
  · unfold qstrtrimTail
    rw [nulPos_zero s rest hs]
    simp only [bind_ok]
    have e1 : s ++ 0 :: rest = trimTail s ++ w.reverse ++ 0 :: rest := by
      conv => lhs; rw [hsplit]
    have e2 : s.length = (trimTail s).length + w.length := by
      conv => lhs; rw [hsplit]
      simp
    rw [e1, e2, scanBack_spec isWs 0 w (trimTail s) (0 :: rest) hw (Nat.zero_le _)]
    · simp only [bind_ok]
      have e3 : trimTail s ++ w.reverse ++ 0 :: rest = trimTail s ++ hd :: (j ++ rest) := by
        rw [List.append_assoc, hj]
      rw [e3, wr_mid]
      simp
    · rcases hstop with h | h
      · left; simp [h]
      · right; exact h

theorem qstrtrimHead_correct (s rest : Bytes) (hs : NulFree s) :
    ∃ junk : Bytes, junk.length + (trimHead s).length = s.length ∧
      qstrtrimHead (s ++ 0 :: rest) = .ok (trimHead s ++ 0 :: junk ++ rest) := by
  have hsplit := trimHead_split s
  have hlen : s.length = (s.takeWhile isWs).length + (trimHead s).length := by
    conv => lhs; rw [hsplit]
    simp
  unfold qstrtrimHead
  rw [scanWs_spec s rest _ (by simp; omega)]
  simp only [bind_ok]
  by_cases h0 : 0 < (s.takeWhile isWs).length
  · simp only [h0, if_true]
    have e1 : s ++ 0 :: rest = s.takeWhile isWs ++ trimHead s ++ 0 :: rest := by
      conv => lhs; rw [hsplit]
    rw [nulPos_at _ (s.takeWhile isWs) (trimHead s) rest _ (trimHead_nulFree hs) e1 rfl]
    simp only [bind_ok]
    have e2 : s ++ 0 :: rest = s.takeWhile isWs ++ (trimHead s ++ [0]) ++ rest := by
      conv => lhs; rw [hsplit]
      simp
    have e3 : (s.takeWhile isWs).length + (trimHead s).length - (s.takeWhile isWs).length + 1
        = (trimHead s ++ [0]).length := by simp
    rw [e3, e2, memmove_front]
    refine ⟨(s.takeWhile isWs ++ (trimHead s ++ [0])).drop (trimHead s ++ [0]).length, ?_, ?_⟩
    · simp [List.length_drop]; omega
    · rw [List.drop_append_of_le_length (by simp)]
      simp
  · simp only [h0, if_false]
    have hz : (s.takeWhile isWs).length = 0 := by omega
    have hnil : s.takeWhile isWs = [] := List.length_eq_zero_iff.mp hz
    have : trimHead s = s := by
      conv => rhs; rw [hsplit, hnil]
      simp
    refine ⟨[], ?_, ?_⟩
    · simp [this]
    · simp [this]

theorem trim_length_le (s : Bytes) : (trim s).length ≤ s.length := by
  unfold trim trimTail trimHead
  simp only [List.length_reverse]
  exact Nat.le_trans ((List.dropWhile_sublist _).length_le)
    (by simpa using (List.dropWhile_sublist (l := s) isWs).length_le)

theorem qstrtrim_correct (s rest : Bytes) (hs : NulFree s) :
    ∃ junk : Bytes, junk.length + (trim s).length = s.length ∧
      qstrtrim (s ++ 0 :: rest) = .ok (trim s ++ 0 :: junk ++ rest) := by
  have hsplit := trimHead_split s
  obtain ⟨w, htsplit, hw, hstop⟩ := trimTail_split (trimHead s)
  obtain ⟨hd, j, hj, hjl⟩ := head_split w.reverse rest
  have hk : trim s = trimTail (trimHead s) := rfl
  have hlen : s.length = (s.takeWhile isWs).length + (trimHead s).length := by
    conv => lhs; rw [hsplit]
    simp
  have htlen : (trimHead s).length = (trim s).length + w.length := by
    conv => lhs; rw [htsplit]
    simp [hk]
  unfold qstrtrim
  rw [scanWs_spec s rest _ (by simp; omega)]
  simp only [bind_ok]
  have e1 : s ++ 0 :: rest = s.takeWhile isWs ++ trimHead s ++ 0 :: rest := by
    conv => lhs; rw [hsplit]
  rw [nulPos_at _ (s.takeWhile isWs) (trimHead s) rest _ (trimHead_nulFree hs) e1 rfl]
  simp only [bind_ok]
  have e2 : s ++ 0 :: rest = (s.takeWhile isWs ++ trim s) ++ w.reverse ++ 0 :: rest := by
    conv => lhs; rw [hsplit, htsplit]
    simp [hk]
  have e3 : (s.takeWhile isWs).length + (trimHead s).length
      = (s.takeWhile isWs ++ trim s).length + w.length := by simp; omega
  rw [e2, e3, scanBack_spec isWs _ w (s.takeWhile isWs ++ trim s) (0 :: rest) hw (by simp)]
  · simp only [bind_ok]
    have e4 : (s.takeWhile isWs ++ trim s) ++ w.reverse ++ 0 :: rest
        = (s.takeWhile isWs ++ trim s) ++ hd :: (j ++ rest) := by
      rw [List.append_assoc, hj]
    rw [e4, wr_mid]
    simp only [bind_ok]
    by_cases h0 : 0 < (s.takeWhile isWs).length
    · simp only [h0, if_true]
      have e5 : (s.takeWhile isWs ++ trim s) ++ 0 :: (j ++ rest)
          = s.takeWhile isWs ++ (trim s ++ [0]) ++ (j ++ rest) := by simp
      have e6 : (s.takeWhile isWs ++ trim s).length - (s.takeWhile isWs).length + 1
          = (trim s ++ [0]).length := by simp
      rw [e5, e6, memmove_front]
      refine ⟨(s.takeWhile isWs ++ (trim s ++ [0]) ++ j).drop (trim s ++ [0]).length, ?_, ?_⟩
      · simp [List.length_drop]; simp at hjl; omega
      · have e7 : s.takeWhile isWs ++ (trim s ++ [0]) ++ (j ++ rest)
            = (s.takeWhile isWs ++ (trim s ++ [0]) ++ j) ++ rest := by simp
        rw [e7, List.drop_append_of_le_length (by simp; omega)]
        simp
    · simp only [h0, if_false]
      have hz : (s.takeWhile isWs).length = 0 := by omega
      have hnil : s.takeWhile isWs = [] := List.length_eq_zero_iff.mp hz
      refine ⟨j, ?_, ?_⟩
      · simp at hjl; omega
      · simp [hnil]
  · rcases hstop with h | ⟨a', x, ha, hx⟩
    · left; simp [hk, h]
    · right; exact ⟨s.takeWhile isWs ++ a', x, by simp [hk, ha], hx⟩

end Qlibc.Str

namespace Qlibc.Str
open Qlibc

/-- a list with at least two elements is `first :: middle ++ [last]` -/
theorem two_split (s : Bytes) (h : 2 ≤ s.length) : ∃ a m z, s = a :: (m ++ [z]) := by
  cases s with
  | nil => simp at h
  | cons a t =>
    have ht : t ≠ [] := by intro h0; subst h0; simp at h
    exact ⟨a, t.dropLast, t.getLast ht, by rw [List.dropLast_concat_getLast]⟩

theorem unchar_split (hd tl a z : UInt8) (m : Bytes) :
    unchar hd tl (a :: (m ++ [z])) = if a = hd ∧ z = tl then some m else none := by
  unfold unchar
  have h1 : (a :: (m ++ [z])).getLast? = some z := by
    rw [← List.cons_append, List.getLast?_append]; simp
  have h2 : ((a :: (m ++ [z])).drop 1).dropLast = m := by simp
  rw [h1, h2]
  simp

theorem unchar_short (hd tl : UInt8) (s : Bytes) (h : ¬ 2 ≤ s.length) : unchar hd tl s = none := by
  unfold unchar; simp [h]

theorem qstrunchar_correct (s rest : Bytes) (hd tl : UInt8) (hs : NulFree s) :
    (unchar hd tl s = none → qstrunchar (s ++ 0 :: rest) hd tl = .ok none) ∧
    (∀ m, unchar hd tl s = some m → ∃ junk : Bytes, junk.length = 2 ∧
      qstrunchar (s ++ 0 :: rest) hd tl = .ok (some (m ++ 0 :: junk ++ rest))) := by
  unfold qstrunchar
  rw [nulPos_zero s rest hs]
  simp only [bind_ok]
  by_cases h2 : 2 ≤ s.length
  · obtain ⟨a, m, z, hsplit⟩ := two_split s h2
    subst hsplit
    rw [unchar_split]
    simp only [h2, if_true]
    have r0 : rd (a :: (m ++ [z]) ++ 0 :: rest) 0 = .ok a := rfl
    have e1 : a :: (m ++ [z]) ++ 0 :: rest = (a :: m) ++ z :: (0 :: rest) := by simp
    have r1 : rd (a :: (m ++ [z]) ++ 0 :: rest) ((a :: (m ++ [z])).length - 1) = .ok z := by
      rw [e1]; exact rd_mid' _ _ _ _ (by simp)
    rw [r0, r1]
    simp only [bind_ok]
    by_cases ha : a = hd
    · by_cases hz : z = tl
      · simp only [ha, hz, if_true, and_self]
        refine ⟨fun h => by simp at h, ?_⟩
        intro m' hm'
        have hmm : m = m' := by simpa using hm'
        subst hmm
        have e2 : hd :: (m ++ [tl]) ++ 0 :: rest = [hd] ++ m ++ (tl :: 0 :: rest) := by simp
        have e3 : (hd :: (m ++ [tl])).length - 2 = m.length := by simp
        have hmv := memmove_front [hd] m (tl :: 0 :: rest)
        rw [List.length_singleton] at hmv
        rw [e3, e2, hmv]
        simp only [bind_ok]
        have e4 : ([hd] ++ m ++ tl :: 0 :: rest).drop m.length
            = ([hd] ++ m).drop m.length ++ tl :: 0 :: rest := by
          rw [List.drop_append_of_le_length (by simp)]
        have hl1 : (([hd] ++ m).drop m.length).length = 1 := by simp
        obtain ⟨q, hq⟩ : ∃ q, ([hd] ++ m).drop m.length = [q] := by
          match hh : ([hd] ++ m).drop m.length, hl1 with
          | [q], _ => exact ⟨q, rfl⟩
        rw [e4, hq]
        have e5 : m ++ ([q] ++ tl :: 0 :: rest) = m ++ q :: (tl :: 0 :: rest) := by simp
        rw [e5, wr_mid]
        exact ⟨[tl, 0], rfl, by simp⟩
      · simp only [ha, hz, and_false, if_false, if_true]
        exact ⟨fun _ => rfl, fun m' h => by simp at h⟩
    · simp only [ha, false_and, if_false]
      exact ⟨fun _ => rfl, fun m' h => by simp at h⟩
  · rw [unchar_short hd tl s h2]
    simp only [h2, if_false]
    exact ⟨fun _ => rfl, fun m' h => by simp at h⟩

theorem unchar_some_facts (hd tl : UInt8) (s m : Bytes) (hs : NulFree s)
    (hm : unchar hd tl s = some m) : NulFree m ∧ m.length + 2 = s.length := by
  unfold unchar at hm
  split at hm
  · rename_i hc
    have : m = (s.drop 1).dropLast := by simpa using hm.symm
    subst this
    refine ⟨NulFree.sublist ((List.dropLast_sublist _).trans (List.drop_sublist _ _)) hs, ?_⟩
    simp [List.length_dropLast]; omega
  · cases hm

end Qlibc.Str

/-
  Executable, mechanism-level model of `src/utilities/qstring.c` (property C19).

  * Every C object is an explicit byte block (`Bytes` = the whole `malloc` block or array, its
    length is the capacity). A C string argument `s` is a block `s ++ 0 :: rest`.
  * Every load and store goes through `rd` / `wr` (`Base/Fault.lean`): an access outside the
    block is the outcome `.error .oob`, never a default value. `memmove` is "read the source
    range, then write it" (`rdN` / `wrN`), i.e. overlap-safe like the C function.
  * Loops that are not structurally recursive take a `fuel`; the wrappers pass
    `block length + 1` and `Str/Lemmas.lean` shows `outOfFuel` is unreachable for well-formed
    arguments.
  * Pointers into a block are offsets. Where the C code lets a pointer run one element *below*
    the start (`se--` in `qstrtrim`, `str + strlen(str) - 1` for the empty string in
    `qstrtrim_tail` / `qstrrev`) the model keeps the exclusive end `e = se + 1 : Nat`; the
    comparisons are shifted accordingly (`se >= ss` ⇔ `e > ss`, `p2 > p1` ⇔ `e > p1 + 1`), no
    load happens through the low pointer in C either (short-circuit `&&`).
  * `char` is signed 8-bit on the target: `sc c` is the value of byte `c` read as `char`; it
    matters only for the range tests of `qstrupper` / `qstrlower`.
  * `malloc` never fails here (allocation failure is C15's subject). Caller-provided scratch
    blocks are filled with `fillByte` like in the harness; the `newstr` block of `qstrreplace`
    is an `OutBlk` (initialised prefix + capacity, see there).
-/
import QlibcModel.Base.Fault
import QlibcModel.Str.Spec

namespace Qlibc.Str
open Qlibc

/-- value of a byte read as (signed) `char` -/
def sc (c : UInt8) : Int := if c < 128 then c.toNat else (c.toNat : Int) - 256

/-- content of freshly allocated memory as far as the model is concerned -/
def fillByte : UInt8 := 0xAA

/-! ### primitives -/

/-- forward scan `for (; p(buf[i]); i++)`; returns the first offset `≥ i` whose byte fails `p` -/
def scanFwd (p : UInt8 → Bool) (buf : Bytes) : (fuel : Nat) → (i : Nat) → Except Fault Nat
  | 0, _ => .error .outOfFuel
  | fuel + 1, i => do
    let c ← rd buf i
    if p c then scanFwd p buf fuel (i + 1) else pure i

/-- `str + strlen(str)` as an offset: position of the first NUL at or after `i` -/
def nulPos (buf : Bytes) (i : Nat) : Except Fault Nat :=
  scanFwd (· != 0) buf (buf.length + 1) i

/-- backward scan `for (se = e - 1; se >= ss && p(*se); se--) ; se++` — returns the new
    exclusive end `se + 1` -/
def scanBack (p : UInt8 → Bool) (buf : Bytes) (ss : Nat) : (e : Nat) → Except Fault Nat
  | 0 => pure 0
  | e + 1 =>
    if ss < e + 1 then do
      let c ← rd buf e
      if p c then scanBack p buf ss e else pure (e + 1)
    else pure (e + 1)

/-- load `n` consecutive bytes starting at `i` -/
def rdN (buf : Bytes) (i : Nat) : (n : Nat) → Except Fault Bytes
  | 0 => pure []
  | n + 1 => do
    let c ← rd buf i
    let r ← rdN buf (i + 1) n
    pure (c :: r)

/-- store the bytes `d` at consecutive offsets starting at `i` -/
def wrN (buf : Bytes) (i : Nat) : (d : Bytes) → Except Fault Bytes
  | [] => pure buf
  | c :: d => do
    let buf' ← wr buf i c
    wrN buf' (i + 1) d

/-- `memmove(buf + d, buf + s, n)` inside one block -/
def memmove (buf : Bytes) (d s n : Nat) : Except Fault Bytes := do
  let tmp ← rdN buf s n
  wrN buf d tmp

/-! ### qstrtrim, qstrtrim_head, qstrtrim_tail, qstrunchar -/

def qstrtrim (buf : Bytes) : Except Fault Bytes := do
  let ss ← scanFwd isWs buf (buf.length + 1) 0          -- for (ss = str; ws(*ss); ss++)
  let se ← nulPos buf ss                                 -- for (se = ss; *se != 0; se++)
  let e ← scanBack isWs buf ss se                        -- for (se--; se >= ss && ws(*se); se--) ; se++
  let buf ← wr buf e 0                                   -- *se = '\0'
  if 0 < ss then memmove buf 0 ss (e - ss + 1)           -- memmove(str, ss, (se - ss) + 1)
  else pure buf

def qstrtrimHead (buf : Bytes) : Except Fault Bytes := do
  let ss ← scanFwd isWs buf (buf.length + 1) 0
  if 0 < ss then do
    let e ← nulPos buf ss                                -- strlen(ss)
    memmove buf 0 ss (e - ss + 1)
  else pure buf

def qstrtrimTail (buf : Bytes) : Except Fault Bytes := do
  let n ← nulPos buf 0                                   -- strlen(str)
  let e ← scanBack isWs buf 0 n
  wr buf e 0

/-- `qstrunchar(str, head, tail)`: `none` = returned NULL (block untouched) -/
def qstrunchar (buf : Bytes) (head tail : UInt8) : Except Fault (Option Bytes) := do
  let len ← nulPos buf 0
  if 2 ≤ len then do
    let c0 ← rd buf 0
    if c0 = head then do
      let cl ← rd buf (len - 1)
      if cl = tail then do
        let buf ← memmove buf 0 1 (len - 2)
        let buf ← wr buf (len - 2) 0
        pure (some buf)
      else pure none
    else pure none
  else pure none

/-! ### qstrreplace -/

/-- The `malloc(maxstrlen + 1)` block `newstr` of `qstrreplace`. The C code only ever stores
    through `*newp++ = c`, front to back, so the block is represented by the bytes stored so far
    (most recent first; the bytes behind `newp` are uninitialised and do not exist in the model),
    their number `np = newp - newstr`, and the capacity. A store at `np ≥ cap` is `Fault.oob`. -/
structure OutBlk where
  rev : Bytes
  np : Nat
  cap : Nat
  deriving Repr

/-- `malloc(cap)` -/
def OutBlk.new (cap : Nat) : OutBlk := ⟨[], 0, cap⟩

/-- `*newp++ = c` -/
def OutBlk.push (b : OutBlk) (c : UInt8) : Except Fault OutBlk :=
  if b.np < b.cap then .ok ⟨c :: b.rev, b.np + 1, b.cap⟩ else .error .oob

/-- the initialised part of the block, in address order -/
def OutBlk.bytes (b : OutBlk) : Bytes := b.rev.reverse

/-- `for (wordp = word; *wordp; wordp++) *newp++ = *wordp;` -/
def copyWord (word : Bytes) : (fuel : Nat) → (k : Nat) → (dst : OutBlk) → Except Fault OutBlk
  | 0, _, _ => .error .outOfFuel
  | fuel + 1, k, dst => do
    let c ← rd word k
    if c = 0 then pure dst
    else do
      let dst ← dst.push c
      copyWord word fuel (k + 1) dst

/-- `for (tokenp = tokstr; *tokenp; tokenp++) if (c == *tokenp) break;` — true when it broke -/
def tokFind (tok : Bytes) (c : UInt8) : (fuel : Nat) → (j : Nat) → Except Fault Bool
  | 0, _ => .error .outOfFuel
  | fuel + 1, j => do
    let t ← rd tok j
    if t = 0 then pure false
    else if c = t then pure true
    else tokFind tok c fuel (j + 1)

/-- the token-mode loop over the source -/
def replTLoop (src tok word : Bytes) : (fuel : Nat) → (i : Nat) → (dst : OutBlk) →
    Except Fault OutBlk
  | 0, _, _ => .error .outOfFuel
  | fuel + 1, i, dst => do
    let c ← rd src i
    if c = 0 then pure dst
    else do
      let hit ← tokFind tok c (tok.length + 1) 0
      if hit then do
        let dst ← copyWord word (word.length + 1) 0 dst
        replTLoop src tok word fuel (i + 1) dst
      else do
        let dst ← dst.push c
        replTLoop src tok word fuel (i + 1) dst

/-- `!strncmp(a + i, b + j, n)` -/
def strncmpEq (a : Bytes) (i : Nat) (b : Bytes) (j : Nat) : (n : Nat) → Except Fault Bool
  | 0 => pure true
  | n + 1 => do
    let x ← rd a i
    let y ← rd b j
    if x ≠ y then pure false
    else if x = 0 then pure true
    else strncmpEq a (i + 1) b (j + 1) n

/-- the string-mode loop over the source; with `tokstrlen = 0` (outside the property) the C
    loop never advances: reported as `outOfFuel` -/
def replSLoop (src tok word : Bytes) (toklen : Nat) : (fuel : Nat) → (i : Nat) → (dst : OutBlk) →
    Except Fault OutBlk
  | 0, _, _ => .error .outOfFuel
  | fuel + 1, i, dst => do
    let c ← rd src i
    if c = 0 then pure dst
    else do
      let eq ← strncmpEq src i tok 0 toklen
      if eq then do
        let dst ← copyWord word (word.length + 1) 0 dst
        if toklen = 0 then .error .outOfFuel      -- srcp += -1; srcp++
        else replSLoop src tok word toklen fuel (i + toklen) dst
      else do
        let dst ← dst.push c
        replSLoop src tok word toklen fuel (i + 1) dst

/-- `maxstrlen` of token mode (`size_t` since the fix of the `int` truncation) -/
def maxLenT (srclen wordlen : Nat) : Nat := srclen * (if 0 < wordlen then wordlen else 1)

/-- `maxstrlen` of string mode (`toklen = 0` with a non-empty word divides by zero in C: SIGFPE) -/
def maxLenS (srclen toklen wordlen : Nat) : Nat :=
  if toklen < wordlen then (srclen / toklen) * wordlen + srclen % toklen else srclen

/-- result of `qstrreplace` -/
structure ReplResult where
  ret : Option Bytes      -- the returned C string (`none` = NULL)
  src : Bytes             -- the caller's source block afterwards
  alloc : Option Nat      -- size passed to `malloc`, when it was reached
  deriving Repr

/-- the first half of `qstrreplace`: compute `maxstrlen`, `malloc(maxstrlen + 1)`, run the
    replacement loop, terminate with `*newp = '\0'`. `none` = unknown method (returns NULL
    before allocating). -/
def replBuild (method : UInt8) (src tok word : Bytes) (srclen toklen wordlen : Nat) :
    Except Fault (Option OutBlk) :=
  if method = 116 then do                                          -- 't'
    let newstr := OutBlk.new (maxLenT srclen wordlen + 1)
    let dst ← replTLoop src tok word (src.length + 1) 0 newstr
    let dst ← dst.push 0
    pure (some dst)
  else if method = 115 then                                        -- 's'
    if toklen = 0 ∧ toklen < wordlen then .error .assertFail       -- division by zero
    else do
      let newstr := OutBlk.new (maxLenS srclen toklen wordlen + 1)
      let dst ← replSLoop src tok word toklen (src.length + 1) 0 newstr
      let dst ← dst.push 0
      pure (some dst)
  else pure none

/-- the second half: hand out `newstr` (mode `n`) or `strcpy(srcstr, newstr)` (mode `r`) -/
def replFinish (memuse : UInt8) (src : Bytes) (newstr : OutBlk) : Except Fault ReplResult :=
  if memuse = 110 then pure ⟨some (cstr newstr.bytes), src, some newstr.cap⟩   -- 'n'
  else if memuse = 114 then do                                                  -- 'r'
    let n ← nulPos newstr.bytes 0
    let data ← rdN newstr.bytes 0 (n + 1)
    let src' ← wrN src 0 data                                      -- strcpy(srcstr, newstr)
    pure ⟨some (cstr src'), src', some newstr.cap⟩
  else pure ⟨none, src, some newstr.cap⟩                            -- free(newstr); return NULL

/-- `qstrreplace(mode, srcstr, tokstr, word)`; all four arguments are blocks holding C strings -/
def qstrreplace (mode src tok word : Bytes) : Except Fault ReplResult := do
  let ml ← nulPos mode 0
  if ml ≠ 2 then pure ⟨none, src, none⟩
  else do
    let method ← rd mode 0
    let memuse ← rd mode 1
    let srclen ← nulPos src 0
    let toklen ← nulPos tok 0
    let wordlen ← nulPos word 0
    match ← replBuild method src tok word srclen toklen wordlen with
    | none => pure ⟨none, src, none⟩
    | some newstr => replFinish memuse src newstr

/-! ### qstrcpy, qstrncpy, qstrdup_between -/

/-- `qstrncpy(dst, size, src, nbytes)` for non-NULL pointers; `dst` and `src` are distinct blocks -/
def qstrncpy (dst : Bytes) (size : Nat) (src : Bytes) (nbytes : Nat) : Except Fault Bytes :=
  if size = 0 then pure dst
  else do
    let n := if size ≤ nbytes then size - 1 else nbytes
    let tmp ← rdN src 0 n                 -- memmove(dst, src, nbytes)
    let dst ← wrN dst 0 tmp
    wr dst n 0

def qstrcpy (dst : Bytes) (size : Nat) (src : Bytes) : Except Fault Bytes :=
  if size = 0 then pure dst
  else do
    let n ← nulPos src 0
    qstrncpy dst size src n

/-- `qstrncpy(buf + d, size, buf + s, nbytes)` with destination and source inside ONE block
    (the documentation allows overlap). Order of operations as in the C code: clamp `nbytes`,
    `memmove` (all `n` source bytes are read before the first one is stored), then the
    terminator store `dst[n] = '\0'`. -/
def qstrncpyOv (buf : Bytes) (d s size nbytes : Nat) : Except Fault Bytes :=
  if size = 0 then pure buf
  else do
    let n := if size ≤ nbytes then size - 1 else nbytes
    let buf ← memmove buf d s n           -- memmove(dst, src, nbytes)
    wr buf (d + n) 0                      -- dst[nbytes] = '\0'

/-- `qstrcpy(buf + d, size, buf + s)`: `strlen(src)` is taken first, on the unmodified block -/
def qstrcpyOv (buf : Bytes) (d s size : Nat) : Except Fault Bytes :=
  if size = 0 then pure buf
  else do
    let e ← nulPos buf s                  -- strlen(src) = e - s
    qstrncpyOv buf d s size (e - s)

/-- `strstr(hay + i, needle)` by the definition of the C standard (first offset `≥ i` at which
    all bytes of `needle` match); `needle` is a block holding a C string of length `nl` -/
def strstrFrom (hay : Bytes) (needle : Bytes) (nl : Nat) : (fuel : Nat) → (i : Nat) →
    Except Fault (Option Nat)
  | 0, _ => .error .outOfFuel
  | fuel + 1, i => do
    let eq ← strncmpEq hay i needle 0 nl
    if eq then pure (some i)
    else do
      let c ← rd hay i
      if c = 0 then pure none else strstrFrom hay needle nl fuel (i + 1)

/-- `qstrdup_between(str, start, end)`; `none` = NULL, otherwise the new block (`len + 1` bytes) -/
def qstrdupBetween (str start stop : Bytes) : Except Fault (Option Bytes) := do
  let sl ← nulPos start 0
  let el ← nulPos stop 0
  match ← strstrFrom str start sl (str.length + 1) 0 with
  | none => pure none
  | some s0 =>
    let s := s0 + sl
    match ← strstrFrom str stop el (str.length + 1) s with
    | none => pure none
    | some e =>
      let len := e - s
      let buf := List.replicate (len + 1) fillByte
      let data ← rdN str s len              -- strncpy(buf, s, len): no NUL in [s, e)
      let buf ← wrN buf 0 data
      let buf ← wr buf len 0
      pure (some buf)

/-! ### qstrgets -/

/-- the copy loop of `qstrgets`; returns `(buf, from, to)` at loop exit -/
def getsLoop (src : Bytes) (lim : Nat) : (fuel : Nat) → (i frm to : Nat) → (buf : Bytes) →
    Except Fault (Bytes × Nat × Nat)
  | 0, _, _, _, _ => .error .outOfFuel
  | fuel + 1, i, frm, to, buf => do
    let c ← rd src frm
    if c ≠ 0 ∧ i < lim then
      if c = 13 then getsLoop src lim fuel (i + 1) (frm + 1) to buf       -- '\r': continue
      else if c = 10 then pure (buf, frm + 1, to)                          -- '\n': from++; break
      else do
        let buf ← wr buf to c
        getsLoop src lim fuel (i + 1) (frm + 1) (to + 1) buf
    else pure (buf, frm, to)

/-- `qstrgets(buf, size, &offset)` with `offset = src + off`; `none` = NULL (nothing written),
    otherwise the buffer and the new offset. `size - 1` is computed in `size_t`. -/
def qstrgets (buf : Bytes) (size : Nat) (src : Bytes) (off : Nat) :
    Except Fault (Option (Bytes × Nat)) := do
  let c0 ← rd src off
  if c0 = 0 then pure none
  else do
    let lim := if size = 0 then 18446744073709551615 else size - 1
    let (buf, frm, to) ← getsLoop src lim (src.length + 1) 0 off 0 buf
    let buf ← wr buf to 0
    pure (some (buf, frm))

/-! ### qstrrev, qstrupper, qstrlower -/

/-- `for (p1 = str, p2 = str + e - 1; p2 > p1; p1++, p2--) swap(*p1, *p2)` -/
def revLoop : (fuel : Nat) → (buf : Bytes) → (p1 e : Nat) → Except Fault Bytes
  | 0, _, _, _ => .error .outOfFuel
  | fuel + 1, buf, p1, e =>
    if p1 + 1 < e then do
      let t ← rd buf p1
      let c2 ← rd buf (e - 1)
      let buf ← wr buf p1 c2
      let buf ← wr buf (e - 1) t
      revLoop fuel buf (p1 + 1) (e - 1)
    else pure buf

def qstrrev (buf : Bytes) : Except Fault Bytes := do
  let n ← nulPos buf 0
  revLoop (buf.length + 1) buf 0 n

/-- `*cp >= 'a' && *cp <= 'z'` on a signed char -/
def isLowerC (c : UInt8) : Bool := 97 ≤ sc c && sc c ≤ 122
def isUpperC (c : UInt8) : Bool := 65 ≤ sc c && sc c ≤ 90

/-- `for (cp = str; *cp; cp++) if (test(*cp)) *cp = f(*cp);` -/
def mapLoop (test : UInt8 → Bool) (f : UInt8 → UInt8) : (fuel : Nat) → (buf : Bytes) → (i : Nat) →
    Except Fault Bytes
  | 0, _, _ => .error .outOfFuel
  | fuel + 1, buf, i => do
    let c ← rd buf i
    if c = 0 then pure buf
    else if test c then do
      let buf ← wr buf i (f c)
      mapLoop test f fuel buf (i + 1)
    else mapLoop test f fuel buf (i + 1)

def qstrupper (buf : Bytes) : Except Fault Bytes := mapLoop isLowerC (· - 32) (buf.length + 1) buf 0
def qstrlower (buf : Bytes) : Except Fault Bytes := mapLoop isUpperC (· + 32) (buf.length + 1) buf 0

/-! ### qstrtok, qstrtokenizer -/

/-- `for (j = 0; j < numdel; j++) if (c == delimiters[j])` — the matching delimiter -/
def delimFind (delims : Bytes) (c : UInt8) (numdel : Nat) : (fuel : Nat) → (j : Nat) →
    Except Fault (Option UInt8)
  | 0, _ => .error .outOfFuel
  | fuel + 1, j =>
    if j < numdel then do
      let d ← rd delims j
      if c = d then pure (some d) else delimFind delims c numdel fuel (j + 1)
    else pure none

/-- result of one `qstrtok` call -/
structure TokResult where
  tok : Option Nat        -- offset of the returned token in `str` (`none` = NULL)
  stop : UInt8            -- `*retstop`
  buf : Bytes             -- the block afterwards
  off : Nat               -- `*offset` afterwards
  deriving Repr

def tokLoop (delims : Bytes) (numdel : Nat) (sp : Nat) (off0 : Nat) : (fuel : Nat) → (buf : Bytes) →
    (e : Nat) → Except Fault TokResult
  | 0, _, _ => .error .outOfFuel
  | fuel + 1, buf, e => do
    let c ← rd buf e
    if c = 0 then
      if sp ≠ e then pure ⟨some sp, 0, buf, e⟩      -- last token; *offset = tokenep - str
      else pure ⟨none, 0, buf, off0⟩                -- NULL; *offset untouched
    else do
      match ← delimFind delims c numdel (numdel + 1) 0 with
      | some d =>
        let buf ← wr buf e 0                         -- *tokenep = '\0'
        pure ⟨some sp, d, buf, e + 1⟩
      | none => tokLoop delims numdel sp off0 fuel buf (e + 1)

/-- `qstrtok(str, delimiters, &stop, &offset)` with `*offset = off` -/
def qstrtok (buf delims : Bytes) (off : Nat) : Except Fault TokResult := do
  let numdel ← nulPos delims 0
  tokLoop delims numdel off off (buf.length + 1) buf off

/-- the caller's loop `while ((t = qstrtok(str, d, &stop, &offset)) != NULL)`: the tokens (read
    as C strings right after each call), their stop bytes and offsets, and the final block -/
def tokAll (delims : Bytes) : (fuel : Nat) → (buf : Bytes) → (off : Nat) →
    Except Fault (List (Bytes × UInt8 × Nat) × Bytes)
  | 0, _, _ => .error .outOfFuel
  | fuel + 1, buf, off => do
    let r ← qstrtok buf delims off
    match r.tok with
    | none => pure ([], r.buf)
    | some sp =>
      let (rest, b) ← tokAll delims fuel r.buf r.off
      pure ((cstr (r.buf.drop sp), r.stop, r.off) :: rest, b)

/-- `qstrtokenizer(str, delimiters)`: the strings added to the list, in order -/
def qstrtokenizer (str delims : Bytes) : Except Fault (List Bytes) := do
  let n ← nulPos str 0
  let dup ← rdN str 0 (n + 1)                         -- strdup(str)
  let (toks, _) ← tokAll delims (dup.length + 2) dup 0
  pure (toks.map (·.1))

end Qlibc.Str

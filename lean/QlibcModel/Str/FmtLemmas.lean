/-
  qstrdupf / qstrcatf: the DYNAMIC_VSPRINTF loop, strdup, strcat into the caller's block.
-/
import QlibcModel.Str.ModelMore
import QlibcModel.Str.ReplLemmas

namespace Qlibc.Str
open Qlibc

/-- the loop ends with a block that holds the whole text and its terminator -/
theorem dynVsprintf_spec (out : Bytes) : ∀ (fuel size : Nat) (allocs : List Nat), 1 ≤ size →
    out.length < size * 2 ^ fuel →
    ∃ (sz : Nat) (al : List Nat), out.length < sz ∧
      dynVsprintf out (fuel + 1) size allocs
        = .ok (out ++ 0 :: List.replicate (sz - (out.length + 1)) fillByte, al) := by
  intro fuel
  induction fuel with
  | zero =>
    intro size allocs h1 hlt
    simp only [Nat.pow_zero, Nat.mul_one] at hlt
    refine ⟨size, allocs ++ [size], hlt, ?_⟩
    rw [dynVsprintf]
    have htake : out.take (size - 1) = out := List.take_of_length_le (by omega)
    rw [htake, wrN_front _ _ (by simp; omega)]
    simp [hlt, List.drop_replicate]
  | succ k ih =>
    intro size allocs h1 hlt
    by_cases hfit : out.length < size
    · refine ⟨size, allocs ++ [size], hfit, ?_⟩
      rw [dynVsprintf]
      have htake : out.take (size - 1) = out := List.take_of_length_le (by omega)
      rw [htake, wrN_front _ _ (by simp; omega)]
      simp [hfit, List.drop_replicate]
    · obtain ⟨sz, al, hsz, hrun⟩ := ih (size * 2) (allocs ++ [size]) (by omega)
        (by rw [Nat.pow_succ] at hlt; rw [Nat.mul_assoc, Nat.mul_comm 2]; exact hlt)
      refine ⟨sz, al, hsz, ?_⟩
      rw [dynVsprintf]
      have hl : (out.take (size - 1) ++ [0]).length ≤ (List.replicate size fillByte).length := by
        simp [List.length_take]; omega
      rw [wrN_front _ _ hl]
      simp only [bind_ok, hfit, if_false]
      exact hrun

theorem dynVsprintf_top (out : Bytes) :
    ∃ (sz : Nat) (al : List Nat), out.length < sz ∧
      dynVsprintf out (out.length + 1) 1024 []
        = .ok (out ++ 0 :: List.replicate (sz - (out.length + 1)) fillByte, al) := by
  apply dynVsprintf_spec out out.length 1024 [] (by omega)
  have := @Nat.lt_two_pow_self out.length
  have h2 : 2 ^ out.length ≤ 1024 * 2 ^ out.length := Nat.le_mul_of_pos_left _ (by omega)
  omega

theorem qstrdupf_correct (out : Bytes) (ho : NulFree out) :
    ∃ al, qstrdupf out = .ok (out ++ [0], al) := by
  obtain ⟨sz, al, hsz, hrun⟩ := dynVsprintf_top out
  refine ⟨al, ?_⟩
  unfold qstrdupf
  rw [hrun]
  simp only [bind_ok]
  rw [nulPos_zero out _ ho]
  simp only [bind_ok]
  rw [rdN_at (out ++ 0 :: List.replicate (sz - (out.length + 1)) fillByte) [] (out ++ [0])
    (List.replicate (sz - (out.length + 1)) fillByte) 0 (out.length + 1) (by simp) rfl (by simp)]
  rfl

theorem qstrcatf_correct (d drest out : Bytes) (hd : NulFree d) (ho : NulFree out) :
    ∃ al, qstrcatf (d ++ 0 :: drest) out
      = if out.length ≤ drest.length
        then .ok (d ++ out ++ 0 :: drest.drop out.length, al)
        else .error .oob := by
  obtain ⟨sz, al, hsz, hrun⟩ := dynVsprintf_top out
  refine ⟨al, ?_⟩
  unfold qstrcatf
  rw [hrun]
  simp only [bind_ok]
  rw [nulPos_zero d drest hd, nulPos_zero out _ ho]
  simp only [bind_ok]
  rw [rdN_at (out ++ 0 :: List.replicate (sz - (out.length + 1)) fillByte) [] (out ++ [0])
    (List.replicate (sz - (out.length + 1)) fillByte) 0 (out.length + 1) (by simp) rfl (by simp)]
  simp only [bind_ok]
  by_cases hfit : out.length ≤ drest.length
  · simp only [hfit, if_true]
    have e : d ++ 0 :: drest = d ++ (0 :: drest).take (out.length + 1) ++ (0 :: drest).drop (out.length + 1) := by
      rw [List.append_assoc, List.take_append_drop]
    rw [wrN_at (d ++ 0 :: drest) d ((0 :: drest).take (out.length + 1)) ((0 :: drest).drop (out.length + 1))
      (out ++ [0]) d.length e rfl (by simp [List.length_take]; omega)]
    simp
  · simp only [hfit, if_false]
    rw [wrN_oob (out ++ [0]) (d ++ 0 :: drest) d.length (by simp) (by simp; omega)]
    rfl

end Qlibc.Str

/-
  qstrdupf / qstrcatf: the DYNAMIC_VSPRINTF loop, strdup, strcat into the caller's block.
-/
import QlibcModel.Str.ModelMore
import QlibcModel.Str.ReplLemmas

namespace Qlibc.Str
open Qlibc

theorem vsnStore_fit (out : Bytes) (size : Nat) (h : out.length < size) :
    vsnStore (List.replicate size fillByte) out size
      = .ok (out ++ 0 :: List.replicate (size - (out.length + 1)) fillByte) := by
  unfold vsnStore
  have hz : ¬ size = 0 := by omega
  have htake : out.take (size - 1) = out := List.take_of_length_le (by omega)
  have hl : (out ++ [0]).length ≤ (List.replicate size fillByte).length := by simp; omega
  simp only [hz, if_false, htake, hl, if_true]
  simp [List.drop_replicate]

theorem vsnStore_ok (out : Bytes) (size : Nat) :
    ∃ b, vsnStore (List.replicate size fillByte) out size = .ok b := by
  unfold vsnStore
  by_cases hz : size = 0
  · exact ⟨List.replicate size fillByte, by simp [hz]⟩
  · have hl : (out.take (size - 1) ++ [0]).length ≤ (List.replicate size fillByte).length := by
      simp [List.length_take]; omega
    simp only [hz, if_false, hl, if_true]
    exact ⟨_, rfl⟩

/-- for every start size ≥ 1 and every growth factor ≥ 2 the loop ends, with a block that holds
    the whole text and its terminator -/
theorem dynVsprintf_spec (factor : Nat) (hfac : 2 ≤ factor) (out : Bytes) :
    ∀ (fuel size : Nat) (allocs : List Nat), 1 ≤ size → out.length < size * 2 ^ fuel →
    ∃ (sz : Nat) (al : List Nat), out.length < sz ∧
      dynVsprintf factor out (fuel + 1) size allocs
        = .ok (out ++ 0 :: List.replicate (sz - (out.length + 1)) fillByte, al) := by
  intro fuel
  induction fuel with
  | zero =>
    intro size allocs h1 hlt
    simp only [Nat.pow_zero, Nat.mul_one] at hlt
    refine ⟨size, allocs ++ [size], hlt, ?_⟩
    rw [dynVsprintf, vsnStore_fit out size hlt]
    simp [hlt]
  | succ k ih =>
    intro size allocs h1 hlt
    by_cases hfit : out.length < size
    · refine ⟨size, allocs ++ [size], hfit, ?_⟩
      rw [dynVsprintf, vsnStore_fit out size hfit]
      simp [hfit]
    · have hge : size * 2 ≤ size * factor := Nat.mul_le_mul_left size hfac
      have hpow : size * 2 * 2 ^ k ≤ size * factor * 2 ^ k := Nat.mul_le_mul_right _ hge
      obtain ⟨sz, al, hsz, hrun⟩ := ih (size * factor) (allocs ++ [size])
        (by have : 1 ≤ size * 2 := by omega
            omega)
        (by rw [Nat.pow_succ] at hlt
            have : size * (2 ^ k * 2) = size * 2 * 2 ^ k := by
              rw [Nat.mul_comm (2 ^ k) 2, Nat.mul_assoc]
            omega)
      refine ⟨sz, al, hsz, ?_⟩
      obtain ⟨b, hb⟩ := vsnStore_ok out size
      rw [dynVsprintf, hb]
      simp only [bind_ok, hfit, if_false]
      exact hrun

/-- with a start size of 0 (e.g. `strlen(format) * 2` for the empty format) no block ever fits and
    the size never grows: the loop does not end, whatever the fuel -/
theorem dynVsprintf_zero (factor : Nat) (out : Bytes) : ∀ (fuel : Nat) (allocs : List Nat),
    dynVsprintf factor out fuel 0 allocs = .error .outOfFuel := by
  intro fuel
  induction fuel with
  | zero => intro allocs; rfl
  | succ k ih =>
    intro allocs
    rw [dynVsprintf]
    simp [vsnStore, ih]

theorem dynVsprintf_top (start factor : Nat) (hs : 1 ≤ start) (hfac : 2 ≤ factor) (out : Bytes) :
    ∃ (sz : Nat) (al : List Nat), out.length < sz ∧
      dynVsprintf factor out (out.length + 1) start []
        = .ok (out ++ 0 :: List.replicate (sz - (out.length + 1)) fillByte, al) := by
  apply dynVsprintf_spec factor hfac out out.length start [] hs
  have := @Nat.lt_two_pow_self out.length
  have h2 : 2 ^ out.length ≤ start * 2 ^ out.length := Nat.le_mul_of_pos_left _ (by omega)
  omega

theorem strlenAt_zero (s rest : Bytes) (hs : NulFree s) : strlenAt (s ++ 0 :: rest) 0 = .ok s.length := by
  unfold strlenAt
  have : ((s ++ 0 :: rest).drop 0).takeWhile (· != 0) = s := cstr_append_nul hs rest
  rw [this]
  simp

theorem qstrdupf_correct (start factor : Nat) (hs : 1 ≤ start) (hfac : 2 ≤ factor) (out : Bytes)
    (ho : NulFree out) :
    ∃ al, qstrdupfG start factor out = .ok (out ++ [0], al) := by
  obtain ⟨sz, al, hsz, hrun⟩ := dynVsprintf_top start factor hs hfac out
  refine ⟨al, ?_⟩
  unfold qstrdupfG
  rw [hrun]
  simp only [bind_ok]
  rw [strlenAt_zero out _ ho]
  simp only [bind_ok, pure_ok]
  have e : out ++ 0 :: List.replicate (sz - (out.length + 1)) fillByte
      = (out ++ [0]) ++ List.replicate (sz - (out.length + 1)) fillByte := by simp
  have l : out.length + 1 = (out ++ [0]).length := by simp
  rw [e, l, List.take_left]

theorem qstrcatf_correct (start factor : Nat) (hs : 1 ≤ start) (hfac : 2 ≤ factor)
    (d drest out : Bytes) (hd : NulFree d) (ho : NulFree out) :
    ∃ al, qstrcatfG start factor (d ++ 0 :: drest) out
      = if out.length ≤ drest.length
        then .ok (d ++ out ++ 0 :: drest.drop out.length, al)
        else .error .oob := by
  obtain ⟨sz, al, hsz, hrun⟩ := dynVsprintf_top start factor hs hfac out
  refine ⟨al, ?_⟩
  unfold qstrcatfG
  rw [hrun]
  simp only [bind_ok]
  rw [strlenAt_zero d drest hd, strlenAt_zero out _ ho]
  simp only [bind_ok]
  have e : out ++ 0 :: List.replicate (sz - (out.length + 1)) fillByte
      = (out ++ [0]) ++ List.replicate (sz - (out.length + 1)) fillByte := by simp
  have l : out.length + 1 = (out ++ [0]).length := by simp
  rw [e, l, List.take_left]
  unfold storeAt
  by_cases hfit : out.length ≤ drest.length
  · have h1 : d.length + (out ++ [0]).length ≤ (d ++ 0 :: drest).length := by simp; omega
    simp only [hfit, h1, if_true, bind_ok, pure_ok]
    congr 2
    have t1 : (d ++ 0 :: drest).take d.length = d := List.take_left
    have t2 : (d ++ 0 :: drest).drop (d.length + (out ++ [0]).length) = drest.drop out.length := by
      rw [← List.drop_drop, List.drop_left]
      simp
    rw [t1, t2]; simp
  · have h1 : ¬ d.length + (out ++ [0]).length ≤ (d ++ 0 :: drest).length := by simp; omega
    simp only [hfit, h1, if_false]
    rfl

end Qlibc.Str

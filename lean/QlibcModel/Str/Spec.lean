/-
  Reference definitions for the string utilities (C19) that other modules also use.

  Everything here is a pure function on NUL-free byte lists ("C strings without their
  terminator"); nothing mentions buffers, cursors or capacities. The raw-buffer model of
  `src/utilities/qstring.c` is `Str/Model.lean`; `Props/C19.lean` proves that the model computes
  these functions for every input.
-/
import QlibcModel.Base.Fault
namespace Qlibc.Str

/-- the four bytes `qstrtrim*` removes: blank, tab, CR, LF -/
def isWs (c : UInt8) : Bool := c == 32 || c == 9 || c == 13 || c == 10

def trimHead (s : Bytes) : Bytes := s.dropWhile isWs
def trimTail (s : Bytes) : Bytes := (s.reverse.dropWhile isWs).reverse
def trim (s : Bytes) : Bytes := trimTail (trimHead s)

/-- the C string a buffer holds: the bytes before the first NUL -/
def cstr (buf : Bytes) : Bytes := buf.takeWhile (· != 0)

/-- `qstrunchar`: strip one leading `head` and one trailing `tail` byte when the string has at
    least two bytes, starts with `head` and ends with `tail`; otherwise "no result" (NULL). -/
def unchar (head tail : UInt8) (s : Bytes) : Option Bytes :=
  if 2 ≤ s.length ∧ s.head? = some head ∧ s.getLast? = some tail then
    some ((s.drop 1).dropLast)
  else none

/-- string-mode replace: scan left to right; wherever `tok` occurs at the cursor emit `word` and
    continue *after* the occurrence (leftmost, non-overlapping), otherwise emit the byte.
    `tok = []` is outside the property (the C code does not terminate); here it is the identity. -/
def replaceAll (tok word : Bytes) (s : Bytes) : Bytes :=
  if tok = [] then s else
  match s with
  | [] => []
  | c :: r =>
    if tok.isPrefixOf (c :: r) then word ++ replaceAll tok word ((c :: r).drop tok.length)
    else c :: replaceAll tok word r
termination_by s.length
decreasing_by
  · rename_i h _
    have : 0 < tok.length := List.length_pos_iff.mpr h
    simp only [List.length_drop, List.length_cons]; omega
  · simp

/-- token-mode replace: every byte that is listed in `toks` becomes `word`, every other byte is kept -/
def replaceChars (toks word : Bytes) (s : Bytes) : Bytes :=
  s.flatMap fun c => if toks.contains c then word else [c]

/-- all fields of `s` separated by any byte of `delims` (k delimiters give k+1 fields) -/
def splitFields (delims : Bytes) : Bytes → List Bytes
  | [] => [[]]
  | c :: s =>
    if delims.contains c then [] :: splitFields delims s
    else match splitFields delims s with
      | f :: fs => (c :: f) :: fs
      | [] => [[c]]

/-- what iterating `qstrtok` returns: every field in order, empty ones included, except that an
    empty field after the last delimiter (or the single empty field of the empty string) is not
    returned: `"a:b::d"` ↦ a, b, "", d;  `"a:"` ↦ a;  `":a"` ↦ "", a;  `""` ↦ nothing. -/
def splitOnAny (delims : Bytes) (s : Bytes) : List Bytes :=
  let fs := splitFields delims s
  if fs.getLast? = some [] then fs.dropLast else fs

/-- bounded copy: the first `size - 1` bytes (a destination of `size ≥ 1` bytes incl. terminator) -/
def boundedCopy (size : Nat) (s : Bytes) : Bytes := s.take (size - 1)

/-- `qstrgets` on the non-empty rest `s` of the text with a buffer of `size ≥ 1` bytes: look at
    the first `size - 1` bytes; the line is what precedes the first LF among them (all of them
    when there is none), stored without CRs; the cursor advances over the line and its LF. -/
def getsLine (size : Nat) (s : Bytes) : Bytes × Nat :=
  let pre := s.take (size - 1)
  let line := pre.takeWhile (· != 10)
  (line.filter (· != 13), if line.length < pre.length then line.length + 1 else line.length)

def asciiUpper (c : UInt8) : UInt8 := if 97 ≤ c ∧ c ≤ 122 then c - 32 else c
def asciiLower (c : UInt8) : UInt8 := if 65 ≤ c ∧ c ≤ 90 then c + 32 else c
def upper (s : Bytes) : Bytes := s.map asciiUpper
def lower (s : Bytes) : Bytes := s.map asciiLower

/-- index of the first occurrence of `needle` in `s` (C `strstr`; the empty needle is found at 0) -/
def findSub (needle : Bytes) : Bytes → Option Nat
  | [] => if needle = [] then some 0 else none
  | c :: s => if needle.isPrefixOf (c :: s) then some 0 else (findSub needle s).map (· + 1)

/-- `qstrdup_between`: what lies between the first `start` and the first `stop` after it -/
def dupBetween (s start stop : Bytes) : Option Bytes :=
  match findSub start s with
  | none => none
  | some i =>
    let s' := s.drop (i + start.length)
    match findSub stop s' with
    | none => none
    | some j => some (s'.take j)

end Qlibc.Str

/-
  Reference definitions for the string utilities (C19) that other modules also use.
-/
import QlibcModel.Base.Fault
namespace Qlibc.Str

/-- the four bytes `qstrtrim*` removes: blank, tab, CR, LF -/
def isWs (c : UInt8) : Bool := c == 32 || c == 9 || c == 13 || c == 10

def trimHead (s : Bytes) : Bytes := s.dropWhile isWs
def trimTail (s : Bytes) : Bytes := (s.reverse.dropWhile isWs).reverse
def trim (s : Bytes) : Bytes := trimTail (trimHead s)

end Qlibc.Str

/-
  qstrupper / qstrlower / qstrrev on the raw buffer.
-/
import QlibcModel.Str.TrimLemmas

namespace Qlibc.Str
open Qlibc

theorem mapLoop_spec (test : UInt8 → Bool) (f g : UInt8 → UInt8)
    (hg : ∀ c, g c = if test c then f c else c) (todo : Bytes) :
    ∀ (done rest : Bytes) (fuel : Nat), NulFree todo → todo.length < fuel →
    mapLoop test f fuel (done ++ todo ++ 0 :: rest) done.length
      = .ok (done ++ todo.map g ++ 0 :: rest) := by
  induction todo with
  | nil =>
    intro done rest fuel _ hf
    cases fuel with
    | zero => simp at hf
    | succ k => simp [mapLoop, rd_mid]
  | cons c t ih =>
    intro done rest fuel hn hf
    have ⟨hc, ht⟩ := hn.of_cons
    cases fuel with
    | zero => simp at hf
    | succ k =>
      have e1 : done ++ c :: t ++ 0 :: rest = done ++ c :: (t ++ 0 :: rest) := by simp
      rw [mapLoop, e1, rd_mid]
      simp only [bind_ok, hc, if_false]
      have hk : t.length < k := by simp at hf; omega
      by_cases htest : test c = true
      · simp only [htest, if_true]
        rw [wr_mid]
        simp only [bind_ok]
        have e2 : done ++ f c :: (t ++ 0 :: rest) = (done ++ [f c]) ++ t ++ 0 :: rest := by simp
        have := ih (done ++ [f c]) rest k ht hk
        simp only [List.length_append, List.length_cons, List.length_nil, Nat.zero_add] at this
        rw [e2, this, List.map_cons, hg c]
        simp [htest]
      · simp only [htest]
        have e2 : done ++ c :: (t ++ 0 :: rest) = (done ++ [c]) ++ t ++ 0 :: rest := by simp
        have := ih (done ++ [c]) rest k ht hk
        simp only [List.length_append, List.length_cons, List.length_nil, Nat.zero_add] at this
        rw [e2]
        simp only [Bool.false_eq_true, if_false]
        rw [this, List.map_cons, hg c]
        simp [htest]

theorem isLowerC_iff (c : UInt8) : isLowerC c = decide (97 ≤ c ∧ c ≤ 122) := by
  unfold isLowerC sc
  have h := c.toNat_lt
  by_cases h1 : c < 128
  · simp only [h1, if_true]
    rw [UInt8.lt_iff_toNat_lt] at h1
    simp only [UInt8.le_iff_toNat_le]
    have a : (97 : UInt8).toNat = 97 := rfl
    have b : (122 : UInt8).toNat = 122 := rfl
    have c' : (128 : UInt8).toNat = 128 := rfl
    rw [a, b]; rw [c'] at h1
    by_cases p : 97 ≤ c.toNat <;> by_cases q : c.toNat ≤ 122 <;> simp [p, q] <;> omega
  · simp only [h1, if_false]
    rw [UInt8.lt_iff_toNat_lt] at h1
    simp only [UInt8.le_iff_toNat_le]
    have a : (97 : UInt8).toNat = 97 := rfl
    have b : (122 : UInt8).toNat = 122 := rfl
    have c' : (128 : UInt8).toNat = 128 := rfl
    rw [a, b]; rw [c'] at h1
    have q : ¬ c.toNat ≤ 122 := by omega
    have p : ¬ (97 : Int) ≤ (c.toNat : Int) - 256 := by omega
    simp [p, q]

theorem isUpperC_iff (c : UInt8) : isUpperC c = decide (65 ≤ c ∧ c ≤ 90) := by
  unfold isUpperC sc
  have h := c.toNat_lt
  by_cases h1 : c < 128
  · simp only [h1, if_true]
    rw [UInt8.lt_iff_toNat_lt] at h1
    simp only [UInt8.le_iff_toNat_le]
    have a : (65 : UInt8).toNat = 65 := rfl
    have b : (90 : UInt8).toNat = 90 := rfl
    have c' : (128 : UInt8).toNat = 128 := rfl
    rw [a, b]; rw [c'] at h1
    by_cases p : 65 ≤ c.toNat <;> by_cases q : c.toNat ≤ 90 <;> simp [p, q] <;> omega
  · simp only [h1, if_false]
    rw [UInt8.lt_iff_toNat_lt] at h1
    simp only [UInt8.le_iff_toNat_le]
    have a : (65 : UInt8).toNat = 65 := rfl
    have b : (90 : UInt8).toNat = 90 := rfl
    have c' : (128 : UInt8).toNat = 128 := rfl
    rw [a, b]; rw [c'] at h1
    have q : ¬ c.toNat ≤ 90 := by omega
    have p : ¬ (65 : Int) ≤ (c.toNat : Int) - 256 := by omega
    simp [p, q]

theorem qstrupper_correct (s rest : Bytes) (hs : NulFree s) :
    qstrupper (s ++ 0 :: rest) = .ok (upper s ++ 0 :: rest) := by
  unfold qstrupper upper
  have := mapLoop_spec isLowerC (· - 32) asciiUpper
    (by intro c; unfold asciiUpper; rw [isLowerC_iff]; by_cases h : 97 ≤ c ∧ c ≤ 122 <;> simp [h])
    s [] rest ((s ++ 0 :: rest).length + 1) hs (by simp; omega)
  simpa using this

theorem qstrlower_correct (s rest : Bytes) (hs : NulFree s) :
    qstrlower (s ++ 0 :: rest) = .ok (lower s ++ 0 :: rest) := by
  unfold qstrlower lower
  have := mapLoop_spec isUpperC (· + 32) asciiLower
    (by intro c; unfold asciiLower; rw [isUpperC_iff]; by_cases h : 65 ≤ c ∧ c ≤ 90 <;> simp [h])
    s [] rest ((s ++ 0 :: rest).length + 1) hs (by simp; omega)
  simpa using this

/-! ### qstrrev -/

theorem revLoop_spec : ∀ (fuel : Nat) (m a b : Bytes), m.length < fuel →
    revLoop fuel (a ++ m ++ b) a.length (a.length + m.length) = .ok (a ++ m.reverse ++ b) := by
  intro fuel
  induction fuel with
  | zero => intro m a b h; simp at h
  | succ k ih =>
    intro m a b hf
    by_cases h2 : 2 ≤ m.length
    · obtain ⟨x, m', y, hm⟩ := two_split m h2
      subst hm
      have hlt : a.length + 1 < a.length + (x :: (m' ++ [y])).length := by simp
      rw [revLoop]
      simp only [hlt, if_true]
      have e1 : a ++ x :: (m' ++ [y]) ++ b = a ++ x :: (m' ++ [y] ++ b) := by simp
      have e2 : a ++ x :: (m' ++ [y] ++ b) = (a ++ x :: m') ++ y :: b := by simp
      have i2 : a.length + (x :: (m' ++ [y])).length - 1 = (a ++ x :: m').length := by simp
      rw [e1, rd_mid, i2]
      simp only [bind_ok]
      rw [e2, rd_mid]
      simp only [bind_ok]
      have e3 : (a ++ x :: m') ++ y :: b = a ++ x :: (m' ++ y :: b) := by simp
      rw [e3, wr_mid]
      simp only [bind_ok]
      have e4 : a ++ y :: (m' ++ y :: b) = (a ++ y :: m') ++ y :: b := by simp
      have i3 : (a ++ x :: m').length = (a ++ y :: m').length := by simp
      rw [e4, i3, wr_mid]
      simp only [bind_ok]
      have e5 : (a ++ y :: m') ++ x :: b = (a ++ [y]) ++ m' ++ ([x] ++ b) := by simp
      have i4 : (a ++ y :: m').length = (a ++ [y]).length + m'.length := by simp; omega
      have i5 : a.length + 1 = (a ++ [y]).length := by simp
      rw [e5, i4, i5, ih m' (a ++ [y]) ([x] ++ b) (by simp at hf; omega)]
      simp
    · have hlt : ¬ a.length + 1 < a.length + m.length := by omega
      rw [revLoop]
      simp only [hlt, if_false]
      have : m.reverse = m := by
        match m, h2 with
        | [], _ => rfl
        | [_], _ => rfl
        | _ :: _ :: _, h => simp at h
      rw [this]; rfl

theorem qstrrev_correct (s rest : Bytes) (hs : NulFree s) :
    qstrrev (s ++ 0 :: rest) = .ok (s.reverse ++ 0 :: rest) := by
  unfold qstrrev
  rw [nulPos_zero s rest hs]
  simp only [bind_ok]
  have := revLoop_spec ((s ++ 0 :: rest).length + 1) s [] (0 :: rest) (by simp; omega)
  simpa using this

end Qlibc.Str

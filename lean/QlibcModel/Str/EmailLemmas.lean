/-
  qstr_is_email: the switch loop with its three counters accepts exactly the language described
  declaratively by `isEmail` (Str/SpecMore.lean).
-/
import QlibcModel.Str.ModelMore
import QlibcModel.Str.Lemmas

namespace Qlibc.Str
open Qlibc

/-- the loop as a function of the remaining characters; `prev` is the character before the
    cursor (0 at the start: neither '@' nor '.') -/
def emailRun (prev : UInt8) (alpa dot gol : Nat) : Bytes → Option (Nat × Nat × Nat)
  | [] => some (alpa, dot, gol)
  | c :: t =>
    if c = 64 then
      if alpa = 0 then none else if gol > 0 then none else emailRun c alpa dot (gol + 1) t
    else if c = 46 then
      if prev = 64 then none else if gol > 0 ∧ prev = 46 then none
      else emailRun c alpa (dot + 1) gol t
    else if isOrdB c then emailRun c (alpa + 1) dot gol t else none

/-- `prev` is the byte in front of offset `pre.length` (or the start marker 0) -/
def PrevOf (pre : Bytes) (prev : UInt8) : Prop := (pre = [] ∧ prev = 0) ∨ ∃ p', pre = p' ++ [prev]

theorem rdPrev_spec (p' : Bytes) (prev : UInt8) (post : Bytes) :
    rdPrev (p' ++ [prev] ++ post) (p' ++ [prev]).length = .ok prev := by
  unfold rdPrev
  have e : p' ++ [prev] ++ post = p' ++ prev :: post := by simp
  have h0 : ¬ (p' ++ [prev]).length = 0 := by simp
  have h1 : (p' ++ [prev]).length - 1 = p'.length := by simp
  simp only [h0, if_false]
  rw [h1, e, rd_mid]

theorem emailLoop_spec (t : Bytes) : ∀ (pre rest : Bytes) (prev : UInt8) (fuel alpa dot gol : Nat),
    NulFree t → t.length < fuel → PrevOf pre prev → (gol > 0 → pre ≠ []) →
    emailLoop (pre ++ t ++ 0 :: rest) fuel pre.length alpa dot gol
      = .ok (emailRun prev alpa dot gol t) := by
  induction t with
  | nil =>
    intro pre rest prev fuel alpa dot gol _ hf _ _
    cases fuel with
    | zero => simp at hf
    | succ k => simp [emailLoop, rd_mid, emailRun]
  | cons c t ih =>
    intro pre rest prev fuel alpa dot gol hn hf hprev hgol
    have ⟨hc, ht⟩ := hn.of_cons
    cases fuel with
    | zero => simp at hf
    | succ k =>
      have hk : t.length < k := by simp at hf; omega
      have e1 : pre ++ c :: t ++ 0 :: rest = pre ++ c :: (t ++ 0 :: rest) := by simp
      have e2 : pre ++ c :: t ++ 0 :: rest = (pre ++ [c]) ++ t ++ 0 :: rest := by simp
      have i1 : pre.length + 1 = (pre ++ [c]).length := by simp
      have hnext : PrevOf (pre ++ [c]) c := Or.inr ⟨pre, rfl⟩
      have hne : ∀ g : Nat, g > 0 → pre ++ [c] ≠ [] := fun _ _ => by simp
      rw [emailLoop]
      conv => lhs; rw [e1, rd_mid]
      simp only [bind_ok, hc, if_false]
      rw [← e1]
      rw [emailRun]
      by_cases h64 : c = 64
      · simp only [h64, if_true]
        subst h64
        by_cases ha : alpa = 0
        · simp [ha]
        · simp only [ha, if_false]
          by_cases hg : gol > 0
          · simp [hg]
          · simp only [hg, if_false]
            rw [e2, i1, ih (pre ++ [64]) rest 64 k alpa dot (gol + 1) ht hk hnext (hne _)]
      · simp only [h64, if_false]
        by_cases h46 : c = 46
        · simp only [h46, if_true]
          subst h46
          rcases hprev with ⟨hp1, hp2⟩ | ⟨p', hp1⟩
          · -- at the start of the string
            subst hp1; subst hp2
            have hg0 : ¬ gol > 0 := fun h => hgol h rfl
            have h1 : ¬ ((0 : UInt8) = 64) := by decide
            simp only [List.length_nil, Nat.lt_irrefl, if_false, pure_ok, bind_ok, hg0,
              Bool.false_eq_true, h1, false_and]
            have := ih ([] ++ [46]) rest 46 k alpa (dot + 1) gol ht hk (Or.inr ⟨[], rfl⟩) (hne _)
            simpa using this
          · subst hp1
            have hpos : (p' ++ [prev]).length > 0 := by simp
            have hr := rdPrev_spec p' prev (46 :: t ++ 0 :: rest)
            have e3 : p' ++ [prev] ++ (46 :: t ++ 0 :: rest) = p' ++ [prev] ++ 46 :: t ++ 0 :: rest := by
              simp
            rw [e3] at hr
            simp only [hpos, if_true, hr, bind_ok, pure_ok]
            by_cases hp64 : prev = 64
            · simp [hp64]
            · have : (prev == 64) = false := by simpa using hp64
              simp only [this, Bool.false_eq_true, if_false, hp64]
              by_cases hg : gol > 0
              · simp only [hg, if_true, hr, bind_ok, pure_ok, true_and]
                by_cases hp46 : prev = 46
                · simp [hp46]
                · have : (prev == 46) = false := by simpa using hp46
                  simp only [this, Bool.false_eq_true, if_false, hp46]
                  rw [e2, i1, ih (p' ++ [prev] ++ [46]) rest 46 k alpa (dot + 1) gol ht hk hnext (hne _)]
              · simp only [hg, if_false, pure_ok, bind_ok, Bool.false_eq_true, false_and]
                rw [e2, i1, ih (p' ++ [prev] ++ [46]) rest 46 k alpa (dot + 1) gol ht hk hnext (hne _)]
        · simp only [h46, if_false]
          by_cases ho : isOrdB c = true
          · simp only [ho, if_true]
            rw [e2, i1, ih (pre ++ [c]) rest c k (alpa + 1) dot gol ht hk hnext (fun h => by simp)]
          · simp [ho]

/-! ### the counters -/

theorem isOrdB_at : isOrdB 64 = false := by decide
theorem isOrdB_dot : isOrdB 46 = false := by decide

theorem emailRun_counts (t : Bytes) : ∀ (prev : UInt8) (a d g a' d' g' : Nat),
    emailRun prev a d g t = some (a', d', g') →
    a' = a + (t.filter isOrdB).length ∧ d' = d + t.count 46 ∧ g' = g + t.count 64 := by
  induction t with
  | nil =>
    intro prev a d g a' d' g' h
    simp [emailRun] at h
    simp [h]
  | cons c t ih =>
    intro prev a d g a' d' g' h
    rw [emailRun] at h
    by_cases h64 : c = 64
    · subst h64
      simp only [if_true] at h
      split at h
      · cases h
      · split at h
        · cases h
        · have := ih _ _ _ _ _ _ _ h
          simp [isOrdB_at, List.count_cons]
          omega
    · simp only [h64, if_false] at h
      by_cases h46 : c = 46
      · subst h46
        simp only [if_true] at h
        split at h
        · cases h
        · split at h
          · cases h
          · have := ih _ _ _ _ _ _ _ h
            simp [isOrdB_dot, List.count_cons]
            omega
      · simp only [h46, if_false] at h
        by_cases ho : isOrdB c = true
        · simp only [ho, if_true] at h
          have := ih _ _ _ _ _ _ _ h
          have n1 : ¬ (c == 46) = true := by simpa using h46
          have n2 : ¬ (c == 64) = true := by simpa using h64
          simp [ho, List.count_cons, n1, n2]
          omega
        · simp [ho] at h

/-! ### which strings survive the loop -/

def emailValid (prev : UInt8) (a g : Nat) (t : Bytes) : Bool :=
  t.all (fun c => isOrdB c || c == 46 || c == 64) &&
  decide (g + t.count 64 ≤ 1) &&
  (!t.contains 64 || decide (0 < a + ((t.takeWhile (· != 64)).filter isOrdB).length)) &&
  !hasPair 64 46 (prev :: t) &&
  !(if g > 0 then hasPair 46 46 (prev :: t) else hasPair 46 46 (t.dropWhile (· != 64)))

theorem hasPair_cons2 (a b x y : UInt8) (t : Bytes) :
    hasPair a b (x :: y :: t) = ((x == a && y == b) || hasPair a b (y :: t)) := rfl

theorem hasPair_single (a b x : UInt8) : hasPair a b [x] = false := rfl

theorem emailRun_isSome (t : Bytes) : ∀ (prev : UInt8) (a d g : Nat), g ≤ 1 →
    (emailRun prev a d g t).isSome = emailValid prev a g t := by
  induction t with
  | nil =>
    intro prev a d g hg
    simp only [emailRun, emailValid, hasPair, List.all_nil, List.count_nil, Nat.add_zero,
      List.contains_nil, List.takeWhile_nil, List.dropWhile_nil, Option.isSome_some,
      decide_eq_true hg]
    split <;> simp <;> exact decide_eq_true hg
  | cons c t ih =>
    intro prev a d g hg
    rw [emailRun]
    by_cases h64 : c = 64
    · subst h64
      simp only [if_true]
      by_cases ha : a = 0
      · subst ha
        simp [emailValid, isOrdB_at]
      · simp only [ha, if_false]
        by_cases hg0 : g > 0
        · have : ¬ (g + (List.count 64 t + 1) ≤ 1) := by omega
          simp [hg0, emailValid, List.count_cons, this]
        · have hgz : g = 0 := by omega
          subst hgz
          simp only [Nat.lt_irrefl, if_false]
          rw [ih 64 a d 1 (by omega)]
          simp only [emailValid, List.all_cons, isOrdB_at, List.count_cons, hasPair_cons2]
          have hp : 0 < a := by omega
          by_cases hcnt : List.count 64 t = 0
          · have hno : (64 : UInt8) ∉ t := List.count_eq_zero.mp hcnt
            simp [hcnt, hno, hp]
          · have h1 : ¬ (1 + List.count 64 t ≤ 1) := by omega
            have h2 : ¬ (0 + (List.count 64 t + 1) ≤ 1) := by omega
            simp [h1, h2]
            intro _ h0
            exact absurd h0 hcnt
    · simp only [h64, if_false]
      have n64 : (c == 64) = false := by simpa using h64
      by_cases h46 : c = 46
      · subst h46
        simp only [if_true]
        by_cases hp64 : prev = 64
        · subst hp64
          simp [emailValid, hasPair_cons2]
        · simp only [hp64, if_false]
          have np64 : (prev == 64) = false := by simpa using hp64
          by_cases hgp : g > 0 ∧ prev = 46
          · obtain ⟨hg0, hp46⟩ := hgp
            subst hp46
            simp [hg0, emailValid, hasPair_cons2]
          · simp only [hgp, if_false]
            rw [ih 46 a (d + 1) g hg]
            simp only [emailValid, List.all_cons, isOrdB_dot, List.count_cons, hasPair_cons2, np64,
              List.contains_cons, List.takeWhile_cons, List.dropWhile_cons]
            by_cases hg0 : g > 0
            · have hp46 : (prev == 46) = false := by
                have : ¬ prev = 46 := fun h => hgp ⟨hg0, h⟩
                simpa using this
              simp [hg0, hp46, isOrdB_dot]
            · simp [hg0, isOrdB_dot]
      · simp only [h46, if_false]
        have n46 : (c == 46) = false := by simpa using h46
        by_cases ho : isOrdB c = true
        · simp only [ho, if_true]
          rw [ih c (a + 1) d g hg]
          simp only [emailValid, List.all_cons, ho, List.count_cons, hasPair_cons2, n46, n64,
            List.contains_cons, List.takeWhile_cons, List.dropWhile_cons]
          have n64' : ((64 : UInt8) == c) = false := by
            have : ¬ (64 : UInt8) = c := fun h => h64 h.symm
            simpa using this
          have hpos1 : ∀ n, decide (0 < a + 1 + n) = true := fun n => decide_eq_true (by omega)
          have hpos2 : ∀ n, decide (0 < a + (n + 1)) = true := fun n => decide_eq_true (by omega)
          by_cases hg0 : g > 0
          · simp [hg0, ho, n64, n64', h64, hpos1, hpos2]
          · simp [hg0, ho, n64, n64', h64, hpos1, hpos2]
        · have ho' : isOrdB c = false := Bool.eq_false_iff.mpr ho
          simp [ho', emailValid, n46, n64]

/-! ### assembly -/

theorem filter_length_pos_iff_any (p : UInt8 → Bool) (l : Bytes) :
    decide (0 < (l.filter p).length) = l.any p := by
  induction l with
  | nil => simp
  | cons x l ih =>
    by_cases hx : p x = true
    · simp [List.filter_cons, hx]
    · have hx' : p x = false := Bool.eq_false_iff.mpr hx
      simp only [List.filter_cons, hx', Bool.false_eq_true, if_false, List.any_cons, Bool.false_or]
      exact ih

theorem hasPair_zero_cons (a b : UInt8) (ha : a ≠ 0) (s : Bytes) :
    hasPair a b (0 :: s) = hasPair a b s := by
  cases s with
  | nil => rfl
  | cons x t =>
    have : ((0 : UInt8) == a) = false := by
      have : ¬ (0 : UInt8) = a := fun h => ha h.symm
      simpa using this
    rw [hasPair_cons2, this]; simp

theorem isEmail_eq (s : Bytes) :
    isEmail s = (emailValid 0 0 0 s && decide (s.count 64 ≠ 0) && decide (1 ≤ s.count 46)
      && decide (3 < (s.filter isOrdB).length)) := by
  unfold isEmail emailValid
  rw [hasPair_zero_cons 64 46 (by decide)]
  simp only [Nat.lt_irrefl, if_false, Nat.zero_add]
  by_cases h1 : s.count 64 = 1
  · have hmem : (64 : UInt8) ∈ s := by
      apply List.count_pos_iff.mp; omega
    have hc : s.contains 64 = true := by simpa using hmem
    rw [filter_length_pos_iff_any]
    simp [h1, hmem]
  · by_cases h0 : s.count 64 = 0
    · simp [h0]
    · have : ¬ s.count 64 ≤ 1 := by omega
      simp [h1, this]

theorem qstrIsEmail_correct (s rest : Bytes) (hs : NulFree s) :
    qstrIsEmail (s ++ 0 :: rest) = .ok (isEmail s) := by
  unfold qstrIsEmail
  have hrun := emailLoop_spec s [] rest 0 ((s ++ 0 :: rest).length + 1) 0 0 0 hs
    (by simp; omega) (Or.inl ⟨rfl, rfl⟩) (fun h => absurd h (Nat.lt_irrefl 0))
  simp only [List.nil_append, List.length_nil] at hrun
  rw [hrun]
  simp only [bind_ok]
  have hsome := emailRun_isSome s 0 0 0 0 (by omega)
  rw [isEmail_eq]
  cases hr : emailRun 0 0 0 0 s with
  | none =>
    rw [hr] at hsome
    have : emailValid 0 0 0 s = false := by simpa using hsome.symm
    simp [this]
  | some r =>
    obtain ⟨a', d', g'⟩ := r
    rw [hr] at hsome
    have hv : emailValid 0 0 0 s = true := by simpa using hsome.symm
    obtain ⟨ha, hd, hg⟩ := emailRun_counts s 0 0 0 0 a' d' g' hr
    simp only [Nat.zero_add] at ha hd hg
    subst ha hd hg
    simp only [hv, Bool.true_and, pure_ok]
    congr 1
    by_cases c1 : (s.filter isOrdB).length ≤ 3 <;> by_cases c2 : s.count 64 = 0 <;>
      by_cases c3 : s.count 46 = 0 <;> simp [c1, c2, c3] <;>
      exact ⟨List.count_pos_iff.mp (by omega), by omega⟩

end Qlibc.Str

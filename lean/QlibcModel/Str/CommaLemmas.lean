/-
  qstr_comma_number: decimal numerals, the grouping loop, the 15-byte block.
-/
import QlibcModel.Str.ModelMore
import QlibcModel.Str.CopyLemmas

namespace Qlibc.Str
open Qlibc

/-! ### decimal numerals -/

theorem digitCh_toNat (d : Nat) : (digitCh d).toNat = 48 + d % 10 := by
  simp [digitCh, UInt8.toNat_ofNat']; omega

theorem digitCh_ne_zero (d : Nat) : digitCh d ≠ 0 := by
  intro h
  have := congrArg UInt8.toNat h
  rw [digitCh_toNat] at this
  simp at this

theorem decNat_small {n : Nat} (h : n < 10) : decNat n = [digitCh n] := by
  rw [decNat]; simp [h]

theorem decNat_big {n : Nat} (h : 10 ≤ n) : decNat n = decNat (n / 10) ++ [digitCh n] := by
  rw [decNat]; simp [Nat.not_lt.mpr h]

theorem decNat_ne_nil (n : Nat) : decNat n ≠ [] := by
  by_cases h : n < 10
  · rw [decNat_small h]; simp
  · rw [decNat_big (by omega)]; simp

theorem decNat_nulFree (n : Nat) : NulFree (decNat n) := by
  induction n using Nat.strongRecOn with
  | _ n ih =>
    by_cases h : n < 10
    · rw [decNat_small h]
      intro x hx; simp at hx; subst hx; exact digitCh_ne_zero n
    · rw [decNat_big (by omega)]
      apply NulFree.append (ih (n / 10) (by omega))
      intro x hx; simp at hx; subst hx; exact digitCh_ne_zero n

theorem decNat_length_le : ∀ (k n : Nat), 1 ≤ k → n < 10 ^ k → (decNat n).length ≤ k := by
  intro k
  induction k with
  | zero => intro n h; omega
  | succ k ih =>
    intro n _ hn
    by_cases h : n < 10
    · rw [decNat_small h]; simp
    · rw [decNat_big (by omega)]
      have hk : 1 ≤ k := by
        cases k with
        | zero => simp at hn; omega
        | succ k => omega
      have : n / 10 < 10 ^ k := by
        rw [Nat.pow_succ] at hn
        exact Nat.div_lt_of_lt_mul (by rw [Nat.mul_comm]; exact hn)
      have := ih (n / 10) hk this
      simp; omega

theorem decNat_thousand {n : Nat} (h : 1000 ≤ n) :
    decNat n = decNat (n / 1000) ++ [digitCh (n / 100), digitCh (n / 10), digitCh n] := by
  have e1 : n / 10 / 10 = n / 100 := by rw [Nat.div_div_eq_div_mul]
  have e2 : n / 100 / 10 = n / 1000 := by rw [Nat.div_div_eq_div_mul]
  rw [decNat_big (n := n) (by omega), decNat_big (n := n / 10) (by omega), e1,
    decNat_big (n := n / 100) (by omega), e2]
  simp

/-! ### the grouping the loop performs -/

/-- what the loop stores for the digit string `t`: a comma behind every digit whose remaining
    length (itself included) is 1 modulo 3, except behind the last digit -/
def group : Bytes → Bytes
  | [] => []
  | [c] => [c]
  | c :: c2 :: t =>
    if (t.length + 2) % 3 = 1 then c :: 44 :: group (c2 :: t) else c :: group (c2 :: t)

theorem group_short (t : Bytes) (h : t.length ≤ 3) : group t = t := by
  match t, h with
  | [], _ => simp [group]
  | [_], _ => simp [group]
  | [_, _], _ => simp [group]
  | [_, _, _], _ => simp [group]
  | _ :: _ :: _ :: _ :: _, h => simp at h

theorem group_append3 (x y z : UInt8) : ∀ (a : Bytes), a ≠ [] →
    group (a ++ [x, y, z]) = group a ++ [44, x, y, z] := by
  intro a
  induction a with
  | nil => intro h; exact absurd rfl h
  | cons c a ih =>
    intro _
    cases a with
    | nil => simp [group]
    | cons c2 a =>
      have := ih (by simp)
      have hm : ((a ++ [x, y, z]).length + 2) % 3 = (a.length + 2) % 3 := by
        simp; omega
      simp only [List.cons_append] at this ⊢
      rw [group, group, hm, this]
      split <;> simp

theorem group_decNat (n : Nat) : group (decNat n) = commaNat n := by
  induction n using Nat.strongRecOn with
  | _ n ih =>
    by_cases h : n < 1000
    · rw [commaNat]; simp only [h, if_true]
      exact group_short _ (decNat_length_le 3 n (by omega) (by simpa using h))
    · rw [commaNat]; simp only [h, if_false]
      rw [decNat_thousand (by omega), group_append3 _ _ _ _ (decNat_ne_nil _), ih (n / 1000) (by omega)]

theorem group_length : ∀ (t : Bytes), (group t).length = t.length + (t.length - 1) / 3
  | [] => by simp [group]
  | [_] => by simp [group]
  | c :: c2 :: t => by
    have := group_length (c2 :: t)
    rw [group]
    split
    · simp only [List.length_cons] at this ⊢; omega
    · simp only [List.length_cons] at this ⊢; omega

theorem group_nulFree : ∀ {t : Bytes}, NulFree t → NulFree (group t)
  | [], _ => by simp [group]; exact NulFree.nil
  | [_], h => by simpa [group] using h
  | c :: c2 :: t, h => by
    have ⟨hc, ht⟩ := h.of_cons
    have ih := group_nulFree ht
    rw [group]
    split
    · intro x hx
      simp only [List.mem_cons] at hx
      rcases hx with h1 | h1 | h1
      · subst h1; exact hc
      · subst h1; decide
      · exact ih x (by simpa using h1)
    · intro x hx
      rcases List.mem_cons.mp hx with h1 | h1
      · subst h1; exact hc
      · exact ih x h1

/-! ### the loop -/

theorem commaLoop_spec (t : Bytes) : ∀ (pre rest out free : Bytes) (fuel : Nat), NulFree t →
    t.length < fuel → (group t).length ≤ free.length →
    commaLoop (pre ++ t ++ 0 :: rest) fuel pre.length (out ++ free) out.length
      = .ok (out ++ group t ++ free.drop (group t).length, out.length + (group t).length) := by
  induction t with
  | nil =>
    intro pre rest out free fuel _ hf _
    cases fuel with
    | zero => simp at hf
    | succ k => simp [commaLoop, rd_mid, group]
  | cons c t ih =>
    intro pre rest out free fuel hn hf hcap
    have ⟨hc, ht⟩ := hn.of_cons
    cases fuel with
    | zero => simp at hf
    | succ k =>
      have hk : t.length < k := by simp at hf; omega
      have e1 : pre ++ c :: t ++ 0 :: rest = pre ++ c :: (t ++ 0 :: rest) := by simp
      have e2 : pre ++ c :: t ++ 0 :: rest = (pre ++ [c]) ++ t ++ 0 :: rest := by simp
      have i1 : pre.length + 1 = (pre ++ [c]).length := by simp
      obtain ⟨q, fr, hfr⟩ : ∃ q fr, free = q :: fr := by
        cases free with
        | nil =>
          have := group_length (c :: t)
          simp only [List.length_cons, List.length_nil] at hcap this; omega
        | cons q fr => exact ⟨q, fr, rfl⟩
      subst hfr
      rw [commaLoop]
      conv => lhs; rw [e1, rd_mid]
      simp only [bind_ok, hc, if_false]
      rw [wr_mid]
      simp only [bind_ok]
      rw [← e1, nulPos_spec pre (c :: t) rest hn]
      simp only [bind_ok]
      have hlen : pre.length + (c :: t).length - pre.length = t.length + 1 := by simp
      rw [hlen]
      by_cases hm : (t.length + 1) % 3 = 1
      · simp only [hm, if_true]
        cases t with
        | nil =>
          -- last digit: bufp[1] is the terminator
          have r1 : rd (pre ++ [c] ++ 0 :: rest) (pre.length + 1) = .ok 0 :=
            rd_mid' (pre ++ [c]) 0 rest _ (by simp)
          rw [r1]
          simp only [bind_ok, ne_eq, not_true_eq_false, if_false]
          have := ih (pre ++ [c]) rest (out ++ [c]) fr k ht hk (by simp [group])
          simp only [List.length_append, List.length_cons, List.length_nil, Nat.zero_add] at this
          have e3 : out ++ c :: fr = (out ++ [c]) ++ fr := by simp
          have e5 : pre ++ [c] ++ 0 :: rest = (pre ++ [c]) ++ [] ++ 0 :: rest := by simp
          rw [e3, e5, this]
          simp [group]
        | cons c2 t2 =>
          have hc2 : c2 ≠ 0 := ht c2 (by simp)
          have r1 : rd (pre ++ c :: c2 :: t2 ++ 0 :: rest) (pre.length + 1) = .ok c2 := by
            have e : pre ++ c :: c2 :: t2 ++ 0 :: rest = (pre ++ [c]) ++ c2 :: (t2 ++ 0 :: rest) := by
              simp
            rw [e]; exact rd_mid' _ _ _ _ (by simp)
          rw [r1]
          simp only [bind_ok, ne_eq, hc2, not_false_eq_true, if_true]
          have hg : group (c :: c2 :: t2) = c :: 44 :: group (c2 :: t2) := by
            simp only [List.length_cons] at hm
            rw [group]; simp [hm]
          rw [hg] at hcap ⊢
          obtain ⟨q2, fr2, hfr2⟩ : ∃ q2 fr2, fr = q2 :: fr2 := by
            cases fr with
            | nil => simp at hcap
            | cons q2 fr2 => exact ⟨q2, fr2, rfl⟩
          subst hfr2
          have e3 : out ++ c :: q2 :: fr2 = (out ++ [c]) ++ q2 :: fr2 := by simp
          rw [e3, wr_mid' (out ++ [c]) q2 fr2 44 _ (by simp)]
          simp only [bind_ok]
          have := ih (pre ++ [c]) rest (out ++ [c, 44]) fr2 k ht hk (by simp at hcap; omega)
          simp only [List.length_append, List.length_cons, List.length_nil, Nat.zero_add] at this
          have e4 : (out ++ [c]) ++ 44 :: fr2 = (out ++ [c, 44]) ++ fr2 := by simp
          rw [e2, e4, this]
          simp; omega
      · simp only [hm, if_false]
        have hg : group (c :: t) = c :: group t := by
          cases t with
          | nil => simp [group]
          | cons c2 t2 =>
            simp only [List.length_cons] at hm
            rw [group]; simp [hm]
        rw [hg] at hcap ⊢
        have := ih (pre ++ [c]) rest (out ++ [c]) fr k ht hk (by simp at hcap; omega)
        simp only [List.length_append, List.length_cons, List.length_nil, Nat.zero_add] at this
        have e3 : out ++ c :: fr = (out ++ [c]) ++ fr := by simp
        rw [e2, e3, this]
        simp; omega

/-- the whole routine for a magnitude below 10^10 (every `unsigned int`): the 15-byte block holds
    sign, grouped digits and terminator -/
theorem qstrCommaNumber_correct (z : Int) (h1 : -2147483648 ≤ z) (h2 : z < 2147483648) :
    ∃ b, qstrCommaNumber z = .ok b ∧ b.length = 15 ∧ cstr b = commaInt z := by
  have habs : z.natAbs % 4294967296 = z.natAbs := Nat.mod_eq_of_lt (by omega)
  have hmag : z.natAbs < 10 ^ 10 := by omega
  have hlen := decNat_length_le 10 z.natAbs (by omega) hmag
  have hnf := decNat_nulFree z.natAbs
  have htake : (decNat z.natAbs).take 10 = decNat z.natAbs := List.take_of_length_le hlen
  have hgl := group_length (decNat z.natAbs)
  have hg13 : (group (decNat z.natAbs)).length ≤ 13 := by omega
  unfold qstrCommaNumber commaInt commaFinish
  rw [habs, htake]
  have hfuel : (decNat z.natAbs).length < (decNat z.natAbs ++ [0]).length + 1 := by
    simp only [List.length_append, List.length_singleton]; omega
  by_cases hneg : z < 0
  · simp only [hneg, if_true]
    have hw : wr (List.replicate 15 fillByte) 0 45 = .ok ([45] ++ List.replicate 14 fillByte) := rfl
    rw [hw]
    simp only [bind_ok]
    have := commaLoop_spec (decNat z.natAbs) [] [] [45] (List.replicate 14 fillByte)
      ((decNat z.natAbs ++ [0]).length + 1) hnf hfuel (by simp; omega)
    simp only [List.nil_append, List.length_nil, List.length_singleton] at this
    rw [this]
    simp only [bind_ok]
    have hlt : (group (decNat z.natAbs)).length < (List.replicate 14 fillByte).length := by
      simp; omega
    rw [List.drop_eq_getElem_cons hlt,
      wr_mid' ([45] ++ group (decNat z.natAbs)) _ _ 0 _ (by simp; omega)]
    refine ⟨_, rfl, ?_, ?_⟩
    · simp; omega
    · have e : ∀ fr, [45] ++ group (decNat z.natAbs) ++ 0 :: fr
          = (45 :: group (decNat z.natAbs)) ++ 0 :: fr := by simp
      rw [e, cstr_append_nul, group_decNat]
      intro x hx
      rcases List.mem_cons.mp hx with h | h
      · subst h; decide
      · exact group_nulFree hnf x h
  · simp only [hneg, if_false]
    have := commaLoop_spec (decNat z.natAbs) [] [] [] (List.replicate 15 fillByte)
      ((decNat z.natAbs ++ [0]).length + 1) hnf hfuel (by simp; omega)
    simp only [List.nil_append, List.length_nil] at this
    rw [this]
    simp only [bind_ok]
    have hlt : (group (decNat z.natAbs)).length < (List.replicate 15 fillByte).length := by
      simp; omega
    rw [List.drop_eq_getElem_cons hlt, wr_mid' (group (decNat z.natAbs)) _ _ 0 _ (by simp)]
    refine ⟨_, rfl, ?_, ?_⟩
    · simp; omega
    · rw [cstr_append_nul (group_nulFree hnf), group_decNat]

end Qlibc.Str
